(** Proofs for C20: the upward walk of FilesystemLoader.find from an absolute
    normalised start directory finds the first ancestor offering a candidate,
    the root excepted. *)
From InvokeVerif Require Import Model.LoaderModel Spec.C20Spec.
From Coq Require Import Lia.

(** * strings *)
Lemma comp_okb_prop c : comp_okb c = true -> c <> "" /\ contains_char sep c = false.
Proof.
  unfold comp_okb. intros H. rewrite !andb_true_iff in H. destruct H as [[[H1 H2] _] _].
  apply negb_true_iff in H1, H2. apply String.eqb_neq in H1. now split.
Qed.

Lemma comp_okb_dots c : comp_okb c = true -> c <> "." /\ c <> "..".
Proof.
  unfold comp_okb. intros H. rewrite !andb_true_iff in H. destruct H as [[_ H3] H4].
  apply negb_true_iff in H3, H4. apply String.eqb_neq in H3, H4. now split.
Qed.

Lemma filter_not_dot comps : comps_okb comps = true -> filter not_dot comps = comps.
Proof.
  induction comps as [|c l IH]; intros H; [reflexivity|]. cbn [comps_okb forallb] in H.
  apply andb_true_iff in H. destruct H as [Hc Hl]. destruct (comp_okb_dots c Hc) as [Hd _].
  cbn [filter]. unfold not_dot at 1. apply String.eqb_neq in Hd. rewrite Hd. cbn [negb].
  f_equal. now apply IH.
Qed.

Lemma split_no_sep c : contains_char sep c = false -> split_char sep c = [c].
Proof.
  induction c as [|a c IH]; simpl; [reflexivity|].
  intros H. apply orb_false_iff in H. destruct H as [H1 H2].
  rewrite H1, (IH H2). reflexivity.
Qed.

Lemma split_app_sep c r : contains_char sep c = false ->
  split_char sep (c ++ String sep r) = c :: split_char sep r.
Proof.
  induction c as [|a c IH]; simpl; intros H.
  - reflexivity.
  - apply orb_false_iff in H. destruct H as [H1 H2]. rewrite H1, (IH H2). reflexivity.
Qed.

Lemma join_cons2 x y l : join "/" (x :: y :: l) = (x ++ String sep (join "/" (y :: l)))%string.
Proof. reflexivity. Qed.

Lemma split_join comps : comps <> [] -> comps_okb comps = true ->
  split_char sep (join "/" comps) = comps.
Proof.
  induction comps as [|x [|y l] IH]; intros Hne Hok; [congruence | |].
  - simpl in Hok. rewrite andb_true_r in Hok. destruct (comp_okb_prop _ Hok) as [_ H].
    simpl. now apply split_no_sep.
  - rewrite join_cons2. simpl in Hok. apply andb_true_iff in Hok. destruct Hok as [Hx Hl].
    destruct (comp_okb_prop _ Hx) as [_ H]. rewrite split_app_sep by assumption.
    f_equal. apply IH; [discriminate | exact Hl].
Qed.

Lemma split_dir_str comps : comps <> [] -> comps_okb comps = true ->
  split_char sep (dir_str comps) = "" :: comps.
Proof.
  intros Hne Hok. unfold dir_str. change ("/" ++ join "/" comps)%string with (String sep (join "/" comps)).
  cbn [split_char]. rewrite Ascii.eqb_refl. now rewrite split_join.
Qed.

Lemma join_nonempty x l : x <> "" -> join "/" (x :: l) <> "".
Proof.
  intros Hx. destruct l as [|y l]; [exact Hx|]. rewrite join_cons2.
  destruct x; [congruence | discriminate].
Qed.

Lemma last_is_sep_app a b : b <> "" -> last_is_sep (a ++ b) = last_is_sep b.
Proof.
  intros Hb. induction a as [|c a IH]; [reflexivity|].
  cbn [append last_is_sep]. destruct (a ++ b)%string eqn:E.
  - destruct a; [simpl in E; congruence | discriminate].
  - exact IH.
Qed.

Lemma last_is_sep_comp c : contains_char sep c = false -> last_is_sep c = false.
Proof.
  induction c as [|a c IH]; [reflexivity|].
  intros H. cbn [contains_char] in H. apply orb_false_iff in H. destruct H as [H1 H2].
  cbn [last_is_sep]. destruct c; [exact H1 | now apply IH].
Qed.

Lemma last_is_sep_join comps : comps <> [] -> comps_okb comps = true ->
  last_is_sep (join "/" comps) = false.
Proof.
  induction comps as [|x [|y l] IH]; intros Hne Hok; [congruence | |].
  - simpl in Hok. rewrite andb_true_r in Hok. destruct (comp_okb_prop _ Hok) as [_ H].
    now apply last_is_sep_comp.
  - rewrite join_cons2. cbn [comps_okb forallb] in Hok. apply andb_true_iff in Hok.
    destruct Hok as [Hx Hl]. rewrite last_is_sep_app by discriminate.
    assert (Hy : comp_okb y = true) by (cbn [forallb] in Hl; now apply andb_true_iff in Hl).
    destruct (comp_okb_prop _ Hy) as [Hy1 _].
    cbn [last_is_sep]. destruct (join "/" (y :: l)) eqn:E.
    + now apply join_nonempty in E.
    + apply IH; [discriminate | exact Hl].
Qed.

Lemma dir_str_facts d : d <> [] -> comps_okb d = true ->
  String.eqb (dir_str d) "" = false /\ last_is_sep (dir_str d) = false /\
  String.eqb (dir_str d) "/" = false /\ starts_with "/" (dir_str d) = true.
Proof.
  intros Hne Hok. unfold dir_str.
  change ("/" ++ join "/" d)%string with (String sep (join "/" d)).
  destruct d as [|x l]; [congruence|].
  assert (Hx : comp_okb x = true) by (cbn [comps_okb forallb] in Hok; now apply andb_true_iff in Hok).
  destruct (comp_okb_prop _ Hx) as [Hx1 _].
  pose proof (join_nonempty x l Hx1) as Hj.
  repeat split.
  - cbn [last_is_sep]. destruct (join "/" (x :: l)) eqn:E; [congruence|]. rewrite <- E.
    now apply last_is_sep_join.
  - destruct (join "/" (x :: l)) eqn:E; [congruence | reflexivity].
Qed.

Lemma path_join_child d n : d <> [] -> comps_okb d = true ->
  path_join (dir_str d) n = child (dir_str d) n.
Proof.
  intros Hne Hok. destruct (dir_str_facts d Hne Hok) as (H1 & H2 & H3 & _).
  unfold path_join, child. now rewrite H1, H2, H3.
Qed.

Lemma sapp_assoc (a b c : string) : ((a ++ b) ++ c = a ++ (b ++ c))%string.
Proof. induction a as [|x a IH]; simpl; [reflexivity | now rewrite IH]. Qed.

Lemma child_dir_str d n : d <> [] -> comps_okb d = true ->
  child (dir_str d) n = dir_str (d ++ [n]).
Proof.
  intros Hne Hok. unfold child. destruct (dir_str_facts d Hne Hok) as (_ & _ & H3 & _). rewrite H3.
  assert (E : forall l, l <> [] -> join "/" (l ++ [n]) = (join "/" l ++ "/" ++ n)%string).
  { induction l as [|x [|y l] IH]; intros H; [congruence | reflexivity |].
    change ((x :: y :: l) ++ [n]) with (x :: y :: (l ++ [n])). rewrite !join_cons2.
    change (y :: l ++ [n]) with ((y :: l) ++ [n]). rewrite IH by discriminate.
    now rewrite sapp_assoc. }
  unfold dir_str. rewrite (E d Hne). now rewrite sapp_assoc.
Qed.

Lemma join_root_cons d : d <> [] -> join "/" ("" :: d) = dir_str d.
Proof. destruct d as [|x l]; [congruence | reflexivity]. Qed.

Lemma comps_okb_app a b : comps_okb (a ++ b) = comps_okb a && comps_okb b.
Proof. unfold comps_okb. apply forallb_app. Qed.

Lemma path_parent_child d n : d <> [] -> comps_okb d = true -> comp_okb n = true ->
  path_parent (child (dir_str d) n) = dir_str d.
Proof.
  intros Hne Hok Hn. rewrite child_dir_str by assumption. unfold path_parent.
  assert (Hall : comps_okb (d ++ [n]) = true) by (rewrite comps_okb_app, Hok; simpl; now rewrite Hn).
  rewrite split_dir_str.
  - cbn [filter]. change (not_dot "") with true. cbv iota. rewrite (filter_not_dot _ Hall).
    change ("" :: d ++ [n]) with (("" :: d) ++ [n]). rewrite removelast_last, join_root_cons by assumption.
    destruct (dir_str_facts d Hne Hok) as (H1 & _). now rewrite H1.
  - destruct d; [congruence | discriminate].
  - rewrite comps_okb_app, Hok. simpl. now rewrite Hn.
Qed.

Lemma comp_okb_app a b : comp_okb a = true -> contains_char sep b = false -> comp_okb (a ++ b) = true.
Proof.
  intros Ha Hb. destruct (comp_okb_prop _ Ha) as [H1 H2]. destruct (comp_okb_dots _ Ha) as [H3 H4].
  unfold comp_okb. rewrite !andb_true_iff. repeat split; apply negb_true_iff.
  - apply String.eqb_neq. destruct a; [congruence | discriminate].
  - clear H1 H3 H4 Ha. unfold sep in *. induction a as [|c a IH]; cbn [contains_char append] in *; [exact Hb|].
    apply orb_false_iff in H2. destruct H2 as [H2 H3]. rewrite H2. now apply IH.
  - apply String.eqb_neq. intros C. destruct a as [|c [|c' a]]; [congruence| |discriminate C].
    cbn [append] in C. destruct b; [|discriminate C]. now apply H3.
  - apply String.eqb_neq. intros C. destruct a as [|c [|c' [|c'' a]]]; [congruence| | |discriminate C].
    + cbn [append] in C. destruct b as [|x [|y b]]; try discriminate C.
      injection C as -> ->. now apply H3.
    + cbn [append] in C. destruct b; [|discriminate C]. now apply H4.
Qed.

(** * the walk *)
Fixpoint anc_noroot (comps : list string) (k : nat) : list (list string) :=
  match k with
  | O => []
  | S k' => firstn k comps :: anc_noroot comps k'
  end.

Lemma ancestors_from_split comps k : ancestors_from comps k = anc_noroot comps k ++ [[]].
Proof. induction k as [|k IH]; simpl; [reflexivity | now rewrite IH]. Qed.

Lemma first_candidate_app fs name l1 l2 :
  first_candidate fs name (l1 ++ l2) =
  match first_candidate fs name l1 with
  | Some c => Some c
  | None => first_candidate fs name l2
  end.
Proof.
  induction l1 as [|d l1 IH]; simpl; [reflexivity|].
  destruct (candidate fs name (dir_str d)); [reflexivity | exact IH].
Qed.

(** the tail of [load] *)
Definition finish (cwd : string) (r : find_res) : load_res :=
  match r with
  | FSpec location is_pkg =>
      let origin := abs_location cwd location in
      let enclosing := path_parent origin in
      Loaded origin (if is_pkg then path_parent enclosing else enclosing)
  | FNone => ImportErr
  | FNotFound => NotFound
  end.

Lemma load_finish fs cwd name start : load fs cwd name start = finish cwd (LoaderModel.find fs name start).
Proof. reflexivity. Qed.

Definition to_loaded (c : option (string * string)) : load_res :=
  match c with
  | Some (f, p) => Loaded f p
  | None => NotFound
  end.

Lemma firstn_ok comps k : comps_okb comps = true -> comps_okb (firstn k comps) = true.
Proof.
  revert k. induction comps as [|x l IH]; intros [|k] H; simpl; try reflexivity.
  simpl in H. apply andb_true_iff in H. destruct H as [H1 H2]. rewrite H1. now apply IH.
Qed.

Lemma firstn_S_nonempty {A} (l : list A) k : l <> [] -> firstn (S k) l <> [].
Proof. destruct l; [congruence | discriminate]. Qed.

Lemma walk_abs fs cwd name comps :
  comps <> [] -> comps_okb comps = true -> comp_okb name = true ->
  listdir fs "" = None ->
  forall k, k <= List.length comps ->
    forallb (fun d => match listdir fs (dir_str d) with Some _ => true | None => false end)
            (anc_noroot comps k) = true ->
    finish cwd (walk fs name ("" :: comps) (S k)) =
    to_loaded (first_candidate fs name (anc_noroot comps k)).
Proof.
  intros Hne Hok Hname Hempty. induction k as [|k IH]; intros Hk Hl.
  - cbn [walk firstn]. change (join "/" [""]) with "". now rewrite Hempty.
  - cbn [anc_noroot forallb] in Hl. apply andb_true_iff in Hl. destruct Hl as [Hd Hl].
    set (d := firstn (S k) comps) in *.
    assert (Hdne : d <> []) by now apply firstn_S_nonempty.
    assert (Hdok : comps_okb d = true) by now apply firstn_ok.
    assert (Hpath : join "/" (firstn (S (S k)) ("" :: comps)) = dir_str d).
    { change (firstn (S (S k)) ("" :: comps)) with ("" :: firstn (S k) comps). now apply join_root_cons. }
    assert (Hpy : comp_okb (name ++ ".py") = true) by now apply comp_okb_app.
    assert (Hinit : comp_okb "__init__.py" = true) by reflexivity.
    cbn [anc_noroot first_candidate]. fold d.
    remember (S k) as k1. cbn [walk]. rewrite Hpath. unfold candidate.
    destruct (listdir fs (dir_str d)) as [es|]; [|discriminate].
    rewrite !path_join_child by assumption.
    destruct (mem (name ++ ".py") es).
    + cbn [finish to_loaded]. destruct (dir_str_facts d Hdne Hdok) as (_ & _ & _ & Hs).
      assert (Ha : abs_location cwd (child (dir_str d) (name ++ ".py")) = child (dir_str d) (name ++ ".py")).
      { unfold abs_location. rewrite child_dir_str by assumption.
        unfold dir_str at 1. reflexivity. }
      rewrite Ha, path_parent_child by assumption. reflexivity.
    + assert (Hd2ne : d ++ [name] <> []) by (destruct d; discriminate).
      assert (Hd2ok : comps_okb (d ++ [name]) = true).
      { rewrite comps_okb_app, Hdok. simpl. now rewrite Hname. }
      rewrite (child_dir_str d name) by assumption.
      rewrite (path_join_child (d ++ [name])) by assumption.
      destruct (mem name es && path_exists fs (child (dir_str (d ++ [name])) "__init__.py")).
      * cbn [finish to_loaded].
        assert (Ha : abs_location cwd (child (dir_str (d ++ [name])) "__init__.py") =
                     child (dir_str (d ++ [name])) "__init__.py").
        { unfold abs_location. rewrite child_dir_str by assumption. unfold dir_str at 1. reflexivity. }
        rewrite Ha, path_parent_child by assumption.
        rewrite <- (child_dir_str d name) by assumption.
        rewrite path_parent_child by assumption. reflexivity.
      * subst k1. apply IH; [lia | exact Hl].
Qed.

(** * the property-level statements *)
Definition obs_of (r : load_res) : observed :=
  match r with
  | Loaded f p => OLoaded f p
  | NotFound => ONotFound
  | ImportErr => OImportError
  end.

Lemma guard_abs_parts fs comps name : guard_abs fs comps name = true ->
  comps <> [] /\ comps_okb comps = true /\ comp_okb name = true /\ listdir fs "" = None /\
  all_listable fs comps = true.
Proof.
  unfold guard_abs. intros H.
  repeat (apply andb_true_iff in H; destruct H as [H ?]).
  repeat split; try assumption.
  - destruct comps; [discriminate | discriminate].
  - destruct (listdir fs ""); [discriminate | reflexivity].
Qed.

Theorem load_abs fs cwd name comps :
  guard_abs fs comps name = true ->
  load fs cwd name (dir_str comps) =
  to_loaded (first_candidate fs name (anc_noroot comps (List.length comps))).
Proof.
  intros G. destruct (guard_abs_parts _ _ _ G) as (Hne & Hok & Hname & Hempty & Hl).
  rewrite load_finish. unfold LoaderModel.find. rewrite split_dir_str by assumption.
  cbn [List.length]. apply walk_abs; auto.
  unfold all_listable, ancestors in Hl. rewrite ancestors_from_split, forallb_app in Hl.
  now apply andb_true_iff in Hl.
Qed.

Lemma expected_split fs name comps :
  expected fs name comps =
  match first_candidate fs name (anc_noroot comps (List.length comps)) with
  | Some c => Some c
  | None => candidate fs name "/"
  end.
Proof.
  unfold expected, ancestors. rewrite ancestors_from_split, first_candidate_app.
  destruct (first_candidate fs name (anc_noroot comps (List.length comps))); [reflexivity|].
  cbn [first_candidate]. change (dir_str []) with "/". now destruct (candidate fs name "/").
Qed.

(** nearest ancestor wins -- missing for full strength: a candidate in "/" *)
Theorem nearest_partial fs cwd name comps :
  guard_abs fs comps name = true -> root_clear fs name = true ->
  load fs cwd name (dir_str comps) = to_loaded (expected fs name comps).
Proof.
  intros G R. rewrite (load_abs _ _ _ _ G), expected_split.
  destruct (first_candidate fs name (anc_noroot comps (List.length comps))); [reflexivity|].
  unfold root_clear in R. now destruct (candidate fs name "/").
Qed.

Lemma resolve_plain : forall l acc,
  comps_okb l = true ->
  fold_left (fun acc c => if String.eqb c ".." then removelast acc else acc ++ [c]) l acc = acc ++ l.
Proof.
  induction l as [|c l IH]; intros acc H; [now rewrite app_nil_r|].
  cbn [comps_okb forallb] in H. apply andb_true_iff in H. destruct H as [Hc Hl].
  destruct (comp_okb_dots c Hc) as [_ Hd]. apply String.eqb_neq in Hd.
  cbn [fold_left]. rewrite Hd, (IH _ Hl), <- app_assoc. reflexivity.
Qed.

Lemma comps_of_dir_str comps : comps <> [] -> comps_okb comps = true -> comps_of (dir_str comps) = comps.
Proof.
  intros Hne Hok. unfold comps_of, raw_comps. change "/"%char with sep. rewrite split_dir_str by assumption.
  cbn [filter String.eqb negb andb].
  assert (F : filter (fun c => negb (String.eqb c "") && negb (String.eqb c ".")) comps = comps).
  { clear Hne. induction comps as [|x l IH]; [reflexivity|].
    cbn [comps_okb forallb] in Hok. apply andb_true_iff in Hok. destruct Hok as [Hx Hl].
    destruct (comp_okb_prop _ Hx) as [Hx1 _]. destruct (comp_okb_dots _ Hx) as [Hx2 _].
    apply String.eqb_neq in Hx1, Hx2. cbn [filter]. rewrite Hx1, Hx2. cbn [negb andb]. f_equal. now apply IH. }
  rewrite F. unfold resolve. now rewrite resolve_plain.
Qed.

(** flagship: the model meets the executable specification on the guarded region *)
Theorem spec_partial fs cwd name comps :
  guard_abs fs comps name = true -> root_clear fs name = true ->
  spec_ok fs cwd (dir_str comps) name (obs_of (load fs cwd name (dir_str comps))) = true.
Proof.
  intros G R. rewrite (nearest_partial _ _ _ _ G R).
  destruct (guard_abs_parts _ _ _ G) as (Hne & Hok & _).
  unfold spec_ok, abs_comps.
  destruct (dir_str_facts comps Hne Hok) as (_ & _ & _ & Hs). rewrite Hs.
  rewrite comps_of_dir_str by assumption.
  destruct (expected fs name comps) as [[f p]|]; cbn; [|reflexivity].
  now rewrite !String.eqb_refl.
Qed.

(** not found, full strength: no ancestor (root included) offers a candidate *)
Theorem not_found fs cwd name comps :
  guard_abs fs comps name = true -> expected fs name comps = None ->
  load fs cwd name (dir_str comps) = NotFound.
Proof.
  intros G E. rewrite (load_abs _ _ _ _ G). rewrite expected_split in E.
  now destruct (first_candidate fs name (anc_noroot comps (List.length comps))).
Qed.

Lemma first_candidate_some fs name l c :
  first_candidate fs name l = Some c ->
  exists l1 d l2, l = l1 ++ d :: l2 /\ candidate fs name (dir_str d) = Some c /\
                  forall d', In d' l1 -> candidate fs name (dir_str d') = None.
Proof.
  induction l as [|d l IH]; simpl; [discriminate|].
  destruct (candidate fs name (dir_str d)) as [c'|] eqn:E.
  - intros H; injection H as <-. exists [], d, l. repeat split; auto. intros d' [].
  - intros H. destruct (IH H) as (l1 & d0 & l2 & -> & H1 & H2).
    exists (d :: l1), d0, l2. repeat split; auto. intros d' [<-|Hd]; auto.
Qed.

Lemma anc_first fs name comps c : forall n,
  first_candidate fs name (anc_noroot comps n) = Some c ->
  exists j, 1 <= j <= n /\
    candidate fs name (dir_str (firstn j comps)) = Some c /\
    forall k, j < k <= n -> candidate fs name (dir_str (firstn k comps)) = None.
Proof.
  induction n as [|n IH]; cbn [anc_noroot first_candidate]; [discriminate|].
  destruct (candidate fs name (dir_str (firstn (S n) comps))) as [c'|] eqn:Ec.
  - intros H; injection H as ->. exists (S n). repeat split; [lia | lia | assumption |].
    intros k Hk. lia.
  - intros H. destruct (IH H) as (j & Hj & Hc & Hn). exists j. repeat split; [lia | lia | assumption |].
    intros k Hk. destruct (Nat.eq_dec k (S n)) as [->|Hne]; [assumption | apply Hn; lia].
Qed.

(** whatever is loaded is the candidate of an ancestor and no nearer ancestor
    offers one (never a farther candidate) -- holds with or without a root candidate *)
Theorem loaded_is_nearest fs cwd name comps f p :
  guard_abs fs comps name = true ->
  load fs cwd name (dir_str comps) = Loaded f p ->
  exists j, 1 <= j <= List.length comps /\
    candidate fs name (dir_str (firstn j comps)) = Some (f, p) /\
    forall k, j < k <= List.length comps -> candidate fs name (dir_str (firstn k comps)) = None.
Proof.
  intros G H. rewrite (load_abs _ _ _ _ G) in H.
  destruct (first_candidate fs name (anc_noroot comps (List.length comps))) as [[f' p']|] eqn:E;
    [|discriminate]. injection H as -> ->.
  now apply anc_first.
Qed.

(** the parent rule: project directory = directory of the module, one level
    above the package directory *)
Theorem parent_rule fs name d f p :
  candidate fs name d = Some (f, p) ->
  p = d /\ (f = child d (name ++ ".py") \/ f = child (child d name) "__init__.py").
Proof.
  unfold candidate. destruct (listdir fs d) as [es|]; [|discriminate].
  destruct (mem (name ++ ".py") es).
  - intros H; injection H as <- <-. auto.
  - destruct (mem name es && path_exists fs (child (child d name) "__init__.py")); [|discriminate].
    intros H; injection H as <- <-. auto.
Qed.

(** * refutations *)
Definition fs_root : fsys := mkFs [("/a", []); ("/", ["tasks.py"])] [].

Lemma root_refutes :
  guard_abs fs_root ["a"] "tasks" = true /\
  load fs_root "/" "tasks" (dir_str ["a"]) = NotFound /\
  expected fs_root "tasks" ["a"] = Some ("/tasks.py", "/") /\
  spec_ok fs_root "/" (dir_str ["a"]) "tasks" (obs_of (load fs_root "/" "tasks" (dir_str ["a"]))) = false.
Proof. repeat split. Qed.

Definition fs_rel : fsys :=
  mkFs [("/w/d1", []); ("/w", ["tasks.py"]); ("/", []); ("d1", [])] [].

Lemma relative_refutes :
  load fs_rel "/w" "tasks" "d1" = NotFound /\
  expected fs_rel "tasks" (abs_comps "/w" "d1") = Some ("/w/tasks.py", "/w") /\
  spec_ok fs_rel "/w" "d1" "tasks" (obs_of (load fs_rel "/w" "tasks" "d1")) = false.
Proof. repeat split. Qed.

(** non-vacuity: module shadowing a farther package, found from two levels below *)
Definition fs_ex : fsys :=
  mkFs [("/p/q/r/s", []); ("/p/q/r", ["other.py"]); ("/p/q", ["tasks"; "tasks.py"]); ("/p", ["tasks"]); ("/", [])]
       ["/p/q/tasks/__init__.py"; "/p/tasks/__init__.py"].

Lemma example_nearest :
  guard_abs fs_ex ["p"; "q"; "r"; "s"] "tasks" = true /\ root_clear fs_ex "tasks" = true /\
  load fs_ex "/" "tasks" "/p/q/r/s" = Loaded "/p/q/tasks.py" "/p/q" /\
  load fs_ex "/" "tasks" "/p" = Loaded "/p/tasks/__init__.py" "/p".
Proof. repeat split. Qed.

(** the parent rule, about the model's own answer: the reported project
    directory is Path(file).parent for a module and one level further up for a
    package *)
Theorem parent_of_loaded fs cwd name comps f p :
  guard_abs fs comps name = true ->
  load fs cwd name (dir_str comps) = Loaded f p ->
  (f = child p (name ++ ".py") /\ p = path_parent f) \/
  (f = child (child p name) "__init__.py" /\ p = path_parent (path_parent f)).
Proof.
  intros G H. destruct (guard_abs_parts _ _ _ G) as (Hne & Hok & Hname & _).
  destruct (loaded_is_nearest fs cwd name comps f p G H) as (j & Hj & Hc & _).
  destruct (parent_rule fs name _ f p Hc) as [-> Hf].
  set (d := firstn j comps) in *.
  assert (Hd : d <> []).
  { unfold d. destruct j as [|j]; [lia|]. now apply firstn_S_nonempty. }
  assert (Hdok : comps_okb d = true) by now apply firstn_ok.
  assert (Hpy : comp_okb (name ++ ".py") = true) by now apply comp_okb_app.
  destruct Hf as [-> | ->].
  - left. split; [reflexivity|]. now rewrite path_parent_child.
  - right. split; [reflexivity|].
    assert (Hd2 : d ++ [name] <> []) by (destruct d; discriminate).
    assert (Hd2ok : comps_okb (d ++ [name]) = true) by (rewrite comps_okb_app, Hdok; simpl; now rewrite Hname).
    rewrite (child_dir_str d name) by assumption.
    rewrite (path_parent_child (d ++ [name])) by (assumption || reflexivity).
    rewrite <- (child_dir_str d name) by assumption. now rewrite path_parent_child.
Qed.

(** F-C20c: a start path with a ".." component makes the walk examine the
    directory *before* the ".." -- not an ancestor of the start -- first *)
Definition fs_dotdot : fsys :=
  mkFs [("/a/b/..", []); ("/a/b", ["tasks.py"]); ("/a", []); ("/", [])] [].

Lemma dotdot_refutes :
  load fs_dotdot "/" "tasks" "/a/b/.." = Loaded "/a/b/tasks.py" "/a/b" /\
  abs_comps "/" "/a/b/.." = ["a"] /\
  expected fs_dotdot "tasks" (abs_comps "/" "/a/b/..") = None /\
  spec_ok fs_dotdot "/" "/a/b/.." "tasks" (obs_of (load fs_dotdot "/" "tasks" "/a/b/..")) = false.
Proof. repeat split. Qed.
