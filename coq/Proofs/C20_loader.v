(** Proofs for C20: the upward walk of FilesystemLoader.find from an absolute
    normalised start directory finds the first ancestor offering a candidate,
    the root excepted. *)
From InvokeVerif Require Import Model.LoaderModel Spec.C20Spec.
From Coq Require Import Lia.

(** * strings *)
Lemma comp_okb_prop c : comp_okb c = true -> c <> "" /\ contains_char sep c = false.
Proof.
  unfold comp_okb. intros H. rewrite !andb_true_iff in H. destruct H as [[[H1 H2] _] _].
  apply negb_true_iff in H1, H2. apply String.eqb_neq in H1. now split.
Qed.

Lemma comp_okb_dots c : comp_okb c = true -> c <> "." /\ c <> "..".
Proof.
  unfold comp_okb. intros H. rewrite !andb_true_iff in H. destruct H as [[_ H3] H4].
  apply negb_true_iff in H3, H4. apply String.eqb_neq in H3, H4. now split.
Qed.

Lemma filter_not_dot comps : comps_okb comps = true -> filter not_dot comps = comps.
Proof.
  induction comps as [|c l IH]; intros H; [reflexivity|]. cbn [comps_okb forallb] in H.
  apply andb_true_iff in H. destruct H as [Hc Hl]. destruct (comp_okb_dots c Hc) as [Hd _].
  cbn [filter]. unfold not_dot at 1. apply String.eqb_neq in Hd. rewrite Hd. cbn [negb].
  f_equal. now apply IH.
Qed.

Lemma split_no_sep c : contains_char sep c = false -> split_char sep c = [c].
Proof.
  induction c as [|a c IH]; simpl; [reflexivity|].
  intros H. apply orb_false_iff in H. destruct H as [H1 H2].
  rewrite H1, (IH H2). reflexivity.
Qed.

Lemma split_app_sep c r : contains_char sep c = false ->
  split_char sep (c ++ String sep r) = c :: split_char sep r.
Proof.
  induction c as [|a c IH]; simpl; intros H.
  - reflexivity.
  - apply orb_false_iff in H. destruct H as [H1 H2]. rewrite H1, (IH H2). reflexivity.
Qed.

Lemma join_cons2 x y l : join "/" (x :: y :: l) = (x ++ String sep (join "/" (y :: l)))%string.
Proof. reflexivity. Qed.

Lemma split_join comps : comps <> [] -> comps_okb comps = true ->
  split_char sep (join "/" comps) = comps.
Proof.
  induction comps as [|x [|y l] IH]; intros Hne Hok; [congruence | |].
  - simpl in Hok. rewrite andb_true_r in Hok. destruct (comp_okb_prop _ Hok) as [_ H].
    simpl. now apply split_no_sep.
  - rewrite join_cons2. simpl in Hok. apply andb_true_iff in Hok. destruct Hok as [Hx Hl].
    destruct (comp_okb_prop _ Hx) as [_ H]. rewrite split_app_sep by assumption.
    f_equal. apply IH; [discriminate | exact Hl].
Qed.

Lemma split_dir_str comps : comps <> [] -> comps_okb comps = true ->
  split_char sep (dir_str comps) = "" :: comps.
Proof.
  intros Hne Hok. unfold dir_str. change ("/" ++ join "/" comps)%string with (String sep (join "/" comps)).
  cbn [split_char]. rewrite Ascii.eqb_refl. now rewrite split_join.
Qed.

Lemma join_nonempty x l : x <> "" -> join "/" (x :: l) <> "".
Proof.
  intros Hx. destruct l as [|y l]; [exact Hx|]. rewrite join_cons2.
  destruct x; [congruence | discriminate].
Qed.

Lemma last_is_sep_app a b : b <> "" -> last_is_sep (a ++ b) = last_is_sep b.
Proof.
  intros Hb. induction a as [|c a IH]; [reflexivity|].
  cbn [append last_is_sep]. destruct (a ++ b)%string eqn:E.
  - destruct a; [simpl in E; congruence | discriminate].
  - exact IH.
Qed.

Lemma last_is_sep_comp c : contains_char sep c = false -> last_is_sep c = false.
Proof.
  induction c as [|a c IH]; [reflexivity|].
  intros H. cbn [contains_char] in H. apply orb_false_iff in H. destruct H as [H1 H2].
  cbn [last_is_sep]. destruct c; [exact H1 | now apply IH].
Qed.

Lemma last_is_sep_join comps : comps <> [] -> comps_okb comps = true ->
  last_is_sep (join "/" comps) = false.
Proof.
  induction comps as [|x [|y l] IH]; intros Hne Hok; [congruence | |].
  - simpl in Hok. rewrite andb_true_r in Hok. destruct (comp_okb_prop _ Hok) as [_ H].
    now apply last_is_sep_comp.
  - rewrite join_cons2. cbn [comps_okb forallb] in Hok. apply andb_true_iff in Hok.
    destruct Hok as [Hx Hl]. rewrite last_is_sep_app by discriminate.
    assert (Hy : comp_okb y = true) by (cbn [forallb] in Hl; now apply andb_true_iff in Hl).
    destruct (comp_okb_prop _ Hy) as [Hy1 _].
    cbn [last_is_sep]. destruct (join "/" (y :: l)) eqn:E.
    + now apply join_nonempty in E.
    + apply IH; [discriminate | exact Hl].
Qed.

Lemma dir_str_facts d : d <> [] -> comps_okb d = true ->
  String.eqb (dir_str d) "" = false /\ last_is_sep (dir_str d) = false /\
  String.eqb (dir_str d) "/" = false /\ starts_with "/" (dir_str d) = true.
Proof.
  intros Hne Hok. unfold dir_str.
  change ("/" ++ join "/" d)%string with (String sep (join "/" d)).
  destruct d as [|x l]; [congruence|].
  assert (Hx : comp_okb x = true) by (cbn [comps_okb forallb] in Hok; now apply andb_true_iff in Hok).
  destruct (comp_okb_prop _ Hx) as [Hx1 _].
  pose proof (join_nonempty x l Hx1) as Hj.
  repeat split.
  - cbn [last_is_sep]. destruct (join "/" (x :: l)) eqn:E; [congruence|]. rewrite <- E.
    now apply last_is_sep_join.
  - destruct (join "/" (x :: l)) eqn:E; [congruence | reflexivity].
Qed.

Lemma path_join_child d n : d <> [] -> comps_okb d = true ->
  path_join (dir_str d) n = child (dir_str d) n.
Proof.
  intros Hne Hok. destruct (dir_str_facts d Hne Hok) as (H1 & H2 & H3 & _).
  unfold path_join, child. now rewrite H1, H2, H3.
Qed.

Lemma sapp_assoc (a b c : string) : ((a ++ b) ++ c = a ++ (b ++ c))%string.
Proof. induction a as [|x a IH]; simpl; [reflexivity | now rewrite IH]. Qed.

Lemma child_dir_str d n : d <> [] -> comps_okb d = true ->
  child (dir_str d) n = dir_str (d ++ [n]).
Proof.
  intros Hne Hok. unfold child. destruct (dir_str_facts d Hne Hok) as (_ & _ & H3 & _). rewrite H3.
  assert (E : forall l, l <> [] -> join "/" (l ++ [n]) = (join "/" l ++ "/" ++ n)%string).
  { induction l as [|x [|y l] IH]; intros H; [congruence | reflexivity |].
    change ((x :: y :: l) ++ [n]) with (x :: y :: (l ++ [n])). rewrite !join_cons2.
    change (y :: l ++ [n]) with ((y :: l) ++ [n]). rewrite IH by discriminate.
    now rewrite sapp_assoc. }
  unfold dir_str. rewrite (E d Hne). now rewrite sapp_assoc.
Qed.

Lemma join_root_cons d : d <> [] -> join "/" ("" :: d) = dir_str d.
Proof. destruct d as [|x l]; [congruence | reflexivity]. Qed.

Lemma comps_okb_app a b : comps_okb (a ++ b) = comps_okb a && comps_okb b.
Proof. unfold comps_okb. apply forallb_app. Qed.

Lemma path_parent_child d n : d <> [] -> comps_okb d = true -> comp_okb n = true ->
  path_parent (child (dir_str d) n) = dir_str d.
Proof.
  intros Hne Hok Hn. rewrite child_dir_str by assumption. unfold path_parent.
  assert (Hall : comps_okb (d ++ [n]) = true) by (rewrite comps_okb_app, Hok; simpl; now rewrite Hn).
  rewrite split_dir_str.
  - cbn [filter]. change (not_dot "") with true. cbv iota. rewrite (filter_not_dot _ Hall).
    change ("" :: d ++ [n]) with (("" :: d) ++ [n]). rewrite removelast_last, join_root_cons by assumption.
    destruct (dir_str_facts d Hne Hok) as (H1 & _). now rewrite H1.
  - destruct d; [congruence | discriminate].
  - rewrite comps_okb_app, Hok. simpl. now rewrite Hn.
Qed.

Lemma comp_okb_app a b : comp_okb a = true -> contains_char sep b = false -> comp_okb (a ++ b) = true.
Proof.
  intros Ha Hb. destruct (comp_okb_prop _ Ha) as [H1 H2]. destruct (comp_okb_dots _ Ha) as [H3 H4].
  unfold comp_okb. rewrite !andb_true_iff. repeat split; apply negb_true_iff.
  - apply String.eqb_neq. destruct a; [congruence | discriminate].
  - clear H1 H3 H4 Ha. unfold sep in *. induction a as [|c a IH]; cbn [contains_char append] in *; [exact Hb|].
    apply orb_false_iff in H2. destruct H2 as [H2 H3]. rewrite H2. now apply IH.
  - apply String.eqb_neq. intros C. destruct a as [|c [|c' a]]; [congruence| |discriminate C].
    cbn [append] in C. destruct b; [|discriminate C]. now apply H3.
  - apply String.eqb_neq. intros C. destruct a as [|c [|c' [|c'' a]]]; [congruence| | |discriminate C].
    + cbn [append] in C. destruct b as [|x [|y b]]; try discriminate C.
      injection C as -> ->. now apply H3.
    + cbn [append] in C. destruct b; [|discriminate C]. now apply H4.
Qed.

(** * normalised components are plain *)
Definition base_ok (c : string) : Prop := c <> "" /\ c <> "." /\ contains_char sep c = false.

Lemma split_no_sep_all s : Forall (fun c => contains_char sep c = false) (split_char sep s).
Proof.
  induction s as [|a s IH]; simpl; [repeat constructor|].
  destruct (Ascii.eqb a sep) eqn:E; [constructor; [reflexivity | exact IH]|].
  destruct (split_char sep s) as [|x l]; [repeat constructor; simpl; now rewrite E|].
  inversion IH as [|? ? Hx Hl]; subst. constructor; [simpl; now rewrite E, Hx | exact Hl].
Qed.

Lemma raw_comps_ok s : Forall base_ok (raw_comps s).
Proof.
  unfold raw_comps. pose proof (split_no_sep_all s) as H. change "/"%char with sep.
  induction (split_char sep s) as [|c l IH]; [constructor|].
  inversion H as [|? ? Hc Hl]; subst. cbn [filter].
  destruct (String.eqb c "") eqn:E1; cbn [negb andb]; [now apply IH|].
  destruct (String.eqb c ".") eqn:E2; cbn [negb]; [now apply IH|].
  constructor; [|now apply IH]. apply String.eqb_neq in E1, E2. repeat split; assumption.
Qed.

Lemma comps_okb_snoc acc c : comps_okb acc = true -> comp_okb c = true -> comps_okb (acc ++ [c]) = true.
Proof. intros A C. rewrite comps_okb_app, A. simpl. now rewrite C. Qed.

Lemma removelast_ok acc : comps_okb acc = true -> comps_okb (removelast acc) = true.
Proof.
  induction acc as [|a [|b l] IH]; intros H; try reflexivity.
  cbn [removelast]. cbn [comps_okb forallb] in *. apply andb_true_iff in H. destruct H as [Ha Hl].
  rewrite Ha. now apply IH.
Qed.

Lemma resolve_ok l : Forall base_ok l -> comps_okb (resolve l) = true.
Proof.
  unfold resolve. assert (G : forall acc, comps_okb acc = true -> Forall base_ok l ->
    comps_okb (fold_left (fun acc c => if String.eqb c ".." then removelast acc else acc ++ [c]) l acc) = true).
  { induction l as [|c l IH]; intros acc A H; [exact A|]. inversion H as [|? ? Hc Hl]; subst.
    cbn [fold_left]. destruct (String.eqb c "..") eqn:E.
    - apply IH; [now apply removelast_ok | exact Hl].
    - apply IH; [|exact Hl]. apply comps_okb_snoc; [exact A|].
      destruct Hc as (H1 & H2 & H3). unfold comp_okb.
      apply String.eqb_neq in H1, H2. change "/"%char with sep. now rewrite H1, H2, H3, E. }
  intros H. now apply G.
Qed.

Lemma abs_comps_ok cwd start : comps_okb (abs_comps cwd start) = true.
Proof.
  unfold abs_comps, comps_of. destruct (starts_with "/" start); apply resolve_ok.
  - apply raw_comps_ok.
  - apply Forall_app. split; apply raw_comps_ok.
Qed.

(** * the walk *)
Lemma first_candidate_app fs name l1 l2 :
  first_candidate fs name (l1 ++ l2) =
  match first_candidate fs name l1 with
  | Some c => Some c
  | None => first_candidate fs name l2
  end.
Proof.
  induction l1 as [|d l1 IH]; simpl; [reflexivity|].
  destruct (candidate fs name (dir_str d)); [reflexivity | exact IH].
Qed.

(** the tail of [load] *)
Definition finish (cwd : string) (r : find_res) : load_res :=
  match r with
  | FSpec location is_pkg =>
      let origin := abs_location cwd location in
      let enclosing := path_parent origin in
      Loaded origin (if is_pkg then path_parent enclosing else enclosing)
  | FNone => ImportErr
  | FNotFound => NotFound
  end.

Lemma load_finish fs cwd name start : load fs cwd name start = finish cwd (LoaderModel.find fs cwd name start).
Proof. reflexivity. Qed.

Definition to_loaded (c : option (string * string)) : load_res :=
  match c with
  | Some (f, p) => Loaded f p
  | None => NotFound
  end.

Lemma firstn_ok comps k : comps_okb comps = true -> comps_okb (firstn k comps) = true.
Proof.
  revert k. induction comps as [|x l IH]; intros [|k] H; simpl; try reflexivity.
  simpl in H. apply andb_true_iff in H. destruct H as [H1 H2]. rewrite H1. now apply IH.
Qed.

Lemma firstn_S_nonempty {A} (l : list A) k : l <> [] -> firstn (S k) l <> [].
Proof. destruct l; [congruence | discriminate]. Qed.

Lemma child_root n : child "/" n = dir_str [n].
Proof. reflexivity. Qed.

Lemma abs_location_dir cwd d : abs_location cwd (dir_str d) = dir_str d.
Proof. reflexivity. Qed.

Lemma path_parent_root n : comp_okb n = true -> path_parent (dir_str [n]) = "/".
Proof.
  intros Hn. unfold path_parent. rewrite split_dir_str by (discriminate || (simpl; now rewrite Hn)).
  cbn [filter]. change (not_dot "") with true. cbv iota.
  destruct (comp_okb_dots _ Hn) as [Hd _]. apply String.eqb_neq in Hd. unfold not_dot. rewrite Hd.
  reflexivity.
Qed.

(** what the loop body does at a directory equals the specification's [candidate] *)
Lemma body_at fs cwd name d rest :
  comps_okb d = true -> comp_okb name = true ->
  (forall es, listdir fs (dir_str d) = Some es ->
     finish cwd
       (if mem (name ++ ".py") es then FSpec (path_join (dir_str d) (name ++ ".py")) false
        else if mem name es && path_exists fs (path_join (path_join (dir_str d) name) "__init__.py")
        then FSpec (path_join (path_join (dir_str d) name) "__init__.py") true
        else rest)
     = match candidate fs name (dir_str d) with
       | Some c => to_loaded (Some c)
       | None => finish cwd rest
       end).
Proof.
  intros Hdok Hname es Hl. unfold candidate. rewrite Hl.
  assert (Hpy : comp_okb (name ++ ".py") = true) by now apply comp_okb_app.
  assert (Hinit : comp_okb "__init__.py" = true) by reflexivity.
  destruct d as [|x l].
  - (* the root *)
    change (dir_str []) with "/". change (path_join "/" (name ++ ".py")) with (child "/" (name ++ ".py")).
    change (path_join "/" name) with (child "/" name).
    assert (Ok1 : comps_okb [name] = true) by (simpl; now rewrite Hname).
    rewrite !child_root. rewrite (path_join_child [name]) by (discriminate || assumption).
    destruct (mem (name ++ ".py") es).
    + cbn [finish to_loaded]. now rewrite abs_location_dir, path_parent_root.
    + destruct (mem name es && path_exists fs (child (dir_str [name]) "__init__.py")); [|reflexivity].
      cbn [finish to_loaded]. rewrite (child_dir_str [name]) by (discriminate || assumption).
      rewrite abs_location_dir. rewrite <- (child_dir_str [name]) by (discriminate || assumption).
      rewrite path_parent_child by (discriminate || assumption). now rewrite path_parent_root.
  - (* below the root: as before *)
    set (d := x :: l) in *. assert (Hdne : d <> []) by discriminate.
    rewrite !path_join_child by assumption.
    destruct (mem (name ++ ".py") es).
    + cbn [finish to_loaded].
      assert (Ha : abs_location cwd (child (dir_str d) (name ++ ".py")) = child (dir_str d) (name ++ ".py")).
      { unfold abs_location. rewrite child_dir_str by assumption. reflexivity. }
      now rewrite Ha, path_parent_child.
    + assert (Hd2ne : d ++ [name] <> []) by discriminate.
      assert (Hd2ok : comps_okb (d ++ [name]) = true) by (rewrite comps_okb_app, Hdok; simpl; now rewrite Hname).
      rewrite (child_dir_str d name) by assumption.
      rewrite (path_join_child (d ++ [name])) by assumption.
      destruct (mem name es && path_exists fs (child (dir_str (d ++ [name])) "__init__.py")); [|reflexivity].
      cbn [finish to_loaded].
      assert (Ha : abs_location cwd (child (dir_str (d ++ [name])) "__init__.py") =
                   child (dir_str (d ++ [name])) "__init__.py").
      { unfold abs_location. rewrite child_dir_str by assumption. reflexivity. }
      rewrite Ha, path_parent_child by assumption.
      rewrite <- (child_dir_str d name) by assumption.
      now rewrite path_parent_child.
Qed.

Lemma walk_S fs name paths x :
  walk fs name paths (S x) =
  (let j := join "/" (firstn (S x) paths) in
   let path := if String.eqb j "" then "/" else j in
   match listdir fs path with
   | None => FNotFound
   | Some entries =>
       if mem (name ++ ".py") entries then FSpec (path_join path (name ++ ".py")) false
       else if mem name entries && path_exists fs (path_join (path_join path name) "__init__.py")
       then FSpec (path_join (path_join path name) "__init__.py") true
       else walk fs name paths x
   end).
Proof. reflexivity. Qed.

Definition listable (fs : fsys) (d : list string) : bool :=
  match listdir fs (dir_str d) with Some _ => true | None => false end.

(** from x = k+1 the loop visits firstn k comps, ..., firstn 1 comps, the root *)
Lemma walk_from fs cwd name comps :
  comps_okb comps = true -> comp_okb name = true ->
  forall k, k <= List.length comps ->
    forallb (listable fs) (ancestors_from comps k) = true ->
    finish cwd (walk fs name ("" :: comps) (S k)) =
    to_loaded (first_candidate fs name (ancestors_from comps k)).
Proof.
  intros Hok Hname. induction k as [|k IH]; intros Hk Hl.
  - cbn [walk firstn ancestors_from first_candidate]. change (join "/" [""]) with "". cbn [String.eqb].
    cbn [ancestors_from forallb] in Hl. rewrite andb_true_r in Hl. unfold listable in Hl.
    change (dir_str []) with "/" in *.
    destruct (listdir fs "/") as [es|] eqn:El; [|discriminate].
    pose proof (body_at fs cwd name [] FNotFound eq_refl Hname es El) as B.
    change (dir_str []) with "/" in B. rewrite B.
    destruct (candidate fs name "/") as [[f p]|]; reflexivity.
  - cbn [ancestors_from forallb] in Hl. apply andb_true_iff in Hl. destruct Hl as [Hd Hl].
    set (d := firstn (S k) comps) in *.
    assert (Hcne : comps <> []) by (destruct comps; [simpl in Hk; lia | discriminate]).
    assert (Hdne : d <> []) by now apply firstn_S_nonempty.
    assert (Hdok : comps_okb d = true) by now apply firstn_ok.
    assert (Hpath : join "/" (firstn (S (S k)) ("" :: comps)) = dir_str d).
    { change (firstn (S (S k)) ("" :: comps)) with ("" :: firstn (S k) comps). now apply join_root_cons. }
    cbn [ancestors_from first_candidate]. fold d.
    remember (S k) as k1. cbn [walk]. rewrite Hpath.
    destruct (dir_str_facts d Hdne Hdok) as (Hne & _). rewrite Hne.
    unfold listable in Hd. destruct (listdir fs (dir_str d)) as [es|] eqn:El; [|discriminate].
    rewrite (body_at fs cwd name d (walk fs name ("" :: comps) k1) Hdok Hname es El).
    destruct (candidate fs name (dir_str d)) as [c|]; [reflexivity|].
    subst k1. apply IH; [lia | exact Hl].
Qed.

(** * the property-level statements *)
Definition obs_of (r : load_res) : observed :=
  match r with
  | Loaded f p => OLoaded f p
  | NotFound => ONotFound
  | ImportErr => OImportError
  end.

Lemma guard_exists_parts fs cwd start name : guard_exists fs cwd start name = true ->
  comp_okb name = true /\ all_listable fs (abs_comps cwd start) = true.
Proof. unfold guard_exists. intros H. now apply andb_true_iff in H. Qed.

(** nearest ancestor wins, the root included, for every start path (absolute
    or relative, with "." / ".." / trailing separators) that exists *)
Theorem nearest fs cwd name start :
  guard_exists fs cwd start name = true ->
  load fs cwd name start = to_loaded (expected fs name (abs_comps cwd start)).
Proof.
  intros G. destruct (guard_exists_parts _ _ _ _ G) as [Hname Hl].
  set (comps := abs_comps cwd start) in *.
  pose proof (abs_comps_ok cwd start) as Hok. fold comps in Hok.
  rewrite load_finish. unfold LoaderModel.find, abspath. fold comps.
  unfold expected, ancestors. unfold all_listable, ancestors in Hl.
  destruct comps as [|x l] eqn:Ec.
  - (* the start is the root: paths = ["", ""] *)
    change (split_char sep (dir_str [])) with ["" ; ""]. cbn [List.length ancestors_from first_candidate].
    cbn [List.length ancestors_from forallb] in Hl. rewrite andb_true_r in Hl.
    change (dir_str []) with "/" in *.
    destruct (listdir fs "/") as [es|] eqn:El; [|discriminate].
    rewrite walk_S. cbn [firstn]. change (join "/" [""; ""]) with "/". cbv zeta. cbn [String.eqb]. rewrite El.
    pose proof (body_at fs cwd name [] (walk fs name [""; ""] 1) eq_refl Hname es El) as B.
    change (dir_str []) with "/" in B. rewrite B.
    destruct (candidate fs name "/") as [[f p]|] eqn:Cand; [reflexivity|].
    (* second visit of "/" finds nothing either *)
    rewrite walk_S. cbn [firstn]. change (join "/" [""]) with "". cbv zeta. cbn [String.eqb]. rewrite El.
    pose proof (body_at fs cwd name [] (walk fs name [""; ""] 0) eq_refl Hname es El) as B2.
    change (dir_str []) with "/" in B2. rewrite B2, Cand. reflexivity.
  - rewrite split_dir_str by (discriminate || assumption). cbn [List.length].
    apply (walk_from fs cwd name (x :: l) Hok Hname (List.length (x :: l))); [lia | exact Hl].
Qed.

(** flagship: the model meets the executable specification *)
Theorem spec_full fs cwd name start :
  guard_exists fs cwd start name = true ->
  spec_ok fs cwd start name (obs_of (load fs cwd name start)) = true.
Proof.
  intros G. rewrite (nearest _ _ _ _ G). unfold spec_ok.
  destruct (expected fs name (abs_comps cwd start)) as [[f p]|]; cbn; [|reflexivity].
  now rewrite !String.eqb_refl.
Qed.

Theorem not_found fs cwd name start :
  guard_exists fs cwd start name = true -> expected fs name (abs_comps cwd start) = None ->
  load fs cwd name start = NotFound.
Proof. intros G E. now rewrite (nearest _ _ _ _ G), E. Qed.

Lemma first_candidate_anc fs name comps c : forall n,
  first_candidate fs name (ancestors_from comps n) = Some c ->
  exists j, j <= n /\
    candidate fs name (dir_str (firstn j comps)) = Some c /\
    forall k, j < k <= n -> candidate fs name (dir_str (firstn k comps)) = None.
Proof.
  induction n as [|n IH]; cbn [ancestors_from first_candidate].
  - destruct (candidate fs name (dir_str [])) as [c'|] eqn:E; [|discriminate].
    intros H; injection H as ->. exists 0. split; [lia|]. split; [exact E|]. intros k Hk. lia.
  - destruct (candidate fs name (dir_str (firstn (S n) comps))) as [c'|] eqn:Ec.
    + intros H; injection H as ->. exists (S n). split; [lia|]. split; [assumption|]. intros k Hk. lia.
    + intros H. destruct (IH H) as (j & Hj & Hc & Hn). exists j. split; [lia|]. split; [assumption|].
      intros k Hk. destruct (Nat.eq_dec k (S n)) as [->|Hne]; [assumption | apply Hn; lia].
Qed.

(** never a farther candidate *)
Theorem loaded_is_nearest fs cwd name start f p :
  guard_exists fs cwd start name = true ->
  load fs cwd name start = Loaded f p ->
  let comps := abs_comps cwd start in
  exists j, j <= List.length comps /\
    candidate fs name (dir_str (firstn j comps)) = Some (f, p) /\
    forall k, j < k <= List.length comps -> candidate fs name (dir_str (firstn k comps)) = None.
Proof.
  intros G H comps. rewrite (nearest _ _ _ _ G) in H. fold comps in H.
  destruct (expected fs name comps) as [[f' p']|] eqn:E; [|discriminate]. injection H as -> ->.
  now apply first_candidate_anc.
Qed.

Theorem parent_rule fs name d f p :
  candidate fs name d = Some (f, p) ->
  p = d /\ (f = child d (name ++ ".py") \/ f = child (child d name) "__init__.py").
Proof.
  unfold candidate. destruct (listdir fs d) as [es|]; [|discriminate].
  destruct (mem (name ++ ".py") es).
  - intros H; injection H as <- <-. auto.
  - destruct (mem name es && path_exists fs (child (child d name) "__init__.py")); [|discriminate].
    intros H; injection H as <- <-. auto.
Qed.

(** the parent rule about the model's own answer (below the root; at the root
    both parents are "/") *)
Theorem parent_of_loaded fs cwd name start f p :
  guard_exists fs cwd start name = true ->
  load fs cwd name start = Loaded f p ->
  (f = child p (name ++ ".py") /\ p = path_parent f) \/
  (f = child (child p name) "__init__.py" /\ p = path_parent (path_parent f)).
Proof.
  intros G H. destruct (guard_exists_parts _ _ _ _ G) as [Hname _].
  pose proof (abs_comps_ok cwd start) as Hok.
  destruct (loaded_is_nearest fs cwd name start f p G H) as (j & Hj & Hc & _).
  destruct (parent_rule fs name _ f p Hc) as [-> Hf].
  set (d := firstn j (abs_comps cwd start)) in *.
  assert (Hdok : comps_okb d = true) by now apply firstn_ok.
  (* the facts of [body_at], read off a one-entry file system *)
  assert (Hpy : comp_okb (name ++ ".py") = true) by now apply comp_okb_app.
  destruct d as [|x l] eqn:Ed.
  - change (dir_str []) with "/" in *.
    assert (P1 : path_parent (child "/" (name ++ ".py")) = "/").
    { change (child "/" (name ++ ".py")) with (dir_str [(name ++ ".py")%string]).
      unfold path_parent. rewrite split_dir_str by (discriminate || (simpl; now rewrite Hpy)).
      cbn [filter]. change (not_dot "") with true. cbv iota.
      destruct (comp_okb_dots _ Hpy) as [Hd _]. apply String.eqb_neq in Hd. unfold not_dot. now rewrite Hd. }
    assert (P2 : path_parent (dir_str [name]) = "/").
    { unfold path_parent. rewrite split_dir_str by (discriminate || (simpl; now rewrite Hname)).
      cbn [filter]. change (not_dot "") with true. cbv iota.
      destruct (comp_okb_dots _ Hname) as [Hd _]. apply String.eqb_neq in Hd. unfold not_dot. now rewrite Hd. }
    destruct Hf as [-> | ->]; [left; now rewrite P1 | right].
    split; [reflexivity|]. change (child "/" name) with (dir_str [name]).
    rewrite path_parent_child by (discriminate || reflexivity || (simpl; now rewrite Hname)). now rewrite P2.
  - assert (Hd : x :: l <> []) by discriminate.
    destruct Hf as [-> | ->].
    + left. split; [reflexivity|]. now rewrite path_parent_child.
    + right. split; [reflexivity|].
      assert (Hd2ok : comps_okb ((x :: l) ++ [name]) = true) by (rewrite comps_okb_app, Hdok; simpl; now rewrite Hname).
      rewrite (child_dir_str (x :: l) name) by assumption.
      rewrite (path_parent_child ((x :: l) ++ [name])) by (assumption || reflexivity || discriminate).
      rewrite <- (child_dir_str (x :: l) name) by assumption. now rewrite path_parent_child.
Qed.

(** * examples: the former findings now load what the specification expects *)
Definition fs_root : fsys := mkFs [("/a", []); ("/", ["tasks.py"])] [].
Definition fs_rel : fsys := mkFs [("/w/d1", []); ("/w", ["tasks.py"]); ("/", [])] [].
Definition fs_dotdot : fsys := mkFs [("/a/b", ["tasks.py"]); ("/a", []); ("/", [])] [].

Lemma former_findings_fixed :
  load fs_root "/" "tasks" "/a" = Loaded "/tasks.py" "/" /\
  load fs_rel "/w" "tasks" "d1" = Loaded "/w/tasks.py" "/w" /\
  load fs_dotdot "/" "tasks" "/a/b/.." = NotFound /\
  guard_exists fs_root "/" "/a" "tasks" = true /\ guard_exists fs_rel "/w" "d1" "tasks" = true /\
  guard_exists fs_dotdot "/" "/a/b/.." "tasks" = true.
Proof. repeat split. Qed.

Definition fs_ex : fsys :=
  mkFs [("/p/q/r/s", []); ("/p/q/r", ["other.py"]); ("/p/q", ["tasks"; "tasks.py"]); ("/p", ["tasks"]); ("/", [])]
       ["/p/q/tasks/__init__.py"; "/p/tasks/__init__.py"].

Lemma example_nearest :
  guard_exists fs_ex "/" "/p/q/r/s" "tasks" = true /\
  load fs_ex "/" "tasks" "/p/q/r/s" = Loaded "/p/q/tasks.py" "/p/q" /\
  load fs_ex "/p/q" "tasks" "r/../../x/.." = Loaded "/p/tasks/__init__.py" "/p".
Proof. repeat split. Qed.

(** * one loader object across several working directories *)
Lemma session_step fs given name steps k st :
  nth_error steps k = Some st ->
  nth_error (session_run fs given name steps) k = Some (step_run fs given name st).
Proof. intros H. unfold session_run. apply map_nth_error. exact H. Qed.

Theorem session_default_start fs name steps k cwd :
  nth_error steps k = Some (LLoad cwd) ->
  guard_exists fs cwd cwd name = true ->
  exists r, nth_error (session_run fs None name steps) k = Some (RLoad r) /\
            r = to_loaded (expected fs name (abs_comps cwd cwd)) /\
            spec_ok fs cwd cwd name (obs_of r) = true.
Proof.
  intros Hk G. exists (load fs cwd name cwd). split; [|split].
  - rewrite (session_step fs None name steps k _ Hk). reflexivity.
  - apply nearest; exact G.
  - apply spec_full; exact G.
Qed.
