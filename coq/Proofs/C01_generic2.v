(** C01 proof, generic composition, second version: as C01_generic.v but also
    parametric in the per-task static guard [guard_c], in the state invariant
    [Inv c given args] kept between two items of a call, and in the end-of-call
    condition [end_ok c given] (e.g. "every required positional was given").
    An instance has to supply: the invariant holds initially, fixes the shape of
    the argument list, implies "no positional is missing" at an admissible end of
    call; and per item: machine steps, value agreement, no "--" token. *)
From InvokeVerif Require Import Corr.C01Corr Proofs.ListFacts Proofs.C07_fuel
     Proofs.C01_steps Proofs.C01_tokens Proofs.C01_lookup Proofs.C01_occ Proofs.C01_roundtrip
     Proofs.C01_final.

From Coq Require Import Lia.

Section Generic2.
Variable cs : list ctxspec.
Variable ic : ctxspec.
Let p := mkP cs (Some ic) false.
Let i0 := init_ctx ic.

Variable guard_c : ctxspec -> bool.
Variable Inv : ctxspec -> list nat -> list rarg -> Prop.
Variable end_ok : ctxspec -> list nat -> bool.
Variable item_ok : ctxspec -> list nat -> item -> bool.
Variable item_given : list nat -> item -> list nat.
Variable run_item : list rarg -> item -> list rarg.

Hypothesis H_init : forall c, guard_c c = true -> Inv c [] (map init_arg (cx_args c)).
Hypothesis H_shape : forall c given args, Inv c given args -> map r_spec args = cx_args c.
Hypothesis H_names : forall c, guard_c c = true -> nodupb (map arg_name (cx_args c)) = true.
Hypothesis H_lists : forall c a, guard_c c = true -> In a (cx_args c) -> list_default_ok a = true.
Hypothesis H_end : forall c given args,
  guard_c c = true -> Inv c given args -> end_ok c given = true -> no_missing args = true.

Hypothesis H_steps : forall c given it done cur fl got,
  guard_c c = true -> item_ok c given it = true ->
  Inv c given (rc_args cur) -> inert (MS i0 done cur fl got) ->
  exists fl' got',
    steps p (MS i0 done cur fl got) (spell_item c it)
            (MS i0 done (with_args cur (run_item (rc_args cur) it)) fl' got') /\
    inert (MS i0 done (with_args cur (run_item (rc_args cur) it)) fl' got') /\
    Inv c (item_given given it) (run_item (rc_args cur) it).

Hypothesis H_vals : forall c given it args os,
  guard_c c = true -> item_ok c given it = true -> Inv c given args ->
  vals_ok os args -> vals_ok (os ++ occs_of it) (run_item args it).

Hypothesis H_clean : forall c given it,
  guard_c c = true -> item_ok c given it = true ->
  Forall (fun t => t <> "--") (spell_item c it).

Fixpoint items_ok_g (c : ctxspec) (given : list nat) (items : list item) : bool :=
  match items with
  | [] => end_ok c given
  | it :: rest => item_ok c given it && items_ok_g c (item_given given it) rest
  end.

Definition call_ok_g (k : call) : bool :=
  match nth_error cs (k_task k) with
  | Some c => ctx_named (k_as k) c && plain (k_as k) && guard_c c && items_ok_g c [] (k_items k)
  | None => false
  end.

Definition guard_g (inv : invocation) : bool :=
  parser_ok cs && negb (has_missing (init_ctx ic))
  && match inv with [] => false | _ => true end
  && forallb call_ok_g inv.

Definition final_args_g (c : ctxspec) (items : list item) : list rarg :=
  fold_left run_item items (map init_arg (cx_args c)).

Definition final_ctx_g (k : call) : rctx :=
  match nth_error cs (k_task k) with
  | Some c => with_args (init_ctx c) (final_args_g c (k_items k))
  | None => mkRCtx None [] []
  end.

Lemma items_steps_g c : forall items given done cur fl got os,
  guard_c c = true -> items_ok_g c given items = true ->
  Inv c given (rc_args cur) -> vals_ok os (rc_args cur) ->
  inert (MS i0 done cur fl got) ->
  exists fl' got' given',
    let args' := fold_left run_item items (rc_args cur) in
    steps p (MS i0 done cur fl got) (flat_map (spell_item c) items)
            (MS i0 done (with_args cur args') fl' got') /\
    inert (MS i0 done (with_args cur args') fl' got') /\
    (Inv c given' args' /\ end_ok c given' = true) /\ vals_ok (os ++ flat_map occs_of items) args'.
Proof.
  induction items as [|it items IH]; intros given done cur fl got os G Is St V I.
  - exists fl, got, given. simpl. rewrite app_nil_r.
    replace (with_args cur (rc_args cur)) with cur by (destruct cur; reflexivity).
    split; [apply steps_nil|]. simpl in Is. auto.
  - simpl in Is. apply andb_true_iff in Is. destruct Is as [Os Is].
    destruct (H_steps c given it done cur fl got G Os St I) as [fl1 [got1 [S1 [I1 St1]]]].
    pose proof (H_vals c given it (rc_args cur) os G Os St V) as V1.
    set (cur1 := with_args cur (run_item (rc_args cur) it)) in *.
    destruct (IH (item_given given it) done cur1 fl1 got1 (os ++ occs_of it) G Is St1 V1 I1)
      as [fl2 [got2 [given2 [S2 [I2 [St2 V2]]]]]].
    exists fl2, got2, given2. cbn [flat_map fold_left].
    unfold cur1 in *. cbn [rc_args with_args] in *.
    split; [eapply steps_app; eauto|]. split; [exact I2|]. split; [exact St2|].
    rewrite <- app_assoc in V2. exact V2.
Qed.

Lemma call_items_steps_g k c done fl got :
  nth_error cs (k_task k) = Some c -> call_ok_g k = true ->
  inert (MS i0 done (init_ctx c) fl got) ->
  exists fl' got',
    steps p (MS i0 done (init_ctx c) fl got) (flat_map (spell_item c) (k_items k))
            (MS i0 done (final_ctx_g k) fl' got') /\
    inert (MS i0 done (final_ctx_g k) fl' got') /\
    has_missing (final_ctx_g k) = false /\
    obs_of_ctx (final_ctx_g k) = expected_call cs k.
Proof.
  intros N Cs I. unfold call_ok_g in Cs. rewrite N in Cs. rewrite !andb_true_iff in Cs.
  destruct Cs as [[[Nm Pl] G] Is].
  assert (V0 : vals_ok [] (map init_arg (cx_args c))).
  { intros j r Nj. apply nth_error_In in Nj. apply in_map_iff in Nj. destruct Nj as [a [<- Ha]].
    simpl. apply init_arg_value. eapply H_lists; eauto. }
  destruct (items_steps_g c (k_items k) [] done (init_ctx c) fl got [] G Is (H_init c G)
                          V0 I) as [fl' [got' [given' [S [I' [[St En] V]]]]]].
  cbn zeta in *. cbn [rc_args init_ctx] in *.
  assert (E : with_args (init_ctx c) (fold_left run_item (k_items k) (map init_arg (cx_args c)))
              = final_ctx_g k).
  { unfold final_ctx_g, final_args_g. rewrite N. reflexivity. }
  change (mkRCtx (cx_name c) (cx_aliases c) (map init_arg (cx_args c))) with (init_ctx c) in *.
  rewrite E in *.
  exists fl', got'. split; [exact S|]. split; [exact I'|]. split.
  - rewrite <- E. apply has_missing_with_args. eapply H_end; eauto.
  - unfold obs_of_ctx, expected_call. rewrite N. rewrite <- E.
    unfold with_args. cbn [rc_name init_ctx]. f_equal.
    rewrite as_kwargs_nodup.
    + apply kwargs_expected; [exact (H_shape _ _ _ St)|].
      intros j r Nj. simpl in V. rewrite (V j r Nj). cbn [plus].
      symmetry. unfold call_occs. apply value_after_vafter. intros _ K.
      apply declared_default_list; [|exact K].
      apply (H_lists c); [exact G|]. apply nth_error_In in Nj.
      pose proof (H_shape _ _ _ St) as Sh. rewrite <- Sh. apply in_map. exact Nj.
    + pose proof (H_names c G) as Nd.
      rewrite <- (H_shape _ _ _ St) in Nd. rewrite map_map in Nd. exact Nd.
Qed.

Fixpoint run_calls_g (done : list rctx) (cur : rctx) (calls : list call) : list rctx * rctx :=
  match calls with
  | [] => (done, cur)
  | k :: rest => run_calls_g (done ++ [cur]) (final_ctx_g k) rest
  end.

Lemma run_calls_g_spec : forall calls done cur,
  fst (run_calls_g done cur calls) ++ [snd (run_calls_g done cur calls)]
  = done ++ cur :: map final_ctx_g calls.
Proof.
  induction calls as [|k rest IH]; intros done cur; simpl; [reflexivity|].
  rewrite IH, <- app_assoc. reflexivity.
Qed.

Hypothesis Pok : parser_ok cs = true.

Lemma calls_steps_g : forall calls done cur fl got,
  forallb call_ok_g calls = true ->
  inert (MS i0 done cur fl got) -> has_missing cur = false ->
  exists fl' got',
    steps p (MS i0 done cur fl got) (spell cs calls)
            (MS i0 (fst (run_calls_g done cur calls)) (snd (run_calls_g done cur calls)) fl' got') /\
    inert (MS i0 (fst (run_calls_g done cur calls)) (snd (run_calls_g done cur calls)) fl' got') /\
    has_missing (snd (run_calls_g done cur calls)) = false /\
    Forall2 (fun k o => o = expected_call cs k) calls (map (fun k => obs_of_ctx (final_ctx_g k)) calls).
Proof.
  induction calls as [|k rest IH]; intros done cur fl got Cs I Hm.
  - exists fl, got. simpl. split; [apply steps_nil|]. auto.
  - simpl in Cs. apply andb_true_iff in Cs. destruct Cs as [Ck Cr].
    pose proof Ck as Ck'. unfold call_ok_g in Ck'.
    destruct (nth_error cs (k_task k)) as [c|] eqn:N; [|discriminate].
    rewrite !andb_true_iff in Ck'. destruct Ck' as [[[Nm Pl] G] Is].
    unfold plain in Pl. rewrite negb_true_iff in Pl.
    pose proof (step_task_name p i0 done cur fl got (k_as k) c I Hm Pl
                               (named_find cs ic Pok k c N Nm)) as S0.
    assert (I1 : inert (MS i0 (done ++ [cur]) (init_ctx c) fl got)) by (apply inert_snoc; exact I).
    destruct (call_items_steps_g k c (done ++ [cur]) fl got N Ck I1) as [fl1 [got1 [S1 [I2 [Hm1 Ob]]]]].
    destruct (IH (done ++ [cur]) (final_ctx_g k) fl1 got1 Cr I2 Hm1) as [fl2 [got2 [S2 [I3 [Hm2 Fa]]]]].
    exists fl2, got2. cbn [run_calls_g]. split; [|split; [exact I3 | split; [exact Hm2|]]].
    + unfold spell. cbn [flat_map]. unfold spell_call at 1. rewrite N. cbn [app].
      econstructor; [exact S0|]. cbn [app]. eapply steps_app; [exact S1 | exact S2].
    + cbn [map]. constructor; [exact Ob | exact Fa].
Qed.

Lemma spell_clean_g : forall inv,
  forallb call_ok_g inv = true -> Forall (fun t => t <> "--") (spell cs inv).
Proof.
  induction inv as [|k rest IH]; intros H; [constructor|].
  simpl in H. apply andb_true_iff in H. destruct H as [Ck Cr].
  unfold spell. cbn [flat_map]. apply Forall_app. split; [|apply IH; exact Cr].
  unfold call_ok_g in Ck. unfold spell_call.
  destruct (nth_error cs (k_task k)) as [c|]; [|discriminate].
  rewrite !andb_true_iff in Ck. destruct Ck as [[[_ Pl] G] Is].
  constructor; [apply plain_not_ddash; exact Pl|].
  clear -Is G H_clean. revert Is. generalize (@nil nat).
  induction (k_items k) as [|it items IHi]; intros given Is; [constructor|].
  simpl in Is. apply andb_true_iff in Is. destruct Is as [Os Is].
  cbn [flat_map]. apply Forall_app. split; [eapply H_clean; eauto | eapply IHi; eauto].
Qed.

Theorem spell_roundtrip_generic2 inv :
  guard_g inv = true ->
  exists r,
    parser_parse cs (Some ic) false (spell cs inv) = Ok r /\
    hd_error (pr_ctxs r) = Some (init_ctx ic) /\
    map obs_of_ctx (tl (pr_ctxs r)) = expected cs inv /\
    pr_unparsed r = [] /\ pr_remainder r = "".
Proof.
  unfold guard_g. rewrite !andb_true_iff, negb_true_iff.
  intros [[[_ Hi] Ne] Cs].
  destruct inv as [|k rest]; [discriminate|]. clear Ne.
  pose proof (spell_clean_g (k :: rest) Cs) as Cl.
  simpl in Cs. apply andb_true_iff in Cs. destruct Cs as [Ck Cr].
  pose proof Ck as Ck'. unfold call_ok_g in Ck'.
  destruct (nth_error cs (k_task k)) as [c|] eqn:N; [|discriminate].
  rewrite !andb_true_iff in Ck'. destruct Ck' as [[[Nm Pl] G] Is].
  unfold plain in Pl. rewrite negb_true_iff in Pl.
  pose proof (step_first_task p i0 (k_as k) c Hi Pl (named_find cs ic Pok k c N Nm)) as S0.
  assert (I0 : inert (MS i0 [] (init_ctx c) None false)) by exact I.
  destruct (call_items_steps_g k c [] None false N Ck I0) as [fl1 [got1 [S1 [I1 [Hm1 Ob1]]]]].
  destruct (calls_steps_g rest [] (final_ctx_g k) fl1 got1 Cr I1 Hm1)
    as [fl2 [got2 [S2 [I2 [Hm2 Fa]]]]].
  set (dn := fst (run_calls_g [] (final_ctx_g k) rest)) in *.
  set (cu := snd (run_calls_g [] (final_ctx_g k) rest)) in *.
  destruct (finish_MS i0 dn cu fl2 got2 I2 Hm2) as [m' [Fi [Rc Un]]].
  assert (St : steps p (M0 i0) (spell cs (k :: rest)) (MS i0 dn cu fl2 got2)).
  { unfold spell. cbn [flat_map]. unfold spell_call at 1. rewrite N. cbn [app].
    econstructor; [exact S0|]. cbn [app]. eapply steps_app; [exact S1 | exact S2]. }
  pose proof (split_ddash_clean _ Cl) as Sd.
  assert (St' : steps p (M0 i0) (fst (split_ddash (spell cs (k :: rest)))) (MS i0 dn cu fl2 got2))
    by (rewrite Sd; exact St).
  pose proof (steps_parse p (spell cs (k :: rest)) (M0 i0) _ m'
                          (new_machine_M0 cs ic false Hi) St' Fi) as P.
  rewrite Sd in P. cbn [snd join] in P.
  eexists. split; [|split; [|split; [|split]]].
  - unfold parser_parse. rewrite Pok. exact P.
  - cbn [pr_ctxs]. rewrite Rc. reflexivity.
  - cbn [pr_ctxs]. rewrite Rc. cbn [tl].
    pose proof (run_calls_g_spec rest [] (final_ctx_g k)) as Rs. fold dn cu in Rs. rewrite Rs.
    cbn [app map expected]. f_equal; [exact Ob1|].
    rewrite map_map. apply (forall2_map_eq (expected_call cs) (fun k => obs_of_ctx (final_ctx_g k))).
    exact Fa.
  - cbn [pr_unparsed]. exact Un.
  - reflexivity.
Qed.

End Generic2.
