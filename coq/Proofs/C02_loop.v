(** C02 layer 2: the read loop (capture / mirror / watcher submissions), hide
    normalisation, and the run model against the executable spec. *)
From InvokeVerif Require Import Corr.C02Corr Proofs.C02_decode.
From Coq Require Import Lia.
Local Open Scope N_scope.

(** Watcher submissions: the joined buffer after each appended piece. *)
Fixpoint growing (buf : list text) (pieces : list text) : list text :=
  match pieces with
  | [] => []
  | d :: r => List.concat (buf ++ [d]) :: growing (buf ++ [d]) r
  end.

Lemma handle_output_shape e hide script buf :
  handle_output e hide script buf =
  let pieces := map (decode_all e) (chunks_of script) in
  mkLoop (buf ++ pieces) (if hide then [] else pieces) (growing buf pieces).
Proof.
  revert buf. induction script as [|ev r IH]; intros buf.
  - cbn. rewrite app_nil_r. destruct hide; reflexivity.
  - destruct ev as [bs|].
    + destruct bs as [|b bs'].
      * cbn. rewrite app_nil_r. destruct hide; reflexivity.
      * cbn [handle_output chunks_of map]. rewrite IH. cbn [lo_buf lo_writes lo_submits growing].
        rewrite <- app_assoc. cbn [app]. destruct hide; reflexivity.
    + cbn [handle_output chunks_of]. apply IH.
Qed.

(** Nothing lost, duplicated or reordered: the capture buffer is the list of
    per-read decodings, in read order, whatever the position of the exit event. *)
Lemma loop_capture_all e hide script :
  lo_buf (handle_output e hide script []) = decode_chunks e (chunks_of script).
Proof. rewrite handle_output_shape. reflexivity. Qed.

Lemma loop_hidden_receives_nothing e script buf :
  lo_writes (handle_output e true script buf) = [].
Proof. rewrite handle_output_shape. reflexivity. Qed.

Lemma loop_mirror_equals_capture e script :
  lo_writes (handle_output e false script []) = lo_buf (handle_output e false script []).
Proof. rewrite handle_output_shape. reflexivity. Qed.

Lemma loop_submits_growing e hide script :
  lo_submits (handle_output e hide script []) = growing [] (decode_chunks e (chunks_of script)).
Proof. rewrite handle_output_shape. reflexivity. Qed.

(** Where the process exits relative to the reads is irrelevant. *)
Lemma loop_exit_irrelevant e hide s1 s2 buf :
  chunks_of s1 = chunks_of s2 -> handle_output e hide s1 buf = handle_output e hide s2 buf.
Proof. intros H. rewrite !handle_output_shape, H. reflexivity. Qed.

Fixpoint drop_exits (s : list rev) : list rev :=
  match s with
  | [] => []
  | RExit :: r => drop_exits r
  | ev :: r => ev :: drop_exits r
  end.

Lemma chunks_of_drop_exits s : chunks_of (drop_exits s) = chunks_of s.
Proof.
  induction s as [|ev r IH]; [reflexivity|].
  destruct ev as [bs|]; [|exact IH]. destruct bs; cbn; [reflexivity | rewrite IH; reflexivity].
Qed.

(** * Hide normalisation agrees with the documented table (finite) *)
Definition all_hide := [HNone; HFalse; HOut; HStdout; HErr; HStderr; HBoth; HTrue].
Definition bools := [false; true].

Lemma all_hide_complete h : In h all_hide.
Proof. destruct h; cbn; tauto. Qed.
Lemma bools_complete b : In b bools.
Proof. destruct b; cbn; tauto. Qed.

Lemma hide_table h a og eg :
  effective_hide h a og eg = (stdout_hidden (to_req h) a og, stderr_hidden (to_req h) a eg).
Proof. destruct h, a, og, eg; reflexivity. Qed.

(** * Mirror streams: what a stream holds depends on the concatenation of the writes only *)

Lemma render_app m a b : render m (a ++ b) = render m a ++ render m b.
Proof. unfold render. apply flat_map_app. Qed.

Lemma render_concat m ws : List.concat (map (render m) ws) = render m (List.concat ws).
Proof.
  induction ws as [|w r IH]; [reflexivity|].
  cbn [map List.concat]. rewrite render_app, IH. reflexivity.
Qed.

(** a stream fed piece by piece holds what an identical stream holds after one write of the whole text *)
Lemma stream_content_one_write m ws : stream_content m ws = stream_content m [List.concat ws].
Proof.
  unfold stream_content. destruct (m_wrap m); cbn [map List.concat]; rewrite ?app_nil_r.
  - apply render_concat.
  - reflexivity.
Qed.

Lemma stream_content_nil m : stream_content m [] = [].
Proof. unfold stream_content. destruct (m_wrap m); reflexivity. Qed.

Lemma stream_content_nil1 m : stream_content m [[]] = [].
Proof. unfold stream_content. destruct (m_wrap m); reflexivity. Qed.

Lemma write_our_output_id m ws : map (write_our_output m) ws = ws.
Proof. unfold write_our_output. apply map_id. Qed.

Lemma mirrored_nil m : mirrored m [] = [].
Proof. unfold mirrored. cbn [map]. apply stream_content_nil. Qed.

Lemma mirrored_concat m ws : mirrored m ws = stream_content m [List.concat ws].
Proof. unfold mirrored. rewrite write_our_output_id. apply stream_content_one_write. Qed.

(** a recording stream holds the text it was handed, whatever encoding it advertises *)
Lemma mirrored_recording e ws : mirrored (mkMirror e false) ws = List.concat ws.
Proof. unfold mirrored. rewrite write_our_output_id. reflexivity. Qed.

(** * The run model against [spec_ok] *)

(** [Local.should_use_pty] is the documented rule *)
Lemma pty_rule p f b : should_use_pty p f b = pty_in_effect p f b.
Proof. destruct p, f, b; reflexivity. Qed.

Lemma pty_in_effect_using i :
  pty_in_effect (ri_pty i) (ri_stdin_fileno i) (ri_fallback i) = using_pty i.
Proof. unfold using_pty. rewrite pty_rule. reflexivity. Qed.

Definition chunk_guard (i : run_in) : bool :=
  cuts_at_initial (ri_enc i) (chunks_of (ri_out i)) &&
  (using_pty i || cuts_at_initial (ri_enc i) (chunks_of (ri_err i))).

Lemma concat_pieces_ok e script :
  cuts_at_initial e (chunks_of script) = true ->
  List.concat (map (decode_all e) (chunks_of script)) = ref_decode e (stream_bytes script).
Proof.
  intros H. unfold stream_bytes. rewrite <- decoder_is_reference.
  apply (chunked_decode_partial e _ H).
Qed.

Lemma run_meets_spec_partial i : chunk_guard i = true -> spec_in i (run_model i) = true.
Proof.
  unfold chunk_guard, spec_in, run_model, spec_ok. rewrite pty_in_effect_using. intros G.
  apply andb_true_iff in G. destruct G as [Go Ge].
  rewrite hide_table. cbn [fst snd].
  rewrite !handle_output_shape. cbn zeta. cbn [ro_stdout ro_stderr ro_out_stream ro_err_stream lo_buf lo_writes app].
  destruct (using_pty i) eqn:P.
  - cbn [lo_buf lo_writes List.concat].
    destruct (stdout_hidden _ _ _), (stderr_hidden _ _ _);
      rewrite ?mirrored_nil, ?mirrored_concat, ?stream_content_nil, ?stream_content_nil1; cbn [List.concat];
      rewrite ?(concat_pieces_ok _ _ Go), ?text_eqb_refl; reflexivity.
  - cbn [orb] in Ge. cbn [lo_buf lo_writes app].
    destruct (stdout_hidden _ _ _), (stderr_hidden _ _ _);
      rewrite ?mirrored_nil, ?mirrored_concat, ?stream_content_nil; cbn [List.concat];
      rewrite ?(concat_pieces_ok _ _ Go), ?(concat_pieces_ok _ _ Ge), ?text_eqb_refl; reflexivity.
Qed.

Lemma run_meets_spec_stateless i : ri_enc i <> Utf8 -> spec_in i (run_model i) = true.
Proof.
  intros H. apply run_meets_spec_partial. unfold chunk_guard.
  rewrite !stateless_cuts by exact H. rewrite orb_true_r. reflexivity.
Qed.

Definition witness_in : run_in :=
  mkIn Utf8 [RChunk [195]; RExit; RChunk [169]] [] HNone false false false true true false
       (mkMirror MNone false) (mkMirror MNone false).

Lemma run_meets_spec_refuted : exists i, spec_in i (run_model i) = false.
Proof. exists witness_in. vm_compute. reflexivity. Qed.

(** * The repaired loop *)

Lemma emit_shape hide d buf o :
  emit hide d buf o =
  mkLoop (lo_buf o) (if hide then lo_writes o else d :: lo_writes o)
         (List.concat (buf ++ [d]) :: lo_submits o).
Proof. reflexivity. Qed.

(** Captured text of the repaired loop = the threaded decoding. *)
Lemma inc_capture e hide script : forall st buf,
  List.concat (lo_buf (handle_output_inc e hide st script buf)) =
  List.concat buf ++ dfin e st (stream_bytes script).
Proof.
  unfold stream_bytes.
  assert (F : forall st buf, List.concat (lo_buf (finish_inc hide st buf)) = List.concat buf ++ dflush st).
  { intros st buf. unfold finish_inc. destruct st; cbn [dflush].
    - cbn. rewrite app_nil_r. reflexivity.
    - cbn [emit lo_buf]. rewrite concat_app. reflexivity. }
  induction script as [|ev r IH]; intros st buf.
  - cbn [handle_output_inc chunks_of List.concat dfin]. apply F.
  - destruct ev as [bs|].
    + destruct bs as [|b bs'].
      * cbn [handle_output_inc chunks_of List.concat dfin]. apply F.
      * cbn [handle_output_inc chunks_of List.concat].
        rewrite dfin_app.
        destruct (snd (drun e st (b :: bs'))) as [|x xs] eqn:S.
        -- rewrite IH. reflexivity.
        -- rewrite emit_shape. cbn [lo_buf]. rewrite IH. rewrite concat_app. cbn [List.concat].
           rewrite app_nil_r, <- app_assoc. reflexivity.
    + cbn [handle_output_inc chunks_of]. apply IH.
Qed.

Lemma inc_writes_hidden e script : forall st buf,
  lo_writes (handle_output_inc e true st script buf) = [].
Proof.
  assert (F : forall st buf, lo_writes (finish_inc true st buf) = []).
  { intros st buf. unfold finish_inc. destruct st; reflexivity. }
  induction script as [|ev r IH]; intros st buf.
  - apply F.
  - destruct ev as [bs|]; [destruct bs as [|b bs']|].
    + apply F.
    + cbn [handle_output_inc]. destruct (snd (drun e st (b :: bs'))); [apply IH|].
      rewrite emit_shape. cbn [lo_writes]. apply IH.
    + apply IH.
Qed.

Lemma inc_writes_shown e script : forall st buf,
  List.concat buf ++ List.concat (lo_writes (handle_output_inc e false st script buf)) =
  List.concat (lo_buf (handle_output_inc e false st script buf)).
Proof.
  assert (F : forall st buf, List.concat buf ++ List.concat (lo_writes (finish_inc false st buf)) =
                             List.concat (lo_buf (finish_inc false st buf))).
  { intros st buf. unfold finish_inc. destruct st; cbn [dflush].
    - cbn. rewrite app_nil_r. reflexivity.
    - cbn [emit lo_buf lo_writes]. rewrite concat_app. reflexivity. }
  induction script as [|ev r IH]; intros st buf.
  - apply F.
  - destruct ev as [bs|]; [destruct bs as [|b bs']|].
    + apply F.
    + cbn [handle_output_inc]. destruct (snd (drun e st (b :: bs'))) as [|x xs]; [apply IH|].
      rewrite emit_shape. cbn [lo_writes lo_buf]. rewrite <- IH.
      rewrite concat_app. cbn [List.concat]. rewrite app_nil_r, <- app_assoc. reflexivity.
    + apply IH.
Qed.

Lemma repaired_run_meets_spec i : spec_in i (run_model_inc i) = true.
Proof.
  unfold spec_in, run_model_inc, spec_ok. rewrite pty_in_effect_using.
  rewrite hide_table. cbn [fst snd ro_stdout ro_stderr ro_out_stream ro_err_stream].
  rewrite <- !decoder_is_reference. unfold decode_all.
  assert (W : forall h s, List.concat (lo_writes (handle_output_inc (ri_enc i) h DInit s [])) =
                          if h then [] else dfin (ri_enc i) DInit (stream_bytes s)).
  { intros h s. destruct h.
    - rewrite inc_writes_hidden. reflexivity.
    - transitivity (List.concat (lo_buf (handle_output_inc (ri_enc i) false DInit s []))).
      + exact (inc_writes_shown (ri_enc i) s DInit []).
      + rewrite inc_capture. reflexivity. }
  assert (M : forall m h s, mirrored m (lo_writes (handle_output_inc (ri_enc i) h DInit s [])) =
                            stream_content m (if h then [] else [dfin (ri_enc i) DInit (stream_bytes s)])).
  { intros m h s. rewrite mirrored_concat, W. destruct h; [|reflexivity].
    rewrite stream_content_nil1, stream_content_nil. reflexivity. }
  destruct (using_pty i); cbn [lo_buf lo_writes List.concat];
    rewrite ?M, ?inc_capture, ?mirrored_nil; cbn [List.concat app];
    destruct (stdout_hidden _ _ _), (stderr_hidden _ _ _);
    rewrite ?stream_content_nil, ?stream_content_nil1, ?text_eqb_refl; reflexivity.
Qed.

(** * Shape of the repaired loop: pieces, mirror, submissions *)

Lemma emit_eq (hide : bool) (d : text) (buf : list text) (o : loop_out) (ps : list text) :
  o = mkLoop ((buf ++ [d]) ++ ps) (if hide then [] else ps) (growing (buf ++ [d]) ps) ->
  emit hide d buf o = mkLoop (buf ++ d :: ps) (if hide then [] else d :: ps) (growing buf (d :: ps)).
Proof.
  intros ->. unfold emit. cbn [lo_buf lo_writes lo_submits growing].
  rewrite <- app_assoc. cbn [app]. destruct hide; reflexivity.
Qed.

Lemma handle_output_inc_shape e hide script : forall st buf,
  exists ps, handle_output_inc e hide st script buf =
             mkLoop (buf ++ ps) (if hide then [] else ps) (growing buf ps).
Proof.
  assert (F : forall st buf, exists ps, finish_inc hide st buf =
                             mkLoop (buf ++ ps) (if hide then [] else ps) (growing buf ps)).
  { intros st buf. unfold finish_inc. destruct st; cbn [dflush].
    - exists []. rewrite app_nil_r. destruct hide; reflexivity.
    - exists (cons (cons REPL nil) nil). rewrite (emit_eq hide (cons REPL nil) buf _ nil).
      + reflexivity.
      + rewrite app_nil_r. destruct hide; reflexivity. }
  induction script as [|ev r IH]; intros st buf.
  - apply F.
  - destruct ev as [bs|]; [destruct bs as [|b bs']|].
    + apply F.
    + cbn [handle_output_inc]. destruct (snd (drun e st (b :: bs'))) as [|x xs] eqn:S.
      * apply IH.
      * destruct (IH (fst (drun e st (b :: bs'))) (buf ++ [x :: xs])) as [ps Hps].
        exists ((x :: xs) :: ps). rewrite Hps. apply emit_eq. reflexivity.
    + apply IH.
Qed.

(** the repaired loop looks at the reads only, never at where the exit falls *)
Lemma inc_by_chunks e hide script : forall st buf,
  handle_output_inc e hide st script buf =
  handle_output_inc e hide st (map RChunk (chunks_of script)) buf.
Proof.
  induction script as [|ev r IH]; intros st buf; [reflexivity|].
  destruct ev as [bs|]; [destruct bs as [|b bs']|].
  - reflexivity.
  - cbn [chunks_of map handle_output_inc]. destruct (snd (drun e st (b :: bs'))).
    + apply IH.
    + rewrite IH. reflexivity.
  - cbn [chunks_of handle_output_inc]. apply IH.
Qed.

Lemma inc_exit_irrelevant e hide st s1 s2 buf :
  chunks_of s1 = chunks_of s2 ->
  handle_output_inc e hide st s1 buf = handle_output_inc e hide st s2 buf.
Proof. intros H. rewrite (inc_by_chunks e hide s1), (inc_by_chunks e hide s2), H. reflexivity. Qed.

Lemma inc_capture_all e hide script :
  List.concat (lo_buf (handle_output_inc e hide DInit script [])) = decode_all e (stream_bytes script).
Proof. rewrite inc_capture. reflexivity. Qed.

Lemma inc_mirror_equals_capture e script :
  lo_writes (handle_output_inc e false DInit script []) = lo_buf (handle_output_inc e false DInit script []).
Proof. destruct (handle_output_inc_shape e false script DInit []) as [ps ->]. reflexivity. Qed.

Lemma inc_submits_growing e hide script :
  lo_submits (handle_output_inc e hide DInit script []) =
  growing [] (lo_buf (handle_output_inc e hide DInit script [])).
Proof. destruct (handle_output_inc_shape e hide script DInit []) as [ps ->]. reflexivity. Qed.

(** old per-read loop, kept for the historical record *)
Lemma legacy_run_refuted : exists i, spec_in i (run_model i) = false.
Proof. exact run_meets_spec_refuted. Qed.

(** * The forwarded text does not depend on the mirror stream's encoding attribute *)

Lemma writes_independent_of_mirror i mo me mo' me' :
  run_writes_inc (with_mirrors i mo me) = run_writes_inc (with_mirrors i mo' me').
Proof.
  unfold run_writes_inc, with_mirrors.
  unfold using_pty.
  cbn [ri_enc ri_out ri_err ri_hide ri_out_given ri_err_given ri_pty ri_stdin_fileno ri_fallback ri_async ri_out_mirror ri_err_mirror].
  rewrite !write_our_output_id. reflexivity.
Qed.

Lemma run_independent_of_mirror_encoding i eo ee eo' ee' :
  run_model_inc (with_mirrors i (mkMirror eo false) (mkMirror ee false)) =
  run_model_inc (with_mirrors i (mkMirror eo' false) (mkMirror ee' false)).
Proof.
  unfold run_model_inc, with_mirrors.
  unfold using_pty.
  cbn [ri_enc ri_out ri_err ri_hide ri_out_given ri_err_given ri_pty ri_stdin_fileno ri_fallback ri_async ri_out_mirror ri_err_mirror].
  rewrite !mirrored_recording. reflexivity.
Qed.

(** ... and is the captured text (unless hidden): a recording mirror holds exactly [Result.stdout] *)
Lemma recording_mirror_is_capture i eo :
  ri_out_mirror i = mkMirror eo false ->
  fst (effective_hide (ri_hide i) (ri_async i) (ri_out_given i) (ri_err_given i)) = false ->
  ro_out_stream (run_model_inc i) = ro_stdout (run_model_inc i).
Proof.
  intros Hm Hh. unfold run_model_inc. cbn zeta. cbn [ro_out_stream ro_stdout]. rewrite Hm, Hh, mirrored_recording.
  exact (inc_writes_shown (ri_enc i) (ri_out i) DInit []).
Qed.

(** a wrapper written to piece by piece = an identical wrapper given the captured text at once *)
Lemma wrapper_mirror_is_rendered_capture i eo :
  ri_out_mirror i = mkMirror eo true ->
  fst (effective_hide (ri_hide i) (ri_async i) (ri_out_given i) (ri_err_given i)) = false ->
  ro_out_stream (run_model_inc i) = render eo (ro_stdout (run_model_inc i)).
Proof.
  intros Hm Hh. unfold run_model_inc. cbn zeta. cbn [ro_out_stream ro_stdout]. rewrite Hm, Hh, mirrored_concat.
  unfold stream_content. cbn [m_wrap m_enc map List.concat]. rewrite app_nil_r.
  f_equal. exact (inc_writes_shown (ri_enc i) (ri_out i) DInit []).
Qed.

(** * Pty asked for vs pty in effect *)

(** the stderr stream is read (captured in full, forwarded unless hidden) exactly when no
    pty is in effect -- whatever was asked for *)
Lemma pipes_stderr_captured i :
  using_pty i = false ->
  ro_stderr (run_model_inc i) = decode_all (ri_enc i) (stream_bytes (ri_err i)).
Proof.
  intros U. unfold run_model_inc. cbn zeta. cbn [ro_stderr]. rewrite U. apply inc_capture_all.
Qed.

Lemma pty_stderr_empty i :
  using_pty i = true ->
  ro_stderr (run_model_inc i) = [] /\ ro_err_submits (run_model_inc i) = [] /\
  ro_err_stream (run_model_inc i) = [].
Proof.
  intros U. unfold run_model_inc. cbn zeta. cbn [ro_stderr ro_err_submits ro_err_stream]. rewrite U.
  cbn [lo_buf lo_writes lo_submits List.concat]. rewrite mirrored_nil. repeat split; reflexivity.
Qed.

(** what a run does depends on the pty request, sys.stdin and the fallback option only
    through what is in effect *)
Lemma run_depends_on_pty_in_effect i p f b p' f' b' :
  pty_in_effect p f b = pty_in_effect p' f' b' ->
  run_model_inc (with_pty_request i p f b) = run_model_inc (with_pty_request i p' f' b').
Proof.
  intros H. unfold run_model_inc, with_pty_request, using_pty.
  cbn [ri_enc ri_out ri_err ri_hide ri_out_given ri_err_given ri_pty ri_stdin_fileno ri_fallback ri_async ri_out_mirror ri_err_mirror].
  rewrite !pty_rule, H. reflexivity.
Qed.

(** a pty that was asked for but fell back to pipes (sys.stdin without fileno, fallback allowed)
    is a plain run: same captured texts, same forwarded texts, same submissions *)
Lemma fallback_run_is_plain_run i f b :
  run_model_inc (with_pty_request i true false true) = run_model_inc (with_pty_request i false f b).
Proof. apply run_depends_on_pty_in_effect. destruct f, b; reflexivity. Qed.
