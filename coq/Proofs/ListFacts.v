(** Small list / boolean facts used by several proofs. *)
From InvokeVerif Require Import Common.Tree Common.StrUtil.

Lemma existsb_false_fun {A} (l : list A) : existsb (fun _ => false) l = false.
Proof. induction l; simpl; auto. Qed.

Lemma existsb_map {A B} (f : B -> bool) (g : A -> B) l :
  existsb f (map g l) = existsb (fun x => f (g x)) l.
Proof. induction l as [|x l IH]; simpl; [reflexivity | rewrite IH; reflexivity]. Qed.

Lemma existsb_orb {A} (f g : A -> bool) l :
  existsb (fun x => f x || g x) l = existsb f l || existsb g l.
Proof.
  induction l as [|x l IH]; simpl; [reflexivity|]. rewrite IH.
  destruct (f x), (g x), (existsb f l), (existsb g l); reflexivity.
Qed.

Lemma existsb_ext_eq {A} (f g : A -> bool) l :
  (forall x, f x = g x) -> existsb f l = existsb g l.
Proof. intros H; induction l as [|x l IH]; simpl; [reflexivity | rewrite H, IH; reflexivity]. Qed.

Lemma mem_nil s : mem s [] = false.
Proof. reflexivity. Qed.

Lemma mem_cons s x l : mem s (x :: l) = String.eqb s x || mem s l.
Proof. reflexivity. Qed.

Lemma mem_app s l1 l2 : mem s (l1 ++ l2) = mem s l1 || mem s l2.
Proof. unfold mem. apply existsb_app. Qed.

Lemma nodupb_app l1 l2 :
  nodupb (l1 ++ l2) = nodupb l1 && nodupb l2 && negb (existsb (fun x => mem x l1) l2).
Proof.
  induction l1 as [|x l1 IH]; cbn [app nodupb].
  - assert (E0 : existsb (fun y => mem y []) l2 = false) by apply existsb_false_fun.
    rewrite E0. simpl. rewrite andb_true_r. reflexivity.
  - rewrite IH. rewrite existsb_app.
    assert (E : existsb (fun y => mem y (x :: l1)) l2
                = existsb (String.eqb x) l2 || existsb (fun y => mem y l1) l2).
    { rewrite <- existsb_orb. apply existsb_ext_eq. intros y. rewrite mem_cons.
      rewrite (String.eqb_sym y x). reflexivity. }
    rewrite E.
    destruct (existsb (String.eqb x) l1), (existsb (String.eqb x) l2), (nodupb l1),
      (nodupb l2), (existsb (fun y => mem y l1) l2); reflexivity.
Qed.

Lemma NoDup_app_intro {A} (l1 l2 : list A) :
  NoDup l1 -> NoDup l2 -> (forall x, In x l1 -> ~ In x l2) -> NoDup (l1 ++ l2).
Proof.
  induction l1 as [|x l1 IH]; simpl; intros N1 N2 H; [assumption|].
  inversion N1 as [|? ? Hx N1']; subst. constructor.
  - rewrite in_app_iff. intros [Hi|Hi]; [contradiction | apply (H x); auto].
  - apply IH; auto.
Qed.

(** injectivity of [f] on a list, in terms of [nodupb (map f l)] *)
Lemma nodupb_map_inj {A} (f : A -> string) (l : list A) :
  nodupb (map f l) = true ->
  forall p q, In p l -> In q l -> f p = f q -> NoDup l -> p = q.
Proof.
  induction l as [|x l IH]; simpl; intros H p q Hp Hq E ND; [contradiction|].
  apply andb_true_iff in H as [H1 H2]. apply negb_true_iff in H1.
  inversion ND as [|? ? Hx ND']; subst.
  assert (forall y, In y l -> f x <> f y) as Hne.
  { intros y Hy Efy. assert (existsb (String.eqb (f x)) (map f l) = true) as Hc.
    { apply existsb_exists. exists (f y). split; [apply in_map; assumption | apply String.eqb_eq; assumption]. }
    congruence. }
  destruct Hp as [->|Hp], Hq as [->|Hq]; auto.
  - exfalso; apply (Hne q Hq); assumption.
  - exfalso; apply (Hne p Hp); symmetry; assumption.
Qed.

Lemma inj_nodupb_map {A} (f : A -> string) (l : list A) :
  NoDup l -> (forall p q, In p l -> In q l -> f p = f q -> p = q) ->
  nodupb (map f l) = true.
Proof.
  induction l as [|x l IH]; simpl; intros ND H; [reflexivity|].
  inversion ND as [|? ? Hx ND']; subst.
  apply andb_true_iff; split.
  - apply negb_true_iff. destruct (existsb (String.eqb (f x)) (map f l)) eqn:E; [|reflexivity].
    apply existsb_exists in E as [s [Hs Es]]. apply String.eqb_eq in Es. subst s.
    apply in_map_iff in Hs as [y [Ey Hy]].
    assert (x = y) by (apply H; auto). subst y. contradiction.
  - apply IH; [assumption|]. intros p q Hp Hq. apply H; auto.
Qed.
