(** C01 proof: the occurrence lemmas of C01_occ.v / C01_roundtrip.v restated over
    weaker invariants, so that they can be combined with spelling forms that
    need required positionals:
    - [ctx_guard_nm] = [ctx_guard] without "no required positional";
    - [st_nm] = [st_ok] without "no positional is missing".
    (Copies of the proofs; the originals are kept so that existing files stay valid.) *)
From InvokeVerif Require Import Corr.C01Corr Proofs.ListFacts Proofs.C07_fuel
     Proofs.C01_steps Proofs.C01_tokens Proofs.C01_lookup Proofs.C01_occ Proofs.C01_roundtrip.
From Coq Require Import Lia.

Definition ctx_guard_nm (c : ctxspec) : bool :=
  wf_args (cx_args c)
  && forallb clean_flag (all_spellings (cx_args c))
  && nodupb (map arg_name (cx_args c))
  && forallb list_default_ok (cx_args c).

Lemma ctx_guard_weaken c : ctx_guard c = true -> ctx_guard_nm c = true.
Proof. unfold ctx_guard, ctx_guard_nm. rewrite !andb_true_iff. tauto. Qed.

Record st_nm (c : ctxspec) (given : list nat) (args : list rarg) : Prop := {
  sn_shape : map r_spec args = cx_args c;
  sn_list : forall i r, nth_error args i = Some r -> a_kind (r_spec r) = KList ->
                        exists l, r_val r = AList l;
  sn_raw : forall i r, nth_error args i = Some r -> takes_value (r_spec r) = true ->
                       a_kind (r_spec r) <> KList -> mem_nat i given = false -> r_raw r = false
}.

Lemma st_ok_nm c given args : st_ok c given args -> st_nm c given args.
Proof. intros [A B C _]. split; assumption. Qed.

Lemma st_nm_ok c given args : st_nm c given args -> no_missing args = true -> st_ok c given args.
Proof. intros [A B C] D. split; assumption. Qed.

Lemma guard_parts_nm c :
  ctx_guard_nm c = true ->
  nodupb (all_spellings (cx_args c)) = true /\
  (forall a, In a (cx_args c) -> a_names a <> []) /\
  (forall x, In x (all_spellings (cx_args c)) -> clean_flag x = true) /\
  (forall a, In a (cx_args c) -> list_default_ok a = true).
Proof.
  unfold ctx_guard_nm, wf_args. rewrite !andb_true_iff. intros [[[[W1 W2] C] _] L].
  repeat split; auto.
  - intros a Ha E. rewrite forallb_forall in W1. specialize (W1 a Ha). rewrite E in W1. discriminate.
  - rewrite forallb_forall in C. exact C.
  - rewrite forallb_forall in L. exact L.
Qed.

Lemma st_nm_after_set c given args i r r' given' :
  st_nm c given args -> nth_error args i = Some r ->
  r_spec r' = r_spec r ->
  (a_kind (r_spec r) = KList -> exists l, r_val r' = AList l) ->
  (takes_value (r_spec r) = true -> a_kind (r_spec r) <> KList -> mem_nat i given' = true) ->
  (forall j, mem_nat j given' = false -> mem_nat j given = false) ->
  st_nm c given' (upd_nth i r' args).
Proof.
  intros [Sh Li Ra] N Sp Hl Hg Hsub. split.
  - rewrite <- Sh. eapply map_upd_same; eauto.
  - intros j rj Nj Kj. destruct (Nat.eq_dec i j) as [<-|Ne].
    + rewrite (nth_error_upd_nth_same _ _ _ _ N) in Nj. injection Nj as <-.
      rewrite Sp in Kj. auto.
    + rewrite (nth_error_upd_nth_other _ _ _ _ Ne) in Nj. eauto.
  - intros j rj Nj Tj Kj Gj. destruct (Nat.eq_dec i j) as [<-|Ne].
    + rewrite (nth_error_upd_nth_same _ _ _ _ N) in Nj. injection Nj as <-.
      rewrite Sp in Tj, Kj. rewrite (Hg Tj Kj) in Gj. discriminate.
    + rewrite (nth_error_upd_nth_other _ _ _ _ Ne) in Nj. eapply Ra; eauto.
Qed.

Section OccNm.
Variable cs : list ctxspec.
Variable p : parser.
Variable i0 : rctx.

(** The tokens of one (simple) occurrence. *)
Lemma occ_steps_nm c given o done cur fl got :
  p_ctxs p = cs ->
  ctx_guard_nm c = true -> occ_simple c given o = true ->
  st_nm c given (rc_args cur) -> inert (MS i0 done cur fl got) ->
  exists fl' got',
    steps p (MS i0 done cur fl got) (spell_occ c o)
            (MS i0 done (with_args cur (run_occ (rc_args cur) o)) fl' got') /\
    inert (MS i0 done (with_args cur (run_occ (rc_args cur) o)) fl' got') /\
    st_nm c (given_after given o) (run_occ (rc_args cur) o).
Proof.
  intros Pc G Os St I.
  destruct (guard_parts_nm c G) as [ND [Nn [Cl Ld]]].
  unfold occ_simple in Os. unfold spell_occ, run_occ.
  destruct (nth_error (cx_args c) (o_arg o)) as [a|] eqn:Na; [|discriminate].
  apply andb_true_iff in Os. destruct Os as [Lk Os]. apply Nat.ltb_lt in Lk.
  pose proof (sn_shape _ _ _ St) as Sh.
  assert (Nr : exists r, nth_error (rc_args cur) (o_arg o) = Some r /\ r_spec r = a).
  { apply nth_error_map_inv. rewrite Sh. exact Na. }
  destruct Nr as [r [Nr Sr]]. rewrite Nr.
  set (tok := flag_of a (o_name o)).
  assert (Tin : In tok (arg_flags a)) by (apply flag_of_in; exact Lk).
  assert (Ctok : clean_flag tok = true).
  { apply Cl. eapply in_all_spellings; [exact Na|]. unfold spellings_of. apply in_or_app. left. exact Tin. }
  assert (Ftok : find_flag (rc_args cur) tok = Some (o_arg o)).
  { rewrite find_flag_args, Sh. eapply find_flag_spec_unique; eauto. }
  assert (Ain : In a (cx_args c)) by (eapply nth_error_In; eauto).
  destruct (o_form o) eqn:Fo; try discriminate; destruct (o_val o) as [b|n|s|] eqn:Vo; try discriminate.
  - (* FBare, VB true *)
    destruct b; [|discriminate]. rewrite !andb_true_iff, negb_true_iff in Os. destruct Os as [Kb Ninc].
    assert (Kb' : a_kind (r_spec r) = KBool) by (rewrite Sr; destruct (a_kind a); try discriminate; reflexivity).
    assert (Ni' : a_incrementable (r_spec r) = false) by (rewrite Sr; exact Ninc).
    unfold occ_input. rewrite Vo. unfold set_value, new_value. rewrite Ni', Kb'. cbn [cast_kind].
    exists (Some (S (List.length done), o_arg o)), false.
    split; [|split].
    + apply steps_one.
      apply (step_bool_flag p i0 done cur fl got tok (o_arg o) r I Ctok Ftok Nr Kb' Ni').
    + apply inert_after; [congruence | reflexivity | rewrite needs_value_bool; [reflexivity | exact Kb']].
    + unfold given_after, is_value_form. rewrite Fo.
      eapply st_nm_after_set; eauto.
      * intros K. rewrite Kb' in K. discriminate.
      * intros T. unfold takes_value in T. rewrite Kb' in T. discriminate.
  - (* FInv, VB false *)
    destruct b; [discriminate|]. rewrite !andb_true_iff, negb_true_iff in Os.
    destruct Os as [[Kb Ninc] Iv].
    destruct (inverse_of a) as [sv|] eqn:Iva; [|discriminate].
    assert (Kb' : a_kind (r_spec r) = KBool) by (rewrite Sr; destruct (a_kind a); try discriminate; reflexivity).
    assert (Ni' : a_incrementable (r_spec r) = false) by (rewrite Sr; exact Ninc).
    assert (Esv : sv = to_flag ("no-" ++ main_name a)).
    { unfold inverse_of in Iva. destruct (a_kind a); try discriminate.
      destruct (a_default a); try discriminate. destruct b; try discriminate. congruence. }
    rewrite <- Esv.
    assert (Csv : clean_flag sv = true).
    { apply Cl. eapply in_all_spellings; [exact Na|]. unfold spellings_of. rewrite Iva.
      apply in_or_app. right. left. reflexivity. }
    assert (Fnone : find_flag (rc_args cur) sv = None).
    { rewrite find_flag_args, Sh. eapply find_flag_spec_none_inverse; eauto. }
    assert (Finv : find_inverse (rc_args cur) sv = Some (to_flag (main_name a))).
    { eapply find_inverse_args; eauto. }
    assert (Ftgt : find_flag (rc_args cur) (to_flag (main_name a)) = Some (o_arg o)).
    { rewrite find_flag_args, Sh. eapply find_flag_spec_unique; eauto. apply main_flag_in. auto. }
    unfold occ_input. rewrite Vo. unfold set_value, new_value. rewrite Ni', Kb'. cbn [cast_kind].
    exists (Some (S (List.length done), o_arg o)), false.
    split; [|split].
    + apply steps_one.
      apply (step_inverse_flag p i0 done cur fl got sv _ (o_arg o) r I Csv Fnone Finv Ftgt Nr Kb' Ni').
    + apply inert_after; [congruence | reflexivity | rewrite needs_value_bool; [reflexivity | exact Kb']].
    + unfold given_after, is_value_form. rewrite Fo.
      eapply st_nm_after_set; eauto.
      * intros K. rewrite Kb' in K. discriminate.
      * intros T. unfold takes_value in T. rewrite Kb' in T. discriminate.
  - (* FNext, VS s *)
    rewrite !andb_true_iff, negb_true_iff in Os. destruct Os as [[[[Tv No] Pl] Hint] Hg].
    unfold plain in Pl. rewrite negb_true_iff in Pl.
    assert (Tv' : takes_value (r_spec r) = true) by (rewrite Sr; exact Tv).
    assert (No' : a_optional (r_spec r) = false) by (rewrite Sr; exact No).
    destruct (set_value_str r s Tv') as [r' [SV [Sp [Rw [Nnone Hl]]]]].
    { rewrite Sr. exact Hint. }
    { intros K. eapply (sn_list _ _ _ St); eauto. }
    unfold occ_input. rewrite Vo, SV. unfold text_of.
    exists (Some (S (List.length done), o_arg o)), true.
    assert (W : forall g, g = false ->
               (if akind_eqb (a_kind (r_spec r)) KList && negb g then true else negb (r_raw r)) = true).
    { intros g ->. rewrite Sr. destruct (akind_eqb (a_kind a) KList) eqn:KL; [reflexivity|].
      simpl in Hg. simpl. rewrite negb_true_iff.
      eapply (sn_raw _ _ _ St); eauto.
      - rewrite Sr. intros K. rewrite K in KL. discriminate.
      - rewrite negb_true_iff in Hg. exact Hg. }
    split; [|split].
    + eapply steps_two.
      * apply (step_value_flag p i0 done cur fl got tok (o_arg o) r I Ctok Ftok Nr Tv').
      * apply (step_value p i0 done cur false s (o_arg o) r r' Nr Tv' No' (W false eq_refl) Pl SV).
    + apply inert_after; [congruence | exact Rw | rewrite andb_false_r; reflexivity].
    + unfold given_after, is_value_form. rewrite Fo.
      eapply st_nm_after_set; eauto.
      * intros _ _. unfold mem_nat. simpl. rewrite Nat.eqb_refl. reflexivity.
      * intros j. unfold mem_nat. simpl. rewrite orb_false_iff. tauto.
  - (* FEq, VS s *)
    rewrite !andb_true_iff, negb_true_iff in Os. destruct Os as [[[[Tv No] Pl] Hint] Hg].
    unfold plain in Pl. rewrite negb_true_iff in Pl.
    assert (Tv' : takes_value (r_spec r) = true) by (rewrite Sr; exact Tv).
    assert (No' : a_optional (r_spec r) = false) by (rewrite Sr; exact No).
    destruct (set_value_str r s Tv') as [r' [SV [Sp [Rw [Nnone Hl]]]]].
    { rewrite Sr. exact Hint. }
    { intros K. eapply (sn_list _ _ _ St); eauto. }
    unfold occ_input. rewrite Vo, SV. unfold text_of.
    exists (Some (S (List.length done), o_arg o)), true.
    assert (W : (if akind_eqb (a_kind (r_spec r)) KList && negb false then true else negb (r_raw r)) = true).
    { rewrite Sr. destruct (akind_eqb (a_kind a) KList) eqn:KL; [reflexivity|].
      simpl in Hg. simpl. rewrite negb_true_iff.
      eapply (sn_raw _ _ _ St); eauto.
      - rewrite Sr. intros K. rewrite K in KL. discriminate.
      - rewrite negb_true_iff in Hg. exact Hg. }
    split; [|split].
    + change ((tok ++ "=" ++ s)%string) with ((tok ++ String "=" s)%string).
      eapply steps_pushed.
      * apply (step_eq_flag p i0 done cur fl got tok s (o_arg o) r I Ctok Ftok Nr Tv').
      * apply (step_value p i0 done cur false s (o_arg o) r r' Nr Tv' No' W Pl SV).
    + apply inert_after; [congruence | exact Rw | rewrite andb_false_r; reflexivity].
    + unfold given_after, is_value_form. rewrite Fo.
      eapply st_nm_after_set; eauto.
      * intros _ _. unfold mem_nat. simpl. rewrite Nat.eqb_refl. reflexivity.
      * intros j. unfold mem_nat. simpl. rewrite orb_false_iff. tauto.
Qed.

End OccNm.

Lemma run_occ_vals_nm c given o args os :
  ctx_guard_nm c = true -> occ_simple c given o = true -> st_nm c given args ->
  vals_ok os args -> vals_ok (os ++ [o]) (run_occ args o).
Proof.
  intros G Os St V. unfold run_occ.
  unfold occ_simple in Os. destruct (nth_error (cx_args c) (o_arg o)) as [a|] eqn:Na; [|discriminate].
  apply andb_true_iff in Os. destruct Os as [_ Os].
  pose proof (sn_shape _ _ _ St) as Sh.
  destruct (nth_error_map_inv r_spec args (o_arg o) a) as [r [Nr Sr]]; [rewrite Sh; exact Na|].
  rewrite Nr.
  assert (Keep : forall j rj, nth_error args j = Some rj -> o_arg o <> j ->
                 arg_value rj = vafter (r_spec rj) j (declared_default (r_spec rj)) (os ++ [o])).
  { intros j rj Nj Ne. rewrite vafter_snoc. unfold vstep.
    destruct (Nat.eqb (o_arg o) j) eqn:E; [apply Nat.eqb_eq in E; congruence|]. apply V. exact Nj. }
  destruct (set_value r (occ_input o) true) as [r'|] eqn:SV.
  2:{ (* impossible under the guards: show it by the same case analysis as occ_steps *)
      exfalso. unfold set_value, new_value, occ_input in SV.
      destruct (o_form o); try discriminate; destruct (o_val o) as [b|n|s|] eqn:Vo; try discriminate.
      - destruct b; [|discriminate]. rewrite !andb_true_iff, negb_true_iff in Os. destruct Os as [Kb Ni].
        rewrite Sr, Ni in SV. destruct (a_kind a); discriminate.
      - destruct b; [discriminate|]. rewrite !andb_true_iff, negb_true_iff in Os. destruct Os as [[Kb Ni] _].
        rewrite Sr, Ni in SV. destruct (a_kind a); discriminate.
      - rewrite !andb_true_iff in Os. destruct Os as [[[[Tv _] _] Hint] _].
        assert (Tv' : takes_value (r_spec r) = true) by (rewrite Sr; exact Tv).
        destruct (set_value_str r s Tv') as [r' [SV' _]].
        { rewrite Sr. exact Hint. }
        { intros K. eapply (sn_list _ _ _ St); eauto. }
        unfold set_value, new_value in SV'. rewrite SV in SV'. discriminate.
      - rewrite !andb_true_iff in Os. destruct Os as [[[[Tv _] _] Hint] _].
        assert (Tv' : takes_value (r_spec r) = true) by (rewrite Sr; exact Tv).
        destruct (set_value_str r s Tv') as [r' [SV' _]].
        { rewrite Sr. exact Hint. }
        { intros K. eapply (sn_list _ _ _ St); eauto. }
        unfold set_value, new_value in SV'. rewrite SV in SV'. discriminate. }
  intros j rj Nj. destruct (Nat.eq_dec (o_arg o) j) as [<-|Ne].
  - rewrite (nth_error_upd_nth_same _ _ _ _ Nr) in Nj. injection Nj as <-.
    assert (Sp : r_spec r' = r_spec r).
    { unfold set_value in SV. destruct (new_value r (occ_input o) true); [|discriminate].
      injection SV as <-. reflexivity. }
    rewrite Sp, vafter_snoc. unfold vstep. rewrite Nat.eqb_refl. rewrite <- (V _ _ Nr).
    apply set_value_agrees; [exact SV | |].
    + rewrite Sr. destruct (o_form o); try discriminate; destruct (o_val o) as [b|n|s|]; try discriminate.
      * destruct b; [|discriminate]. rewrite !andb_true_iff, negb_true_iff in Os. tauto.
      * destruct b; [discriminate|]. rewrite !andb_true_iff, negb_true_iff in Os. tauto.
      * rewrite !andb_true_iff in Os. destruct Os as [[[[Tv _] _] _] _].
        unfold takes_value in Tv. destruct (a_kind a); try discriminate;
          destruct (a_incrementable a); try discriminate; reflexivity.
      * rewrite !andb_true_iff in Os. destruct Os as [[[[Tv _] _] _] _].
        unfold takes_value in Tv. destruct (a_kind a); try discriminate;
          destruct (a_incrementable a); try discriminate; reflexivity.
    + rewrite Sr. destruct (o_form o); try discriminate; destruct (o_val o) as [b|n|s|]; try discriminate.
      * destruct b; [|discriminate]. rewrite !andb_true_iff in Os. destruct Os as [Kb _].
        destruct (a_kind a); try discriminate; reflexivity.
      * destruct b; [discriminate|]. rewrite !andb_true_iff in Os. destruct Os as [[Kb _] _].
        destruct (a_kind a); try discriminate; reflexivity.
      * rewrite !andb_true_iff in Os. destruct Os as [[[[Tv _] _] _] _].
        unfold takes_value in Tv. destruct (a_kind a); try discriminate.
      * rewrite !andb_true_iff in Os. destruct Os as [[[[Tv _] _] _] _].
        unfold takes_value in Tv. destruct (a_kind a); try discriminate.
  - rewrite (nth_error_upd_nth_other _ _ _ _ Ne) in Nj. apply Keep; auto.
Qed.

