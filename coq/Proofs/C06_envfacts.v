(** What [Environment.load] returns, as needed by C06: a well-formed dict whose
    every path is a path of the config it was computed against, with the same
    kind (so it conforms to any schema the config conforms to); refusals are the
    three documented ones. *)
From InvokeVerif Require Import Common.Tree Common.StrUtil Model.MergeModel Model.EnvModel
     Spec.C03Spec Spec.C16Spec Proofs.ListFacts Proofs.TreeFacts Proofs.C03_merge Proofs.C06_track.
From InvokeVerif Require Proofs.C16_env.

Lemma load_ok_facts kids pfx env d :
  wf (Node kids) = true -> load (Node kids) pfx env = Ok d ->
  wf (Node d) = true /\ no_empty_sections (Node d) = true.
Proof.
  intros W H. pose proof (C16_env.load_meets_spec kids pfx env W) as Hs. rewrite H in Hs.
  unfold spec_ok in Hs. destruct (ambiguous (Node kids)); [discriminate|].
  match type of Hs with (if ?b then _ else _) = true => destruct b end; [discriminate|].
  apply andb_true_iff in Hs as [Hs _]. apply andb_true_iff in Hs as [Hs _].
  apply andb_true_iff in Hs as [H1 H2]. split; assumption.
Qed.

Lemma load_err_kind kids pfx env e :
  wf (Node kids) = true -> load (Node kids) pfx env = Err e ->
  e = EAmbigEnv \/ e = EValue \/ e = EUncastable.
Proof.
  intros W H. pose proof (C16_env.load_meets_spec kids pfx env W) as Hs. rewrite H in Hs.
  unfold spec_ok in Hs. destruct (ambiguous (Node kids)).
  - destruct e; try discriminate. left; reflexivity.
  - match type of Hs with (if ?b then _ else _) = true => destruct b end; [|discriminate].
    apply existsb_exists in Hs as [[p r] [Hin Hr]]. simpl in Hr.
    destruct r as [v|e']; [discriminate|]. apply err_eqb_eq in Hr. subst e'.
    apply in_map_iff in Hin as [[[q old] sv] [E _]]. simpl in E. inversion E as [[Ep Ec]].
    right. eapply C16_env.convert_err_kind. exact Ec.
Qed.

(** A non-empty section of a tree without empty sections has a leaf below it. *)
Lemma ne_has_leaf : forall t, no_empty_sections t = true ->
  forall kids, t = Node kids -> kids <> [] -> exists r w, r <> [] /\ leaf_at r t = Some w.
Proof.
  induction t as [v|ks IH] using tree_ind'; intros Hne kids E Hk; [discriminate|].
  inversion E; subst kids. destruct ks as [|[k c] rest]; [congruence|].
  rewrite C16_env.no_empty_Node in Hne. cbn [forallb snd] in Hne.
  apply andb_true_iff in Hne as [Hc _]. inversion IH as [|? ? IHc _]; subst. simpl in IHc.
  destruct c as [v|ck].
  - exists [k], v. split; [discriminate|]. unfold leaf_at. simpl. rewrite String.eqb_refl. reflexivity.
  - unfold C16_env.ne in Hc. destruct ck as [|x l] eqn:Eck; [discriminate|]. rewrite <- Eck in *.
    destruct (IHc Hc ck eq_refl ltac:(rewrite Eck; discriminate)) as [r [w [Hr Hl]]].
    exists (k :: r), w. split; [discriminate|]. unfold leaf_at in *. simpl. rewrite String.eqb_refl. exact Hl.
Qed.

Lemma no_empty_lookup : forall q t t', no_empty_sections t = true -> lookup q t = Some t' -> q <> [] ->
  no_empty_sections t' = true /\ (forall kids, t' = Node kids -> kids <> []).
Proof.
  induction q as [|k q IH]; intros t t' Hne Hl Hq; [congruence|].
  destruct t as [v|kids]; [discriminate|]. simpl in Hl.
  destruct (get k kids) as [c|] eqn:G; [|discriminate].
  rewrite C16_env.no_empty_Node in Hne. rewrite forallb_forall in Hne.
  pose proof (Hne (k, c) (get_in _ _ _ G)) as Hc. simpl in Hc.
  assert (Hc' : no_empty_sections c = true /\ (forall ks, c = Node ks -> ks <> [])).
  { unfold C16_env.ne in Hc. destruct c as [v|[|x l]]; [split; [reflexivity | discriminate] | discriminate |].
    split; [exact Hc | intros ks E; inversion E; discriminate]. }
  destruct q as [|k2 q'].
  - simpl in Hl. inversion Hl; subst t'. exact Hc'.
  - apply (IH c t' (proj1 Hc') Hl). discriminate.
Qed.

(** The environment level conforms to whatever schema the config conforms to. *)
Theorem load_level_ok S kids pfx env d :
  is_node S = true -> wf (Node kids) = true -> conforms S (Node kids) ->
  load (Node kids) pfx env = Ok d ->
  wf (Node d) = true /\ conforms S (Node d).
Proof.
  intros HS W C H. destruct (load_ok_facts kids pfx env d W H) as [Wd Nd].
  split; [exact Wd|].
  assert (Hleaf : forall q w, shape_at q (Node d) = Some (SLeaf w) ->
                   exists s', shape_at q S = Some s' /\ same_kind (SLeaf w) s').
  { intros q w Hq.
    assert (Hl : leaf_at q (Node d) = Some w).
    { unfold shape_at in Hq. unfold leaf_at. destruct (lookup q (Node d)) as [[x|ks]|]; try discriminate.
      inversion Hq; reflexivity. }
    apply (leaf_paths_leaf_at (Node d) Wd) in Hl.
    destruct (C16_env.load_never_creates kids pfx env d W H q w Hl) as [old [sv [Hold _]]].
    apply (leaf_paths_leaf_at (Node kids) W) in Hold.
    assert (Hs : shape_at q (Node kids) = Some (SLeaf old)).
    { unfold leaf_at in Hold. unfold shape_at. destruct (lookup q (Node kids)) as [[x|ks]|]; try discriminate.
      inversion Hold; reflexivity. }
    destruct (C q _ Hs) as [s' [E K]]. exists s'. split; [exact E|]. destruct s'; [exact I | contradiction]. }
  intros q s Hq. destruct s as [w|]; [apply Hleaf; exact Hq|].
  destruct q as [|k q'].
  - exists SNode. split; [|exact I]. destruct S; [discriminate | reflexivity].
  - unfold shape_at in Hq. destruct (lookup (k :: q') (Node d)) as [t'|] eqn:L; [|discriminate].
    destruct t' as [x|ks]; [discriminate|].
    destruct (no_empty_lookup (k :: q') (Node d) (Node ks) Nd L ltac:(discriminate)) as [Nt Hks].
    destruct (ne_has_leaf (Node ks) Nt ks eq_refl (Hks ks eq_refl)) as [r [w [Hr Hl]]].
    assert (Hs : shape_at ((k :: q') ++ r) (Node d) = Some (SLeaf w)).
    { unfold shape_at. unfold leaf_at in Hl.
      assert (Hlk : lookup ((k :: q') ++ r) (Node d) = lookup r (Node ks)).
      { clear -L. revert L. generalize (Node d) as t. generalize (k :: q') as p.
        induction p as [|a p IH]; intros t L; simpl in *.
        - inversion L; reflexivity.
        - destruct t as [v|kids]; [discriminate|]. destruct (get a kids); [apply IH; exact L | discriminate]. }
      rewrite Hlk. destruct (lookup r (Node ks)) as [[y|l]|]; try discriminate. inversion Hl; reflexivity. }
    destruct (Hleaf _ w Hs) as [s' [E K]]. exists SNode. split; [|exact I].
    eapply shape_prefix_node; eassumption.
Qed.
