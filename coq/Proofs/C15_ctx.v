(** C15, part B: nested cd / prefix / try blocks, command composition, stack
    restoration, the sudo wrapper. *)
From InvokeVerif Require Import Model.CtxCmdModel Spec.C15Spec Proofs.C15_opts.
From Coq Require Import Lia.

(** * induction over statements with list bodies *)
Section StmtInd.
  Variable P : stmt -> Prop.
  Hypothesis HRun : forall c, P (SRun c).
  Hypothesis HSudo : forall c u e, P (SSudo c u e).
  Hypothesis HRaise : P SRaise.
  Hypothesis HBlock : forall b body, Forall P body -> P (SBlock b body).

  Fixpoint stmt_ind' (s : stmt) : P s :=
    match s with
    | SRun c => HRun c
    | SSudo c u e => HSudo c u e
    | SRaise => HRaise
    | SBlock b body =>
        HBlock b body
               ((fix go (l : list stmt) : Forall P l :=
                   match l with
                   | [] => Forall_nil P
                   | x :: l' => Forall_cons x (stmt_ind' x) (go l')
                   end) body)
    end.
End StmtInd.

(** the inner loops are [exec_list] / [judge_list] *)
Lemma exec_block cc b body st :
  exec cc (SBlock b body) st =
  let '(st2, out, r) := exec_list cc body (push b st) in
  (pop b st2, out, match b with BTry => false | _ => r end).
Proof.
  cbn [exec].
  assert (E : forall l s,
             (fix go (l : list stmt) (st : cstate) {struct l} : cstate * list call * bool :=
                match l with
                | [] => (st, [], false)
                | x :: l' =>
                    let '(st', o, r) := exec cc x st in
                    if r then (st', o, true)
                    else let '(st'', o', r') := go l' st' in (st'', o ++ o', r')
                end) l s = exec_list cc l s).
  { induction l as [|x l IH]; intros s; [reflexivity|]. cbn [exec_list].
    destruct (exec cc x s) as [[s' o] r]. destruct r; [reflexivity|]. rewrite IH. reflexivity. }
  rewrite E. reflexivity.
Qed.

Lemma judge_block cc fs b body obs :
  judge_stmt cc fs (SBlock b body) obs =
  let '(ok, rest, r) := judge_list cc (fs ++ [b]) body obs in
  (ok, rest, match b with BTry => false | _ => r end).
Proof.
  cbn [judge_stmt].
  assert (E : forall l o,
             (fix go (l : list stmt) (obs : list call) {struct l} : bool * list call * bool :=
                match l with
                | [] => (true, obs, false)
                | x :: l' =>
                    let '(ok, rest, r) := judge_stmt cc (fs ++ [b]) x obs in
                    if r then (ok, rest, true)
                    else let '(ok', rest', r') := go l' rest in (ok && ok', rest', r')
                end) l o = judge_list cc (fs ++ [b]) l o).
  { induction l as [|x l IH]; intros o; [reflexivity|]. cbn [judge_list].
    destruct (judge_stmt cc (fs ++ [b]) x o) as [[ok rest] r]. destruct r; [reflexivity|].
    rewrite IH. reflexivity. }
  rewrite E. reflexivity.
Qed.

(** * stacks are restored, whatever the body did *)
Lemma pop_push b st : pop b (push b st) = st.
Proof.
  destruct st as [p c]. destruct b; cbn [push pop prefixes cwds]; rewrite ?removelast_last; reflexivity.
Qed.

Theorem stacks_restored cc : forall s st, fst (fst (exec cc s st)) = st.
Proof.
  induction s as [c|c u e| |b body IH] using stmt_ind'; intros st; try reflexivity.
  rewrite exec_block.
  assert (L : forall l s0, Forall (fun s => forall st, fst (fst (exec cc s st)) = st) l ->
                           fst (fst (exec_list cc l s0)) = s0).
  { induction l as [|x l IHl]; intros s0 F; [reflexivity|].
    inversion F as [|? ? Hx Hl]; subst. cbn [exec_list].
    specialize (Hx s0). destruct (exec cc x s0) as [[s' o] r]. cbn [fst] in Hx. subst s'.
    destruct r; [reflexivity|].
    specialize (IHl s0 Hl). destruct (exec_list cc l s0) as [[s'' o'] r']. exact IHl. }
  specialize (L body (push b st) IH).
  destruct (exec_list cc body (push b st)) as [[s2 o] r]. cbn [fst] in *. subst s2.
  apply pop_push.
Qed.

Corollary program_restores cc prog st : fst (fst (exec_list cc prog st)) = st.
Proof.
  revert st. induction prog as [|x l IH]; intros st; [reflexivity|]. cbn [exec_list].
  pose proof (stacks_restored cc x st) as Hx.
  destruct (exec cc x st) as [[s' o] r]. cbn [fst] in Hx. subst s'.
  destruct r; [reflexivity|]. specialize (IH st).
  destruct (exec_list cc l st) as [[s'' o'] r']. exact IH.
Qed.

(** * the directory rule *)
Lemma from_last_abs_none l : existsb is_abs l = false -> from_last_abs l = l.
Proof.
  induction l as [|p l IH]; intros H; [reflexivity|]. simpl in *.
  apply orb_false_iff in H as [_ H]. rewrite H. reflexivity.
Qed.

Lemma cd_fold : forall l acc,
  fold_left cd_step l acc = if existsb is_abs l then from_last_abs l else acc ++ l.
Proof.
  induction l as [|p l IH]; intros acc; simpl; [rewrite app_nil_r; reflexivity|].
  rewrite IH. unfold cd_step. destruct (is_abs p) eqn:A; simpl.
  - destruct (existsb is_abs l); reflexivity.
  - destruct (existsb is_abs l); [reflexivity|]. rewrite <- app_assoc. reflexivity.
Qed.

Lemma cwd_effective dirs : cwd_of dirs = effective_dir dirs.
Proof.
  unfold cwd_of, effective_dir. rewrite cd_fold. simpl app.
  destruct dirs as [|p l]; [reflexivity|].
  destruct (existsb is_abs (p :: l)) eqn:E; [reflexivity|].
  rewrite from_last_abs_none by assumption. reflexivity.
Qed.

Definition state_of (fs : list block) : cstate := mkC (pres_of fs) (dirs_of fs).

Lemma push_state fs b : push b (state_of fs) = state_of (fs ++ [b]).
Proof.
  unfold state_of, pres_of, dirs_of. rewrite !flat_map_app.
  destruct b; cbn [push prefixes cwds flat_map]; rewrite ?app_nil_r; reflexivity.
Qed.

Lemma prefix_composed fs cmd : prefix_commands (state_of fs) cmd = composed fs cmd.
Proof.
  unfold prefix_commands, composed, state_of. cbn [cwds prefixes]. rewrite cwd_effective.
  destruct (String.eqb (effective_dir (dirs_of fs)) ""); reflexivity.
Qed.

(** * calls *)
Lemma rejected_only_env c e : rejected c (only_env e) = rejected c no_kw.
Proof. reflexivity. Qed.

Lemma call_run cc fs cmd :
  cfg_sane cc = true ->
  start_ok (cc_run cc) (cc_parent cc) (composed fs cmd) no_kw (do_run cc (state_of fs) cmd) = true.
Proof.
  unfold cfg_sane. intros S. unfold do_run. rewrite prefix_composed.
  apply (started_ok (cc_run cc) (cc_parent cc) (composed fs cmd) no_kw).
  destruct (rejected (cc_run cc) no_kw); [discriminate | reflexivity].
Qed.

(** the effective env of [_sudo] is the env option as the runner resolves it *)
Lemma sudo_env_want cc e :
  match e with Some ONone | None => cfg_run (cc_run cc) Env | Some x => x end
  = want (cc_run cc) (only_env e) Env.
Proof.
  unfold want, given, only_env, cfg_run. cbn [kw].
  destruct e as [[| | | | | |]|]; reflexivity.
Qed.

Lemma sudo_string cc u e prefixed :
  sudo_command (cc_prompt cc) (match u with Some x => x | None => cc_user cc end)
               (match e with Some ONone | None => cfg_run (cc_run cc) Env | Some x => x end)
               prefixed
  = sudo_wrapped cc u e prefixed.
Proof.
  rewrite sudo_env_want. unfold sudo_command, sudo_wrapped, env_flags, user_flags.
  f_equal. f_equal.
  destruct (want (cc_run cc) (only_env e) Env) as [| | | | [|x d] | |]; reflexivity.
Qed.

Lemma call_sudo cc fs cmd u e :
  cfg_sane cc = true ->
  start_ok (cc_run cc) (cc_parent cc) (sudo_wrapped cc u e (composed fs cmd)) (only_env e)
           (do_sudo cc (state_of fs) cmd u e) = true.
Proof.
  unfold cfg_sane. intros S. unfold do_sudo. rewrite prefix_composed, (sudo_string cc u e _).
  apply (started_ok (cc_run cc) (cc_parent cc) _ (only_env e)).
  rewrite rejected_only_env. destruct (rejected (cc_run cc) no_kw); [discriminate | reflexivity].
Qed.

(** * the model's calls are the composed ones *)
Lemma exec_judge cc (S : cfg_sane cc = true) : forall s fs tail,
  judge_stmt cc fs s (snd (fst (exec cc s (state_of fs))) ++ tail)
  = (true, tail, snd (exec cc s (state_of fs))).
Proof.
  induction s as [c|c u e| |b body IH] using stmt_ind'; intros fs tail.
  - cbn [exec judge_stmt fst snd app]. rewrite call_run by assumption. reflexivity.
  - cbn [exec judge_stmt fst snd app]. rewrite call_sudo by assumption. reflexivity.
  - reflexivity.
  - rewrite exec_block, judge_block, push_state.
    assert (L : forall l fs0 tail0,
               Forall (fun s => forall fs tail,
                         judge_stmt cc fs s (snd (fst (exec cc s (state_of fs))) ++ tail)
                         = (true, tail, snd (exec cc s (state_of fs)))) l ->
               judge_list cc fs0 l (snd (fst (exec_list cc l (state_of fs0))) ++ tail0)
               = (true, tail0, snd (exec_list cc l (state_of fs0)))).
    { induction l as [|x l IHl]; intros fs0 tail0 F; [reflexivity|].
      inversion F as [|? ? Hx Hl]; subst.
      cbn [exec_list judge_list].
      pose proof (stacks_restored cc x (state_of fs0)) as R.
      specialize (Hx fs0).
      destruct (exec cc x (state_of fs0)) as [[s' o] r]. cbn [fst snd] in R, Hx. subst s'.
      destruct r.
      - cbn [fst snd]. rewrite (Hx tail0). reflexivity.
      - specialize (IHl fs0 tail0 Hl).
        destruct (exec_list cc l (state_of fs0)) as [[s'' o'] r']. cbn [fst snd] in *.
        rewrite <- app_assoc, (Hx (o' ++ tail0)), IHl. reflexivity. }
    specialize (L body (fs ++ [b]) tail IH).
    destruct (exec_list cc body (state_of (fs ++ [b]))) as [[s2 o] r]. cbn [fst snd] in *.
    rewrite L. reflexivity.
Qed.

Theorem program_meets_spec cc prog :
  cfg_sane cc = true ->
  spec_ok_ctx cc prog (snd (fst (run_program cc prog))) (fst (fst (run_program cc prog)))
              (snd (run_program cc prog)) = true.
Proof.
  unfold run_program, spec_ok_ctx. intros S.
  pose proof (program_restores cc prog c0) as R.
  assert (L : forall l tail,
             judge_list cc [] l (snd (fst (exec_list cc l c0)) ++ tail)
             = (true, tail, snd (exec_list cc l c0))).
  { induction l as [|x l IHl]; intros tail; [reflexivity|].
    cbn [exec_list judge_list].
    pose proof (stacks_restored cc x c0) as Rx.
    pose proof (exec_judge cc S x []) as Hx. change (state_of []) with c0 in Hx.
    destruct (exec cc x c0) as [[s' o] r]. cbn [fst snd] in Rx, Hx. subst s'.
    destruct r.
    - cbn [fst snd]. rewrite (Hx tail). reflexivity.
    - specialize (IHl tail).
      destruct (exec_list cc l c0) as [[s'' o'] r']. cbn [fst snd] in *.
      rewrite <- app_assoc, (Hx (o' ++ tail)), IHl. reflexivity. }
  specialize (L prog []). rewrite app_nil_r in L.
  destruct (exec_list cc prog c0) as [[st calls] r]. cbn [fst snd] in *. subst st.
  rewrite L. rewrite eqb_reflx. reflexivity.
Qed.

(** * a call below an arbitrary nesting of blocks *)
Fixpoint nest (fs : list block) (body : list stmt) : list stmt :=
  match fs with
  | [] => body
  | b :: fs' => [SBlock b (nest fs' body)]
  end.

Lemma nest_calls cc : forall fs fs0 body,
  snd (fst (exec_list cc (nest fs body) (state_of fs0)))
  = snd (fst (exec_list cc body (state_of (fs0 ++ fs)))).
Proof.
  induction fs as [|b fs IH]; intros fs0 body; cbn [nest].
  - rewrite app_nil_r. reflexivity.
  - cbn [exec_list]. rewrite exec_block, push_state.
    specialize (IH (fs0 ++ [b]) body). rewrite <- app_assoc in IH. cbn [app] in IH.
    destruct (exec_list cc (nest fs body) (state_of (fs0 ++ [b]))) as [[s2 o] r].
    cbn [fst snd] in *. subst o.
    destruct (match b with BTry => false | _ => r end); cbn [fst snd]; rewrite ?app_nil_r; reflexivity.
Qed.

Theorem command_composition cc fs cmd :
  cfg_sane cc = true -> truthy (want (cc_run cc) no_kw Dry) = false ->
  snd (fst (run_program cc (nest fs [SRun cmd])))
  = [Some (composed fs cmd, want (cc_run cc) no_kw Shell,
           generate_env (want (cc_run cc) no_kw Env) (want (cc_run cc) no_kw ReplaceEnv)
                        (cc_parent cc))].
Proof.
  unfold cfg_sane. intros S D. unfold run_program. change c0 with (state_of []).
  rewrite nest_calls. cbn [app exec_list exec fst snd]. unfold do_run.
  rewrite prefix_composed.
  change no_kwargs with no_kw.
  rewrite started_value; [reflexivity | | exact D].
  destruct (rejected (cc_run cc) no_kw); [discriminate | reflexivity].
Qed.

Theorem sudo_wraps_prefixed cc fs cmd u e :
  cfg_sane cc = true ->
  truthy (want (cc_run cc) (only_env e) Dry) = false ->
  snd (fst (run_program cc (nest fs [SSudo cmd u e])))
  = [Some (sudo_wrapped cc u e (composed fs cmd), want (cc_run cc) (only_env e) Shell,
           generate_env (want (cc_run cc) (only_env e) Env)
                        (want (cc_run cc) (only_env e) ReplaceEnv) (cc_parent cc))].
Proof.
  unfold cfg_sane. intros S D. unfold run_program. change c0 with (state_of []).
  rewrite nest_calls. cbn [app exec_list exec fst snd]. unfold do_sudo.
  rewrite prefix_composed, (sudo_string cc u e _).
  change (env_kwargs e) with (only_env e).
  rewrite started_value; [reflexivity | | exact D].
  rewrite rejected_only_env. destruct (rejected (cc_run cc) no_kw); [discriminate | reflexivity].
Qed.

(** * Historical: before fix c2a3b37 [_sudo] consulted the env KEYWORD only (F-C15) *)
Definition sudo_command_before_fix (prompt : string) (user : oval) (env_kw : option oval)
           (prefixed : string) : string :=
  sudo_command prompt user (match env_kw with Some e => e | None => ODict [] end) prefixed.

Definition cfg_env_A : config :=
  mkCfg (fun o => match o with Env => Some (ODict [("A", "x")]) | _ => None end) ONone.

Theorem sudo_before_fix_refuted :
  exists cc u e prefixed,
    cfg_sane cc = true /\
    (* A reaches the child ... *)
    want (cc_run cc) (only_env e) Env = ODict [("A", "x")] /\
    (* ... but was not preserved *)
    sudo_command_before_fix (cc_prompt cc) (match u with Some x => x | None => cc_user cc end) e prefixed
    = "sudo -S -p 'P:' whoami"%string /\
    sudo_wrapped cc u e prefixed = "sudo -S -p 'P:' --preserve-env='A' whoami"%string.
Proof.
  exists (mkCC cfg_env_A "P:" ONone []), None, None, "whoami"%string.
  vm_compute. repeat split; reflexivity.
Qed.
