(** C15, part B: nested cd / prefix / try blocks, command composition, stack
    restoration, the sudo wrapper. *)
From InvokeVerif Require Import Model.CtxCmdModel Spec.C15Spec Proofs.C15_opts.
From Coq Require Import Lia.

(** * induction over statements with list bodies *)
Section StmtInd.
  Variable P : stmt -> Prop.
  Hypothesis HRun : forall c k f, P (SRun c k f).
  Hypothesis HSudo : forall c u k f, P (SSudo c u k f).
  Hypothesis HRaise : forall x, P (SRaise x).
  Hypothesis HBlock : forall b body, Forall P body -> P (SBlock b body).

  Fixpoint stmt_ind' (s : stmt) : P s :=
    match s with
    | SRun c k f => HRun c k f
    | SSudo c u k f => HSudo c u k f
    | SRaise x => HRaise x
    | SBlock b body =>
        HBlock b body
               ((fix go (l : list stmt) : Forall P l :=
                   match l with
                   | [] => Forall_nil P
                   | x :: l' => Forall_cons x (stmt_ind' x) (go l')
                   end) body)
    end.
End StmtInd.

(** the inner loops are [exec_list_with] / [judge_list_r] *)
Lemma exec_block cl cc b body st :
  exec_with cl cc (SBlock b body) st =
  let '(st2, out, r) := exec_list_with cl cc body (push b st) in
  match b with
  | BTry => (st2, out, None)
  | _ => (if cleanup_runs (cl b) r then pop b st2 else st2, out, r)
  end.
Proof.
  cbn [exec_with].
  assert (E : forall l s,
             (fix go (l : list stmt) (st : cstate) {struct l} : cstate * list call * option xkind :=
                match l with
                | [] => (st, [], None)
                | x :: l' =>
                    let '(st', o, r) := exec_with cl cc x st in
                    match r with
                    | Some _ => (st', o, r)
                    | None => let '(st'', o', r') := go l' st' in (st'', o ++ o', r')
                    end
                end) l s = exec_list_with cl cc l s).
  { induction l as [|x l IH]; intros s; [reflexivity|]. cbn [exec_list_with].
    destruct (exec_with cl cc x s) as [[s' o] r]. destruct r; [reflexivity|]. rewrite IH. reflexivity. }
  rewrite E. reflexivity.
Qed.

Lemma judge_block cc fs b body obs :
  judge_stmt_r true cc fs (SBlock b body) obs =
  let '(ok, rest, r) := judge_list_r true cc (fs ++ [b]) body obs in
  (ok, rest, match b with BTry => None | _ => r end).
Proof.
  cbn [judge_stmt_r].
  assert (E : forall l o,
             (fix go (l : list stmt) (obs : list call) {struct l} : bool * list call * option xkind :=
                match l with
                | [] => (true, obs, None)
                | x :: l' =>
                    let '(ok, rest, r) := judge_stmt_r true cc (fs ++ [b]) x obs in
                    match r with
                    | Some _ => (ok, rest, r)
                    | None => let '(ok', rest', r') := go l' rest in (ok && ok', rest', r')
                    end
                end) l o = judge_list_r true cc (fs ++ [b]) l o).
  { induction l as [|x l IH]; intros o; [reflexivity|]. cbn [judge_list_r].
    destruct (judge_stmt_r true cc (fs ++ [b]) x o) as [[ok rest] r]. destruct r; [reflexivity|].
    rewrite IH. reflexivity. }
  rewrite E. reflexivity.
Qed.

(** * stacks are restored, however the body was left *)
Lemma pop_push b st : pop b (push b st) = st.
Proof.
  destruct st as [p c]. destruct b; cbn [push pop prefixes cwds]; rewrite ?removelast_last; reflexivity.
Qed.

(** Every statement -- whatever it contains: calls whose options are refused, commands
    that exit non-zero, raises of ANY kind (Exception subclasses, KeyboardInterrupt,
    SystemExit, GeneratorExit), caught or not -- leaves both stacks as it found them.
    This rests on [clause_of b = CFinally] for cd and prefix; see [leaky_clause]. *)
Theorem stacks_restored cc : forall s st, fst (fst (exec cc s st)) = st.
Proof.
  unfold exec.
  induction s as [c k f|c u k f|x|b body IH] using stmt_ind'; intros st; try reflexivity.
  rewrite exec_block.
  assert (L : forall l s0, Forall (fun s => forall st, fst (fst (exec_with clause_of cc s st)) = st) l ->
                           fst (fst (exec_list_with clause_of cc l s0)) = s0).
  { induction l as [|x l IHl]; intros s0 F; [reflexivity|].
    inversion F as [|? ? Hx Hl]; subst. cbn [exec_list_with].
    specialize (Hx s0). destruct (exec_with clause_of cc x s0) as [[s' o] r]. cbn [fst] in Hx. subst s'.
    destruct r; [reflexivity|].
    specialize (IHl s0 Hl). destruct (exec_list_with clause_of cc l s0) as [[s'' o'] r']. exact IHl. }
  specialize (L body (push b st) IH).
  destruct (exec_list_with clause_of cc body (push b st)) as [[s2 o] r]. cbn [fst] in *. subst s2.
  destruct b; cbn [clause_of cleanup_runs fst]; try apply pop_push. reflexivity.
Qed.

Corollary program_restores cc prog st : fst (fst (exec_list cc prog st)) = st.
Proof.
  unfold exec_list. revert st. induction prog as [|x l IH]; intros st; [reflexivity|].
  cbn [exec_list_with].
  pose proof (stacks_restored cc x st) as Hx. unfold exec in Hx.
  destruct (exec_with clause_of cc x st) as [[s' o] r]. cbn [fst] in Hx. subst s'.
  destruct r; [reflexivity|]. specialize (IH st).
  destruct (exec_list_with clause_of cc l st) as [[s'' o'] r']. exact IH.
Qed.

(** The theorem above is about the clause the code uses: were the clean-up written
    [except Exception: pop; raise / else: pop], a KeyboardInterrupt (SystemExit,
    GeneratorExit) would leave the block on the stack -- while an Exception would not. *)
Theorem leaky_clause cc :
  let cl := fun _ : block => CExceptException in
  fst (fst (exec_with cl cc (SBlock (BPrefix "p") [SRaise XKbd]) c0)) = mkC ["p"%string] [] /\
  fst (fst (exec_with cl cc (SBlock (BCd "d") [SRaise XSysExit]) c0)) = mkC [] ["d"%string] /\
  fst (fst (exec_with cl cc (SBlock (BCd "d") [SRaise XGenExit]) c0)) = mkC [] ["d"%string] /\
  fst (fst (exec_with cl cc (SBlock (BPrefix "p") [SRaise XBoom]) c0)) = c0.
Proof. repeat split; reflexivity. Qed.

(** * the directory rule *)
Lemma from_last_abs_none l : existsb is_abs l = false -> from_last_abs l = l.
Proof.
  induction l as [|p l IH]; intros H; [reflexivity|]. simpl in *.
  apply orb_false_iff in H as [_ H]. rewrite H. reflexivity.
Qed.

Lemma cd_fold : forall l acc,
  fold_left cd_step l acc = if existsb is_abs l then from_last_abs l else acc ++ l.
Proof.
  induction l as [|p l IH]; intros acc; simpl; [rewrite app_nil_r; reflexivity|].
  rewrite IH. unfold cd_step. destruct (is_abs p) eqn:A; simpl.
  - destruct (existsb is_abs l); reflexivity.
  - destruct (existsb is_abs l); [reflexivity|]. rewrite <- app_assoc. reflexivity.
Qed.

Lemma cwd_effective dirs : cwd_of dirs = effective_dir dirs.
Proof.
  unfold cwd_of, effective_dir. rewrite cd_fold. simpl app.
  destruct dirs as [|p l]; [reflexivity|].
  destruct (existsb is_abs (p :: l)) eqn:E; [reflexivity|].
  rewrite from_last_abs_none by assumption. reflexivity.
Qed.

Definition state_of (fs : list block) : cstate := mkC (pres_of fs) (dirs_of fs).

Lemma push_state fs b : push b (state_of fs) = state_of (fs ++ [b]).
Proof.
  unfold state_of, pres_of, dirs_of. rewrite !flat_map_app.
  destruct b; cbn [push prefixes cwds flat_map]; rewrite ?app_nil_r; reflexivity.
Qed.

Lemma prefix_composed fs cmd : prefix_commands (state_of fs) cmd = composed fs cmd.
Proof.
  unfold prefix_commands, composed, state_of. cbn [cwds prefixes]. rewrite cwd_effective.
  destruct (String.eqb (effective_dir (dirs_of fs)) ""); reflexivity.
Qed.

(** * calls *)
(** the effective env of [_sudo] is the env option as the runner resolves it *)
Lemma sudo_env_want c k :
  match kw k Env with Some ONone | None => cfg_run c Env | Some x => x end = want c k Env.
Proof.
  unfold want, given, cfg_run. destruct (kw k Env) as [[| | | | | |]|]; reflexivity.
Qed.

Lemma sudo_string cc u k prefixed :
  sudo_command (cc_prompt cc) (match u with Some x => x | None => cc_user cc end)
               (match kw k Env with Some ONone | None => cfg_run (cc_run cc) Env | Some x => x end)
               prefixed
  = sudo_wrapped cc u k prefixed.
Proof.
  rewrite sudo_env_want. unfold sudo_command, sudo_wrapped, env_flags, user_flags.
  f_equal. f_equal.
  destruct (want (cc_run cc) k Env) as [| | | | [|x d] | |]; reflexivity.
Qed.

Lemma sudo_kwargs_eq c k : sudo_run_kwargs c k = spec_sudo_kwargs c k.
Proof. reflexivity. Qed.

(** * the model's calls are the composed ones, its exceptions the expected ones *)
Lemma exec_judge cc : forall s fs tail,
  judge_stmt_r true cc fs s (snd (fst (exec cc s (state_of fs))) ++ tail)
  = (true, tail, snd (exec cc s (state_of fs))).
Proof.
  unfold exec.
  induction s as [c k f|c u k f|x|b body IH] using stmt_ind'; intros fs tail.
  - cbn [exec_with judge_stmt_r fst snd app]. unfold do_run, run_raises.
    rewrite prefix_composed, run_meets_spec, run_raises_spec. reflexivity.
  - cbn [exec_with judge_stmt_r fst snd app]. unfold do_sudo, run_raises.
    rewrite prefix_composed, sudo_string.
    change (sudo_run_kwargs (cc_run cc) k) with (spec_sudo_kwargs (cc_run cc) k).
    rewrite run_meets_spec, run_raises_spec. reflexivity.
  - reflexivity.
  - rewrite exec_block, judge_block, push_state.
    assert (L : forall l fs0 tail0,
               Forall (fun s => forall fs tail,
                         judge_stmt_r true cc fs s (snd (fst (exec_with clause_of cc s (state_of fs))) ++ tail)
                         = (true, tail, snd (exec_with clause_of cc s (state_of fs)))) l ->
               judge_list_r true cc fs0 l (snd (fst (exec_list_with clause_of cc l (state_of fs0))) ++ tail0)
               = (true, tail0, snd (exec_list_with clause_of cc l (state_of fs0)))).
    { induction l as [|x l IHl]; intros fs0 tail0 F; [reflexivity|].
      inversion F as [|? ? Hx Hl]; subst.
      cbn [exec_list_with judge_list_r].
      pose proof (stacks_restored cc x (state_of fs0)) as R. unfold exec in R.
      specialize (Hx fs0).
      destruct (exec_with clause_of cc x (state_of fs0)) as [[s' o] r]. cbn [fst snd] in R, Hx. subst s'.
      destruct r as [xk|].
      - cbn [fst snd]. rewrite (Hx tail0). reflexivity.
      - specialize (IHl fs0 tail0 Hl).
        destruct (exec_list_with clause_of cc l (state_of fs0)) as [[s'' o'] r']. cbn [fst snd] in *.
        rewrite <- app_assoc, (Hx (o' ++ tail0)), IHl. reflexivity. }
    specialize (L body (fs ++ [b]) tail IH).
    destruct (exec_list_with clause_of cc body (state_of (fs ++ [b]))) as [[s2 o] r]. cbn [fst snd] in L.
    destruct b; cbn [fst snd]; rewrite L; reflexivity.
Qed.

Lemma oxkind_eqb_refl r : oxkind_eqb r r = true.
Proof. destruct r as [[]|]; reflexivity. Qed.

Theorem program_meets_spec cc prog :
  spec_ok_ctx_r true cc prog (snd (fst (run_program cc prog))) (fst (fst (run_program cc prog)))
              (snd (run_program cc prog)) = true.
Proof.
  unfold run_program , spec_ok_ctx_r.
  pose proof (program_restores cc prog c0) as R. unfold exec_list in *.
  assert (L : forall l tail,
             judge_list_r true cc [] l (snd (fst (exec_list_with clause_of cc l c0)) ++ tail)
             = (true, tail, snd (exec_list_with clause_of cc l c0))).
  { induction l as [|x l IHl]; intros tail; [reflexivity|].
    cbn [exec_list_with judge_list_r].
    pose proof (stacks_restored cc x c0) as Rx.
    pose proof (exec_judge cc x []) as Hx. change (state_of []) with c0 in Hx. unfold exec in Rx, Hx.
    destruct (exec_with clause_of cc x c0) as [[s' o] r]. cbn [fst snd] in Rx, Hx. subst s'.
    destruct r as [xk|].
    - cbn [fst snd]. rewrite (Hx tail). reflexivity.
    - specialize (IHl tail).
      destruct (exec_list_with clause_of cc l c0) as [[s'' o'] r']. cbn [fst snd] in *.
      rewrite <- app_assoc, (Hx (o' ++ tail)), IHl. reflexivity. }
  specialize (L prog []). rewrite app_nil_r in L.
  destruct (exec_list_with clause_of cc prog c0) as [[st calls] r]. cbn [fst snd] in *. subst st.
  rewrite L, oxkind_eqb_refl. reflexivity.
Qed.

(** * a call below an arbitrary nesting of blocks *)
Fixpoint nest (fs : list block) (body : list stmt) : list stmt :=
  match fs with
  | [] => body
  | b :: fs' => [SBlock b (nest fs' body)]
  end.

Lemma nest_calls cc : forall fs fs0 body,
  snd (fst (exec_list cc (nest fs body) (state_of fs0)))
  = snd (fst (exec_list cc body (state_of (fs0 ++ fs)))).
Proof.
  unfold exec_list.
  induction fs as [|b fs IH]; intros fs0 body; cbn [nest].
  - rewrite app_nil_r. reflexivity.
  - cbn [exec_list_with]. rewrite exec_block, push_state.
    specialize (IH (fs0 ++ [b]) body). rewrite <- app_assoc in IH. cbn [app] in IH.
    destruct (exec_list_with clause_of cc (nest fs body) (state_of (fs0 ++ [b]))) as [[s2 o] r].
    cbn [fst snd] in *. subst o.
    destruct b; [destruct r| destruct r|]; cbn [fst snd]; rewrite ?app_nil_r; reflexivity.
Qed.

Theorem command_composition cc fs cmd k :
  rejected (cc_run cc) k = None -> truthy (want (cc_run cc) k Dry) = false ->
  map o_started (snd (fst (run_program cc (nest fs [SRun cmd k false]))))
  = [Some (composed fs cmd, want (cc_run cc) k Shell,
           generate_env (want (cc_run cc) k Env) (want (cc_run cc) k ReplaceEnv) (cc_parent cc))].
Proof.
  intros S D. unfold run_program. change c0 with (state_of []).
  rewrite nest_calls. unfold exec_list. cbn [app exec_list_with exec_with fst snd]. unfold do_run.
  rewrite prefix_composed.
  destruct (run_raises _ false); cbn [fst snd]; rewrite ?app_nil_r; cbn [map];
    rewrite started_value by assumption; reflexivity.
Qed.

Theorem sudo_wraps_prefixed cc fs cmd u k :
  rejected (cc_run cc) k = None -> truthy (want (cc_run cc) k Dry) = false ->
  map o_started (snd (fst (run_program cc (nest fs [SSudo cmd u k false]))))
  = [Some (sudo_wrapped cc u k (composed fs cmd), want (cc_run cc) k Shell,
           generate_env (want (cc_run cc) k Env) (want (cc_run cc) k ReplaceEnv) (cc_parent cc))].
Proof.
  intros S D. unfold run_program. change c0 with (state_of []).
  rewrite nest_calls. unfold exec_list. cbn [app exec_list_with exec_with fst snd]. unfold do_sudo.
  rewrite prefix_composed, sudo_string.
  destruct (run_raises _ false); cbn [fst snd]; rewrite ?app_nil_r; cbn [map];
    rewrite (started_value (cc_run cc) (cc_parent cc) _ (sudo_run_kwargs (cc_run cc) k) S D);
    reflexivity.
Qed.

(** * Historical: before fix c2a3b37 [_sudo] consulted the env KEYWORD only (F-C15) *)
Definition sudo_command_before_fix (prompt : string) (user : oval) (env_kw : option oval)
           (prefixed : string) : string :=
  sudo_command prompt user (match env_kw with Some e => e | None => ODict [] end) prefixed.

Definition cfg_env_A : config :=
  mkCfg (fun o => match o with Env => Some (ODict [("A", "x")]) | _ => None end) ONone.

Theorem sudo_before_fix_refuted :
  exists cc u k prefixed,
    (* A reaches the child ... *)
    want (cc_run cc) k Env = ODict [("A", "x")] /\
    (* ... but was not preserved *)
    sudo_command_before_fix (cc_prompt cc) (match u with Some x => x | None => cc_user cc end)
                            (kw k Env) prefixed
    = "sudo -S -p 'P:' whoami"%string /\
    sudo_wrapped cc u k prefixed = "sudo -S -p 'P:' --preserve-env='A' whoami"%string.
Proof.
  exists (mkCC cfg_env_A "P:" ONone []), None, no_kw, "whoami"%string.
  vm_compute. repeat split; reflexivity.
Qed.

(** * Historical: before fix 2644606 [_sudo] did [list(kwargs.pop("watchers", ...))],
    so an explicit [watchers=None] raised TypeError before the runner was reached
    (F-C15b), although the specification -- and [run] -- take None as "not given". *)
Definition sudo_refused_before_fix (k : kwargs) : bool :=
  match kw k Watchers with Some ONone => true | _ => false end.

Theorem sudo_watchers_none_before_fix_refuted :
  exists cc k,
    sudo_refused_before_fix k = true /\             (* TypeError, nothing started ... *)
    expected_raise (cc_run cc) k false = None /\    (* ... where nothing has to be raised *)
    (* and the code as it is now starts the wrapped command *)
    map o_started (snd (fst (run_program cc [SSudo "whoami" None k false])))
    = [Some ("sudo -S -p 'P:' whoami"%string, OStr "/bin/bash", [])].
Proof.
  exists (mkCC (mkCfg (fun _ => None) ONone) "P:" ONone []),
         (mkKw (fun o => match o with Watchers => Some ONone | _ => None end) None []).
  vm_compute. repeat split; reflexivity.
Qed.
