(** C14: input that is still queued for the command (events of the stdin worker)
    never changes what [run] does -- in particular not the outcome of a timeout
    that expires while the stdin worker has input pending.

    In the model the stdin worker's reads are events without effect on the control
    state ([apply_ev] on [EChunk WIn] / [EEof WIn]): [kill] signals the process and
    touches nothing else, the worker keeps forwarding until the main thread has left
    the wait loop and then ends by itself ([leave_wait]).  The theorem below makes
    that explicit for whole runs: erasing every input event from a script leaves the
    observation unchanged.  (The harness side: scripted runs with input queued at the
    expiry, through the real [Local.kill] on a stand-in child, and real children.) *)
From InvokeVerif Require Import Model.RunnerSM Spec.C08Spec Spec.C14Spec.
From InvokeVerif Require Import Proofs.RunnerSM_facts Proofs.C08_sm Proofs.C14_sm.
From Coq Require Import Lia.

Definition is_input (e : ev) : bool :=
  match e with EChunk WIn | EEof WIn => true | _ => false end.

Definition strip_input (script : list ev) : list ev :=
  filter (fun e => negb (is_input e)) script.

Lemma strip_input_cons e r :
  strip_input (e :: r) = if negb (is_input e) then e :: strip_input r else strip_input r.
Proof. reflexivity. Qed.

Lemma strip_input_app a b : strip_input (a ++ b) = strip_input a ++ strip_input b.
Proof. unfold strip_input. apply filter_app. Qed.

Lemma strip_input_all ins : forallb is_input ins = true -> strip_input ins = [].
Proof.
  induction ins as [|e r IH]; [reflexivity|]. cbn [forallb]. intros H.
  apply andb_prop in H. destruct H as [A B]. rewrite strip_input_cons, A. cbn [negb]. apply IH. exact B.
Qed.

(** * States equal up to the step counter *)

Definition zs (n : cnt) : cnt :=
  mkCnt (n_kills n) (n_kills_after_exit n) (n_intr n) (n_stop n) (n_out n) (n_err n) (n_expired n) 0 (n_joins n).

Definition sim (a b : st) : Prop := fst a = fst b /\ zs (snd a) = zs (snd b).

Lemma sim_refl a : sim a a.
Proof. split; reflexivity. Qed.
Lemma sim_sym a b : sim a b -> sim b a.
Proof. intros [A B]. split; symmetry; assumption. Qed.
Lemma sim_trans a b d : sim a b -> sim b d -> sim a d.
Proof. intros [A B] [A' B']. split; [rewrite A; exact A' | rewrite B; exact B']. Qed.

Lemma zs_add_steps j n : zs (add_steps j n) = zs n.
Proof. destruct n; reflexivity. Qed.

Lemma zs_steps j n m : zs n = zs m -> zs (add_steps j n) = zs (add_steps j m).
Proof. intros H. rewrite !zs_add_steps. exact H. Qed.
Lemma zs_intr n m : zs n = zs m -> zs (add_intr n) = zs (add_intr m).
Proof. destruct n, m; unfold zs; cbn; intros H; congruence. Qed.
Lemma zs_stop n m : zs n = zs m -> zs (add_stop n) = zs (add_stop m).
Proof. destruct n, m; unfold zs; cbn; intros H; congruence. Qed.
Lemma zs_kill b n m : zs n = zs m -> zs (add_kill b n) = zs (add_kill b m).
Proof. destruct b, n, m; unfold zs; cbn; intros H; congruence. Qed.
Lemma zs_read w n m : zs n = zs m -> zs (add_read w n) = zs (add_read w m).
Proof. destruct w, n, m; unfold zs; cbn; intros H; congruence. Qed.
Lemma zs_expired n m : zs n = zs m -> zs (add_expired n) = zs (add_expired m).
Proof. destruct n, m; unfold zs; cbn; intros H; congruence. Qed.
Lemma zs_join w b n m : zs n = zs m -> zs (add_join w b n) = zs (add_join w b m).
Proof. destruct n, m; unfold zs; cbn; intros H; congruence. Qed.
Lemma zs_join_note cur k w n m : zs n = zs m -> zs (join_note cur k w n) = zs (join_note cur k w m).
Proof. destruct cur; cbn [join_note]; intros H; [exact H | apply zs_join; exact H]. Qed.

Lemma run_joins_sim c : forall todo k n m cur ec, zs n = zs m ->
  sim (run_joins c (k, n) todo cur ec) (run_joins c (k, m) todo cur ec).
Proof.
  induction todo as [|w rest IH]; intros k n m cur ec H.
  - cbn [run_joins]. unfold do_stop, sim. cbn [fst snd]. split; [reflexivity|].
    apply zs_steps, zs_stop, H.
  - cbn [run_joins fst snd]. destruct (is_run (wget k w)).
    + split; cbn [fst snd]; [reflexivity|]. apply zs_steps, zs_join_note, H.
    + apply IH. apply zs_steps, zs_join_note, H.
Qed.

Lemma leave_wait_sim c k n m ec : zs n = zs m -> sim (leave_wait c (k, n) ec) (leave_wait c (k, m) ec).
Proof. intros H. unfold leave_wait. cbn [fst snd]. apply run_joins_sim. apply zs_steps, H. Qed.

Lemma advance_sim c a b : sim a b -> sim (advance c a) (advance c b).
Proof.
  destruct a as [k n], b as [k' m]. intros [E H]. cbn [fst snd] in E, H. subst k'.
  unfold advance. cbn [fst snd]. destruct (s_pc k) as [|todo cur ec|o|].
  - destruct (s_proc k).
    + apply leave_wait_sim, H.
    + destruct (any_dead k); [apply leave_wait_sim, H | split; assumption || reflexivity].
  - apply run_joins_sim, H.
  - split; [reflexivity | exact H].
  - split; [reflexivity | exact H].
Qed.

Lemma apply_ev_sim c a b e : sim a b -> sim (apply_ev c a e) (apply_ev c b e).
Proof.
  destruct a as [k n], b as [k' m]. intros [E H]. cbn [fst snd] in E, H. subst k'.
  assert (S0 : sim (k, n) (k, m)) by (split; [reflexivity | exact H]).
  unfold apply_ev. cbn [fst snd]. destruct (running k); cbn [negb]; [|exact S0].
  destruct e as [w|w|code|code| |w x|].
  - destruct w; try exact S0; (destruct (is_run (wget k _)); [|exact S0]);
      (split; cbn [fst snd]; [reflexivity | apply zs_read, H]).
  - destruct w; try exact S0; (destruct (is_run (wget k _)); [|exact S0]);
      (split; cbn [fst snd]; [reflexivity | exact H]).
  - destruct (s_proc k); [exact S0 | split; cbn [fst snd]; [reflexivity | exact H]].
  - destruct (s_pc k); try (split; cbn [fst snd]; [reflexivity | exact H]).
    apply leave_wait_sim, zs_intr, H.
  - destruct (s_timer k); try exact S0.
    destruct (s_proc k); (split; cbn [fst snd]; [reflexivity | apply zs_kill, H]).
  - destruct (is_run (wget k w)); [|exact S0]. split; cbn [fst snd]; [reflexivity | exact H].
  - destruct (s_pc k); try exact S0. split; cbn [fst snd]; [reflexivity | apply zs_intr, H].
Qed.

Lemma step_sim c a b e : sim a b -> sim (step c a e) (step c b e).
Proof.
  intros S. unfold step. apply advance_sim. destruct (apply_ev_sim c a b e S) as [E H].
  split; cbn [fst snd]; [exact E | apply zs_steps, H].
Qed.

Lemma run_events_sim c : forall script a b, sim a b -> sim (run_events c a script) (run_events c b script).
Proof.
  induction script as [|e r IH]; intros a b S; [exact S|].
  change (run_events c a (e :: r)) with (run_events c (step c a e) r).
  change (run_events c b (e :: r)) with (run_events c (step c b e) r).
  apply IH, step_sim, S.
Qed.

Lemma expire_sim c a b : sim a b -> sim (expire c a) (expire c b).
Proof.
  destruct a as [k n], b as [k' m]. intros [E H]. cbn [fst snd] in E, H. subst k'.
  assert (S0 : sim (k, n) (k, m)) by (split; [reflexivity | exact H]).
  unfold expire. cbn [fst snd]. destruct (s_pc k) as [|todo cur ec|o|]; try exact S0.
  destruct todo as [|w rest]; [exact S0|]. destruct cur as [[|]|]; try exact S0.
  - apply run_joins_sim, zs_steps, zs_expired, H.
  - split; cbn [fst snd]; [reflexivity | exact H].
Qed.

Lemma drain_sim c a b : sim a b -> sim (drain c a) (drain c b).
Proof.
  destruct a as [k n], b as [k' m]. intros [E H]. cbn [fst snd] in E, H. subst k'.
  unfold drain. cbn [fst snd]. destruct (running k); cbn [negb]; [|split; [reflexivity | exact H]].
  apply expire_sim, expire_sim, advance_sim. split; [reflexivity | exact H].
Qed.

Lemma observe_sim a b : sim a b -> observe a = observe b.
Proof.
  destruct a as [k n], b as [k' m]. intros [E H]. cbn [fst snd] in E, H. subst k'.
  unfold observe. cbn [fst snd]. destruct n, m. unfold zs in H. cbn in H. injection H as -> -> -> -> -> -> -> ->.
  reflexivity.
Qed.

(** * A settled state stays where it is *)

Lemma set_pc_same k : set_pc k (s_pc k) = k.
Proof. destruct k; reflexivity. Qed.

(** between two events the main thread has run as far as it can: running on changes nothing *)
Lemma advance_inv_sim c k n : Inv c k -> sim (advance c (k, n)) (k, n).
Proof.
  intros [_ HI]. unfold advance. cbn [fst snd]. destruct (s_pc k) as [|todo cur ec|o|] eqn:P.
  - destruct HI as (Pr & D & _). rewrite Pr, D. apply sim_refl.
  - destruct HI as (_ & _ & _ & w & rest & b & Et & Ec & R). subst todo cur.
    cbn [run_joins fst snd]. rewrite R. split; cbn [fst snd].
    + rewrite <- P. apply set_pc_same.
    + cbn [join_note]. apply zs_add_steps.
  - apply sim_refl.
  - apply sim_refl.
Qed.

Lemma apply_ev_input c s e : is_input e = true -> apply_ev c s e = s.
Proof.
  intros H. unfold apply_ev. destruct (running (fst s)); cbn [negb]; [|reflexivity].
  destruct e as [w|w|code|code| |w x|]; try discriminate; destruct w; try discriminate; reflexivity.
Qed.

(** an input event leaves a reachable state as it is *)
Lemma step_input_sim c s e : Inv c (fst s) -> is_input e = true -> sim (step c s e) s.
Proof.
  intros I H. unfold step. rewrite (apply_ev_input c s e H). destruct s as [k n]. cbn [fst snd] in *.
  eapply sim_trans; [apply advance_inv_sim; exact I|]. split; cbn [fst snd]; [reflexivity | apply zs_add_steps].
Qed.

Lemma step_over_sim c s e : running (fst s) = false -> sim (step c s e) s.
Proof.
  intros R. unfold step. rewrite apply_ev_over by exact R. unfold advance. cbn [fst snd].
  unfold running in R. destruct s as [k n]. cbn [fst snd] in *.
  destruct (s_pc k); try discriminate; (split; cbn [fst snd]; [reflexivity | apply zs_add_steps]).
Qed.

Lemma run_events_over_sim c : forall script s, running (fst s) = false -> sim (run_events c s script) s.
Proof.
  induction script as [|e r IH]; intros s R; [apply sim_refl|].
  change (run_events c s (e :: r)) with (run_events c (step c s e) r).
  pose proof (step_over_sim c s e R) as S.
  eapply sim_trans; [apply IH | exact S]. destruct S as [E _]. rewrite E. exact R.
Qed.

Lemma run_events_strip c : forall script s s',
  Inv c (fst s) -> sim s s' -> sim (run_events c s script) (run_events c s' (strip_input script)).
Proof.
  induction script as [|e r IH]; intros s s' I S; [exact S|].
  change (run_events c s (e :: r)) with (run_events c (step c s e) r).
  rewrite strip_input_cons. destruct (is_input e) eqn:In; cbn [negb].
  - apply IH; [apply step_inv; exact I|].
    eapply sim_trans; [apply step_input_sim; assumption | exact S].
  - change (run_events c s' (e :: strip_input r)) with (run_events c (step c s' e) (strip_input r)).
    apply IH; [apply step_inv; exact I | apply step_sim; exact S].
Qed.

(** * Erasing the input events of a script leaves the observation unchanged *)
Theorem pending_input_irrelevant c script :
  observe (run_sm c script) = observe (run_sm c (strip_input script)).
Proof.
  apply observe_sim. unfold run_sm. apply drain_sim.
  destruct (start_raises c) eqn:S.
  - assert (R : running (fst (advance c (init c))) = false).
    { unfold init. rewrite S. reflexivity. }
    eapply sim_trans; [apply run_events_over_sim; exact R | apply sim_sym, run_events_over_sim; exact R].
  - apply run_events_strip; [apply init_inv; exact S | apply sim_refl].
Qed.

(** * The timeout case spelt out *)

Lemma first_of_timer_any : forall pre x y, first_of (pre ++ ETimer :: x) = first_of (pre ++ ETimer :: y).
Proof.
  induction pre as [|e r IH]; intros x y; [reflexivity|].
  cbn [app first_of]. destruct e; try reflexivity; apply IH.
Qed.

Lemma has_exc_app a b : has_exc (a ++ b) = has_exc a || has_exc b.
Proof. unfold has_exc. apply existsb_app. Qed.
Lemma has_kbd_app a b : has_kbd (a ++ b) = has_kbd a || has_kbd b.
Proof. unfold has_kbd. apply existsb_app. Qed.

Lemma input_calm ins : forallb is_input ins = true -> has_exc ins = false /\ has_kbd ins = false.
Proof.
  induction ins as [|e r IH]; [split; reflexivity|]. cbn [forallb]. intros H.
  apply andb_prop in H. destruct H as [A B]. destruct (IH B) as [X K].
  unfold has_exc, has_kbd in *. cbn [existsb]. rewrite X, K.
  destruct e as [w|w|code|code| |w x|]; try discriminate; split; reflexivity.
Qed.

Lemma outcome_observe s :
  o_outcome (observe s) = match s_pc (fst s) with PDone o => Some o | _ => None end.
Proof. reflexivity. Qed.

(** A timeout is in effect and expires while the command is running (no worker is made
    to fail, no interrupt, readers get EOF), and at that moment any amount of input
    [ins] is still queued for the command: killed, CommandTimedOut, and every
    observable -- the reads captured, the joins, the stop, the timer -- is what it is
    without that input. *)
Theorem timeout_with_pending_input c pre ins post :
  start_raises c = false -> c_timeout c = true -> fair c = true ->
  has_exc (pre ++ post) = false -> has_kbd (pre ++ post) = false ->
  first_of (pre ++ ETimer :: post) = ExpiredWhileRunning ->
  forallb is_input ins = true ->
  o_outcome (observe (run_sm c (pre ++ ETimer :: ins ++ post))) = Some OTimedOut /\
  1 <= o_kills (observe (run_sm c (pre ++ ETimer :: ins ++ post))) /\
  observe (run_sm c (pre ++ ETimer :: ins ++ post)) = observe (run_sm c (pre ++ ETimer :: post)).
Proof.
  intros S CT F X K Fo In.
  destruct (input_calm ins In) as [Xi Ki].
  rewrite has_exc_app in X. rewrite has_kbd_app in K.
  apply Bool.orb_false_elim in X. apply Bool.orb_false_elim in K. destruct X as [X1 X2], K as [K1 K2].
  assert (X' : has_exc (pre ++ ETimer :: ins ++ post) = false).
  { rewrite has_exc_app. change (ETimer :: ins ++ post) with ([ETimer] ++ ins ++ post).
    rewrite !has_exc_app, X1, Xi, X2. reflexivity. }
  assert (K' : has_kbd (pre ++ ETimer :: ins ++ post) = false).
  { rewrite has_kbd_app. change (ETimer :: ins ++ post) with ([ETimer] ++ ins ++ post).
    rewrite !has_kbd_app, K1, Ki, K2. reflexivity. }
  assert (Fo' : first_of (pre ++ ETimer :: ins ++ post) = ExpiredWhileRunning).
  { rewrite (first_of_timer_any pre (ins ++ post) post). exact Fo. }
  destruct (timeout_kills_and_reports c _ S CT F X' K' Fo') as [P Kl].
  split; [rewrite outcome_observe, P; reflexivity|]. split; [exact Kl|].
  rewrite (pending_input_irrelevant c (pre ++ ETimer :: ins ++ post)).
  rewrite (pending_input_irrelevant c (pre ++ ETimer :: post)).
  f_equal. f_equal.
  change (ETimer :: ins ++ post) with ([ETimer] ++ ins ++ post).
  change (ETimer :: post) with ([ETimer] ++ post).
  rewrite !strip_input_app, (strip_input_all ins In). reflexivity.
Qed.
