(** C11: clone fidelity over HISTORIES.

    Proofs/C11_clone.v shows that clone() returns an equal state whenever the
    guard [clone_guard] holds (every level a well-formed dict, the cache is the
    merge of the levels, base files looked for).  Here the guard is shown to be
    an invariant of every history of root-navigated, type-consistent operations
    -- writes, deletions, [pop(k)], [pop(k, default)] WHATEVER the default (the
    stored value itself included), [popitem], [clear], [setdefault], [update],
    reads and dict-level reloads -- by way of the C06 state invariant [good]
    (Proofs/C06_refine.v), which already says "the cache is the merge of the
    levels" after each such step.  What [good] does not talk about -- the raw
    file levels and the found flags -- is left untouched by these operations
    ([frame]). *)
From InvokeVerif Require Import Common.Tree Common.StrUtil Model.MergeModel Model.ConfigModel
     Model.EnvModel Spec.C03Spec Spec.C06Spec Proofs.ListFacts Proofs.TreeFacts Proofs.C03_merge
     Proofs.C03_levels Proofs.C03_order Proofs.C06_shapes Proofs.C06_track Proofs.C06_refine
     Proofs.C06_held Proofs.C11_clone.

(** * What the path operations and the dict-level reloads never touch *)
Definition frame (c : cfg) : tree * tree * tree * tree * (found * found) :=
  (c_system c, c_user c, c_project c, c_runtime c, (c_sys_found c, c_user_found c)).

Lemma frame_set_cache c d : frame (set_cache c d) = frame c.
Proof. destruct c; reflexivity. Qed.
Lemma frame_set_tracking c m d : frame (set_tracking c m d) = frame c.
Proof. destruct c; reflexivity. Qed.
Lemma frame_set_defaults c t : frame (set_defaults c t) = frame c.
Proof. destruct c; reflexivity. Qed.
Lemma frame_set_overrides c t : frame (set_overrides c t) = frame c.
Proof. destruct c; reflexivity. Qed.
Lemma frame_set_collection c t : frame (set_collection c t) = frame c.
Proof. destruct c; reflexivity. Qed.
Lemma frame_set_env c t : frame (set_env c t) = frame c.
Proof. destruct c; reflexivity. Qed.

Lemma frame_remerge c ok : frame (fst (remerge c ok)) = frame c.
Proof. unfold remerge. destruct (merge c); simpl; apply frame_set_cache. Qed.

Lemma frame_track_set c kp k v : frame (track_set c kp k v) = frame c.
Proof. unfold track_set. apply frame_set_tracking. Qed.

Lemma frame_track_del c kp k : frame (track_del c kp k) = frame c.
Proof. unfold track_del. destruct (del_mark (c_dels c) kp k); [apply frame_set_tracking | reflexivity]. Qed.

Lemma frame_fold_del kp : forall ks c,
  frame (fold_left (fun c' k => track_del c' kp k) ks c) = frame c.
Proof.
  induction ks as [|k ks IH]; intros c; [reflexivity|]. simpl. rewrite IH. apply frame_track_del.
Qed.

Lemma frame_fold_set kp : forall (kvs : list (string * tree)) c,
  frame (fold_left (fun c' kv => track_set c' kp (fst kv) (snd kv)) kvs c) = frame c.
Proof.
  induction kvs as [|kv kvs IH]; intros c; [reflexivity|]. simpl. rewrite IH. apply frame_track_set.
Qed.

Lemma frame_merged r l : frame (fst (fst (merged r l))) = frame (fst r).
Proof. reflexivity. Qed.

Ltac fr :=
  unfold merged; cbn [fst snd];
  rewrite ?frame_set_cache, ?frame_remerge, ?frame_fold_del, ?frame_fold_set, ?frame_track_set,
          ?frame_track_del, ?frame_set_defaults, ?frame_set_overrides, ?frame_set_collection,
          ?frame_set_env;
  try reflexivity.

Lemma frame_do_update d0 c kp kvs ok : frame (fst (fst (do_update d0 c kp kvs ok))) = frame c.
Proof.
  unfold do_update. destruct kvs as [|kv kvs']; [reflexivity|].
  destruct (excise_blocked (c_dels c) (kp ++ [fst kv])); [reflexivity|].
  destruct (remerge (fold_left (fun c' kv0 => track_set c' kp (fst kv0) (snd kv0)) (kv :: kvs') c) ok)
    as [c' out] eqn:E.
  cbn [fst]. change c' with (fst (c', out)). rewrite <- E. fr.
Qed.

Lemma frame_step_with S d0 fs c o : op_ok S o = true ->
  frame (fst (fst (step_with d0 fs c o))) = frame c.
Proof.
  intros Hok. destruct o; simpl in Hok; try discriminate; unfold step_with.
  - (* Get *) destruct (nav fl d0 kp) as [d|e]; [destruct (get k d)|]; reflexivity.
  - (* SetV *)
    destruct (nav fl d0 kp) as [d|e]; [|reflexivity].
    destruct (excise_blocked (c_dels c) (kp ++ [k])); [reflexivity | fr].
  - (* Del *)
    destruct (nav fl d0 kp) as [d|e]; [|reflexivity]. destruct (get k d); [|reflexivity].
    destruct (del_blocked (c_dels c) kp k); [reflexivity | fr].
  - (* Pop *)
    destruct (nav fl d0 kp) as [d|e]; [|reflexivity]. destruct (get k d).
    + destruct (del_blocked (c_dels c) kp k); [reflexivity | fr].
    + destruct dflt; reflexivity.
  - (* PopItem *)
    destruct (nav fl d0 kp) as [d|e]; [|reflexivity]. destruct (last_item d) as [[k t]|]; [|reflexivity].
    destruct (del_blocked (c_dels c) kp k); [reflexivity | fr].
  - (* Clear *)
    destruct (nav fl d0 kp) as [d|e]; [|reflexivity]. destruct (keys d) as [|k0 ks]; [reflexivity|].
    destruct (del_blocked (c_dels c) kp k0); [reflexivity | fr].
  - (* SetDefault *)
    destruct (nav fl d0 kp) as [d|e]; [|reflexivity]. destruct (get k d); [reflexivity|].
    destruct dflt; (destruct (excise_blocked (c_dels c) (kp ++ [k])); [reflexivity | fr]).
  - (* Update *)
    destruct (nav fl d0 kp) as [d|e]; [|reflexivity]. destruct kvs as [|kv kvs']; [reflexivity|].
    destruct (excise_blocked (c_dels c) (kp ++ [fst kv])); [reflexivity | fr].
  - (* Contains *) destruct (nav fl d0 kp); reflexivity.
  - (* Len *) destruct (nav fl d0 kp); reflexivity.
  - (* Keys *) destruct (nav fl d0 kp); reflexivity.
  - (* LoadDefaults *) fr.
  - (* LoadOverrides *) fr.
  - (* LoadCollection *) fr.
  - (* LoadShellEnv *)
    destruct (remerge (set_env c (Node [])) ONone) as [c1 out] eqn:E.
    assert (F1 : frame c1 = frame c).
    { change c1 with (fst (c1, out)). rewrite <- E. fr. }
    destruct out; destruct (load (Node (c_cache c1)) (c_env_prefix c1) env); fr; exact F1.
  - (* View *) destruct (nav fl d0 kp); reflexivity.
  - (* EqD *) destruct (nav fl d0 kp); reflexivity.
  - (* GetM *) destruct (nav fl d0 kp) as [d|e]; [destruct (get k d)|]; reflexivity.
  - (* UpdateBoth *) destruct (nav fl d0 kp); [apply frame_do_update | reflexivity].
Qed.

Lemma frame_step S fs c o : op_ok S o = true -> frame (fst (step fs c o)) = frame c.
Proof.
  intros Hok. pose proof (frame_step_with S (c_cache c) fs c o Hok) as H. unfold step.
  destruct (step_with (c_cache c) fs c o) as [[c' out] [| l | l]]; cbn [fst snd] in *;
    rewrite ?frame_set_cache; exact H.
Qed.

Lemma frame_run S fs : forall ops c, forallb (op_ok S) ops = true ->
  frame (fst (run fs c ops)) = frame c.
Proof.
  induction ops as [|o rest IH]; intros c Hok; [reflexivity|].
  simpl in Hok. apply andb_true_iff in Hok as [Ho Hr].
  pose proof (frame_step S fs c o Ho) as Hs. cbn [run].
  destruct (step fs c o) as [c' out]. cbn [fst] in Hs.
  destruct (abnormal out); [exact Hs|].
  specialize (IH c' Hr). destruct (run fs c' rest) as [c'' tr]. cbn [fst] in *. congruence.
Qed.

(** * From the C06 invariant to the clone guard *)
(** The raw file levels are well-formed dicts (whether or not they take part in
    the merge). *)
Definition raw_files_ok (c : cfg) : bool :=
  forallb wf_node [c_system c; c_user c; c_project c; c_runtime c].

Lemma raw_files_ok_frame a b : frame a = frame b -> raw_files_ok a = raw_files_ok b.
Proof. unfold frame, raw_files_ok. intros H. inversion H. reflexivity. Qed.

Lemma base_loaded_frame a b : frame a = frame b -> base_loaded a = base_loaded b.
Proof. unfold frame, base_loaded. intros H. inversion H. reflexivity. Qed.

Lemma level_ok_wf_node S t : level_ok S t -> wf_node t = true.
Proof. intros [W [N _]]. unfold wf_node. rewrite W, N. reflexivity. Qed.

Lemma tree_eqb_refl' t : tree_eqb t t = true.
Proof. apply tree_eqb_eq. reflexivity. Qed.

Lemma good_state_ok S c J : good S c J -> raw_files_ok c = true -> state_ok c = true.
Proof.
  intros [HL HI HC] HR. unfold state_ok. apply andb_true_iff. split.
  - unfold lower in HL.
    inversion HL as [|? ? Hd HL1]; subst. inversion HL1 as [|? ? Hcol HL2]; subst.
    inversion HL2 as [|? ? _ HL3]; subst. inversion HL3 as [|? ? _ HL4]; subst.
    inversion HL4 as [|? ? _ HL5]; subst. inversion HL5 as [|? ? Hen HL6]; subst.
    inversion HL6 as [|? ? _ HL7]; subst. inversion HL7 as [|? ? Hov _]; subst.
    unfold raw_files_ok in HR. cbn [forallb] in HR.
    apply andb_true_iff in HR as [Rs HR]. apply andb_true_iff in HR as [Ru HR].
    apply andb_true_iff in HR as [Rp HR]. apply andb_true_iff in HR as [Rr _].
    cbn [forallb].
    rewrite (level_ok_wf_node S _ Hd), (level_ok_wf_node S _ Hcol), Rs, Ru, Rp,
            (level_ok_wf_node S _ Hen), Rr, (level_ok_wf_node S _ Hov).
    unfold wf_node. cbn [is_node]. rewrite (inv_wfM _ _ _ _ HI), (inv_wfD _ _ _ _ HI). reflexivity.
  - rewrite HC. unfold result_dict_eqb. apply tree_eqb_refl'.
Qed.

Lemma good_clone_guard S c J : good S c J -> raw_files_ok c = true -> base_loaded c = true ->
  clone_guard c = true.
Proof.
  intros HG HR HB. unfold clone_guard. rewrite (good_state_ok S c J HG HR), HB. reflexivity.
Qed.

(** * Clone fidelity after any guarded history *)
Theorem history_clone_faithful : forall S fs c0 ops,
  is_node S = true -> good0 S c0 = true -> raw_files_ok c0 = true -> base_loaded c0 = true ->
  forallb (op_ok S) ops = true ->
  let c := fst (run fs c0 ops) in
  clone_guard c = true /\ clone fs c None = (c, ONone).
Proof.
  intros S fs c0 ops HS H0 HR HB Hok c.
  destruct (run_good S fs HS ops c0 [] (good0_good S c0 HS H0) Hok) as [Hg _].
  pose proof (frame_run S fs ops c0 Hok) as Hf. fold c in Hg, Hf.
  assert (G : clone_guard c = true).
  { eapply good_clone_guard; [exact Hg | |].
    - rewrite (raw_files_ok_frame c c0 Hf). exact HR.
    - rewrite (base_loaded_frame c c0 Hf). exact HB. }
  split; [exact G | apply clone_faithful; exact G].
Qed.

(** One step from a good state: the guard is kept. *)
Lemma step_clone_guard S fs c J o : is_node S = true -> good S c J -> op_ok S o = true ->
  raw_files_ok c = true -> base_loaded c = true ->
  clone_guard (fst (step fs c o)) = true.
Proof.
  intros HS HG Hok HR HB.
  destruct (step_good S fs c J o HS HG Hok) as [Hg _].
  pose proof (frame_step S fs c o Hok) as Hf.
  eapply good_clone_guard; [exact Hg | |].
  - rewrite (raw_files_ok_frame _ c Hf). exact HR.
  - rewrite (base_loaded_frame _ c Hf). exact HB.
Qed.

(** * pop(key, default) on a key that is there -- whatever the default -- then clone *)
Theorem pop_default_then_clone : forall S fs c J fl kp k dflt d0 t,
  is_node S = true -> good S c J -> raw_files_ok c = true -> base_loaded c = true ->
  nav fl (c_cache c) kp = Ok d0 -> get k d0 = Some t ->
  let r := step fs c (Pop fl kp k dflt) in
  snd r = OVal t /\
  clone fs (fst r) None = (fst r, ONone) /\
  (forall q, shape_at ((kp ++ [k]) ++ q) (Node (c_cache (fst r))) = None) /\
  (forall q, shape_at ((kp ++ [k]) ++ q) (Node (c_cache (fst (clone fs (fst r) None)))) = None).
Proof.
  intros S fs c J fl kp k dflt d0 t HS HG HR HB Hn Gk r.
  assert (Hout : snd r = OVal t).
  { unfold r, step, step_with. rewrite Hn, Gk.
    rewrite del_not_blocked by (eapply nav_clear_above; eassumption).
    destruct (step_delete S c J fl kp k (OVal t) HS HG d0 Hn) as [d [Er _]].
    unfold merged. rewrite Er. reflexivity. }
  assert (Hcl : clone fs (fst r) None = (fst r, ONone)).
  { apply clone_faithful. eapply step_clone_guard; eauto. }
  assert (Habs : forall q, shape_at ((kp ++ [k]) ++ q) (Node (c_cache (fst r))) = None).
  { intros q. destruct (step_good S fs c J (Pop fl kp k dflt) HS HG eq_refl) as [Hg _].
    destruct (good_view S _ _ HS Hg) as [X [_ [WX [Hs _]]]]. fold r in Hs.
    rewrite Hs. unfold events_of. rewrite Hn. unfold has. rewrite Gk. rewrite replay_snoc.
    cbn [apply_event].
    assert (Hp : kp ++ [k] <> []) by (destruct kp; discriminate).
    rewrite del_path_shape; [rewrite is_prefix_app; reflexivity | assumption |].
    apply wf_replay; [assumption|]. apply (inv_wfJ _ _ _ _ (g_inv _ _ _ HG)). }
  split; [exact Hout|]. split; [exact Hcl|]. split; [exact Habs|].
  rewrite Hcl. exact Habs.
Qed.

(** pop(key, default) on a key that is NOT there: nothing happens, the default
    comes back. *)
Theorem pop_missing_default_no_change : forall fs c fl kp k dv d0,
  nav fl (c_cache c) kp = Ok d0 -> get k d0 = None ->
  step fs c (Pop fl kp k (Some dv)) = (c, OVal dv).
Proof.
  intros fs c fl kp k dv d0 Hn Gk. unfold step, step_with. rewrite Hn, Gk. reflexivity.
Qed.

(** The same on a state reached by a guarded history. *)
Theorem pop_default_then_clone_hist : forall S fs c0 ops fl kp k dflt d0 t,
  is_node S = true -> good0 S c0 = true -> raw_files_ok c0 = true -> base_loaded c0 = true ->
  forallb (op_ok S) ops = true ->
  let c := fst (run fs c0 ops) in
  nav fl (c_cache c) kp = Ok d0 -> get k d0 = Some t ->
  let r := step fs c (Pop fl kp k dflt) in
  snd r = OVal t /\
  clone fs (fst r) None = (fst r, ONone) /\
  (forall q, shape_at ((kp ++ [k]) ++ q) (Node (c_cache (fst r))) = None) /\
  (forall q, shape_at ((kp ++ [k]) ++ q) (Node (c_cache (fst (clone fs (fst r) None)))) = None).
Proof.
  intros S fs c0 ops fl kp k dflt d0 t HS H0 HR HB Hok c Hn Gk.
  destruct (run_good S fs HS ops c0 [] (good0_good S c0 HS H0) Hok) as [Hg _].
  pose proof (frame_run S fs ops c0 Hok) as Hf. fold c in Hg, Hf.
  eapply pop_default_then_clone; try eassumption.
  - rewrite (raw_files_ok_frame c c0 Hf). exact HR.
  - rewrite (base_loaded_frame c c0 Hf). exact HB.
Qed.

(** * Histories with held proxies *)
Lemma frame_sstep S fs s o : sstep_ok S s o = true ->
  frame (s_cfg (fst (sstep fs s o))) = frame (s_cfg s).
Proof.
  intros Hok. destruct o as [o|h fl kp|h o]; simpl in Hok; unfold sstep.
  - pose proof (frame_step_with S (c_cache (s_cfg s)) fs (s_cfg s) o Hok) as H.
    destruct (step_with (c_cache (s_cfg s)) fs (s_cfg s) o) as [[c' out] [|l|l]];
      cbn [fst snd s_cfg] in *; rewrite ?frame_set_cache; exact H.
  - destruct (nav fl (c_cache (s_cfg s)) kp); reflexivity.
  - unfold via_target in Hok.
    destruct (nat_get h (s_handles s)) as [[g hp]|]; [|reflexivity].
    destruct (rebase hp o) as [o'|]; [|reflexivity].
    apply andb_true_iff in Hok as [Hok _]. cbv zeta.
    set (d0 := if Nat.eqb g (s_cur s) then c_cache (s_cfg s)
               else match nat_get g (s_gens s) with Some d => d | None => [] end).
    pose proof (frame_step_with S d0 fs (s_cfg s) o' Hok) as H.
    destruct (step_with d0 fs (s_cfg s) o') as [[c' out] [|l|l]]; cbn [fst snd] in *.
    + exact H.
    + exact H.
    + destruct (Nat.eqb g (s_cur s)); cbn [fst s_cfg]; rewrite ?frame_set_cache; exact H.
Qed.

Lemma frame_srun S fs : forall ops s, sguard S fs s ops = true ->
  frame (s_cfg (fst (srun fs s ops))) = frame (s_cfg s).
Proof.
  induction ops as [|o rest IH]; intros s Hok; [reflexivity|].
  cbn [sguard] in Hok. apply andb_true_iff in Hok as [Ho Hr].
  pose proof (frame_sstep S fs s o Ho) as Hs. cbn [srun].
  destruct (sstep fs s o) as [s' out]. cbn [fst snd] in *.
  destruct (abnormal out); [exact Hs|].
  specialize (IH s' Hr). destruct (srun fs s' rest) as [s'' tr]. cbn [fst] in *. congruence.
Qed.

Theorem session_clone_faithful : forall S fs c0 ops,
  is_node S = true -> good0 S c0 = true -> raw_files_ok c0 = true -> base_loaded c0 = true ->
  sguard S fs (sstart c0) ops = true ->
  let c := s_cfg (fst (srun fs (sstart c0) ops)) in
  clone_guard c = true /\ clone fs c None = (c, ONone).
Proof.
  intros S fs c0 ops HS H0 HR HB Hok c.
  destruct (srun_good S fs HS ops (sstart c0) [] (good0_good S c0 HS H0) Hok) as [Hg _].
  pose proof (frame_srun S fs ops (sstart c0) Hok) as Hf. fold c in Hg, Hf. cbn [sstart s_cfg] in Hf.
  assert (G : clone_guard c = true).
  { eapply good_clone_guard; [exact Hg | |].
    - rewrite (raw_files_ok_frame c c0 Hf). exact HR.
    - rewrite (base_loaded_frame c c0 Hf). exact HB. }
  split; [exact G | apply clone_faithful; exact G].
Qed.
