(** C01, a positional argument given by position: a plain token met while the
    task still misses a positional goes to the *first* missing positional.
    The task state between occurrences may now have missing positionals, so the
    invariant used here is [st_ok] without its "nothing missing" field. *)
From InvokeVerif Require Import Model.ParserModel Corr.C01Corr Proofs.ListFacts Proofs.C07_fuel
     Proofs.C01_steps Proofs.C01_tokens Proofs.C01_lookup Proofs.C01_occ.
From Coq Require Import Lia.

(** [st_ok] minus [so_miss] *)
Record st_ok_nm (c : ctxspec) (given : list nat) (args : list rarg) : Prop := {
  sn_shape : map r_spec args = cx_args c;
  sn_list : forall i r, nth_error args i = Some r -> a_kind (r_spec r) = KList ->
                        exists l, r_val r = AList l;
  sn_raw : forall i r, nth_error args i = Some r -> takes_value (r_spec r) = true ->
                       a_kind (r_spec r) <> KList -> mem_nat i given = false -> r_raw r = false
}.

Lemma st_ok_weaken c given args : st_ok c given args -> st_ok_nm c given args.
Proof. intros [A B C _]. now split. Qed.

Lemma st_ok_strengthen c given args :
  st_ok_nm c given args -> no_missing args = true -> st_ok c given args.
Proof. intros [A B C] D. now split. Qed.

Lemma st_ok_nm_after_set c given args i r r' given' :
  st_ok_nm c given args -> nth_error args i = Some r ->
  r_spec r' = r_spec r ->
  (a_kind (r_spec r) = KList -> exists l, r_val r' = AList l) ->
  (takes_value (r_spec r) = true -> a_kind (r_spec r) <> KList -> mem_nat i given' = true) ->
  (forall j, mem_nat j given' = false -> mem_nat j given = false) ->
  st_ok_nm c given' (upd_nth i r' args).
Proof.
  intros [Sh Li Ra] N Sp Hl Hg Hsub. split.
  - rewrite <- Sh. eapply map_upd_same; eauto.
  - intros j rj Nj Kj. destruct (Nat.eq_dec i j) as [<-|Ne].
    + rewrite (nth_error_upd_nth_same _ _ _ _ N) in Nj. injection Nj as <-.
      rewrite Sp in Kj. auto.
    + rewrite (nth_error_upd_nth_other _ _ _ _ Ne) in Nj. eauto.
  - intros j rj Nj Tj Kj Gj. destruct (Nat.eq_dec i j) as [<-|Ne].
    + rewrite (nth_error_upd_nth_same _ _ _ _ N) in Nj. injection Nj as <-.
      rewrite Sp in Tj, Kj. rewrite (Hg Tj Kj) in Gj. discriminate.
    + rewrite (nth_error_upd_nth_other _ _ _ _ Ne) in Nj. eapply Ra; eauto.
Qed.

(** the first missing positional *)
Lemma missing_from_head k args i rest :
  missing_from k args = i :: rest -> k <= i /\
  exists r, nth_error args (i - k) = Some r /\
            a_positional (r_spec r) = true /\ aval_is_none (arg_value r) = true.
Proof.
  revert k. induction args as [|r args IH]; intros k; simpl; [discriminate|].
  destruct (a_positional (r_spec r) && aval_is_none (arg_value r)) eqn:E.
  - intros [= <- _]. split; [lia|]. rewrite Nat.sub_diag. exists r. simpl.
    apply andb_true_iff in E. tauto.
  - intros H. destruct (IH (S k) H) as [Hk [r' [N P]]]. split; [lia|].
    exists r'. replace (i - k) with (S (i - S k)) by lia. simpl. tauto.
Qed.

Lemma missing_head args i rest :
  missing_positional args = i :: rest ->
  exists r, nth_error args i = Some r /\
            a_positional (r_spec r) = true /\ aval_is_none (arg_value r) = true.
Proof.
  intros H. destruct (missing_from_head 0 args i rest H) as [_ [r [N P]]].
  rewrite Nat.sub_0_r in N. eauto.
Qed.

Lemma missing_has_missing cur i rest :
  missing_positional (rc_args cur) = i :: rest -> has_missing cur = true.
Proof.
  intros H. destruct (missing_head _ _ _ H) as [r [N [P V]]].
  unfold has_missing. apply existsb_exists. exists r. split; [eapply nth_error_In; eauto|].
  now rewrite P, V.
Qed.

(** updating an argument of the current task keeps an inert flag inert *)
Lemma get_ctx_other i0 done cur cur' fl got fl' got' k :
  k <> S (List.length done) ->
  get_ctx (MS i0 done cur fl got) k = get_ctx (MS i0 done cur' fl' got') k.
Proof.
  intros Hk. unfold get_ctx, MS. cbn [m_ctxs]. destruct k as [|k]; [reflexivity|]. cbn [nth_error].
  assert (Hk' : k <> List.length done) by lia. clear Hk. revert k Hk'.
  induction done as [|d done IH]; intros k Hk'; cbn [app List.length nth_error] in *.
  - destruct k as [|k]; [congruence|]. destruct k; reflexivity.
  - destruct k as [|k]; [reflexivity|]. apply IH. lia.
Qed.

Lemma inert_upd i0 done cur fl got i r r' :
  inert (MS i0 done cur fl got) -> nth_error (rc_args cur) i = Some r ->
  r_spec r' = r_spec r -> r_raw r' = true ->
  inert (MS i0 done (upd_cur cur i r') fl got).
Proof.
  unfold inert. cbn [m_flag MS m_got]. destruct fl as [[k j]|]; [|auto].
  intros [rf [Gf [Rf Kf]]] N Sp Rw.
  destruct (Nat.eq_dec k (S (List.length done))) as [->|Hk].
  - rewrite MS_get_arg_cur in Gf. rewrite MS_get_arg_cur. unfold upd_cur, with_args. cbn [rc_args].
    destruct (Nat.eq_dec i j) as [<-|Ne].
    + exists r'. split; [eapply nth_error_upd_nth_same; eauto|]. split; [exact Rw|].
      rewrite Gf in N. injection N as <-. unfold needs_value in *. now rewrite Sp.
    + exists rf. rewrite (nth_error_upd_nth_other _ _ _ _ Ne). auto.
  - exists rf. split; [|auto]. unfold get_arg in *. cbn [fst snd] in *.
    rewrite <- (get_ctx_other i0 done cur (upd_cur cur i r') (Some (k, j)) got (Some (k, j)) got k Hk).
    exact Gf.
Qed.

Section Pos.
Variable p : parser.
Variable i0 : rctx.
Variable done : list rctx.
Variable cur : rctx.
Let kk := S (List.length done).

(** a plain token while a positional is missing *)
Lemma step_positional fl got tok i rest r r' :
  inert (MS i0 done cur fl got) -> starts_with "-" tok = false ->
  missing_positional (rc_args cur) = i :: rest ->
  nth_error (rc_args cur) i = Some r ->
  set_value r (IStr tok) true = Ok r' ->
  step p (MS i0 done cur fl got) tok = Ok (MS i0 done (upd_cur cur i r') fl got, []).
Proof.
  intros I P Hm N SV. unfold step, bind.
  rewrite (plain_presplit _ _ P), (inert_rollback _ _ _ I). cbn [fst snd].
  unfold handle. cbn [m_st MS pstate_eqb]. rewrite MS_cur. cbn [ctx_has_flag ctx_has_inverse].
  rewrite (plain_not_flag _ tok P), (plain_not_inverse _ tok P), (inert_waiting _ I).
  rewrite (missing_has_missing cur i rest Hm).
  unfold see_positional_arg. rewrite MS_cur. cbn [m_cur MS]. rewrite Hm.
  unfold set_arg_value. fold kk. rewrite MS_get_arg_cur, N, SV, MS_put_arg. reflexivity.
Qed.
End Pos.

(** ** occurrence level *)
Definition occ_positional (c : ctxspec) (o : occ) : bool :=
  match nth_error (cx_args c) (o_arg o) with
  | None => false
  | Some a =>
      match o_form o, o_val o with
      | FPos, VS s =>
          a_positional a && takes_value a && plain s
          && castable a s
      | _, _ => false
      end
  end.

(** The token of a positional occurrence, when that argument is the first
    positional still missing. *)
Lemma occ_positional_steps p i0 c given o done cur fl got rest :
  occ_positional c o = true ->
  st_ok_nm c given (rc_args cur) -> inert (MS i0 done cur fl got) ->
  missing_positional (rc_args cur) = o_arg o :: rest ->
  steps p (MS i0 done cur fl got) (spell_occ c o)
          (MS i0 done (with_args cur (run_occ (rc_args cur) o)) fl got) /\
  inert (MS i0 done (with_args cur (run_occ (rc_args cur) o)) fl got) /\
  st_ok_nm c (o_arg o :: given) (run_occ (rc_args cur) o) /\
  (exists r', nth_error (run_occ (rc_args cur) o) (o_arg o) = Some r' /\
              aval_is_none (arg_value r') = false).
Proof.
  intros Os St I Hm. unfold occ_positional in Os. unfold spell_occ, run_occ.
  destruct (nth_error (cx_args c) (o_arg o)) as [a|] eqn:Na; [|discriminate].
  pose proof (sn_shape _ _ _ St) as Sh.
  assert (Nr : exists r, nth_error (rc_args cur) (o_arg o) = Some r /\ r_spec r = a).
  { apply nth_error_map_inv. rewrite Sh. exact Na. }
  destruct Nr as [r [Nr Sr]]. rewrite Nr.
  destruct (o_form o) eqn:Fo; try discriminate. destruct (o_val o) as [b|n|s|] eqn:Vo; try discriminate.
  rewrite !andb_true_iff in Os. destruct Os as [[[Hp Tv] Pl] Hint].
  unfold plain in Pl. rewrite negb_true_iff in Pl.
  assert (Tv' : takes_value (r_spec r) = true) by (rewrite Sr; exact Tv).
  destruct (set_value_str r s Tv') as [r' [SV [Sp [Rw [Nnone Hl]]]]].
  { rewrite Sr. exact Hint. }
  { intros K. eapply (sn_list _ _ _ St); eauto. }
  unfold occ_input. rewrite Vo, SV. unfold text_of.
  split; [|split; [|split]].
  - apply steps_one. apply (step_positional p i0 done cur fl got s (o_arg o) rest r r' I Pl Hm Nr SV).
  - apply (inert_upd i0 done cur fl got (o_arg o) r r' I Nr Sp Rw).
  - eapply st_ok_nm_after_set; eauto.
    + intros _ _. unfold mem_nat. simpl. rewrite Nat.eqb_refl. reflexivity.
    + intros j. unfold mem_nat. simpl. rewrite orb_false_iff. tauto.
  - exists r'. split; [eapply nth_error_upd_nth_same; eauto|].
    unfold arg_value. now rewrite Nnone.
Qed.
