(** C07, "raises in the documented situations" as universally quantified
    statements.  Each documented situation is a condition on the machine state
    [m1] reached after an arbitrary prefix [pre] of the command line and on the
    next token; the conclusion is that the whole parse fails.  (The bounded
    sweep and the correspondence judge the token-level clauses B2-B4 of
    Spec/C07Spec.v; these theorems are their state-level counterparts, with no
    bound on the prefix, the signatures or the rest of the line.) *)
From InvokeVerif Require Import Model.ParserModel Proofs.C07_fuel Proofs.C01_steps Proofs.C01_tokens
     Proofs.C18_parser Proofs.C01_lookup.
From InvokeVerif Require Proofs.C01_occ.
From Coq Require Import Lia.

(** ** From a run of the loop to the result of parse_argv *)
Lemma parse_argv_of_loop p body m0 f lr :
  no_ddash body = true -> new_machine p = Ok m0 -> loop p f m0 body = Some lr ->
  parse_argv p body =
    match lr with
    | Err e => Err e
    | Ok m => match finish m with
              | Ok m' => Ok (mkRes (result_ctxs m') (m_unparsed m') "")
              | Err e => Err e
              end
    end.
Proof.
  intros Nd N L. unfold parse_argv.
  destruct (parse_fuel_sufficient p body) as [r Hr]. rewrite Hr. revert Hr.
  unfold parse_argv_fuel. rewrite (split_ddash_none body Nd). cbn [fst snd]. rewrite N.
  destruct (loop p (body_fuel body) m0 body) as [lr2|] eqn:L2; [|discriminate].
  assert (lr2 = lr).
  { pose proof (loop_fuel_mono p _ _ _ _ L (f + body_fuel body) ltac:(lia)) as A.
    pose proof (loop_fuel_mono p _ _ _ _ L2 (f + body_fuel body) ltac:(lia)) as B. congruence. }
  subst lr2. destruct lr as [m|e]; [|intros [= <-]; reflexivity].
  destruct (finish m); intros [= <-]; reflexivity.
Qed.

Lemma loop_prefix_step_error p f1 m0 pre m1 t rest e :
  loop p f1 m0 pre = Some (Ok m1) -> step p m1 t = Err e ->
  exists f, loop p f m0 (pre ++ t :: rest) = Some (Err e).
Proof.
  intros L S. exists (f1 + 1).
  apply (loop_app p f1 m0 pre m1 L 1 (t :: rest) (Err e)). simpl. rewrite S. reflexivity.
Qed.

Lemma loop_prefix_last p f1 m0 pre m1 t m2 :
  loop p f1 m0 pre = Some (Ok m1) -> step p m1 t = Ok (m2, []) ->
  exists f, loop p f m0 (pre ++ [t]) = Some (Ok m2).
Proof.
  intros L S. exists (f1 + 1).
  apply (loop_app p f1 m0 pre m1 L 1 [t] (Ok m2)). simpl. rewrite S. reflexivity.
Qed.

Definition fails {A} (r : result A) : Prop := match r with Ok _ => False | Err _ => True end.

(** ** B3. An unknown token raises.
    After any prefix, in a context where nothing is pending (not waiting for a
    value, no positional missing), a plain word that is not a task name is
    "No idea what ... is!" -- ParseError, whatever follows. *)
Theorem unknown_token_raises p f1 m0 pre m1 tok rest :
  new_machine p = Ok m0 -> loop p f1 m0 pre = Some (Ok m1) ->
  no_ddash (pre ++ tok :: rest) = true ->
  p_ignore p = false ->
  m_st m1 = SContext ->
  waiting m1 = false ->
  match cur_ctx m1 with Some c => has_missing c | None => false end = false ->
  starts_with "-" tok = false -> is_ctx_name (p_ctxs p) tok = false ->
  parse_argv p (pre ++ tok :: rest) = Err EParse.
Proof.
  intros N L Nd Ig St W Hm P Nn.
  assert (S : step p m1 tok = Err EParse).
  { unfold step, bind. rewrite (plain_presplit _ _ P).
    unfold rollback. rewrite W. cbn [fst snd].
    unfold handle. rewrite St. cbn [pstate_eqb].
    assert (F : ctx_has_flag (cur_ctx m1) tok = false).
    { destruct (cur_ctx m1) as [c|]; [|reflexivity]. cbn [ctx_has_flag].
      rewrite (plain_not_flag (rc_args c) tok P). reflexivity. }
    assert (FI : ctx_has_inverse (cur_ctx m1) tok = false).
    { destruct (cur_ctx m1) as [c|]; [|reflexivity]. cbn [ctx_has_inverse].
      rewrite (plain_not_inverse (rc_args c) tok P). reflexivity. }
    rewrite F, FI, W, Hm, Nn.
    destruct (init_ctx_of m1) as [ic|]; [|rewrite Ig; reflexivity].
    rewrite (plain_not_flag (rc_args ic) tok P), Ig. reflexivity. }
  destruct (loop_prefix_step_error p f1 m0 pre m1 tok rest EParse L S) as [f Lf].
  rewrite (parse_argv_of_loop p _ m0 f _ Nd N Lf). reflexivity.
Qed.

(** ** B4. An ambiguous token after an optional-value flag raises.
    The pending flag is optional-value and has no value yet; the next token is
    a plain word that names a task, or any plain word while the current task
    still lacks a positional argument. *)
Theorem ambiguous_token_raises p f1 m0 pre m1 r tok rest :
  new_machine p = Ok m0 -> loop p f1 m0 pre = Some (Ok m1) ->
  no_ddash (pre ++ tok :: rest) = true ->
  m_st m1 = SContext ->
  flag_arg m1 = Some r -> takes_value (r_spec r) = true ->
  a_optional (r_spec r) = true -> r_raw r = false ->
  starts_with "-" tok = false ->
  (match cur_ctx m1 with Some c => has_missing c | None => false end
   || is_ctx_name (p_ctxs p) tok) = true ->
  parse_argv p (pre ++ tok :: rest) = Err EParse.
Proof.
  intros N L Nd St FA Tv Op Rw P Amb.
  assert (W : waiting m1 = true).
  { unfold waiting. rewrite FA, Tv, Rw. destruct (_ && _); reflexivity. }
  assert (S : step p m1 tok = Err EParse).
  { unfold step, bind. rewrite (plain_presplit _ _ P).
    assert (Rb : rollback m1 tok (tok, []) = Ok (tok, [])).
    { unfold rollback. rewrite W. cbv zeta.
      match goal with |- (if ?b then _ else _) = _ => destruct b end; reflexivity. }
    rewrite Rb. cbn [fst snd].
    unfold handle. rewrite St. cbn [pstate_eqb].
    assert (F : ctx_has_flag (cur_ctx m1) tok = false).
    { destruct (cur_ctx m1) as [c|]; [|reflexivity]. cbn [ctx_has_flag].
      rewrite (plain_not_flag (rc_args c) tok P). reflexivity. }
    assert (FI : ctx_has_inverse (cur_ctx m1) tok = false).
    { destruct (cur_ctx m1) as [c|]; [|reflexivity]. cbn [ctx_has_inverse].
      rewrite (plain_not_inverse (rc_args c) tok P). reflexivity. }
    rewrite F, FI, W. unfold see_value, bind, check_ambiguity. rewrite FA, Op, Rw. cbn [negb].
    rewrite Amb. reflexivity. }
  destruct (loop_prefix_step_error p f1 m0 pre m1 tok rest EParse L S) as [f Lf].
  rewrite (parse_argv_of_loop p _ m0 f _ Nd N Lf). reflexivity.
Qed.

(** ** B2. A value-requiring flag left without a value raises.
    The last token of the command line is an exact flag spelling of the current
    context, for an argument that takes a (non-optional) value.  Then the parse
    fails -- whatever the argument already holds (list kind, given before by
    flag or positionally): since repair 9120dc5 [complete_flag] judges by
    [flag_got_value], which [switch_to_flag] has just reset.  (Before the repair
    this needed the guard [r_raw r = false], the complement of F-C07c/d.) *)
Lemma get_arg_put_other m f r f' :
  f <> f' -> get_arg (put_arg m f r) f' = get_arg m f'.
Proof.
  intros Ne. unfold put_arg. destruct (get_ctx m (fst f)) as [c|] eqn:N; [|reflexivity].
  unfold get_arg, get_ctx, set_ctxs. cbn [m_ctxs].
  destruct (Nat.eq_dec (fst f) (fst f')) as [E|E].
  - rewrite <- E. unfold get_ctx in N. rewrite (nth_error_upd_nth_same _ _ _ _ N). rewrite N. cbn [rc_args].
    assert (snd f <> snd f') by (intros X; apply Ne; destruct f, f'; simpl in *; congruence).
    apply nth_error_upd_nth_other. exact H.
  - rewrite (nth_error_upd_nth_other _ _ _ _ E). reflexivity.
Qed.

Theorem dangling_value_flag_raises p f1 m0 pre m1 c k t i r :
  new_machine p = Ok m0 -> loop p f1 m0 pre = Some (Ok m1) ->
  no_ddash (pre ++ [t]) = true ->
  m_st m1 = SContext -> m_unparsed m1 = [] ->
  m_cur m1 = Some k -> get_ctx m1 k = Some c ->
  clean_flag t = true ->
  find_flag (rc_args c) t = Some i -> nth_error (rc_args c) i = Some r ->
  takes_value (r_spec r) = true -> a_optional (r_spec r) = false ->
  fails (parse_argv p (pre ++ [t])).
Proof.
  intros N L Nd St Un Cu Gc C F Nr Tv No.
  assert (CC : cur_ctx m1 = Some c) by (unfold cur_ctx; rewrite Cu; exact Gc).
  assert (GA : get_arg m1 (k, i) = Some r) by (unfold get_arg; cbn [fst snd]; rewrite Gc; exact Nr).
  destruct (step p m1 t) as [[m2 pushed]|e] eqn:S.
  2:{ destruct (loop_prefix_step_error p f1 m0 pre m1 t [] e L S) as [f Lf].
      rewrite (parse_argv_of_loop p _ m0 f _ Nd N Lf). exact Logic.I. }
  (* the step succeeded: the flag is now current and has not got a value *)
  assert (Post : pushed = [] /\ m_flag m2 = Some (k, i) /\ m_got m2 = false /\ get_arg m2 (k, i) = Some r).
  { revert S. unfold step, bind. rewrite (clean_flag_presplit m1 t C Un).
    assert (Rb : rollback m1 t (t, []) = Ok (t, [])).
    { unfold rollback. destruct (waiting m1); [|reflexivity]. cbv zeta.
      match goal with |- (if ?b then _ else _) = _ => destruct b end; reflexivity. }
    rewrite Rb. cbn [fst snd]. unfold handle. rewrite St, CC. cbn [pstate_eqb ctx_has_flag]. rewrite F.
    unfold switch_to_flag, bind.
    destruct (check_ambiguity p t m1) as [ma|] eqn:CA; [|discriminate].
    assert (ma = m1).
    { revert CA. unfold check_ambiguity. destruct (flag_arg m1) as [r0|]; [|congruence].
      destruct (negb _); [congruence|]. destruct (r_raw r0); [congruence|].
      destruct (_ || _); [discriminate | congruence]. }
    subst ma.
    destruct (complete_flag m1) as [mb|] eqn:CF; [|discriminate].
    assert (Fr : m_cur mb = Some k /\ cur_ctx mb = cur_ctx mb /\ get_arg mb (k, i) = Some r /\
                 get_ctx mb k <> None /\ forall c', get_ctx mb k = Some c' ->
                 find_flag (rc_args c') t = Some i).
    { revert CF. unfold complete_flag.
      destruct (m_flag m1) as [f0|] eqn:Fl; [|intros [= <-]; repeat split; auto; try congruence].
      destruct (flag_arg m1) as [r0|] eqn:FA; [|intros [= <-]; repeat split; auto; try congruence].
      destruct (takes_value (r_spec r0) && negb (m_got m1) && negb (a_optional (r_spec r0))) eqn:E1;
        [discriminate|].
      destruct (negb (r_raw r0) && a_optional (r_spec r0)) eqn:E2;
        [|intros [= <-]; repeat split; auto; try congruence].
      (* an optional-value flag is tied off with True: it is another argument *)
      assert (Ne : f0 <> (k, i)).
      { intros ->. unfold flag_arg in FA. rewrite Fl, GA in FA. injection FA as <-.
        rewrite No in E2. rewrite andb_false_r in E2. discriminate. }
      unfold set_arg_value. unfold flag_arg in FA. rewrite Fl in FA. rewrite FA.
      destruct (set_value r0 (IBool true) false) as [r1|] eqn:SV; [|discriminate].
      intros [= <-].
      assert (Sp : r_spec r1 = r_spec r0).
      { unfold set_value in SV. destruct (new_value r0 (IBool true) false); [|discriminate].
        injection SV as <-. reflexivity. }
      split; [unfold put_arg; destruct (get_ctx m1 (fst f0)); exact Cu|]. split; [reflexivity|].
      split; [rewrite (get_arg_put_other m1 f0 r1 (k, i) Ne); exact GA|].
      unfold put_arg. unfold get_arg in FA.
      destruct (get_ctx m1 (fst f0)) as [c0|] eqn:G0; [|split; [congruence | intros c' H; congruence]].
      unfold get_ctx, set_ctxs. cbn [m_ctxs]. unfold get_ctx in G0, Gc.
      destruct (Nat.eq_dec (fst f0) k) as [Ek|Ek].
      - subst k. rewrite (nth_error_upd_nth_same _ _ _ _ G0).
        split; [discriminate|]. intros c' [= <-]. cbn [rc_args].
        rewrite G0 in Gc. injection Gc as ->.
        rewrite !find_flag_args in *.
        rewrite (C01_occ.map_upd_same r_spec (snd f0) r1 r0 (rc_args c) FA Sp). exact F.
      - rewrite (nth_error_upd_nth_other _ _ _ _ Ek), Gc. split; [discriminate|].
        intros c' [= <-]. exact F. }
    destruct Fr as (Cb & _ & Gb & Nb & Fb).
    rewrite Cb. unfold cur_ctx. rewrite Cb.
    destruct (get_ctx mb k) as [cb|] eqn:Gcb; [|congruence].
    rewrite (Fb cb eq_refl).
    assert (Gs : get_arg (set_flag mb (Some (k, i)) false) (k, i) = Some r) by exact Gb.
    rewrite Gs, Tv. intros [= <- <-]. repeat split; auto. }
  destruct Post as [-> [Fl2 [Got2 G2]]].
  destruct (loop_prefix_last p f1 m0 pre m1 t m2 L S) as [f Lf].
  rewrite (parse_argv_of_loop p _ m0 f _ Nd N Lf).
  (* finish: complete_flag sees a value flag without value *)
  unfold finish, transition.
  destruct (in_context_or_unknown m2); [|exact Logic.I].
  unfold bind, enter_state, bind, complete_flag.
  change (m_flag (set_state m2 SEnd)) with (m_flag m2). rewrite Fl2.
  unfold flag_arg. change (m_flag (set_state m2 SEnd)) with (m_flag m2). rewrite Fl2.
  change (get_arg (set_state m2 SEnd) (k, i)) with (get_arg m2 (k, i)).
  change (m_got (set_state m2 SEnd)) with (m_got m2). rewrite G2, Tv, Got2, No.
  exact Logic.I.
Qed.

(** ** Non-vacuity: the state conditions are met after ordinary prefixes *)
Definition ex_task : ctxspec :=
  mkCtx (Some "t") []
    [mkArg ["name"; "n"] KStr ANone false false false None;
     mkArg ["opt"; "o"] KStr ANone false true false None;
     mkArg ["pos"; "p"] KStr ANone true false false None].
Definition ex_other : ctxspec := mkCtx (Some "u") [] [].
Definition ex_parser : parser := mkP [ex_task; ex_other] None false.

Lemma converse_examples :
  (* B3: "t v zzz" -- zzz is unknown *)
  (exists m0 m1, new_machine ex_parser = Ok m0 /\ loop ex_parser 9 m0 ["t"; "v"] = Some (Ok m1) /\
                 m_st m1 = SContext /\ waiting m1 = false /\
                 match cur_ctx m1 with Some c => has_missing c | None => false end = false) /\
  parse_argv ex_parser ["t"; "v"; "zzz"; "u"] = Err EParse /\
  (* B4: "t v --opt u" -- u names a task *)
  (exists m0 m1 r, new_machine ex_parser = Ok m0 /\
                   loop ex_parser 9 m0 ["t"; "v"; "--opt"] = Some (Ok m1) /\
                   flag_arg m1 = Some r /\ a_optional (r_spec r) = true /\ r_raw r = false) /\
  parse_argv ex_parser ["t"; "v"; "--opt"; "u"] = Err EParse /\
  (* B2: "t v --name" *)
  (exists m0 m1 c r, new_machine ex_parser = Ok m0 /\ loop ex_parser 9 m0 ["t"; "v"] = Some (Ok m1) /\
                     get_ctx m1 0 = Some c /\ find_flag (rc_args c) "--name" = Some 0 /\
                     nth_error (rc_args c) 0 = Some r /\ r_raw r = false) /\
  parse_argv ex_parser ["t"; "v"; "--name"] = Err EParse.
Proof.
  split; [do 2 eexists; repeat split; vm_compute; reflexivity|].
  split; [vm_compute; reflexivity|].
  split; [do 3 eexists; repeat split; vm_compute; reflexivity|].
  split; [vm_compute; reflexivity|].
  split; [do 4 eexists; repeat split; vm_compute; reflexivity|].
  vm_compute; reflexivity.
Qed.
