(** [Program.update_config]: the overrides level built from the core flags, and the
    resolution of run options / the command timeout on top of it. *)
From InvokeVerif Require Import Model.ProgramModel Spec.C15CliSpec Proofs.C15_opts.
From Coq Require Import Lia.

(** * (1) the overrides level in closed form *)
Lemma leaf_paths_overrides a : leaf_paths (overrides_of a) = expected_overrides a.
Proof.
  unfold overrides_of, expected_overrides, run_section, tasks_section, sudo_section,
    timeouts_section, item, nonempty_str.
  destruct a as [w p h e d nd t sp f]; cbn [a_warn_only a_pty a_hide a_echo a_dry a_no_dedupe
                                              a_timeout a_sudo_password].
  destruct w, p, e, d, nd; destruct h as [hs|]; try destruct (String.eqb hs "");
    destruct sp as [pw|]; destruct t as [n|]; try destruct (Z.eqb n 0); reflexivity.
Qed.

Theorem flags_are_overrides a :
  leaf_paths (overrides_of a) = expected_overrides a /\
  (forall k, In k ["run"; "tasks"; "sudo"; "timeouts"]%string -> has_section (overrides_of a) k = true) /\
  leaf_at ["run"; "warn"] (overrides_of a) = (if a_warn_only a then Some (VBool true) else None) /\
  leaf_at ["run"; "pty"] (overrides_of a) = (if a_pty a then Some (VBool true) else None) /\
  leaf_at ["run"; "echo"] (overrides_of a) = (if a_echo a then Some (VBool true) else None) /\
  leaf_at ["run"; "dry"] (overrides_of a) = (if a_dry a then Some (VBool true) else None) /\
  leaf_at ["run"; "hide"] (overrides_of a)
    = match a_hide a with Some s => if String.eqb s "" then None else Some (VStr s) | None => None end /\
  leaf_at ["tasks"; "dedupe"] (overrides_of a) = (if a_no_dedupe a then Some (VBool false) else None) /\
  leaf_at ["sudo"; "password"] (overrides_of a) = option_map VStr (a_sudo_password a) /\
  leaf_at ["timeouts"; "command"] (overrides_of a)
    = match a_timeout a with Some n => if Z.eqb n 0 then None else Some (VInt n) | None => None end.
Proof.
  split; [apply leaf_paths_overrides|]. split.
  { intros k [<-|[<-|[<-|[<-|[]]]]]; reflexivity. }
  unfold overrides_of, run_section, tasks_section, sudo_section, timeouts_section, item, nonempty_str.
  destruct a as [w p h e d nd t sp f]; cbn [a_warn_only a_pty a_hide a_echo a_dry a_no_dedupe
                                              a_timeout a_sudo_password].
  destruct w, p, e, d, nd; destruct h as [hs|]; try destruct (String.eqb hs "");
    destruct sp as [pw|]; destruct t as [n|]; try destruct (Z.eqb n 0);
    repeat split; reflexivity.
Qed.

(** what the run options read from the overrides level *)
Lemma override_opt_flag a o : override_opt a o = flag_value a o.
Proof.
  unfold override_opt, flag_value, overrides_of, run_section, item, nonempty_str.
  destruct a as [w p h e d nd t sp f]; cbn [a_warn_only a_pty a_hide a_echo a_dry].
  destruct o; cbn [opt_key];
    destruct w, p, e, d; destruct h as [hs|]; try destruct (String.eqb hs ""); reflexivity.
Qed.

Lemma override_timeout_flag a : override_timeout a = flag_timeout a.
Proof.
  unfold override_timeout, flag_timeout, overrides_of, timeouts_section, item.
  destruct (a_timeout a) as [n|]; [destruct (Z.eqb n 0)|]; reflexivity.
Qed.

Lemma cli_config_documented a lower :
  (forall o, cf (cli_config a lower) o = cf (documented_config a lower) o) /\
  cf_timeout (cli_config a lower) = cf_timeout (documented_config a lower).
Proof.
  unfold cli_config, documented_config; cbn [cf cf_timeout]. split.
  - intros o. rewrite override_opt_flag. reflexivity.
  - rewrite override_timeout_flag. reflexivity.
Qed.

(** * the specification only looks at a configuration pointwise *)
Lemma want_ext c1 c2 k : (forall o, cf c1 o = cf c2 o) -> forall o, want c1 k o = want c2 k o.
Proof. intros H o. unfold want. rewrite H. reflexivity. Qed.

Lemma forallb_ext' {A} (f g : A -> bool) l : (forall x, f x = g x) -> forallb f l = forallb g l.
Proof. intros H. induction l; simpl; [reflexivity | rewrite H, IHl; reflexivity]. Qed.

Lemma spec_ok_opts_ext c1 c2 parent command k obs :
  (forall o, cf c1 o = cf c2 o) -> cf_timeout c1 = cf_timeout c2 ->
  spec_ok_opts_r true c1 parent command k obs = spec_ok_opts_r true c2 parent command k obs.
Proof.
  intros H T. pose proof (want_ext c1 c2 k H) as W.
  unfold spec_ok_opts_r, rejected, hidden, echo_on_r, start_ok, want_timeout.
  rewrite !W, T.
  destruct (kw_extra k); [|reflexivity].
  destruct (truthy (want c2 k Asynchronous) && truthy (want c2 k Disown)); [reflexivity|].
  destruct (named_streams _); [|reflexivity].
  destruct (o_exc obs); [reflexivity|]. destruct (o_res obs) as [r|]; [|reflexivity].
  rewrite (forallb_ext' _ (fun o => match o with
                                    | Echo | Hide => true
                                    | _ => oval_eqb (r_opts r o) (want c2 k o)
                                    end)); [reflexivity|].
  intros o. rewrite W. reflexivity.
Qed.

(** * the flagship of the command-line part *)
Lemma pv_eqb_refl x : pv_eqb x x = true.
Proof.
  unfold pv_eqb. destruct x as [p v]; cbn [fst snd].
  assert (P : path_eqb p p = true) by (apply path_eqb_eq; reflexivity).
  assert (V : value_eqb v v = true) by (apply value_eqb_eq; reflexivity).
  rewrite P, V. reflexivity.
Qed.

Lemma pvs_subset_refl l : pvs_subset l l = true.
Proof.
  unfold pvs_subset. apply forallb_forall. intros x Hx. apply existsb_exists.
  exists x. split; [assumption | apply pv_eqb_refl].
Qed.

Theorem cli_meets_spec a lower env_var parent command k :
  spec_ok_cli_r true a lower env_var parent command k
              (overrides_of a) (runtime_path_of a env_var)
              (run_model_cli a lower parent command k) = true.
Proof.
  unfold spec_ok_cli_r, overrides_ok, run_model_cli, runtime_path_of.
  rewrite leaf_paths_overrides, pvs_subset_refl, opt_str_eqb_refl.
  destruct (cli_config_documented a lower) as [H T].
  rewrite <- (spec_ok_opts_ext _ _ parent command k _ H T), run_meets_spec.
  reflexivity.
Qed.

(** * (2) resolution of the options fed by flags *)
Theorem cli_flag_resolution a lower k o :
  want (cli_config a lower) k o
  = match given k o with
    | Some v => v                                  (* the per-call value, if given *)
    | None =>
        match flag_value a o with
        | Some v => v                              (* else the flag, if given *)
        | None => match cf lower o with
                  | Some v => v                    (* else what lower levels configure *)
                  | None => default o              (* else the built-in default *)
                  end
        end
    end.
Proof.
  unfold want, cli_config; cbn [cf]. rewrite override_opt_flag.
  destruct (given k o); [reflexivity|]. destruct (flag_value a o); reflexivity.
Qed.

(** ... and it is what the runner ends up with, for the options without interaction
    rules (warn, pty, dry; echo and hide go through [interactions]) *)
Theorem cli_effective a lower k r o :
  effective_opts_cli a lower k = Ok r -> In o [Warn; Pty; Dry] ->
  r_opts r o = match given k o with
               | Some v => v
               | None => match flag_value a o with
                         | Some v => v
                         | None => match cf lower o with Some v => v | None => default o end
                         end
               end.
Proof.
  intros U I. unfold effective_opts_cli in U.
  destruct (resolution _ _ _ U) as (R & _).
  rewrite R, cli_flag_resolution; [reflexivity| |];
    destruct I as [<-|[<-|[<-|[]]]]; discriminate.
Qed.

(** * (3) the source of the command timeout *)
Theorem cli_timeout a lower k r :
  effective_opts_cli a lower k = Ok r ->
  r_timeout r = match kw_timeout k with
                | Some v => v                                   (* per call, None included *)
                | None =>
                    match a_timeout a with
                    | Some n => if Z.eqb n 0 then cf_timeout lower   (* -T 0 counts as not given *)
                                else OInt n
                    | None => cf_timeout lower
                    end
                end.
Proof.
  intros U. unfold effective_opts_cli in U. destruct (resolution _ _ _ U) as (_ & T & _).
  rewrite T. unfold want_timeout, cli_config; cbn [cf_timeout]. rewrite override_timeout_flag.
  unfold flag_timeout. destruct (kw_timeout k); [reflexivity|].
  destruct (a_timeout a) as [n|]; [destruct (Z.eqb n 0)|]; reflexivity.
Qed.

(** the quirk, stated on its own: [-T 0] does not mean "no timeout" -- it is dropped,
    so a configured [timeouts.command] still applies *)
Theorem cli_timeout_zero_is_ignored a lower k r :
  a_timeout a = Some 0%Z -> kw_timeout k = None ->
  effective_opts_cli a lower k = Ok r -> r_timeout r = cf_timeout lower.
Proof.
  intros A K U. rewrite (cli_timeout a lower k r U), K, A. reflexivity.
Qed.

Theorem runtime_path a env_var :
  (forall p, a_config a = Some p -> runtime_path_of a env_var = Some p) /\
  (a_config a = None -> runtime_path_of a env_var = env_var).
Proof. unfold runtime_path_of. split; [intros p ->|intros ->]; reflexivity. Qed.
