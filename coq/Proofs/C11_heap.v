(** C11 on the explicit heap: merge_dicts writes only what is reachable from
    [base], adopts nothing by reference, and copy_dict / clone build from fresh
    objects only. *)
From Coq Require Import Lia.
From InvokeVerif Require Import Common.Tree Common.StrUtil Model.HeapMerge.

(** * Heaps as lists *)
Lemma hget_hset_same h a n : a < List.length h -> hget (hset h a n) a = Some n.
Proof.
  unfold hget. revert a. induction h as [|x h IH]; intros a H; simpl in *; [lia|].
  destruct a; simpl; [reflexivity | apply IH; lia].
Qed.

Lemma hget_hset_other h a a' n : a <> a' -> hget (hset h a n) a' = hget h a'.
Proof.
  unfold hget. revert a a'. induction h as [|x h IH]; intros a a' H; simpl; [reflexivity|].
  destruct a, a'; simpl; try reflexivity; [congruence | apply IH; congruence].
Qed.

Lemma length_hset h a n : List.length (hset h a n) = List.length h.
Proof.
  revert a. induction h as [|x h IH]; intros a; simpl; [reflexivity|].
  destruct a; simpl; [reflexivity | rewrite IH; reflexivity].
Qed.

Lemma hget_some_lt h a n : hget h a = Some n -> a < List.length h.
Proof. unfold hget. intros H. apply nth_error_Some. congruence. Qed.

Lemma hget_ge_none h a : List.length h <= a -> hget h a = None.
Proof. unfold hget. apply nth_error_None. Qed.

Lemma hget_app_old h l a : a < List.length h -> hget (h ++ l) a = hget h a.
Proof. unfold hget. intros H. apply nth_error_app1. exact H. Qed.

Lemma hget_app_new h n : hget (h ++ [n]) (List.length h) = Some n.
Proof. unfold hget. rewrite nth_error_app2 by lia. rewrite Nat.sub_diag. reflexivity. Qed.

(** * Reachability *)
Inductive reach (h : heap) : addr -> addr -> Prop :=
| reach_refl a : reach h a a
| reach_step a n k c x : hget h a = Some n -> In (k, HRef c) n -> reach h c x -> reach h a x.

Lemma reach_trans h a1 a2 a3 : reach h a1 a2 -> reach h a2 a3 -> reach h a1 a3.
Proof.
  induction 1 as [a|a n k c x Hn Hin _ IH]; intros H2; [exact H2|].
  eapply reach_step; eauto.
Qed.

Lemma reach_edge h a n k c : hget h a = Some n -> In (k, HRef c) n -> reach h a c.
Proof. intros. eapply reach_step; eauto. apply reach_refl. Qed.

(** Every reference points inside the heap. *)
Definition hwf (h : heap) : Prop :=
  forall a n k c, hget h a = Some n -> In (k, HRef c) n -> c < List.length h.

Lemma reach_in_bounds h a x : hwf h -> a < List.length h -> reach h a x -> x < List.length h.
Proof.
  intros W Ha H. induction H as [a|a n k c x Hn Hin _ IH]; [exact Ha|].
  apply IH. eapply W; eauto.
Qed.

Lemma reach_empty_node h a x : hget h a = Some [] -> reach h a x -> x = a.
Proof.
  intros Hn H. inversion H as [|? n k c ? Hn' Hin _]; subst; [reflexivity|].
  rewrite Hn in Hn'. inversion Hn'; subst. destruct Hin.
Qed.

(** Edges only grow from [h1] to [h2]. *)
Definition edges_sub (h1 h2 : heap) : Prop :=
  forall a n, hget h1 a = Some n ->
    exists n', hget h2 a = Some n' /\ forall k c, In (k, HRef c) n -> In (k, HRef c) n'.

Lemma edges_sub_refl h : edges_sub h h.
Proof. intros a n H. exists n. auto. Qed.

Lemma edges_sub_trans h1 h2 h3 : edges_sub h1 h2 -> edges_sub h2 h3 -> edges_sub h1 h3.
Proof.
  intros H12 H23 a n H. destruct (H12 a n H) as [n2 [G2 E2]].
  destruct (H23 a n2 G2) as [n3 [G3 E3]]. exists n3. split; [assumption|]. auto.
Qed.

Lemma reach_mono h1 h2 a x : edges_sub h1 h2 -> reach h1 a x -> reach h2 a x.
Proof.
  intros E H. induction H as [a|a n k c x Hn Hin _ IH]; [apply reach_refl|].
  destruct (E a n Hn) as [n' [G' E']]. eapply reach_step; [exact G' | apply E'; exact Hin | exact IH].
Qed.

(** A path in the later heap either exists in the earlier one, or passes through
    a node that differs. *)
Lemma reach_after (hc h2 : heap) (W : addr -> Prop) :
  (forall a, hget h2 a = hget hc a \/ W a) ->
  forall a x, reach h2 a x ->
    reach hc a x \/ exists z, W z /\ reach hc a z /\ reach h2 z x.
Proof.
  intros HW a x H. induction H as [a|a n k c x Hn Hin Hr IH].
  - left. apply reach_refl.
  - destruct (HW a) as [E|Wa].
    + rewrite E in Hn. destruct IH as [IH|[z [Wz [R1 R2]]]].
      * left. eapply reach_step; eauto.
      * right. exists z. split; [assumption|]. split; [|assumption]. eapply reach_step; eauto.
    + right. exists a. split; [assumption|]. split; [apply reach_refl|]. eapply reach_step; eauto.
Qed.

Lemma reach_app_old h l a x : hwf h -> a < List.length h -> reach (h ++ l) a x -> reach h a x.
Proof.
  intros W Ha H. induction H as [a|a n k c x Hn Hin _ IH]; [apply reach_refl|].
  rewrite hget_app_old in Hn by exact Ha.
  eapply reach_step; [exact Hn | exact Hin |]. apply IH. eapply W; eauto.
Qed.

(** * "h' differs from h only on P or on fresh nodes, and edges only grow" *)
Record mods (h h' : heap) (P : addr -> Prop) : Prop := mkMods {
  m_len : List.length h <= List.length h';
  m_frame : forall z, hget h' z = hget h z \/ P z \/ List.length h <= z;
  m_edges : edges_sub h h';
  m_wf : hwf h'
}.

Lemma mods_refl h P : hwf h -> mods h h P.
Proof. intros W. constructor; auto. apply edges_sub_refl. Qed.

Lemma mods_trans h hc h2 (P Q : addr -> Prop) :
  mods h hc P -> mods hc h2 Q -> (forall z, Q z -> P z \/ List.length h <= z) -> mods h h2 P.
Proof.
  intros [L1 F1 E1 W1] [L2 F2 E2 W2] HQ. constructor.
  - lia.
  - intros z. destruct (F2 z) as [E|[Qz|Lz]].
    + rewrite E. apply F1.
    + destruct (HQ z Qz); auto.
    + right; right. lia.
  - eapply edges_sub_trans; eassumption.
  - assumption.
Qed.

Lemma mods_weaken h h' (P Q : addr -> Prop) : mods h h' P -> (forall z, P z -> Q z) -> mods h h' Q.
Proof.
  intros [L F E W] HPQ. constructor; auto.
  intros z. destruct (F z) as [H|[H|H]]; auto.
Qed.

Definition newreach (h h' : heap) (b : addr) : Prop :=
  forall x, reach h' b x -> reach h b x \/ List.length h <= x.

(** * Node-level facts *)
Lemma aget_in k n v : aget k n = Some v -> In (k, v) n.
Proof.
  induction n as [|[k' v'] n IH]; simpl; [discriminate|].
  destruct (String.eqb k k') eqn:E; intros H.
  - apply String.eqb_eq in E; subst. inversion H; subst. left; reflexivity.
  - right; auto.
Qed.

(** Storing a leaf where there was a leaf or nothing keeps the references. *)
Lemma aset_leaf_refs k x n k' c :
  (forall a, aget k n <> Some (HRef a)) ->
  (In (k', HRef c) (aset k (HLeaf x) n) <-> In (k', HRef c) n).
Proof.
  induction n as [|[k2 v2] n IH]; simpl; intros Hn.
  - split; [intros [H|[]]; discriminate | intros []].
  - destruct (String.eqb k k2) eqn:E.
    + apply String.eqb_eq in E; subst k2. simpl. split.
      * intros [H|H]; [discriminate | right; exact H].
      * intros [H|H]; [|right; exact H]. inversion H; subst. exfalso. apply (Hn c). reflexivity.
    + simpl. rewrite IH; [tauto|]. exact Hn.
Qed.

(** Storing a reference under a new key adds exactly that edge. *)
Lemma aset_new_refs k a n k' c : aget k n = None ->
  (In (k', HRef c) (aset k (HRef a) n) <-> In (k', HRef c) n \/ (k' = k /\ c = a)).
Proof.
  induction n as [|[k2 v2] n IH]; simpl; intros Hn.
  - split; [intros [H|[]]; inversion H; auto | intros [[]|[-> ->]]; left; reflexivity].
  - destruct (String.eqb k k2) eqn:E; [discriminate|]. simpl. rewrite IH by exact Hn. tauto.
Qed.

(** * One write to the base node *)
Lemma mods_hset h b n n' :
  hwf h -> hget h b = Some n ->
  (forall k c, In (k, HRef c) n -> In (k, HRef c) n') ->
  (forall k c, In (k, HRef c) n' -> c < List.length h) ->
  mods h (hset h b n') (fun z => z = b).
Proof.
  intros W Hb Hsub Hbound. pose proof (hget_some_lt _ _ _ Hb) as Lb. constructor.
  - rewrite length_hset. lia.
  - intros z. destruct (Nat.eq_dec z b) as [->|Hne]; [right; left; reflexivity|].
    left. apply hget_hset_other. congruence.
  - intros a m Ha. destruct (Nat.eq_dec a b) as [->|Hne].
    + rewrite Hb in Ha. inversion Ha; subst m. exists n'. split; [apply hget_hset_same; exact Lb | exact Hsub].
    + exists m. split; [rewrite hget_hset_other by congruence; exact Ha | auto].
  - intros a m k c Ha Hin. rewrite length_hset. destruct (Nat.eq_dec a b) as [->|Hne].
    + rewrite hget_hset_same in Ha by exact Lb. inversion Ha; subst m. eapply Hbound; eauto.
    + rewrite hget_hset_other in Ha by congruence. eapply W; eauto.
Qed.

(** Reachability after a write that keeps the references of the node. *)
Lemma reach_hset_same_refs h b n n' a x :
  hget h b = Some n ->
  (forall k c, In (k, HRef c) n' -> In (k, HRef c) n) ->
  reach (hset h b n') a x -> reach h a x.
Proof.
  intros Hb Hsub H. pose proof (hget_some_lt _ _ _ Hb) as Lb.
  induction H as [a|a m k c x Hm Hin _ IH]; [apply reach_refl|].
  destruct (Nat.eq_dec a b) as [->|Hne].
  - rewrite hget_hset_same in Hm by exact Lb. inversion Hm; subst m.
    eapply reach_step; [exact Hb | apply Hsub; exact Hin | exact IH].
  - rewrite hget_hset_other in Hm by congruence. eapply reach_step; eauto.
Qed.

(** Reachability after linking a new child [na] under [b]. *)
Lemma reach_hset_link h b n k na a x :
  hget h b = Some n -> aget k n = None ->
  reach (hset h b (aset k (HRef na) n)) a x -> reach h a x \/ reach h na x.
Proof.
  intros Hb Hk H. pose proof (hget_some_lt _ _ _ Hb) as Lb.
  induction H as [a|a m k' c x Hm Hin _ IH]; [left; apply reach_refl|].
  destruct (Nat.eq_dec a b) as [->|Hne].
  - rewrite hget_hset_same in Hm by exact Lb. inversion Hm; subst m.
    apply aset_new_refs in Hin; [|exact Hk]. destruct Hin as [Hin|[-> ->]].
    + destruct IH as [IH|IH]; [left; eapply reach_step; eauto | right; exact IH].
    + destruct IH as [IH|IH]; right; exact IH.
  - rewrite hget_hset_other in Hm by congruence.
    destruct IH as [IH|IH]; [left; eapply reach_step; eauto | right; exact IH].
Qed.

(** * The loop of merge_dicts, with the recursive call as a parameter *)
Fixpoint merge_loop (rec : addr -> addr -> heap -> result heap) (b u : addr) (len : nat)
         (ks : list string) (h : heap) {struct ks} : result heap :=
  match ks with
  | [] =>
      match hget h u with
      | Some un' => if Nat.eqb (List.length un') len then Ok h else Err EOther
      | None => Err EOther
      end
  | k :: rest =>
      match hget h u, hget h b with
      | Some un', Some bn =>
          if negb (Nat.eqb (List.length un') len) then Err EOther
          else
            match aget k un' with
            | None => Err EOther
            | Some v =>
                match aget k bn, v with
                | Some (HRef bc), HRef uc =>
                    match rec bc uc h with
                    | Ok h' => merge_loop rec b u len rest h'
                    | Err e => Err e
                    end
                | Some (HLeaf _), HRef _ => Err EAmbigMerge
                | Some (HRef _), HLeaf _ => Err EAmbigMerge
                | Some (HLeaf _), HLeaf x => merge_loop rec b u len rest (hset h b (aset k (HLeaf x) bn))
                | None, HLeaf x => merge_loop rec b u len rest (hset h b (aset k (HLeaf x) bn))
                | None, HRef uc =>
                    let '(na, h1) := halloc h [] in
                    match rec na uc h1 with
                    | Err e => Err e
                    | Ok h2 =>
                        match hget h2 b with
                        | Some bn2 => merge_loop rec b u len rest (hset h2 b (aset k (HRef na) bn2))
                        | None => Err EOther
                        end
                    end
                end
            end
      | _, _ => Err EOther
      end
  end.

Lemma merge_h_S f b u h :
  merge_h (S f) b u h =
  match hget h u with
  | None => Err EOther
  | Some un => merge_loop (merge_h f) b u (List.length un) (map fst un) h
  end.
Proof.
  cbn [merge_h]. destruct (hget h u) as [un|]; [|reflexivity].
  generalize (map fst un) as ks. intros ks. revert h.
  induction ks as [|k rest IH]; intros h; [reflexivity|].
  cbn -[hget aget aset hset halloc Nat.eqb List.length].
  destruct (hget h u) as [un'|]; [|reflexivity].
  destruct (hget h b) as [bn|]; [|reflexivity].
  destruct (negb (Nat.eqb (List.length un') (List.length un))); [reflexivity|].
  destruct (aget k un') as [v|]; [|reflexivity].
  destruct (aget k bn) as [[y|bc]|], v as [x|uc]; try reflexivity; try apply IH.
  - destruct (merge_h f bc uc h); [apply IH | reflexivity].
  - unfold halloc. cbv beta iota zeta.
    match goal with
    | |- match ?x with _ => _ end = match ?y with _ => _ end =>
        change y with x; destruct x as [h2|]; [|reflexivity]
    end.
    destruct (hget h2 b); [apply IH | reflexivity].
Qed.

(** * What merge_dicts does to the heap *)
Definition merge_post (h h' : heap) (b : addr) : Prop :=
  mods h h' (reach h b) /\ newreach h h' b.

Definition rec_ok (rec : addr -> addr -> heap -> result heap) : Prop :=
  forall b u h h', hwf h -> b < List.length h -> rec b u h = Ok h' -> merge_post h h' b.

Lemma hwf_app_empty h : hwf h -> hwf (h ++ [[]]).
Proof.
  intros W a n k c Ha Hin. rewrite app_length. simpl.
  destruct (Nat.lt_ge_cases a (List.length h)) as [L|L].
  - rewrite hget_app_old in Ha by exact L. pose proof (W a n k c Ha Hin). lia.
  - destruct (Nat.eq_dec a (List.length h)) as [->|Hne].
    + rewrite hget_app_new in Ha. inversion Ha; subst. destruct Hin.
    + rewrite hget_ge_none in Ha; [discriminate|]. rewrite app_length. simpl. lia.
Qed.

Lemma mods_alloc h : hwf h -> mods h (h ++ [[]]) (fun _ => False).
Proof.
  intros W. constructor.
  - rewrite app_length. lia.
  - intros z. destruct (Nat.lt_ge_cases z (List.length h)) as [L|L].
    + left. apply hget_app_old. exact L.
    + right; right. exact L.
  - intros a n Ha. exists n. split; [|auto].
    rewrite hget_app_old; [exact Ha | eapply hget_some_lt; eassumption].
  - apply hwf_app_empty. exact W.
Qed.

Lemma loop_post rec b u len : rec_ok rec -> forall ks h hc h',
  hwf h -> b < List.length h -> merge_post h hc b ->
  merge_loop rec b u len ks hc = Ok h' -> merge_post h h' b.
Proof.
  intros Hrec. induction ks as [|k rest IH]; intros h hc h' W Lb [Mc Nc] H.
  - cbn [merge_loop] in H. destruct (hget hc u) as [un'|]; [|discriminate].
    destruct (Nat.eqb (List.length un') len); [|discriminate]. inversion H; subst. split; assumption.
  - cbn [merge_loop] in H.
    destruct (hget hc u) as [un'|] eqn:Gu; [|discriminate].
    destruct (hget hc b) as [bn|] eqn:Gb; [|discriminate].
    destruct (negb (Nat.eqb (List.length un') len)); [discriminate|].
    destruct (aget k un') as [v|] eqn:Gv; [|discriminate].
    pose proof (m_wf _ _ _ Mc) as Wc. pose proof (m_len _ _ _ Mc) as Lc.
    assert (Lbc : b < List.length hc) by lia.
    (* a write of a leaf into the base node *)
    assert (Hleaf : forall x, (forall a, aget k bn <> Some (HRef a)) ->
              merge_post h (hset hc b (aset k (HLeaf x) bn)) b).
    { intros x Hnr.
      assert (M2 : mods hc (hset hc b (aset k (HLeaf x) bn)) (fun z => z = b)).
      { apply (mods_hset hc b bn); try assumption.
        - intros k' c Hin. apply aset_leaf_refs; assumption.
        - intros k' c Hin. apply aset_leaf_refs in Hin; [|assumption]. eapply Wc; eauto. }
      split.
      - eapply mods_trans; [exact Mc | exact M2 |]. intros z ->. left. apply reach_refl.
      - intros y Hy. apply Nc.
        eapply reach_hset_same_refs; [exact Gb | | exact Hy].
        intros k' c Hin. apply aset_leaf_refs in Hin; assumption. }
    destruct (aget k bn) as [[y|bc]|] eqn:Gk; destruct v as [x|uc]; try discriminate.
    + (* leaf over leaf *)
      eapply IH; [exact W | exact Lb | | exact H]. apply Hleaf. intros a; discriminate.
    + (* dict into dict: recursive merge into the child *)
      destruct (rec bc uc hc) as [h2|] eqn:Er; [|discriminate].
      pose proof (aget_in _ _ _ Gk) as Hin.
      assert (Lchild : bc < List.length hc) by (eapply Wc; eauto).
      destruct (Hrec bc uc hc h2 Wc Lchild Er) as [M2 N2].
      eapply IH; [exact W | exact Lb | | exact H]. split.
      * eapply mods_trans; [exact Mc | exact M2 |].
        intros z Hz. apply Nc. eapply reach_trans; [eapply reach_edge; eauto | exact Hz].
      * intros y Hy.
        destruct (reach_after hc h2 (fun z => reach hc bc z \/ List.length hc <= z) (m_frame _ _ _ M2) b y Hy)
          as [Hc|[z [[Wz|Wz] [R1 R2]]]].
        -- apply Nc. exact Hc.
        -- assert (Rz : reach h2 bc y).
           { eapply reach_trans; [eapply reach_mono; [exact (m_edges _ _ _ M2) | exact Wz] | exact R2]. }
           destruct (N2 y Rz) as [Hy2|Hy2]; [|right; lia].
           apply Nc. eapply reach_trans; [eapply reach_edge; eauto | exact Hy2].
        -- pose proof (reach_in_bounds hc b z Wc Lbc R1). lia.
    + (* new leaf *)
      eapply IH; [exact W | exact Lb | | exact H]. apply Hleaf. intros a; discriminate.
    + (* new dict value: copy_dict, then link *)
      unfold halloc in H. cbv beta iota zeta in H.
      match type of H with
      | match ?r with _ => _ end = _ => destruct r as [h2|] eqn:Er; [|discriminate]
      end.
      pose (na := List.length hc). pose (h1 := hc ++ [([] : hnode)]).
      change (rec na uc h1 = Ok h2) in Er.
      change (match hget h2 b with
              | Some bn2 => merge_loop rec b u len rest (hset h2 b (aset k (HRef na) bn2))
              | None => Err EOther
              end = Ok h') in H.
      destruct (hget h2 b) as [bn2|] eqn:Gb2; [|discriminate].
      assert (W1 : hwf h1) by (apply hwf_app_empty; exact Wc).
      assert (Lna : na < List.length h1) by (unfold h1, na; rewrite app_length; simpl; lia).
      destruct (Hrec na uc h1 h2 W1 Lna Er) as [M2 N2].
      assert (Gna : hget h1 na = Some []) by (apply hget_app_new).
      assert (Hna : forall z, reach h1 na z -> z = na) by (intros z Hz; eapply reach_empty_node; eauto).
      (* the base node is untouched by the copy *)
      assert (Eb : bn2 = bn).
      { destruct (m_frame _ _ _ M2 b) as [E|[Rb|Lb1]].
        - rewrite Gb2 in E. unfold h1 in E. rewrite hget_app_old in E by exact Lbc. congruence.
        - apply Hna in Rb. unfold na in Rb. lia.
        - unfold h1 in Lb1. rewrite app_length in Lb1. simpl in Lb1. lia. }
      subst bn2.
      assert (Mc2 : mods hc h2 (fun _ => False)).
      { eapply mods_trans; [apply mods_alloc; exact Wc | exact M2 |].
        intros z Hz. apply Hna in Hz. right. unfold na in Hz. lia. }
      pose proof (m_wf _ _ _ M2) as W2. pose proof (m_len _ _ _ M2) as L2.
      assert (Lna2 : na < List.length h2) by lia.
      assert (M3 : mods h2 (hset h2 b (aset k (HRef na) bn)) (fun z => z = b)).
      { apply (mods_hset h2 b bn); try assumption.
        - intros k' c Hin. apply aset_new_refs; [exact Gk | left; exact Hin].
        - intros k' c Hin. apply aset_new_refs in Hin; [|exact Gk].
          destruct Hin as [Hin|[_ ->]]; [eapply W2; eauto | exact Lna2]. }
      eapply IH; [exact W | exact Lb | | exact H]. split.
      * eapply mods_trans; [exact Mc | | ].
        -- eapply mods_trans; [eapply (mods_weaken _ _ _ (fun z => z = b) Mc2); intros z [] | exact M3 |].
           intros z Hz. left. exact Hz.
        -- intros z ->. left. apply reach_refl.
      * intros y Hy.
        destruct (reach_hset_link h2 b bn k na b y Gb2 Gk Hy) as [R|R].
        -- (* below the base in h2: nothing old changed *)
           destruct (reach_after hc h2 (fun z => False \/ List.length hc <= z)) with (a := b) (x := y)
             as [Hc|[z [[[]|Wz] [R1 _]]]]; [| exact R | apply Nc; exact Hc |].
           ++ intros a. destruct (m_frame _ _ _ Mc2 a) as [E|[[]|L]]; auto.
           ++ pose proof (reach_in_bounds hc b z Wc Lbc R1). lia.
        -- destruct (N2 y R) as [Hy2|Hy2].
           ++ apply Hna in Hy2. right. unfold na in Hy2. lia.
           ++ right. unfold h1 in Hy2. rewrite app_length in Hy2. simpl in Hy2. lia.
Qed.

Theorem merge_h_post : forall f, rec_ok (merge_h f).
Proof.
  induction f as [|f IH]; intros b u h h' W Lb H; [discriminate|].
  rewrite merge_h_S in H. destruct (hget h u) as [un|]; [|discriminate].
  eapply (loop_post (merge_h f) b u (List.length un) IH); [exact W | exact Lb | | exact H].
  split; [apply mods_refl; exact W | intros x Hx; left; exact Hx].
Qed.

(** * Statements about merge_dicts *)
(** Objects not reachable from [base] are left exactly as they were. *)
Theorem merge_writes_only_base : forall f b u h h',
  hwf h -> b < List.length h -> merge_h f b u h = Ok h' ->
  forall z, z < List.length h -> ~ reach h b z -> hget h' z = hget h z.
Proof.
  intros f b u h h' W Lb H z Lz Nz.
  destruct (merge_h_post f b u h h' W Lb H) as [M _].
  destruct (m_frame _ _ _ M z) as [E|[R|L]]; [exact E | contradiction | lia].
Qed.

(** Whatever is reachable from [base] afterwards was reachable from it before,
    or was created by the call: nothing is adopted by reference. *)
Theorem merge_no_adoption : forall f b u h h',
  hwf h -> b < List.length h -> merge_h f b u h = Ok h' ->
  forall x, reach h' b x -> reach h b x \/ List.length h <= x.
Proof.
  intros f b u h h' W Lb H. exact (proj2 (merge_h_post f b u h h' W Lb H)).
Qed.

(** When only fresh or frame-respecting changes happened, what an old root
    reaches is what it reached. *)
Lemma reach_unchanged_part h h' (P : addr -> Prop) a x :
  hwf h -> a < List.length h -> mods h h' P ->
  (forall z, reach h a z -> ~ P z) ->
  reach h' a x -> reach h a x.
Proof.
  intros W La M Hdis H.
  destruct (reach_after h h' (fun z => P z \/ List.length h <= z) (m_frame _ _ _ M) a x H)
    as [R|[z [[Pz|Lz] [R1 _]]]].
  - exact R.
  - exfalso. exact (Hdis z R1 Pz).
  - pose proof (reach_in_bounds h a z W La R1). lia.
Qed.

(** [updates] (when it shares nothing with [base]) is untouched, and still
    shares nothing with [base] afterwards. *)
Theorem merge_no_new_sharing : forall f b u h h',
  hwf h -> b < List.length h -> u < List.length h -> merge_h f b u h = Ok h' ->
  (forall z, reach h b z -> reach h u z -> False) ->
  (forall z, reach h u z -> hget h' z = hget h z) /\
  (forall z, reach h' u z <-> reach h u z) /\
  (forall z, reach h' b z -> reach h' u z -> False).
Proof.
  intros f b u h h' W Lb Lu H Hdis.
  destruct (merge_h_post f b u h h' W Lb H) as [M N].
  assert (Hu : forall z, reach h' u z -> reach h u z).
  { intros z Hz. eapply reach_unchanged_part; [exact W | exact Lu | exact M | | exact Hz].
    intros w Ru Rb. exact (Hdis w Rb Ru). }
  split; [|split].
  - intros z Rz. pose proof (reach_in_bounds h u z W Lu Rz) as Lz.
    destruct (m_frame _ _ _ M z) as [E|[R|L]]; [exact E | exfalso; exact (Hdis z R Rz) | lia].
  - intros z. split; [apply Hu | apply reach_mono; exact (m_edges _ _ _ M)].
  - intros z Rb Ru. apply Hu in Ru.
    pose proof (reach_in_bounds h u z W Lu Ru) as Lz.
    destruct (N z Rb) as [R|L]; [exact (Hdis z R Ru) | lia].
Qed.

(** * copy_dict *)
Theorem copy_fresh : forall f src h a h',
  hwf h -> copy_h f src h = Ok (a, h') ->
  a = List.length h /\ hwf h' /\ List.length h < List.length h' /\
  (forall z, z < List.length h -> hget h' z = hget h z) /\
  (forall x, reach h' a x -> List.length h <= x).
Proof.
  intros f src h a h' W H. unfold copy_h, halloc in H. cbv beta iota zeta in H.
  match type of H with
  | match ?r with _ => _ end = _ => destruct r as [h2|] eqn:E; [|discriminate]
  end.
  inversion H; subst a h2. clear H.
  change (merge_h f (List.length h) src (h ++ [([] : hnode)]) = Ok h') in E.
  assert (W1 : hwf (h ++ [[]])) by (apply hwf_app_empty; exact W).
  assert (L1 : List.length h < List.length (h ++ [[]])) by (rewrite app_length; simpl; lia).
  destruct (merge_h_post f _ src _ h' W1 L1 E) as [M N].
  assert (Hna : forall z, reach (h ++ [[]]) (List.length h) z -> z = List.length h).
  { intros z Hz. eapply reach_empty_node; [apply hget_app_new | exact Hz]. }
  split; [reflexivity|]. split; [exact (m_wf _ _ _ M)|].
  pose proof (m_len _ _ _ M) as L2. split; [lia|]. split.
  - intros z Lz. destruct (m_frame _ _ _ M z) as [E2|[R|L]].
    + rewrite E2. apply hget_app_old. exact Lz.
    + apply Hna in R. lia.
    + lia.
  - intros x Hx. destruct (N x Hx) as [R|L]; [apply Hna in R; lia | lia].
Qed.

(** * clone: every copied level is built from fresh objects only, no old
    object changes, and the copies are pairwise disjoint *)
Lemma reach_old_root_after_frame h h' a x :
  hwf h -> a < List.length h -> List.length h <= List.length h' ->
  (forall z, z < List.length h -> hget h' z = hget h z) ->
  reach h' a x -> reach h a x.
Proof.
  intros W La LL F H.
  destruct (reach_after h h' (fun z => List.length h <= z)) with (a := a) (x := x)
    as [R|[z [Lz [R1 _]]]]; [| exact H | exact R |].
  - intros z. destruct (Nat.lt_ge_cases z (List.length h)); [left; apply F; assumption | right; assumption].
  - pose proof (reach_in_bounds h a z W La R1). lia.
Qed.

Theorem clone_levels_fresh : forall f roots h l h',
  hwf h -> clone_levels_h f roots h = Ok (l, h') ->
  hwf h' /\ List.length h <= List.length h' /\
  (forall z, z < List.length h -> hget h' z = hget h z) /\
  Forall (fun a => a < List.length h' /\ forall x, reach h' a x -> List.length h <= x) l /\
  ForallOrdPairs (fun a1 a2 => forall x, reach h' a1 x -> reach h' a2 x -> False) l.
Proof.
  intros f. induction roots as [|r rest IH]; intros h l h' W H.
  - simpl in H. inversion H; subst. split; [assumption|]. split; [lia|]. split; [auto|].
    split; constructor.
  - cbn [clone_levels_h] in H.
    destruct (copy_h f r h) as [[a h1]|] eqn:Ec; [|discriminate].
    destruct (clone_levels_h f rest h1) as [[l2 h2]|] eqn:Er; [|discriminate].
    inversion H; subst l h'. clear H.
    destruct (copy_fresh f r h a h1 W Ec) as [Ea [W1 [L1 [F1 R1]]]].
    destruct (IH h1 l2 h2 W1 Er) as [W2 [L2 [F2 [A2 P2]]]].
    assert (La1 : a < List.length h1) by lia.
    assert (Ra : forall x, reach h2 a x -> reach h1 a x).
    { intros x Hx. eapply reach_old_root_after_frame; eauto. }
    split; [assumption|]. split; [lia|]. split.
    { intros z Lz. rewrite F2 by lia. apply F1. exact Lz. }
    split.
    + constructor.
      * split; [lia|]. intros x Hx. apply R1. apply Ra. exact Hx.
      * eapply Forall_impl; [|exact A2]. intros a2 [La2 Ha2]. split; [assumption|].
        intros x Hx. pose proof (Ha2 x Hx). lia.
    + constructor; [|exact P2].
      rewrite Forall_forall in A2. apply Forall_forall. intros a2 Hin x Hx1 Hx2.
      destruct (A2 a2 Hin) as [_ Ha2]. pose proof (Ha2 x Hx2) as Lx.
      pose proof (reach_in_bounds h1 a x W1 La1 (Ra x Hx1)). lia.
Qed.

(** The clone's levels share no object with anything that existed before
    (in particular with the original's levels). *)
Corollary clone_shares_nothing : forall f roots h l h',
  hwf h -> clone_levels_h f roots h = Ok (l, h') ->
  forall r a x, In a l -> r < List.length h -> reach h' r x -> reach h' a x -> False.
Proof.
  intros f roots h l h' W H r a x Hin Lr Rr Ra.
  destruct (clone_levels_fresh f roots h l h' W H) as [W' [LL [F [A _]]]].
  rewrite Forall_forall in A. destruct (A a Hin) as [_ Ha]. pose proof (Ha x Ra) as Lx.
  pose proof (reach_old_root_after_frame h h' r x W Lr LL F Rr) as Rr0.
  pose proof (reach_in_bounds h r x W Lr Rr0). lia.
Qed.
