(** C01, widest fragment, second version: on top of the wide instance
    (Proofs/C01_wide*.v) two more classes of occurrences --
    - dash-leading values: "--name VALUE" / "--name=VALUE" for a non-optional
      value argument, VALUE being ANY text that is not a flag or inverse flag of
      its own task (and not "--" when written as its own token): the property's
      side condition "values not colliding with a flag";
    - bare optional-value flags ("--opt" alone means True), which leave the
      machine in a *pending* state until the next own flag or the end of the
      line completes them --
    and a composition that threads the pending state through items and calls. *)
From InvokeVerif Require Import Model.ParserModel Corr.C01Corr Proofs.ListFacts Proofs.C07_fuel
     Proofs.C01_steps Proofs.C01_tokens Proofs.C01_lookup Proofs.C01_occ Proofs.C01_roundtrip
     Proofs.C01_final Proofs.C01_generic2 Proofs.C01_dash
     Proofs.C01_form_glued Proofs.C01_form_counter Proofs.C01_form_cluster Proofs.C01_form_optional
     Proofs.C01_occ_nm Proofs.C01_inv Proofs.C01_wide Proofs.C01_wide_vals Proofs.C01_wide_final
     Proofs.C01_wide_cluster Proofs.C01_wide_final2.
From Coq Require Import Lia.

(** ** Occurrence classes *)

(** [s] is neither a flag nor an inverse flag of task [c] *)
Definition value_free (c : ctxspec) (s : string) : bool :=
  match find_flag_spec (cx_args c) s with None => true | Some _ => false end
  && match find (is_inverse_of s) (cx_args c) with None => true | Some _ => false end.

Definition occ_dash (c : ctxspec) (given : list nat) (o : occ) : bool :=
  match nth_error (cx_args c) (o_arg o) with
  | None => false
  | Some a =>
      Nat.ltb (o_name o) (List.length (a_names a)) &&
      match o_form o, o_val o with
      | FNext, VS s =>
          takes_value a && negb (a_optional a) && value_free c s && negb (String.eqb s "--")
          && castable a s
          && (akind_eqb (a_kind a) KList || negb (mem_nat (o_arg o) given))
      | FEq, VS s =>
          takes_value a && negb (a_optional a) && value_free c s
          && castable a s
          && (akind_eqb (a_kind a) KList || negb (mem_nat (o_arg o) given))
      | FGlued, VS s =>
          takes_value a && negb (a_optional a) && value_free c s
          && negb (String.eqb s "") && negb (contains_char "=" s)
          && Nat.eqb (String.length (flag_of a (o_name o))) 2
          && castable a s
          && (akind_eqb (a_kind a) KList || negb (mem_nat (o_arg o) given))
      | _, _ => false
      end
  end.

Definition occ_bareopt (c : ctxspec) (given : list nat) (o : occ) : bool :=
  match nth_error (cx_args c) (o_arg o) with
  | None => false
  | Some a =>
      Nat.ltb (o_name o) (List.length (a_names a)) &&
      match o_form o, o_val o with
      | FBare, VT =>
          takes_value a && a_optional a && negb (akind_eqb (a_kind a) KList)
          && negb (mem_nat (o_arg o) given)
          && opt_nat_eqb (first_missing c given) None
      | _, _ => false
      end
  end.

Definition is_bare (it : item) : bool :=
  match it with
  | One o => match o_form o, o_val o with FBare, VT => true | _, _ => false end
  | Cluster _ => false
  end.

(** model-side meaning: "--opt" alone = set_value(True, cast=False) *)
Definition run_bare (args : list rarg) (o : occ) : list rarg :=
  match nth_error args (o_arg o) with
  | Some r => upd_nth (o_arg o) (mkRArg (r_spec r) true (ABool true)) args
  | None => args
  end.

Definition run_item2 (args : list rarg) (it : item) : list rarg :=
  match it with
  | One o => if is_bare it then run_bare args o else run_one args o
  | Cluster l => run_cluster args l
  end.

Definition item_given2 (given : list nat) (it : item) : list nat :=
  match it with
  | One o => if is_bare it then o_arg o :: given else one_given given o
  | Cluster l => given_cluster given l
  end.

Section Classes.
(** any parser, any state [i0] of the initial context *)
Variable p : parser.
Variable i0 : rctx.

Lemma value_free_args c s args :
  map r_spec args = cx_args c -> value_free c s = true ->
  find_flag args s = None /\ find_inverse args s = None.
Proof.
  intros Sh V. unfold value_free in V. apply andb_true_iff in V. destruct V as [V1 V2]. split.
  - rewrite find_flag_args, Sh. destruct (find_flag_spec (cx_args c) s); [discriminate | reflexivity].
  - unfold find_inverse. pose proof (find_map_spec args (is_inverse_of s)) as E. rewrite Sh in E.
    destruct (find (is_inverse_of s) (cx_args c)); [discriminate|].
    destruct (find (fun r0 => is_inverse_of s (r_spec r0)) args); [discriminate E | reflexivity].
Qed.

(** the common facts of a dash occurrence *)
Lemma dash_facts c given o :
  occ_dash c given o = true ->
  exists a s, nth_error (cx_args c) (o_arg o) = Some a /\ o_name o < List.length (a_names a) /\
    o_val o = VS s /\
    ((o_form o = FNext /\ s <> "--") \/ o_form o = FEq \/
     (o_form o = FGlued /\ String.length (flag_of a (o_name o)) = 2 /\ s <> "" /\
      contains_char "=" s = false)) /\
    takes_value a = true /\ a_optional a = false /\ value_free c s = true /\
    castable a s = true /\
    (akind_eqb (a_kind a) KList = true \/ mem_nat (o_arg o) given = false).
Proof.
  unfold occ_dash. destruct (nth_error (cx_args c) (o_arg o)) as [a|]; [|discriminate].
  intros H. apply andb_true_iff in H. destruct H as [Lk H]. apply Nat.ltb_lt in Lk.
  assert (Hg' : forall b, (akind_eqb (a_kind a) KList || negb b) = true ->
                          akind_eqb (a_kind a) KList = true \/ b = false).
  { intros b X. apply orb_true_iff in X. destruct X as [X|X]; [left; exact X | right; apply negb_true_iff; exact X]. }
  destruct (o_form o) eqn:Fo; try discriminate; destruct (o_val o) as [b|n|s|]; try discriminate;
    exists a, s; rewrite !andb_true_iff, !negb_true_iff in H.
  - destruct H as [[[[[Tv No] Vf] Nd] Hi] Hg]. repeat split; auto.
    left. split; [reflexivity|]. intros E. subst s. discriminate Nd.
  - destruct H as [[[[Tv No] Vf] Hi] Hg]. repeat split; auto.
  - destruct H as [[[[[[[Tv No] Vf] Ne] Eq] Ln] Hi] Hg]. repeat split; auto.
    right. right. split; [reflexivity|]. split; [apply Nat.eqb_eq; exact Ln|].
    split; [apply String.eqb_neq; exact Ne | exact Eq].
Qed.

Lemma one_steps_dash c given o done cur fl got :
  guard_w c = true -> occ_dash c given o = true ->
  Inv_w c given (rc_args cur) -> inert (MS i0 done cur fl got) ->
  exists fl' got',
    steps p (MS i0 done cur fl got) (spell_occ c o)
            (MS i0 done (with_args cur (run_one (rc_args cur) o)) fl' got') /\
    inert (MS i0 done (with_args cur (run_one (rc_args cur) o)) fl' got') /\
    Inv_w c (one_given given o) (run_one (rc_args cur) o).
Proof.
  intros G Os Iw I. pose proof Iw as [St [Co Gt]]. destruct (guard_w_parts c G) as [Gn _].
  destruct (guard_parts_nm c Gn) as [ND [Nn [Cl Ld]]].
  destruct (dash_facts c given o Os) as (a & s & Na & Lk & Vo & Fo & Tv & No & Vf & Hint & Hg).
  pose proof (sn_shape _ _ _ St) as Sh.
  destruct (nth_error_map_inv r_spec (rc_args cur) (o_arg o) a) as [r [Nr Sr]]; [rewrite Sh; exact Na|].
  set (tok := flag_of a (o_name o)) in *.
  assert (Tin : In tok (arg_flags a)) by (apply flag_of_in; exact Lk).
  assert (Ctok : clean_flag tok = true).
  { apply Cl. eapply in_all_spellings; [exact Na|]. unfold spellings_of. apply in_or_app. left. exact Tin. }
  assert (Ftok : find_flag (rc_args cur) tok = Some (o_arg o)).
  { rewrite find_flag_args, Sh. eapply find_flag_spec_unique; eauto. }
  assert (Tv' : takes_value (r_spec r) = true) by (rewrite Sr; exact Tv).
  assert (No' : a_optional (r_spec r) = false) by (rewrite Sr; exact No).
  destruct (set_value_str r s Tv') as [r' [SV [Sp [Rw [Nnone Hl]]]]].
  { rewrite Sr. exact Hint. }
  { intros K. eapply (sn_list _ _ _ St); eauto. }
  destruct (value_free_args c s (rc_args cur) Sh Vf) as [Fs FIs].
  assert (W : (if akind_eqb (a_kind (r_spec r)) KList && negb false then true else negb (r_raw r)) = true).
  { rewrite Sr. destruct Hg as [Hg|Hg]; [rewrite Hg; reflexivity|].
    destruct (akind_eqb (a_kind a) KList) eqn:KL; [reflexivity|]. cbn [andb]. rewrite negb_true_iff.
    eapply (sn_raw _ _ _ St); eauto. rewrite Sr. intros K. rewrite K in KL. discriminate. }
  assert (Sval : step p (MS i0 done cur (Some (S (List.length done), o_arg o)) false) s
                 = Ok (MS i0 done (upd_cur cur (o_arg o) r') (Some (S (List.length done), o_arg o)) true, []))
    by (apply (step_value_any p i0 done cur false s (o_arg o) r r' Nr Tv' No' W Fs FIs SV)).
  assert (E1 : run_one (rc_args cur) o = upd_nth (o_arg o) r' (rc_args cur)).
  { unfold run_one, run_occ, occ_input. rewrite Vo, Nr, SV. reflexivity. }
  assert (E2 : one_given given o = o_arg o :: given).
  { unfold one_given. rewrite Vo. destruct Fo as [[-> _] | [-> | [-> _]]]; reflexivity. }
  rewrite E1, E2. exists (Some (S (List.length done), o_arg o)), true.
  split; [|split].
  - unfold spell_occ. rewrite Na. fold tok. rewrite Vo. cbn [text_of].
    destruct Fo as [[-> _] | [-> | [-> (Ln & Ne & Eq)]]].
    + eapply steps_two; [|exact Sval].
      apply (step_value_flag p i0 done cur fl got tok (o_arg o) r I Ctok Ftok Nr Tv').
    + change ((tok ++ "=" ++ s)%string) with ((tok ++ String "=" s)%string).
      eapply steps_pushed; [|exact Sval].
      apply (step_eq_flag p i0 done cur fl got tok s (o_arg o) r I Ctok Ftok Nr Tv').
    + eapply steps_pushed; [|exact Sval].
      apply (step_glued_flag p i0 done cur fl got tok s (o_arg o) r I Ctok Ln Eq Ne Ftok Nr Tv').
  - apply inert_after; [congruence | exact Rw | rewrite andb_false_r; reflexivity].
  - split; [|split].
    + eapply st_nm_after_set; eauto.
      * intros _ _. apply mem_nat_cons_same.
      * intros j. rewrite mem_nat_cons. intros M. apply orb_false_iff in M. tauto.
    + eapply counters_ok_upd; eauto. intros Hi. rewrite Sp, Sr in Hi.
      rewrite (takes_value_counter _ Hi) in Tv. discriminate.
    + eapply given_track_upd; eauto.
      * intros _. split; [apply mem_nat_cons_same | exact Nnone].
      * intros j Hj. now apply mem_nat_cons_other.
Qed.

Lemma one_vals_dash c given o args os :
  guard_w c = true -> occ_dash c given o = true -> Inv_w c given args ->
  vals_ok os args -> vals_ok (os ++ [o]) (run_one args o).
Proof.
  intros G Os [St _] V.
  destruct (dash_facts c given o Os) as (a & s & Na & _ & Vo & _ & Tv & _ & _ & Hint & _).
  pose proof (sn_shape _ _ _ St) as Sh.
  destruct (nth_error_map_inv r_spec args (o_arg o) a) as [r [Nr Sr]]; [rewrite Sh; exact Na|].
  assert (Tv' : takes_value (r_spec r) = true) by (rewrite Sr; exact Tv).
  destruct (set_value_str r s Tv') as [r' [SV _]].
  { rewrite Sr. exact Hint. }
  { intros K. eapply (sn_list _ _ _ St); eauto. }
  unfold run_one. rewrite Vo. eapply run_occ_vals_str; eauto.
Qed.

Lemma one_clean_dash c given o :
  guard_w c = true -> occ_dash c given o = true ->
  Forall (fun t => t <> "--") (spell_occ c o).
Proof.
  intros G Os. destruct (guard_w_parts c G) as [Gn _]. destruct (guard_parts_nm c Gn) as [_ [_ [Cl _]]].
  destruct (dash_facts c given o Os) as (a & s & Na & Lk & Vo & Fo & _).
  assert (Ct : clean_flag (flag_of a (o_name o)) = true).
  { apply Cl. eapply in_all_spellings; [exact Na|]. unfold spellings_of. apply in_or_app. left.
    apply flag_of_in. exact Lk. }
  unfold spell_occ. rewrite Na, Vo. cbn [text_of].
  destruct Fo as [[Fo Nd] | [Fo | [Fo (Ln & Ne & Eq)]]]; rewrite Fo.
  - repeat constructor; [apply clean_not_ddash; exact Ct | exact Nd].
  - repeat constructor. change (("=" ++ s)%string) with (String "=" s). apply eq_form_not_ddash.
  - repeat constructor. destruct (short_clean_shape _ Ct Ln) as [ch [E Hch]]. rewrite E.
    cbn [append]. intros X. injection X as X _. subst ch. discriminate Hch.
Qed.

(** ** bare optional-value flags *)
Lemma bare_facts c given o :
  occ_bareopt c given o = true ->
  exists a, nth_error (cx_args c) (o_arg o) = Some a /\ o_name o < List.length (a_names a) /\
    o_form o = FBare /\ o_val o = VT /\ takes_value a = true /\ a_optional a = true /\
    akind_eqb (a_kind a) KList = false /\ mem_nat (o_arg o) given = false /\
    first_missing c given = None.
Proof.
  unfold occ_bareopt. destruct (nth_error (cx_args c) (o_arg o)) as [a|]; [|discriminate].
  intros H. apply andb_true_iff in H. destruct H as [Lk H]. apply Nat.ltb_lt in Lk.
  destruct (o_form o); try discriminate; destruct (o_val o); try discriminate.
  rewrite !andb_true_iff, !negb_true_iff in H. destruct H as [[[[Tv Op] Nl] Ng] Fm].
  exists a. repeat split; auto. apply opt_nat_eqb_eq. exact Fm.
Qed.

(** the flag token of a bare optional flag: from an inert state to the pending one *)
Lemma bare_steps c given o done cur fl got :
  guard_w c = true -> occ_bareopt c given o = true ->
  Inv_w c given (rc_args cur) -> inert (MS i0 done cur fl got) ->
  exists r,
    nth_error (rc_args cur) (o_arg o) = Some r /\ takes_value (r_spec r) = true /\
    a_optional (r_spec r) = true /\ r_raw r = false /\
    akind_eqb (a_kind (r_spec r)) KList = false /\ has_missing cur = false /\
    steps p (MS i0 done cur fl got) (spell_occ c o) (pending i0 done cur (o_arg o) false) /\
    run_bare (rc_args cur) o = upd_nth (o_arg o) (rtrue r) (rc_args cur) /\
    Inv_w c (o_arg o :: given) (run_bare (rc_args cur) o).
Proof.
  intros G Os Iw I. pose proof Iw as [St [Co Gt]]. destruct (guard_w_parts c G) as [Gn _].
  destruct (guard_parts_nm c Gn) as [ND [Nn [Cl Ld]]].
  destruct (bare_facts c given o Os) as (a & Na & Lk & Fo & Vo & Tv & Op & Nl & Ng & Fm).
  pose proof (sn_shape _ _ _ St) as Sh.
  destruct (nth_error_map_inv r_spec (rc_args cur) (o_arg o) a) as [r [Nr Sr]]; [rewrite Sh; exact Na|].
  set (tok := flag_of a (o_name o)).
  assert (Tin : In tok (arg_flags a)) by (apply flag_of_in; exact Lk).
  assert (Ctok : clean_flag tok = true).
  { apply Cl. eapply in_all_spellings; [exact Na|]. unfold spellings_of. apply in_or_app. left. exact Tin. }
  assert (Ftok : find_flag (rc_args cur) tok = Some (o_arg o)).
  { rewrite find_flag_args, Sh. eapply find_flag_spec_unique; eauto. }
  assert (Tv' : takes_value (r_spec r) = true) by (rewrite Sr; exact Tv).
  assert (Raw : r_raw r = false).
  { eapply (sn_raw _ _ _ St); eauto. rewrite Sr. intros K. rewrite K in Nl. discriminate. }
  exists r. split; [exact Nr|]. split; [exact Tv'|]. split; [rewrite Sr; exact Op|].
  split; [exact Raw|]. split; [rewrite Sr; exact Nl|].
  split; [eapply has_missing_false; eauto|]. split; [|split].
  - unfold spell_occ. rewrite Na, Fo. fold tok. apply steps_one.
    apply (step_value_flag p i0 done cur fl got tok (o_arg o) r I Ctok Ftok Nr Tv').
  - unfold run_bare. rewrite Nr. reflexivity.
  - unfold run_bare. rewrite Nr. split; [|split].
    + eapply st_nm_after_set; eauto.
      * intros K. rewrite Sr in K. rewrite K in Nl. discriminate.
      * intros _ _. apply mem_nat_cons_same.
      * intros j. rewrite mem_nat_cons. intros M. apply orb_false_iff in M. tauto.
    + eapply counters_ok_upd; eauto; cbn [r_spec]; intros Hi; rewrite Sr in Hi;
        rewrite (takes_value_counter _ Hi) in Tv; discriminate.
    + eapply given_track_upd; eauto.
      * intros _. split; [apply mem_nat_cons_same | reflexivity].
      * intros j Hj. now apply mem_nat_cons_other.
Qed.

Lemma bare_vals c given o args os :
  occ_bareopt c given o = true -> map r_spec args = cx_args c ->
  vals_ok os args -> vals_ok (os ++ [o]) (run_bare args o).
Proof.
  intros Os Sh V. destruct (bare_facts c given o Os) as (a & Na & _ & _ & Vo & _).
  destruct (nth_error_map_inv r_spec args (o_arg o) a) as [r [Nr Sr]]; [rewrite Sh; exact Na|].
  unfold run_bare. rewrite Nr. intros j rj Nj. destruct (Nat.eq_dec (o_arg o) j) as [<-|Ne].
  - rewrite (nth_error_upd_nth_same _ _ _ _ Nr) in Nj. injection Nj as <-. cbn [r_spec].
    rewrite vafter_snoc. unfold vstep. rewrite Nat.eqb_refl. unfold apply_occ. rewrite Vo. reflexivity.
  - rewrite (nth_error_upd_nth_other _ _ _ _ Ne) in Nj. rewrite vafter_snoc. unfold vstep.
    destruct (Nat.eqb (o_arg o) j) eqn:E; [apply Nat.eqb_eq in E; congruence|]. now apply V.
Qed.

Lemma bare_clean c given o :
  guard_w c = true -> occ_bareopt c given o = true -> Forall (fun t => t <> "--") (spell_occ c o).
Proof.
  intros G Os. destruct (guard_w_parts c G) as [Gn _]. destruct (guard_parts_nm c Gn) as [_ [_ [Cl _]]].
  destruct (bare_facts c given o Os) as (a & Na & Lk & Fo & _).
  unfold spell_occ. rewrite Na, Fo. repeat constructor. apply clean_not_ddash. apply Cl.
  eapply in_all_spellings; [exact Na|]. unfold spellings_of. apply in_or_app. left. apply flag_of_in. exact Lk.
Qed.

End Classes.

(** ** Composition with a pending optional-value flag *)

(** no task name or alias starts with "-" (task names come from Python
    identifiers); otherwise "--opt --flag" could be the documented ambiguity
    error "is it a value or a task?" *)
Definition names_plain (cs : list ctxspec) : bool :=
  forallb (fun c => forallb plain (ctx_labels c)) cs.

Lemma names_plain_dash cs t :
  names_plain cs = true -> starts_with "-" t = true -> is_ctx_name cs t = false.
Proof.
  intros Np D. unfold is_ctx_name. destruct (existsb (ctx_named t) cs) eqn:E; [|reflexivity].
  apply existsb_exists in E. destruct E as [c [Hc Nm]].
  unfold names_plain in Np. rewrite forallb_forall in Np. specialize (Np c Hc).
  rewrite forallb_forall in Np.
  assert (Hin : In t (ctx_labels c)).
  { unfold ctx_named in Nm. unfold ctx_labels. destruct (cx_name c) as [n|]; [|discriminate].
    apply orb_true_iff in Nm. destruct Nm as [Nm|Nm].
    - apply String.eqb_eq in Nm. left. exact Nm.
    - right. apply mem_In. exact Nm. }
  specialize (Np t Hin). unfold plain in Np. rewrite D in Np. discriminate.
Qed.

(** the flag part of a token: what precedes the first "=" *)
Definition head_of (t : string) : string :=
  if contains_char "=" t then let '(h, _, _) := partition_char "=" t in h else t.

(** the item's first token is an exact flag of the task ("--flag", "-f"), a
    "flag=value" token, or an inverse flag: what may directly follow a bare
    optional-value flag in the proved fragment *)
Definition head_own (c : ctxspec) (it : item) : bool :=
  match spell_item c it with
  | [] => false
  | t :: _ =>
      starts_with "-" t && clean_flag (head_of t)
      && (match find_flag_spec (cx_args c) (head_of t) with Some _ => true | None => false end
          || (negb (contains_char "=" t)
              && match find (is_inverse_of t) (cx_args c) with Some _ => true | None => false end))
  end.

Lemma presplit_head m t :
  m_unparsed m = [] -> starts_with "-" t = true -> clean_flag (head_of t) = true ->
  exists pushed, presplit m t = Ok (head_of t, pushed) /\
                 (contains_char "=" t = false -> pushed = []).
Proof.
  intros U D C. unfold head_of in *. destruct (contains_char "=" t) eqn:E.
  - unfold presplit, is_flag. rewrite D, U, E. cbn [andb].
    destruct (partition_char "=" t) as [[h b] v]. eexists. split; [reflexivity | discriminate].
  - exists []. split; [apply clean_flag_presplit; assumption | reflexivity].
Qed.

(** the machine between two items of a call: quiescent ([inert]), or pending
    after a bare optional-value flag -- then [cur] is the *logical* context, in
    which the flag already counts as True *)
Inductive Rep (i0 : rctx) (done : list rctx) (cur : rctx) : bool -> machine -> Prop :=
| Rep_inert fl got :
    inert (MS i0 done cur fl got) -> Rep i0 done cur false (MS i0 done cur fl got)
| Rep_pend cur0 i r :
    nth_error (rc_args cur0) i = Some r -> takes_value (r_spec r) = true ->
    a_optional (r_spec r) = true -> r_raw r = false ->
    akind_eqb (a_kind (r_spec r)) KList = false -> has_missing cur0 = false ->
    cur = upd_cur cur0 i (rtrue r) ->
    Rep i0 done cur true (pending i0 done cur0 i false).

Section Compose.
Variable cs : list ctxspec.
(** any parser over [cs] and ANY state [i0] of the initial context: core options
    seen earlier may have modified it (used by C18) *)
Variable p : parser.
Hypothesis Pcs : p_ctxs p = cs.
Variable i0 : rctx.
Hypothesis Pok : parser_ok cs = true.
Hypothesis Npl : names_plain cs = true.

Definition item_ok2 (c : ctxspec) (given : list nat) (it : item) : bool :=
  match it with
  | One o => if is_bare it then occ_bareopt c given o
             else occ_wide cs c given o || occ_dash c given o
  | Cluster l => cluster_ok_w cs c given l
  end.

(** [pend]: the previous item was a bare optional-value flag; [last]: this is
    the last call of the command line (a bare optional flag may end the line,
    but not be followed by a task name: the documented ambiguity error) *)
Fixpoint items_ok2 (c : ctxspec) (given : list nat) (pend last : bool) (items : list item) : bool :=
  match items with
  | [] => end_ok_w c given && (negb pend || last)
  | it :: rest => item_ok2 c given it && (negb pend || head_own c it)
                  && items_ok2 c (item_given2 given it) (is_bare it) last rest
  end.

Definition call_ok2 (last : bool) (k : call) : bool :=
  match nth_error cs (k_task k) with
  | Some c => ctx_named (k_as k) c && plain (k_as k) && guard_w c
              && items_ok2 c [] false last (k_items k)
  | None => false
  end.

Fixpoint calls_ok2 (calls : list call) : bool :=
  match calls with
  | [] => true
  | k :: rest => call_ok2 (match rest with [] => true | _ => false end) k && calls_ok2 rest
  end.

Definition final_ctx2 (k : call) : rctx :=
  match nth_error cs (k_task k) with
  | Some c => with_args (init_ctx c) (fold_left run_item2 (k_items k) (map init_arg (cx_args c)))
  | None => mkRCtx None [] []
  end.

(** *** one item *)
Lemma item_steps_inert c given it done cur fl got :
  guard_w c = true -> item_ok2 c given it = true ->
  Inv_w c given (rc_args cur) -> inert (MS i0 done cur fl got) ->
  exists m',
    steps p (MS i0 done cur fl got) (spell_item c it) m' /\
    Rep i0 done (with_args cur (run_item2 (rc_args cur) it)) (is_bare it) m' /\
    Inv_w c (item_given2 given it) (run_item2 (rc_args cur) it).
Proof.
  intros G Ok' Iw I. destruct it as [o|l].
  - cbn [item_ok2] in Ok'. cbn [run_item2 item_given2 spell_item].
    destruct (is_bare (One o)) eqn:B.
    + destruct (bare_steps p i0 c given o done cur fl got G Ok' Iw I)
        as (r & Nr & Tv & Op & Raw & Nl & Hm & S & E & Iw').
      exists (pending i0 done cur (o_arg o) false). split; [exact S|]. split; [|exact Iw'].
      rewrite E. eapply Rep_pend; eauto.
    + apply orb_true_iff in Ok'. destruct Ok' as [Ok'|Ok'].
      * destruct (one_steps cs p Pcs i0 c given o done cur fl got G Ok' Iw I) as (fl' & got' & S & I' & Iw').
        eexists. split; [exact S|]. split; [constructor; exact I' | exact Iw'].
      * destruct (one_steps_dash p i0 c given o done cur fl got G Ok' Iw I) as (fl' & got' & S & I' & Iw').
        eexists. split; [exact S|]. split; [constructor; exact I' | exact Iw'].
  - cbn [item_ok2] in Ok'. cbn [run_item2 item_given2 is_bare].
    destruct (cluster_steps cs p Pcs i0 c given l done cur fl got G Ok' Iw I) as (fl' & got' & S & I' & Iw').
    eexists. split; [exact S|]. split; [constructor; exact I' | exact Iw'].
Qed.

(** from the pending state, a token whose head is an own flag does what it does
    from the resolved state *)
Lemma pending_transfer c done cur0 i r t rest m' :
  nth_error (rc_args cur0) i = Some r -> takes_value (r_spec r) = true ->
  a_optional (r_spec r) = true -> r_raw r = false ->
  akind_eqb (a_kind (r_spec r)) KList = false -> has_missing cur0 = false ->
  map r_spec (rc_args cur0) = cx_args c ->
  starts_with "-" t = true -> clean_flag (head_of t) = true ->
  (match find_flag_spec (cx_args c) (head_of t) with Some _ => true | None => false end
   || (negb (contains_char "=" t)
       && match find (is_inverse_of t) (cx_args c) with Some _ => true | None => false end)) = true ->
  steps p (resolved i0 done cur0 i r false) (t :: rest) m' ->
  steps p (pending i0 done cur0 i false) (t :: rest) m'.
Proof.
  intros Nr Tv Op Raw Nl Hm Sh D C F St.
  inversion St as [|m0 t' rest' m1 pushed m'' S1 S2]; subst.
  econstructor; [|exact S2]. rewrite <- S1.
  destruct (presplit_head (resolved i0 done cur0 i r false) t eq_refl D C) as [pu [Ps Pe]].
  apply (step_pending p i0 done cur0 i r Nr Tv Op Raw Nl Hm false t (head_of t, pu) Ps).
  - cbn [fst]. apply names_plain_dash; [exact Npl|].   (* [subst] above replaced cs by p_ctxs p *)
    unfold clean_flag in C. rewrite !andb_true_iff in C. tauto.
  - cbn [fst]. apply orb_true_iff in F. destruct F as [F|F].
    + left. unfold ctx_has_flag. rewrite find_flag_args, Sh.
      destruct (find_flag_spec (cx_args c) (head_of t)); [reflexivity | discriminate].
    + right. apply andb_true_iff in F. destruct F as [Ne Fi]. rewrite negb_true_iff in Ne.
      assert (Ht : head_of t = t) by (unfold head_of; rewrite Ne; reflexivity).
      rewrite (Pe Ne), Ht. split; [reflexivity|].
      unfold ctx_has_inverse, find_inverse.
      pose proof (find_map_spec (rc_args cur0) (is_inverse_of t)) as E. rewrite Sh in E.
      destruct (find (is_inverse_of t) (cx_args c)); [|discriminate].
      destruct (find (fun r0 => is_inverse_of t (r_spec r0)) (rc_args cur0)); [reflexivity | discriminate E].
Qed.

Lemma item_steps2 c given pend it done cur m :
  guard_w c = true -> item_ok2 c given it = true ->
  (pend = true -> head_own c it = true) ->
  Inv_w c given (rc_args cur) -> Rep i0 done cur pend m ->
  exists m',
    steps p m (spell_item c it) m' /\
    Rep i0 done (with_args cur (run_item2 (rc_args cur) it)) (is_bare it) m' /\
    Inv_w c (item_given2 given it) (run_item2 (rc_args cur) it).
Proof.
  intros G Ok' Ho Iw R. destruct R as [fl got I | cur0 i r Nr Tv Op Raw Nl Hm E].
  - apply item_steps_inert; auto.
  - specialize (Ho eq_refl). subst cur.
    pose proof (resolved_inert i0 done cur0 i r Nr Op Nl false) as Ir.
    destruct (item_steps_inert c given it done (upd_cur cur0 i (rtrue r))
                (Some (S (List.length done), i)) false G Ok' Iw Ir) as (m' & S & R' & Iw').
    exists m'. split; [|auto].
    unfold head_own in Ho. destruct (spell_item c it) as [|t rest] eqn:Sp; [discriminate|].
    rewrite !andb_true_iff in Ho. destruct Ho as [[D C] F].
    assert (Sh : map r_spec (rc_args cur0) = cx_args c).
    { destruct Iw as [St _]. pose proof (sn_shape _ _ _ St) as Sh'.
      unfold upd_cur, with_args in Sh'. cbn [rc_args] in Sh'.
      rewrite (map_upd_same r_spec i (rtrue r) r (rc_args cur0) Nr eq_refl) in Sh'. exact Sh'. }
    eapply pending_transfer; eauto.
Qed.

Lemma item_vals2 c given it args os :
  guard_w c = true -> item_ok2 c given it = true -> Inv_w c given args ->
  vals_ok os args -> vals_ok (os ++ occs_of it) (run_item2 args it).
Proof.
  intros G Ok' Iw V. destruct it as [o|l]; cbn [item_ok2 occs_of run_item2] in *.
  - destruct (is_bare (One o)).
    + destruct Iw as [St _]. exact (bare_vals c given o args os Ok' (sn_shape _ _ _ St) V).
    + apply orb_true_iff in Ok'. destruct Ok' as [Ok'|Ok'].
      * exact (one_vals cs c given o args os G Ok' Iw V).
      * exact (one_vals_dash c given o args os G Ok' Iw V).
  - exact (cluster_vals cs p Pcs i0 c given l args os G Ok' Iw V).
Qed.

Lemma item_clean2 c given it :
  guard_w c = true -> item_ok2 c given it = true ->
  Forall (fun t => t <> "--") (spell_item c it).
Proof.
  intros G Ok'. destruct it as [o|l]; cbn [item_ok2] in *.
  - cbn [spell_item]. destruct (is_bare (One o)).
    + exact (bare_clean c given o G Ok').
    + apply orb_true_iff in Ok'. destruct Ok' as [Ok'|Ok'].
      * exact (one_clean cs c given o G Ok').
      * exact (one_clean_dash c given o G Ok').
  - exact (cluster_clean cs c given l G Ok').
Qed.

(** *** the items of one call *)
Lemma items_steps2 c last : forall items given pend done cur m os,
  guard_w c = true -> items_ok2 c given pend last items = true ->
  Inv_w c given (rc_args cur) -> vals_ok os (rc_args cur) -> Rep i0 done cur pend m ->
  exists m' given' pend',
    let args' := fold_left run_item2 items (rc_args cur) in
    steps p m (flat_map (spell_item c) items) m' /\
    Rep i0 done (with_args cur args') pend' m' /\ (pend' = true -> last = true) /\
    Inv_w c given' args' /\ end_ok_w c given' = true /\
    vals_ok (os ++ flat_map occs_of items) args'.
Proof.
  induction items as [|it items IH]; intros given pend done cur m os G Is Iw V R.
  - exists m, given, pend. cbn [fold_left flat_map]. rewrite app_nil_r.
    replace (with_args cur (rc_args cur)) with cur by (destruct cur; reflexivity).
    cbn [items_ok2] in Is. apply andb_true_iff in Is. destruct Is as [En Pl].
    split; [apply steps_nil|]. split; [exact R|]. split; [|auto].
    intros ->. exact Pl.
  - cbn [items_ok2] in Is. rewrite !andb_true_iff in Is. destruct Is as [[Ok' Ho] Is].
    assert (Ho' : pend = true -> head_own c it = true) by (intros ->; exact Ho).
    destruct (item_steps2 c given pend it done cur m G Ok' Ho' Iw R) as (m1 & S1 & R1 & Iw1).
    pose proof (item_vals2 c given it (rc_args cur) os G Ok' Iw V) as V1.
    set (cur1 := with_args cur (run_item2 (rc_args cur) it)) in *.
    destruct (IH (item_given2 given it) (is_bare it) done cur1 m1 (os ++ occs_of it) G Is Iw1 V1 R1)
      as (m2 & given2 & pend2 & S2 & R2 & Pl2 & Iw2 & En2 & V2).
    exists m2, given2, pend2. cbn [flat_map fold_left].
    unfold cur1 in *. cbn [rc_args with_args] in *.
    split; [eapply steps_app; eauto|]. split; [exact R2|]. split; [exact Pl2|].
    split; [exact Iw2|]. split; [exact En2|].
    rewrite <- app_assoc in V2. exact V2.
Qed.

Lemma call_items2 k c last done fl got :
  nth_error cs (k_task k) = Some c -> call_ok2 last k = true ->
  inert (MS i0 done (init_ctx c) fl got) ->
  exists m' pend,
    steps p (MS i0 done (init_ctx c) fl got) (flat_map (spell_item c) (k_items k)) m' /\
    Rep i0 done (final_ctx2 k) pend m' /\ (pend = true -> last = true) /\
    has_missing (final_ctx2 k) = false /\
    obs_of_ctx (final_ctx2 k) = expected_call cs k.
Proof.
  intros N Cs I. unfold call_ok2 in Cs. rewrite N in Cs. rewrite !andb_true_iff in Cs.
  destruct Cs as [[[Nm Pl] G] Is].
  destruct (guard_w_parts c G) as [Gn _]. destruct (guard_parts_nm c Gn) as [_ [_ [_ Ld]]].
  assert (V0 : vals_ok [] (map init_arg (cx_args c))).
  { intros j r Nj. apply nth_error_In in Nj. apply in_map_iff in Nj. destruct Nj as [a [<- Ha]].
    simpl. apply init_arg_value. now apply Ld. }
  destruct (items_steps2 c last (k_items k) [] false done (init_ctx c) _ [] G Is (Inv_w_init c G)
                         V0 (Rep_inert i0 done (init_ctx c) fl got I))
    as (m' & given' & pend' & S & R & Pl' & Iw & En & V).
  cbn zeta in *. cbn [rc_args init_ctx] in *.
  assert (E : with_args (init_ctx c) (fold_left run_item2 (k_items k) (map init_arg (cx_args c)))
              = final_ctx2 k).
  { unfold final_ctx2. rewrite N. reflexivity. }
  change (mkRCtx (cx_name c) (cx_aliases c) (map init_arg (cx_args c))) with (init_ctx c) in *.
  rewrite E in *.
  pose proof Iw as [St _]. pose proof (sn_shape _ _ _ St) as Sh.
  exists m', pend'. split; [exact S|]. split; [exact R|]. split; [exact Pl'|]. split.
  - rewrite <- E. apply has_missing_with_args.
    apply (no_missing_of_end c given' _ G Iw). apply opt_nat_eqb_eq. exact En.
  - unfold obs_of_ctx, expected_call. rewrite N. rewrite <- E.
    unfold with_args. cbn [rc_name init_ctx]. f_equal.
    rewrite as_kwargs_nodup.
    + apply kwargs_expected; [exact Sh|].
      intros j r Nj. simpl in V. rewrite (V j r Nj). cbn [plus].
      symmetry. unfold call_occs. apply value_after_vafter. intros _ K.
      apply declared_default_list; [|exact K].
      apply Ld. apply nth_error_In in Nj. rewrite <- Sh. apply in_map. exact Nj.
    + assert (Nd : nodupb (map arg_name (cx_args c)) = true).
      { unfold ctx_guard_nm in Gn. rewrite !andb_true_iff in Gn. tauto. }
      rewrite <- Sh in Nd. rewrite map_map in Nd. exact Nd.
Qed.

(** *** the remaining calls *)
Lemma calls_after : forall rest done cur pend m,
  Rep i0 done cur pend m -> (pend = true -> rest = []) -> has_missing cur = false ->
  calls_ok2 rest = true ->
  exists m' dn cu pend',
    steps p m (spell cs rest) m' /\ Rep i0 dn cu pend' m' /\ has_missing cu = false /\
    dn ++ [cu] = done ++ cur :: map final_ctx2 rest /\
    Forall2 (fun k o => o = expected_call cs k) rest (map (fun k => obs_of_ctx (final_ctx2 k)) rest).
Proof.
  induction rest as [|k rest IH]; intros done cur pend m R Pe Hm Cs.
  - exists m, done, cur, pend. cbn. split; [apply steps_nil|]. auto.
  - destruct pend; [specialize (Pe eq_refl); discriminate Pe|].
    inversion R as [fl got I Eb Em|]; subst.
    cbn [calls_ok2] in Cs. apply andb_true_iff in Cs. destruct Cs as [Ck Cr].
    pose proof Ck as Ck'. unfold call_ok2 in Ck'.
    destruct (nth_error cs (k_task k)) as [c|] eqn:N; [|discriminate].
    rewrite !andb_true_iff in Ck'. destruct Ck' as [[[Nm Pl] G] Is].
    unfold plain in Pl. rewrite negb_true_iff in Pl.
    assert (Fc : find_ctx (p_ctxs p) (k_as k) = Some c)
      by (rewrite Pcs; exact (named_find cs (mkCtx None [] []) Pok k c N Nm)).
    pose proof (step_task_name p i0 done cur fl got (k_as k) c I Hm Pl Fc) as S0.
    assert (I1 : inert (MS i0 (done ++ [cur]) (init_ctx c) fl got)) by (apply inert_snoc; exact I).
    destruct (call_items2 k c _ (done ++ [cur]) fl got N Ck I1) as (m1 & pend1 & S1 & R1 & Pl1 & Hm1 & Ob).
    assert (Pe1 : pend1 = true -> rest = []).
    { intros X. specialize (Pl1 X). destruct rest; [reflexivity | discriminate Pl1]. }
    destruct (IH (done ++ [cur]) (final_ctx2 k) pend1 m1 R1 Pe1 Hm1 Cr)
      as (m2 & dn & cu & pend2 & S2 & R2 & Hm2 & E2 & Fa).
    exists m2, dn, cu, pend2. split.
    + unfold spell. cbn [flat_map]. unfold spell_call at 1. rewrite N. cbn [app].
      econstructor; [exact S0|]. cbn [app]. eapply steps_app; [exact S1 | exact S2].
    + split; [exact R2|]. split; [exact Hm2|]. split.
      * rewrite E2. cbn [map]. rewrite <- app_assoc. reflexivity.
      * cbn [map]. constructor; [exact Ob | exact Fa].
Qed.

Lemma finish_Rep dn cu pend m :
  Rep i0 dn cu pend m -> has_missing cu = false ->
  exists m', finish m = Ok m' /\ result_ctxs m' = i0 :: dn ++ [cu] /\ m_unparsed m' = [].
Proof.
  intros R Hm. destruct R as [fl got I | cur0 i r Nr Tv Op Raw Nl Hm0 E].
  - apply finish_MS; assumption.
  - subst cu. rewrite (finish_pending i0 dn cur0 i r Nr Tv Op Raw Nl false).
    apply (finish_MS i0 dn (upd_cur cur0 i (rtrue r)) (Some (S (List.length dn), i)) false);
      [exact (resolved_inert i0 dn cur0 i r Nr Op Nl false) | exact Hm].
Qed.

Lemma items_clean2 c last : forall items given pend,
  guard_w c = true -> items_ok2 c given pend last items = true ->
  Forall (fun t => t <> "--") (flat_map (spell_item c) items).
Proof.
  induction items as [|it items IH]; intros given pend G Is; [constructor|].
  cbn [items_ok2] in Is. rewrite !andb_true_iff in Is. destruct Is as [[Ok' _] Is].
  cbn [flat_map]. apply Forall_app. split; [eapply item_clean2; eauto | eapply IH; eauto].
Qed.

Lemma spell_clean2 : forall inv,
  calls_ok2 inv = true -> Forall (fun t => t <> "--") (spell cs inv).
Proof.
  induction inv as [|k rest IH]; intros H; [constructor|].
  cbn [calls_ok2] in H. apply andb_true_iff in H. destruct H as [Ck Cr].
  unfold spell. cbn [flat_map]. apply Forall_app. split; [|apply IH; exact Cr].
  unfold call_ok2 in Ck. unfold spell_call.
  destruct (nth_error cs (k_task k)) as [c|]; [|discriminate].
  rewrite !andb_true_iff in Ck. destruct Ck as [[[_ Pl] G] Is].
  constructor; [apply plain_not_ddash; exact Pl|]. eapply items_clean2; eauto.
Qed.

End Compose.

Section Final.
Variable cs : list ctxspec.
Variable ic : ctxspec.
Let p := mkP cs (Some ic) false.
Let i0 := init_ctx ic.
Hypothesis Pok : parser_ok cs = true.
Hypothesis Npl : names_plain cs = true.

Definition guard_wide2 (inv : invocation) : bool :=
  parser_ok cs && names_plain cs && negb (has_missing (init_ctx ic))
  && match inv with [] => false | _ => true end
  && calls_ok2 cs inv.

(** *** the round trip *)
Theorem spell_roundtrip_widest2 inv :
  guard_wide2 inv = true ->
  exists r,
    parser_parse cs (Some ic) false (spell cs inv) = Ok r /\
    hd_error (pr_ctxs r) = Some (init_ctx ic) /\
    map obs_of_ctx (tl (pr_ctxs r)) = expected cs inv /\
    pr_unparsed r = [] /\ pr_remainder r = "".
Proof.
  unfold guard_wide2. rewrite !andb_true_iff, negb_true_iff.
  intros [[[[_ _] Hi] Ne] Cs].
  destruct inv as [|k rest]; [discriminate|]. clear Ne.
  pose proof (spell_clean2 cs (k :: rest) Cs) as Cl.
  cbn [calls_ok2] in Cs. apply andb_true_iff in Cs. destruct Cs as [Ck Cr].
  pose proof Ck as Ck'. unfold call_ok2 in Ck'.
  destruct (nth_error cs (k_task k)) as [c|] eqn:N; [|discriminate].
  rewrite !andb_true_iff in Ck'. destruct Ck' as [[[Nm Pl] G] Is].
  unfold plain in Pl. rewrite negb_true_iff in Pl.
  pose proof (step_first_task p i0 (k_as k) c Hi Pl (named_find cs ic Pok k c N Nm)) as S0.
  assert (I0 : inert (MS i0 [] (init_ctx c) None false)) by exact Logic.I.
  destruct (call_items2 cs p eq_refl i0 Pok Npl k c _ [] None false N Ck I0) as (m1 & pend1 & S1 & R1 & Pl1 & Hm1 & Ob1).
  assert (Pe1 : pend1 = true -> rest = []).
  { intros X. specialize (Pl1 X). destruct rest; [reflexivity | discriminate Pl1]. }
  destruct (calls_after cs p eq_refl i0 Pok Npl rest [] (final_ctx2 cs k) pend1 m1 R1 Pe1 Hm1 Cr)
    as (m2 & dn & cu & pend2 & S2 & R2 & Hm2 & E2 & Fa).
  destruct (finish_Rep i0 dn cu pend2 m2 R2 Hm2) as [m' [Fi [Rc Un]]].
  assert (St : steps p (M0 i0) (spell cs (k :: rest)) m2).
  { unfold spell. cbn [flat_map]. unfold spell_call at 1. rewrite N. cbn [app].
    econstructor; [exact S0|]. cbn [app]. eapply steps_app; [exact S1 | exact S2]. }
  pose proof (split_ddash_clean _ Cl) as Sd.
  assert (St' : steps p (M0 i0) (fst (split_ddash (spell cs (k :: rest)))) m2)
    by (rewrite Sd; exact St).
  pose proof (steps_parse p (spell cs (k :: rest)) (M0 i0) _ m'
                          (new_machine_M0 cs ic false Hi) St' Fi) as P.
  rewrite Sd in P. cbn [snd join] in P.
  eexists. split; [|split; [|split; [|split]]].
  - unfold parser_parse. rewrite Pok. exact P.
  - cbn [pr_ctxs]. rewrite Rc. reflexivity.
  - cbn [pr_ctxs]. rewrite Rc. cbn [tl]. rewrite E2.
    cbn [app map expected]. unfold expected. cbn [map]. f_equal; [exact Ob1|].
    rewrite map_map. apply (forall2_map_eq (expected_call cs) (fun k => obs_of_ctx (final_ctx2 cs k))).
    exact Fa.
  - cbn [pr_unparsed]. exact Un.
  - reflexivity.
Qed.

End Final.

(** non-vacuity: a bare optional-value flag followed by an own flag
    ("--log --no-clean"), dash-leading values in all three spellings
    ("--out-dir -x", "-e=--all", "--exclude -", "-o-y"), and a bare optional-value
    flag ending the line *)
Definition ex_inv2 : invocation :=
  [mkCall 1 "test" [One (mkOcc 0 1 FEq (VS "--all")); One (mkOcc 0 0 FNext (VS "-"));
                    One (mkOcc 1 0 FBare (VB true))];
   mkCall 0 "build" [One (mkOcc 0 0 FPos (VS "thing")); One (mkOcc 4 0 FBare VT);
                     One (mkOcc 3 0 FInv (VB false)); One (mkOcc 2 0 FNext (VS "-x"));
                     Cluster [mkOcc 1 1 FStack (VN 2); mkOcc 5 1 FNext (VS "8")]];
   mkCall 0 "b" [One (mkOcc 0 0 FPos (VS "other")); One (mkOcc 2 1 FGlued (VS "-y"));
                 One (mkOcc 4 1 FBare VT)]].

Example widest2_example :
  guard_wide2 [ex_build; ex_test] core_ctx ex_inv2 = true /\
  spell [ex_build; ex_test] ex_inv2 =
    ["test"; "-e=--all"; "--exclude"; "-"; "--fast";
     "build"; "thing"; "--log"; "--no-clean"; "--out-dir"; "-x"; "-vvj"; "8";
     "b"; "other"; "-o-y"; "-l"] /\
  expected [ex_build; ex_test] ex_inv2 =
    [(Some "test", [("exclude", AList ["--all"; "-"]); ("fast", ABool true)]);
     (Some "build", [("name", AStr "thing"); ("verbose", AInt 2); ("out_dir", AStr "-x");
                     ("clean", ABool false); ("log", ABool true); ("jobs", AInt 8)]);
     (Some "build", [("name", AStr "other"); ("verbose", AInt 0); ("out_dir", AStr "-y");
                     ("clean", ABool true); ("log", ABool true); ("jobs", AInt 1)])].
Proof. repeat split; vm_compute; reflexivity. Qed.

(** the new guard accepts everything the previous one did (given plain task names) *)
Lemma wide_not_bare cs c given o : occ_wide cs c given o = true -> is_bare (One o) = false.
Proof.
  unfold is_bare. destruct (o_form o) eqn:Fo; try reflexivity.
  destruct (o_val o) eqn:Vo; try reflexivity.
  unfold occ_wide, occ_simple, occ_glued, occ_counter, occ_pos_w, C01_form_pos.occ_positional, occ_optval.
  rewrite Fo, Vo. destruct (nth_error (cx_args c) (o_arg o)); cbn; rewrite ?andb_false_r; discriminate.
Qed.

Lemma items_ok_x_2 cs c last : forall items given,
  items_ok_g end_ok_w (item_ok_x cs) item_given_x c given items = true ->
  items_ok2 cs c given false last items = true.
Proof.
  induction items as [|it items IH]; intros given H; cbn [items_ok_g items_ok2] in *.
  - rewrite H. reflexivity.
  - apply andb_true_iff in H. destruct H as [Ok' Is].
    assert (B : is_bare it = false).
    { destruct it as [o|l]; [|reflexivity]. eapply wide_not_bare; exact Ok'. }
    assert (E : item_given2 given it = item_given_x given it).
    { destruct it as [o|l]; [|reflexivity]. cbn [item_given2 item_given_x]. rewrite B. reflexivity. }
    rewrite B, E, (IH _ Is). cbn [negb orb]. rewrite !andb_true_r.
    destruct it as [o|l]; cbn [item_ok2 item_ok_x] in *; [|exact Ok'].
    rewrite B, Ok'. reflexivity.
Qed.

Lemma guard_wide_x_2 cs ic inv :
  names_plain cs = true -> guard_wide_x cs ic inv = true -> guard_wide2 cs ic inv = true.
Proof.
  intros Np. unfold guard_wide_x, guard_g, guard_wide2. rewrite !andb_true_iff.
  intros [[[Pok Hi] Ne] Cs]. repeat split; auto.
  clear Ne. induction inv as [|k rest IH]; [reflexivity|].
  cbn [forallb] in Cs. apply andb_true_iff in Cs. destruct Cs as [Ck Cr].
  cbn [calls_ok2]. rewrite (IH Cr), andb_true_r.
  unfold call_ok_g in Ck. unfold call_ok2. destruct (nth_error cs (k_task k)) as [c|]; [|discriminate].
  rewrite !andb_true_iff in Ck. destruct Ck as [[[Nm Pl] G] Is].
  rewrite Nm, Pl, G. cbn [andb]. apply items_ok_x_2. exact Is.
Qed.

Lemma guard_wide2_parser_ok cs ic inv : guard_wide2 cs ic inv = true -> parser_ok cs = true.
Proof. unfold guard_wide2. rewrite !andb_true_iff. tauto. Qed.

Lemma guard_wide2_names_plain cs ic inv : guard_wide2 cs ic inv = true -> names_plain cs = true.
Proof. unfold guard_wide2. rewrite !andb_true_iff. tauto. Qed.

(** the theorem with its hypotheses read off the guard *)
Theorem spell_roundtrip_widest2_closed cs ic inv :
  guard_wide2 cs ic inv = true ->
  exists r, parser_parse cs (Some ic) false (spell cs inv) = Ok r /\
            hd_error (pr_ctxs r) = Some (init_ctx ic) /\
            map obs_of_ctx (tl (pr_ctxs r)) = expected cs inv /\
            pr_unparsed r = [] /\ pr_remainder r = "".
Proof.
  intros G.
  exact (spell_roundtrip_widest2 cs ic (guard_wide2_parser_ok cs ic inv G)
           (guard_wide2_names_plain cs ic inv G) inv G).
Qed.
