(** C11: cloning into a subclass whose [global_defaults()] agree with the
    original's defaults at every path both define: whenever the clone is made,
    it reads like its original at every setting the original shows (it may show
    more: the subclass' own defaults). *)
From InvokeVerif Require Import Common.Tree Common.StrUtil Model.MergeModel Model.ConfigModel
     Spec.C03Spec Proofs.ListFacts Proofs.TreeFacts Proofs.C03_merge Proofs.C03_levels
     Proofs.C03_order Proofs.C06_shapes Proofs.C16_view_shapes Proofs.C11_clone.

(** What the subclass says about a setting the original's defaults also define
    is the same (leaf with the same value, or a section in both). *)
Definition agrees_with (g d : tree) : Prop :=
  forall p s s', shape_at p g = Some s -> shape_at p d = Some s' -> s = s'.

Lemma agrees_agree g d : agrees_with g d -> agree d g.
Proof.
  intros H p. destruct (shape_at p d) as [s'|] eqn:Ed; [|exact I].
  destruct (shape_at p g) as [s|] eqn:Eg; [|destruct s' as [?|]; exact I].
  rewrite (H p s s' Eg Ed). apply kind_ok_refl.
Qed.

(** The view of a state whose levels are well-formed dicts, whenever the merge
    succeeds: what the oracle says over the ten levels, minus the deletions. *)
Lemma view_shapes c d :
  forallb wf_node [c_defaults c; c_collection c; c_system c; c_user c; c_project c; c_env c;
                   c_runtime c; c_overrides c; Node (c_mods c); Node (c_dels c)] = true ->
  forallb wf_node (levels_of c) = true ->
  merge c = Ok d ->
  forall p, p <> [] ->
    shape_at p (Node d) = if masked (c_dels c) p then None else oracle p (levels_of c).
Proof.
  intros Hall Hlv Hm p Hp.
  assert (Hl : forall l, In l (levels_of c) -> wf l = true /\ is_node l = true).
  { intros l Hin. rewrite forallb_forall in Hlv. specialize (Hlv l Hin). apply wf_node_inv in Hlv. tauto. }
  assert (WD : wf (Node (c_dels c)) = true).
  { simpl in Hall. repeat (apply andb_true_iff in Hall as [?H Hall]).
    apply wf_node_inv in H8. tauto. }
  unfold merge, merge_levels in Hm.
  destruct (merge_all (levels_of c) []) as [X|e] eqn:EX; [|discriminate].
  inversion Hm; subst d. clear Hm.
  destruct (merge_all_agree (levels_of c) [] X eq_refl Hl EX) as [_ Hpair].
  destruct (merge_all_oracle (levels_of c) Hl Hpair) as [m [Em [Wm Sm]]].
  rewrite EX in Em. inversion Em; subst m.
  destruct (obliterate_shape_dict (c_dels c) X WD Wm) as [_ So].
  rewrite So, (Sm p Hp). reflexivity.
Qed.

Theorem clone_into_partial : forall fs c g cl,
  clone_guard c = true -> wf_node g = true -> agrees_with g (c_defaults c) ->
  clone fs c (Some g) = (cl, ONone) ->
  forall p, shape_at p (Node (c_cache c)) <> None ->
    shape_at p (Node (c_cache cl)) = shape_at p (Node (c_cache c)).
Proof.
  intros fs c g cl H Hg Hag Hcl p Hdef.
  destruct p as [|k0 p0]; [reflexivity|]. set (p := k0 :: p0) in *.
  assert (Hp : p <> []) by discriminate.
  pose proof H as Hguard.
  unfold clone_guard, state_ok, base_loaded in H.
  apply andb_true_iff in H as [H Hb]. apply andb_true_iff in H as [Hl Hc].
  apply andb_true_iff in Hb as [Hs Hu].
  apply result_dict_eqb_eq in Hc.
  pose proof Hl as Hall.
  simpl in Hl. repeat (apply andb_true_iff in Hl as [?H Hl]).
  apply wf_node_inv in H, H0, H1, H2, H3, H4, H5, H6, H7, H8.
  destruct H as [? ?], H0 as [? ?], H1 as [? ?], H2 as [? ?], H3 as [? ?], H4 as [? ?],
           H5 as [? ?], H6 as [? ?], H7 as [? ?], H8 as [? ?].
  apply wf_node_inv in Hg as [Ng Wg].
  (* the original's view *)
  assert (Hlv : forallb wf_node (levels_of c) = true).
  { unfold levels_of, level_list, file_part. cbn [map snd forallb].
    destruct (c_sys_found c), (c_user_found c), (c_proj_found c), (c_rt_found c);
      unfold wf_node; rewrite ?H, ?H9, ?H0, ?H10, ?H1, ?H11, ?H2, ?H12, ?H3, ?H13, ?H4, ?H14, ?H5, ?H15,
        ?H6, ?H16, ?H7, ?H17, ?H18; reflexivity. }
  pose proof (view_shapes c (c_cache c) Hall Hlv Hc p Hp) as Vo.
  (* the clone *)
  unfold clone in Hcl.
  destruct (c_defaults c) as [v|dk] eqn:Ed; [discriminate|].
  rewrite (copy_dict_identity dk) in Hcl by assumption.
  destruct g as [gv|gk]; [discriminate|].
  destruct (merge_lookup dk gk H9 Wg (agrees_agree _ _ Hag)) as [m [Em [Wm Sm]]].
  rewrite Em in Hcl.
  rewrite !copy_tree_identity in Hcl by assumption. cbn [bind] in Hcl.
  rewrite (copy_dict_identity (c_mods c)) in Hcl by assumption.
  rewrite (copy_dict_identity (c_dels c)) in Hcl by assumption. cbn [bind] in Hcl.
  unfold load_system, load_user, load_located in Hcl. cbn [c_sys_found c_user_found] in Hcl.
  set (n := mkCfg (Node m) (c_collection c) (c_system c) (c_user c) (c_project c) (c_env c)
                  (c_runtime c) (c_overrides c) (c_mods c) (c_dels c)
                  (c_sys_found c) (c_user_found c) (c_proj_found c) (c_rt_found c)
                  (c_sys_loc c) (c_user_loc c) (c_proj_loc c) (c_rt_path c)
                  (c_sys_sfx c) (c_user_sfx c) (c_proj_sfx c) (c_env_prefix c) []) in *.
  assert (Hre : remerge n ONone = (cl, ONone)).
  { destruct (c_sys_found c) eqn:Esf; [discriminate| |];
      cbn [c_sys_found c_user_found fst snd] in Hcl;
      (destruct (c_user_found c) eqn:Euf; [discriminate| |]);
      cbn [c_sys_found c_user_found fst snd] in Hcl; exact Hcl. }
  unfold remerge in Hre. destruct (merge n) as [d'|e] eqn:En; [|discriminate].
  inversion Hre; subst cl. clear Hre Hcl.
  change (c_cache (set_cache n d')) with d'.
  assert (Halln : forallb wf_node [c_defaults n; c_collection n; c_system n; c_user n; c_project n; c_env n;
                                   c_runtime n; c_overrides n; Node (c_mods n); Node (c_dels n)] = true).
  { unfold n. cbn [c_defaults c_collection c_system c_user c_project c_env c_runtime c_overrides
                   c_mods c_dels forallb]. unfold wf_node. cbn [is_node]. rewrite Wm.
    rewrite ?H0, ?H10, ?H1, ?H11, ?H2, ?H12, ?H3, ?H13, ?H4, ?H14, ?H5, ?H15, ?H6, ?H16, ?H7, ?H17, ?H18.
    reflexivity. }
  assert (Hlvn : forallb wf_node (levels_of n) = true).
  { unfold levels_of, level_list, file_part, n. cbn [map snd forallb c_defaults c_collection c_system
      c_user c_project c_env c_runtime c_overrides c_mods c_sys_found c_user_found c_proj_found c_rt_found].
    destruct (c_sys_found c), (c_user_found c), (c_proj_found c), (c_rt_found c);
      unfold wf_node; cbn [is_node]; rewrite ?Wm, ?H0, ?H10, ?H1, ?H11, ?H2, ?H12, ?H3, ?H13, ?H4, ?H14,
        ?H5, ?H15, ?H6, ?H16, ?H7, ?H17, ?H18; reflexivity. }
  pose proof (view_shapes n d' Halln Hlvn En p Hp) as Vn.
  change (c_dels n) with (c_dels c) in Vn.
  rewrite Vn. rewrite Vo in Hdef |- *.
  destruct (masked (c_dels c) p); [contradiction Hdef; reflexivity|].
  (* levels: only the first one differs *)
  assert (El : levels_of n = Node m :: tl (levels_of c)) by reflexivity.
  assert (Ec : levels_of c = Node dk :: tl (levels_of c)).
  { unfold levels_of, level_list. cbn [map snd tl]. rewrite Ed. reflexivity. }
  remember (tl (levels_of c)) as rest eqn:Erest. clear Erest.
  rewrite El. rewrite Ec in Hdef |- *. rewrite !oracle_cons in *.
  destruct (oracle p rest) as [s|]; [reflexivity|]. cbn [orelse] in *.
  rewrite Sm. destruct (shape_at p (Node dk)) as [s'|] eqn:Es'; [|contradiction Hdef; reflexivity].
  destruct (shape_at p (Node gk)) as [s|] eqn:Es; [|reflexivity]. cbn [orelse].
  rewrite (Hag p s s' Es Es'). reflexivity.
Qed.
