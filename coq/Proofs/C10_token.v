(** C10: from the agreement on names to the whole judgement of a token
    (per-task help; the invocation without any task). *)
From InvokeVerif Require Import Model.CollModel Spec.C17Spec Spec.C10Spec Corr.C10Corr.
From InvokeVerif Require Import Proofs.C17_merge Proofs.C17_path.

(** per-task help follows from the agreement on names *)
Lemma help_from_names c n :
  n <> "" -> name_ok (c_auto_dash c) n (model_nobs c n) = true -> help_ok (model_nobs c n) = true.
Proof.
  intros Hne H. apply String.eqb_neq in Hne.
  unfold name_ok, help_ok, model_nobs, accepted, cli_run, cli_help in *.
  cbn [o_contains o_getitem o_parser o_ran o_help] in *. rewrite Hne in *. unfold cli_token in H.
  destruct (parser_of c) as [r|e].
  - destruct (preg_primary r n) as [p|].
    + apply andb_true_iff in H as [_ H].
      destruct (getitem c p) as [tp|]; [|discriminate].
      destruct (getitem c n) as [t|]; [|discriminate].
      cbn. apply Nat.eqb_refl.
    + reflexivity.
  - apply andb_true_iff in H as [_ H]. discriminate.
Qed.

(** looking the empty name up is looking the default up *)
Lemma getitem_empty n tasks aliases subs dflt ad cfg :
  getitem (Coll n tasks aliases subs dflt ad cfg) "" =
  match copy_dict (Node cfg) with
  | Err e => Err e
  | Ok _ =>
      match dflt with
      | Some d => if String.eqb d "" then Err EValue
                  else getitem (Coll n tasks aliases subs dflt ad cfg) d
      | None => Err EValue
      end
  end.
Proof.
  destruct dflt as [d|]; unfold getitem; rewrite !twc_unfold; unfold twc_step; cbn [String.eqb];
    destruct (copy_dict (Node cfg)) as [ours|e]; try reflexivity.
  destruct (String.eqb d "") eqn:E; reflexivity.
Qed.

(** without any task on the command line the default task -- the task lookup
    of the empty name returns -- runs, and nothing when there is none *)
Lemma default_invocation c :
  wf (Node (c_config c)) = true ->
  (exists r, parser_of c = Ok r /\ preg_primary r "" = None) ->
  default_ok (model_nobs c "") = true.
Proof.
  intros Hw [r [Hp Hn]]. destruct c as [n tasks aliases subs dflt ad cfg]. cbn [c_config] in Hw.
  unfold default_ok, model_nobs, accepted, cli_run, cli_default.
  cbn [o_contains o_getitem o_parser o_ran String.eqb c_default]. rewrite Hp, Hn. cbn [negb andb].
  rewrite getitem_empty, (copy_dict_id (Node cfg) Hw cfg eq_refl).
  destruct dflt as [d|]; [|reflexivity].
  destruct (String.eqb d ""); [reflexivity|].
  destruct (getitem (Coll n tasks aliases subs (Some d) ad cfg) d) as [t|e].
  - apply Nat.eqb_refl.
  - apply err_eqb_eq. reflexivity.
Qed.
