(** C01 proof, part 1: a fuel-free big-step view of the token loop, the shape
    of the machine between two arguments of a task, and one lemma per kind of
    token (flag, value, "=" form, task name) describing exactly what the parse
    machine does with it from a quiescent state. *)
From InvokeVerif Require Import Model.ParserModel Proofs.C07_fuel.
From Coq Require Import Lia.

(** ** Big-step runs of the token loop *)

Inductive steps (p : parser) : machine -> list string -> machine -> Prop :=
| steps_nil m : steps p m [] m
| steps_cons m t rest m1 pushed m' :
    step p m t = Ok (m1, pushed) -> steps p m1 (pushed ++ rest) m' ->
    steps p m (t :: rest) m'.

Lemma steps_app p m a m1 b m2 :
  steps p m a m1 -> steps p m1 b m2 -> steps p m (a ++ b) m2.
Proof.
  induction 1 as [m|m t rest m1' pushed m' St H IH]; intros H2; simpl; [exact H2|].
  econstructor; [exact St|]. rewrite app_assoc. apply IH. exact H2.
Qed.

Lemma steps_loop p m body m' :
  steps p m body m' -> exists fuel, loop p fuel m body = Some (Ok m').
Proof.
  induction 1 as [m|m t rest m1 pushed m' St H [fuel IH]].
  - exists 0. reflexivity.
  - exists (S fuel). simpl. rewrite St. exact IH.
Qed.

Lemma steps_parse p argv m0 m1 m2 :
  new_machine p = Ok m0 ->
  steps p m0 (fst (split_ddash argv)) m1 ->
  finish m1 = Ok m2 ->
  parse_argv p argv =
    Ok (mkRes (result_ctxs m2) (m_unparsed m2) (join " " (snd (split_ddash argv)))).
Proof.
  intros N St F. unfold parse_argv.
  destruct (parse_fuel_sufficient p argv) as [r Hr]. rewrite Hr. revert Hr.
  unfold parse_argv_fuel. destruct (split_ddash argv) as [body rem]. simpl in *. rewrite N.
  destruct (steps_loop _ _ _ _ St) as [fuel L].
  destruct (loop p (body_fuel body) m0 body) as [lr|] eqn:L2; [|discriminate].
  assert (lr = Ok m1).
  { pose proof (loop_fuel_mono p _ _ _ _ L (fuel + body_fuel body) ltac:(lia)) as A.
    pose proof (loop_fuel_mono p _ _ _ _ L2 (fuel + body_fuel body) ltac:(lia)) as B.
    congruence. }
  subst lr. rewrite F. intros [= <-]. reflexivity.
Qed.

(** ** List facts *)

Lemma nth_error_snoc {A} (l : list A) x : nth_error (l ++ [x]) (List.length l) = Some x.
Proof. induction l; simpl; auto. Qed.

Lemma nth_error_app_l {A} (l l' : list A) k x :
  nth_error l k = Some x -> nth_error (l ++ l') k = Some x.
Proof.
  revert k; induction l as [|y l IH]; intros [|k]; simpl; try discriminate; auto.
Qed.

Lemma upd_nth_snoc {A} (l : list A) x y : upd_nth (List.length l) y (l ++ [x]) = l ++ [y].
Proof. induction l as [|z l IH]; simpl; [reflexivity | rewrite IH; reflexivity]. Qed.

Lemma upd_nth_app_l {A} (l l' : list A) k y :
  k < List.length l -> upd_nth k y (l ++ l') = upd_nth k y l ++ l'.
Proof.
  revert k; induction l as [|z l IH]; intros [|k]; simpl; try lia; auto.
  intros H. rewrite IH by lia. reflexivity.
Qed.

Lemma nth_error_upd_nth_same {A} (l : list A) k y x :
  nth_error l k = Some x -> nth_error (upd_nth k y l) k = Some y.
Proof. revert k; induction l as [|z l IH]; intros [|k]; simpl; try discriminate; auto. Qed.

Lemma nth_error_upd_nth_other {A} (l : list A) k j y :
  k <> j -> nth_error (upd_nth k y l) j = nth_error l j.
Proof.
  revert k j; induction l as [|z l IH]; intros [|k] [|j]; simpl; try congruence; auto.
Qed.

(** ** Tokens *)

Lemma plain_presplit m t : starts_with "-" t = false -> presplit m t = Ok (t, []).
Proof. intros H. unfold presplit, is_flag. rewrite H. reflexivity. Qed.

Lemma partition_char_concat a fl s :
  contains_char a fl = false ->
  partition_char a (fl ++ String a s) = (fl, true, s).
Proof.
  induction fl as [|c fl IH]; simpl.
  - intros _. rewrite Ascii.eqb_refl. reflexivity.
  - destruct (Ascii.eqb c a) eqn:E; simpl; [discriminate|]. intros H. rewrite (IH H). reflexivity.
Qed.

Lemma contains_char_concat a fl s : contains_char a (fl ++ String a s) = true.
Proof.
  induction fl as [|c fl IH]; simpl; [rewrite Ascii.eqb_refl; reflexivity|].
  rewrite IH. apply orb_true_r.
Qed.

Lemma starts_with_dash_app fl s : starts_with "-" fl = true -> starts_with "-" (fl ++ s) = true.
Proof. destruct fl as [|c fl]; simpl; [discriminate|]. auto. Qed.

(** a flag spelling as produced by [to_flag] for well-formed names *)
Definition clean_flag (fl : string) : bool :=
  starts_with "-" fl && negb (contains_char "=" fl)
  && (starts_with "--" fl || Nat.eqb (String.length fl) 2)
  && negb (String.eqb fl "--").

Lemma clean_flag_presplit m fl :
  clean_flag fl = true -> m_unparsed m = [] -> presplit m fl = Ok (fl, []).
Proof.
  unfold clean_flag. rewrite !andb_true_iff, negb_true_iff. intros [[[D E] L] _] U.
  unfold presplit, is_flag, is_long_flag. rewrite D, U, E. cbn [andb].
  destruct (starts_with "--" fl) eqn:LL; cbn [negb andb orb] in *; [reflexivity|].
  apply Nat.eqb_eq in L. rewrite L. reflexivity.
Qed.

Lemma clean_flag_eq_presplit m fl s :
  clean_flag fl = true -> m_unparsed m = [] ->
  presplit m (fl ++ String "=" s) = Ok (fl, [s]).
Proof.
  unfold clean_flag. rewrite !andb_true_iff, negb_true_iff. intros [[[D E] _] _] U.
  unfold presplit, is_flag. rewrite (starts_with_dash_app _ _ D), U. cbn [andb].
  rewrite contains_char_concat, (partition_char_concat _ _ _ E). reflexivity.
Qed.

(** ** The machine between two arguments of a task

    [MS done cur fl got]: initial context [i0], finished task contexts [done]
    (all in the result), current task context [cur] (not yet in the result),
    state "context", nothing unparsed. *)
Definition MS (i0 : rctx) (done : list rctx) (cur : rctx) (fl : option (nat * nat)) (got : bool)
  : machine :=
  mkM (i0 :: done ++ [cur]) true (Some (S (List.length done))) (seq 0 (S (List.length done)))
      fl got SContext [].

Section Shape.
Variable i0 : rctx.
Variable done : list rctx.
Variable cur : rctx.
Variable fl : option (nat * nat).
Variable got : bool.
Let kk := S (List.length done).
Let m := MS i0 done cur fl got.

Lemma MS_cur : cur_ctx m = Some cur.
Proof. unfold m, MS, cur_ctx, get_ctx; simpl. apply nth_error_snoc. Qed.

Lemma MS_get_cur : get_ctx m kk = Some cur.
Proof. unfold m, MS, get_ctx, kk; simpl. apply nth_error_snoc. Qed.

Lemma MS_init : init_ctx_of m = Some i0.
Proof. reflexivity. Qed.

Definition with_args (c : rctx) (args : list rarg) : rctx :=
  mkRCtx (rc_name c) (rc_aliases c) args.

Lemma MS_put_arg f i r :
  put_arg (MS i0 done cur f got) (kk, i) r
  = MS i0 done (with_args cur (upd_nth i r (rc_args cur))) f got.
Proof.
  unfold put_arg. cbn [fst snd]. fold kk.
  replace (get_ctx (MS i0 done cur f got) kk) with (Some cur)
    by (symmetry; unfold MS, get_ctx, kk; simpl; apply nth_error_snoc).
  unfold set_ctxs, MS, with_args, kk. cbn -[upd_nth seq]. cbn [upd_nth].
  rewrite upd_nth_snoc. reflexivity.
Qed.

Lemma MS_get_arg_cur f i : get_arg (MS i0 done cur f got) (kk, i) = nth_error (rc_args cur) i.
Proof.
  unfold get_arg. cbn [fst snd].
  replace (get_ctx (MS i0 done cur f got) kk) with (Some cur)
    by (symmetry; unfold MS, get_ctx, kk; simpl; apply nth_error_snoc).
  reflexivity.
Qed.

End Shape.

(** ** Inert flags

    The current flag (if any) already holds its value: [check_ambiguity] and
    [complete_flag] are no-ops and the machine is not waiting.

    Since repair 9120dc5 [complete_flag] judges "needed a value and got none" by
    [flag_got_value], which is reset only in [switch_to_flag] and set by
    [see_value]; so a *stale* flag (one that stays in [self.flag] while later
    positionals / task names are handled) is harmless exactly when it does not
    need a value any more: [needs_value r && negb got = false]. *)
Definition needs_value (r : rarg) : bool :=
  akind_eqb (a_kind (r_spec r)) KList
  || (takes_value (r_spec r) && negb (a_optional (r_spec r))).

Definition inert (m : machine) : Prop :=
  match m_flag m with
  | None => True
  | Some f => exists r, get_arg m f = Some r /\ r_raw r = true /\
                        (needs_value r && negb (m_got m)) = false
  end.

Lemma needs_list r got :
  (needs_value r && negb got) = false ->
  (akind_eqb (a_kind (r_spec r)) KList && negb got) = false.
Proof. unfold needs_value. destruct (akind_eqb _ _), got; simpl; auto. Qed.

Lemma needs_required r got :
  (needs_value r && negb got) = false ->
  (takes_value (r_spec r) && negb got && negb (a_optional (r_spec r))) = false.
Proof.
  unfold needs_value.
  destruct (akind_eqb _ _), (takes_value _), (a_optional _), got; simpl; auto.
Qed.

Lemma needs_value_bool r : a_kind (r_spec r) = KBool -> needs_value r = false.
Proof. intros K. unfold needs_value, takes_value. rewrite K. reflexivity. Qed.

Lemma needs_value_no_value r :
  akind_eqb (a_kind (r_spec r)) KList = false -> takes_value (r_spec r) = false ->
  needs_value r = false.
Proof. intros K T. unfold needs_value. rewrite K, T. reflexivity. Qed.

Lemma needs_value_optional r :
  akind_eqb (a_kind (r_spec r)) KList = false -> a_optional (r_spec r) = true ->
  needs_value r = false.
Proof. intros K T. unfold needs_value. rewrite K, T, andb_false_r. reflexivity. Qed.

Lemma inert_waiting m : inert m -> waiting m = false.
Proof.
  unfold inert, waiting, flag_arg. destruct (m_flag m) as [f|]; [|reflexivity].
  intros [r [G [R K]]]. rewrite G. destruct (takes_value (r_spec r)); [|reflexivity].
  rewrite (needs_list _ _ K), R. reflexivity.
Qed.

(** the "stale flag is inert" lemma *)
Lemma inert_complete_flag m : inert m -> complete_flag m = Ok m.
Proof.
  unfold inert, complete_flag, flag_arg. destruct (m_flag m) as [f|]; [|reflexivity].
  intros [r [G [R K]]]. rewrite G, (needs_required _ _ K), R. reflexivity.
Qed.

Lemma inert_check_ambiguity p v m : inert m -> check_ambiguity p v m = Ok m.
Proof.
  unfold inert, check_ambiguity, flag_arg. destruct (m_flag m) as [f|]; [|reflexivity].
  intros [r [G [R K]]]. rewrite G, R. destruct (negb (a_optional (r_spec r))); reflexivity.
Qed.

Lemma stale_flag_is_inert m :
  inert m -> complete_flag m = Ok m /\ waiting m = false /\
             forall p v, check_ambiguity p v m = Ok m.
Proof.
  intros I. split; [exact (inert_complete_flag m I)|]. split; [exact (inert_waiting m I)|].
  intros p v. exact (inert_check_ambiguity p v m I).
Qed.

Lemma inert_rollback m t sp : inert m -> rollback m t sp = Ok sp.
Proof. intros I. unfold rollback. rewrite (inert_waiting m I). reflexivity. Qed.

(** appending a context keeps valid references valid *)
Lemma get_arg_snoc i0 done cur c' f g f' g' ref r :
  get_arg (MS i0 done cur f g) ref = Some r ->
  get_arg (MS i0 (done ++ [cur]) c' f' g') ref = Some r.
Proof.
  unfold get_arg, get_ctx, MS; simpl.
  destruct (nth_error (i0 :: done ++ [cur]) (fst ref)) as [c|] eqn:N; [|discriminate].
  intros H.
  assert (N' : nth_error ((i0 :: done ++ [cur]) ++ [c']) (fst ref) = Some c)
    by (apply nth_error_app_l; exact N).
  simpl in N'. rewrite <- app_assoc in N'. simpl in N'.
  rewrite <- app_assoc. simpl. rewrite N'. exact H.
Qed.

Lemma inert_snoc i0 done cur c' f g :
  inert (MS i0 done cur f g) -> inert (MS i0 (done ++ [cur]) c' f g).
Proof.
  unfold inert; simpl. destruct f as [ref|]; [|auto].
  intros [r [G H]]. exists r. split; [|exact H]. eapply get_arg_snoc; eauto.
Qed.
