(** C03: the order of the load calls is irrelevant.  Each load call changes the
    fields of its own level only (and re-merges unless [merge=False]); the merged
    view is a function of the level fields; so any permutation of load calls on
    distinct levels ends with the same levels, hence -- once something merged --
    with the same view. *)
From Coq Require Import Permutation.
From InvokeVerif Require Import Common.Tree Common.StrUtil Model.MergeModel Model.ConfigModel
     Spec.C03Spec.

Definition strip (c : cfg) : cfg := set_cache c [].

(** * Load calls as guarded updates of their own level *)
Definition payload := (tree * found * option string)%type.

Definition located_upd (fs : fsys) (fnd : found) (loc : option string) (old : tree)
  : option payload :=
  match fnd with
  | FNone =>
      match loc with
      | None => None
      | Some l =>
          match try_suffixes fs l file_suffixes with
          | LFound s t => Some (t, FTrue, Some s)
          | LMissing => Some (old, FFalse, None)
          | LFail => None
          end
      end
  | _ => None
  end.

Definition runtime_upd (fs : fsys) (fnd : found) (p : option (string * string))
  : option payload :=
  match fnd, p with
  | FNone, Some (stem, sfx) =>
      if negb (mem sfx file_suffixes) then None
      else match fs_get fs stem sfx with
           | Some (FData t) => Some (t, FTrue, None)
           | Some FIOErr => None
           | None => if String.eqb sfx "py" then Some (Node [], FTrue, None) else None
           end
  | _, _ => None
  end.

Definition guard (fs : fsys) (o : op) (c : cfg) : option payload :=
  match undefer o with
  | LoadDefaults t | LoadOverrides t | LoadCollection t => Some (t, FNone, None)
  | LoadSystem => located_upd fs (c_sys_found c) (c_sys_loc c) (c_system c)
  | LoadUser => located_upd fs (c_user_found c) (c_user_loc c) (c_user c)
  | LoadProject => located_upd fs (c_proj_found c) (c_proj_loc c) (c_project c)
  | LoadRuntime => runtime_upd fs (c_rt_found c) (c_rt_path c)
  | _ => None
  end.

Definition setter (o : op) (c : cfg) (x : payload) : cfg :=
  let '(t, f, s) := x in
  match undefer o with
  | LoadDefaults _ => set_defaults c t
  | LoadOverrides _ => set_overrides c t
  | LoadCollection _ => set_collection c t
  | LoadSystem => set_system c t f s
  | LoadUser => set_user c t f s
  | LoadProject => set_project c t f s
  | LoadRuntime => set_runtime c t f
  | _ => c
  end.

(** State change of a load call, cache aside. *)
Definition load_pure (fs : fsys) (c : cfg) (o : op) : cfg :=
  match guard fs o c with Some x => setter o c x | None => c end.

Definition load_tag (o : op) : nat :=
  match undefer o with
  | LoadDefaults _ => 0 | LoadCollection _ => 1 | LoadSystem => 2 | LoadUser => 3
  | LoadProject => 4 | LoadRuntime => 6 | LoadOverrides _ => 7 | Merge => 98 | _ => 99
  end.

Lemma set_cache_twice c x y : set_cache (set_cache c x) y = set_cache c y.
Proof. destruct c; reflexivity. Qed.

Lemma strip_set_cache c d : strip (set_cache c d) = strip c.
Proof. apply set_cache_twice. Qed.

Lemma merge_set_cache c d : merge (set_cache c d) = merge c.
Proof. destruct c; reflexivity. Qed.

Lemma merge_strip c : merge (strip c) = merge c.
Proof. apply merge_set_cache. Qed.

Lemma strip_remerge c o : strip (fst (remerge c o)) = strip c.
Proof. unfold remerge. destruct (merge c); simpl; apply strip_set_cache. Qed.

Local Opaque try_suffixes mem.

(** The cache plays no role in what a load call does to the levels. *)
Lemma guard_cache fs o c d : guard fs o (set_cache c d) = guard fs o c.
Proof. destruct o, c; reflexivity. Qed.

Lemma setter_cache o c d x : setter o (set_cache c d) x = set_cache (setter o c x) d.
Proof. destruct x as [[t f] s]. destruct o, c; reflexivity. Qed.

Lemma load_pure_cache fs c d o :
  load_pure fs (set_cache c d) o = set_cache (load_pure fs c o) d.
Proof.
  unfold load_pure. rewrite guard_cache. destruct (guard fs o c); [apply setter_cache | reflexivity].
Qed.

(** A load call on another level neither enables nor changes this one. *)
Lemma guard_setter fs o1 o2 c y :
  load_tag o1 <> load_tag o2 -> guard fs o1 (setter o2 c y) = guard fs o1 c.
Proof.
  destruct y as [[t f] s].
  destruct o1, o2; simpl; intros H; try reflexivity; try (exfalso; apply H; reflexivity);
    destruct c; reflexivity.
Qed.

Lemma setter_comm o1 o2 c x y :
  load_tag o1 <> load_tag o2 -> setter o1 (setter o2 c y) x = setter o2 (setter o1 c x) y.
Proof.
  destruct x as [[t1 f1] s1], y as [[t2 f2] s2].
  destruct o1, o2; simpl; intros H; try reflexivity; try (exfalso; apply H; reflexivity);
    destruct c; reflexivity.
Qed.

(** Load calls feeding different levels commute. *)
Lemma load_pure_comm fs c o1 o2 :
  load_tag o1 <> load_tag o2 ->
  load_pure fs (load_pure fs c o1) o2 = load_pure fs (load_pure fs c o2) o1.
Proof.
  intros H. assert (H' : load_tag o2 <> load_tag o1) by congruence.
  unfold load_pure.
  destruct (guard fs o1 c) as [x|] eqn:G1; destruct (guard fs o2 c) as [y|] eqn:G2.
  - rewrite (guard_setter fs o2 o1 c x H'), (guard_setter fs o1 o2 c y H), G1, G2.
    symmetry. apply setter_comm. exact H.
  - rewrite (guard_setter fs o2 o1 c x H'), G2, G1. reflexivity.
  - rewrite (guard_setter fs o1 o2 c y H), G1. reflexivity.
  - rewrite G1. reflexivity.
Qed.

Definition apply_loads (fs : fsys) (c : cfg) (ops : list op) : cfg :=
  fold_left (load_pure fs) ops c.

Lemma apply_loads_perm fs ops1 ops2 :
  Permutation ops1 ops2 -> NoDup (map load_tag ops1) ->
  forall c, apply_loads fs c ops1 = apply_loads fs c ops2.
Proof.
  unfold apply_loads.
  induction 1 as [|x l l' HP IH|x y l|l l' l'' HP1 IH1 HP2 IH2]; intros ND c.
  - reflexivity.
  - simpl. inversion ND; subst. apply IH; assumption.
  - simpl. inversion ND as [|? ? Hnin ND']; subst.
    rewrite (load_pure_comm fs c y x); [reflexivity|].
    intros E. apply Hnin. left. symmetry. exact E.
  - rewrite IH1 by assumption. apply IH2.
    eapply Permutation_NoDup; [apply Permutation_map; eassumption | assumption].
Qed.

(** * What [step] does for a load call, cache aside *)
Lemma located_step fs c fnd loc upd old m :
  strip (fst (fst (load_located fs c fnd loc upd old m))) =
  strip (match located_upd fs fnd loc old with
         | Some (t, f, s) => upd c t f s
         | None => c
         end).
Proof.
  unfold load_located, located_upd.
  destruct fnd; try reflexivity. destruct loc as [l|]; try reflexivity.
  destruct (try_suffixes fs l file_suffixes); try reflexivity.
  destruct m; [|reflexivity]. simpl. apply strip_remerge.
Qed.

Lemma runtime_step fs c m :
  strip (fst (fst (load_runtime fs c m))) =
  strip (match runtime_upd fs (c_rt_found c) (c_rt_path c) with
         | Some (t, f, _) => set_runtime c t f
         | None => c
         end).
Proof.
  unfold load_runtime, runtime_upd.
  destruct (c_rt_found c); try reflexivity.
  destruct (c_rt_path c) as [[stem sfx]|]; try reflexivity.
  destruct (negb (mem sfx file_suffixes)); try reflexivity.
  destruct (fs_get fs stem sfx) as [[t|]|]; try reflexivity.
  - destruct m; [|reflexivity]. simpl. apply strip_remerge.
  - destruct (String.eqb sfx "py"); destruct m; try reflexivity; simpl; apply strip_remerge.
Qed.

Lemma step_load_strip fs c o :
  is_load_op o = true -> strip (fst (step fs c o)) = strip (load_pure fs c o).
Proof.
  destruct o; simpl; try discriminate; intros _; unfold step, step_with, merged, with_flag, load_pure,
    guard, setter; simpl.
  - apply strip_remerge.
  - apply strip_remerge.
  - apply strip_remerge.
  - rewrite <- (located_step fs c (c_sys_found c) (c_sys_loc c) set_system (c_system c) true).
    unfold load_system. destruct (load_located fs c (c_sys_found c) (c_sys_loc c) set_system (c_system c) true) as [[c' o'] b].
    destruct b; reflexivity.
  - rewrite <- (located_step fs c (c_user_found c) (c_user_loc c) set_user (c_user c) true).
    unfold load_user. destruct (load_located fs c (c_user_found c) (c_user_loc c) set_user (c_user c) true) as [[c' o'] b].
    destruct b; reflexivity.
  - rewrite <- (located_step fs c (c_proj_found c) (c_proj_loc c) set_project (c_project c) true).
    unfold load_project. destruct (load_located fs c (c_proj_found c) (c_proj_loc c) set_project (c_project c) true) as [[c' o'] b].
    destruct b; reflexivity.
  - rewrite <- (runtime_step fs c true).
    destruct (load_runtime fs c true) as [[c' o'] b]. destruct b; reflexivity.
  - reflexivity.
  - reflexivity.
  - reflexivity.
  - rewrite <- (located_step fs c (c_sys_found c) (c_sys_loc c) set_system (c_system c) false).
    unfold load_system. destruct (load_located fs c (c_sys_found c) (c_sys_loc c) set_system (c_system c) false) as [[c' o'] b].
    destruct b; reflexivity.
  - rewrite <- (located_step fs c (c_user_found c) (c_user_loc c) set_user (c_user c) false).
    unfold load_user. destruct (load_located fs c (c_user_found c) (c_user_loc c) set_user (c_user c) false) as [[c' o'] b].
    destruct b; reflexivity.
  - rewrite <- (located_step fs c (c_proj_found c) (c_proj_loc c) set_project (c_project c) false).
    unfold load_project. destruct (load_located fs c (c_proj_found c) (c_proj_loc c) set_project (c_project c) false) as [[c' o'] b].
    destruct b; reflexivity.
  - rewrite <- (runtime_step fs c false).
    destruct (load_runtime fs c false) as [[c' o'] b]. destruct b; reflexivity.
  - apply strip_remerge.
Qed.

(** The merged view is a function of the level contents only. *)
Lemma merge_function_of_levels c1 c2 : strip c1 = strip c2 -> merge c1 = merge c2.
Proof. intros H. rewrite <- (merge_strip c1), <- (merge_strip c2), H. reflexivity. Qed.

Definition is_err_out (o : outcome) : bool := match o with OErr _ => true | _ => false end.

(** A run in which nothing raised. *)
Fixpoint clean (tr : list (outcome * dict)) : bool :=
  match tr with
  | [] => true
  | (o, _) :: rest => negb (is_err_out o) && clean rest
  end.

Lemma abnormal_is_err o : abnormal o = true -> is_err_out o = true.
Proof. destruct o; simpl; try discriminate. reflexivity. Qed.

(** After a clean run of load calls the levels are those the calls supplied,
    in whatever order. *)
Lemma run_loads fs ops : forall c,
  Forall (fun o => is_load_op o = true) ops ->
  clean (snd (run fs c ops)) = true ->
  strip (fst (run fs c ops)) = apply_loads fs (strip c) ops.
Proof.
  induction ops as [|o rest IH]; intros c HF Hclean.
  - reflexivity.
  - inversion HF as [|? ? Ho HF']; subst.
    simpl in *. destruct (step fs c o) as [c' out] eqn:Es.
    destruct (abnormal out) eqn:Ea.
    + simpl in Hclean. apply abnormal_is_err in Ea. rewrite Ea in Hclean. discriminate.
    + destruct (run fs c' rest) as [c'' tr] eqn:Er. simpl in *.
      apply andb_true_iff in Hclean as [Hout Htr].
      specialize (IH c' HF'). rewrite Er in IH. simpl in IH. rewrite (IH Htr).
      unfold apply_loads. simpl. f_equal.
      pose proof (step_load_strip fs c o Ho) as H. rewrite Es in H. simpl in H.
      rewrite H. unfold strip. rewrite load_pure_cache. reflexivity.
Qed.

Lemma strip_eq_set_cache a b : strip a = strip b -> a = set_cache b (c_cache a).
Proof. destruct a, b; unfold strip; simpl; intros H; inversion H; reflexivity. Qed.

Lemma remerge_set_cache c d o : remerge (set_cache c d) o = remerge c o.
Proof. unfold remerge. rewrite merge_set_cache, !set_cache_twice. reflexivity. Qed.

Lemma step_merge_eq fs c : step fs c Merge = remerge c ONone.
Proof.
  unfold step, step_with, merged. destruct (remerge c ONone); reflexivity.
Qed.

Lemma step_env_eq fs c env :
  step fs c (LoadShellEnv env) =
  match remerge (set_env c (Node [])) ONone with
  | (c1, OErr e) => (c1, OErr e)
  | (c1, _) =>
      match load (Node (c_cache c1)) (c_env_prefix c1) env with
      | Err e => (c1, OErr e)
      | Ok d => remerge (set_env c1 (Node d)) ONone
      end
  end.
Proof.
  unfold step, step_with, merged. destruct (remerge (set_env c (Node [])) ONone) as [c1 o].
  destruct o; try reflexivity;
    destruct (load (Node (c_cache c1)) (c_env_prefix c1) env); try reflexivity;
    destruct (remerge (set_env c1 (Node a)) ONone); reflexivity.
Qed.

(** Same levels, then [merge()]: same state, hence same view. *)
Lemma merge_step_same fs a b :
  strip a = strip b -> step fs a Merge = step fs b Merge.
Proof.
  intros E. rewrite (strip_eq_set_cache a b E), !step_merge_eq. apply remerge_set_cache.
Qed.

(** Same levels, then [load_shell_env()]: same outcome, same view, same
    environment level. *)
Lemma env_step_same fs env a b :
  strip a = strip b -> step fs a (LoadShellEnv env) = step fs b (LoadShellEnv env).
Proof.
  intros E. rewrite (strip_eq_set_cache a b E), !step_env_eq.
  replace (set_env (set_cache b (c_cache a)) (Node [])) with (set_cache (set_env b (Node [])) (c_cache a))
    by (destruct b; reflexivity).
  rewrite remerge_set_cache. reflexivity.
Qed.

(** * Load-order irrelevance *)
(** Any two orders of the same load calls (on distinct levels; with or without
    [merge=False]) leave the same levels ... *)
Theorem load_order_same_levels : forall fs c ops1 ops2,
  Forall (fun o => is_load_op o = true) ops1 -> NoDup (map load_tag ops1) ->
  Permutation ops1 ops2 ->
  clean (snd (run fs c ops1)) = true -> clean (snd (run fs c ops2)) = true ->
  strip (fst (run fs c ops1)) = strip (fst (run fs c ops2)).
Proof.
  intros fs c ops1 ops2 HF ND HP H1 H2.
  assert (HF2 : Forall (fun o => is_load_op o = true) ops2) by (eapply Permutation_Forall; eassumption).
  rewrite (run_loads fs ops1 c HF H1), (run_loads fs ops2 c HF2 H2).
  apply apply_loads_perm; assumption.
Qed.

(** ... hence the same view after a final [merge()] ... *)
Theorem load_order_irrelevant_merge : forall fs c ops1 ops2,
  Forall (fun o => is_load_op o = true) ops1 -> NoDup (map load_tag ops1) ->
  Permutation ops1 ops2 ->
  clean (snd (run fs c ops1)) = true -> clean (snd (run fs c ops2)) = true ->
  step fs (fst (run fs c ops1)) Merge = step fs (fst (run fs c ops2)) Merge.
Proof.
  intros. apply merge_step_same. apply load_order_same_levels; assumption.
Qed.

(** ... and the same environment level, outcome and view after a final
    [load_shell_env()] (the environment being read once the others are in place). *)
Theorem load_order_irrelevant_env : forall fs c ops1 ops2 env,
  Forall (fun o => is_load_op o = true) ops1 -> NoDup (map load_tag ops1) ->
  Permutation ops1 ops2 ->
  clean (snd (run fs c ops1)) = true -> clean (snd (run fs c ops2)) = true ->
  step fs (fst (run fs c ops1)) (LoadShellEnv env) = step fs (fst (run fs c ops2)) (LoadShellEnv env).
Proof.
  intros. apply env_step_same. apply load_order_same_levels; assumption.
Qed.

(** * Without deferred loads the view is up to date after every call *)
Definition cache_ok (c : cfg) : Prop := merge c = Ok (c_cache c).

Definition is_plain_load (o : op) : bool := is_load_op o && negb (is_deferred o).

Lemma cache_ok_remerge c o :
  is_err_out (snd (remerge c o)) = false -> cache_ok (fst (remerge c o)).
Proof.
  unfold remerge, cache_ok. destruct (merge c) eqn:E; simpl.
  - intros _. rewrite merge_set_cache. destruct c; exact E.
  - discriminate.
Qed.

Lemma cache_ok_step_load fs c o :
  is_plain_load o = true -> cache_ok c -> is_err_out (snd (step fs c o)) = false ->
  cache_ok (fst (step fs c o)).
Proof.
  destruct o; simpl; try discriminate; intros _ Hc; unfold step, step_with, merged, with_flag; simpl.
  - apply cache_ok_remerge.
  - apply cache_ok_remerge.
  - apply cache_ok_remerge.
  - unfold load_system, load_located.
    destruct (c_sys_found c) eqn:Ef; simpl; auto.
    destruct (c_sys_loc c); simpl; auto.
    destruct (try_suffixes fs s file_suffixes); simpl; auto.
    + apply cache_ok_remerge.
    + intros _. unfold cache_ok in *. destruct c; simpl in *. subst. exact Hc.
  - unfold load_user, load_located.
    destruct (c_user_found c) eqn:Ef; simpl; auto.
    destruct (c_user_loc c); simpl; auto.
    destruct (try_suffixes fs s file_suffixes); simpl; auto.
    + apply cache_ok_remerge.
    + intros _. unfold cache_ok in *. destruct c; simpl in *. subst. exact Hc.
  - unfold load_project, load_located.
    destruct (c_proj_found c) eqn:Ef; simpl; auto.
    destruct (c_proj_loc c); simpl; auto.
    destruct (try_suffixes fs s file_suffixes); simpl; auto.
    + apply cache_ok_remerge.
    + intros _. unfold cache_ok in *. destruct c; simpl in *. subst. exact Hc.
  - unfold load_runtime.
    destruct (c_rt_found c); simpl; auto.
    destruct (c_rt_path c) as [[stem sfx]|]; simpl; auto.
    destruct (negb (mem sfx file_suffixes)); simpl; auto.
    destruct (fs_get fs stem sfx) as [[t|]|]; simpl; auto.
    + apply cache_ok_remerge.
    + destruct (String.eqb sfx "py"); simpl; apply cache_ok_remerge.
  - apply cache_ok_remerge.
Qed.

Lemma run_plain_cache_ok fs ops : forall c,
  Forall (fun o => is_plain_load o = true) ops -> cache_ok c ->
  clean (snd (run fs c ops)) = true -> cache_ok (fst (run fs c ops)).
Proof.
  induction ops as [|o rest IH]; intros c HF Hc Hclean; [exact Hc|].
  inversion HF as [|? ? Ho HF']; subst.
  simpl in *. destruct (step fs c o) as [c' out] eqn:Es.
  destruct (abnormal out) eqn:Ea.
  - simpl in Hclean. apply abnormal_is_err in Ea. rewrite Ea in Hclean. discriminate.
  - destruct (run fs c' rest) as [c'' tr] eqn:Er. simpl in *.
    apply andb_true_iff in Hclean as [Hout Htr]. apply negb_true_iff in Hout.
    assert (Hc' : cache_ok c').
    { pose proof (cache_ok_step_load fs c o Ho Hc) as H. rewrite Es in H. apply H. exact Hout. }
    specialize (IH c' HF' Hc'). rewrite Er in IH. apply IH. exact Htr.
Qed.

(** Load calls with the default [merge=True], in any order: same view. *)
Theorem load_order_irrelevant : forall fs c ops1 ops2,
  cache_ok c ->
  Forall (fun o => is_plain_load o = true) ops1 -> NoDup (map load_tag ops1) ->
  Permutation ops1 ops2 ->
  clean (snd (run fs c ops1)) = true -> clean (snd (run fs c ops2)) = true ->
  c_cache (fst (run fs c ops1)) = c_cache (fst (run fs c ops2)).
Proof.
  intros fs c ops1 ops2 Hc HF ND HP H1 H2.
  assert (HF2 : Forall (fun o => is_plain_load o = true) ops2) by (eapply Permutation_Forall; eassumption).
  assert (HL : forall ops, Forall (fun o => is_plain_load o = true) ops -> Forall (fun o => is_load_op o = true) ops).
  { intros ops H. eapply Forall_impl; [|exact H]. intros o Ho. unfold is_plain_load in Ho.
    apply andb_true_iff in Ho. tauto. }
  pose proof (load_order_same_levels fs c ops1 ops2 (HL _ HF) ND HP H1 H2) as E.
  pose proof (run_plain_cache_ok fs ops1 c HF Hc H1) as K1.
  pose proof (run_plain_cache_ok fs ops2 c HF2 Hc H2) as K2.
  unfold cache_ok in K1, K2. apply merge_function_of_levels in E. rewrite K1, K2 in E.
  inversion E; reflexivity.
Qed.
