(** Entry point for proofs about the parse machine's behaviour from quiescent
    states (re-exports; see the individual files):
    - C01_steps:  [steps] (fuel-free big-step runs of the token loop), [steps_app],
                  [steps_parse], the machine shape [MS i0 done cur fl got] between two
                  arguments of a task, [inert] (not waiting; complete_flag and
                  check_ambiguity are no-ops) and its consequences;
    - C01_tokens: one lemma per token from an inert state -- [step_bool_flag] (--flag),
                  [step_inverse_flag] (--no-flag), [step_value_flag] (--name / -n awaiting a
                  value), [step_eq_flag] (--name=value / -n=value), [step_value] (the value
                  token), [step_task_name], [step_first_task], [finish_MS];
    - C01_lookup: with pairwise distinct spellings a flag spelling / inverse spelling /
                  task name is looked up as the argument / context it belongs to;
    - C01_occ:    [ctx_guard], [occ_simple], [run_occ], [st_ok] and [occ_steps]: the tokens
                  of one occurrence lead from an inert state to an inert state with exactly
                  that argument updated and every other context untouched. *)
From InvokeVerif Require Export Proofs.C07_fuel Proofs.C01_steps Proofs.C01_tokens
     Proofs.C01_lookup Proofs.C01_occ.
