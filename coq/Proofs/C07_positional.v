(** C07, "missing positional arguments are an error": whenever the parse
    succeeds, no returned context has a positional argument left without a
    value.  Full strength, no guard: an invariant of the machine. *)
From InvokeVerif Require Import Model.ParserModel Proofs.C07_fuel.
From Coq Require Import Lia.

(** every context already in the result is complete *)
Definition Q (m : machine) : Prop :=
  forall k, In k (m_res m) -> exists c, get_ctx m k = Some c /\ has_missing c = false.

Definition QP (f : machine -> result machine) : Prop :=
  forall m m', Q m -> f m = Ok m' -> Q m'.

Lemma QP_bind f g : QP f -> QP g -> QP (fun m => bind (f m) g).
Proof.
  intros F G m m' H. unfold bind. destruct (f m) as [m1|] eqn:E; [|discriminate].
  intros E2. eapply G; [eapply F; eauto | exact E2].
Qed.

Lemma QP_ok : QP (fun m => Ok m).
Proof. intros m m' H [= <-]. exact H. Qed.

Lemma QP_err e : QP (fun _ => Err e).
Proof. intros m m' _ E. discriminate E. Qed.

Lemma QP_if (b : machine -> bool) f g : QP f -> QP g -> QP (fun m => if b m then f m else g m).
Proof. intros F G m m' H. destruct (b m); [apply F | apply G]; exact H. Qed.

(** [set_value] never produces None *)
Lemma set_value_not_none r v cast r' :
  set_value r v cast = Ok r' -> aval_is_none (arg_value r') = false /\ r_spec r' = r_spec r.
Proof.
  unfold set_value. destruct (new_value r v cast) as [x|] eqn:E; [|discriminate].
  intros [= <-]. split; [|reflexivity]. unfold arg_value. cbn [r_val r_spec].
  assert (aval_is_none x = false).
  { revert E. unfold new_value.
    destruct (a_incrementable (r_spec r)).
    - destruct (arg_value r); try discriminate; intros [= <-]; reflexivity.
    - destruct (a_kind (r_spec r)).
      + destruct cast; [destruct v|]; simpl; intros [= <-]; try reflexivity. destruct v; reflexivity.
      + destruct cast; [destruct v as [s|b]; simpl; [destruct (parse_int s); [|discriminate]|]|];
          simpl; intros [= <-]; try reflexivity. destruct v; reflexivity.
      + destruct cast; [destruct v|]; simpl; intros [= <-]; try reflexivity. destruct v; reflexivity.
      + destruct (arg_value r); try discriminate. destruct v; try discriminate.
        intros [= <-]. reflexivity.
      + destruct cast; [destruct v as [s|b]; simpl; [destruct (cast_other ko_default ko_table s); try discriminate|discriminate]|];
          simpl; intros [= <-]; try reflexivity. destruct v; reflexivity. }
  rewrite H, H. reflexivity.
Qed.

Lemma existsb_upd_false {A} (q : A -> bool) n x l :
  existsb q l = false -> q x = false -> existsb q (upd_nth n x l) = false.
Proof.
  revert n; induction l as [|y l IH]; intros [|n]; simpl; auto;
    rewrite !orb_false_iff; intros [H1 H2] Hx; auto.
Qed.

Lemma nth_error_upd_same {A} (l : list A) k y x :
  nth_error l k = Some x -> nth_error (upd_nth k y l) k = Some y.
Proof. revert k; induction l as [|z l IH]; intros [|k]; simpl; try discriminate; auto. Qed.

Lemma nth_error_upd_other {A} (l : list A) k j y :
  k <> j -> nth_error (upd_nth k y l) j = nth_error l j.
Proof.
  revert k j; induction l as [|z l IH]; intros [|k] [|j]; simpl; try congruence; auto.
Qed.

Lemma QP_set_arg_value f v cast : QP (fun m => set_arg_value m f v cast).
Proof.
  intros m m' H. unfold set_arg_value.
  destruct (get_arg m f) as [r|] eqn:G; [|intros [= <-]; exact H].
  destruct (set_value r v cast) as [r'|] eqn:SV; [|discriminate]. intros [= <-].
  destruct (set_value_not_none _ _ _ _ SV) as [Nn _].
  unfold get_arg in G. unfold put_arg.
  destruct (get_ctx m (fst f)) as [c|] eqn:N; [|discriminate].
  intros k Hk. cbn [m_res set_ctxs] in Hk. destruct (H k Hk) as [ck [Gk Mk]].
  unfold get_ctx in *. cbn [m_ctxs set_ctxs].
  destruct (Nat.eq_dec (fst f) k) as [<-|Ne].
  - rewrite (nth_error_upd_same _ _ _ _ N). eexists. split; [reflexivity|].
    rewrite N in Gk. injection Gk as <-.
    unfold has_missing. cbn [rc_args]. apply existsb_upd_false.
    + exact Mk.
    + rewrite Nn. apply andb_false_r.
  - rewrite (nth_error_upd_other _ _ _ _ Ne). eauto.
Qed.

(** operations that leave contexts and result untouched *)
Lemma Q_same m m' : m_ctxs m' = m_ctxs m -> m_res m' = m_res m -> Q m -> Q m'.
Proof. intros E1 E2 H k. unfold get_ctx. rewrite E1, E2. apply H. Qed.

Lemma QP_complete_flag : QP complete_flag.
Proof.
  intros m m' H. unfold complete_flag.
  destruct (m_flag m) as [f|]; [|intros [= <-]; exact H].
  destruct (flag_arg m) as [r|]; [|intros [= <-]; exact H].
  destruct (_ && _ && _); [discriminate|].
  destruct (_ && _); [|intros [= <-]; exact H].
  apply QP_set_arg_value. exact H.
Qed.

Lemma QP_complete_context : QP complete_context.
Proof.
  intros m m' H. unfold complete_context.
  destruct (m_cur m) as [k|] eqn:C; [|intros [= <-]; exact H].
  destruct (cur_ctx m) as [c|] eqn:CC; [|intros [= <-]; exact H].
  destruct (has_missing c) eqn:Hm; [discriminate|].
  destruct (existsb (Nat.eqb k) (m_res m)); intros [= <-]; [exact H|].
  intros j Hj. cbn [m_res] in Hj. unfold get_ctx. cbn [m_ctxs].
  apply in_app_or in Hj. destruct Hj as [Hj|[<-|[]]].
  - exact (H _ Hj).
  - unfold cur_ctx in CC. rewrite C in CC. unfold get_ctx in CC. eauto.
Qed.

Lemma QP_enter_state : QP enter_state.
Proof. unfold enter_state. apply (QP_bind complete_flag complete_context);
         [apply QP_complete_flag | apply QP_complete_context]. Qed.

Lemma Q_set_state m s : Q m -> Q (set_state m s).
Proof. apply Q_same; reflexivity. Qed.

Lemma Q_set_flag m f g : Q m -> Q (set_flag m f g).
Proof. apply Q_same; reflexivity. Qed.

Lemma QP_transition b s act : QP act -> QP (fun m => transition m (b m) s act).
Proof.
  intros A m m' H. unfold transition. destruct (b m); [|discriminate].
  apply (QP_bind (fun m0 => enter_state m0) act QP_enter_state A (set_state m s)).
  apply Q_set_state. exact H.
Qed.

Lemma QP_switch_to_context p name : QP (switch_to_context p name).
Proof.
  intros m m' H. unfold switch_to_context. destruct (find_ctx (p_ctxs p) name); [|discriminate].
  intros [= <-]. intros k Hk. cbn [m_res] in Hk. destruct (H k Hk) as [c0 [N M]].
  exists c0. split; [|exact M]. unfold get_ctx in *. cbn [m_ctxs].
  clear -N. revert k N. induction (m_ctxs m) as [|y l IH]; intros [|k]; simpl; try discriminate; auto.
Qed.

Lemma QP_check_ambiguity p v : QP (check_ambiguity p v).
Proof.
  intros m m' H. unfold check_ambiguity.
  destruct (flag_arg m) as [r|]; [|intros [= <-]; exact H].
  destruct (negb _); [intros [= <-]; exact H|].
  destruct (r_raw r); [intros [= <-]; exact H|].
  destruct (_ || _); [discriminate | intros [= <-]; exact H].
Qed.

Lemma QP_switch_to_flag p tok inverse : QP (switch_to_flag p tok inverse).
Proof.
  unfold switch_to_flag.
  apply (QP_bind (check_ambiguity p tok)); [apply QP_check_ambiguity|].
  apply (QP_bind complete_flag); [apply QP_complete_flag|].
  intros m m' H.
  destruct (m_cur m) as [k|]; [|discriminate].
  destruct (cur_ctx m) as [c|]; [|discriminate].
  destruct (if inverse then find_inverse (rc_args c) tok else Some tok) as [fl|]; [|discriminate].
  match goal with |- match ?x with _ => _ end = _ -> _ => destruct x as [f|] end.
  2:{ destruct (m_init m); discriminate. }
  cbv zeta.
  destruct (get_arg (set_flag m (Some f) false) f) as [r|];
    [|intros [= <-]; apply Q_set_flag; exact H].
  destruct (takes_value (r_spec r)); [intros [= <-]; apply Q_set_flag; exact H|].
  apply QP_set_arg_value. apply Q_set_flag. exact H.
Qed.

Lemma checked_ok r m' : checked r = Ok m' -> r = Ok m'.
Proof. destruct r as [m|e]; simpl; [auto|]. destruct e; discriminate. Qed.

Lemma QP_see_value p tok : QP (see_value p tok).
Proof.
  unfold see_value. apply (QP_bind (check_ambiguity p tok)); [apply QP_check_ambiguity|].
  intros m m' H.
  destruct (m_flag m) as [f|]; [|discriminate].
  destruct (flag_arg m) as [r|]; [|discriminate].
  destruct (takes_value (r_spec r)); [|discriminate].
  unfold bind. destruct (checked (set_arg_value m f (IStr tok) true)) as [m1|] eqn:E; [|discriminate].
  apply checked_ok in E.
  intros [= <-]. apply Q_set_flag. eapply QP_set_arg_value; eauto.
Qed.

Lemma QP_see_positional tok : QP (see_positional_arg tok).
Proof.
  intros m m' H. unfold see_positional_arg.
  destruct (m_cur m) as [k|]; [|discriminate].
  destruct (cur_ctx m) as [c|]; [|discriminate].
  destruct (missing_positional (rc_args c)) as [|i l]; [intros [= <-]; exact H|].
  intros E. apply checked_ok in E. revert E. apply QP_set_arg_value. exact H.
Qed.

Lemma QP_store_only tok : QP (store_only tok).
Proof. intros m m' H [= <-]. revert H. apply Q_same; reflexivity. Qed.

Lemma QP_see_unknown tok : QP (see_unknown tok).
Proof. unfold see_unknown. apply (QP_transition in_context_or_unknown). apply QP_store_only. Qed.

Lemma QP_see_context p tok : QP (see_context p tok).
Proof.
  unfold see_context. apply (QP_transition (fun m => pstate_eqb (m_st m) SContext)).
  apply QP_switch_to_context.
Qed.

Lemma QP_handle p tok : QP (handle p tok).
Proof.
  intros m m' H. unfold handle.
  destruct (pstate_eqb (m_st m) SUnknown); [apply QP_see_unknown; exact H|].
  destruct (ctx_has_flag (cur_ctx m) tok); [apply QP_switch_to_flag; exact H|].
  destruct (ctx_has_inverse (cur_ctx m) tok); [apply QP_switch_to_flag; exact H|].
  destruct (waiting m); [apply QP_see_value; exact H|].
  match goal with |- (if ?b then _ else _) = _ -> _ => destruct b end;
    [apply QP_see_positional; exact H|].
  destruct (is_ctx_name (p_ctxs p) tok); [apply QP_see_context; exact H|].
  destruct (init_ctx_of m) as [ic|].
  2:{ destruct (p_ignore p); [apply QP_see_unknown; exact H | discriminate]. }
  destruct (find_flag (rc_args ic) tok) as [i|].
  2:{ destruct (p_ignore p); [apply QP_see_unknown; exact H | discriminate]. }
  destruct (nth_error (rc_args ic) i) as [r|]; [|discriminate].
  destruct (String.eqb _ "help").
  - destruct (cur_ctx m) as [c|]; [|discriminate].
    destruct (rc_name c); [|discriminate]. apply QP_set_arg_value. exact H.
  - apply QP_switch_to_flag. exact H.
Qed.

Lemma Q_step p m t m' pushed : Q m -> step p m t = Ok (m', pushed) -> Q m'.
Proof.
  intros H. unfold step, bind.
  destruct (presplit m t) as [sp|]; [|discriminate].
  destruct (rollback m t sp) as [sp'|]; [|discriminate].
  destruct (handle p (fst sp') m) as [m1|] eqn:E; [|discriminate].
  intros [= <- _]. eapply QP_handle; eauto.
Qed.

Lemma Q_loop p : forall fuel m body m', Q m -> loop p fuel m body = Some (Ok m') -> Q m'.
Proof.
  induction fuel as [|fuel IH]; intros m body m' H.
  - destruct body; simpl; [|discriminate]. intros [= <-]. exact H.
  - destruct body as [|t l]; simpl; [intros [= <-]; exact H|].
    destruct (step p m t) as [[m1 pushed]|] eqn:S; [|discriminate].
    apply IH. eapply Q_step; eauto.
Qed.

Lemma Q_new_machine p m : new_machine p = Ok m -> Q m.
Proof.
  unfold new_machine. intros E. eapply QP_enter_state; [|exact E].
  destruct (p_initial p); intros k Hk; destruct Hk.
Qed.

Lemma Q_result m : Q m -> forallb (fun c => negb (has_missing c)) (result_ctxs m) = true.
Proof.
  intros H. unfold result_ctxs. apply forallb_forall. intros c Hc.
  apply in_flat_map in Hc. destruct Hc as [k [Hk Hc]].
  destruct (H k Hk) as [c0 [G M]]. rewrite G in Hc. destruct Hc as [<-|[]]. rewrite M. reflexivity.
Qed.

Theorem missing_positional_errors cs init ign argv r :
  parser_parse cs init ign argv = Ok r ->
  forallb (fun c => negb (has_missing c)) (pr_ctxs r) = true.
Proof.
  unfold parser_parse. destruct (parser_ok cs); [|discriminate].
  unfold parse_argv. set (p := mkP cs init ign).
  destruct (parse_fuel_sufficient p argv) as [r0 Hr]. rewrite Hr.
  revert Hr. unfold parse_argv_fuel. destruct (split_ddash argv) as [body rem]. cbn [fst].
  destruct (new_machine p) as [m|] eqn:N; [|intros [= <-]; discriminate].
  destruct (loop p (body_fuel body) m body) as [lr|] eqn:L; [|discriminate].
  destruct lr as [m1|e]; [|intros [= <-]; discriminate].
  destruct (finish m1) as [m2|] eqn:F; [|intros [= <-]; discriminate].
  intros [= <-] [= <-]. cbn [pr_ctxs]. apply Q_result.
  unfold finish in F.
  eapply (QP_transition in_context_or_unknown SEnd (fun m' => Ok m') QP_ok); [|exact F].
  eapply Q_loop; [|exact L]. eapply Q_new_machine; eauto.
Qed.
