(** Invariants of the RunnerSM state machine shared by the C08 and C14 proofs. *)
From InvokeVerif Require Import Model.RunnerSM.
From Coq Require Import Lia.

(** noting a join call touches the join log only *)
Lemma join_note_fields cur k w n :
  n_kills (join_note cur k w n) = n_kills n /\ n_expired (join_note cur k w n) = n_expired n /\
  n_stop (join_note cur k w n) = n_stop n /\ n_steps (join_note cur k w n) = n_steps n /\
  n_out (join_note cur k w n) = n_out n /\ n_err (join_note cur k w n) = n_err n /\
  n_kills_after_exit (join_note cur k w n) = n_kills_after_exit n /\ n_intr (join_note cur k w n) = n_intr n.
Proof. destruct cur; cbn; repeat split; reflexivity. Qed.

(** * [run_joins] *)

(** control state once the outcome is settled *)
Definition ctl_done (c : cfg) (k : ctl) (ec : bool) : ctl :=
  mkCtl (s_proc k) (s_reaped k) (s_out k) (s_in k) (s_err k) (s_flag k)
        (match s_timer k with TArmed => TCancelled | t => t end) (PDone (decide c k ec)).

Lemma run_joins_all_done c : forall todo s cur ec,
  (forall w, In w todo -> is_run (wget (fst s) w) = false) ->
  fst (run_joins c s todo cur ec) = ctl_done c (fst s) ec /\
  n_stop (snd (run_joins c s todo cur ec)) = S (n_stop (snd s)).
Proof.
  induction todo as [|w rest IH]; intros s cur ec H.
  - cbn. split; reflexivity.
  - cbn [run_joins]. rewrite (H w (or_introl eq_refl)).
    destruct (IH (fst s, add_steps 1 (join_note cur (fst s) w (snd s))) None ec) as [A B].
    { intros x Hx. apply H. right. exact Hx. }
    split; [exact A|]. rewrite B. cbn [snd add_steps n_stop].
    destruct (join_note_fields cur (fst s) w (snd s)) as (_ & _ & E & _). rewrite E. reflexivity.
Qed.

(** in general: either everything left to join has finished (outcome settled), or
    the main thread is blocked in the join of the first worker still running *)
Inductive joins_result (c : cfg) (k : ctl) (todo : list who) (cur : option bool) (ec : bool) : ctl -> Prop :=
| JR_done :
    (forall w, In w todo -> is_run (wget k w) = false) ->
    joins_result c k todo cur ec (ctl_done c k ec)
| JR_blocked pre w rest :
    todo = pre ++ w :: rest ->
    (forall x, In x pre -> is_run (wget k x) = false) ->
    is_run (wget k w) = true ->
    joins_result c k todo cur ec
      (set_pc k (PJoin (w :: rest)
                       (Some (match pre, cur with [], Some b => b | _, _ => join_bounded k w end)) ec)).

Lemma run_joins_result c : forall todo s cur ec,
  joins_result c (fst s) todo cur ec (fst (run_joins c s todo cur ec)).
Proof.
  induction todo as [|w rest IH]; intros s cur ec.
  - cbn. apply JR_done. intros w [].
  - cbn [run_joins]. destruct (is_run (wget (fst s) w)) eqn:R.
    + cbn [fst]. apply (JR_blocked c (fst s) (w :: rest) cur ec [] w rest); auto.
      intros x [].
    + specialize (IH (fst s, add_steps 1 (join_note cur (fst s) w (snd s))) None ec). cbn [fst] in IH.
      inversion IH as [Hall Heq | pre w' rest' Htodo Hpre Hrun Heq].
      * apply JR_done. intros x [<-|Hx]; [exact R | apply Hall; exact Hx].
      * assert (E : match pre, @None bool with [], Some b => b | _, _ => join_bounded (fst s) w' end
                    = match w :: pre, cur with [], Some b => b | _, _ => join_bounded (fst s) w' end).
        { destruct pre; reflexivity. }
        rewrite E. apply (JR_blocked c (fst s) (w :: rest) cur ec (w :: pre) w' rest').
        -- rewrite Htodo. reflexivity.
        -- intros x [<-|Hx]; [exact R | apply Hpre; exact Hx].
        -- exact Hrun.
Qed.

(** counters that [run_joins] / [advance] never touch *)
Lemma run_joins_kills c : forall todo s cur ec,
  n_kills (snd (run_joins c s todo cur ec)) = n_kills (snd s) /\
  n_expired (snd (run_joins c s todo cur ec)) = n_expired (snd s).
Proof.
  induction todo as [|w rest IH]; intros s cur ec.
  - cbn. split; reflexivity.
  - cbn [run_joins]. destruct (is_run (wget (fst s) w)).
    + cbn [snd add_steps n_kills n_expired].
      destruct (join_note_fields cur (fst s) w (snd s)) as (E1 & E2 & _). rewrite E1, E2. split; reflexivity.
    + destruct (IH (fst s, add_steps 1 (join_note cur (fst s) w (snd s))) None ec) as [A B].
      rewrite A, B. cbn [snd add_steps n_kills n_expired].
      destruct (join_note_fields cur (fst s) w (snd s)) as (E1 & E2 & _). rewrite E1, E2. split; reflexivity.
Qed.

Lemma run_joins_stop_le c : forall todo s cur ec,
  n_stop (snd s) <= n_stop (snd (run_joins c s todo cur ec)).
Proof.
  induction todo as [|w rest IH]; intros s cur ec.
  - cbn. lia.
  - cbn [run_joins]. destruct (is_run (wget (fst s) w)).
    + cbn [snd add_steps n_stop].
      destruct (join_note_fields cur (fst s) w (snd s)) as (_ & _ & E & _). rewrite E. lia.
    + specialize (IH (fst s, add_steps 1 (join_note cur (fst s) w (snd s))) None ec).
      cbn [snd add_steps n_stop] in IH.
      destruct (join_note_fields cur (fst s) w (snd s)) as (_ & _ & E & _). rewrite E in IH. exact IH.
Qed.

(** steps: [run_joins] adds at most |todo| + 1 *)
Lemma run_joins_steps c : forall todo s cur ec,
  n_steps (snd (run_joins c s todo cur ec)) <= n_steps (snd s) + List.length todo + 1.
Proof.
  induction todo as [|w rest IH]; intros s cur ec.
  - cbn. lia.
  - cbn [run_joins List.length]. destruct (is_run (wget (fst s) w)).
    + cbn [snd add_steps n_steps].
      destruct (join_note_fields cur (fst s) w (snd s)) as (_ & _ & _ & E & _). rewrite E. lia.
    + specialize (IH (fst s, add_steps 1 (join_note cur (fst s) w (snd s))) None ec). cbn [snd fst] in IH.
      cbn [add_steps n_steps] in IH.
      destruct (join_note_fields cur (fst s) w (snd s)) as (_ & _ & _ & E & _). rewrite E in IH. lia.
Qed.

(** * The invariant of the control state (process startable in the parent) *)

Definition Inv (c : cfg) (k : ctl) : Prop :=
  (is_run (s_in k) = true -> s_pc k = PWait) /\
  match s_pc k with
  | PWait =>
      s_proc k = None /\ any_dead k = false /\ s_flag k = false /\ s_reaped k = false /\
      s_timer k = (if c_timeout c then TArmed else TNone)
  | PJoin todo cur ec =>
      s_flag k = true /\ NoDup todo /\ (forall w, is_run (wget k w) = true -> In w todo) /\
      exists w rest b, todo = w :: rest /\ cur = Some b /\ is_run (wget k w) = true
  | PDone o => s_flag k = true /\ (forall w, is_run (wget k w) = false) /\ s_timer k <> TArmed
  | PHang => False
  end.

Lemma wget_set_pc k p w : wget (set_pc k p) w = wget k w.
Proof. destruct w; reflexivity. Qed.

Lemma NoDup_suffix {A} (pre l : list A) : NoDup (pre ++ l) -> NoDup l.
Proof.
  induction pre as [|a pre IH]; cbn; intros H; [exact H|].
  inversion H; subst. apply IH. assumption.
Qed.

Lemma inv_of_joins c k todo cur ec r :
  s_flag k = true -> is_run (s_in k) = false -> NoDup todo ->
  (forall w, is_run (wget k w) = true -> In w todo) ->
  joins_result c k todo cur ec r -> Inv c r.
Proof.
  intros F I N Sub J. inversion J as [Hall Heq | pre w rest Htodo Hpre Hrun Heq]; subst r.
  - split.
    + cbn. intros H. rewrite I in H. discriminate.
    + cbn. split; [exact F|]. split.
      * intros w.
        assert (W : wget (ctl_done c k ec) w = wget k w) by (destruct w; reflexivity).
        rewrite W. destruct (is_run (wget k w)) eqn:R; [|reflexivity].
        rewrite (Hall w (Sub w R)) in R. discriminate.
      * destruct (s_timer k); discriminate.
  - split.
    + cbn. intros H. rewrite I in H. discriminate.
    + cbn. split; [exact F|]. split; [|split].
      * rewrite Htodo in N. apply (NoDup_suffix pre). exact N.
      * intros x Hx. rewrite wget_set_pc in Hx. specialize (Sub x Hx). rewrite Htodo in Sub.
        apply in_app_or in Sub. destruct Sub as [P|P]; [|exact P].
        rewrite (Hpre x P) in Hx. discriminate.
      * exists w, rest. eexists. split; [reflexivity|]. split; [reflexivity|].
        rewrite wget_set_pc. exact Hrun.
Qed.

Lemma leave_wait_inv c s ec : Inv c (fst (leave_wait c s ec)).
Proof.
  unfold leave_wait.
  set (k1 := mkCtl (s_proc (fst s)) (s_reaped (fst s)) (s_out (fst s))
                   (if is_run (s_in (fst s)) then WDone else s_in (fst s)) (s_err (fst s)) true
                   (s_timer (fst s)) (s_pc (fst s))).
  apply (inv_of_joins c k1 (join_order k1) None ec).
  - reflexivity.
  - cbn. destruct (s_in (fst s)); reflexivity.
  - unfold join_order. apply NoDup_filter.
    repeat constructor; cbn; intuition discriminate.
  - intros w R. unfold join_order. apply filter_In. split.
    + destruct w; cbn; tauto.
    + destruct (wget k1 w); try discriminate; reflexivity.
  - apply (run_joins_result c (join_order k1) (k1, add_steps 1 (snd s)) None ec).
Qed.

Lemma leave_wait_pc c s ec : s_pc (fst (leave_wait c s ec)) <> PWait.
Proof.
  unfold leave_wait.
  match goal with |- s_pc (fst (run_joins c ?s0 ?todo None ec)) <> _ =>
    pose proof (run_joins_result c todo s0 None ec) as J;
    remember (fst (run_joins c s0 todo None ec)) as r eqn:Er end.
  clear Er. inversion J as [Hall Heq | pre w rest Htodo Hpre Hrun Heq]; cbn; discriminate.
Qed.

(** what must hold before the main thread moves on *)
Definition PreInv (c : cfg) (k : ctl) : Prop :=
  match s_pc k with
  | PWait => s_flag k = false /\ s_reaped k = false /\
             (s_proc k = None -> s_timer k = (if c_timeout c then TArmed else TNone))
  | PJoin todo cur ec =>
      s_flag k = true /\ is_run (s_in k) = false /\ NoDup todo /\
      (forall w, is_run (wget k w) = true -> In w todo)
  | _ => Inv c k
  end.

Lemma in_not_running c k : Inv c k -> s_pc k <> PWait -> is_run (s_in k) = false.
Proof.
  intros [H _] P. destruct (is_run (s_in k)); [|reflexivity]. elim P. apply H. reflexivity.
Qed.

Lemma advance_preinv c k n : PreInv c k -> Inv c (fst (advance c (k, n))).
Proof.
  unfold PreInv, advance. cbn [fst snd]. destruct (s_pc k) as [|todo cur ec|o|] eqn:P.
  - intros (F & R & T). destruct (s_proc k) eqn:Pr.
    + apply leave_wait_inv.
    + destruct (any_dead k) eqn:D.
      * apply leave_wait_inv.
      * cbn [fst]. split; [intros _; exact P|]. rewrite P. repeat split; auto.
  - intros (F & I & N & Sub).
    apply (inv_of_joins c k todo cur ec); auto.
    apply (run_joins_result c todo (k, n) cur ec).
  - intros I. exact I.
  - intros I. exact I.
Qed.

Lemma wget_wset_same k w x : wget (wset k w x) w = x.
Proof. destruct w; reflexivity. Qed.
Lemma wget_wset_other k w w' x : w <> w' -> wget (wset k w x) w' = wget k w'.
Proof. destruct w, w'; intros H; try reflexivity; elim H; reflexivity. Qed.

Lemma pc_wset k w x : s_pc (wset k w x) = s_pc k.
Proof. destruct w; reflexivity. Qed.
Lemma flag_wset k w x : s_flag (wset k w x) = s_flag k.
Proof. destruct w; reflexivity. Qed.

(** workers never start running again, whatever the event *)
Lemma apply_ev_join c k n e todo cur ec :
  s_pc k = PJoin todo cur ec ->
  let k' := fst (apply_ev c (k, n) e) in
  s_pc k' = PJoin todo cur ec /\ s_flag k' = s_flag k /\
  (forall w, is_run (wget k' w) = true -> is_run (wget k w) = true).
Proof.
  intros P. unfold apply_ev. cbn [fst snd]. unfold running. rewrite P. cbn [negb].
  destruct e as [w|w|code|code| |w x|]; cbn [fst];
  repeat match goal with
  | |- context [match ?w with WOut => _ | WIn => _ | WErr => _ end] => is_var w; destruct w
  | |- context [if is_run ?x then _ else _] => destruct (is_run x) eqn:?
  | |- context [match s_proc k with _ => _ end] => destruct (s_proc k)
  | |- context [match s_timer k with _ => _ end] => destruct (s_timer k)
  end; cbn [fst]; rewrite ?pc_wset, ?flag_wset;
  (split; [exact P | split; [reflexivity | ]]);
  intros w' H'; try (destruct w); destruct w'; cbn in *; try exact H'; try congruence.
Qed.

Lemma preinv_of_inv c k : Inv c k -> s_pc k <> PWait -> PreInv c k.
Proof.
  unfold PreInv. intros I P. pose proof (in_not_running c k I P) as Hin.
  destruct (s_pc k) eqn:E; [elim P; reflexivity | | exact I | exact I].
  destruct I as [_ HI]. rewrite E in HI. destruct HI as (F & N & Sub & _). auto.
Qed.

Lemma apply_ev_wait c k n e :
  Inv c k -> s_pc k = PWait -> PreInv c (fst (apply_ev c (k, n) e)).
Proof.
  intros [Hin HI] P. rewrite P in HI. destruct HI as (Pr & D & F & R & T).
  unfold apply_ev. cbn [fst snd]. unfold running. rewrite P. cbn [negb].
  destruct e as [w|w|code|code| |w x|]; cbn [fst].
  - assert (G : PreInv c k) by (unfold PreInv; rewrite P; auto).
    destruct w; try exact G; destruct (is_run (wget k _)); exact G.
  - assert (G : PreInv c k) by (unfold PreInv; rewrite P; auto).
    destruct w; try exact G; (destruct (is_run (wget k _)); [|exact G]);
      unfold PreInv; cbn; rewrite P; auto.
  - rewrite Pr. cbn [fst]. unfold PreInv. cbn. rewrite P. repeat split; auto; try discriminate.
  - apply preinv_of_inv; [apply leave_wait_inv | apply leave_wait_pc].
  - unfold PreInv. rewrite T, Pr. destruct (c_timeout c) eqn:CT; cbn [fst]; cbn; rewrite P;
      repeat split; auto; try discriminate.
  - destruct (is_run (wget k w)); cbn [fst]; unfold PreInv; rewrite ?pc_wset, P, ?flag_wset;
      repeat split; auto; destruct w; cbn; auto.
  - unfold PreInv. cbn. rewrite P. auto.
Qed.

Lemma apply_ev_over c s e : running (fst s) = false -> apply_ev c s e = s.
Proof. intros H. unfold apply_ev. rewrite H. reflexivity. Qed.

Lemma step_inv c s e : Inv c (fst s) -> Inv c (fst (step c s e)).
Proof.
  destruct s as [k n]. cbn [fst]. intros I. unfold step.
  destruct (s_pc k) as [|todo cur ec|o|] eqn:P.
  - apply advance_preinv. apply (apply_ev_wait c k n e I P).
  - destruct (apply_ev_join c k n e todo cur ec P) as (P' & F' & Sub').
    apply advance_preinv. unfold PreInv. rewrite P'.
    pose proof I as I0. destruct I as [Hin HI]. rewrite P in HI. destruct HI as (F & N & Sub & _).
    assert (Rin : is_run (s_in k) = false) by (apply (in_not_running c k I0); rewrite P; discriminate).
    split; [rewrite F'; exact F|]. split; [|split; [exact N|]].
    + destruct (is_run (s_in (fst (apply_ev c (k, n) e)))) eqn:R; [|reflexivity].
      specialize (Sub' WIn R). cbn in Sub'. rewrite Rin in Sub'. discriminate.
    + intros x Hx. apply Sub. apply Sub'. exact Hx.
  - rewrite apply_ev_over by (unfold running; cbn; rewrite P; reflexivity).
    unfold advance. cbn [fst]. rewrite P. exact I.
  - destruct I as [_ HI]. rewrite P in HI. elim HI.
Qed.

Lemma run_events_inv c : forall script s, Inv c (fst s) -> Inv c (fst (run_events c s script)).
Proof.
  induction script as [|e r IH]; intros s I; [exact I|].
  cbn [run_events fold_left]. apply IH. apply step_inv. exact I.
Qed.

Lemma init_inv c : start_raises c = false -> Inv c (fst (advance c (init c))).
Proof.
  intros H. unfold init. rewrite H. apply advance_preinv. unfold PreInv. cbn. auto.
Qed.
