(** C03, environment clause and views of the whole-script theorem.

    For type-consistent, well-formed section levels [lo] (below the environment)
    and [hi] (above it):
    - the merge with an empty environment level cannot fail, and its result is
      accepted by [view_ok];
    - what [EnvModel.load] computes from that view is accepted by the C03
      reading of the environment clause ([env_outcome_ok], stated on the levels
      and the per-setting oracle -- no merged view in sight);
    - the merge with that environment level inserted cannot fail either, and
      its result is accepted by [view_ok].
    Reuses the C16 theorems ([load_meets_spec], [load_never_creates]) and the
    generic insertion lemmas of Proofs/C16_view_shapes.v. *)
From InvokeVerif Require Import Common.Tree Common.StrUtil Model.MergeModel Model.EnvModel
     Model.ConfigModel Spec.C03Spec Proofs.ListFacts Proofs.TreeFacts Proofs.C03_merge
     Proofs.C03_levels Proofs.C06_shapes Proofs.C16_env Proofs.C16_view_shapes.

(** * Lists up to membership *)
Definition seq {A} (l1 l2 : list A) : Prop := forall x, In x l1 <-> In x l2.

Lemma existsb_seq {A} (f g : A -> bool) l1 l2 :
  (forall x, f x = g x) -> seq l1 l2 -> existsb f l1 = existsb g l2.
Proof.
  intros Hfg H. destruct (existsb f l1) eqn:E1; symmetry.
  - apply existsb_exists in E1 as [x [Hx Fx]]. apply existsb_exists. exists x.
    split; [apply H; exact Hx | rewrite <- Hfg; exact Fx].
  - destruct (existsb g l2) eqn:E2; [|reflexivity].
    apply existsb_exists in E2 as [x [Hx Gx]].
    assert (existsb f l1 = true) by (apply existsb_exists; exists x; split; [apply H; exact Hx | rewrite Hfg; exact Gx]).
    congruence.
Qed.

Lemma forallb_seq {A} (f g : A -> bool) l1 l2 :
  (forall x, f x = g x) -> seq l1 l2 -> forallb f l1 = forallb g l2.
Proof.
  intros Hfg H. destruct (forallb g l2) eqn:E2.
  - rewrite forallb_forall in *. intros x Hx. rewrite Hfg. apply E2, H, Hx.
  - destruct (forallb f l1) eqn:E1; [|reflexivity].
    assert (forallb g l2 = true).
    { rewrite forallb_forall in *. intros x Hx. rewrite <- Hfg. apply E1, H, Hx. }
    congruence.
Qed.

Lemma flat_map_seq {A B} (f g : A -> list B) l1 l2 :
  (forall x, f x = g x) -> seq l1 l2 -> seq (flat_map f l1) (flat_map g l2).
Proof.
  intros Hfg H y. rewrite !in_flat_map. split; intros [x [Hx Hy]]; exists x.
  - split; [apply H; exact Hx | rewrite <- Hfg; exact Hy].
  - split; [apply H; exact Hx | rewrite Hfg; exact Hy].
Qed.

Lemma map_seq {A B} (f : A -> B) l1 l2 : seq l1 l2 -> seq (map f l1) (map f l2).
Proof.
  intros H y. rewrite !in_map_iff. split; intros [x [E Hx]]; exists x; (split; [exact E | apply H; exact Hx]).
Qed.

Lemma subset_pv_seq a1 a2 b1 b2 : seq a1 a2 -> seq b1 b2 -> subset_pv a1 b1 = subset_pv a2 b2.
Proof.
  intros Ha Hb. unfold subset_pv. apply forallb_seq; [|exact Ha].
  intros x. apply existsb_seq; [reflexivity | exact Hb].
Qed.

(** * The environment clause as a function of the list of settings *)
Definition judge_nm (nm : list (path * result value)) (obs : result tree) : bool :=
  if existsb (fun pc => is_err (snd pc)) nm then
    match obs with
    | Err e => existsb (fun pc => match snd pc with Err e' => err_eqb e e' | Ok _ => false end) nm
    | Ok _ => false
    end
  else
    match obs with
    | Err _ => false
    | Ok envl =>
        let want := flat_map (fun pc => match snd pc with Ok v => [(fst pc, v)] | Err _ => [] end) nm in
        let got := leaf_paths envl in
        wf envl && no_empty_sections envl && is_node envl &&
        subset_pv want got && subset_pv got want
    end.

Lemma judge_nm_seq nm1 nm2 obs : seq nm1 nm2 -> judge_nm nm1 obs = judge_nm nm2 obs.
Proof.
  intros H. unfold judge_nm.
  rewrite (existsb_seq (fun pc => is_err (snd pc)) (fun pc => is_err (snd pc)) nm1 nm2 (fun _ => eq_refl) H).
  destruct (existsb (fun pc => is_err (snd pc)) nm2).
  - destruct obs as [t|e]; [reflexivity|]. apply existsb_seq; [reflexivity | exact H].
  - destruct obs as [t|e]; [|reflexivity]. cbv zeta.
    assert (Hw : seq (flat_map (fun pc : path * result value => match snd pc with Ok v => [(fst pc, v)] | Err _ => [] end) nm1)
                     (flat_map (fun pc : path * result value => match snd pc with Ok v => [(fst pc, v)] | Err _ => [] end) nm2))
      by (apply flat_map_seq; [reflexivity | exact H]).
    rewrite (subset_pv_seq _ _ (leaf_paths t) (leaf_paths t) Hw (fun _ => iff_refl _)).
    rewrite (subset_pv_seq (leaf_paths t) (leaf_paths t) _ _ (fun _ => iff_refl _) Hw). reflexivity.
Qed.

Definition nm_fun (pfx : string) (env : list (string * string)) (pv : path * value)
  : list (path * result value) :=
  match lookup_env (pfx ++ var_name (fst pv)) env with
  | Some s => [(fst pv, convert (snd pv) s)]
  | None => []
  end.

Lemma env_outcome_unfold pfx env ls obs :
  env_outcome_ok pfx env ls obs =
  if ambiguous_settings (settings ls) then match obs with Err EAmbigEnv => true | _ => false end
  else judge_nm (flat_map (nm_fun pfx env) (settings ls)) obs.
Proof. reflexivity. Qed.

Definition obs_tree (o : result dict) : result tree :=
  match o with Ok d => Ok (Node d) | Err e => Err e end.

Lemma c16_spec_unfold t pfx env obs :
  C16Spec.spec_ok t pfx env obs =
  if ambiguous t then match obs with Err EAmbigEnv => true | _ => false end
  else judge_nm (flat_map (nm_fun pfx env) (leaf_paths t)) (obs_tree obs).
Proof.
  unfold C16Spec.spec_ok. destruct (ambiguous t); [reflexivity|]. cbv zeta.
  assert (E : map (fun x : path * value * string => (fst (fst x), convert (snd (fst x)) (snd x)))
                  (applicable t pfx env) = flat_map (nm_fun pfx env) (leaf_paths t)).
  { unfold applicable. rewrite map_flat_map. apply flat_map_ext. intros pv. unfold nm_fun.
    destruct (lookup_env (pfx ++ var_name (fst pv)) env); reflexivity. }
  rewrite E. unfold judge_nm.
  destruct (existsb (fun pc => is_err (snd pc)) (flat_map (nm_fun pfx env) (leaf_paths t)));
    destruct obs as [d|e]; try reflexivity.
  cbn [obs_tree is_node]. rewrite andb_true_r. reflexivity.
Qed.

Lemma ambiguous_seq st t :
  seq st (leaf_paths t) -> ambiguous_settings st = ambiguous t.
Proof.
  intros H. unfold ambiguous_settings, ambiguous. cbv zeta.
  rewrite existsb_map.
  apply existsb_seq; [|exact H]. intros a.
  rewrite existsb_map. apply existsb_seq; [reflexivity | exact H].
Qed.

(** Same settings (as a set): same judgement. *)
Lemma env_outcome_is_c16 pfx env ls t obs :
  seq (settings ls) (leaf_paths t) ->
  env_outcome_ok pfx env ls (obs_tree obs) = C16Spec.spec_ok t pfx env obs.
Proof.
  intros H. rewrite env_outcome_unfold, c16_spec_unfold, (ambiguous_seq _ _ H).
  destruct (ambiguous t); [destruct obs as [d|[]]; reflexivity|].
  apply judge_nm_seq. apply flat_map_seq; [reflexivity | exact H].
Qed.

(** * Merging with empty levels around *)
Lemma merge_all_norm : forall ls acc, merge_all (map norm ls) acc = merge_all ls acc.
Proof.
  induction ls as [|l r IH]; intros acc; [reflexivity|]. cbn [map merge_all].
  destruct l as [v|kids]; cbn [norm].
  - change (merge_dicts acc (Node [])) with (Ok acc : result dict).
    change (merge_dicts acc (Leaf v)) with (Ok acc : result dict). apply IH.
  - destruct (merge_dicts acc (Node kids)); [apply IH | reflexivity].
Qed.

Lemma merge_all_skip_empty : forall a b acc,
  merge_all (a ++ Node [] :: b) acc = merge_all (a ++ b) acc.
Proof.
  induction a as [|l a IH]; intros b acc; [reflexivity|].
  cbn [app merge_all]. destruct (merge_dicts acc l); [apply IH | reflexivity].
Qed.

Lemma oracle_skip_empty q a b : q <> [] -> oracle q (a ++ Node [] :: b) = oracle q (a ++ b).
Proof.
  intros Hq. rewrite !oracle_app, oracle_cons, shape_at_empty by exact Hq.
  rewrite orelse_none_r. reflexivity.
Qed.

Lemma oracle_snoc_empty q a : q <> [] -> oracle q (a ++ [Node []]) = oracle q a.
Proof. intros Hq. rewrite oracle_skip_empty by exact Hq. rewrite app_nil_r. reflexivity. Qed.

Lemma shape_eqb_refl s : shape_eqb s s = true.
Proof. destruct s as [[v|]|]; simpl; auto. apply value_eqb_eq. reflexivity. Qed.

Lemma view_ok_of_shapes ls v :
  ls <> [] -> forallb is_node ls = true -> wf (Node v) = true ->
  (forall q, q <> [] -> shape_at q (Node v) = oracle q ls) ->
  view_ok ls (Node v) = true.
Proof.
  intros Hne Hn Hw Hs. unfold view_ok. rewrite Hw. cbn [andb].
  apply forallb_forall. intros p _. destruct p as [|k p].
  - rewrite oracle_root by assumption. reflexivity.
  - rewrite Hs by discriminate. apply shape_eqb_refl.
Qed.

(** * The three facts *)
Section Levels.
  Variables (lo hi : list tree).
  Hypothesis Hne : lo <> [].
  Hypothesis Hwf : forallb wf (lo ++ hi) = true.
  Hypothesis Hnode : forallb is_node (lo ++ hi) = true.
  Hypothesis Htc : levels_tc (lo ++ hi) = true.

  Let hi' := hi ++ [Node []].

  Lemma lv_ok : forall l, In l (lo ++ hi') -> wf l = true /\ is_node l = true.
  Proof.
    intros l Hin. unfold hi' in Hin. rewrite app_assoc in Hin. apply in_app_iff in Hin as [Hin|[<-|[]]].
    - rewrite forallb_forall in Hwf, Hnode. auto.
    - split; reflexivity.
  Qed.

  Lemma lv_pair : forall a b, In a (lo ++ hi') -> In b (lo ++ hi') -> agree a b.
  Proof.
    intros a b Ha Hb. pose proof (lv_ok a Ha) as [_ Na]. pose proof (lv_ok b Hb) as [_ Nb].
    unfold hi' in Ha, Hb. rewrite app_assoc in Ha, Hb.
    apply in_app_iff in Ha as [Ha|[<-|[]]]; apply in_app_iff in Hb as [Hb|[<-|[]]].
    - apply levels_tc_agree with (ls := lo ++ hi); assumption.
    - apply agree_sym, agree_empty_isnode; assumption.
    - apply agree_empty_isnode; assumption.
    - apply agree_refl.
  Qed.

  Lemma lo_hi_ne : lo ++ hi <> [].
  Proof. destruct lo; [congruence | discriminate]. Qed.

  (** 1. the merge with an empty environment level *)
  Lemma pre_merge :
    exists d0, merge_all (lo ++ Node [] :: hi') [] = Ok d0 /\ wf (Node d0) = true /\
               (forall q, q <> [] -> shape_at q (Node d0) = oracle q (lo ++ hi)) /\
               view_ok (lo ++ Node [] :: hi) (Node d0) = true.
  Proof.
    destruct (merge_all_oracle (lo ++ hi') lv_ok lv_pair) as [m [Em [Wm Sm]]].
    exists m. rewrite merge_all_skip_empty. split; [exact Em|]. split; [exact Wm|].
    assert (S : forall q, q <> [] -> shape_at q (Node m) = oracle q (lo ++ hi)).
    { intros q Hq. rewrite (Sm q Hq). unfold hi'. rewrite app_assoc. apply oracle_snoc_empty. exact Hq. }
    split; [exact S|].
    apply view_ok_of_shapes.
    - destruct lo; [congruence | discriminate].
    - rewrite forallb_app in *. cbn [forallb is_node]. apply andb_true_iff in Hnode as [-> ->]. reflexivity.
    - exact Wm.
    - intros q Hq. rewrite oracle_skip_empty by exact Hq. apply S. exact Hq.
  Qed.

  (** 2. the settings the oracle defines are the leaves of that merge *)
  Lemma settings_are_leaves d0 :
    wf (Node d0) = true -> (forall q, q <> [] -> shape_at q (Node d0) = oracle q (lo ++ hi)) ->
    seq (settings (lo ++ hi)) (leaf_paths (Node d0)).
  Proof.
    intros Wm S [p v]. rewrite (leaf_paths_leaf_at (Node d0) Wm), leaf_at_shape.
    unfold settings. rewrite in_flat_map. split.
    - intros [p' [_ Hin]]. destruct (oracle p' (lo ++ hi)) as [[x|]|] eqn:Eo; try contradiction.
      destruct Hin as [E|[]]. inversion E; subst p' x.
      destruct p as [|k p].
      + rewrite oracle_root in Eo by (exact lo_hi_ne || exact Hnode). discriminate.
      + rewrite S by discriminate. exact Eo.
    - intros Hs. destruct p as [|k p]; [discriminate|].
      rewrite S in Hs by discriminate. exists (k :: p). split.
      + apply oracle_in in Hs as [L [HL EL]]. apply in_flat_map. exists L. split; [exact HL|].
        unfold shape_at in EL. destruct (lookup (k :: p) L) as [t'|] eqn:El; [|discriminate].
        eapply all_paths_complete; exact El.
      + rewrite Hs. left; reflexivity.
  Qed.

  (** 3. what [load] computes is accepted by the environment clause *)
  Lemma env_clause d0 pfx env :
    wf (Node d0) = true -> (forall q, q <> [] -> shape_at q (Node d0) = oracle q (lo ++ hi)) ->
    env_outcome_ok pfx env (lo ++ hi) (obs_tree (load (Node d0) pfx env)) = true.
  Proof.
    intros Wm S. rewrite (env_outcome_is_c16 pfx env (lo ++ hi) (Node d0)).
    - apply load_meets_spec. exact Wm.
    - apply settings_are_leaves; assumption.
  Qed.

  (** 4. the merge with that environment level inserted *)
  Lemma post_merge d0 pfx env d :
    merge_all (lo ++ Node [] :: hi') [] = Ok d0 ->
    load (Node d0) pfx env = Ok d ->
    exists d1, merge_all (lo ++ Node d :: hi') [] = Ok d1 /\
               view_ok (lo ++ Node d :: hi) (Node d1) = true.
  Proof.
    intros E0 El. rewrite merge_all_skip_empty in E0.
    destruct (merge_all_oracle (lo ++ hi') lv_ok lv_pair) as [m [Em [Wm Sm]]].
    rewrite E0 in Em. inversion Em; subst m.
    pose proof (load_meets_spec d0 pfx env Wm) as Hspec. rewrite El in Hspec.
    assert (Wd : wf (Node d) = true /\ no_empty_sections (Node d) = true).
    { revert Hspec. unfold C16Spec.spec_ok. destruct (ambiguous (Node d0)); [discriminate|].
      destruct (existsb _ _); [discriminate|].
      intros H. apply andb_true_iff in H as [H _]. apply andb_true_iff in H as [H _].
      apply andb_true_iff in H. exact H. }
    destruct Wd as [Wd Nd].
    assert (Hsub : sub (Node d) (Node (obliterate d0 (Node [])))).
    { apply sub_of_leaves; try assumption. intros q w Hin.
      destruct (load_never_creates d0 pfx env d Wm El q w Hin) as [old [s [Hold _]]].
      exists old. exact Hold. }
    destruct (insert_shape lo hi' (Node d) (Node []) d0 lv_ok lv_pair eq_refl Wd eq_refl E0 Hsub)
      as [d1 [E1 [W1 S1]]].
    exists d1. split; [exact E1|].
    change (obliterate d1 (Node [])) with d1 in *.
    apply view_ok_of_shapes.
    - destruct lo; [congruence | discriminate].
    - rewrite forallb_app in *. cbn [forallb is_node]. apply andb_true_iff in Hnode as [-> ->]. reflexivity.
    - exact W1.
    - intros q Hq. rewrite (S1 q Hq).
      assert (Hm : maskedt (Node []) q = false) by (destruct q; reflexivity).
      rewrite Hm. rewrite oracle_app, oracle_cons, orelse_assoc.
      unfold hi'. rewrite oracle_snoc_empty by exact Hq. reflexivity.
  Qed.
End Levels.
