(** C14, the wait loop: what [Model.WaitLoopModel] says about the pauses between two
    looks at the process, and about when an exit is noticed. *)
From Coq Require Import NArith List Bool Lia.
Import ListNotations.
From InvokeVerif Require Import Model.WaitLoopModel Spec.C14WaitSpec.

(** every pause is exactly [input_sleep], whatever the looks find and however many there are *)
Lemma wait_loop_exact s looks d : In d (wait_loop s looks) -> d = s.
Proof.
  induction looks as [|b r IH]; cbn [wait_loop]; [intros []|].
  destruct b; [intros []|]. intros [E|I]; [symmetry; exact E|exact (IH I)].
Qed.

(** one pause per look that found the command still running, up to the first that did not *)
Lemma wait_loop_repeat s n rest : wait_loop s (repeat false n ++ true :: rest) = repeat s n.
Proof. induction n as [|n IH]; cbn [repeat app wait_loop]; [reflexivity|]. rewrite IH. reflexivity. Qed.

Lemma wait_sleeps_repeat s n : wait_sleeps s n = repeat s n.
Proof. unfold wait_sleeps. apply wait_loop_repeat. Qed.

(** the model meets the spec: no pause is longer than [input_sleep] -- every
    [input_sleep], every sequence of looks (any age of the command) *)
Theorem wait_meets_spec s looks : wait_ok s (wait_loop s looks) = true.
Proof.
  unfold wait_ok. apply forallb_forall. intros d I. rewrite (wait_loop_exact _ _ _ I).
  apply N.leb_refl.
Qed.

(** the pauses do not depend on what happened before: the loop after [n] idle looks
    goes on exactly like a fresh one *)
Theorem wait_loop_ageless s n looks :
  wait_loop s (repeat false n ++ looks) = repeat s n ++ wait_loop s looks.
Proof. induction n as [|n IH]; cbn [repeat app wait_loop]; [reflexivity|]. rewrite IH. reflexivity. Qed.

(** in time: an exit at [t] is noticed at or after [t] and less than one [input_sleep] later *)
Theorem exit_noticed_promptly s t : (0 < s)%N -> noticed_promptly s t (noticed_at s t) = true.
Proof.
  intros P. unfold noticed_promptly, noticed_at, looks_before.
  apply andb_true_iff. split; [apply N.leb_le|apply N.ltb_lt].
  - pose proof (N.div_mod (t + s - 1) s ltac:(lia)) as D.
    pose proof (N.mod_lt (t + s - 1) s ltac:(lia)) as M. nia.
  - pose proof (N.mul_div_le (t + s - 1) s ltac:(lia)) as D. nia.
Qed.

(** and it is noticed by the first look that is not earlier than the exit *)
Theorem noticed_by_first_look_after s t k :
  (0 < s)%N -> (t <= k * s)%N -> (looks_before s t <= k)%N.
Proof.
  intros P L. unfold looks_before.
  apply N.lt_succ_r. apply N.div_lt_upper_bound; [lia|]. nia.
Qed.
