(** C01 proof, part 5: from occurrences to calls to the whole command line, and
    the agreement between the model-side state ([run_occ]) and the
    specification's [expected] values. *)
From InvokeVerif Require Import Corr.C01Corr Proofs.ListFacts Proofs.C07_fuel
     Proofs.C01_steps Proofs.C01_tokens Proofs.C01_lookup Proofs.C01_occ.
From Coq Require Import Lia.

(** ** Values: model side = specification side *)

(** the specification's [value_after] without the "first list value replaces
    the default" flag (irrelevant when list defaults are empty) *)
Definition vstep (a : argspec) (j : nat) (v : aval) (o : occ) : aval :=
  if Nat.eqb (o_arg o) j then apply_occ a v false o else v.

Definition vafter (a : argspec) (j : nat) (cur : aval) (os : list occ) : aval :=
  fold_left (vstep a j) os cur.

Lemma apply_occ_first a cur o :
  (a_kind a = KList -> cur = AList []) -> apply_occ a cur true o = apply_occ a cur false o.
Proof.
  intros H. unfold apply_occ. destruct (o_val o); try reflexivity.
  destruct (a_kind a) eqn:K; try reflexivity. rewrite (H eq_refl). reflexivity.
Qed.

Lemma value_after_vafter a j : forall os cur seen,
  (seen = false -> a_kind a = KList -> cur = AList []) ->
  value_after a j cur seen os = vafter a j cur os.
Proof.
  induction os as [|o os IH]; intros cur seen H; [reflexivity|].
  cbn [value_after vafter fold_left]. unfold vstep at 2.
  destruct (Nat.eqb (o_arg o) j).
  - rewrite IH by (intros E; discriminate E).
    destruct seen; simpl; [reflexivity|]. rewrite apply_occ_first by (apply H; reflexivity).
    reflexivity.
  - apply IH. exact H.
Qed.

Lemma declared_default_list a :
  list_default_ok a = true -> a_kind a = KList -> declared_default a = AList [].
Proof.
  unfold list_default_ok, declared_default. intros L K. rewrite K in *.
  apply andb_true_iff in L. destruct L as [Ni L]. rewrite negb_true_iff in Ni. rewrite Ni.
  destruct (a_default a) as [| | | |l]; try reflexivity. destruct l; [reflexivity | discriminate].
Qed.

Lemma init_arg_value a : list_default_ok a = true -> arg_value (init_arg a) = declared_default a.
Proof.
  intros L. unfold arg_value, init_arg, init_value, declared_default. cbn [r_val r_spec].
  destruct (a_incrementable a) eqn:Inc.
  - destruct (a_default a) eqn:D; simpl; rewrite ?D; destruct (a_kind a); try reflexivity;
      unfold list_default_ok in L; try (rewrite Inc in L; discriminate L).
  - destruct (a_kind a) eqn:K; simpl; try (destruct (a_default a); reflexivity).
    unfold list_default_ok in L. rewrite K, Inc in L. simpl in L.
    destruct (a_default a) as [| | | |l]; try reflexivity. destruct l; [reflexivity | discriminate].
Qed.

(** exact value after a successful [set_value] in the covered forms *)
Lemma set_value_agrees r o r' :
  set_value r (occ_input o) true = Ok r' ->
  a_incrementable (r_spec r) = false ->
  match o_val o with
  | VB _ => a_kind (r_spec r) = KBool
  | VS _ => a_kind (r_spec r) <> KBool
  | _ => False
  end ->
  arg_value r' = apply_occ (r_spec r) (arg_value r) false o.
Proof.
  unfold set_value, new_value, occ_input, apply_occ. intros SV Ninc H. rewrite Ninc in SV.
  destruct (o_val o) as [b|n|s|]; try contradiction.
  - rewrite H in SV. simpl in SV. injection SV as <-. reflexivity.
  - destruct (a_kind (r_spec r)) eqn:K; try congruence; simpl in SV.
    + injection SV as <-. reflexivity.
    + destruct (parse_int s); [|discriminate]. injection SV as <-. reflexivity.
    + destruct (arg_value r) as [| | | |l] eqn:V; try discriminate. injection SV as <-. reflexivity.
    + destruct (cast_other ko_default ko_table s); try discriminate. injection SV as <-. reflexivity.
Qed.

Definition vals_ok (os : list occ) (args : list rarg) : Prop :=
  forall j r, nth_error args j = Some r ->
    arg_value r = vafter (r_spec r) j (declared_default (r_spec r)) os.

Lemma vafter_snoc a j cur os o : vafter a j cur (os ++ [o]) = vstep a j (vafter a j cur os) o.
Proof. unfold vafter. rewrite fold_left_app. reflexivity. Qed.

Lemma run_occ_vals c given o args os :
  ctx_guard c = true -> occ_simple c given o = true -> st_ok c given args ->
  vals_ok os args -> vals_ok (os ++ [o]) (run_occ args o).
Proof.
  intros G Os St V. unfold run_occ.
  unfold occ_simple in Os. destruct (nth_error (cx_args c) (o_arg o)) as [a|] eqn:Na; [|discriminate].
  apply andb_true_iff in Os. destruct Os as [_ Os].
  pose proof (so_shape _ _ _ St) as Sh.
  destruct (nth_error_map_inv r_spec args (o_arg o) a) as [r [Nr Sr]]; [rewrite Sh; exact Na|].
  rewrite Nr.
  assert (Keep : forall j rj, nth_error args j = Some rj -> o_arg o <> j ->
                 arg_value rj = vafter (r_spec rj) j (declared_default (r_spec rj)) (os ++ [o])).
  { intros j rj Nj Ne. rewrite vafter_snoc. unfold vstep.
    destruct (Nat.eqb (o_arg o) j) eqn:E; [apply Nat.eqb_eq in E; congruence|]. apply V. exact Nj. }
  destruct (set_value r (occ_input o) true) as [r'|] eqn:SV.
  2:{ (* impossible under the guards: show it by the same case analysis as occ_steps *)
      exfalso. unfold set_value, new_value, occ_input in SV.
      destruct (o_form o); try discriminate; destruct (o_val o) as [b|n|s|] eqn:Vo; try discriminate.
      - destruct b; [|discriminate]. rewrite !andb_true_iff, negb_true_iff in Os. destruct Os as [Kb Ni].
        rewrite Sr, Ni in SV. destruct (a_kind a); discriminate.
      - destruct b; [discriminate|]. rewrite !andb_true_iff, negb_true_iff in Os. destruct Os as [[Kb Ni] _].
        rewrite Sr, Ni in SV. destruct (a_kind a); discriminate.
      - rewrite !andb_true_iff in Os. destruct Os as [[[[Tv _] _] Hint] _].
        assert (Tv' : takes_value (r_spec r) = true) by (rewrite Sr; exact Tv).
        destruct (set_value_str r s Tv') as [r' [SV' _]].
        { rewrite Sr. exact Hint. }
        { intros K. eapply (so_list _ _ _ St); eauto. }
        unfold set_value, new_value in SV'. rewrite SV in SV'. discriminate.
      - rewrite !andb_true_iff in Os. destruct Os as [[[[Tv _] _] Hint] _].
        assert (Tv' : takes_value (r_spec r) = true) by (rewrite Sr; exact Tv).
        destruct (set_value_str r s Tv') as [r' [SV' _]].
        { rewrite Sr. exact Hint. }
        { intros K. eapply (so_list _ _ _ St); eauto. }
        unfold set_value, new_value in SV'. rewrite SV in SV'. discriminate. }
  intros j rj Nj. destruct (Nat.eq_dec (o_arg o) j) as [<-|Ne].
  - rewrite (nth_error_upd_nth_same _ _ _ _ Nr) in Nj. injection Nj as <-.
    assert (Sp : r_spec r' = r_spec r).
    { unfold set_value in SV. destruct (new_value r (occ_input o) true); [|discriminate].
      injection SV as <-. reflexivity. }
    rewrite Sp, vafter_snoc. unfold vstep. rewrite Nat.eqb_refl. rewrite <- (V _ _ Nr).
    apply set_value_agrees; [exact SV | |].
    + rewrite Sr. destruct (o_form o); try discriminate; destruct (o_val o) as [b|n|s|]; try discriminate.
      * destruct b; [|discriminate]. rewrite !andb_true_iff, negb_true_iff in Os. tauto.
      * destruct b; [discriminate|]. rewrite !andb_true_iff, negb_true_iff in Os. tauto.
      * rewrite !andb_true_iff in Os. destruct Os as [[[[Tv _] _] _] _].
        unfold takes_value in Tv. destruct (a_kind a); try discriminate;
          destruct (a_incrementable a); try discriminate; reflexivity.
      * rewrite !andb_true_iff in Os. destruct Os as [[[[Tv _] _] _] _].
        unfold takes_value in Tv. destruct (a_kind a); try discriminate;
          destruct (a_incrementable a); try discriminate; reflexivity.
    + rewrite Sr. destruct (o_form o); try discriminate; destruct (o_val o) as [b|n|s|]; try discriminate.
      * destruct b; [|discriminate]. rewrite !andb_true_iff in Os. destruct Os as [Kb _].
        destruct (a_kind a); try discriminate; reflexivity.
      * destruct b; [discriminate|]. rewrite !andb_true_iff in Os. destruct Os as [[Kb _] _].
        destruct (a_kind a); try discriminate; reflexivity.
      * rewrite !andb_true_iff in Os. destruct Os as [[[[Tv _] _] _] _].
        unfold takes_value in Tv. destruct (a_kind a); try discriminate.
      * rewrite !andb_true_iff in Os. destruct Os as [[[[Tv _] _] _] _].
        unfold takes_value in Tv. destruct (a_kind a); try discriminate.
  - rewrite (nth_error_upd_nth_other _ _ _ _ Ne) in Nj. apply Keep; auto.
Qed.

(** [as_kwargs] with distinct names is the plain list of (name, value) *)
Lemma kw_set_fresh k v d : ~ In k (map fst d) -> kw_set k v d = d ++ [(k, v)].
Proof.
  induction d as [|[k' v'] d IH]; simpl; [reflexivity|]. intros H.
  destruct (String.eqb k k') eqn:E; [apply String.eqb_eq in E; subst; tauto|].
  rewrite IH by tauto. reflexivity.
Qed.

Lemma as_kwargs_fold : forall (args : list rarg) acc,
  NoDup (map fst acc ++ map (fun r => arg_name (r_spec r)) args) ->
  fold_left (fun d r => kw_set (arg_name (r_spec r)) (arg_value r) d) args acc
  = acc ++ map (fun r => (arg_name (r_spec r), arg_value r)) args.
Proof.
  induction args as [|r args IH]; intros acc ND; simpl; [rewrite app_nil_r; reflexivity|].
  simpl in ND. rewrite kw_set_fresh.
  - rewrite IH.
    + rewrite <- app_assoc. reflexivity.
    + rewrite map_app. simpl. rewrite <- app_assoc. simpl. exact ND.
  - apply NoDup_remove_2 in ND. intros H. apply ND. apply in_or_app. left. exact H.
Qed.

Lemma as_kwargs_nodup n al args :
  nodupb (map (fun r => arg_name (r_spec r)) args) = true ->
  as_kwargs (mkRCtx n al args) = map (fun r => (arg_name (r_spec r), arg_value r)) args.
Proof.
  intros ND. unfold as_kwargs. cbn [rc_args]. rewrite as_kwargs_fold; [reflexivity|].
  simpl. apply nodupb_NoDup. exact ND.
Qed.

Lemma kwargs_expected os : forall args specs i,
  map r_spec args = specs ->
  (forall j r, nth_error args j = Some r ->
     arg_value r = value_after (r_spec r) (i + j) (declared_default (r_spec r)) false os) ->
  map (fun r => (arg_name (r_spec r), arg_value r)) args = expected_kwargs_from i specs os.
Proof.
  induction args as [|r args IH]; intros specs i Sh H; simpl in Sh; subst specs; [reflexivity|].
  simpl. f_equal.
  - f_equal. specialize (H 0 r eq_refl). rewrite Nat.add_0_r in H. exact H.
  - apply IH; [reflexivity|]. intros j rj Nj. specialize (H (S j) rj Nj).
    replace (S i + j) with (i + S j) by lia. exact H.
Qed.

(** ** Calls *)

Section Calls.
Variable cs : list ctxspec.
Variable ic : ctxspec.
Let p := mkP cs (Some ic) false.
Let i0 := init_ctx ic.

Definition final_args (c : ctxspec) (os : list occ) : list rarg :=
  fold_left run_occ os (map init_arg (cx_args c)).

Definition final_ctx (k : call) : rctx :=
  match nth_error cs (k_task k) with
  | Some c => with_args (init_ctx c) (final_args c (call_occs k))
  | None => mkRCtx None [] []
  end.

Lemma with_args_twice c a b : with_args (with_args c a) b = with_args c b.
Proof. reflexivity. Qed.

Lemma has_missing_with_args c args : no_missing args = true -> has_missing (with_args c args) = false.
Proof. unfold no_missing, has_missing, with_args. cbn [rc_args]. rewrite negb_true_iff. auto. Qed.

(** all items of a call *)
Lemma items_steps c : forall items given done cur fl got os,
  ctx_guard c = true -> items_simple c given items = true ->
  st_ok c given (rc_args cur) -> vals_ok os (rc_args cur) ->
  inert (MS i0 done cur fl got) ->
  exists fl' got' given',
    let args' := fold_left run_occ (flat_map occs_of items) (rc_args cur) in
    steps p (MS i0 done cur fl got) (flat_map (spell_item c) items)
            (MS i0 done (with_args cur args') fl' got') /\
    inert (MS i0 done (with_args cur args') fl' got') /\
    st_ok c given' args' /\ vals_ok (os ++ flat_map occs_of items) args'.
Proof.
  induction items as [|it items IH]; intros given done cur fl got os G Is St V I.
  - exists fl, got, given. simpl. rewrite app_nil_r.
    replace (with_args cur (rc_args cur)) with cur by (destruct cur; reflexivity).
    split; [apply steps_nil|]. auto.
  - destruct it as [o|l]; [|discriminate]. simpl in Is. apply andb_true_iff in Is.
    destruct Is as [Os Is].
    destruct (occ_steps cs p i0 c given o done cur fl got eq_refl G Os St I)
      as [fl1 [got1 [S1 [I1 St1]]]].
    pose proof (run_occ_vals c given o (rc_args cur) os G Os St V) as V1.
    set (cur1 := with_args cur (run_occ (rc_args cur) o)) in *.
    destruct (IH (given_after given o) done cur1 fl1 got1 (os ++ [o]) G Is St1 V1 I1)
      as [fl2 [got2 [given2 [S2 [I2 [St2 V2]]]]]].
    exists fl2, got2, given2. cbn [flat_map occs_of spell_item app fold_left].
    unfold cur1 in *. cbn [rc_args with_args] in *.
    split; [eapply steps_app; eauto|]. split; [exact I2|]. split; [exact St2|].
    rewrite <- app_assoc in V2. exact V2.
Qed.

Lemma init_st_ok c : ctx_guard c = true -> st_ok c [] (map init_arg (cx_args c)).
Proof.
  intros G. destruct (guard_parts c G) as [_ [_ [_ Ld]]]. split.
  - rewrite map_map. simpl. apply map_id.
  - intros i r N K. apply nth_error_In in N. apply in_map_iff in N. destruct N as [a [<- Ha]].
    simpl in K. unfold init_arg, init_value. cbn [r_val].
    specialize (Ld a Ha). unfold list_default_ok in Ld. rewrite K in Ld.
    apply andb_true_iff in Ld. destruct Ld as [Ni _]. rewrite negb_true_iff in Ni.
    rewrite Ni, K. eauto.
  - intros i r N Tv K _. apply nth_error_In in N. apply in_map_iff in N. destruct N as [a [<- Ha]].
    simpl in *. unfold init_arg, init_value. cbn [r_raw]. unfold takes_value in Tv.
    destruct (a_kind a); try congruence; destruct (a_incrementable a); try discriminate; reflexivity.
  - unfold ctx_guard in G. rewrite !andb_true_iff in G. destruct G as [[_ M] _].
    unfold no_missing. unfold has_missing, init_ctx in M. cbn [rc_args] in M. exact M.
Qed.

Lemma init_vals_ok c : ctx_guard c = true -> vals_ok [] (map init_arg (cx_args c)).
Proof.
  intros G. destruct (guard_parts c G) as [_ [_ [_ Ld]]].
  intros j r N. apply nth_error_In in N. apply in_map_iff in N. destruct N as [a [<- Ha]].
  simpl. apply init_arg_value. auto.
Qed.

Definition call_simple (k : call) : bool :=
  match nth_error cs (k_task k) with
  | Some c => ctx_named (k_as k) c && plain (k_as k) && ctx_guard c && items_simple c [] (k_items k)
  | None => false
  end.

(** after the task-name token: the items of call [k] *)
Lemma call_items_steps k c done fl got :
  nth_error cs (k_task k) = Some c -> call_simple k = true ->
  inert (MS i0 done (init_ctx c) fl got) ->
  exists fl' got',
    steps p (MS i0 done (init_ctx c) fl got) (flat_map (spell_item c) (k_items k))
            (MS i0 done (final_ctx k) fl' got') /\
    inert (MS i0 done (final_ctx k) fl' got') /\
    has_missing (final_ctx k) = false /\
    obs_of_ctx (final_ctx k) = expected_call cs k.
Proof.
  intros N Cs I. unfold call_simple in Cs. rewrite N in Cs. rewrite !andb_true_iff in Cs.
  destruct Cs as [[[Nm Pl] G] Is].
  destruct (items_steps c (k_items k) [] done (init_ctx c) fl got [] G Is (init_st_ok c G)
                        (init_vals_ok c G) I) as [fl' [got' [given' [S [I' [St V]]]]]].
  cbn zeta in *. cbn [rc_args init_ctx] in *.
  assert (E : with_args (init_ctx c) (fold_left run_occ (flat_map occs_of (k_items k))
                                                 (map init_arg (cx_args c))) = final_ctx k).
  { unfold final_ctx, final_args, call_occs. rewrite N. reflexivity. }
  change (mkRCtx (cx_name c) (cx_aliases c) (map init_arg (cx_args c))) with (init_ctx c) in *.
  rewrite E in *.
  exists fl', got'. split; [exact S|]. split; [exact I'|]. split.
  - rewrite <- E. apply has_missing_with_args. exact (so_miss _ _ _ St).
  - unfold obs_of_ctx, expected_call. rewrite N. rewrite <- E.
    unfold with_args. cbn [rc_name init_ctx]. f_equal.
    rewrite as_kwargs_nodup.
    + apply kwargs_expected; [exact (so_shape _ _ _ St)|].
      intros j r Nj. simpl in V. rewrite (V j r Nj). cbn [plus].
      destruct (guard_parts c G) as [_ [_ [_ Ld]]].
      symmetry. apply value_after_vafter. intros _ K. apply declared_default_list; [|exact K].
      apply Ld. apply nth_error_In in Nj.
      pose proof (so_shape _ _ _ St) as Sh. rewrite <- Sh. apply in_map. exact Nj.
    + unfold ctx_guard in G. rewrite !andb_true_iff in G. destruct G as [[[_ Nd] _] _].
      rewrite <- (so_shape _ _ _ St) in Nd. rewrite map_map in Nd. exact Nd.
Qed.

Fixpoint run_calls (done : list rctx) (cur : rctx) (calls : list call) : list rctx * rctx :=
  match calls with
  | [] => (done, cur)
  | k :: rest => run_calls (done ++ [cur]) (final_ctx k) rest
  end.

Lemma run_calls_spec : forall calls done cur,
  fst (run_calls done cur calls) ++ [snd (run_calls done cur calls)]
  = done ++ cur :: map final_ctx calls.
Proof.
  induction calls as [|k rest IH]; intros done cur; simpl; [reflexivity|].
  rewrite IH, <- app_assoc. reflexivity.
Qed.

Hypothesis Pok : parser_ok cs = true.

Lemma named_find k c :
  nth_error cs (k_task k) = Some c -> ctx_named (k_as k) c = true ->
  find_ctx (p_ctxs p) (k_as k) = Some c.
Proof.
  intros N H. unfold parser_ok in Pok. apply andb_true_iff in Pok. destruct Pok as [_ ND].
  eapply find_ctx_unique; eauto.
Qed.

(** a chain of further calls *)
Lemma calls_steps : forall calls done cur fl got,
  forallb call_simple calls = true ->
  inert (MS i0 done cur fl got) -> has_missing cur = false ->
  exists fl' got',
    steps p (MS i0 done cur fl got) (spell cs calls)
            (MS i0 (fst (run_calls done cur calls)) (snd (run_calls done cur calls)) fl' got') /\
    inert (MS i0 (fst (run_calls done cur calls)) (snd (run_calls done cur calls)) fl' got') /\
    has_missing (snd (run_calls done cur calls)) = false /\
    Forall2 (fun k o => o = expected_call cs k) calls (map (fun k => obs_of_ctx (final_ctx k)) calls).
Proof.
  induction calls as [|k rest IH]; intros done cur fl got Cs I Hm.
  - exists fl, got. simpl. split; [apply steps_nil|]. auto.
  - simpl in Cs. apply andb_true_iff in Cs. destruct Cs as [Ck Cr].
    pose proof Ck as Ck'. unfold call_simple in Ck'.
    destruct (nth_error cs (k_task k)) as [c|] eqn:N; [|discriminate].
    rewrite !andb_true_iff in Ck'. destruct Ck' as [[[Nm Pl] G] Is].
    unfold plain in Pl. rewrite negb_true_iff in Pl.
    pose proof (step_task_name p i0 done cur fl got (k_as k) c I Hm Pl (named_find k c N Nm)) as S0.
    assert (I1 : inert (MS i0 (done ++ [cur]) (init_ctx c) fl got)) by (apply inert_snoc; exact I).
    destruct (call_items_steps k c (done ++ [cur]) fl got N Ck I1) as [fl1 [got1 [S1 [I2 [Hm1 Ob]]]]].
    destruct (IH (done ++ [cur]) (final_ctx k) fl1 got1 Cr I2 Hm1) as [fl2 [got2 [S2 [I3 [Hm2 Fa]]]]].
    exists fl2, got2. cbn [run_calls]. split; [|split; [exact I3 | split; [exact Hm2|]]].
    + unfold spell. cbn [flat_map]. unfold spell_call at 1. rewrite N. cbn [app].
      econstructor; [exact S0|]. cbn [app]. eapply steps_app; [exact S1 | exact S2].
    + cbn [map]. constructor; [exact Ob | exact Fa].
Qed.

End Calls.
