(** C17: the model's [task_with_config] follows the reference path and
    returns the deep merge (outer wins) of the configurations along it. *)
From InvokeVerif Require Import Model.CollModel Spec.C17Spec Corr.C17Corr.
From InvokeVerif Require Import Proofs.CollStrings Proofs.C17_merge.

(** * Guards (boolean, on the built tree) *)
(** Every binding name is a fixed point of its collection's [transform],
    contains no dot and is not empty.  ([build] only ever stores transformed
    names -- see C10_build_canonical; dots/empty names are a restriction.) *)
Definition key_ok (ad : bool) (k : string) : bool :=
  String.eqb (transform ad k) k && negb (contains_char "." k) && negb (String.eqb k "").

Fixpoint ns_canon (c : coll) : bool :=
  match c with
  | Coll _ tasks aliases subs _ ad _ =>
      forallb (key_ok ad) (akeys tasks ++ akeys aliases ++ akeys subs) &&
      (fix go (l : list (string * coll)) : bool :=
         match l with [] => true | (_, sc) :: l' => ns_canon sc && go l' end) subs
  end.

(** * Unfolding the nested fixpoints *)
Lemma ns_wf_unfold n tasks aliases subs dflt ad cfg :
  ns_wf (Coll n tasks aliases subs dflt ad cfg) =
  nodupb (akeys tasks ++ akeys aliases ++ akeys subs) &&
  forallb (fun a => mem (snd a) (akeys tasks)) aliases &&
  match dflt with Some d => mem d (akeys tasks) || mem d (akeys subs) | None => true end &&
  wf (Node cfg) && forallb (fun kc => ns_wf (snd kc)) subs.
Proof.
  cbn [ns_wf]. f_equal. induction subs as [|[k sc] l IH]; [reflexivity|].
  cbn [forallb snd]. rewrite IH. reflexivity.
Qed.

Lemma ns_canon_unfold n tasks aliases subs dflt ad cfg :
  ns_canon (Coll n tasks aliases subs dflt ad cfg) =
  forallb (key_ok ad) (akeys tasks ++ akeys aliases ++ akeys subs) &&
  forallb (fun kc => ns_canon (snd kc)) subs.
Proof.
  cbn [ns_canon]. f_equal. induction subs as [|[k sc] l IH]; [reflexivity|].
  cbn [forallb snd]. rewrite IH. reflexivity.
Qed.

Definition sub_twc (subs : list (string * coll)) (k rest : string) : result (taskinfo * dict) :=
  match assoc k subs with Some sc => task_with_config sc rest | None => Err EKey end.

Lemma twc_step_ext s1 s2 tasks aliases hs dflt ad cfg name :
  (forall k r, s1 k r = s2 k r) ->
  twc_step s1 tasks aliases hs dflt ad cfg name = twc_step s2 tasks aliases hs dflt ad cfg name.
Proof.
  intros H. unfold twc_step.
  assert (forall ours nm, twc_nonempty s1 tasks aliases hs ad ours nm =
                          twc_nonempty s2 tasks aliases hs ad ours nm) as Hn.
  { intros ours nm. unfold twc_nonempty.
    destruct (contains_char "." (transform ad nm)).
    - destruct (partition_char "." (transform ad nm)) as [[k fl] r]. rewrite H; reflexivity.
    - destruct (hs (transform ad nm)); [rewrite H|]; reflexivity. }
  destruct (copy_dict (Node cfg)); [|reflexivity].
  destruct (String.eqb name ""); [|apply Hn].
  destruct dflt as [d|]; [|reflexivity].
  destruct (String.eqb d ""); [reflexivity|]. apply Hn.
Qed.

Lemma twc_unfold n tasks aliases subs dflt ad cfg name :
  task_with_config (Coll n tasks aliases subs dflt ad cfg) name =
  twc_step (sub_twc subs) tasks aliases (fun k => has_key k subs) dflt ad cfg name.
Proof.
  cbn [task_with_config]. apply twc_step_ext. intros k r. unfold sub_twc.
  induction subs as [|[k' sc] l IH]; [reflexivity|].
  cbn [assoc]. destruct (String.eqb k k'); [reflexivity | exact IH].
Qed.

Definition sub_ref (subs : list (string * coll)) (k : string) (rest : list string)
  : option (option (taskinfo * list dict)) :=
  match assoc k subs with Some sc => Some (ref_path sc rest) | None => None end.

Lemma ref_step_ext d1 d2 here dflt cfg segs :
  (forall k r, d1 k r = d2 k r) -> ref_step d1 here dflt cfg segs = ref_step d2 here dflt cfg segs.
Proof.
  intros H. unfold ref_step.
  destruct segs as [|s [|s2 rest]]; [destruct dflt as [d|]; [|reflexivity]| |]; rewrite H; reflexivity.
Qed.

Lemma ref_unfold n tasks aliases subs dflt ad cfg segs :
  ref_path (Coll n tasks aliases subs dflt ad cfg) segs =
  ref_step (sub_ref subs) (task_here (Coll n tasks aliases subs dflt ad cfg)) dflt cfg segs.
Proof.
  cbn [ref_path]. apply ref_step_ext. intros k r. unfold sub_ref.
  induction subs as [|[k' sc] l IH]; [reflexivity|].
  cbn [assoc]. destruct (String.eqb k k'); [reflexivity | exact IH].
Qed.

(** * association lists *)
Lemma assoc_In {A} k (v : A) l : assoc k l = Some v -> In (k, v) l.
Proof.
  induction l as [|[k' v'] l IH]; simpl; [discriminate|].
  destruct (String.eqb k k') eqn:E; intros H.
  - apply String.eqb_eq in E; subst. inversion H; subst. left; reflexivity.
  - right; auto.
Qed.

Lemma assoc_In_keys {A} k (v : A) l : assoc k l = Some v -> In k (akeys l).
Proof. intros H. apply assoc_In in H. change k with (fst (k, v)). apply in_map; exact H. Qed.

Lemma assoc_none {A} k (l : list (string * A)) : assoc k l = None <-> ~ In k (akeys l).
Proof.
  induction l as [|[k' v'] l IH]; simpl; [tauto|].
  destruct (String.eqb k k') eqn:E.
  - apply String.eqb_eq in E; subst. split; [discriminate | intros H; exfalso; apply H; left; reflexivity].
  - apply String.eqb_neq in E. rewrite IH. split; intros H.
    + intros [H1|H1]; [congruence | contradiction].
    + intros H1; apply H; right; exact H1.
Qed.

Lemma NoDup_app_disj {A} (l1 l2 : list A) x : NoDup (l1 ++ l2) -> In x l1 -> In x l2 -> False.
Proof.
  induction l1 as [|y l1 IH]; simpl; intros ND H1 H2; [contradiction|].
  inversion ND as [|? ? Hn ND']; subst. destruct H1 as [->|H1].
  - apply Hn. apply in_or_app; right; exact H2.
  - apply (IH ND' H1 H2).
Qed.

Lemma NoDup_app_r {A} (l1 l2 : list A) : NoDup (l1 ++ l2) -> NoDup l2.
Proof. induction l1; simpl; intros H; [exact H|]. inversion H; auto. Qed.

(** * local facts of a well-formed collection *)
Section Local.
  Variables (tasks : list (string * taskinfo)) (aliases : list (string * string))
            (subs : list (string * coll)).
  Hypothesis ND : NoDup (akeys tasks ++ akeys aliases ++ akeys subs).
  Hypothesis AL : forallb (fun a => mem (snd a) (akeys tasks)) aliases = true.

  Lemma task_not_alias k : In k (akeys tasks) -> ~ In k (akeys aliases).
  Proof.
    intros H1 H2. apply (NoDup_app_disj _ _ k ND H1). apply in_or_app; left; exact H2.
  Qed.

  Lemma task_not_sub k : In k (akeys tasks) -> ~ In k (akeys subs).
  Proof.
    intros H1 H2. apply (NoDup_app_disj _ _ k ND H1). apply in_or_app; right; exact H2.
  Qed.

  Lemma alias_not_sub k : In k (akeys aliases) -> ~ In k (akeys subs).
  Proof.
    intros H1 H2. apply (NoDup_app_disj _ _ k (NoDup_app_r _ _ ND) H1 H2).
  Qed.

  Lemma lex_get_here n dflt ad cfg s :
    lex_get tasks aliases s =
    match task_here (Coll n tasks aliases subs dflt ad cfg) s with
    | Some t => Ok t
    | None => Err EKey
    end.
  Proof.
    unfold lex_get, lex_resolve, task_here. cbn [c_tasks c_aliases].
    destruct (assoc s aliases) as [target|] eqn:Ea.
    - assert (In s (akeys aliases)) as Hs by (eapply assoc_In_keys; eauto).
      assert (assoc s tasks = None) as Hst.
      { apply assoc_none. intros H. apply (task_not_alias _ H Hs). }
      rewrite Hst.
      assert (In target (akeys tasks)) as Ht.
      { rewrite forallb_forall in AL. apply assoc_In in Ea. specialize (AL _ Ea). simpl in AL.
        apply mem_In; exact AL. }
      assert (assoc target aliases = None) as Hta.
      { apply assoc_none. apply task_not_alias; exact Ht. }
      destruct aliases as [|a0 al]; [discriminate|].
      cbn [List.length resolve]. rewrite Ea, Hta.
      destruct (assoc target tasks); reflexivity.
    - cbn [resolve]. rewrite Ea. destruct (assoc s tasks); reflexivity.
  Qed.
End Local.

(** * names and their segments *)
Definition variant (a b : string) : Prop := forall ad, transform ad a = transform ad b.

Lemma variant_transform b s : variant (transform b s) s.
Proof. intros ad. apply transform_absorb. Qed.

Lemma variant_trans a b c : variant a b -> variant b c -> variant a c.
Proof. intros H1 H2 ad. rewrite H1. apply H2. Qed.

Lemma variant_empty s : variant "" s -> s = "".
Proof. intros H. specialize (H true). rewrite transform_nil in H. symmetry in H. apply transform_empty in H. exact H. Qed.

Definition name_rel (nm : string) (segs : list string) : Prop :=
  (nm = "" /\ segs = []) \/ (nm <> "" /\ Forall2 variant (split_char "." nm) segs).

Lemma key_ok_spec ad k : key_ok ad k = true ->
  transform ad k = k /\ contains_char "." k = false /\ k <> "".
Proof.
  unfold key_ok. rewrite !andb_true_iff, !negb_true_iff. intros [[H1 H2] H3].
  apply String.eqb_eq in H1. apply String.eqb_neq in H3. auto.
Qed.

(** * what the walk returns *)
Definition merged_ok (cfgs : list dict) (d : dict) : Prop :=
  wf (Node d) = true /\
  (forall p, leaf_at p (Node d) = first_some (map (fun g => leaf_at p (Node g)) cfgs)) /\
  (forall x, forallb (fun g => compatible x (Node g)) cfgs = true -> compatible x (Node d) = true).

Lemma merged_ok_single cfg : wf (Node cfg) = true -> merged_ok [cfg] cfg.
Proof.
  intros H. split; [exact H|]. split.
  - intros p. simpl. destruct (leaf_at p (Node cfg)); reflexivity.
  - intros x Hx. simpl in Hx. rewrite andb_true_r in Hx. exact Hx.
Qed.

Lemma merged_step cfg cfgs' (t : taskinfo) d' :
  wf (Node cfg) = true -> merged_ok cfgs' d' -> all_compatible (cfg :: cfgs') = true ->
  exists d, merged_with cfg (Ok (t, d')) = Ok (t, d) /\ merged_ok (cfg :: cfgs') d.
Proof.
  intros Hwf [Hwd [Hleaf Hcomp]] Hall.
  cbn [all_compatible] in Hall. apply andb_true_iff in Hall as [Hc _].
  pose proof (Hcomp (Node cfg) Hc) as Hcd.
  destruct (merge_ok (Node cfg) Hwf cfg eq_refl d' Hcd) as [m Hm].
  exists m. unfold merged_with. rewrite Hm. split; [reflexivity|].
  split; [apply (merge_wf (Node cfg) Hwf cfg eq_refl d' m Hwd Hm)|]. split.
  - intros p. rewrite (merge_leaf_at (Node cfg) Hwf cfg eq_refl d' m Hm p).
    cbn [map first_some]. unfold orelse. rewrite Hleaf.
    destruct (leaf_at p (Node cfg)); reflexivity.
  - intros x Hx. cbn [forallb] in Hx. apply andb_true_iff in Hx as [Hx1 Hx2].
    apply (merge_compatible x (Node cfg) d' m Hwf (ex_intro _ cfg eq_refl) Hx1 (Hcomp x Hx2) Hm).
Qed.

(** an empty segment never resolves in a canonical tree *)
Lemma ref_empty_seg c : ns_canon c = true -> ref_path c [""] = None.
Proof.
  destruct c as [n tasks aliases subs dflt ad cfg]. rewrite ns_canon_unfold, ref_unfold.
  rewrite andb_true_iff. intros [Hk _]. rewrite forallb_forall in Hk.
  assert (forall A (l : list (string * A)), incl (akeys l) (akeys tasks ++ akeys aliases ++ akeys subs) ->
                                            assoc "" l = None) as Hnone.
  { intros A l Hincl. apply assoc_none. intros HIn. apply Hincl in HIn.
    apply Hk in HIn. apply key_ok_spec in HIn. destruct HIn as [_ [_ HIn]]. congruence. }
  unfold ref_step, sub_ref, task_here. cbn [c_tasks c_aliases].
  rewrite (Hnone _ subs), (Hnone _ tasks), (Hnone _ aliases); [reflexivity| | |].
  - intros x Hx. apply in_or_app; right. apply in_or_app; left; exact Hx.
  - intros x Hx. apply in_or_app; left; exact Hx.
  - intros x Hx. apply in_or_app; right. apply in_or_app; right; exact Hx.
Qed.

Lemma split_single nm s' : split_char "." nm = [s'] -> nm = s' /\ contains_char "." nm = false.
Proof.
  intros H. pose proof (partition_split nm) as P.
  destruct (partition_char "." nm) as [[a fl] r]. destruct fl.
  - destruct P as [P _]. rewrite P in H. inversion H as [[H1 H2]].
    exfalso. eapply split_nonempty; eauto.
  - destruct P as [P1 [P2 P3]]. rewrite P1 in H. inversion H; subst. auto.
Qed.

Lemma split_many nm x y l : split_char "." nm = x :: y :: l ->
  exists r, partition_char "." nm = (x, true, r) /\ split_char "." r = y :: l /\
            contains_char "." nm = true.
Proof.
  intros H. pose proof (partition_split nm) as P.
  destruct (partition_char "." nm) as [[a fl] r]. destruct fl.
  - destruct P as [P1 P2]. rewrite P1 in H. inversion H; subst. exists r. auto.
  - destruct P as [P1 _]. rewrite P1 in H. discriminate.
Qed.

(** * the walk *)
Lemma walk : forall c,
  ns_wf c = true -> ns_canon c = true ->
  forall segs t cfgs, ref_path c segs = Some (t, cfgs) -> all_compatible cfgs = true ->
  forall nm, name_rel nm segs ->
  exists d, task_with_config c nm = Ok (t, d) /\ merged_ok cfgs d.
Proof.
  induction c as [n tasks aliases subs dflt ad cfg IH] using coll_ind'.
  intros Hwf Hcan segs t cfgs Href Hall nm Hrel.
  rewrite ns_wf_unfold in Hwf. rewrite ns_canon_unfold in Hcan.
  apply andb_true_iff in Hwf as [Hwf Hwsubs]. apply andb_true_iff in Hwf as [Hwf Hwcfg].
  apply andb_true_iff in Hwf as [Hwf Hwd]. apply andb_true_iff in Hwf as [Hnd1 Hal].
  apply nodupb_NoDup in Hnd1.
  apply andb_true_iff in Hcan as [Hkeys Hcsubs].
  rewrite forallb_forall in Hkeys, Hwsubs, Hcsubs.
  rewrite Forall_forall in IH.
  rewrite ref_unfold in Href. rewrite twc_unfold. unfold twc_step.
  rewrite (copy_dict_id (Node cfg) Hwcfg cfg eq_refl).
  (* keys of this collection are canonical *)
  assert (forall k, In k (akeys tasks) \/ In k (akeys aliases) \/ In k (akeys subs) ->
                    transform ad k = k /\ contains_char "." k = false /\ k <> "") as Hkey.
  { intros k Hk. apply key_ok_spec, Hkeys.
    destruct Hk as [Hk|[Hk|Hk]]; apply in_or_app; [left; exact Hk | right | right];
      apply in_or_app; [left | right]; exact Hk. }
  (* descending into a sub-collection *)
  assert (forall s sc r segs' cfgs', assoc s subs = Some sc ->
            ref_path sc segs' = Some (t, cfgs') -> cfgs = cfg :: cfgs' -> name_rel r segs' ->
            exists d, merged_with cfg (sub_twc subs s r) = Ok (t, d) /\ merged_ok cfgs d) as Hdown.
  { intros s sc r segs' cfgs' Hs Hr Hc Hrel'. subst cfgs.
    pose proof (assoc_In _ _ _ Hs) as HIn.
    assert (all_compatible cfgs' = true) as Hall'.
    { cbn [all_compatible] in Hall. apply andb_true_iff in Hall as [_ Hall]. exact Hall. }
    destruct (IH _ HIn (Hwsubs _ HIn) (Hcsubs _ HIn) segs' t cfgs' Hr Hall' r Hrel')
      as [d' [Hd' Hm']].
    unfold sub_twc. rewrite Hs. simpl snd in Hd'. rewrite Hd'.
    apply merged_step; assumption. }
  (* the last segment: a collection name (its default, recursively) or a task name / alias *)
  assert (forall s s', variant s' s -> contains_char "." s' = false ->
            match sub_ref subs s [] with
            | Some r => ref_push cfg r
            | None => match task_here (Coll n tasks aliases subs dflt ad cfg) s with
                      | Some t0 => Some (t0, [cfg])
                      | None => None
                      end
            end = Some (t, cfgs) ->
            exists d, twc_nonempty (sub_twc subs) tasks aliases (fun k => has_key k subs) ad cfg s'
                      = Ok (t, d) /\ merged_ok cfgs d) as Hlast.
  { intros s s' Hv Hdf Hl. unfold sub_ref in Hl. unfold twc_nonempty.
    destruct (assoc s subs) as [sc|] eqn:Es.
    - destruct (ref_path sc []) as [[t' cfgs']|] eqn:Er; [|discriminate].
      cbn [ref_push] in Hl. inversion Hl; subst t' cfgs.
      assert (transform ad s' = s) as Htr.
      { rewrite (Hv ad). apply Hkey. right; right. eapply assoc_In_keys; eauto. }
      rewrite contains_transform, Hdf, Htr. unfold has_key. rewrite Es.
      apply (Hdown s sc "" [] cfgs' Es Er eq_refl). left; auto.
    - destruct (task_here (Coll n tasks aliases subs dflt ad cfg) s) as [t'|] eqn:Eh; [|discriminate].
      inversion Hl; subst t' cfgs.
      assert (In s (akeys tasks) \/ In s (akeys aliases)) as Hin.
      { unfold task_here in Eh. cbn [c_tasks c_aliases] in Eh.
        destruct (assoc s tasks) eqn:E1; [left; eapply assoc_In_keys; eauto|].
        destruct (assoc s aliases) eqn:E2; [right; eapply assoc_In_keys; eauto | discriminate]. }
      assert (transform ad s' = s) as Htr.
      { rewrite (Hv ad). apply Hkey. destruct Hin; auto. }
      rewrite contains_transform, Hdf, Htr. unfold has_key. rewrite Es.
      rewrite (lex_get_here tasks aliases subs Hnd1 Hal n dflt ad cfg s), Eh.
      exists cfg. split; [reflexivity | apply merged_ok_single; exact Hwcfg]. }
  unfold ref_step in Href.
  destruct segs as [|s [|s2 rest]].
  - (* empty name: the default, looked up like any last segment *)
    destruct Hrel as [[-> _]|[_ HF]];
      [|exfalso; inversion HF as [Hsp0|]; symmetry in Hsp0; exact (split_nonempty _ _ Hsp0)].
    cbn [String.eqb].
    destruct dflt as [d|]; [|discriminate].
    assert (In d (akeys tasks) \/ In d (akeys aliases) \/ In d (akeys subs)) as Hdin.
    { unfold sub_ref in Href. destruct (assoc d subs) eqn:E0; [right; right; eapply assoc_In_keys; eauto|].
      unfold task_here in Href. cbn [c_tasks c_aliases] in Href.
      destruct (assoc d tasks) eqn:E1; [left; eapply assoc_In_keys; eauto|].
      destruct (assoc d aliases) eqn:E2; [right; left; eapply assoc_In_keys; eauto | discriminate]. }
    destruct (Hkey d Hdin) as [_ [Hdf Hdne]].
    apply String.eqb_neq in Hdne. rewrite Hdne.
    apply (Hlast d d (fun _ => eq_refl) Hdf Href).
  - (* one segment *)
    destruct Hrel as [[_ Hx]|[Hne HF]]; [discriminate|].
    apply String.eqb_neq in Hne. rewrite Hne.
    inversion HF as [|s' ? l' ? Hv HF' Hsp]; subst. inversion HF'; subst.
    symmetry in Hsp. apply split_single in Hsp. destruct Hsp as [-> Hdf].
    apply (Hlast s s' Hv Hdf Href).
  - (* several segments *)
    destruct Hrel as [[_ Hx]|[Hne HF]]; [discriminate|].
    apply String.eqb_neq in Hne. rewrite Hne.
    unfold sub_ref in Href.
    destruct (assoc s subs) as [sc|] eqn:Es; [|discriminate].
    destruct (ref_path sc (s2 :: rest)) as [[t' cfgs']|] eqn:Er; [|discriminate].
    cbn [ref_push] in Href. inversion Href; subst t' cfgs.
    inversion HF as [|s' ? l' ? Hv HF' Hsp]; subst.
    inversion HF' as [|s2' ? l2' ? Hv2 HF2 Hsp2]; subst.
    assert (transform ad s' = s) as Htr.
    { rewrite (Hv ad). apply Hkey. right; right. eapply assoc_In_keys; eauto. }
    pose proof (split_transform ad nm) as Hst. rewrite <- Hsp in Hst. cbn [map] in Hst.
    rewrite Htr in Hst.
    destruct (split_many _ _ _ _ Hst) as [r [Hp [Hr Hc]]].
    unfold twc_nonempty. rewrite Hc, Hp.
    apply (Hdown s sc r (s2 :: rest) cfgs' Es Er eq_refl).
    destruct (String.eqb r "") eqn:Ere.
    + (* "sub." : the remainder is empty, but then the reference has an empty segment *)
      exfalso. apply String.eqb_eq in Ere; subst r. simpl in Hr. inversion Hr as [[H1 H2]].
      destruct l2'; [|discriminate]. inversion HF2; subst.
      symmetry in H1. apply transform_empty in H1. subst s2'.
      apply variant_empty in Hv2. subst s2.
      pose proof (assoc_In _ _ _ Es) as HIn.
      rewrite (ref_empty_seg sc (Hcsubs _ HIn)) in Er. discriminate.
    + right. split; [apply String.eqb_neq; exact Ere|].
      rewrite Hr. constructor.
      * eapply variant_trans; [apply variant_transform | exact Hv2].
      * clear -HF2. induction HF2 as [|a b la lb Hab _ IHF]; [constructor|].
        cbn [map]. constructor; [eapply variant_trans; [apply variant_transform | exact Hab] | exact IHF].
Qed.

(** * The theorems *)
Lemma name_rel_segs_of name : name_rel name (segs_of name).
Proof.
  unfold name_rel, segs_of. destruct (String.eqb name "") eqn:E.
  - left. apply String.eqb_eq in E. auto.
  - right. split; [apply String.eqb_neq; exact E|].
    induction (split_char "." name); constructor; [intros ad; reflexivity | assumption].
Qed.

Lemma opt_value_eqb_refl o : opt_value_eqb o o = true.
Proof. destruct o as [v|]; [apply value_eqb_eq; reflexivity | reflexivity]. Qed.

(** Prop form: every setting of the result comes from the outermost collection
    on the path that defines it; nothing else is in it. *)
Lemma path_deep_merge c name t cfgs :
  ns_wf c = true -> ns_canon c = true ->
  ref_path c (segs_of name) = Some (t, cfgs) -> all_compatible cfgs = true ->
  exists d, task_with_config c name = Ok (t, d) /\ wf (Node d) = true /\
            forall p, leaf_at p (Node d) = first_some (map (fun g => leaf_at p (Node g)) cfgs).
Proof.
  intros Hwf Hcan Href Hall.
  destruct (walk c Hwf Hcan _ _ _ Href Hall name (name_rel_segs_of name)) as [d [Hd [H1 [H2 _]]]].
  exists d. auto.
Qed.

(** Flagship: the model satisfies the executable specification. *)
Lemma model_meets_spec c name :
  ns_canon c = true ->
  spec_ok c name (model_obs c name) = true.
Proof.
  intros Hcan. unfold spec_ok.
  destruct (ns_wf c) eqn:Hwf; [|reflexivity].
  destruct (ref_path c (segs_of name)) as [[t cfgs]|] eqn:Href; [|reflexivity].
  destruct (all_compatible cfgs) eqn:Hall; [|reflexivity].
  destruct (path_deep_merge c name t cfgs Hwf Hcan Href Hall) as [d [Hd [Hw Hp]]].
  unfold model_obs. rewrite Hd. rewrite Nat.eqb_refl. cbn [andb].
  unfold deep_merge_ok. rewrite Hw. cbn [andb].
  apply forallb_forall. intros p _. rewrite Hp. apply opt_value_eqb_refl.
Qed.

(** Readable corollary: a setting defined by an outer collection on the path
    beats every inner one; a setting defined only further in is preserved. *)
Lemma outer_wins c name t cfg_outer cfgs_inner p v :
  ns_wf c = true -> ns_canon c = true ->
  ref_path c (segs_of name) = Some (t, cfg_outer :: cfgs_inner) ->
  all_compatible (cfg_outer :: cfgs_inner) = true ->
  leaf_at p (Node cfg_outer) = Some v ->
  exists d, configuration c name = Ok d /\ leaf_at p (Node d) = Some v.
Proof.
  intros Hwf Hcan Href Hall Hv.
  destruct (path_deep_merge c name t _ Hwf Hcan Href Hall) as [d [Hd [_ Hp]]].
  exists d. unfold configuration. rewrite Hd. split; [reflexivity|].
  rewrite Hp. cbn [map first_some]. rewrite Hv. reflexivity.
Qed.

Lemma inner_preserved c name t cfg_outer cfgs_inner p :
  ns_wf c = true -> ns_canon c = true ->
  ref_path c (segs_of name) = Some (t, cfg_outer :: cfgs_inner) ->
  all_compatible (cfg_outer :: cfgs_inner) = true ->
  leaf_at p (Node cfg_outer) = None ->
  exists d, configuration c name = Ok d /\
            leaf_at p (Node d) = first_some (map (fun g => leaf_at p (Node g)) cfgs_inner).
Proof.
  intros Hwf Hcan Href Hall Hv.
  destruct (path_deep_merge c name t _ Hwf Hcan Href Hall) as [d [Hd [_ Hp]]].
  exists d. unfold configuration. rewrite Hd. split; [reflexivity|].
  rewrite Hp. cbn [map first_some]. rewrite Hv. reflexivity.
Qed.

(** * The former witness of F-C17b (repaired in /repo by 432fa0a) *)
(** root > sub (default = collection inner) > inner > t.  Before the repair
    [configuration "sub"] lacked inner's [k.deep]; now the default shortcut and
    the full name give the same deep merge of all three levels. *)
Definition w_task := mkTask 1 "t" [] false.
Definition w_inner := Coll (Some "inner") [("t", w_task)] [] [] (Some "t") true
                           [("k", Node [("deep", Leaf (VInt 1))])].
Definition w_sub := Coll (Some "sub") [] [] [("inner", w_inner)] (Some "inner") true
                         [("k", Node [("mid", Leaf (VInt 2))])].
Definition w_root := Coll None [] [] [("sub", w_sub)] None true
                          [("k", Node [("top", Leaf (VInt 3))])].

Lemma default_subcollection_shortcut :
  ns_wf w_root = true /\ ns_canon w_root = true /\
  configuration w_root "sub" = configuration w_root "sub.inner.t" /\
  configuration w_root "sub" =
  Ok [("k", Node [("deep", Leaf (VInt 1)); ("mid", Leaf (VInt 2)); ("top", Leaf (VInt 3))])].
Proof. vm_compute. auto. Qed.

(** non-vacuity: a tree inside all guards, with overlapping sections *)
Definition ex_inner := Coll (Some "inner") [("my-task", mkTask 1 "my_task" ["mt"] false)] [("mt", "my-task")] []
                            (Some "my-task") true
                            [("k", Node [("x", Leaf (VInt 1)); ("z", Node [("p", Leaf (VBool true))])])].
Definition ex_root := Coll None [("top", mkTask 2 "top" [] false)] [] [("inner", ex_inner)] (Some "top") true
                           [("k", Node [("x", Leaf (VInt 9)); ("y", Leaf (VStr "o"))])].

Lemma example_guards :
  ns_wf ex_root = true /\ ns_canon ex_root = true /\
  (exists t cfgs, ref_path ex_root (segs_of "inner.mt") = Some (t, cfgs) /\ all_compatible cfgs = true
                  /\ List.length cfgs = 2) /\
  configuration ex_root "inner" =
  Ok [("k", Node [("x", Leaf (VInt 9)); ("z", Node [("p", Leaf (VBool true))]); ("y", Leaf (VStr "o"))])].
Proof.
  repeat split; try (vm_compute; reflexivity).
  eexists. eexists. vm_compute. repeat split; reflexivity.
Qed.
