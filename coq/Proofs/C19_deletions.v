(** C19: a deletion made by one task stays in force for the rest of the session.

    [Config._deletions] is a tree of marks; [masked D p] (Proofs/C06_shapes.v)
    says that [p] or a section above it carries a mark.  Three layers:

    1. structural, no guard: a successful [del] / [pop] / [popitem] puts the
       mark there ([del_records], ...); nothing but a write to [p] or to a
       section above it ever takes a mark away -- in particular no reload of
       the collection or environment level does, whatever data are loaded
       ([step_keeps_mask], [run_body_keeps_mask]);
    2. [obliterate] hides a masked path in ANY well-formed merged data, whether
       or not those data still have the key ([masked_hidden]);
    3. the session: under the guard of the general C19 theorem, extended here
       to calls without a name (pre-/post-tasks, the implicit default task:
       they get [configuration_none]), every later execution of the session
       -- in whatever namespace, with whatever collection level -- shows
       nothing at a masked path on entry and on exit, as long as no body
       writes [p] or a section above it again ([deletion_stays]). *)
From InvokeVerif Require Import Common.Tree Common.StrUtil Model.MergeModel Model.ConfigModel
     Model.SessionModel Spec.C03Spec Spec.C06Spec
     Proofs.C03_merge Proofs.C06_shapes Proofs.C06_track Proofs.C06_refine
     Proofs.C19_session Proofs.C19_flagship.

(** * "the key is not written again" *)
(** a write to [q] leaves the mark on [p] alone unless [q] is [p] or a section
    above [p] (a write BELOW a deleted section cannot even navigate there) *)
Definition off (p q : path) : bool := negb (is_prefix q p).

(** the operations a task body is made of, none of them writing [p] or a
    section above it *)
Definition keeps (p : path) (o : op) : bool :=
  match o with
  | SetV _ kp k _ | SetDefault _ kp k _ => off p (kp ++ [k])
  | Update _ kp kvs => forallb (fun kv : string * tree => off p (kp ++ [fst kv])) kvs
  | UpdateBoth _ kp kvs kw => forallb (fun kv : string * tree => off p (kp ++ [fst kv])) (kvs ++ kw)
  | Get _ _ _ | Del _ _ _ | Pop _ _ _ _ | PopItem _ _ | Clear _ _
  | Contains _ _ _ | Len _ _ | Keys _ _ | View _ _ | EqD _ _ _ | GetM _ _ _ _
  | LoadDefaults _ | LoadOverrides _ | LoadCollection _ | LoadShellEnv _ | Merge => true
  | _ => false
  end.

(** * layer 1: the marks *)
Lemma masked_excise : forall q D p, off p q = true -> masked (excise D q) p = masked D p.
Proof.
  unfold off. induction q as [|k q IH]; intros D p H; [reflexivity|].
  destruct p as [|k' p']; [destruct q; reflexivity|].
  cbn [is_prefix] in H.
  destruct (String.eqb k k') eqn:E.
  - apply String.eqb_eq in E; subst k'. cbn [andb] in H.
    destruct q as [|k2 q'].
    + destruct p'; discriminate.
    + cbn [excise]. destruct (get k D) as [[x|kids]|] eqn:G; try reflexivity.
      cbn [masked]. rewrite get_set_same, G. apply IH. exact H.
  - assert (Hne : k' <> k) by (intros ->; rewrite String.eqb_refl in E; discriminate).
    destruct q as [|k2 q'].
    + cbn [excise masked]. rewrite get_remove_other by exact Hne. reflexivity.
    + cbn [excise]. destruct (get k D) as [[x|kids]|] eqn:G; try reflexivity.
      cbn [masked]. rewrite get_set_other by exact Hne. reflexivity.
Qed.

(** recording a deletion never unmasks anything ... *)
Lemma del_mark_keeps : forall kp D k D' p,
  del_mark D kp k = Some D' -> masked D p = true -> masked D' p = true.
Proof.
  induction kp as [|s kp IH]; intros D k D' p H M.
  - cbn [del_mark] in H. injection H as <-.
    destruct p as [|k' p']; [discriminate|]. cbn [masked] in *.
    destruct (String.eqb k' k) eqn:E.
    + apply String.eqb_eq in E; subst k'. rewrite get_set_same. reflexivity.
    + rewrite get_set_other by (intros ->; rewrite String.eqb_refl in E; discriminate). exact M.
  - destruct p as [|k' p']; [discriminate|]. cbn [del_mark] in H. cbn [masked] in M.
    destruct (String.eqb k' s) eqn:E.
    + apply String.eqb_eq in E; subst k'.
      destruct (get s D) as [[x|kids]|] eqn:G; [discriminate| |discriminate].
      destruct (del_mark kids kp k) as [kids'|] eqn:Ed; [|discriminate]. injection H as <-.
      cbn [masked]. rewrite get_set_same. eapply IH; eassumption.
    + assert (Hne : k' <> s) by (intros ->; rewrite String.eqb_refl in E; discriminate).
      destruct (get s D) as [[x|kids]|] eqn:G; [discriminate| |].
      * destruct (del_mark kids kp k) as [kids'|]; [|discriminate]. injection H as <-.
        cbn [masked]. rewrite get_set_other by exact Hne. exact M.
      * destruct (del_mark [] kp k) as [kids'|]; [|discriminate]. injection H as <-.
        cbn [masked]. rewrite get_set_other by exact Hne. exact M.
Qed.

(** ... and puts the mark where the deletion happened; when it does not get
    that far ([None]: a section above is marked already) the path is masked
    as it is *)
Lemma del_mark_marks : forall kp D k,
  match del_mark D kp k with
  | Some D' => masked D' (kp ++ [k]) = true
  | None => masked D (kp ++ [k]) = true
  end.
Proof.
  induction kp as [|s kp IH]; intros D k.
  - cbn [del_mark app masked]. rewrite get_set_same. reflexivity.
  - cbn [del_mark]. change ((s :: kp) ++ [k]) with (s :: (kp ++ [k])).
    destruct (get s D) as [[x|kids]|] eqn:G.
    + cbn [masked]. rewrite G. reflexivity.
    + specialize (IH kids k). destruct (del_mark kids kp k) as [kids'|].
      * cbn [masked]. rewrite get_set_same. exact IH.
      * cbn [masked]. rewrite G. exact IH.
    + specialize (IH [] k). destruct (del_mark [] kp k) as [kids'|].
      * cbn [masked]. rewrite get_set_same. exact IH.
      * exfalso. clear -IH. destruct (kp ++ [k]); discriminate.
Qed.

Lemma track_del_keeps c kp k p :
  masked (c_dels c) p = true -> masked (c_dels (track_del c kp k)) p = true.
Proof.
  intros M. unfold track_del. destruct (del_mark (c_dels c) kp k) as [d'|] eqn:E; [|exact M].
  destruct c; cbn in *. eapply del_mark_keeps; eassumption.
Qed.

Lemma track_del_marks c kp k : masked (c_dels (track_del c kp k)) (kp ++ [k]) = true.
Proof.
  unfold track_del. pose proof (del_mark_marks kp (c_dels c) k) as H.
  destruct (del_mark (c_dels c) kp k) as [d'|]; [|exact H]. destruct c; exact H.
Qed.

Lemma track_set_keeps c kp k v p :
  off p (kp ++ [k]) = true -> masked (c_dels (track_set c kp k v)) p = masked (c_dels c) p.
Proof.
  intros H. unfold track_set. destruct c; cbn. apply masked_excise. exact H.
Qed.

Lemma fold_track_set_keeps kp p : forall kvs c,
  forallb (fun kv : string * tree => off p (kp ++ [fst kv])) kvs = true ->
  masked (c_dels (fold_left (fun c' kv => track_set c' kp (fst kv) (snd kv)) kvs c)) p = masked (c_dels c) p.
Proof.
  induction kvs as [|kv kvs IH]; intros c H; [reflexivity|].
  cbn [forallb] in H. apply andb_true_iff in H as [H1 H2]. cbn [fold_left].
  rewrite IH by exact H2. apply track_set_keeps. exact H1.
Qed.

Lemma fold_track_del_keeps kp p : forall ks c,
  masked (c_dels c) p = true ->
  masked (c_dels (fold_left (fun c' k => track_del c' kp k) ks c)) p = true.
Proof.
  induction ks as [|k ks IH]; intros c M; [exact M|].
  cbn [fold_left]. apply IH. apply track_del_keeps. exact M.
Qed.

Lemma dels_remerge c ok : c_dels (fst (remerge c ok)) = c_dels c.
Proof. unfold remerge. destruct (merge c); destruct c; reflexivity. Qed.

Lemma dels_set_cache c d : c_dels (set_cache c d) = c_dels c.
Proof. destruct c; reflexivity. Qed.

Lemma dels_step_of_with fs c o :
  c_dels (fst (step fs c o)) = c_dels (fst (fst (step_with (c_cache c) fs c o))).
Proof.
  unfold step. destruct (step_with (c_cache c) fs c o) as [[c' out] eff].
  destruct eff; reflexivity.
Qed.

Lemma do_update_keeps d0 c kp kvs ok p :
  forallb (fun kv : string * tree => off p (kp ++ [fst kv])) kvs = true ->
  masked (c_dels (fst (fst (do_update d0 c kp kvs ok)))) p = masked (c_dels c) p.
Proof.
  intros H. unfold do_update. destruct kvs as [|kv kvs']; [reflexivity|].
  destruct (excise_blocked (c_dels c) (kp ++ [fst kv])); [reflexivity|].
  destruct (remerge _ ok) as [c' out] eqn:Er. cbn [fst].
  change c' with (fst (c', out)). rewrite <- Er, dels_remerge.
  apply fold_track_set_keeps. exact H.
Qed.

(** No operation of a task body that does not write [p] or a section above
    it, and no reload of a level (whatever is loaded), removes the mark. *)
Theorem step_keeps_mask fs c o p :
  keeps p o = true -> masked (c_dels c) p = true -> masked (c_dels (fst (step fs c o))) p = true.
Proof.
  intros K M. rewrite dels_step_of_with.
  destruct o; cbn [keeps] in K; try discriminate K; cbn [step_with].
  - (* Get *) destruct (nav fl (c_cache c) kp) as [d|e]; [destruct (get k d)|]; exact M.
  - (* SetV *)
    destruct (nav fl (c_cache c) kp) as [d|e]; [|exact M].
    destruct (excise_blocked (c_dels c) (kp ++ [k])); [exact M|].
    unfold merged. cbn [fst]. rewrite dels_remerge, track_set_keeps by exact K. exact M.
  - (* Del *)
    destruct (nav fl (c_cache c) kp) as [d|e]; [|exact M].
    destruct (get k d); [|exact M]. destruct (del_blocked (c_dels c) kp k); [exact M|].
    unfold merged. cbn [fst]. rewrite dels_remerge. apply track_del_keeps. exact M.
  - (* Pop *)
    destruct (nav fl (c_cache c) kp) as [d|e]; [|exact M].
    destruct (get k d); [|destruct dflt; exact M]. destruct (del_blocked (c_dels c) kp k); [exact M|].
    unfold merged. cbn [fst]. rewrite dels_remerge. apply track_del_keeps. exact M.
  - (* PopItem *)
    destruct (nav fl (c_cache c) kp) as [d|e]; [|exact M].
    destruct (last_item d) as [[k t]|]; [|exact M]. destruct (del_blocked (c_dels c) kp k); [exact M|].
    unfold merged. cbn [fst]. rewrite dels_remerge. apply track_del_keeps. exact M.
  - (* Clear *)
    destruct (nav fl (c_cache c) kp) as [d|e]; [|exact M].
    destruct (keys d) as [|k0 ks] eqn:Ek; [exact M|]. destruct (del_blocked (c_dels c) kp k0); [exact M|].
    unfold merged. cbn [fst]. rewrite dels_remerge. apply fold_track_del_keeps. exact M.
  - (* SetDefault *)
    destruct (nav fl (c_cache c) kp) as [d|e]; [|exact M].
    destruct (get k d); [exact M|].
    destruct dflt as [dv|]; (destruct (excise_blocked (c_dels c) (kp ++ [k])); [exact M|]);
      unfold merged; cbn [fst]; rewrite dels_remerge, track_set_keeps by exact K; exact M.
  - (* Update *)
    destruct (nav fl (c_cache c) kp) as [d|e]; [|exact M].
    destruct kvs as [|kv kvs']; [exact M|].
    destruct (excise_blocked (c_dels c) (kp ++ [fst kv])); [exact M|].
    unfold merged. cbn [fst]. rewrite dels_remerge, fold_track_set_keeps by exact K. exact M.
  - (* Contains *) destruct (nav fl (c_cache c) kp); exact M.
  - (* Len *) destruct (nav fl (c_cache c) kp); exact M.
  - (* Keys *) destruct (nav fl (c_cache c) kp); exact M.
  - (* LoadDefaults *) unfold merged. cbn [fst]. rewrite dels_remerge. destruct c; exact M.
  - (* LoadOverrides *) unfold merged. cbn [fst]. rewrite dels_remerge. destruct c; exact M.
  - (* LoadCollection *) unfold merged. cbn [fst]. rewrite dels_remerge. destruct c; exact M.
  - (* LoadShellEnv *)
    destruct (remerge (set_env c (Node [])) ONone) as [c1 o1] eqn:E1.
    assert (D1 : c_dels c1 = c_dels c).
    { change c1 with (fst (c1, o1)). rewrite <- E1, dels_remerge. destruct c; reflexivity. }
    assert (Go : masked (c_dels (fst (fst
               match load (Node (c_cache c1)) (c_env_prefix c1) env with
               | Ok d => merged (remerge (set_env c1 (Node d)) ONone) (c_cache c)
               | Err e => (c1, OErr e, Merged (c_cache c))
               end))) p = true).
    { destruct (load (Node (c_cache c1)) (c_env_prefix c1) env) as [d|e]; cbn [fst].
      - unfold merged. cbn [fst]. rewrite dels_remerge. destruct c1; cbn in *. rewrite D1. exact M.
      - rewrite D1. exact M. }
    destruct o1; try exact Go. cbn [fst]. rewrite D1. exact M.
  - (* Merge *) unfold merged. cbn [fst]. rewrite dels_remerge. exact M.
  - (* View *) destruct (nav fl (c_cache c) kp); exact M.
  - (* EqD *) destruct (nav fl (c_cache c) kp); exact M.
  - (* GetM *) destruct (nav fl (c_cache c) kp) as [d|e]; [destruct (get k d)|]; exact M.
  - (* UpdateBoth *)
    destruct (nav fl (c_cache c) kp) as [d|e]; [|exact M].
    rewrite do_update_keeps by exact K. exact M.
Qed.

Lemma run_body_keeps_mask fs p : forall ops c,
  forallb (keeps p) ops = true -> masked (c_dels c) p = true ->
  masked (c_dels (fst (fst (run_body fs c ops)))) p = true.
Proof.
  induction ops as [|o rest IH]; intros c K M; [exact M|].
  cbn [forallb] in K. apply andb_true_iff in K as [K1 K2].
  pose proof (step_keeps_mask fs c o p K1 M) as M1.
  cbn [run_body]. destruct (step fs c o) as [c' out]. cbn [fst] in M1.
  specialize (IH c' K2 M1).
  destruct (run_body fs c' rest) as [[c'' outs] er]. cbn [fst] in IH.
  destruct out as [| | | | | |e]; try exact IH.
  destruct (abnormal (OErr e)); [exact M1 | exact IH].
Qed.

(** a successful deletion by a task body is on record afterwards *)
Lemma del_records fs c fl kp k :
  snd (step fs c (Del fl kp k)) = ONone ->
  masked (c_dels (fst (step fs c (Del fl kp k)))) (kp ++ [k]) = true.
Proof.
  rewrite dels_step_of_with. unfold step. cbn [step_with].
  destruct (nav fl (c_cache c) kp) as [d|e]; [|discriminate].
  destruct (get k d); [|discriminate].
  unfold del_blocked. pose proof (del_mark_marks kp (c_dels c) k) as Hm.
  destruct (del_mark (c_dels c) kp k) as [d'|] eqn:Ed.
  - intros _. unfold merged. cbn [fst]. rewrite dels_remerge.
    unfold track_del. rewrite Ed. destruct c; exact Hm.
  - intros _. exact Hm.
Qed.

(** [pop] of a key that is there (with or without a default argument) *)
Lemma pop_records fs c fl kp k dflt d t :
  nav fl (c_cache c) kp = Ok d -> get k d = Some t ->
  snd (step fs c (Pop fl kp k dflt)) = OVal t ->
  masked (c_dels (fst (step fs c (Pop fl kp k dflt)))) (kp ++ [k]) = true.
Proof.
  intros Hn Hg. rewrite dels_step_of_with. unfold step. cbn [step_with]. rewrite Hn, Hg.
  unfold del_blocked. pose proof (del_mark_marks kp (c_dels c) k) as Hm.
  destruct (del_mark (c_dels c) kp k) as [d'|] eqn:Ed.
  - intros _. unfold merged. cbn [fst]. rewrite dels_remerge.
    unfold track_del. rewrite Ed. destruct c; exact Hm.
  - intros _. exact Hm.
Qed.

Lemma popitem_records fs c fl kp k t :
  snd (step fs c (PopItem fl kp)) = OPair k t ->
  masked (c_dels (fst (step fs c (PopItem fl kp)))) (kp ++ [k]) = true.
Proof.
  rewrite dels_step_of_with. unfold step. cbn [step_with].
  destruct (nav fl (c_cache c) kp) as [d|e]; [|discriminate].
  destruct (last_item d) as [[k1 t1]|]; [|discriminate].
  unfold del_blocked. pose proof (del_mark_marks kp (c_dels c) k1) as Hm.
  destruct (del_mark (c_dels c) kp k1) as [d'|] eqn:Ed.
  - unfold merged. cbn [fst snd]. unfold remerge.
    destruct (merge (track_del c kp k1)) as [m|er] eqn:Em; cbn [fst snd]; [|discriminate].
    intros H. injection H as <- _. rewrite dels_set_cache.
    unfold track_del. rewrite Ed. destruct c; exact Hm.
  - cbn [fst snd]. intros H. injection H as <- _. exact Hm.
Qed.

(** * layer 2: what a mark does in a merge *)
(** whatever the freshly merged data are -- with the key or without it -- the
    merge result shows nothing at a masked path *)
Lemma masked_hidden D X p :
  wf (Node D) = true -> wf (Node X) = true -> masked D p = true ->
  shape_at p (Node (obliterate X (Node D))) = None.
Proof.
  intros HD HX M. destruct (obliterate_shape_dict D X HD HX) as [_ H]. rewrite H, M. reflexivity.
Qed.

Lemma good_hides S c J p : is_node S = true -> good S c J ->
  masked (c_dels c) p = true -> shape_at p (Node (c_cache c)) = None.
Proof.
  intros HS HG M. destruct (good_view S c J HS HG) as [X [_ [_ [_ H]]]]. rewrite H, M. reflexivity.
Qed.

(** * layer 3: the session *)
(** the guard of [C19_session_views_partial], with calls without a name
    (pre-/post-tasks, the implicitly chosen default task) admitted: they are
    loaded with [configuration_none] *)
Definition call_level (ns : coll) (c : ecall) : result dict :=
  match snd c with Some n => configuration ns n | None => configuration_none ns end.

Definition call_cfg_ok_any (S : tree) (ns : coll) (c : ecall) : bool :=
  match call_level ns c with Ok d => level_okb S (Node d) | Err _ => false end.

Definition session_guard_any (S : tree) (ns : coll) (bodies : nat -> list op) (calls : list ecall) : bool :=
  forallb (call_cfg_ok_any S ns) calls &&
  forallb (fun c => forallb (op_ok S) (bodies (fst c))) calls.

Definition nobody_writes (p : path) (bodies : nat -> list op) (calls : list ecall) : bool :=
  forallb (fun c : ecall => forallb (keeps p) (bodies (fst c))) calls.

Definition gone_in (p : path) (r : brecord) : Prop :=
  let '(_, v0, _, v1) := r in
  shape_at p (Node v0) = None /\ shape_at p (Node v1) = None.

Lemma session_guard_named S ns bodies calls :
  session_guard S ns bodies calls = true -> session_guard_any S ns bodies calls = true.
Proof.
  unfold session_guard, session_guard_any. intros H. apply andb_true_iff in H as [H1 H2].
  rewrite H2, andb_true_r. rewrite forallb_forall in *. intros c Hc. specialize (H1 c Hc).
  unfold call_cfg_ok in H1. unfold call_cfg_ok_any, call_level. destruct (snd c); [exact H1 | discriminate].
Qed.

Theorem deletion_stays S fs ns bodies : is_node S = true -> forall calls c J envs p,
  good S c J -> session_guard_any S ns bodies calls = true ->
  masked (c_dels c) p = true -> nobody_writes p bodies calls = true ->
  Forall (gone_in p) (fst (run_calls fs ns c bodies calls envs)).
Proof.
  intros HS. induction calls as [|[t ca] rest IH]; intros c J envs p HG Hgd M NW.
  - cbn. constructor.
  - unfold session_guard_any in Hgd. cbn [forallb] in Hgd.
    apply andb_true_iff in Hgd as [Hc Hb]. apply andb_true_iff in Hc as [Hc1 Hc2].
    apply andb_true_iff in Hb as [Hb1 Hb2].
    assert (Hrest : session_guard_any S ns bodies rest = true)
      by (unfold session_guard_any; now rewrite Hc2, Hb2).
    unfold nobody_writes in NW. cbn [forallb] in NW. apply andb_true_iff in NW as [NW1 NW2].
    unfold call_cfg_ok_any, call_level in Hc1. cbn [snd fst] in Hc1, Hb1, NW1.
    cbn [run_calls].
    destruct (match ca with Some n => configuration ns n | None => configuration_none ns end)
      as [d|e0] eqn:Ecfg; [|discriminate].
    (* load_collection *)
    assert (Ok1 : op_ok S (LoadCollection (Node d)) = true) by exact Hc1.
    destruct (step_good S fs c J _ HS HG Ok1) as [G1 _].
    cbn [events_of] in G1. rewrite app_nil_r in G1.
    pose proof (step_keeps_mask fs c (LoadCollection (Node d)) p eq_refl M) as M1.
    destruct (step fs c (LoadCollection (Node d))) as [c1 o1] eqn:Es1. cbn [fst snd] in *.
    (* load_shell_env *)
    set (ev := match envs with e :: _ => e | [] => [] end).
    assert (Ok2 : op_ok S (LoadShellEnv ev) = true) by reflexivity.
    destruct (step_good S fs c1 J _ HS G1 Ok2) as [G2 _].
    cbn [events_of] in G2. rewrite app_nil_r in G2.
    pose proof (step_keeps_mask fs c1 (LoadShellEnv ev) p eq_refl M1) as M2.
    destruct (step fs c1 (LoadShellEnv ev)) as [c2 o2] eqn:Es2. cbn [fst snd] in *.
    (* the body *)
    destruct (run_body_good S fs HS (bodies t) c2 J G2 Hb1) as [G3 _].
    pose proof (run_body_keeps_mask fs p (bodies t) c2 NW1 M2) as M3.
    assert (Go : Forall (gone_in p)
                   (fst (let '(c3, outs, er) := run_body fs c2 (bodies t) in
                         let rec := (t, c_cache c2, outs, c_cache c3) in
                         match er with
                         | Some x => ([rec], Some x)
                         | None => let '(recs, er') := run_calls fs ns c3 bodies rest
                                                               match envs with _ :: (_ :: _) as r => r | _ => envs end in
                                   (rec :: recs, er')
                         end))).
    { destruct (run_body fs c2 (bodies t)) as [[c3 outs] er] eqn:Eb. cbn [fst snd] in *.
      assert (Head : gone_in p (t, c_cache c2, outs, c_cache c3)).
      { cbn [gone_in]. split; [exact (good_hides S c2 J p HS G2 M2) | exact (good_hides S c3 _ p HS G3 M3)]. }
      destruct er as [x|].
      - cbn [fst]. constructor; [exact Head | constructor].
      - specialize (IH c3 (J ++ journal fs c2 (bodies t))
                       match envs with _ :: (_ :: _) as r => r | _ => envs end p G3 Hrest M3 NW2).
        destruct (run_calls fs ns c3 bodies rest match envs with _ :: (_ :: _) as r => r | _ => envs end)
          as [recs er'] eqn:Er'. cbn [fst] in *. constructor; [exact Head | exact IH]. }
    destruct o1 as [| | | | | |er1]; try (destruct o2 as [| | | | | |er2]; try exact Go; constructor).
Qed.

(** with named calls only, the guard is the one of the general theorem *)
Corollary deletion_stays_named S fs ns bodies : is_node S = true -> forall calls c J envs p,
  good S c J -> session_guard S ns bodies calls = true ->
  masked (c_dels c) p = true -> nobody_writes p bodies calls = true ->
  Forall (gone_in p) (fst (run_calls fs ns c bodies calls envs)).
Proof.
  intros HS calls c J envs p HG Hg. apply (deletion_stays S fs ns bodies HS calls c J envs p HG).
  apply session_guard_named. exact Hg.
Qed.

(** * the three-step history
    root{shared} > a{build:{flags,jobs}, artifact} > first, last ; b{lint:{strict}} > mid.
    [first] deletes build.flags and artifact (only [a] supplies them) and
    writes a marker; [mid] runs in [b], whose settings have no [build] at all
    -- the re-merge finds nothing for the marks to hide --; [last] runs in
    [a] again and must not see what [first] deleted. *)
Definition ns_script_r : item :=
  ISub None true (Node [("shared", Leaf (VStr "root"))])
       [ISub (Some "a") true
             (Node [("build", Node [("flags", Leaf (VStr "-O2")); ("jobs", Leaf (VInt 4))]);
                    ("artifact", Leaf (VStr "a.tar"))])
             [ITask (tk 1 "first") None [] None; ITask (tk 3 "last") None [] None] None false;
        ISub (Some "b") true (Node [("lint", Node [("strict", Leaf (VBool true))])])
             [ITask (tk 2 "mid") None [] None] None false]
       None false.

Definition ns_r : coll := match build ns_script_r with Ok c => c | Err _ => new_coll None true end.

Definition init_r : init_args := mkInit (Node []) (Node []) None None false.

Definition bodies_r : list (nat * list op) :=
  [(1, [Del Item ["build"] "flags"; Del Attr [] "artifact"; SetV Item [] "marker" (Leaf (VStr "m"))])].

Definition bf_r : nat -> list op :=
  fun t => match find (fun b => Nat.eqb (fst b) t) bodies_r with Some b => snd b | None => [] end.

Definition S_r : tree :=
  Node [("shared", Leaf VNone); ("artifact", Leaf VNone); ("marker", Leaf VNone);
        ("build", Node [("flags", Leaf VNone); ("jobs", Leaf VNone)]);
        ("lint", Node [("strict", Leaf VNone)])].

Definition c0_r : cfg :=
  match start [] init_r with Ok c => c | Err _ => blank (Node []) (Node []) None None None None "" end.

Definition dA_r : dict := match configuration ns_r "a.first" with Ok d => d | Err _ => [] end.

(** the state in which [first] leaves the session *)
Definition c2_r : cfg := fst (step [] (fst (step [] c0_r (LoadCollection (Node dA_r)))) (LoadShellEnv [])).
Definition c1_r : cfg := fst (fst (run_body [] c2_r (bf_r 1))).
Definition J1_r : list event := journal [] c2_r (bf_r 1).

Lemma good_c1_r : good S_r c1_r J1_r.
Proof.
  assert (HS : is_node S_r = true) by reflexivity.
  assert (G0 : good S_r c0_r []) by (apply good0_good; [exact HS | vm_compute; reflexivity]).
  assert (Ok1 : op_ok S_r (LoadCollection (Node dA_r)) = true) by (vm_compute; reflexivity).
  destruct (step_good S_r [] c0_r [] _ HS G0 Ok1) as [G1 _]. cbn [events_of app] in G1.
  assert (Ok2 : op_ok S_r (LoadShellEnv []) = true) by reflexivity.
  destruct (step_good S_r [] _ [] _ HS G1 Ok2) as [G2 _]. cbn [events_of app] in G2.
  assert (Okb : forallb (op_ok S_r) (bf_r 1) = true) by (vm_compute; reflexivity).
  destruct (run_body_good S_r [] HS (bf_r 1) _ [] G2 Okb) as [G3 _].
  exact G3.
Qed.

(** direct requests: a.first b.mid a.last *)
Lemma three_step_history :
  let reqs := [("a.first", leaf_call 1); ("b.mid", leaf_call 2); ("a.last", leaf_call 3)] in
  let rest := [(2, Some "b.mid"); (3, Some "a.last")] in
  build ns_script_r = Ok ns_r /\
  good S_r c1_r J1_r /\
  masked (c_dels c1_r) ["build"; "flags"] = true /\ masked (c_dels c1_r) ["artifact"] = true /\
  session_guard_any S_r ns_r bf_r rest = true /\
  nobody_writes ["build"; "flags"] bf_r rest = true /\ nobody_writes ["artifact"] bf_r rest = true /\
  exists va va' vb vl outs,
    session ns_r init_r bodies_r reqs None true [[]]
      = Ok ([(1, va, outs, va'); (2, vb, [], vb); (3, vl, [], vl)], None) /\
    (* [c1_r] is the state the rest of that session starts from *)
    run_calls [] ns_r c1_r bf_r rest [[]] = ([(2, vb, [], vb); (3, vl, [], vl)], None) /\
    leaf_at ["build"; "flags"] (Node va) = Some (VStr "-O2") /\
    leaf_at ["artifact"] (Node va) = Some (VStr "a.tar") /\
    (* nothing of [build] in b's data: the marks have nothing to hide there *)
    lookup ["build"] (Node vb) = None /\ leaf_at ["marker"] (Node vb) = Some (VStr "m") /\
    leaf_at ["build"; "jobs"] (Node vl) = Some (VInt 4) /\
    leaf_at ["build"; "flags"] (Node vl) = None /\ leaf_at ["artifact"] (Node vl) = None /\
    leaf_at ["marker"] (Node vl) = Some (VStr "m").
Proof.
  cbv zeta. split; [vm_compute; reflexivity|]. split; [exact good_c1_r|].
  split; [vm_compute; reflexivity|]. split; [vm_compute; reflexivity|].
  split; [vm_compute; reflexivity|]. split; [vm_compute; reflexivity|]. split; [vm_compute; reflexivity|].
  do 5 eexists. split; [vm_compute; reflexivity|]. split; [vm_compute; reflexivity|].
  repeat split; vm_compute; reflexivity.
Qed.

(** the other namespace as a post-task of the deleting task (a call without a
    name: it gets the root collection's settings), then a.last; and with a
    whole section deleted *)
Definition bodies_r2 : list (nat * list op) := [(1, [Del Item [] "build"])].
Definition bf_r2 : nat -> list op :=
  fun t => match find (fun b => Nat.eqb (fst b) t) bodies_r2 with Some b => snd b | None => [] end.
Definition c1_r2 : cfg := fst (fst (run_body [] c2_r (bf_r2 1))).

Lemma good_c1_r2 : good S_r c1_r2 (journal [] c2_r (bf_r2 1)).
Proof.
  assert (HS : is_node S_r = true) by reflexivity.
  assert (G0 : good S_r c0_r []) by (apply good0_good; [exact HS | vm_compute; reflexivity]).
  assert (Ok1 : op_ok S_r (LoadCollection (Node dA_r)) = true) by (vm_compute; reflexivity).
  destruct (step_good S_r [] c0_r [] _ HS G0 Ok1) as [G1 _]. cbn [events_of app] in G1.
  assert (Ok2 : op_ok S_r (LoadShellEnv []) = true) by reflexivity.
  destruct (step_good S_r [] _ [] _ HS G1 Ok2) as [G2 _]. cbn [events_of app] in G2.
  assert (Okb : forallb (op_ok S_r) (bf_r2 1) = true) by (vm_compute; reflexivity).
  destruct (run_body_good S_r [] HS (bf_r2 1) _ [] G2 Okb) as [G3 _].
  exact G3.
Qed.

Lemma three_step_history_hook :
  let reqs := [("a.first", SCall 1 [] [leaf_call 2]); ("a.last", leaf_call 3)] in
  let rest := [(2, None); (3, Some "a.last")] in
  session_calls reqs None true = (1, Some "a.first") :: rest /\
  good S_r c1_r2 (journal [] c2_r (bf_r2 1)) /\
  masked (c_dels c1_r2) ["build"] = true /\ masked (c_dels c1_r2) ["build"; "jobs"] = true /\
  session_guard_any S_r ns_r bf_r2 rest = true /\ session_guard S_r ns_r bf_r2 rest = false /\
  nobody_writes ["build"] bf_r2 rest = true /\
  exists va va' vb vl outs,
    session ns_r init_r bodies_r2 reqs None true [[]]
      = Ok ([(1, va, outs, va'); (2, vb, [], vb); (3, vl, [], vl)], None) /\
    lookup ["build"] (Node va) <> None /\ lookup ["build"] (Node vb) = None /\
    lookup ["build"] (Node vl) = None /\ leaf_at ["artifact"] (Node vl) = Some (VStr "a.tar").
Proof.
  cbv zeta. split; [vm_compute; reflexivity|]. split; [exact good_c1_r2|].
  split; [vm_compute; reflexivity|]. split; [vm_compute; reflexivity|].
  split; [vm_compute; reflexivity|]. split; [vm_compute; reflexivity|]. split; [vm_compute; reflexivity|].
  do 5 eexists. split; [vm_compute; reflexivity|].
  split; [vm_compute; discriminate|]. repeat split; vm_compute; reflexivity.
Qed.
