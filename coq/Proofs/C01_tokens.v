(** C01 proof, part 2: what one token does to a quiescent machine. *)
From InvokeVerif Require Import Model.ParserModel Proofs.C07_fuel Proofs.C01_steps.
From Coq Require Import Lia.

Lemma to_flag_dash n : starts_with "-" (to_flag n) = true.
Proof. unfold to_flag. destruct (Nat.eqb _ 1); reflexivity. Qed.

Lemma find_index_none_iff {A} (p : A -> bool) l :
  (forall x, In x l -> p x = false) -> find_index p l = None.
Proof.
  induction l as [|y l IH]; simpl; [reflexivity|]. intros H.
  rewrite (H y (or_introl eq_refl)). rewrite IH; [reflexivity|]. intros x Hx. apply H. auto.
Qed.

Lemma mem_flags_plain tok a : starts_with "-" tok = false -> mem tok (arg_flags a) = false.
Proof.
  intros P. unfold arg_flags, mem. apply not_true_is_false. intros H.
  apply existsb_exists in H. destruct H as [x [Hx E]]. apply String.eqb_eq in E. subst x.
  apply in_map_iff in Hx. destruct Hx as [n [<- _]]. rewrite to_flag_dash in P. discriminate.
Qed.

Lemma plain_not_flag args tok : starts_with "-" tok = false -> find_flag args tok = None.
Proof.
  intros P. unfold find_flag. apply find_index_none_iff. intros r _. apply mem_flags_plain. exact P.
Qed.

Lemma plain_not_inverse args tok : starts_with "-" tok = false -> find_inverse args tok = None.
Proof.
  intros P. unfold find_inverse.
  destruct (find (fun r => is_inverse_of tok (r_spec r)) args) as [r|] eqn:F; [|reflexivity].
  apply find_some in F. destruct F as [_ F]. unfold is_inverse_of, inverse_of in F.
  destruct (a_kind (r_spec r)); try discriminate. destruct (a_default (r_spec r)); try discriminate.
  destruct b; try discriminate. apply String.eqb_eq in F. subst tok.
  rewrite to_flag_dash in P. discriminate.
Qed.

Lemma seq_snoc n : seq 0 (S n) = seq 0 n ++ [n].
Proof. rewrite seq_S. reflexivity. Qed.

Lemma not_in_seq n : existsb (Nat.eqb n) (seq 0 n) = false.
Proof.
  apply not_true_is_false. intros H. apply existsb_exists in H. destruct H as [x [Hx E]].
  apply Nat.eqb_eq in E. subst x. apply in_seq in Hx. lia.
Qed.

Lemma flat_map_nth_seq_gen {A} : forall (l pre : list A),
  flat_map (fun j => match nth_error (pre ++ l) j with Some c => [c] | None => [] end)
           (seq (List.length pre) (List.length l)) = l.
Proof.
  induction l as [|x l IH]; intros pre; [reflexivity|].
  cbn [List.length seq flat_map].
  assert (E : nth_error (pre ++ x :: l) (List.length pre) = Some x).
  { clear. induction pre; simpl; auto. }
  rewrite E. cbn [app]. f_equal.
  specialize (IH (pre ++ [x])). rewrite <- app_assoc in IH. cbn [app] in IH.
  rewrite app_length in IH. cbn [List.length] in IH.
  replace (List.length pre + 1) with (S (List.length pre)) in IH by lia. exact IH.
Qed.

Lemma flat_map_nth_seq {A} (l : list A) :
  flat_map (fun j => match nth_error l j with Some c => [c] | None => [] end)
           (seq 0 (List.length l)) = l.
Proof. exact (flat_map_nth_seq_gen l []). Qed.

Section Tokens.
Variable p : parser.
Variable i0 : rctx.
Variable done : list rctx.
Variable cur : rctx.
Let kk := S (List.length done).
Let args := rc_args cur.

Definition upd_cur (i : nat) (r : rarg) : rctx := with_args cur (upd_nth i r (rc_args cur)).

(** A boolean flag of the task: set at once. *)
Lemma step_bool_flag fl got tok i r :
  inert (MS i0 done cur fl got) ->
  clean_flag tok = true ->
  find_flag args tok = Some i -> nth_error args i = Some r ->
  a_kind (r_spec r) = KBool -> a_incrementable (r_spec r) = false ->
  step p (MS i0 done cur fl got) tok
  = Ok (MS i0 done (upd_cur i (mkRArg (r_spec r) true (ABool true))) (Some (kk, i)) false, []).
Proof.
  intros I C F N Kb Ninc. unfold step, bind.
  rewrite (clean_flag_presplit (MS i0 done cur fl got) _ C eq_refl), (inert_rollback _ _ _ I). cbn [fst snd].
  unfold handle. cbn [m_st MS pstate_eqb]. rewrite MS_cur. cbn [ctx_has_flag]. fold args. rewrite F.
  unfold switch_to_flag, bind. rewrite (inert_check_ambiguity p tok _ I), (inert_complete_flag _ I).
  rewrite MS_cur. cbn [m_cur MS]. fold args. rewrite F.
  change (set_flag (MS i0 done cur fl got) (Some (S (List.length done), i)) false)
    with (MS i0 done cur (Some (kk, i)) false).
  rewrite MS_get_arg_cur. fold args. rewrite N. unfold takes_value. rewrite Kb.
  unfold set_arg_value. rewrite MS_get_arg_cur. fold args. rewrite N.
  unfold set_value, new_value. rewrite Ninc, Kb. cbn [cast_kind negb].
  rewrite MS_put_arg. reflexivity.
Qed.

(** "--no-x": the inverse spelling of a default-true boolean. *)
Lemma step_inverse_flag fl got tok target i r :
  inert (MS i0 done cur fl got) ->
  clean_flag tok = true ->
  find_flag args tok = None -> find_inverse args tok = Some target ->
  find_flag args target = Some i -> nth_error args i = Some r ->
  a_kind (r_spec r) = KBool -> a_incrementable (r_spec r) = false ->
  step p (MS i0 done cur fl got) tok
  = Ok (MS i0 done (upd_cur i (mkRArg (r_spec r) true (ABool false))) (Some (kk, i)) false, []).
Proof.
  intros I C F FI FT N Kb Ninc. unfold step, bind.
  rewrite (clean_flag_presplit (MS i0 done cur fl got) _ C eq_refl), (inert_rollback _ _ _ I). cbn [fst snd].
  unfold handle. cbn [m_st MS pstate_eqb]. rewrite MS_cur. cbn [ctx_has_flag ctx_has_inverse].
  fold args. rewrite F, FI.
  unfold switch_to_flag, bind. rewrite (inert_check_ambiguity p tok _ I), (inert_complete_flag _ I).
  rewrite MS_cur. cbn [m_cur MS]. fold args. rewrite FI, FT.
  change (set_flag (MS i0 done cur fl got) (Some (S (List.length done), i)) false)
    with (MS i0 done cur (Some (kk, i)) false).
  rewrite MS_get_arg_cur. fold args. rewrite N. unfold takes_value. rewrite Kb.
  unfold set_arg_value. rewrite MS_get_arg_cur. fold args. rewrite N.
  unfold set_value, new_value. rewrite Ninc, Kb. cbn [cast_kind negb].
  rewrite MS_put_arg. reflexivity.
Qed.

(** A value-taking flag of the task: becomes the current flag, value pending.
    [pushed] lets the same lemma serve the "=" form. *)
Lemma handle_value_flag fl got tok i r :
  inert (MS i0 done cur fl got) ->
  find_flag args tok = Some i -> nth_error args i = Some r ->
  takes_value (r_spec r) = true ->
  handle p tok (MS i0 done cur fl got) = Ok (MS i0 done cur (Some (kk, i)) false).
Proof.
  intros I F N Tv.
  unfold handle. cbn [m_st MS pstate_eqb]. rewrite MS_cur. cbn [ctx_has_flag]. fold args. rewrite F.
  unfold switch_to_flag, bind. rewrite (inert_check_ambiguity p tok _ I), (inert_complete_flag _ I).
  rewrite MS_cur. cbn [m_cur MS]. fold args. rewrite F.
  change (set_flag (MS i0 done cur fl got) (Some (S (List.length done), i)) false)
    with (MS i0 done cur (Some (kk, i)) false).
  rewrite MS_get_arg_cur. fold args. rewrite N, Tv. reflexivity.
Qed.

Lemma step_value_flag fl got tok i r :
  inert (MS i0 done cur fl got) -> clean_flag tok = true ->
  find_flag args tok = Some i -> nth_error args i = Some r ->
  takes_value (r_spec r) = true ->
  step p (MS i0 done cur fl got) tok = Ok (MS i0 done cur (Some (kk, i)) false, []).
Proof.
  intros I C F N Tv. unfold step, bind.
  rewrite (clean_flag_presplit (MS i0 done cur fl got) _ C eq_refl), (inert_rollback _ _ _ I). cbn [fst snd].
  rewrite (handle_value_flag _ _ _ _ _ I F N Tv). reflexivity.
Qed.

Lemma step_eq_flag fl got tok s i r :
  inert (MS i0 done cur fl got) -> clean_flag tok = true ->
  find_flag args tok = Some i -> nth_error args i = Some r ->
  takes_value (r_spec r) = true ->
  step p (MS i0 done cur fl got) (tok ++ String "=" s)
  = Ok (MS i0 done cur (Some (kk, i)) false, [s]).
Proof.
  intros I C F N Tv. unfold step, bind.
  rewrite (clean_flag_eq_presplit (MS i0 done cur fl got) _ s C eq_refl), (inert_rollback _ _ _ I). cbn [fst snd].
  rewrite (handle_value_flag _ _ _ _ _ I F N Tv). reflexivity.
Qed.

(** The value of the pending (non-optional) flag: a plain token. *)
Lemma step_value got tok i r r' :
  nth_error args i = Some r ->
  takes_value (r_spec r) = true -> a_optional (r_spec r) = false ->
  (if akind_eqb (a_kind (r_spec r)) KList && negb got then true else negb (r_raw r)) = true ->
  starts_with "-" tok = false ->
  set_value r (IStr tok) true = Ok r' ->
  step p (MS i0 done cur (Some (kk, i)) got) tok
  = Ok (MS i0 done (upd_cur i r') (Some (kk, i)) true, []).
Proof.
  intros N Tv No W P SV. unfold step, bind. rewrite (plain_presplit _ _ P).
  assert (Wt : waiting (MS i0 done cur (Some (kk, i)) got) = true).
  { unfold waiting, flag_arg. cbn [m_flag MS]. fold kk. rewrite MS_get_arg_cur. fold args.
    rewrite N, Tv. cbn [m_got MS]. exact W. }
  unfold rollback. rewrite Wt, MS_cur.
  unfold flag_arg. cbn [m_flag MS]. fold kk. rewrite MS_get_arg_cur. fold args. rewrite N, No.
  cbn [andb fst snd].
  unfold handle. cbn [m_st MS pstate_eqb]. rewrite MS_cur. cbn [ctx_has_flag ctx_has_inverse].
  fold args. rewrite (plain_not_flag args tok P), (plain_not_inverse args tok P), Wt.
  unfold see_value, bind, check_ambiguity, flag_arg. cbn [m_flag MS]. fold kk.
  rewrite MS_get_arg_cur. fold args. rewrite N, No. cbn [negb].
  cbn [m_flag MS]. fold kk. rewrite MS_get_arg_cur. fold args. rewrite N, Tv.
  unfold set_arg_value. rewrite MS_get_arg_cur. fold args. rewrite N, SV.
  rewrite MS_put_arg. reflexivity.
Qed.

(** A task name: the current context is completed and a fresh copy of the
    named one becomes current. *)
Lemma step_task_name fl got tok c' :
  inert (MS i0 done cur fl got) ->
  has_missing cur = false -> starts_with "-" tok = false ->
  find_ctx (p_ctxs p) tok = Some c' ->
  step p (MS i0 done cur fl got) tok
  = Ok (MS i0 (done ++ [cur]) (init_ctx c') fl got, []).
Proof.
  intros I Hm P Fc. unfold step, bind.
  rewrite (plain_presplit _ _ P), (inert_rollback _ _ _ I). cbn [fst snd].
  unfold handle. cbn [m_st MS pstate_eqb]. rewrite MS_cur. cbn [ctx_has_flag ctx_has_inverse].
  fold args. rewrite (plain_not_flag args tok P), (plain_not_inverse args tok P).
  rewrite (inert_waiting _ I), Hm.
  assert (Nm : is_ctx_name (p_ctxs p) tok = true).
  { unfold is_ctx_name. apply existsb_exists. unfold find_ctx in Fc. apply find_some in Fc.
    destruct Fc as [A B]. eauto. }
  rewrite Nm. unfold see_context, transition. cbn [m_st MS pstate_eqb].
  change (set_state (MS i0 done cur fl got) SContext) with (MS i0 done cur fl got).
  unfold enter_state, bind. rewrite (inert_complete_flag _ I).
  unfold complete_context. rewrite MS_cur. cbn [m_cur MS m_res]. rewrite Hm.
  change (seq 0 (S (List.length done))) with (seq 0 kk). fold kk. rewrite (not_in_seq kk).
  unfold switch_to_context. rewrite Fc. cbn -[seq].
  unfold MS. rewrite <- seq_snoc. rewrite !app_length. cbn [List.length].
  replace (List.length done + 1) with (S (List.length done)) by lia.
  unfold kk. rewrite <- app_assoc. reflexivity.
Qed.

(** End of the command line. *)
Lemma finish_MS fl got :
  inert (MS i0 done cur fl got) -> has_missing cur = false ->
  exists m', finish (MS i0 done cur fl got) = Ok m' /\
             result_ctxs m' = i0 :: done ++ [cur] /\ m_unparsed m' = [].
Proof.
  intros I Hm. unfold finish, transition. cbn [in_context_or_unknown m_st MS].
  unfold enter_state, bind.
  assert (I' : inert (set_state (MS i0 done cur fl got) SEnd)) by exact I.
  rewrite (inert_complete_flag _ I').
  unfold complete_context.
  change (cur_ctx (set_state (MS i0 done cur fl got) SEnd)) with (cur_ctx (MS i0 done cur fl got)).
  rewrite MS_cur. cbn [m_cur set_state MS m_res]. rewrite Hm.
  change (seq 0 (S (List.length done))) with (seq 0 kk). fold kk. rewrite (not_in_seq kk).
  eexists. split; [reflexivity|]. split; [|reflexivity].
  unfold result_ctxs. cbn [m_res]. rewrite <- seq_snoc.
  unfold get_ctx. cbn [m_ctxs].
  pose proof (flat_map_nth_seq (i0 :: done ++ [cur])) as G.
  cbn [List.length] in G. rewrite app_length in G. cbn [List.length] in G.
  replace (List.length done + 1) with kk in G by (unfold kk; lia).
  exact G.
Qed.

End Tokens.

(** ** The start of the command line *)

Definition M0 (i0 : rctx) : machine := mkM [i0] true (Some 0) [0] None false SContext [].

Lemma new_machine_M0 cs ic ign :
  has_missing (init_ctx ic) = false ->
  new_machine (mkP cs (Some ic) ign) = Ok (M0 (init_ctx ic)).
Proof.
  intros Hm. unfold new_machine, enter_state, bind, complete_flag, complete_context, cur_ctx, get_ctx.
  simpl. rewrite Hm. reflexivity.
Qed.

Lemma step_first_task p i0 tok c' :
  has_missing i0 = false -> starts_with "-" tok = false ->
  find_ctx (p_ctxs p) tok = Some c' ->
  step p (M0 i0) tok = Ok (MS i0 [] (init_ctx c') None false, []).
Proof.
  intros Hm P Fc. unfold step, bind. rewrite (plain_presplit _ _ P).
  assert (Nm : is_ctx_name (p_ctxs p) tok = true).
  { unfold is_ctx_name. apply existsb_exists. unfold find_ctx in Fc. apply find_some in Fc.
    destruct Fc as [A B]. eauto. }
  unfold rollback, waiting, flag_arg. cbn [m_flag M0 fst snd].
  unfold handle, cur_ctx, get_ctx, waiting, flag_arg, see_context, transition, enter_state, bind,
    complete_flag, complete_context, cur_ctx, get_ctx, switch_to_context.
  cbn -[has_missing find_flag find_inverse is_ctx_name find_ctx init_ctx].
  rewrite (plain_not_flag (rc_args i0) tok P), (plain_not_inverse (rc_args i0) tok P), Hm, Nm.
  cbn -[has_missing find_flag find_inverse is_ctx_name find_ctx init_ctx].
  rewrite Fc. reflexivity.
Qed.
