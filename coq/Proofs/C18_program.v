(** C18: composition of the two passes of invoke/program.py for the placement
    theorem -- the core pass (ignore_unknown, no task contexts), the task pass
    (Proofs/C18_placement.v) and [_update_core_context]. *)
From InvokeVerif Require Import Corr.C18Corr Spec.C01Spec Proofs.ListFacts Proofs.C07_fuel
     Proofs.C01_steps Proofs.C01_tokens Proofs.C01_lookup Proofs.C01_occ Proofs.C01_roundtrip
     Proofs.C01_final Proofs.C18_placement.
From Coq Require Import Lia.

(** ** The core pass: storing unknown tokens *)

(** the machine of the core pass while it stores unknown tokens *)
Definition MU (i0 : rctx) (fl : option (nat * nat)) (got : bool) (un : list string) : machine :=
  mkM [i0] true (Some 0) [0] fl got SUnknown un.

Section CorePass.
Variable ic : ctxspec.
Let pc := mkP [] (Some ic) true.

Lemma inert_MU i0 fl got un : inert (MI i0 fl got) -> inert (MU i0 fl got un).
Proof. unfold inert. cbn [m_flag MI MU]. destruct fl; auto. Qed.

Lemma enter_unknown i0 fl got un :
  inert (MI i0 fl got) -> has_missing i0 = false ->
  enter_state (MU i0 fl got un) = Ok (MU i0 fl got un).
Proof.
  intros I Hm. unfold enter_state, bind. rewrite (inert_complete_flag _ (inert_MU i0 fl got un I)).
  unfold complete_context, cur_ctx, get_ctx. cbn [m_cur m_ctxs MU nth_error m_res existsb Nat.eqb orb].
  rewrite Hm. reflexivity.
Qed.

(** a plain word the core pass cannot place: it becomes the first unparsed token *)
Lemma step_first_unknown i0 fl got t :
  inert (MI i0 fl got) -> has_missing i0 = false -> starts_with "-" t = false ->
  step pc (MI i0 fl got) t = Ok (MU i0 fl got [t], []).
Proof.
  intros I Hm P. unfold step, bind. rewrite (plain_presplit _ _ P), (inert_rollback _ _ _ I).
  cbn [fst snd]. unfold handle. cbn [m_st MI pstate_eqb]. unfold cur_ctx, get_ctx.
  cbn [m_cur m_ctxs MI nth_error ctx_has_flag ctx_has_inverse].
  rewrite (plain_not_flag (rc_args i0) t P), (plain_not_inverse (rc_args i0) t P).
  rewrite (inert_waiting _ I), Hm. cbn [p_ctxs pc is_ctx_name existsb].
  unfold init_ctx_of, get_ctx. cbn [m_init m_ctxs MI nth_error].
  rewrite (plain_not_flag (rc_args i0) t P). cbn [p_ignore pc].
  unfold see_unknown, transition. cbn [in_context_or_unknown m_st MI].
  change (set_state (MI i0 fl got) SUnknown) with (MU i0 fl got []).
  unfold bind. rewrite (enter_unknown i0 fl got [] I Hm). reflexivity.
Qed.

Lemma step_store i0 fl got un t :
  inert (MI i0 fl got) -> has_missing i0 = false -> un <> [] ->
  step pc (MU i0 fl got un) t = Ok (MU i0 fl got (un ++ [t]), []).
Proof.
  intros I Hm Ne. unfold step, bind.
  assert (P : presplit (MU i0 fl got un) t = Ok (t, [])).
  { unfold presplit. cbn [m_unparsed MU]. destruct un; [congruence|]. rewrite andb_false_r. reflexivity. }
  rewrite P, (inert_rollback _ _ _ (inert_MU i0 fl got un I)). cbn [fst snd].
  unfold handle. cbn [m_st MU pstate_eqb]. unfold see_unknown, transition.
  cbn [in_context_or_unknown m_st MU].
  change (set_state (MU i0 fl got un) SUnknown) with (MU i0 fl got un).
  unfold bind. rewrite (enter_unknown i0 fl got un I Hm). reflexivity.
Qed.

Lemma steps_store i0 fl got : forall rest un,
  inert (MI i0 fl got) -> has_missing i0 = false -> un <> [] ->
  steps pc (MU i0 fl got un) rest (MU i0 fl got (un ++ rest)).
Proof.
  induction rest as [|t rest IH]; intros un I Hm Ne.
  - rewrite app_nil_r. apply steps_nil.
  - econstructor; [apply step_store; assumption|]. cbn [app].
    replace (un ++ t :: rest) with ((un ++ [t]) ++ rest) by (rewrite <- app_assoc; reflexivity).
    apply IH; auto. destruct un; discriminate.
Qed.

Lemma finish_MU i0 fl got un :
  inert (MI i0 fl got) -> has_missing i0 = false ->
  exists m', finish (MU i0 fl got un) = Ok m' /\ result_ctxs m' = [i0] /\ m_unparsed m' = un.
Proof.
  intros I Hm. unfold finish, transition. cbn [in_context_or_unknown m_st MU].
  unfold enter_state, bind.
  assert (I' : inert (set_state (MU i0 fl got un) SEnd)) by (apply (inert_MU i0 fl got un I)).
  rewrite (inert_complete_flag _ I').
  unfold complete_context, cur_ctx, get_ctx.
  cbn [m_cur m_ctxs set_state MU nth_error m_res existsb Nat.eqb orb]. rewrite Hm.
  eexists. split; [reflexivity|]. split; reflexivity.
Qed.

(** core pass over a command line that starts with a plain word: nothing is
    consumed, everything is handed to the task pass *)
Lemma core_pass_plain t rest :
  has_missing (init_ctx ic) = false -> starts_with "-" t = false ->
  Forall (fun x => x <> "--") (t :: rest) ->
  parser_parse [] (Some ic) true (t :: rest)
  = Ok (mkRes [init_ctx ic] (t :: rest) "").
Proof.
  intros Hm P Cl. set (i0 := init_ctx ic).
  assert (I : inert (MI i0 None false)) by exact I.
  pose proof (step_first_unknown i0 None false t I Hm P) as S0.
  pose proof (steps_store i0 None false rest [t] I Hm ltac:(discriminate)) as S1.
  destruct (finish_MU i0 None false ([t] ++ rest) I Hm) as [m' [Fi [Rc Un]]].
  assert (St : steps pc (M0 i0) (t :: rest) (MU i0 None false ([t] ++ rest))).
  { econstructor; [exact S0 | exact S1]. }
  pose proof (split_ddash_clean _ Cl) as Sd.
  assert (St' : steps pc (M0 i0) (fst (split_ddash (t :: rest))) (MU i0 None false ([t] ++ rest)))
    by (rewrite Sd; exact St).
  pose proof (steps_parse pc (t :: rest) (M0 i0) _ m' (new_machine_M0 [] ic true Hm) St' Fi) as Pp.
  rewrite Sd in Pp. cbn [snd join] in Pp.
  unfold parser_parse. cbn [parser_ok forallb flat_map nodupb andb]. unfold pc in Pp. rewrite Pp, Rc, Un. reflexivity.
Qed.

(** core pass over  <boolean core flag> <plain word> ... : the flag is consumed,
    the rest handed on *)
Lemma core_pass_flag tok i r t rest :
  has_missing (init_ctx ic) = false ->
  clean_flag tok = true ->
  find_flag (rc_args (init_ctx ic)) tok = Some i -> nth_error (rc_args (init_ctx ic)) i = Some r ->
  a_kind (r_spec r) = KBool -> a_incrementable (r_spec r) = false ->
  starts_with "-" t = false ->
  Forall (fun x => x <> "--") (t :: rest) ->
  parser_parse [] (Some ic) true (tok :: t :: rest)
  = Ok (mkRes [set_core (init_ctx ic) i r] (t :: rest) "").
Proof.
  intros Hm C Fi N Kb Ninc P Cl. set (i0 := init_ctx ic).
  destruct (step_core_bool_flag_front pc i0 tok i r C Fi N Kb Ninc) as [S0 I0].
  set (i0' := set_core i0 i r) in *.
  assert (Hm' : has_missing i0' = false) by (apply has_missing_set_core; exact Hm).
  pose proof (step_first_unknown i0' (Some (0, i)) false t I0 Hm' P) as S1.
  pose proof (steps_store i0' (Some (0, i)) false rest [t] I0 Hm' ltac:(discriminate)) as S2.
  destruct (finish_MU i0' (Some (0, i)) false ([t] ++ rest) I0 Hm') as [m' [Fin [Rc Un]]].
  assert (St : steps pc (M0 i0) (tok :: t :: rest) (MU i0' (Some (0, i)) false ([t] ++ rest))).
  { econstructor; [exact S0|]. cbn [app]. econstructor; [exact S1 | exact S2]. }
  assert (Cl' : Forall (fun x => x <> "--") (tok :: t :: rest)).
  { constructor; [apply clean_not_ddash; exact C | exact Cl]. }
  pose proof (split_ddash_clean _ Cl') as Sd.
  assert (St' : steps pc (M0 i0) (fst (split_ddash (tok :: t :: rest)))
                      (MU i0' (Some (0, i)) false ([t] ++ rest)))
    by (rewrite Sd; exact St).
  pose proof (steps_parse pc (tok :: t :: rest) (M0 i0) _ m' (new_machine_M0 [] ic true Hm) St' Fin) as Pp.
  rewrite Sd in Pp. cbn [snd join] in Pp.
  unfold parser_parse. cbn [parser_ok forallb flat_map nodupb andb]. unfold pc in Pp. rewrite Pp, Rc, Un. reflexivity.
Qed.

End CorePass.

(** ** _update_core_context on the values *)

Definition core_values (args : list rarg) : list (string * aval) :=
  map (fun a => (main_name (r_spec a), arg_value a)) args.

Lemma update_core_same : forall args, core_values (update_core args args) = core_values args.
Proof.
  induction args as [|c args IH]; [reflexivity|]. cbn [update_core core_values map].
  fold (core_values (update_core args args)). fold (core_values args). rewrite IH. f_equal.
  destruct (got_value c); reflexivity.
Qed.

(** the via-tasks context differs from the core one only at a boolean that was
    set in exactly one of them *)
Lemma update_core_upd_l : forall args i r r',
  nth_error args i = Some r -> r_spec r' = r_spec r -> got_value r = false ->
  core_values (update_core (upd_nth i r' args) args) = core_values (upd_nth i r' args).
Proof.
  induction args as [|c args IH]; intros [|i] r r' N Sp Gv; simpl in N; try discriminate.
  - injection N as ->. cbn [upd_nth update_core core_values map]. rewrite Gv.
    fold (core_values (update_core args args)). fold (core_values args).
    rewrite update_core_same. reflexivity.
  - cbn [upd_nth update_core core_values map].
    fold (core_values (update_core (upd_nth i r' args) args)). fold (core_values (upd_nth i r' args)).
    rewrite (IH i r r' N Sp Gv). f_equal. destruct (got_value c); reflexivity.
Qed.

Lemma update_core_upd_r : forall args i r r',
  nth_error args i = Some r -> r_spec r' = r_spec r -> got_value r' = true ->
  aval_is_none (r_val r') = false ->
  core_values (update_core args (upd_nth i r' args)) = core_values (upd_nth i r' args).
Proof.
  induction args as [|c args IH]; intros [|i] r r' N Sp Gv Nn; simpl in N; try discriminate.
  - injection N as ->. cbn [upd_nth update_core core_values map]. rewrite Gv.
    fold (core_values (update_core args args)). fold (core_values args).
    rewrite update_core_same. f_equal. cbn [r_spec]. rewrite Sp. f_equal.
    unfold arg_value. cbn [r_val]. rewrite Nn. reflexivity.
  - cbn [upd_nth update_core core_values map].
    fold (core_values (update_core args (upd_nth i r' args))). fold (core_values (upd_nth i r' args)).
    rewrite (IH i r r' N Sp Gv Nn). f_equal. destruct (got_value c); reflexivity.
Qed.

(** ** The program-level placement theorem *)

Definition prog_obs (ic : ctxspec) (cs : list ctxspec) (argv : list string) : result gobs :=
  match program_parse ic cs argv with
  | Ok r => Ok (gobs_of r)
  | Err e => Err e
  end.

Lemma spell_head cs k rest :
  forallb (call_simple cs) (k :: rest) = true ->
  exists tl, spell cs (k :: rest) = k_as k :: tl /\ starts_with "-" (k_as k) = false.
Proof.
  cbn [forallb]. rewrite andb_true_iff. intros [Ck _]. unfold call_simple in Ck.
  unfold spell. cbn [flat_map]. unfold spell_call at 1.
  destruct (nth_error cs (k_task k)) as [c|]; [|discriminate].
  rewrite !andb_true_iff in Ck. destruct Ck as [[[_ Pl] _] _].
  unfold plain in Pl. rewrite negb_true_iff in Pl. cbn [app]. eauto.
Qed.

Lemma init_bool_not_given ic i r :
  nth_error (rc_args (init_ctx ic)) i = Some r ->
  a_kind (r_spec r) = KBool -> a_incrementable (r_spec r) = false -> got_value r = false.
Proof.
  unfold init_ctx. cbn [rc_args]. intros N Kb Ninc.
  destruct (nth_error_map_inv init_arg (cx_args ic) i r N) as [a [_ <-]].
  cbn [r_spec init_arg] in *. unfold got_value, init_arg, init_value. cbn [r_spec r_val].
  rewrite Kb, Ninc. reflexivity.
Qed.

Section Program.
Variable cs : list ctxspec.
Variable ic : ctxspec.
Let i0 := init_ctx ic.
Variable tok : string.
Variable i : nat.
Variable r : rarg.
Hypothesis Ctok : clean_flag tok = true.
Hypothesis Fi : find_flag (rc_args i0) tok = Some i.
Hypothesis Ni : nth_error (rc_args i0) i = Some r.
Hypothesis Kb : a_kind (r_spec r) = KBool.
Hypothesis Ninc : a_incrementable (r_spec r) = false.
Hypothesis Nh : String.eqb (arg_name (r_spec r)) "help" = false.

Let core_after : list (string * aval) := core_values (rc_args (set_core i0 i r)).

(** the option before the first task: consumed by the core pass *)
Theorem program_flag_front inv :
  simple_guard cs ic inv = true ->
  exists g, prog_obs ic cs (tok :: spell cs inv) = Ok g /\
            g_core g = core_after /\ g_tasks g = expected cs inv /\
            g_unparsed g = spell cs inv /\ g_remainder g = "".
Proof.
  intros G. pose proof G as G'. unfold simple_guard in G'. rewrite !andb_true_iff, negb_true_iff in G'.
  destruct G' as [[[Pok Hi] Ne] Cs].
  destruct inv as [|k rest]; [discriminate|].
  destruct (spell_head cs k rest Cs) as [tail [Es Pl]].
  pose proof (spell_clean cs (k :: rest) Cs) as Cl.
  destruct (spell_roundtrip_simple cs ic (k :: rest) G) as [r2 [P2 [Hd [Tl [Un Rm]]]]].
  unfold prog_obs, program_parse.
  rewrite Es in *.
  rewrite (core_pass_flag ic tok i r (k_as k) tail Hi Ctok Fi Ni Kb Ninc Pl Cl).
  cbn [pr_ctxs pr_unparsed pr_remainder]. rewrite P2.
  destruct (pr_ctxs r2) as [|via ts] eqn:E2; [discriminate Hd|].
  cbn [hd_error] in Hd. injection Hd as ->. cbn [tl] in Tl.
  eexists. split; [reflexivity|]. unfold gobs_of.
  cbn [g_core g_tasks g_unparsed g_remainder pg_core pg_tasks pg_unparsed pg_remainder].
  split; [|split; [exact Tl | split; reflexivity]].
  fold (core_values (update_core (rc_args (set_core (init_ctx ic) i r)) (rc_args (init_ctx ic)))).
  unfold set_core, with_args. cbn [rc_args].
  apply (update_core_upd_l (rc_args (init_ctx ic)) i r); [exact Ni | reflexivity|].
  eapply init_bool_not_given; eauto.
Qed.

(** the option inside a task's argument list: untouched by the core pass,
    recognised by the task pass, copied back by _update_core_context *)
Theorem program_flag_placed calls1 t asn items1 items2 calls2 c :
  let inv := calls1 ++ mkCall t asn (items1 ++ items2) :: calls2 in
  let argv := spell cs calls1 ++ (asn :: flat_map (spell_item c) items1)
              ++ tok :: flat_map (spell_item c) items2 ++ spell cs calls2 in
  simple_guard cs ic inv = true ->
  nth_error cs t = Some c ->
  find_flag_spec (cx_args c) tok = None ->
  find (is_inverse_of tok) (cx_args c) = None ->
  is_ctx_name cs tok = false ->
  exists g, prog_obs ic cs argv = Ok g /\
            g_core g = core_after /\ g_tasks g = expected cs inv /\
            g_unparsed g = argv /\ g_remainder g = "".
Proof.
  intros inv argv G N Fs Finv Nn.
  destruct (core_flag_placed cs ic tok i r Ctok Fi Ni Kb Ninc Nh calls1 t asn items1 items2 calls2 c
                             G N Fs Finv Nn) as [r2 [P2 [Rc [Ob [Un Rm]]]]].
  fold inv argv in P2, Rc, Ob.
  pose proof G as G'. unfold simple_guard in G'. rewrite !andb_true_iff, negb_true_iff in G'.
  destruct G' as [[[Pok Hi] _] Cs].
  (* argv starts with a plain word and contains no "--" *)
  assert (Hd : exists h tail, argv = h :: tail /\ starts_with "-" h = false /\
                            Forall (fun x => x <> "--") (h :: tail)).
  { unfold inv in Cs. rewrite forallb_app in Cs. apply andb_true_iff in Cs. destruct Cs as [C1 Ck].
    cbn [forallb] in Ck. apply andb_true_iff in Ck. destruct Ck as [Ck C2].
    pose proof Ck as Ck'. unfold call_simple in Ck'. cbn [k_task] in Ck'. rewrite N in Ck'.
    rewrite !andb_true_iff in Ck'. destruct Ck' as [[[_ Pl] Gc] Is]. cbn [k_as k_items] in *.
    unfold plain in Pl. rewrite negb_true_iff in Pl.
    rewrite items_simple_app in Is. apply andb_true_iff in Is. destruct Is as [Is1 Is2].
    assert (Cl : Forall (fun x => x <> "--") argv).
    { unfold argv. apply Forall_app. split; [apply spell_clean; exact C1|]. cbn [app].
      constructor; [intros E; subst asn; discriminate Pl|].
      apply Forall_app. split; [eapply spell_items_clean; eauto|].
      constructor; [apply clean_not_ddash; exact Ctok|].
      apply Forall_app. split; [eapply spell_items_clean; eauto | apply spell_clean; exact C2]. }
    destruct calls1 as [|k1 r1].
    - unfold argv in *. cbn [spell flat_map app] in *. eexists _, _. split; [reflexivity|]. auto.
    - destruct (spell_head cs k1 r1 C1) as [tl1 [E1 P1]].
      unfold argv in *. rewrite E1 in *. cbn [app] in *. eexists _, _. split; [reflexivity|]. auto. }
  destruct Hd as [h [tail [Ea [Ph Cl]]]].
  unfold prog_obs, program_parse. rewrite Ea in *.
  rewrite (core_pass_plain ic h tail Hi Ph Cl). cbn [pr_ctxs pr_unparsed pr_remainder].
  rewrite P2, Rc.
  eexists. split; [reflexivity|]. unfold gobs_of.
  cbn [g_core g_tasks g_unparsed g_remainder pg_core pg_tasks pg_unparsed pg_remainder].
  split; [|split; [|split; reflexivity]].
  - fold (core_values (update_core (rc_args (init_ctx ic)) (rc_args (set_core i0 i r)))).
    unfold core_after, set_core, with_args, i0. cbn [rc_args].
    apply (update_core_upd_r (rc_args (init_ctx ic)) i r); [exact Ni | reflexivity | |reflexivity].
    unfold got_value. cbn [r_spec r_val]. rewrite Kb. reflexivity.
  - rewrite Rc in Ob. cbn [tl] in Ob. exact Ob.
Qed.

(** C18 for this fragment: same core values, same task calls, wherever the
    boolean core option stands. *)
Corollary program_placement_equiv calls1 t asn items1 items2 calls2 c :
  let inv := calls1 ++ mkCall t asn (items1 ++ items2) :: calls2 in
  simple_guard cs ic inv = true ->
  nth_error cs t = Some c ->
  find_flag_spec (cx_args c) tok = None ->
  find (is_inverse_of tok) (cx_args c) = None ->
  is_ctx_name cs tok = false ->
  exists gf gp,
    prog_obs ic cs (tok :: spell cs inv) = Ok gf /\
    prog_obs ic cs (spell cs calls1 ++ (asn :: flat_map (spell_item c) items1)
                    ++ tok :: flat_map (spell_item c) items2 ++ spell cs calls2) = Ok gp /\
    g_core gf = g_core gp /\ g_tasks gf = g_tasks gp /\ g_tasks gp = expected cs inv /\
    g_remainder gf = g_remainder gp.
Proof.
  intros inv G N Fs Finv Nn.
  destruct (program_flag_front inv G) as [gf [Pf [Cf [Tf [_ Rf]]]]].
  destruct (program_flag_placed calls1 t asn items1 items2 calls2 c G N Fs Finv Nn)
    as [gp [Pp [Cp [Tp [_ Rp]]]]].
  exists gf, gp. fold inv in Tp. repeat split; auto; congruence.
Qed.

End Program.
