(** Facts about trees: leaf paths vs lookup, prefix-freeness of leaf paths. *)
From InvokeVerif Require Import Common.Tree Common.StrUtil Proofs.ListFacts.

Lemma wf_kids_forall kids : wf_kids kids = true <-> Forall (fun kt => wf (snd kt) = true) kids.
Proof. unfold wf_kids. rewrite forallb_forall, Forall_forall. tauto. Qed.

Lemma wf_Node_inv kids :
  wf (Node kids) = true -> NoDup (keys kids) /\ Forall (fun kt => wf (snd kt) = true) kids.
Proof.
  rewrite wf_Node, andb_true_iff, nodupb_NoDup, wf_kids_forall. tauto.
Qed.

Lemma wf_Node_intro kids :
  NoDup (keys kids) -> Forall (fun kt => wf (snd kt) = true) kids -> wf (Node kids) = true.
Proof.
  intros H1 H2. rewrite wf_Node, andb_true_iff, nodupb_NoDup, wf_kids_forall. tauto.
Qed.

Lemma in_get (k : string) (c : tree) d : NoDup (keys d) -> In (k, c) d -> get k d = Some c.
Proof.
  induction d as [|[k' c'] d IH]; simpl; intros ND H; [contradiction|].
  inversion ND as [|? ? Hx ND']; subst.
  destruct H as [H|H].
  - inversion H; subst. rewrite String.eqb_refl. reflexivity.
  - destruct (String.eqb k k') eqn:E.
    + apply String.eqb_eq in E; subst. exfalso. apply Hx.
      change k' with (fst (k', c)). apply in_map. assumption.
    + auto.
Qed.

Lemma get_in (k : string) (c : tree) d : get k d = Some c -> In (k, c) d.
Proof.
  induction d as [|[k' c'] d IH]; simpl; [discriminate|].
  destruct (String.eqb k k') eqn:E; intros H.
  - apply String.eqb_eq in E; subst. inversion H; subst. left; reflexivity.
  - right; auto.
Qed.

Lemma in_leaf_paths_kids q w kids :
  In (q, w) (leaf_paths_kids kids) <->
  exists k c q', q = k :: q' /\ In (k, c) kids /\ In (q', w) (leaf_paths c).
Proof.
  unfold leaf_paths_kids. rewrite in_flat_map. split.
  - intros [[k c] [Hin Hm]]. simpl in Hm. apply in_map_iff in Hm as [[q' w'] [E Hq]].
    simpl in E. inversion E; subst. exists k, c, q'. auto.
  - intros [k [c [q' [-> [Hin Hq]]]]]. exists (k, c). split; [assumption|].
    simpl. apply in_map_iff. exists (q', w). auto.
Qed.

(** For well-formed trees, [leaf_paths] and [leaf_at] describe the same leaves. *)
Lemma leaf_paths_leaf_at : forall t, wf t = true ->
  forall q w, In (q, w) (leaf_paths t) <-> leaf_at q t = Some w.
Proof.
  induction t as [v | kids IH] using tree_ind'; intros Hwf q w.
  - simpl. unfold leaf_at. destruct q as [|k q]; simpl.
    + split; [intros [E|[]]; inversion E; reflexivity | intros E; inversion E; left; reflexivity].
    + split; [intros [E|[]]; inversion E | discriminate].
  - apply wf_Node_inv in Hwf as [ND Hk]. rewrite leaf_paths_Node, in_leaf_paths_kids.
    unfold leaf_at. destruct q as [|k q]; simpl.
    + split; [intros [k [c [q' [E _]]]]; discriminate | discriminate].
    + split.
      * intros [k' [c [q' [E [Hin Hq]]]]]. inversion E; subst.
        rewrite (in_get _ _ _ ND Hin).
        rewrite Forall_forall in IH, Hk.
        apply (IH (k', c) Hin (Hk (k', c) Hin)) in Hq. exact Hq.
      * destruct (get k kids) as [c|] eqn:G; [|discriminate].
        intros H. apply get_in in G. exists k, c, q. split; [reflexivity|]. split; [assumption|].
        rewrite Forall_forall in IH, Hk. apply (IH (k, c) G (Hk (k, c) G)). exact H.
Qed.

Lemma NoDup_map_cons {A} (k : string) (l : list (path * A)) :
  NoDup (map fst l) -> NoDup (map fst (map (fun pv => (k :: fst pv, snd pv)) l)).
Proof.
  rewrite map_map. simpl. induction l as [|[p a] l IH]; simpl; intros ND; [constructor|].
  inversion ND as [|? ? Hx ND']; subst. constructor; [|auto].
  rewrite in_map_iff. intros [[p' a'] [E Hin]]. simpl in E. inversion E; subst.
  apply Hx. change p with (fst (p, a')). apply in_map. assumption.
Qed.

Lemma wf_leaf_paths_NoDup : forall t, wf t = true -> NoDup (map fst (leaf_paths t)).
Proof.
  induction t as [v | kids IH] using tree_ind'; intros Hwf.
  - simpl. constructor; [intros [] | constructor].
  - apply wf_Node_inv in Hwf as [ND Hk]. rewrite leaf_paths_Node.
    unfold leaf_paths_kids. induction kids as [|[k c] kids IHk]; simpl; [constructor|].
    inversion ND as [|? ? Hx ND']; subst.
    inversion IH as [|? ? IHc IHrest]; subst. inversion Hk as [|? ? Hc Hrest]; subst.
    rewrite map_app. apply NoDup_app_intro.
    + apply NoDup_map_cons. apply IHc. exact Hc.
    + apply IHk; assumption.
    + intros p Hp Hp2.
      apply in_map_iff in Hp as [[p1 w1] [E1 H1]]. simpl in E1. subst p1.
      apply in_map_iff in H1 as [[p0 w0] [E0 H0]]. simpl in E0. inversion E0; subst p w1.
      apply in_map_iff in Hp2 as [[p2 w2] [E2 H2]]. simpl in E2. subst p2.
      apply in_flat_map in H2 as [[k2 c2] [Hin2 Hm2]]. simpl in Hm2.
      apply in_map_iff in Hm2 as [[p3 w3] [E3 _]].
      simpl in E3. inversion E3 as [[Ek Ep Ew]]. apply Hx.
      assert (Hk2 : In k2 (keys kids)) by apply (in_map fst _ _ Hin2). congruence.
Qed.

(** ** Prefix-freeness *)
Definition prefix (p q : path) : Prop := exists r, q = p ++ r.

Lemma prefix_cons k p k' q : prefix (k :: p) (k' :: q) <-> k = k' /\ prefix p q.
Proof.
  unfold prefix. split.
  - intros [r E]. simpl in E. inversion E; subst. split; [reflexivity | exists r; reflexivity].
  - intros [-> [r ->]]. exists r. reflexivity.
Qed.

Lemma prefix_nil_r p : prefix p [] -> p = [].
Proof. intros [r E]. destruct p; [reflexivity | discriminate]. Qed.

Lemma leaf_at_prefix_eq : forall t p q v w,
  leaf_at p t = Some v -> leaf_at q t = Some w -> prefix p q -> p = q.
Proof.
  induction t as [v0 | kids IH] using tree_ind'; intros p q v w Hp Hq Hpre.
  - unfold leaf_at in *. destruct p, q; simpl in *; try discriminate; reflexivity.
  - unfold leaf_at in *. destruct p as [|k p]; simpl in Hp; [discriminate|].
    destruct q as [|k' q]; [apply prefix_nil_r in Hpre; discriminate|].
    apply prefix_cons in Hpre as [<- Hpre]. simpl in Hq.
    destruct (get k kids) as [c|] eqn:G; [|discriminate].
    apply get_in in G. rewrite Forall_forall in IH.
    f_equal. apply (IH (k, c) G p q v w); assumption.
Qed.
