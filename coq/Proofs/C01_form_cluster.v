(** C01, combined short flags "-abc": the token is handled as its first flag
    "-a" and pushes "-b", "-c" ... in front of the rest of the command line.
    Hence a cluster whose first member takes no value parses exactly like the
    same short flags written separately (the trailing value of a last
    value-taking member simply follows, as it does after the separate "-c"). *)
From InvokeVerif Require Import Model.ParserModel Corr.C01Corr Proofs.ListFacts Proofs.C07_fuel
     Proofs.C01_steps Proofs.C01_tokens Proofs.C01_lookup Proofs.C01_occ Proofs.C01_form_glued.
From Coq Require Import Lia.

Definition short_of (ch : ascii) : string := String "-" (String ch EmptyString).

Lemma dash_each_map s : dash_each s = map short_of (list_ascii_of_string s).
Proof. reflexivity. Qed.

Lemma short_of_clean ch :
  Ascii.eqb ch "-" = false -> Ascii.eqb ch "=" = false -> clean_flag (short_of ch) = true.
Proof.
  intros H1 H2. unfold clean_flag, short_of.
  cbn [starts_with contains_char String.length Nat.eqb String.eqb].
  rewrite H1, H2, !Ascii.eqb_refl. change (Ascii.eqb "-" "=") with false.
  destruct (Ascii.eqb "-" ch); reflexivity.
Qed.

(** splitting "-c<rest>" when "-c" is a flag of the task that takes no value *)
Lemma cluster_presplit m ch rest cur i r :
  Ascii.eqb ch "-" = false -> Ascii.eqb ch "=" = false ->
  contains_char "=" rest = false -> rest <> EmptyString ->
  m_unparsed m = [] -> cur_ctx m = Some cur ->
  find_flag (rc_args cur) (short_of ch) = Some i -> nth_error (rc_args cur) i = Some r ->
  takes_value (r_spec r) = false ->
  presplit m (String "-" (String ch rest)) = Ok (short_of ch, dash_each rest).
Proof.
  intros Hd He Hr Hne U Cc F N Tv. unfold presplit, is_flag, is_long_flag. rewrite U.
  cbn [starts_with]. rewrite Ascii.eqb_refl. cbn [andb].
  cbn [contains_char]. change (Ascii.eqb "-" "=") with false. rewrite He, Hr. cbn [orb].
  assert (Hd' : Ascii.eqb "-" ch = false).
  { destruct (Ascii.eqb "-" ch) eqn:X; [|reflexivity]. apply Ascii.eqb_eq in X. subst ch. discriminate. }
  rewrite Hd'. cbn [andb negb].
  destruct rest as [|d rest]; [now elim Hne|].
  cbn [String.length Nat.ltb Nat.leb take drop]. fold (short_of ch).
  rewrite Cc, F, N, Tv, andb_false_r. reflexivity.
Qed.

Section Cluster.
Variable p : parser.
Variable i0 : rctx.
Variable done : list rctx.
Variable cur : rctx.

(** the cluster token does to the machine what its first flag does, and
    pushes the remaining letters as separate short flags *)
Lemma step_cluster_head fl got ch rest i r m1 :
  inert (MS i0 done cur fl got) ->
  Ascii.eqb ch "-" = false -> Ascii.eqb ch "=" = false ->
  contains_char "=" rest = false -> rest <> EmptyString ->
  find_flag (rc_args cur) (short_of ch) = Some i -> nth_error (rc_args cur) i = Some r ->
  takes_value (r_spec r) = false ->
  step p (MS i0 done cur fl got) (short_of ch) = Ok (m1, []) ->
  step p (MS i0 done cur fl got) (String "-" (String ch rest)) = Ok (m1, dash_each rest).
Proof.
  intros I Hd He Hr Hne F N Tv S1.
  unfold step, bind in S1.
  rewrite (clean_flag_presplit (MS i0 done cur fl got) _ (short_of_clean ch Hd He) eq_refl),
    (inert_rollback _ _ _ I) in S1. cbn [fst snd] in S1.
  unfold step, bind.
  rewrite (cluster_presplit (MS i0 done cur fl got) ch rest cur i r Hd He Hr Hne eq_refl
             (MS_cur i0 done cur fl got) F N Tv), (inert_rollback _ _ _ I). cbn [fst snd].
  destruct (handle p (short_of ch) (MS i0 done cur fl got)) as [m'|e]; [|discriminate].
  injection S1 as ->. reflexivity.
Qed.

(** "-abc..." followed by [more] parses like "-a" "-b" "-c" ... followed by [more] *)
Theorem cluster_unfold fl got ch rest i r more m' :
  inert (MS i0 done cur fl got) ->
  Ascii.eqb ch "-" = false -> Ascii.eqb ch "=" = false ->
  contains_char "=" rest = false -> rest <> EmptyString ->
  find_flag (rc_args cur) (short_of ch) = Some i -> nth_error (rc_args cur) i = Some r ->
  takes_value (r_spec r) = false ->
  steps p (MS i0 done cur fl got) (short_of ch :: dash_each rest ++ more) m' ->
  steps p (MS i0 done cur fl got) (String "-" (String ch rest) :: more) m'.
Proof.
  intros I Hd He Hr Hne F N Tv S.
  inversion S as [|? ? ? m1 pushed ? S1 S2]; subst.
  assert (pushed = []).
  { unfold step, bind in S1.
    rewrite (clean_flag_presplit (MS i0 done cur fl got) _ (short_of_clean ch Hd He) eq_refl),
      (inert_rollback _ _ _ I) in S1. cbn [fst snd] in S1.
    destruct (handle p (short_of ch) (MS i0 done cur fl got)); [|discriminate].
    now injection S1 as _ <-. }
  subst pushed. cbn [app] in S2.
  econstructor; [|exact S2].
  now apply (step_cluster_head fl got ch rest i r m1 I Hd He Hr Hne F N Tv).
Qed.
End Cluster.
