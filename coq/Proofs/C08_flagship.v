(** C08 flagship: the RunnerSM model satisfies the executable spec outside the four
    catalogued defect regions -- for every configuration and every event script. *)
From InvokeVerif Require Import Model.RunnerSM Spec.C08Spec Corr.RunnerCorr.
From InvokeVerif Require Import Proofs.RunnerSM_facts Proofs.C08_sm Proofs.RunnerSM_sweep.
From Coq Require Import Lia.

(** * One step of the prefix during which the main thread waits *)

Definition effective_death (c : cfg) (od ed : bool) (e : ev) : bool :=
  match e with
  | EExc w _ => worker_exists c w && negb (match w with WOut => od | WErr => ed | WIn => false end)
  | _ => false
  end.

Lemma wait_prefix_step c k n od ed e r :
  Inv c k -> s_pc k = PWait -> Rel c k od ed -> is_end c e = false -> effective_death c od ed e = false ->
  exists od' ed',
    s_pc (fst (step c (k, n) e)) = PWait /\ Rel c (fst (step c (k, n) e)) od' ed' /\
    death_from c od ed (e :: r) = death_from c od' ed' r.
Proof.
  intros I P (Ro & Re & Ri) EE ED.
  pose proof I as [_ HI]. rewrite P in HI. destruct HI as (Pr & Dd & F & Rp & T).
  assert (Same : fst (apply_ev c (k, n) e) = k -> fst (step c (k, n) e) = k)
    by (apply wait_step_same; auto).
  cbn [death_from]. rewrite EE.
  destruct e as [w0|w0|code|code| |w0 x0|]; try discriminate EE.
  - exists od, ed. rewrite Same.
    + repeat split; auto.
    + unfold apply_ev. cbn [fst snd]. unfold running. rewrite P. cbn.
      destruct w0; try reflexivity; destruct (is_run _); reflexivity.
  - destruct w0.
    + exists true, ed. rewrite (step_eof_wait c k n WOut I P) by discriminate.
      cbn [wget]. rewrite Ro. destruct od; cbn; repeat split; auto.
    + exists od, ed. rewrite Same; [repeat split; auto|].
      unfold apply_ev. cbn [fst snd]. unfold running. rewrite P. reflexivity.
    + exists od, true. rewrite (step_eof_wait c k n WErr I P) by discriminate.
      cbn [wget]. unfold Rel. destruct (c_pty c) eqn:CP.
      * rewrite Re. cbn. rewrite Re. repeat split; auto.
      * rewrite Re. destruct ed; cbn; rewrite ?Re; repeat split; auto.
  - cbn in EE. exists od, ed. rewrite Same; [repeat split; auto|].
    unfold apply_ev. cbn [fst snd]. unfold running. rewrite P. cbn. rewrite T, EE. reflexivity.
  - cbn [effective_death] in ED. rewrite ED. exists od, ed. rewrite Same; [repeat split; auto|].
    unfold apply_ev. cbn [fst snd]. unfold running. rewrite P. cbn [negb].
    assert (NR : is_run (wget k w0) = false).
    { apply andb_false_iff in ED. destruct w0; cbn in *.
      - destruct ED as [G|G]; [discriminate|]. apply negb_false_iff in G. rewrite Ro, G. reflexivity.
      - destruct ED as [G|G]; [|discriminate]. rewrite Ri, G. reflexivity.
      - rewrite Re. destruct ED as [G|G].
        + apply negb_false_iff in G. rewrite G. reflexivity.
        + apply negb_false_iff in G. rewrite G. destruct (c_pty c); reflexivity. }
    rewrite NR. reflexivity.
  - exists od, ed. rewrite Same; [repeat split; auto|].
    unfold apply_ev. cbn [fst snd]. unfold running. rewrite P. cbn. reflexivity.
Qed.

(** * reaped is never lost; an end event observed from the wait loop sets it *)

Lemma apply_ev_reaped_mono c k n e :
  s_reaped k = true -> s_reaped (fst (apply_ev c (k, n) e)) = true.
Proof.
  intros H. unfold apply_ev. cbn [fst snd]. destruct (negb (running k)); [exact H|].
  destruct e as [w|w|code|code| |w x|]; cbn [fst];
  repeat match goal with
  | |- context [match ?w with WOut => _ | WIn => _ | WErr => _ end] => is_var w; destruct w
  | |- context [if is_run ?x then _ else _] => destruct (is_run x)
  | |- context [match s_proc k with _ => _ end] => destruct (s_proc k)
  | |- context [match s_timer k with _ => _ end] => destruct (s_timer k)
  | |- context [match s_pc k with _ => _ end] => destruct (s_pc k)
  end; cbn [fst]; try exact H;
  try (match goal with |- context [leave_wait c ?s0 ?ec] =>
         destruct (leave_wait_fields c s0 ec) as (A & _) end; cbn [fst] in *; rewrite A; reflexivity);
  try (destruct w; exact H).
Qed.

Lemma advance_reaped_mono c s : s_reaped (fst s) = true -> s_reaped (fst (advance c s)) = true.
Proof.
  intros H. unfold advance. destruct (s_pc (fst s)).
  - destruct (s_proc (fst s)).
    + destruct (leave_wait_fields c (set_reaped (fst s), snd s) false) as (A & _). cbn [fst] in A.
      rewrite A. reflexivity.
    + destruct (any_dead (fst s)); [|exact H].
      destruct (leave_wait_fields c s false) as (A & _). rewrite A. exact H.
  - destruct (run_joins_fields c todo s cur echild) as (A & _). rewrite A. exact H.
  - exact H.
  - exact H.
Qed.

Lemma step_reaped_mono c s e : s_reaped (fst s) = true -> s_reaped (fst (step c s e)) = true.
Proof.
  intros H. unfold step. apply advance_reaped_mono. cbn [fst].
  rewrite (surjective_pairing s). apply apply_ev_reaped_mono. exact H.
Qed.

Lemma run_events_reaped_mono c : forall script s,
  s_reaped (fst s) = true -> s_reaped (fst (run_events c s script)) = true.
Proof.
  induction script as [|e r IH]; intros s H; [exact H|].
  change (run_events c s (e :: r)) with (run_events c (step c s e) r). apply IH.
  apply step_reaped_mono. exact H.
Qed.

Lemma end_step_reaps c k n e :
  Inv c k -> s_pc k = PWait -> is_end c e = true -> s_reaped (fst (step c (k, n) e)) = true.
Proof.
  intros I P E. pose proof I as [_ HI]. rewrite P in HI. destruct HI as (Pr & D & F & R & T).
  unfold step, apply_ev. cbn [fst snd]. unfold running. rewrite P. cbn [negb].
  destruct e as [w|w|code|code| |w x|]; try discriminate E.
  - rewrite Pr. cbn [fst snd]. unfold advance. cbn [fst snd set_proc s_pc s_proc]. rewrite P.
    match goal with |- context [leave_wait c ?s0 false] =>
      destruct (leave_wait_fields c s0 false) as (A & _) end. cbn [fst] in A. rewrite A. reflexivity.
  - apply advance_reaped_mono. cbn [fst].
    match goal with |- context [leave_wait c ?s0 ?ec] =>
      destruct (leave_wait_fields c s0 ec) as (A & _) end. cbn [fst] in A. rewrite A. reflexivity.
  - cbn in E. rewrite T, E, Pr. cbn [fst snd]. unfold advance.
    cbn [fst snd set_proc set_timer s_pc s_proc]. rewrite P.
    match goal with |- context [leave_wait c ?s0 false] =>
      destruct (leave_wait_fields c s0 false) as (A & _) end. cbn [fst] in A. rewrite A. reflexivity.
Qed.

(** no worker dies before the process ends: the child is reaped *)
Lemma reaped_prefix c : forall script k n od ed,
  Inv c k -> s_pc k = PWait -> Rel c k od ed ->
  death_from c od ed script = None -> process_ends c script = true ->
  s_reaped (fst (run_events c (k, n) script)) = true.
Proof.
  induction script as [|e r IH]; intros k n od ed I P R Dth E; [discriminate|].
  change (run_events c (k, n) (e :: r)) with (run_events c (step c (k, n) e) r).
  destruct (is_end c e) eqn:EE.
  - apply run_events_reaped_mono. apply end_step_reaps; auto.
  - destruct (effective_death c od ed e) eqn:ED.
    + exfalso. cbn [death_from] in Dth. rewrite EE in Dth.
      destruct e; try discriminate ED. cbn [effective_death] in ED. rewrite ED in Dth. discriminate.
    + destruct (wait_prefix_step c k n od ed e r I P R EE ED) as (od' & ed' & P' & R' & Eq).
      rewrite (surjective_pairing (step c (k, n) e)).
      apply (IH _ _ od' ed'); auto.
      * apply (step_inv c (k, n) e I).
      * rewrite <- Eq. exact Dth.
      * unfold process_ends in *. cbn [existsb] in E. rewrite EE in E. exact E.
Qed.

Theorem reaped_general c script :
  start_raises c = false -> death_while_running c script = None -> process_ends c script = true ->
  s_reaped (fst (run_sm c script)) = true.
Proof.
  intros S D E. unfold run_sm. apply drain_reaped.
  assert (E0 : advance c (init c) = init c).
  { unfold advance, init. rewrite S. cbn. destruct (c_in c), (c_pty c); reflexivity. }
  rewrite E0. rewrite (surjective_pairing (init c)).
  apply (reaped_prefix c script _ _ false false); auto.
  - rewrite <- E0. apply init_inv. exact S.
  - unfold init. rewrite S. reflexivity.
  - unfold init, Rel. rewrite S. cbn. auto.
Qed.

(** * The outcome is one of the documented ones unless F-C08b strikes *)

Definition no_exit_kbd (script : list ev) : bool :=
  forallb (fun e => match e with EExitKbd _ => false | _ => true end) script.

Definition EcInv (k : ctl) : Prop :=
  match s_pc k with PJoin _ _ ec => ec = false | PDone o => documented o = true | _ => True end.

Lemma decide_documented c k : documented (decide c k false) = true.
Proof.
  unfold decide. destruct (any_dead_k XOther k), (any_dead_k XWatcher k); try reflexivity.
  destruct (c_timeout c && _); try reflexivity. destruct (_ || c_warn c); reflexivity.
Qed.

Lemma joins_ec c k todo cur r : joins_result c k todo cur false r -> EcInv r.
Proof.
  intros J. inversion J; subst r; unfold EcInv; cbn; [apply decide_documented | reflexivity].
Qed.

Lemma leave_wait_ec c s : EcInv (fst (leave_wait c s false)).
Proof.
  unfold leave_wait.
  match goal with |- EcInv (fst (run_joins c ?a ?b None false)) =>
    apply (joins_ec c (fst a) b None); apply (run_joins_result c b a None false) end.
Qed.

Lemma advance_ec c s : EcInv (fst s) -> s_pc (fst s) <> PWait -> EcInv (fst (advance c s)).
Proof.
  intros H NP. unfold advance. unfold EcInv in H. destruct (s_pc (fst s)) as [|todo cur ec|o|] eqn:P.
  - elim NP. reflexivity.
  - subst ec. apply (joins_ec c (fst s) todo cur). apply (run_joins_result c todo s cur false).
  - unfold EcInv. rewrite P. exact H.
  - unfold EcInv. rewrite P. exact Logic.I.
Qed.

Ltac ec_wait Adv P :=
  repeat match goal with
  | |- context [match ?w with WOut => _ | WIn => _ | WErr => _ end] => is_var w; destruct w
  | |- context [if is_run ?x then _ else _] => destruct (is_run x)
  | |- context [match s_proc ?k0 with _ => _ end] => destruct (s_proc k0)
  | |- context [match s_timer ?k0 with _ => _ end] => destruct (s_timer k0)
  end; cbn [fst snd]; apply Adv; cbn [fst]; rewrite ?pc_wset; exact P.

Lemma ecinv_step c k n e :
  (c_pty c = false \/ match e with EExitKbd _ => False | _ => True end) ->
  EcInv k -> EcInv (fst (step c (k, n) e)).
Proof.
  intros G H. unfold step.
  destruct (s_pc k) as [|todo cur ec|o|] eqn:P.
  - (* waiting *)
    assert (Adv : forall s', s_pc (fst s') = PWait -> EcInv (fst (advance c s'))).
    { intros s' P'. unfold advance. rewrite P'.
      destruct (s_proc (fst s')); [apply leave_wait_ec|].
      destruct (any_dead (fst s')); [apply leave_wait_ec|]. unfold EcInv. rewrite P'. exact Logic.I. }
    unfold apply_ev. cbn [fst snd]. unfold running. rewrite P. cbn [negb].
    destruct e as [w|w|code|code| |w x|];
      [ ec_wait Adv P | ec_wait Adv P | ec_wait Adv P | | ec_wait Adv P | ec_wait Adv P | ec_wait Adv P ].
    (* exit + interrupt: echild = c_pty c *)
    destruct G as [G|G]; [|elim G]. rewrite G.
    apply advance_ec; cbn [fst]; [apply leave_wait_ec | apply leave_wait_pc].
  - unfold EcInv in H. rewrite P in H. subst ec.
    destruct (apply_ev_join c k n e todo cur false P) as (P' & _).
    unfold advance. cbn [fst snd]. rewrite P'. cbv beta iota.
    match goal with |- EcInv (fst (run_joins c ?a todo cur false)) =>
      apply (joins_ec c (fst a) todo cur); apply (run_joins_result c todo a cur false) end.
  - rewrite apply_ev_over by (unfold running; cbn; rewrite P; reflexivity).
    unfold advance. cbn [fst]. rewrite P. exact H.
  - rewrite apply_ev_over by (unfold running; cbn; rewrite P; reflexivity).
    unfold advance. cbn [fst]. rewrite P. exact H.
Qed.

Lemma advance_ec_all c s : EcInv (fst s) -> EcInv (fst (advance c s)).
Proof.
  intros H. destruct (s_pc (fst s)) eqn:P; try (apply advance_ec; [exact H | rewrite P; discriminate]).
  unfold advance. rewrite P.
  destruct (s_proc (fst s)); [apply leave_wait_ec|].
  destruct (any_dead (fst s)); [apply leave_wait_ec|]. exact H.
Qed.

Lemma expire_ec c s : EcInv (fst s) -> EcInv (fst (expire c s)).
Proof.
  intros H. unfold expire. unfold EcInv in H.
  destruct (s_pc (fst s)) as [|[|w rest] [[|]|] ec|o|] eqn:P; try (unfold EcInv; rewrite P; exact H).
  - subst ec. match goal with |- EcInv (fst (run_joins c ?a rest None false)) =>
      apply (joins_ec c (fst a) rest None); apply (run_joins_result c rest a None false) end.
  - unfold EcInv. cbn. exact Logic.I.
Qed.

Lemma drain_ec c s : EcInv (fst s) -> EcInv (fst (drain c s)).
Proof.
  intros H. unfold drain. destruct (negb (running (fst s))); [exact H|].
  apply expire_ec. apply expire_ec. apply advance_ec_all. cbn [fst].
  unfold EcInv in *. destruct (drain_eof_fields c (fst s)) as (Epc & _). rewrite Epc. exact H.
Qed.

Lemma run_events_ec c : forall script s,
  (c_pty c = false \/ no_exit_kbd script = true) -> EcInv (fst s) -> EcInv (fst (run_events c s script)).
Proof.
  induction script as [|e r IH]; intros s G H; [exact H|].
  change (run_events c s (e :: r)) with (run_events c (step c s e) r).
  apply IH.
  - destruct G as [G|G]; [left; exact G|]. right. unfold no_exit_kbd in *. cbn [forallb] in G.
    apply andb_true_iff in G. tauto.
  - rewrite (surjective_pairing s). apply ecinv_step; [|exact H].
    destruct G as [G|G]; [left; exact G|]. right. unfold no_exit_kbd in G. cbn [forallb] in G.
    apply andb_true_iff in G. destruct G as [G _]. destruct e; try exact Logic.I. discriminate.
Qed.

Theorem outcome_documented_partial c script o :
  start_raises c = false -> (c_pty c = false \/ no_exit_kbd script = true) ->
  s_pc (fst (run_sm c script)) = PDone o -> documented o = true.
Proof.
  intros S G P. unfold run_sm in P.
  assert (E : EcInv (fst (drain c (run_events c (advance c (init c)) script)))).
  { apply drain_ec. apply run_events_ec; [exact G|]. apply advance_ec_all.
    unfold init. rewrite S. unfold EcInv. cbn. exact Logic.I. }
  unfold EcInv in E. rewrite P in E. exact E.
Qed.

(** * Facts about a settled outcome, also after draining *)

Lemma run_joins_done_facts c todo s cur ec o :
  s_pc (fst (run_joins c s todo cur ec)) = PDone o ->
  s_flag (fst (run_joins c s todo cur ec)) = s_flag (fst s) /\
  s_timer (fst (run_joins c s todo cur ec)) <> TArmed.
Proof.
  pose proof (run_joins_result c todo s cur ec) as J.
  remember (fst (run_joins c s todo cur ec)) as r eqn:Er. clear Er.
  inversion J; subst r; cbn; intros Hd; try discriminate.
  split; [reflexivity|]. destruct (s_timer (fst s)); discriminate.
Qed.

Lemma run_joins_flag c todo s cur ec : s_flag (fst (run_joins c s todo cur ec)) = s_flag (fst s).
Proof.
  pose proof (run_joins_result c todo s cur ec) as J.
  remember (fst (run_joins c s todo cur ec)) as r eqn:Er. clear Er. inversion J; subst r; reflexivity.
Qed.

Lemma expire_done_facts c s o :
  s_flag (fst s) = true -> (forall o', s_pc (fst s) = PDone o' -> s_timer (fst s) <> TArmed) ->
  s_pc (fst (expire c s)) = PDone o ->
  s_flag (fst (expire c s)) = true /\ s_timer (fst (expire c s)) <> TArmed.
Proof.
  intros F T. unfold expire.
  destruct (s_pc (fst s)) as [|[|w rest] [[|]|] ec|o0|] eqn:P; cbv beta iota;
    try (rewrite P; intros Hd; first [discriminate Hd | split; [exact F | apply (T o0); reflexivity]]).
  - intros Hd. destruct (run_joins_done_facts c rest _ None ec o Hd) as [A B]. cbn [fst] in A.
    rewrite A. auto.
  - cbn. discriminate.
Qed.

Lemma drain_done_facts c s o :
  Inv c (fst s) -> s_pc (fst (drain c s)) = PDone o ->
  s_flag (fst (drain c s)) = true /\ s_timer (fst (drain c s)) <> TArmed.
Proof.
  intros I. unfold drain. pose proof I as [_ HI].
  destruct (s_pc (fst s)) as [|todo cur ec|o0|] eqn:P.
  - (* still waiting: nothing happens *)
    unfold running. rewrite P. cbn [negb]. destruct HI as (Pr & D & _).
    destruct (drain_eof_fields c (fst s)) as (Epc & _ & _ & _ & Epr & _).
    unfold advance. cbn [fst snd]. rewrite Epc, P, Epr, Pr.
    assert (D' : any_dead (drain_eof c (fst s)) = false).
    { unfold drain_eof, any_dead in *.
      destruct (is_run (s_out (fst s)) && negb (c_hold_out c)); cbn;
        match goal with |- context [if ?b then _ else _] => destruct b end; cbn;
        destruct (s_out (fst s)), (s_in (fst s)), (s_err (fst s)); cbn in *; congruence. }
    rewrite D'.
    assert (EW : expire c (drain_eof c (fst s), snd s) = (drain_eof c (fst s), snd s))
      by (unfold expire; cbn [fst]; rewrite Epc, P; reflexivity).
    rewrite EW, EW. cbn [fst]. rewrite Epc, P. intros Hd; discriminate Hd.
  - unfold running. rewrite P. cbn [negb]. destruct HI as (Fl & _).
    destruct (drain_eof_fields c (fst s)) as (Epc & Efl & _).
    unfold advance. cbn [fst snd]. rewrite Epc, P. cbv beta iota.
    set (r := run_joins c (drain_eof c (fst s), snd s) todo cur ec).
    assert (Fr : s_flag (fst r) = true) by (unfold r; rewrite run_joins_flag; cbn [fst]; rewrite Efl; exact Fl).
    assert (Tr : forall o', s_pc (fst r) = PDone o' -> s_timer (fst r) <> TArmed).
    { intros o' H. apply (run_joins_done_facts c todo _ cur ec o' H). }
    intros H.
    assert (F1 : s_flag (fst (expire c r)) = true).
    { unfold expire. destruct (s_pc (fst r)) as [|[|w rest] [[|]|] ec'|o0|]; try exact Fr.
      rewrite run_joins_flag. exact Fr. }
    assert (T1 : forall o', s_pc (fst (expire c r)) = PDone o' -> s_timer (fst (expire c r)) <> TArmed).
    { intros o' H'. apply (expire_done_facts c r o' Fr Tr H'). }
    apply (expire_done_facts c (expire c r) o F1 T1 H).
  - unfold running. rewrite P. cbn [negb]. intros _. destruct HI as (Fl & _ & T). auto.
  - elim HI.
Qed.

(** * Flagship: outside the four catalogued defect regions the model satisfies
    the executable spec, for every configuration and every script *)

Lemma alive_nil s : (forall w, is_run (wget (fst s) w) = false) -> o_alive (observe s) = [].
Proof.
  intros H. unfold observe. cbn [o_alive filter].
  rewrite (H WOut), (H WIn), (H WErr). reflexivity.
Qed.

Theorem run_meets_spec08 c script :
  guard08 c script = true -> C08Spec.spec_ok c script (observe (run_sm c script)) = true.
Proof.
  unfold guard08. intros G.
  apply andb_true_iff in G. destruct G as [G Gd]. apply andb_true_iff in G. destruct G as [Ga Gb].
  unfold C08Spec.spec_ok. destruct (c_start_fail c) eqn:SF.
  - (* cannot be started *)
    cbn [andb] in Ga. apply negb_true_iff in Ga.
    assert (S : start_raises c = true) by (unfold start_raises; rewrite SF, Ga; reflexivity).
    destruct (start_failure_reported c script S) as (P & W & T & _).
    unfold observe. cbn [o_outcome o_alive o_timer_armed filter]. rewrite P, T.
    rewrite (W WOut), (W WIn), (W WErr). reflexivity.
  - assert (S : start_raises c = false) by (unfold start_raises; rewrite SF; reflexivity).
    assert (I1 : Inv c (fst (run_events c (advance c (init c)) script))) by (apply invariant_holds; exact S).
    apply andb_true_iff. split.
    + (* the process ends, the readers get EOF *)
      destruct (process_ends c script && fair c) eqn:EF; [|reflexivity].
      apply andb_true_iff in EF. destruct EF as [E F].
      destruct (terminates_when_process_ends c script S F E) as [[o Po] Wk Tm Fl St].
      assert (Doc : documented o = true).
      { apply (outcome_documented_partial c script o S); [|exact Po].
        apply negb_true_iff in Gb. apply andb_false_iff in Gb. destruct Gb as [Gb|Gb]; [left; exact Gb|].
        right. unfold no_exit_kbd. apply forallb_forall. intros e He.
        destruct e; try reflexivity. exfalso.
        assert (X : existsb (fun e => match e with EExitKbd _ => true | _ => false end) script = true)
          by (apply existsb_exists; eexists; split; [exact He | reflexivity]).
        rewrite X in Gb. discriminate. }
      assert (Rp : s_reaped (fst (run_sm c script)) = true).
      { apply reaped_general; auto.
        destruct (death_while_running c script) eqn:D; [|reflexivity].
        try rewrite D in Gd. try rewrite E, F in Gd. discriminate Gd. }
      rewrite (alive_nil _ Wk). apply Nat.leb_le in St.
      unfold observe. cbn [o_outcome o_timer_armed o_reaped o_flag o_stop]. rewrite Po, Doc, Rp, Fl, St.
      destruct (s_timer (fst (run_sm c script))); try (elim Tm; reflexivity); reflexivity.
    + (* a worker dies while the process runs *)
      destruct (death_while_running c script) as [[w x]|] eqn:D; [|reflexivity].
      destruct (dead_worker_bounded c script w x S D) as (o & Po & Fo & _).
      unfold run_sm in Po.
      destruct (drain_done_facts c _ o I1 Po) as [Fl Tm].
      unfold observe, run_sm. cbn [o_outcome o_timer_armed o_flag]. rewrite Po, Fo, Fl.
      destruct (s_timer _); try (elim Tm; reflexivity); reflexivity.
Qed.

(** * The F-C08d region narrowed to its one conjunct

    Inside the F-C08d region (a worker dies, then the process ends) everything the
    spec demands still holds EXCEPT "the child has been reaped": the spec is
    satisfied by the observation with that one field forced to [true]. *)

Definition with_reaped (o : sm_obs) : sm_obs :=
  mkSmObs (o_outcome o) (o_kills o) (o_kills_after_exit o) (o_intr o) (o_stop o) (o_flag o) (o_alive o)
          (o_timer_armed o) (o_timer_fired o) true (o_nout o) (o_nerr o) (o_joins o).

Definition guard08_narrow (c : cfg) (script : list ev) : bool :=
  (* F-C08a *) negb (c_start_fail c && c_pty c) &&
  (* F-C08b *) negb (c_pty c && existsb (fun e => match e with EExitKbd _ => true | _ => false end) script).

Theorem run_meets_spec08_upto_reaped c script :
  guard08_narrow c script = true ->
  C08Spec.spec_ok c script (with_reaped (observe (run_sm c script))) = true.
Proof.
  unfold guard08_narrow. intros G.
  apply andb_true_iff in G. destruct G as [Ga Gb].
  unfold C08Spec.spec_ok. destruct (c_start_fail c) eqn:SF.
  - cbn [andb] in Ga. apply negb_true_iff in Ga.
    assert (S : start_raises c = true) by (unfold start_raises; rewrite SF, Ga; reflexivity).
    destruct (start_failure_reported c script S) as (P & W & T & _).
    unfold with_reaped, observe. cbn [o_outcome o_alive o_timer_armed filter]. rewrite P, T.
    rewrite (W WOut), (W WIn), (W WErr). reflexivity.
  - assert (S : start_raises c = false) by (unfold start_raises; rewrite SF; reflexivity).
    assert (I1 : Inv c (fst (run_events c (advance c (init c)) script))) by (apply invariant_holds; exact S).
    apply andb_true_iff. split.
    + destruct (process_ends c script && fair c) eqn:EF; [|reflexivity].
      apply andb_true_iff in EF. destruct EF as [E F].
      destruct (terminates_when_process_ends c script S F E) as [[o Po] Wk Tm Fl St].
      assert (Doc : documented o = true).
      { apply (outcome_documented_partial c script o S); [|exact Po].
        apply negb_true_iff in Gb. apply andb_false_iff in Gb. destruct Gb as [Gb|Gb]; [left; exact Gb|].
        right. unfold no_exit_kbd. apply forallb_forall. intros e He.
        destruct e; try reflexivity. exfalso.
        assert (X : existsb (fun e => match e with EExitKbd _ => true | _ => false end) script = true)
          by (apply existsb_exists; eexists; split; [exact He | reflexivity]).
        rewrite X in Gb. discriminate. }
      pose proof (alive_nil _ Wk) as Al. apply Nat.leb_le in St.
      unfold with_reaped. cbn [o_outcome o_alive o_timer_armed o_reaped o_flag o_stop]. rewrite Al.
      unfold observe. cbn [o_outcome o_timer_armed o_flag o_stop]. rewrite Po, Doc, Fl, St.
      destruct (s_timer (fst (run_sm c script))); try (elim Tm; reflexivity); reflexivity.
    + destruct (death_while_running c script) as [[w x]|] eqn:D; [|reflexivity].
      destruct (dead_worker_bounded c script w x S D) as (o & Po & Fo & _).
      unfold run_sm in Po.
      destruct (drain_done_facts c _ o I1 Po) as [Fl Tm].
      unfold with_reaped, observe, run_sm. cbn [o_outcome o_timer_armed o_flag]. rewrite Po, Fo, Fl.
      destruct (s_timer _); try (elim Tm; reflexivity); reflexivity.
Qed.

(** * The main thread's work is linear in the length of the script *)

Definition TodoOk (k : ctl) : Prop := forall todo cur ec, s_pc k = PJoin todo cur ec -> List.length todo <= 3.

Lemma inv_todo c k : Inv c k -> TodoOk k.
Proof.
  intros [_ HI] todo cur ec P. rewrite P in HI. destruct HI as (_ & N & _). apply nodup_who_length. exact N.
Qed.

Lemma preinv_todo c k : PreInv c k -> TodoOk k.
Proof.
  unfold PreInv. intros H todo cur ec P. rewrite P in H. destruct H as (_ & _ & N & _).
  apply nodup_who_length. exact N.
Qed.

Lemma join_order_len k : List.length (join_order k) <= 3.
Proof.
  unfold join_order. cbn [filter wget].
  destruct (present (s_out k)), (present (s_in k)), (present (s_err k)); cbn; lia.
Qed.

Lemma leave_wait_steps c s ec : n_steps (snd (leave_wait c s ec)) <= n_steps (snd s) + 5.
Proof.
  unfold leave_wait.
  match goal with |- n_steps (snd (run_joins c ?a ?b None ec)) <= _ =>
    pose proof (run_joins_steps c b a None ec) as H; pose proof (join_order_len (fst a)) as L end.
  cbn [fst snd add_steps n_steps] in *. lia.
Qed.

Lemma advance_steps c s : TodoOk (fst s) -> n_steps (snd (advance c s)) <= n_steps (snd s) + 5.
Proof.
  intros T. unfold advance. destruct (s_pc (fst s)) as [|todo cur ec|o|] eqn:P.
  - destruct (s_proc (fst s)).
    + pose proof (leave_wait_steps c (set_reaped (fst s), snd s) false) as H. cbn [snd] in H. exact H.
    + destruct (any_dead (fst s)); [apply leave_wait_steps | lia].
  - pose proof (run_joins_steps c todo s cur ec) as H. specialize (T todo cur ec P). lia.
  - lia.
  - lia.
Qed.

Lemma apply_ev_steps c s e : n_steps (snd (apply_ev c s e)) <= n_steps (snd s) + 5.
Proof.
  unfold apply_ev. destruct (negb (running (fst s))); [lia|].
  destruct e as [w|w|code|code| |w x|];
  repeat match goal with
  | |- context [match ?w with WOut => _ | WIn => _ | WErr => _ end] => is_var w; destruct w
  | |- context [if is_run ?x then _ else _] => destruct (is_run x)
  | |- context [match s_proc (fst s) with _ => _ end] => destruct (s_proc (fst s))
  | |- context [match s_timer (fst s) with _ => _ end] => destruct (s_timer (fst s))
  | |- context [match s_pc (fst s) with _ => _ end] => destruct (s_pc (fst s))
  end; cbn [snd add_kill add_read add_intr n_steps]; try lia;
  match goal with |- n_steps (snd (leave_wait c ?s0 ?ec)) <= _ =>
    pose proof (leave_wait_steps c s0 ec) as H; cbn [snd add_intr n_steps] in H; exact H end.
Qed.

Lemma apply_ev_preinv c k n e : Inv c k -> PreInv c (fst (apply_ev c (k, n) e)).
Proof.
  intros I. destruct (s_pc k) as [|todo cur ec|o|] eqn:P.
  - apply (apply_ev_wait c k n e I P).
  - destruct (apply_ev_join c k n e todo cur ec P) as (P' & F' & Sub').
    unfold PreInv. rewrite P'.
    pose proof I as I0. destruct I as [Hin HI]. rewrite P in HI. destruct HI as (F & N & Sub & _).
    assert (Rin : is_run (s_in k) = false) by (apply (in_not_running c k I0); rewrite P; discriminate).
    split; [rewrite F'; exact F|]. split; [|split; [exact N|]].
    + destruct (is_run (s_in (fst (apply_ev c (k, n) e)))) eqn:R; [|reflexivity].
      specialize (Sub' WIn R). cbn in Sub'. rewrite Rin in Sub'. discriminate.
    + intros x Hx. apply Sub. apply Sub'. exact Hx.
  - rewrite apply_ev_over by (unfold running; cbn; rewrite P; reflexivity). cbn [fst].
    unfold PreInv. rewrite P. exact I.
  - destruct I as [_ HI]. rewrite P in HI. elim HI.
Qed.

Lemma step_steps c k n e : Inv c k -> n_steps (snd (step c (k, n) e)) <= n_steps n + 11.
Proof.
  intros I. unfold step.
  pose proof (apply_ev_steps c (k, n) e) as A. cbn [snd] in A.
  pose proof (advance_steps c (fst (apply_ev c (k, n) e), add_steps 1 (snd (apply_ev c (k, n) e)))) as B.
  cbn [fst snd add_steps n_steps] in B.
  specialize (B (preinv_todo c _ (apply_ev_preinv c k n e I))). lia.
Qed.

Lemma run_events_steps c : forall script k n,
  Inv c k -> n_steps (snd (run_events c (k, n) script)) <= n_steps n + 11 * List.length script.
Proof.
  induction script as [|e r IH]; intros k n I; [cbn; lia|].
  change (run_events c (k, n) (e :: r)) with (run_events c (step c (k, n) e) r).
  rewrite (surjective_pairing (step c (k, n) e)).
  pose proof (step_steps c k n e I) as S1.
  pose proof (IH _ (snd (step c (k, n) e)) (step_inv c (k, n) e I)) as S2.
  cbn [List.length]. lia.
Qed.

Lemma expire_steps c s : TodoOk (fst s) -> n_steps (snd (expire c s)) <= n_steps (snd s) + 4 /\ TodoOk (fst (expire c s)).
Proof.
  intros T. unfold expire. destruct (s_pc (fst s)) as [|[|w rest] [[|]|] ec|o|] eqn:P;
    try (split; [lia | exact T]).
  - pose proof (run_joins_steps c rest (fst s, add_steps 1 (add_expired (snd s))) None ec) as H.
    specialize (T _ _ _ P). cbn [List.length fst snd add_steps add_expired n_steps] in *.
    split; [lia|].
    pose proof (run_joins_result c rest (fst s, add_steps 1 (add_expired (snd s))) None ec) as J. cbn [fst] in J.
    remember (fst (run_joins c (fst s, add_steps 1 (add_expired (snd s))) rest None ec)) as r eqn:Er. clear Er.
    intros todo cur ec' P'. inversion J as [Hall Heq | pre u rest2 Htodo Hpre Hrun Heq].
    + rewrite <- Heq in P'. cbn in P'. discriminate.
    + rewrite <- Heq in P'. cbn in P'. inversion P' as [[E1 E2 E3]]. subst todo.
      rewrite Htodo in T. rewrite app_length in T. cbn [List.length] in *. lia.
  - split; [cbn; lia|]. intros todo cur ec' P'. cbn in P'. discriminate.
Qed.

Theorem steps_linear c script :
  start_raises c = false ->
  n_steps (snd (run_sm c script)) <= 11 * List.length script + 20.
Proof.
  intros S. unfold run_sm.
  assert (E0 : advance c (init c) = init c).
  { unfold advance, init. rewrite S. cbn. destruct (c_in c), (c_pty c); reflexivity. }
  rewrite E0.
  assert (I0 : Inv c (fst (init c))) by (rewrite <- E0; apply init_inv; exact S).
  assert (N0 : n_steps (snd (init c)) = 0) by (unfold init; rewrite S; reflexivity).
  destruct (init c) as [k0 n0] eqn:EI. cbn [fst snd] in I0, N0.
  pose proof (run_events_steps c script k0 n0 I0) as R1. rewrite N0 in R1.
  pose proof (run_events_inv c script (k0, n0) I0) as I1.
  set (s1 := run_events c (k0, n0) script) in *. clearbody s1.
  unfold drain. destruct (negb (running (fst s1))); [lia|].
  set (s2 := advance c (drain_eof c (fst s1), snd s1)).
  assert (T1 : TodoOk (drain_eof c (fst s1))).
  { intros todo cur ec P. destruct (drain_eof_fields c (fst s1)) as (Epc & _). rewrite Epc in P.
    apply (inv_todo c _ I1 todo cur ec P). }
  pose proof (advance_steps c (drain_eof c (fst s1), snd s1) T1) as A2. cbn [snd] in A2. fold s2 in A2.
  assert (I2 : Inv c (fst s2)).
  { unfold s2. apply advance_preinv. unfold PreInv.
    destruct (drain_eof_fields c (fst s1)) as (Epc & Efl & Ein & Etm & Epr & Erp). rewrite Epc.
    pose proof I1 as [Hin HI]. destruct (s_pc (fst s1)) as [|todo cur ec|o|] eqn:P.
    - destruct HI as (Pr & D & F & R & T). rewrite Efl, Erp, Etm. auto.
    - destruct HI as (F & N & Sub & _).
      assert (Rin : is_run (s_in (fst s1)) = false) by (apply (in_not_running c _ I1); rewrite P; discriminate).
      rewrite Efl, Ein. repeat split; auto. intros w Hw. apply Sub. apply drain_eof_not_more in Hw. exact Hw.
    - (* settled: [running] was true, so this cannot be *) 
      split; [intros H; rewrite Ein in H; destruct HI as (_ & W & _); specialize (W WIn); cbn in W; congruence|].
      rewrite Epc. destruct HI as (F & W & T). rewrite Efl, Etm. repeat split; auto.
      intros w. destruct (is_run (wget (drain_eof c (fst s1)) w)) eqn:Rw; [|reflexivity].
      apply drain_eof_not_more in Rw. rewrite (W w) in Rw. discriminate.
    - elim HI. }
  destruct (expire_steps c s2 (inv_todo c _ I2)) as [A3 T3].
  destruct (expire_steps c (expire c s2) T3) as [A4 _]. lia.
Qed.
