(** C10: refutation witnesses (F-C10a/b/c), consistency of [transform], and
    bounded sweeps of the names/listing agreement over small namespace trees. *)
From InvokeVerif Require Import Model.CollModel Spec.C10Spec Corr.C10Corr Proofs.CollStrings.

(** * Guards of the partial statements *)
(** (a) no collection other than the root designates a sub-collection as its default *)
Fixpoint no_dsub_below (root : bool) (c : coll) : bool :=
  match c with
  | Coll _ _ _ subs dflt _ _ =>
      (root || match dflt with Some d => negb (mem d (akeys subs)) | None => true end) &&
      (fix go (l : list (string * coll)) : bool :=
         match l with [] => true | (_, sc) :: l' => no_dsub_below false sc && go l' end) subs
  end.

(** (b) every alias in a collection's alias table is one of the target task's
    own aliases (none was given as [add_task(aliases=...)]) *)
Fixpoint no_binding_aliases (c : coll) : bool :=
  match c with
  | Coll _ tasks aliases subs _ ad _ =>
      forallb (fun a => match assoc (snd a) tasks with
                        | Some t => mem (fst a) (map (transform ad) (t_aliases t))
                        | None => false
                        end) aliases &&
      (fix go (l : list (string * coll)) : bool :=
         match l with [] => true | (_, sc) :: l' => no_binding_aliases sc && go l' end) subs
  end.

(** (c) every task is bound under its own (transformed) name and every
    sub-collection under its own name *)
Fixpoint bound_by_own_names (c : coll) : bool :=
  match c with
  | Coll _ tasks _ subs _ ad _ =>
      forallb (fun kt => String.eqb (fst kt) (transform ad (t_name (snd kt)))) tasks &&
      (fix go (l : list (string * coll)) : bool :=
         match l with
         | [] => true
         | (k, sc) :: l' => opt_str_eqb (c_name sc) (Some k) && bound_by_own_names sc && go l'
         end) subs
  end.

(** (d) every binding name anywhere in the tree is normalised for the *root's*
    auto-dash setting (always true when all collections share the setting) *)
Fixpoint keys_normalized (ad : bool) (c : coll) : bool :=
  match c with
  | Coll _ tasks aliases subs _ _ _ =>
      forallb (normalized ad) (akeys tasks ++ akeys aliases ++ akeys subs) &&
      (fix go (l : list (string * coll)) : bool :=
         match l with [] => true | (_, sc) :: l' => keys_normalized ad sc && go l' end) subs
  end.

(** * Refutations on the faithful model *)
Definition t1 := mkTask 1 "t" [] false.

(** F-C10a: root > sub (default = collection inner) > inner (default t) *)
Definition sA : item :=
  ISub None true (Node [])
       [ISub (Some "sub") true (Node [])
             [ISub (Some "inner") true (Node []) [ITask t1 None [] (Some true)] None true]
             None false] None false.

Lemma refuted_default_subcollection :
  exists s c n, build s = Ok c /\ script_clean s = true /\ ns_wf c = true /\
                no_binding_aliases c = true /\
                contains c n = Ok true /\ normalized (c_auto_dash c) n = true /\
                (exists r, parser_of c = Ok r /\ preg_primary r n = None) /\
                name_ok (c_auto_dash c) n (model_nobs c n) = false.
Proof.
  exists sA. eexists. exists "sub". split; [vm_compute; reflexivity|].
  repeat split; try (vm_compute; reflexivity).
  eexists. split; vm_compute; reflexivity.
Qed.

(** F-C10b: add_task(t, aliases=("extra",)) *)
Definition sB : item := ISub None true (Node []) [ITask t1 None ["extra"] None] None false.

Lemma refuted_binding_alias :
  exists s c n, build s = Ok c /\ script_clean s = true /\ ns_wf c = true /\
                no_dsub_below true c = true /\
                contains c n = Ok true /\ normalized (c_auto_dash c) n = true /\
                (exists r, parser_of c = Ok r /\ preg_primary r n = None) /\
                name_ok (c_auto_dash c) n (model_nobs c n) = false /\
                listing_ok c 1 (model_rows c 1) = false /\
                listing_ok c 2 (model_rows c 2) = false.
Proof.
  exists sB. eexists. exists "extra". split; [vm_compute; reflexivity|].
  repeat split; try (vm_compute; reflexivity).
  eexists. split; vm_compute; reflexivity.
Qed.

(** F-C10c: add_task(orig, name="renamed"): json shows "orig" *)
Definition sC : item :=
  ISub None true (Node []) [ITask (mkTask 1 "orig" [] false) (Some "renamed") [] None] None false.

Lemma refuted_json :
  exists s c, build s = Ok c /\ script_clean s = true /\ ns_wf c = true /\
              no_binding_aliases c = true /\
              listing_ok c 1 (model_rows c 1) = true /\
              listing_ok c 2 (model_rows c 2) = true /\
              listing_ok c 3 (model_rows c 3) = false /\
              contains c "orig" = Ok false.
Proof.
  exists sC. eexists. split; [vm_compute; reflexivity|].
  repeat split; vm_compute; reflexivity.
Qed.

(** F-C10d: root without auto-dash, sub-collection with: the listing spells the
    task the sub-collection's way, the command line only accepts the root's way *)
Definition sD : item :=
  ISub None false (Node [])
       [ISub (Some "sub") true (Node []) [ITask (mkTask 1 "my_task" [] false) None [] None] None false]
       None false.

Lemma refuted_mixed_autodash :
  exists s c, build s = Ok c /\ script_clean s = true /\ ns_wf c = true /\
              no_binding_aliases c = true /\ bound_by_own_names c = true /\
              listing_ok c 1 (model_rows c 1) = false /\
              model_rows c 1 = Ok [(0, "sub.my-task", [], Some 1)] /\
              (exists r, parser_of c = Ok r /\ preg_primary r "sub.my-task" = None /\
                         preg_primary r "sub.my_task" = Some "sub.my_task").
Proof.
  exists sD. eexists. split; [vm_compute; reflexivity|].
  repeat split; try (vm_compute; reflexivity).
  eexists. repeat split; vm_compute; reflexivity.
Qed.

(** * Bounded sweeps (tests, not the property) *)
Definition opt_items (b : bool) (l : list item) : list item := if b then l else [].

Definition bools := [true; false].

(** own aliases x default flag of the task "my_task" inside sub *)
Definition sub_task_variants : list item :=
  flat_map (fun als =>
    map (fun d => ITask (mkTask 2 "my_task" als false) None [] d)
        [None; Some true]) [[]; ["al_x"]].

(** root > [top] + sub > [my_task variants] + in_ner > [deep (default)] *)
Definition sweep_scripts (with_dsub_below : bool) : list item :=
  flat_map (fun ad_root => flat_map (fun ad_sub => flat_map (fun ad_in =>
  flat_map (fun tv => flat_map (fun d_sub => flat_map (fun d_inner =>
  flat_map (fun has_top =>
    match tv, d_inner with
    | ITask _ _ _ (Some true), true => []          (* two defaults: build error *)
    | _, _ =>
      if (d_inner && negb with_dsub_below)%bool then [] else
      [ISub None ad_root (Node [])
            (opt_items has_top [ITask (mkTask 1 "top" ["t_al"] false) None [] None] ++
             [ISub (Some "sub") ad_sub (Node [])
                   [tv; ISub (Some "in_ner") ad_in (Node [])
                             [ITask (mkTask 3 "deep" [] false) None [] (Some true)] None d_inner]
                   None d_sub])
            None false]
    end) bools) bools) bools) sub_task_variants) bools) bools) bools.

Definition segs_vocab : list string :=
  ["top"; "t_al"; "t-al"; "sub"; "my_task"; "my-task"; "al_x"; "al-x"; "in_ner"; "in-ner"; "deep"; "zz"; ""].

Definition names_vocab : list string :=
  segs_vocab ++
  flat_map (fun a => map (fun b => (a ++ "." ++ b)%string) segs_vocab) ["sub"; "zz"] ++
  flat_map (fun a => flat_map (fun b => map (fun d => (a ++ "." ++ b ++ "." ++ d)%string)
                                            ["deep"; "my-task"; "zz"])
                              ["in_ner"; "in-ner"; "zz"]) ["sub"].

Definition names_sweep (scripts : list item) : bool :=
  forallb (fun s =>
             match build s with
             | Ok c => ns_wf c && script_clean s &&
                       forallb (fun n => token_ok (c_auto_dash c) n (model_nobs c n)) names_vocab
             | Err _ => false
             end) scripts.

Lemma names_bounded : names_sweep (sweep_scripts false) = true.
Proof. vm_compute. reflexivity. Qed.

Lemma sweep_size : List.length (sweep_scripts false) = 128 /\ List.length (sweep_scripts true) = 192 /\
                   List.length names_vocab = 48.
Proof. vm_compute. auto. Qed.

(** listings judged inside the guards of the partial statement: every tree for
    flat/nested when spelled uniformly; json additionally needs bindings by
    own names *)
Definition listing_sweep (scripts : list item) : bool :=
  forallb (fun s =>
             match build s with
             | Ok c =>
                 if keys_normalized (c_auto_dash c) c then
                   listing_ok c 1 (model_rows c 1) && listing_ok c 2 (model_rows c 2) &&
                   (if bound_by_own_names c then listing_ok c 3 (model_rows c 3) else true)
                 else true
             | Err _ => false
             end) scripts.

Lemma listing_bounded : listing_sweep (sweep_scripts true) = true.
Proof. vm_compute. reflexivity. Qed.

Lemma listing_sweep_inside_guard :
  List.length (filter (fun s => match build s with
                                | Ok c => keys_normalized (c_auto_dash c) c && bound_by_own_names c
                                | Err _ => false end) (sweep_scripts true)) = 48.
Proof. vm_compute. reflexivity. Qed.
