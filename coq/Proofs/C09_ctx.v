(** Proofs for C09: closed form of the tables ParserContext.add_arg builds
    when all names are distinct, and the converse (success implies distinct). *)
From InvokeVerif Require Import Model.SigCtxModel Spec.C09Spec Proofs.C09_facts Proofs.C09_sig.
From Coq Require Import Lia Permutation.

Definition attrs_of (a : argspec) : list string :=
  match a_attr_name a with
  | Some EmptyString => []
  | Some n => [n]
  | None => []
  end.

Definition keys_of (a : argspec) : list string := a_names a ++ attrs_of a.

Definition T_args (l : list argspec) := map (fun a => (main_of a, a)) l.
Definition T_aliases (l : list argspec) :=
  flat_map (fun a => map (fun n => (n, main_of a)) (nicks_of a ++ attrs_of a)) l.
Definition T_flags (l : list argspec) := map (fun a => (to_flag (main_of a), main_of a)) l.
Definition T_fal (l : list argspec) :=
  flat_map (fun a => map (fun n => (to_flag n, to_flag (main_of a))) (nicks_of a)) l.
Definition inv_entry (a : argspec) : list (string * string) :=
  if is_true_bool a then [(to_flag ("no-" ++ main_of a)%string, to_flag (main_of a))] else [].
Definition T_inv (l : list argspec) := flat_map inv_entry l.
Definition T_pos (l : list argspec) :=
  flat_map (fun a => if a_positional a then [main_of a] else []) l.
Definition T (l : list argspec) : sctx :=
  mkCtx (T_args l) (T_aliases l) (T_flags l) (T_fal l) (T_inv l) (T_pos l).

(** everything add_arg needs to be fresh *)
Record good (l : list argspec) : Prop := mkGood {
  g_nonempty : Forall (fun a => a_names a <> []) l;
  g_keys : NoDup (flat_map keys_of l);
  g_flags : NoDup (map to_flag (flat_map a_names l));
  g_inv : NoDup (map fst (T_inv l)) }.

Lemma names_split a : a_names a <> [] -> a_names a = main_of a :: nicks_of a.
Proof. unfold main_of, nicks_of. destruct (a_names a); [congruence | reflexivity]. Qed.

Lemma main_in_names a : a_names a <> [] -> In (main_of a) (a_names a).
Proof. intros H. rewrite (names_split a H). now left. Qed.

Lemma keys_T_args l : map fst (T_args l) = map main_of l.
Proof. unfold T_args. rewrite map_map. reflexivity. Qed.

Lemma keys_T_flags l : map fst (T_flags l) = map to_flag (map main_of l).
Proof. unfold T_flags. rewrite !map_map. reflexivity. Qed.

Lemma keys_T_aliases l :
  map fst (T_aliases l) = flat_map (fun a => nicks_of a ++ attrs_of a) l.
Proof.
  unfold T_aliases. induction l as [|a l IH]; simpl; [reflexivity|].
  rewrite map_app, IH, map_map. simpl. now rewrite map_id.
Qed.

Lemma keys_T_fal l : map fst (T_fal l) = map to_flag (flat_map nicks_of l).
Proof.
  unfold T_fal. induction l as [|a l IH]; simpl; [reflexivity|].
  rewrite !map_app, IH, map_map. reflexivity.
Qed.

Lemma in_mains_in_keys l x : Forall (fun a => a_names a <> []) l ->
  In x (map main_of l) -> In x (flat_map keys_of l).
Proof.
  intros F H. apply in_map_iff in H. destruct H as [a [<- Ha]].
  apply in_flat_map. exists a. split; [assumption|].
  unfold keys_of. apply in_or_app. left. apply main_in_names.
  now apply (proj1 (Forall_forall _ _) F).
Qed.

Lemma in_mains_in_names l x : Forall (fun a => a_names a <> []) l ->
  In x (map main_of l) -> In x (flat_map a_names l).
Proof.
  intros F H. apply in_map_iff in H. destruct H as [a [<- Ha]].
  apply in_flat_map. exists a. split; [assumption|].
  apply main_in_names. now apply (proj1 (Forall_forall _ _) F).
Qed.

Lemma in_nicks_in_names l x : In x (flat_map nicks_of l) -> In x (flat_map a_names l).
Proof.
  intros H. apply in_flat_map in H. destruct H as [a [Ha Hx]].
  apply in_flat_map. exists a. split; [assumption|].
  unfold nicks_of in Hx. destruct (a_names a); [destruct Hx | now right].
Qed.

Lemma in_alias_keys_in_keys l x :
  In x (flat_map (fun a => nicks_of a ++ attrs_of a) l) -> In x (flat_map keys_of l).
Proof.
  intros H. apply in_flat_map in H. destruct H as [a [Ha Hx]].
  apply in_flat_map. exists a. split; [assumption|].
  unfold keys_of. apply in_app_iff in Hx. apply in_or_app. destruct Hx as [Hx|Hx]; [left|now right].
  unfold nicks_of in Hx. destruct (a_names a); [destruct Hx | now right].
Qed.

Lemma lex_contains_fresh fuel keys al k :
  aget k al = None -> lex_contains fuel keys al k = mem k keys.
Proof. intros H. destruct fuel; simpl; now rewrite H. Qed.

Lemma lex_resolve_fresh fuel al k : aget k al = None -> lex_resolve fuel al k = k.
Proof. intros H. destruct fuel; simpl; now rewrite H. Qed.

Lemma NoDup_app_disjoint {A} (l1 l2 : list A) x :
  NoDup (l1 ++ l2) -> In x l2 -> ~ In x l1.
Proof.
  induction l1 as [|a l1 IH]; simpl; [tauto|].
  intros ND H2 [H|H]; inversion ND as [|? ? N1 N2]; subst.
  - apply N1. apply in_or_app. now right.
  - now apply (IH N2 H2).
Qed.

Lemma NoDup_app_l {A} (l1 l2 : list A) : NoDup (l1 ++ l2) -> NoDup l1.
Proof.
  induction l1 as [|a l1 IH]; simpl; intros H; [constructor|].
  inversion H as [|? ? N1 N2]; subst. constructor; [|now apply IH].
  intros C. apply N1. apply in_or_app. now left.
Qed.

Lemma NoDup_app_r {A} (l1 l2 : list A) : NoDup (l1 ++ l2) -> NoDup l2.
Proof.
  induction l1 as [|a l1 IH]; simpl; intros H; [assumption|].
  inversion H; subst. now apply IH.
Qed.

Lemma good_prefix l1 l2 : good (l1 ++ l2) -> good l1.
Proof.
  intros [G1 G2 G3 G4]. constructor.
  - apply Forall_app in G1. tauto.
  - rewrite flat_map_app in G2. now apply NoDup_app_l in G2.
  - rewrite flat_map_app, map_app in G3. now apply NoDup_app_l in G3.
  - unfold T_inv in *. rewrite flat_map_app, map_app in G4. now apply NoDup_app_l in G4.
Qed.

(** one step of add_arg from a closed-form state *)
Lemma add_arg_T done a : good (done ++ [a]) -> add_arg (T done) a = Ok (T (done ++ [a])).
Proof.
  intros G. pose proof (good_prefix _ _ G) as Gd.
  destruct G as [G1 G2 G3 G4].
  assert (Na : a_names a <> []).
  { apply Forall_app in G1. destruct G1 as [_ G1]. now inversion G1. }
  assert (Fd : Forall (fun a => a_names a <> []) done) by (apply Forall_app in G1; tauto).
  rewrite flat_map_app in G2. simpl in G2. rewrite app_nil_r in G2.
  rewrite flat_map_app in G3. simpl in G3. rewrite app_nil_r, map_app in G3.
  (* names and attrs of [a] are not keys of [done] *)
  assert (Fresh : forall k, In k (keys_of a) -> ~ In k (flat_map keys_of done))
    by (intros k Hk; now apply (NoDup_app_disjoint _ _ k G2)).
  assert (FreshF : forall k, In k (a_names a) -> ~ In (to_flag k) (map to_flag (flat_map a_names done))).
  { intros k Hk. apply (NoDup_app_disjoint _ _ _ G3). now apply in_map. }
  assert (NDa : NoDup (keys_of a)) by now apply NoDup_app_r in G2.
  assert (NDfa : NoDup (map to_flag (a_names a))) by now apply NoDup_app_r in G3.
  unfold add_arg. cbn [x_args x_aliases x_flags x_flag_aliases x_inverse x_positional T].
  (* the uniqueness check passes *)
  assert (Chk : existsb (lex_contains (S (List.length (T_aliases done))) (map fst (T_args done))
                                      (T_aliases done)) (a_names a) = false).
  { apply not_true_is_false. intros C. apply existsb_exists in C. destruct C as [k [Hk C]].
    assert (Hk' : In k (keys_of a)) by (unfold keys_of; apply in_or_app; now left).
    rewrite lex_contains_fresh in C.
    - apply mem_In in C. rewrite keys_T_args in C. apply (Fresh k Hk').
      now apply in_mains_in_keys.
    - apply aget_none_notin. rewrite keys_T_aliases. intros C'. apply (Fresh k Hk').
      now apply in_alias_keys_in_keys. }
  rewrite Chk. rewrite (names_split a Na) in *.
  set (m := main_of a) in *. set (nk := nicks_of a) in *.
  assert (Hm : In m (keys_of a)) by (unfold keys_of; rewrite (names_split a Na); now left).
  (* args *)
  rewrite lex_resolve_fresh.
  2:{ apply aget_none_notin. rewrite keys_T_aliases. intros C. apply (Fresh m Hm).
      now apply in_alias_keys_in_keys. }
  rewrite aset_fresh.
  2:{ rewrite keys_T_args. intros C. apply (Fresh m Hm). now apply in_mains_in_keys. }
  (* flags *)
  rewrite lex_resolve_fresh.
  2:{ apply aget_none_notin. rewrite keys_T_fal. intros C. apply (FreshF m); [now left|].
      apply in_map_iff in C. destruct C as [x [Hx1 Hx2]]. apply in_map_iff. exists x.
      split; [assumption | now apply in_nicks_in_names]. }
  rewrite aset_fresh.
  2:{ rewrite keys_T_flags. intros C. apply (FreshF m); [now left|].
      apply in_map_iff in C. destruct C as [x [Hx1 Hx2]]. apply in_map_iff. exists x.
      split; [assumption | now apply in_mains_in_names]. }
  (* nick aliases *)
  assert (NDk : NoDup (keys_of a)) by assumption.
  unfold keys_of in NDk. rewrite (names_split a Na) in NDk. fold m nk in NDk.
  assert (NDnk : NoDup nk).
  { apply NoDup_app_l in NDk. now inversion NDk. }
  rewrite (fold_aset_fresh (fun n => n) m nk).
  2:{ now rewrite map_id. }
  2:{ intros n Hn. rewrite keys_T_aliases. intros C. apply (Fresh n).
      - unfold keys_of. rewrite (names_split a Na). apply in_or_app. left. now right.
      - now apply in_alias_keys_in_keys. }
  rewrite (fold_aset_fresh to_flag (to_flag m) nk).
  2:{ cbn [map] in NDfa. now inversion NDfa. }
  2:{ intros n Hn. rewrite keys_T_fal. intros C. apply (FreshF n); [now right|].
      apply in_map_iff in C. destruct C as [x [Hx1 Hx2]]. apply in_map_iff. exists x.
      split; [assumption | now apply in_nicks_in_names]. }
  (* the result, table by table *)
  f_equal. unfold T. f_equal.
  - unfold T_args. now rewrite map_app.
  - unfold T_aliases. rewrite flat_map_app. cbn [flat_map]. rewrite app_nil_r, map_app.
    fold (T_aliases done). fold nk.
    unfold attrs_of in *. destruct (a_attr_name a) as [[|c an]|] eqn:Ea; cbn [map].
    + now rewrite app_nil_r.
    + rewrite aset_fresh; [now rewrite <- app_assoc|].
      rewrite map_app, map_map. cbn [fst]. rewrite map_id, keys_T_aliases. intros C.
      apply in_app_iff in C. destruct C as [C|C].
      * apply (Fresh (String c an)).
        -- unfold keys_of, attrs_of. rewrite Ea. apply in_or_app. right. now left.
        -- now apply in_alias_keys_in_keys.
      * (* attr is not one of a's own nicknames *)
        assert (ND' : NoDup (nk ++ [String c an])).
        { change (m :: nk) with ([m] ++ nk) in NDk. rewrite <- app_assoc in NDk. now apply NoDup_app_r in NDk. }
        apply (NoDup_app_disjoint _ _ (String c an) ND'); [now left | assumption].
    + now rewrite app_nil_r.
  - unfold T_flags. now rewrite map_app.
  - unfold T_fal. rewrite flat_map_app. cbn [flat_map]. now rewrite app_nil_r.
  - unfold T_inv in *. rewrite flat_map_app in *. cbn [flat_map] in *. rewrite app_nil_r in *.
    unfold inv_entry in *. fold m in G4 |- *. destruct (is_true_bool a); [|now rewrite app_nil_r].
    rewrite aset_fresh; [reflexivity|].
    rewrite map_app in G4. apply (NoDup_app_disjoint _ _ _ G4). now left.
  - unfold T_pos. rewrite flat_map_app. cbn [flat_map]. rewrite app_nil_r. fold m.
    destruct (a_positional a); [reflexivity | now rewrite app_nil_r].
Qed.

Lemma add_args_T rest : forall done, good (done ++ rest) -> add_args (T done) rest = Ok (T (done ++ rest)).
Proof.
  induction rest as [|a rest IH]; intros done G; simpl.
  - now rewrite app_nil_r.
  - replace (done ++ a :: rest) with ((done ++ [a]) ++ rest) in * by now rewrite <- app_assoc.
    rewrite add_arg_T by now apply good_prefix in G.
    now apply IH.
Qed.

Theorem add_args_closed_form l : good l -> add_args empty_ctx l = Ok (T l).
Proof. intros G. apply (add_args_T l [] G). Qed.

(** * From static facts about the arguments + distinct names to [good] *)
Definition clean (n : string) : Prop := contains_char us n = false /\ n <> "-".

Record static_ok (l : list argspec) : Prop := mkStatic {
  st_nonempty : Forall (fun a => a_names a <> []) l;
  st_self : Forall (fun a => NoDup (a_names a)) l;
  st_clean : Forall (fun a => Forall clean (a_names a)) l;
  st_attr_us : Forall (fun a => Forall (fun n => contains_char us n = true) (attrs_of a)) l;
  st_attrs : NoDup (flat_map attrs_of l) }.

Lemma NoDup_app_intro' {A} (l1 l2 : list A) :
  NoDup l1 -> NoDup l2 -> (forall x, In x l1 -> In x l2 -> False) -> NoDup (l1 ++ l2).
Proof.
  induction l1 as [|a l1 IH]; simpl; intros N1 N2 D; [assumption|].
  inversion N1 as [|? ? M1 M2]; subst. constructor.
  - intros C. apply in_app_iff in C. destruct C as [C|C]; [tauto | apply (D a); auto].
  - apply IH; auto. intros x H1 H2. apply (D x); auto.
Qed.

Lemma flat_map_app_perm {A B} (f g : A -> list B) l :
  Permutation (flat_map (fun a => f a ++ g a) l) (flat_map f l ++ flat_map g l).
Proof.
  induction l as [|a l IH]; simpl; [apply Permutation_refl|].
  rewrite <- !app_assoc. apply Permutation_app_head.
  eapply perm_trans; [apply Permutation_app_head, IH|].
  rewrite !app_assoc. apply Permutation_app_tail. apply Permutation_app_comm.
Qed.

Lemma NoDup_map_inj_in {A B} (f : A -> B) l :
  (forall x y, In x l -> In y l -> f x = f y -> x = y) -> NoDup l -> NoDup (map f l).
Proof.
  induction l as [|a l IH]; simpl; intros Inj ND; [constructor|].
  inversion ND as [|? ? N1 N2]; subst. constructor.
  - intros C. apply in_map_iff in C. destruct C as [y [E Hy]].
    apply N1. rewrite <- (Inj y a); auto.
  - apply IH; auto.
Qed.

Lemma clean_names_in l x : Forall (fun a => Forall clean (a_names a)) l ->
  In x (flat_map a_names l) -> clean x.
Proof.
  intros F H. apply in_flat_map in H. destruct H as [a [Ha Hx]].
  pose proof (proj1 (Forall_forall _ _) F a Ha) as Fa.
  now apply (proj1 (Forall_forall _ _) Fa).
Qed.

Lemma no_prefix_clean m : contains_char us m = false -> clean ("no-" ++ m)%string.
Proof. intros H. split; [simpl; assumption | discriminate]. Qed.

Lemma good_of_static l : static_ok l -> NoDup (flat_map a_names l) -> good l.
Proof.
  intros [S1 S2 S3 S4 S5] ND. constructor.
  - assumption.
  - eapply Permutation_NoDup; [apply Permutation_sym, flat_map_app_perm|].
    apply NoDup_app_intro'; try assumption.
    intros x Hx Hy. destruct (clean_names_in _ _ S3 Hx) as [Cx _].
    apply in_flat_map in Hy. destruct Hy as [a [Ha Hy]].
    pose proof (proj1 (Forall_forall _ _) S4 a Ha) as Fa.
    pose proof (proj1 (Forall_forall _ _) Fa x Hy) as C. simpl in C. congruence.
  - apply NoDup_map_inj_in; [|assumption].
    intros x y Hx Hy. destruct (clean_names_in _ _ S3 Hx), (clean_names_in _ _ S3 Hy).
    now apply to_flag_inj.
  - clear S2 S4 S5. induction l as [|a l IH]; simpl; [constructor|].
    simpl in ND. inversion S1 as [|? ? Na S1']; subst. inversion S3 as [|? ? Ca S3']; subst.
    rewrite map_app. unfold inv_entry at 1. destruct (is_true_bool a) eqn:Ea; simpl.
    2:{ apply IH; auto. now apply NoDup_app_r in ND. }
    constructor; [|apply IH; auto; now apply NoDup_app_r in ND].
    intros C. apply in_map_iff in C. destruct C as [[k v] [E Hk]]. simpl in E. subst k.
    unfold T_inv in Hk. apply in_flat_map in Hk. destruct Hk as [a' [Ha' Hk]].
    unfold inv_entry in Hk. destruct (is_true_bool a'); [|destruct Hk].
    destruct Hk as [Hk|[]]. injection Hk as Hk _.
    assert (Ma : In (main_of a) (a_names a)) by now apply main_in_names.
    assert (Ma' : In (main_of a') (flat_map a_names l)).
    { apply in_flat_map. exists a'. split; [assumption|]. apply main_in_names.
      now apply (proj1 (Forall_forall _ _) S1'). }
    destruct (proj1 (Forall_forall _ _) Ca _ Ma) as [C1 _].
    destruct (clean_names_in _ _ S3' Ma') as [C2 _].
    destruct (no_prefix_clean _ C1) as [D1 D2]. destruct (no_prefix_clean _ C2) as [D3 D4].
    pose proof (to_flag_inj _ _ D3 D1 D4 D2 Hk) as E. injection E as E.
    apply (NoDup_app_disjoint _ _ (main_of a) ND); [now rewrite <- E | assumption].
Qed.

Lemma static_prefix l1 l2 : static_ok (l1 ++ l2) -> static_ok l1.
Proof.
  intros [S1 S2 S3 S4 S5]. constructor.
  - apply Forall_app in S1; tauto.
  - apply Forall_app in S2; tauto.
  - apply Forall_app in S3; tauto.
  - apply Forall_app in S4; tauto.
  - rewrite flat_map_app in S5. now apply NoDup_app_l in S5.
Qed.

(** * Conversely: if add_args succeeds, the names were distinct *)
Lemma alias_keys_nodup l :
  Forall (fun a => a_names a <> []) l -> NoDup (flat_map keys_of l) ->
  NoDup (flat_map (fun a => nicks_of a ++ attrs_of a) l).
Proof.
  induction l as [|a l IH]; simpl; intros F ND; [constructor|].
  inversion F as [|? ? Na F']; subst.
  unfold keys_of at 1 in ND. rewrite (names_split a Na) in ND. simpl in ND.
  inversion ND as [|? ? _ ND']; subst. rewrite <- app_assoc in ND'.
  apply NoDup_app_intro'.
  - rewrite app_assoc in ND'. now apply NoDup_app_l in ND'.
  - apply IH; auto. now apply NoDup_app_r, NoDup_app_r in ND'.
  - intros x H1 H2. apply in_alias_keys_in_keys in H2.
    rewrite app_assoc in ND'. now apply (NoDup_app_disjoint _ _ x ND' H2).
Qed.

Lemma main_not_alias_key l a :
  Forall (fun a => a_names a <> []) l -> NoDup (flat_map keys_of l) -> In a l ->
  ~ In (main_of a) (flat_map (fun a => nicks_of a ++ attrs_of a) l).
Proof.
  induction l as [|b l IH]; simpl; intros F ND Ha C; [destruct Ha|].
  inversion F as [|? ? Nb F']; subst.
  destruct Ha as [->|Ha].
  - apply in_app_iff in C. destruct C as [C|C].
    + unfold keys_of in ND. rewrite (names_split a Nb) in ND. simpl in ND.
      inversion ND as [|? ? N1 N2]; subst. apply N1. apply in_or_app. now left.
    + apply in_alias_keys_in_keys in C.
      apply (NoDup_app_disjoint _ _ (main_of a) ND C).
      unfold keys_of. apply in_or_app. left. now apply main_in_names.
  - apply in_app_iff in C. destruct C as [C|C].
    + assert (H : In (main_of a) (flat_map keys_of l)).
      { apply in_mains_in_keys; [assumption | now apply in_map]. }
      apply (NoDup_app_disjoint _ _ (main_of a) ND H).
      unfold keys_of, nicks_of in *. apply in_app_iff in C. apply in_or_app.
      destruct C as [C|C]; [left|now right]. destruct (a_names b); [destruct C|now right].
    + apply (IH F'); auto. now apply NoDup_app_r in ND.
Qed.

Lemma lex_contains_T done k :
  good done -> In k (flat_map a_names done) ->
  lex_contains (S (List.length (T_aliases done))) (map fst (T_args done)) (T_aliases done) k = true.
Proof.
  intros G Hk. pose proof (g_nonempty _ G) as G1. pose proof (g_keys _ G) as G2.
  assert (Main : forall a fuel, In a done ->
            lex_contains fuel (map fst (T_args done)) (T_aliases done) (main_of a) = true).
  { intros a fuel Ha. rewrite lex_contains_fresh.
    - apply mem_In. rewrite keys_T_args. now apply in_map.
    - apply aget_none_notin. rewrite keys_T_aliases. now apply main_not_alias_key. }
  apply in_flat_map in Hk. destruct Hk as [a [Ha Hk]].
  pose proof (proj1 (Forall_forall _ _) G1 a Ha) as Na.
  rewrite (names_split a Na) in Hk. destruct Hk as [<-|Hk]; [now apply Main|].
  assert (E : aget k (T_aliases done) = Some (main_of a)).
  { apply aget_nodup_in.
    - rewrite keys_T_aliases. now apply alias_keys_nodup.
    - unfold T_aliases. apply in_flat_map. exists a. split; [assumption|].
      apply in_map_iff. exists k. split; [reflexivity | apply in_or_app; now left]. }
  cbn [lex_contains]. rewrite E. now apply Main.
Qed.

Lemma add_args_ok_distinct rest : forall done c,
  static_ok (done ++ rest) -> NoDup (flat_map a_names done) ->
  add_args (T done) rest = Ok c ->
  NoDup (flat_map a_names (done ++ rest)) /\ c = T (done ++ rest).
Proof.
  induction rest as [|a rest IH]; intros done c St ND; simpl.
  - intros H; injection H as <-. now rewrite app_nil_r.
  - replace (done ++ a :: rest) with ((done ++ [a]) ++ rest) in * by now rewrite <- app_assoc.
    pose proof (static_prefix _ _ St) as Sa. pose proof (static_prefix _ _ Sa) as Sd.
    pose proof (good_of_static _ Sd ND) as Gd.
    destruct (add_arg (T done) a) as [c'|e] eqn:E; [|discriminate].
    assert (NDa : NoDup (flat_map a_names (done ++ [a]))).
    { rewrite flat_map_app. simpl. rewrite app_nil_r. apply NoDup_app_intro'; [assumption | |].
      - destruct Sa as [_ S2 _ _ _]. apply Forall_app in S2. destruct S2 as [_ S2]. now inversion S2.
      - intros x H1 H2. unfold add_arg in E. cbn [x_args x_aliases T] in E.
        assert (C : existsb (lex_contains (S (List.length (T_aliases done))) (map fst (T_args done))
                                          (T_aliases done)) (a_names a) = true).
        { apply existsb_exists. exists x. split; [assumption | now apply lex_contains_T]. }
        rewrite C in E. discriminate. }
    rewrite add_arg_T in E by now apply good_of_static.
    injection E as <-. now apply IH.
Qed.

Theorem add_args_ok_iff l c :
  static_ok l -> add_args empty_ctx l = Ok c -> NoDup (flat_map a_names l) /\ c = T l.
Proof. intros S H. apply (add_args_ok_distinct l [] c S (NoDup_nil _) H). Qed.
