(** C08 on the RunnerSM state machine. *)
From InvokeVerif Require Import Model.RunnerSM Spec.C08Spec Proofs.RunnerSM_facts.
From Coq Require Import Lia.

(** * Past the wait loop there is no way back *)

Lemma run_joins_pc c todo s cur ec : s_pc (fst (run_joins c s todo cur ec)) <> PWait.
Proof.
  pose proof (run_joins_result c todo s cur ec) as J.
  remember (fst (run_joins c s todo cur ec)) as r eqn:Er. clear Er.
  inversion J; cbn; discriminate.
Qed.

Lemma advance_past c s : s_pc (fst s) <> PWait -> s_pc (fst (advance c s)) <> PWait.
Proof.
  unfold advance. destruct (s_pc (fst s)) eqn:P; intros H.
  - elim H. reflexivity.
  - apply run_joins_pc.
  - rewrite P. discriminate.
  - rewrite P. discriminate.
Qed.

Lemma step_past c s e : s_pc (fst s) <> PWait -> s_pc (fst (step c s e)) <> PWait.
Proof.
  destruct s as [k n]. cbn [fst]. intros H. unfold step. apply advance_past. cbn [fst].
  destruct (s_pc k) as [|todo cur ec|o|] eqn:P.
  - elim H. reflexivity.
  - destruct (apply_ev_join c k n e todo cur ec P) as (P' & _). rewrite P'. discriminate.
  - rewrite apply_ev_over by (unfold running; cbn; rewrite P; reflexivity). cbn. rewrite P. discriminate.
  - rewrite apply_ev_over by (unfold running; cbn; rewrite P; reflexivity). cbn. rewrite P. discriminate.
Qed.

Lemma run_events_past c : forall script s,
  s_pc (fst s) <> PWait -> s_pc (fst (run_events c s script)) <> PWait.
Proof.
  induction script as [|e r IH]; intros s H; [exact H|].
  cbn [run_events fold_left]. apply IH. apply step_past. exact H.
Qed.

(** an end event makes the main thread leave the wait loop *)
Lemma step_end_leaves c s e :
  Inv c (fst s) -> is_end c e = true -> s_pc (fst (step c s e)) <> PWait.
Proof.
  destruct s as [k n]. cbn [fst]. intros I E.
  destruct (s_pc k) eqn:P; try (apply step_past; cbn; rewrite P; discriminate).
  pose proof I as [_ HI]. rewrite P in HI. destruct HI as (Pr & D & F & R & T).
  unfold step, apply_ev. cbn [fst snd]. unfold running. rewrite P. cbn [negb].
  destruct e as [w|w|code|code| |w x|]; try discriminate E.
  - rewrite Pr. cbn [fst snd]. unfold advance. cbn [fst snd set_proc s_pc s_proc]. rewrite P.
    apply leave_wait_pc.
  - apply advance_past. cbn [fst]. apply leave_wait_pc.
  - cbn in E. rewrite T, E, Pr. cbn [fst snd]. unfold advance.
    cbn [fst snd set_proc set_timer s_pc s_proc]. rewrite P. apply leave_wait_pc.
Qed.

Lemma run_events_ends c : forall script s,
  Inv c (fst s) -> process_ends c script = true -> s_pc (fst (run_events c s script)) <> PWait.
Proof.
  induction script as [|e r IH]; intros s I E; [discriminate|].
  cbn [run_events fold_left]. unfold process_ends in E. cbn [existsb] in E.
  destruct (is_end c e) eqn:EE.
  - apply run_events_past. apply step_end_leaves; assumption.
  - apply IH; [apply step_inv; exact I | exact E].
Qed.

(** * Draining *)

Lemma drain_eof_fields c k :
  s_pc (drain_eof c k) = s_pc k /\ s_flag (drain_eof c k) = s_flag k /\ s_in (drain_eof c k) = s_in k /\
  s_timer (drain_eof c k) = s_timer k /\ s_proc (drain_eof c k) = s_proc k /\
  s_reaped (drain_eof c k) = s_reaped k.
Proof.
  unfold drain_eof.
  destruct (is_run (s_out k) && negb (c_hold_out c)); cbn;
    match goal with |- context [if ?b then _ else _] => destruct b end; cbn; repeat split; reflexivity.
Qed.

Lemma drain_eof_fair c k w :
  fair c = true -> is_run (s_in k) = false -> is_run (wget (drain_eof c k) w) = false.
Proof.
  unfold fair. intros F I. apply andb_true_iff in F. destruct F as [Fo Fe].
  apply negb_true_iff in Fo. apply negb_true_iff in Fe.
  unfold drain_eof. rewrite Fo, Fe. cbn [negb]. rewrite !andb_true_r.
  destruct w; destruct (is_run (s_out k)) eqn:Ro; cbn;
    try (destruct (is_run (s_err k)) eqn:Re; cbn); congruence.
Qed.

Lemma drain_eof_not_more c k w :
  is_run (wget (drain_eof c k) w) = true -> is_run (wget k w) = true.
Proof.
  unfold drain_eof.
  destruct (is_run (s_out k) && negb (c_hold_out c)) eqn:A; cbn;
    match goal with |- context [if ?b then _ else _] => destruct b eqn:B end;
    destruct w; cbn; try congruence; intros H; try discriminate;
    try (apply andb_true_iff in A; tauto); try (apply andb_true_iff in B; cbn in B; tauto).
Qed.

(** stop() has been called whenever the outcome is settled *)
Lemma run_joins_done_stop c : forall todo s cur ec o,
  s_pc (fst (run_joins c s todo cur ec)) = PDone o -> 1 <= n_stop (snd (run_joins c s todo cur ec)).
Proof.
  induction todo as [|w rest IH]; intros s cur ec o.
  - cbn. lia.
  - cbn [run_joins]. destruct (is_run (wget (fst s) w)).
    + cbn. discriminate.
    + apply IH.
Qed.

Definition StopInv (s : st) : Prop :=
  match s_pc (fst s) with PDone _ => 1 <= n_stop (snd s) | _ => True end.

Lemma stopinv_run_joins c todo s cur ec : StopInv (run_joins c s todo cur ec).
Proof.
  unfold StopInv. destruct (s_pc (fst (run_joins c s todo cur ec))) eqn:P; auto.
  apply (run_joins_done_stop c todo s cur ec o P).
Qed.

Lemma stopinv_advance c s : StopInv s -> StopInv (advance c s).
Proof.
  intros H. unfold advance. destruct (s_pc (fst s)) eqn:P.
  - destruct (s_proc (fst s)); [apply stopinv_run_joins|].
    destruct (any_dead (fst s)); [apply stopinv_run_joins | exact H].
  - apply stopinv_run_joins.
  - exact H.
  - exact H.
Qed.

Lemma stopinv_step c s e : StopInv s -> StopInv (step c s e).
Proof.
  intros H. unfold step. apply stopinv_advance.
  destruct (running (fst s)) eqn:Rn.
  2:{ rewrite apply_ev_over by exact Rn. unfold StopInv in *. cbn [fst snd].
      destruct (s_pc (fst s)); auto. }
  assert (G : forall s' : st, s_pc (fst s') = s_pc (fst s) -> StopInv (fst s', add_steps 1 (snd s'))).
  { intros s' E. unfold StopInv. cbn [fst snd]. rewrite E. unfold running in Rn.
    destruct (s_pc (fst s)); auto; discriminate. }
  unfold apply_ev. rewrite Rn. cbn [negb].
  destruct e as [w|w|code|code| |w x|];
  repeat match goal with
  | |- context [match ?w with WOut => _ | WIn => _ | WErr => _ end] => is_var w; destruct w
  | |- context [if is_run ?x then _ else _] => destruct (is_run x) eqn:?
  | |- context [match s_proc (fst s) with _ => _ end] => destruct (s_proc (fst s))
  | |- context [match s_timer (fst s) with _ => _ end] => destruct (s_timer (fst s))
  | |- context [match s_pc (fst s) with _ => _ end] => destruct (s_pc (fst s)) eqn:?
  end; try (apply G; cbn [fst]; rewrite ?pc_wset; cbn; congruence).
  all: try (unfold StopInv; cbn [fst snd];
            match goal with |- context [leave_wait ?c ?s0 ?ec] =>
              pose proof (stopinv_run_joins c) as Q; unfold leave_wait; 
              match goal with |- context [run_joins c ?a ?b ?d ?e0] => specialize (Q b a d e0) end;
              unfold StopInv in Q; cbn [fst snd] in *;
              destruct (s_pc (fst (run_joins _ _ _ _ _))); auto end).
Qed.

Lemma run_events_stopinv c : forall script s, StopInv s -> StopInv (run_events c s script).
Proof.
  induction script as [|e r IH]; intros s H; [exact H|].
  cbn [run_events fold_left]. apply IH. apply stopinv_step. exact H.
Qed.

Lemma expire_done c s o : s_pc (fst s) = PDone o -> expire c s = s.
Proof. intros P. unfold expire. rewrite P. reflexivity. Qed.

(** * C08_terminates_when_process_ends *)

Record clean (s : st) : Prop := mkClean {
  cl_done : exists o, s_pc (fst s) = PDone o;
  cl_workers : forall w, is_run (wget (fst s) w) = false;
  cl_timer : s_timer (fst s) <> TArmed;
  cl_flag : s_flag (fst s) = true;
  cl_stop : 1 <= n_stop (snd s)
}.

Theorem terminates_when_process_ends c script :
  start_raises c = false -> fair c = true -> process_ends c script = true ->
  clean (run_sm c script).
Proof.
  intros S F E. unfold run_sm.
  set (s0 := advance c (init c)).
  assert (I0 : Inv c (fst s0)) by (apply init_inv; exact S).
  assert (J0 : StopInv s0).
  { unfold s0. apply stopinv_advance. unfold init. rewrite S. unfold StopInv. cbn. exact Logic.I. }
  set (s1 := run_events c s0 script).
  assert (I1 : Inv c (fst s1)) by (apply run_events_inv; exact I0).
  assert (J1 : StopInv s1) by (apply run_events_stopinv; exact J0).
  assert (P1 : s_pc (fst s1) <> PWait) by (apply run_events_ends; assumption).
  clearbody s1. clear s0 I0 J0.
  unfold drain. destruct s1 as [k n]. cbn [fst snd] in *.
  pose proof I1 as [Hin HI].
  destruct (s_pc k) as [|todo cur ec|o|] eqn:P.
  - elim P1. reflexivity.
  - (* blocked in a join: the readers get EOF, everything left has finished *)
    unfold running. rewrite P. cbn [negb].
    destruct HI as (Fl & N & Sub & _).
    assert (Rin : is_run (s_in k) = false) by (apply (in_not_running c k I1); rewrite P; discriminate).
    destruct (drain_eof_fields c k) as (Epc & Efl & Ein & Etm & _).
    unfold advance. cbn [fst snd]. rewrite Epc, P. cbv beta iota.
    destruct (run_joins_all_done c todo (drain_eof c k, n) cur ec) as [A B].
    { intros w _. cbn [fst]. apply drain_eof_fair; assumption. }
    cbn [fst snd] in A, B.
    set (r := run_joins c (drain_eof c k, n) todo cur ec) in *.
    assert (Pr : s_pc (fst r) = PDone (decide c (drain_eof c k) ec)) by (rewrite A; reflexivity).
    rewrite (expire_done c r _ Pr), (expire_done c r _ Pr).
    constructor.
    + eexists. exact Pr.
    + intros w. rewrite A.
      assert (W : wget (ctl_done c (drain_eof c k) ec) w = wget (drain_eof c k) w) by (destruct w; reflexivity).
      rewrite W. apply drain_eof_fair; assumption.
    + rewrite A. cbn. destruct (s_timer (drain_eof c k)); discriminate.
    + rewrite A. cbn. rewrite Efl. exact Fl.
    + rewrite B. lia.
  - unfold running. rewrite P. cbn [negb fst].
    destruct HI as (Fl & W & T). unfold StopInv in J1. cbn [fst snd] in J1. rewrite P in J1.
    constructor; cbn [fst snd]; auto. eexists. exact P.
  - elim HI.
Qed.

(** steps: linear in the length of the script *)
Lemma nodup_who_length (l : list who) : NoDup l -> List.length l <= 3.
Proof.
  intros N. apply (NoDup_incl_length N (l' := [WOut; WIn; WErr])).
  intros w _. destruct w; cbn; tauto.
Qed.

(** * C08_start_failure_reported *)

Lemma step_over c s e : running (fst s) = false ->
  fst (step c s e) = fst s /\ n_stop (snd (step c s e)) = n_stop (snd s) /\
  n_kills (snd (step c s e)) = n_kills (snd s).
Proof.
  intros R. unfold step. rewrite apply_ev_over by exact R. unfold advance. cbn [fst snd].
  unfold running in R. destruct (s_pc (fst s)); try discriminate; cbn; auto.
Qed.

Lemma run_events_over c : forall script s, running (fst s) = false ->
  fst (run_events c s script) = fst s /\ n_stop (snd (run_events c s script)) = n_stop (snd s) /\
  n_kills (snd (run_events c s script)) = n_kills (snd s).
Proof.
  induction script as [|e r IH]; intros s R; [auto|].
  change (run_events c s (e :: r)) with (run_events c (step c s e) r).
  destruct (step_over c s e R) as (A & B & C).
  destruct (IH (step c s e)) as (A' & B' & C'); [rewrite A; exact R|].
  rewrite A', B', C', A, B, C. auto.
Qed.

(** the shell cannot be started and [start] raises in the calling process: the
    failure is what run() raises, nothing was started, nothing is left *)
Theorem start_failure_reported c script :
  start_raises c = true ->
  let s := run_sm c script in
  s_pc (fst s) = PDone OStartError /\ (forall w, wget (fst s) w = WAbsent) /\
  s_timer (fst s) = TNone /\ n_kills (snd s) = 0.
Proof.
  intros S. unfold run_sm.
  assert (E0 : advance c (init c) = init c) by (unfold advance, init; rewrite S; reflexivity).
  rewrite E0.
  assert (R0 : running (fst (init c)) = false) by (unfold init; rewrite S; reflexivity).
  destruct (run_events_over c script (init c) R0) as (A & B & C).
  unfold drain. rewrite A, R0. cbn [negb]. rewrite A, C.
  unfold init. rewrite S. cbn. repeat split; auto. intros w; destruct w; reflexivity.
  destruct (c_async c); reflexivity.
Qed.

Lemma start_failure_refuted :
  exists c script, c_start_fail c = true /\
    s_pc (fst (run_sm c script)) <> PDone OStartError.
Proof.
  exists (mkCfg true false false false false true false false), [EExit 0%Z; EEof WOut].
  split; [reflexivity|]. vm_compute. discriminate.
Qed.

(** * C08_dead_worker_bounded *)

Definition dead_oe (k : ctl) : Prop := any_dead k = true.

Lemma decide_dead c k : dead_oe k -> is_failure_report (decide c k false) = true.
Proof.
  unfold dead_oe, decide, any_dead, any_dead_k.
  destruct (s_out k) as [| | |[|]], (s_in k) as [| | |[|]], (s_err k) as [| | |[|]];
    cbn; intros H; try discriminate; reflexivity.
Qed.

Definition DeadPc (k : ctl) : Prop :=
  match s_pc k with
  | PWait | PHang => False
  | PJoin _ cur ec => ec = false /\ cur = Some true
  | PDone o => is_failure_report o = true
  end.

Lemma bounded_when_dead k w :
  dead_oe k -> is_run (s_in k) = false -> is_run (wget k w) = true -> join_bounded k w = true.
Proof.
  unfold dead_oe, any_dead. intros D I R. destruct w; cbn in *.
  - destruct (s_out k); try discriminate. cbn in D. rewrite orb_comm. exact D.
  - rewrite I in R. discriminate.
  - destruct (s_err k); try discriminate. cbn in D. rewrite orb_false_r in D. exact D.
Qed.

Lemma joins_dead c k todo cur r :
  dead_oe k -> is_run (s_in k) = false -> (cur = Some true \/ cur = None) ->
  joins_result c k todo cur false r -> dead_oe r /\ DeadPc r.
Proof.
  intros D I C J. inversion J as [Hall Heq | pre w rest Htodo Hpre Hrun Heq]; subst r.
  - split; [exact D|]. unfold DeadPc. cbn. apply decide_dead. exact D.
  - split; [exact D|]. unfold DeadPc. cbn. split; [reflexivity|]. f_equal.
    pose proof (bounded_when_dead k w D I Hrun) as B.
    destruct pre; [|exact B]. destruct C as [->| ->]; [reflexivity | exact B].
Qed.

Lemma any_dead_iff k : any_dead k = true <-> exists w, is_dead (wget k w) = true.
Proof.
  unfold any_dead. split.
  - intros H. apply orb_true_iff in H. destruct H as [H|H]; [apply orb_true_iff in H; destruct H as [H|H]|].
    + exists WOut. exact H.
    + exists WIn. exact H.
    + exists WErr. exact H.
  - intros [w H]. destruct w; cbn in H; rewrite H; rewrite ?orb_true_r; reflexivity.
Qed.

Definition DeadInv (c : cfg) (k : ctl) : Prop := Inv c k /\ dead_oe k /\ DeadPc k.

Lemma apply_ev_dead c k n e w :
  is_dead (wget k w) = true -> is_dead (wget (fst (apply_ev c (k, n) e)) w) = true.
Proof.
  intros D. unfold apply_ev. cbn [fst snd].
  destruct (negb (running k)); [exact D|].
  destruct e as [w0|w0|code|code| |w0 x|]; cbn [fst];
  repeat match goal with
  | |- context [match ?w with WOut => _ | WIn => _ | WErr => _ end] => is_var w; destruct w
  | |- context [if is_run ?x then _ else _] => destruct (is_run x) eqn:?
  | |- context [match s_proc k with _ => _ end] => destruct (s_proc k)
  | |- context [match s_timer k with _ => _ end] => destruct (s_timer k)
  | |- context [match s_pc k with _ => _ end] => destruct (s_pc k) eqn:?
  end; cbn [fst]; try exact D;
  try (destruct w; cbn in *; try exact D;
       match goal with H : is_run ?x = true, D : is_dead ?x = true |- _ => destruct x; discriminate end).
  all: try (match goal with |- context [leave_wait ?c0 ?s0 ?ec] =>
       unfold leave_wait;
       match goal with |- context [run_joins c0 ?a ?b ?d ?e0] =>
         pose proof (run_joins_result c0 b a d e0) as J;
         remember (fst (run_joins c0 a b d e0)) as r eqn:Er; clear Er;
         inversion J; subst r; destruct w; cbn in *; try exact D;
         destruct (s_in k); cbn in *; congruence end end).
  all: destruct w; cbn in *; try exact D;
       destruct w0; cbn in *; try exact D;
       match goal with H : is_run ?x = true, D : is_dead ?x = true |- _ => destruct x; discriminate end.
Qed.

Lemma deadinv_step c s e : DeadInv c (fst s) -> DeadInv c (fst (step c s e)).
Proof.
  destruct s as [k n]. cbn [fst]. intros (I & D & Pc).
  split; [apply (step_inv c (k, n) e I)|].
  unfold step. unfold DeadPc in Pc.
  destruct (s_pc k) as [|todo cur ec|o|] eqn:P; try (elim Pc).
  - destruct Pc as [-> ->].
    destruct (apply_ev_join c k n e todo (Some true) false P) as (P' & F' & Sub').
    unfold advance. cbn [fst snd]. rewrite P'.
    assert (D' : dead_oe (fst (apply_ev c (k, n) e))).
    { apply any_dead_iff in D. destruct D as [w0 D]. apply any_dead_iff. exists w0.
      apply (apply_ev_dead c k n e w0 D). }
    assert (Rin : is_run (s_in (fst (apply_ev c (k, n) e))) = false).
    { destruct (is_run (s_in (fst (apply_ev c (k, n) e)))) eqn:R; [|reflexivity].
      specialize (Sub' WIn R). cbn in Sub'.
      rewrite (in_not_running c k I) in Sub'; [discriminate | rewrite P; discriminate]. }
    cbv beta iota. intros _ _.
    match goal with |- dead_oe (fst (run_joins c ?s0 todo _ false)) /\ _ =>
      apply (joins_dead c (fst s0) todo (Some true));
        [exact D' | exact Rin | left; reflexivity | apply (run_joins_result c todo s0 (Some true) false)] end.
  - rewrite apply_ev_over by (unfold running; cbn; rewrite P; reflexivity).
    unfold advance. cbn [fst]. rewrite P. cbn [fst]. split; [exact D|]. unfold DeadPc. rewrite P. exact Pc.
Qed.

Lemma run_events_deadinv c : forall script s, DeadInv c (fst s) -> DeadInv c (fst (run_events c s script)).
Proof.
  induction script as [|e r IH]; intros s H; [exact H|].
  change (run_events c s (e :: r)) with (run_events c (step c s e) r). apply IH. apply deadinv_step. exact H.
Qed.

(** the death itself: a running stdout/stderr worker dies while the main thread waits *)
Lemma death_step c k n w x :
  Inv c k -> s_pc k = PWait -> is_run (wget k w) = true ->
  DeadInv c (fst (step c (k, n) (EExc w x))).
Proof.
  intros I P R. split; [apply (step_inv c (k, n) _ I)|].
  pose proof I as [_ HI]. rewrite P in HI. destruct HI as (Pr & D & F & Rp & T).
  unfold step, apply_ev. cbn [fst snd]. unfold running. rewrite P. cbn [negb]. rewrite R. cbn [fst snd].
  unfold advance. cbn [fst snd]. rewrite pc_wset, P.
  assert (Pr' : s_proc (wset k w (WDead x)) = None) by (destruct w; exact Pr).
  assert (D' : any_dead (wset k w (WDead x)) = true).
  { unfold any_dead. destruct w; cbn; rewrite ?orb_true_r; reflexivity. }
  rewrite Pr', D'. unfold leave_wait. cbn [fst snd].
  match goal with |- dead_oe (fst (run_joins c (?k1, ?n1) ?todo None false)) /\ _ =>
    apply (joins_dead c k1 todo None); [ | | right; reflexivity | apply (run_joins_result c todo (k1, n1) None false)] end.
  - unfold dead_oe, any_dead. destruct w; cbn; rewrite ?orb_true_r; reflexivity.
  - cbn. destruct w; cbn; destruct (s_in k); reflexivity.
Qed.

(** up to the first death the main thread keeps waiting; [od]/[ed] = the reader
    has had its EOF *)
Definition Rel (c : cfg) (k : ctl) (od ed : bool) : Prop :=
  s_out k = (if od then WDone else WRun) /\
  s_err k = (if c_pty c then WAbsent else if ed then WDone else WRun) /\
  s_in k = (if c_in c then WRun else WAbsent).

Lemma wait_step_same c k n e :
  Inv c k -> s_pc k = PWait -> fst (apply_ev c (k, n) e) = k -> fst (step c (k, n) e) = k.
Proof.
  intros I P E. unfold step. rewrite E. unfold advance. cbn [fst snd]. rewrite P.
  destruct I as [_ HI]. rewrite P in HI. destruct HI as (Pr & D & _). rewrite Pr, D. reflexivity.
Qed.

Lemma any_dead_wset_done k w : any_dead k = false -> any_dead (wset k w WDone) = false.
Proof.
  unfold any_dead. destruct w; cbn;
    destruct (is_dead (s_out k)), (is_dead (s_in k)), (is_dead (s_err k)); cbn; congruence.
Qed.

Lemma step_eof_wait c k n w :
  Inv c k -> s_pc k = PWait -> w <> WIn ->
  fst (step c (k, n) (EEof w)) = if is_run (wget k w) then wset k w WDone else k.
Proof.
  intros I P Hw. pose proof I as [_ HI]. rewrite P in HI. destruct HI as (Pr & Dd & _).
  unfold step, apply_ev. cbn [fst snd]. unfold running. rewrite P. cbn [negb].
  destruct w; [|elim Hw; reflexivity|];
    (destruct (is_run (wget k _)) eqn:R; cbn [fst snd]; unfold advance; cbn [fst snd];
     rewrite ?pc_wset, P;
     [ replace (s_proc (wset k _ WDone)) with (s_proc k) by reflexivity;
       rewrite Pr, (any_dead_wset_done k _ Dd); reflexivity
     | rewrite Pr, Dd; reflexivity ]).
Qed.

Lemma death_prefix c w x : forall script k n od ed,
  Inv c k -> s_pc k = PWait -> Rel c k od ed ->
  death_from c od ed script = Some (w, x) ->
  DeadInv c (fst (run_events c (k, n) script)).
Proof.
  induction script as [|e r IH]; intros k n od ed I P (Ro & Re & Ri) Dth; [discriminate|].
  change (run_events c (k, n) (e :: r)) with (run_events c (step c (k, n) e) r).
  cbn [death_from] in Dth.
  destruct (is_end c e) eqn:EE; [discriminate|].
  pose proof I as [_ HI]. rewrite P in HI. destruct HI as (Pr & Dd & F & Rp & T).
  assert (Keep : forall od' ed', fst (step c (k, n) e) = k -> Rel c k od' ed' ->
                 death_from c od' ed' r = Some (w, x) ->
                 DeadInv c (fst (run_events c (step c (k, n) e) r))).
  { intros od' ed' E R' D'. destruct (step c (k, n) e) as [k2 n2] eqn:S2. cbn [fst] in E. subst k2.
    apply (IH k n2 od' ed'); auto. }
  destruct e as [w0|w0|code|code| |w0 x0|]; try discriminate EE.
  - (* a read *)
    apply (Keep od ed); [|split; auto|exact Dth].
    apply wait_step_same; auto. unfold apply_ev. cbn [fst snd]. unfold running. rewrite P. cbn.
    destruct w0; try reflexivity; destruct (is_run _); reflexivity.
  - (* EOF *)
    destruct w0.
    + pose proof (step_eof_wait c k n WOut I P ltac:(discriminate)) as S2.
      set (s2 := step c (k, n) (EEof WOut)) in *. rewrite (surjective_pairing s2).
      apply (IH (fst s2) (snd s2) true ed); auto.
      * apply (step_inv c (k, n) _ I).
      * rewrite S2. destruct (is_run (wget k WOut)); [rewrite pc_wset|]; exact P.
      * rewrite S2. cbn [wget]. rewrite Ro. destruct od; cbn; repeat split; auto.
    + apply (Keep od ed); [|split; auto|exact Dth].
      apply wait_step_same; auto. unfold apply_ev. cbn [fst snd]. unfold running. rewrite P. reflexivity.
    + pose proof (step_eof_wait c k n WErr I P ltac:(discriminate)) as S2.
      set (s2 := step c (k, n) (EEof WErr)) in *. rewrite (surjective_pairing s2).
      apply (IH (fst s2) (snd s2) od true); auto.
      * apply (step_inv c (k, n) _ I).
      * rewrite S2. destruct (is_run (wget k WErr)); [rewrite pc_wset|]; exact P.
      * rewrite S2. cbn [wget]. unfold Rel. destruct (c_pty c) eqn:CP.
        -- rewrite Re. cbn. rewrite Re. repeat split; auto.
        -- rewrite Re. destruct ed; cbn; rewrite ?Re; repeat split; auto.
  - (* a timer without a timeout in effect *)
    cbn in EE. apply (Keep od ed); [|split; auto|exact Dth].
    apply wait_step_same; auto. unfold apply_ev. cbn [fst snd]. unfold running. rewrite P. cbn.
    rewrite T, EE. reflexivity.
  - (* a death *)
    destruct (worker_exists c w0 && negb (match w0 with WOut => od | WErr => ed | WIn => false end)) eqn:G.
    + inversion Dth; subst w0 x0.
      apply run_events_deadinv. apply death_step; auto.
      apply andb_true_iff in G. destruct G as [G1 G2]. apply negb_true_iff in G2.
      destruct w; cbn in *.
      * rewrite Ro, G2. reflexivity.
      * rewrite Ri, G1. reflexivity.
      * rewrite Re. apply negb_true_iff in G1. rewrite G1, G2. reflexivity.
    + apply (Keep od ed); [|split; auto|exact Dth].
      apply wait_step_same; auto. unfold apply_ev. cbn [fst snd]. unfold running. rewrite P. cbn [negb].
      assert (NR : is_run (wget k w0) = false).
      { apply andb_false_iff in G. destruct w0; cbn in *.
        - destruct G as [G|G]; [discriminate|]. apply negb_false_iff in G. rewrite Ro, G. reflexivity.
        - destruct G as [G|G]; [|discriminate]. rewrite Ri, G. reflexivity.
        - rewrite Re. destruct G as [G|G].
          + apply negb_false_iff in G. rewrite G. reflexivity.
          + apply negb_false_iff in G. rewrite G. destruct (c_pty c); reflexivity. }
      rewrite NR. reflexivity.
  - (* interrupt *)
    apply (Keep od ed); [|split; auto|exact Dth].
    apply wait_step_same; auto. unfold apply_ev. cbn [fst snd]. unfold running. rewrite P. cbn.
    reflexivity.
Qed.

(** only [expire] (after the script) counts expired joins *)
Lemma leave_wait_expired c s ec : n_expired (snd (leave_wait c s ec)) = n_expired (snd s).
Proof.
  unfold leave_wait.
  match goal with |- n_expired (snd (run_joins c ?a ?b None ec)) = _ =>
    destruct (run_joins_kills c b a None ec) as [_ B]; rewrite B end.
  reflexivity.
Qed.

Lemma advance_expired c s : n_expired (snd (advance c s)) = n_expired (snd s).
Proof.
  unfold advance. destruct (s_pc (fst s)).
  - destruct (s_proc (fst s)); [rewrite leave_wait_expired; reflexivity|].
    destruct (any_dead (fst s)); [apply leave_wait_expired | reflexivity].
  - apply run_joins_kills.
  - reflexivity.
  - reflexivity.
Qed.

Lemma apply_ev_expired c s e : n_expired (snd (apply_ev c s e)) = n_expired (snd s).
Proof.
  unfold apply_ev. destruct (negb (running (fst s))); [reflexivity|].
  destruct e as [w|w|code|code| |w x|];
  repeat match goal with
  | |- context [match ?w with WOut => _ | WIn => _ | WErr => _ end] => is_var w; destruct w
  | |- context [if is_run ?x then _ else _] => destruct (is_run x)
  | |- context [match s_proc (fst s) with _ => _ end] => destruct (s_proc (fst s))
  | |- context [match s_timer (fst s) with _ => _ end] => destruct (s_timer (fst s))
  | |- context [match s_pc (fst s) with _ => _ end] => destruct (s_pc (fst s))
  end; try reflexivity; rewrite leave_wait_expired; reflexivity.
Qed.

Lemma step_expired c s e : n_expired (snd (step c s e)) = n_expired (snd s).
Proof. unfold step. rewrite advance_expired. cbn [snd]. apply apply_ev_expired. Qed.

Lemma run_events_expired c : forall script s, n_expired (snd (run_events c s script)) = n_expired (snd s).
Proof.
  induction script as [|e r IH]; intros s; [reflexivity|].
  change (run_events c s (e :: r)) with (run_events c (step c s e) r). rewrite IH. apply step_expired.
Qed.

Lemma drain_eof_dead c k : dead_oe k -> dead_oe (drain_eof c k).
Proof.
  unfold dead_oe. intros D. apply any_dead_iff in D. destruct D as [w D]. apply any_dead_iff. exists w.
  unfold drain_eof.
  destruct (is_run (s_out k) && negb (c_hold_out c)) eqn:A; cbn;
    match goal with |- context [if ?b then _ else _] => destruct b eqn:B end;
    destruct w; cbn in *; try exact D.
  - apply andb_true_iff in A. destruct A as [A _]. destruct (s_out k); discriminate.
  - apply andb_true_iff in B. destruct B as [B _]. destruct (s_err k); discriminate.
  - apply andb_true_iff in A. destruct A as [A _]. destruct (s_out k); discriminate.
  - apply andb_true_iff in B. destruct B as [B _]. destruct (s_err k); discriminate.
Qed.

(** one expiry of a bounded join in a state where some worker is dead: the outcome
    is settled, or the main thread is blocked again -- in a bounded join of a
    worker further down the list *)
Lemma expire_dead c k n u rest :
  dead_oe k -> is_run (s_in k) = false -> s_pc k = PJoin (u :: rest) (Some true) false ->
  n_expired (snd (expire c (k, n))) = S (n_expired n) /\
  ((exists o, s_pc (fst (expire c (k, n))) = PDone o /\ is_failure_report o = true) \/
   (exists pre u2 rest2, rest = pre ++ u2 :: rest2 /\ is_run (wget k u2) = true /\
      fst (expire c (k, n)) = set_pc k (PJoin (u2 :: rest2) (Some true) false))).
Proof.
  intros D Rin P. unfold expire. cbn [fst snd]. rewrite P.
  destruct (run_joins_kills c rest (k, add_steps 1 (add_expired n)) None false) as [_ XE].
  pose proof (run_joins_result c rest (k, add_steps 1 (add_expired n)) None false) as J.
  set (r := run_joins c (k, add_steps 1 (add_expired n)) rest None false) in *.
  cbn [fst snd] in XE, J. split; [rewrite XE; reflexivity|].
  destruct (joins_dead c k rest None (fst r) D Rin (or_intror eq_refl) J) as [_ Pr].
  inversion J as [Hall Heq | pre u2 rest2 Htodo Hpre Hrun Heq].
  - left. eexists. split; [try rewrite <- Heq; reflexivity | apply decide_dead; exact D].
  - right. exists pre, u2, rest2. split; [exact Htodo|]. split; [exact Hrun|].
    unfold DeadPc in Pr. try rewrite <- Heq in Pr. cbn in Pr. destruct Pr as [_ Ec].
    try rewrite <- Heq. unfold set_pc. cbn. rewrite Ec. reflexivity.
Qed.

Theorem dead_worker_bounded c script w x :
  start_raises c = false -> death_while_running c script = Some (w, x) ->
  exists o, s_pc (fst (run_sm c script)) = PDone o /\ is_failure_report o = true /\
            n_expired (snd (run_sm c script)) <= 2.
Proof.
  intros S Dth. unfold run_sm.
  assert (E0 : advance c (init c) = init c).
  { unfold advance, init. rewrite S. cbn. destruct (c_in c), (c_pty c); reflexivity. }
  rewrite E0.
  assert (I0 : Inv c (fst (init c))) by (rewrite <- E0; apply init_inv; exact S).
  assert (X0 : n_expired (snd (init c)) = 0) by (unfold init; rewrite S; reflexivity).
  assert (DI : DeadInv c (fst (run_events c (init c) script))).
  { rewrite (surjective_pairing (init c)).
    apply (death_prefix c w x script (fst (init c)) (snd (init c)) false false); auto.
    - unfold init. rewrite S. reflexivity.
    - unfold init, Rel. rewrite S. cbn. auto. }
  pose proof (run_events_expired c script (init c)) as X1. rewrite X0 in X1.
  set (s1 := run_events c (init c) script) in *. clearbody s1.
  destruct s1 as [k n]. cbn [fst snd] in *.
  destruct DI as (I & D & Pc). unfold DeadPc in Pc. unfold drain. cbn [fst snd].
  destruct (s_pc k) as [|todo cur ec|o|] eqn:P; try (elim Pc).
  2:{ unfold running. rewrite P. cbn [negb]. exists o. cbn [fst snd]. rewrite X1. auto. }
  destruct Pc as [-> ->]. unfold running. rewrite P. cbn [negb].
  pose proof I as [_ HI]. rewrite P in HI. destruct HI as (Fl & N & Sub & _).
  assert (Rin : is_run (s_in k) = false) by (apply (in_not_running c k I); rewrite P; discriminate).
  destruct (drain_eof_fields c k) as (Epc & Efl & Ein & _).
  set (k' := drain_eof c k) in *.
  assert (D' : dead_oe k') by (apply drain_eof_dead; exact D).
  assert (Rin' : is_run (s_in k') = false) by (rewrite Ein; exact Rin).
  unfold advance. cbn [fst snd]. rewrite Epc, P. cbv beta iota.
  pose proof (run_joins_result c todo (k', n) (Some true) false) as J.
  destruct (run_joins_kills c todo (k', n) (Some true) false) as [_ XJ].
  set (r := run_joins c (k', n) todo (Some true) false) in *.
  destruct (joins_dead c k' todo (Some true) (fst r) D' Rin' (or_introl eq_refl) J) as [Dr Pr].
  cbn [fst snd] in XJ.
  inversion J as [Hall Heq | pre u rest Htodo Hpre Hrun Heq].
  - (* everything has finished *)
    assert (Pd : s_pc (fst r) = PDone (decide c k' false)) by (rewrite <- Heq; reflexivity).
    rewrite (expire_done c r _ Pd), (expire_done c r _ Pd).
    eexists. split; [exact Pd|]. split; [apply decide_dead; exact D'|]. rewrite XJ, X1. lia.
  - (* a reader is held open: its 1 s join expires; at most one more can follow *)
    unfold DeadPc in Pr. rewrite <- Heq in Pr. cbn in Pr. destruct Pr as [_ Ecur].
    assert (Er : fst r = set_pc k' (PJoin (u :: rest) (Some true) false)).
    { rewrite <- Heq. unfold set_pc. cbn. rewrite Ecur. reflexivity. }
    set (k1 := fst r) in *.
    assert (D1 : dead_oe k1) by (rewrite Er; exact D').
    assert (R1 : is_run (s_in k1) = false) by (rewrite Er; exact Rin').
    assert (P1 : s_pc k1 = PJoin (u :: rest) (Some true) false) by (rewrite Er; reflexivity).
    rewrite (surjective_pairing r). fold k1.
    destruct (expire_dead c k1 (snd r) u rest D1 R1 P1) as [X2 [[o [Po Fo]]|(pre2 & u2 & rest2 & Hr & Hrun2 & E2)]].
    + set (r2 := expire c (k1, snd r)) in *. rewrite (expire_done c r2 _ Po).
      exists o. split; [exact Po|]. split; [exact Fo|]. rewrite X2, XJ, X1. lia.
    + set (r2 := expire c (k1, snd r)) in *.
      assert (D2 : dead_oe (fst r2)) by (rewrite E2; exact D1).
      assert (R2 : is_run (s_in (fst r2)) = false) by (rewrite E2; exact R1).
      assert (P2 : s_pc (fst r2) = PJoin (u2 :: rest2) (Some true) false) by (rewrite E2; reflexivity).
      rewrite (surjective_pairing r2).
      destruct (expire_dead c (fst r2) (snd r2) u2 rest2 D2 R2 P2) as [X3 [[o [Po Fo]]|(pre3 & u3 & rest3 & Hr3 & Hrun3 & _)]].
      * exists o. split; [exact Po|]. split; [exact Fo|]. rewrite X3, X2, XJ, X1. lia.
      * (* a third running worker below two distinct running out/err workers: impossible *)
        exfalso.
        assert (Nd : NoDup (u :: pre2 ++ u2 :: pre3 ++ u3 :: rest3)).
        { rewrite Htodo in N. apply NoDup_suffix in N. rewrite Hr, Hr3 in N. exact N. }
        assert (Ru : is_run (wget k' u) = true) by exact Hrun.
        assert (Ru2 : is_run (wget k' u2) = true) by (rewrite Er in Hrun2; rewrite wget_set_pc in Hrun2; exact Hrun2).
        assert (Ru3 : is_run (wget k' u3) = true).
        { rewrite E2 in Hrun3. rewrite wget_set_pc in Hrun3. rewrite Er in Hrun3. rewrite wget_set_pc in Hrun3. exact Hrun3. }
        assert (Ne12 : u <> u2).
        { intros ->. inversion Nd as [|? ? Hn _]; subst. apply Hn. apply in_or_app. right. left. reflexivity. }
        assert (Ne13 : u <> u3).
        { intros ->. inversion Nd as [|? ? Hn _]; subst. apply Hn. apply in_or_app. right. right.
          apply in_or_app. right. left. reflexivity. }
        assert (Ne23 : u2 <> u3).
        { intros ->. inversion Nd as [|? ? _ Nd2]; subst. apply NoDup_suffix in Nd2.
          inversion Nd2 as [|? ? Hn _]; subst. apply Hn. apply in_or_app. right. left. reflexivity. }
        destruct u, u2, u3; cbn in Ru, Ru2, Ru3; try congruence; rewrite Rin' in *; discriminate.
Qed.

(** the F-C08c witness (the stdin worker dies, the command goes on holding its
    pipes), as the machine behaves since the fix: two bounded joins expire *)
Lemma stdin_death_witness :
  let c := mkCfg false true false false false false true true in
  death_while_running c [EExc WIn XOther] = Some (WIn, XOther) /\
  s_pc (fst (run_sm c [EExc WIn XOther])) = PDone OThreadException /\
  n_expired (snd (run_sm c [EExc WIn XOther])) = 2.
Proof. vm_compute. auto. Qed.

(** historical record (F-C08c, fixed): the old rule gave the stdout join no timeout
    although the stdin worker was dead *)
Lemma join_timeout_historical_refuted :
  exists k, is_dead (s_in k) = true /\ is_run (s_out k) = true /\
            join_bounded_legacy k WOut = false /\ join_bounded k WOut = true.
Proof.
  exists (mkCtl None false WRun (WDead XOther) WRun true TNone (PJoin [WOut; WIn; WErr] None false)).
  cbn. auto.
Qed.


Lemma invariant_holds c script :
  start_raises c = false -> Inv c (fst (run_events c (advance c (init c)) script)).
Proof. intros S. apply run_events_inv. apply init_inv. exact S. Qed.

(** F-C08d: a worker died, so nobody polls the child any more *)
Lemma reaped_refuted :
  exists c script, start_raises c = false /\ fair c = true /\ process_ends c script = true /\
    s_reaped (fst (run_sm c script)) = false.
Proof.
  exists (mkCfg true false false false false false false false), [EExc WOut XOther; EExit 0%Z].
  vm_compute. auto.
Qed.

(** F-C08b: interrupt right after the reaping poll, under a pty *)
Lemma outcome_documented_refuted :
  exists c script, start_raises c = false /\ fair c = true /\ process_ends c script = true /\
    s_pc (fst (run_sm c script)) = PDone OChildProcessError.
Proof.
  exists (mkCfg true false false false false false false false), [EExitKbd 0%Z].
  vm_compute. auto.
Qed.

(** * The child is reaped -- unless a worker died first (F-C08d) *)

Definition no_exc_ev (e : ev) : bool := match e with EExc _ _ => false | _ => true end.

Lemma run_joins_fields c todo s cur ec :
  let r := fst (run_joins c s todo cur ec) in
  s_reaped r = s_reaped (fst s) /\ any_dead r = any_dead (fst s) /\ s_proc r = s_proc (fst s).
Proof.
  pose proof (run_joins_result c todo s cur ec) as J.
  remember (fst (run_joins c s todo cur ec)) as r eqn:Er. clear Er.
  inversion J; subst r; cbn; auto.
Qed.

Lemma leave_wait_fields c s ec :
  let r := fst (leave_wait c s ec) in
  s_reaped r = s_reaped (fst s) /\ (any_dead (fst s) = false -> any_dead r = false).
Proof.
  unfold leave_wait.
  match goal with |- context [run_joins c ?a ?b None ec] =>
    destruct (run_joins_fields c b a None ec) as (A & B & _) end.
  cbn [fst] in *. split; [rewrite A; reflexivity|].
  intros D. rewrite B. unfold any_dead in *. cbn.
  destruct (s_out (fst s)), (s_in (fst s)), (s_err (fst s)); cbn in *; congruence.
Qed.

Lemma apply_ev_noexc c k n e :
  no_exc_ev e = true -> any_dead k = false ->
  any_dead (fst (apply_ev c (k, n) e)) = false /\
  (s_reaped k = true -> s_reaped (fst (apply_ev c (k, n) e)) = true) /\
  (s_pc k = PWait -> s_pc (fst (apply_ev c (k, n) e)) <> PWait -> s_reaped (fst (apply_ev c (k, n) e)) = true).
Proof.
  intros Sc D. unfold apply_ev. cbn [fst snd]. destruct (negb (running k)); [repeat split; auto; congruence|].
  destruct e as [w|w|code|code| |w x|]; try discriminate Sc; cbn [fst];
  repeat match goal with
  | |- context [match ?w with WOut => _ | WIn => _ | WErr => _ end] => is_var w; destruct w
  | |- context [if is_run ?x then _ else _] => destruct (is_run x)
  | |- context [match s_proc k with _ => _ end] => destruct (s_proc k)
  | |- context [match s_timer k with _ => _ end] => destruct (s_timer k)
  | |- context [match s_pc k with _ => _ end] => destruct (s_pc k) eqn:?
  end; cbn [fst];
  try (repeat split; auto; try (apply any_dead_wset_done; exact D); intros; congruence);
  try (match goal with |- context [leave_wait c ?s0 ?ec] =>
         destruct (leave_wait_fields c s0 ec) as (A & B) end; cbn [fst] in *;
       repeat split; [apply B; exact D | intros; rewrite A; reflexivity | intros; rewrite A; reflexivity]);
  try (repeat split; auto; intros; try congruence; cbn in *; congruence).
Qed.

Definition RInv (k : ctl) : Prop := any_dead k = false /\ (s_pc k <> PWait -> s_reaped k = true).

Lemma rinv_step c k n e : no_exc_ev e = true -> RInv k -> RInv (fst (step c (k, n) e)).
Proof.
  intros Sc (D & R). destruct (apply_ev_noexc c k n e Sc D) as (D' & Mono & OnLeave).
  unfold step. set (k' := fst (apply_ev c (k, n) e)) in *.
  assert (R' : s_pc k' <> PWait -> s_reaped k' = true).
  { intros H. destruct (s_pc k) eqn:P.
    - apply OnLeave; auto.
    - apply Mono. apply R. discriminate.
    - apply Mono. apply R. discriminate.
    - apply Mono. apply R. discriminate. }
  unfold advance. cbn [fst snd]. destruct (s_pc k') as [|todo cur ec|o|] eqn:P'.
  - destruct (s_proc k') eqn:Pr.
    + match goal with |- RInv (fst (leave_wait c ?s0 false)) =>
        destruct (leave_wait_fields c s0 false) as (A & B) end. cbn [fst] in *.
      split; [apply B; exact D' | intros _; rewrite A; reflexivity].
    + rewrite D'. cbn [fst]. split; [exact D' | intros H; elim H; exact P'].
  - match goal with |- RInv (fst (run_joins c ?s0 todo cur ec)) =>
      destruct (run_joins_fields c todo s0 cur ec) as (A & B & _) end. cbn [fst] in *.
    split; [rewrite B; exact D' | intros _; rewrite A; apply R'; discriminate].
  - cbn [fst]. split; [exact D' | intros _; first [apply R'; discriminate | apply R'; rewrite P'; discriminate]].
  - cbn [fst]. split; [exact D' | intros _; first [apply R'; discriminate | apply R'; rewrite P'; discriminate]].
Qed.

Lemma run_events_rinv c : forall script s,
  forallb no_exc_ev script = true -> RInv (fst s) -> RInv (fst (run_events c s script)).
Proof.
  induction script as [|e r IH]; intros s Sc H; [exact H|].
  change (run_events c s (e :: r)) with (run_events c (step c s e) r).
  cbn [forallb] in Sc. apply andb_true_iff in Sc. destruct Sc as [Se Sr].
  apply IH; auto. rewrite (surjective_pairing s). apply rinv_step; auto.
Qed.

Lemma drain_reaped c s : s_reaped (fst s) = true -> s_reaped (fst (drain c s)) = true.
Proof.
  intros H. unfold drain. destruct (negb (running (fst s))); [exact H|].
  assert (X : forall t, s_reaped (fst (expire c t)) = s_reaped (fst t)).
  { intros t. unfold expire. destruct (s_pc (fst t)) as [|[|w rest] [[|]|] ec|o|]; try reflexivity.
    destruct (run_joins_fields c rest (fst t, add_steps 1 (add_expired (snd t))) None ec) as (A & _).
    exact A. }
  rewrite !X. unfold advance. cbn [fst snd].
  destruct (drain_eof_fields c (fst s)) as (_ & _ & _ & _ & _ & Er).
  destruct (s_pc (drain_eof c (fst s))).
  - destruct (s_proc (drain_eof c (fst s))).
    + destruct (leave_wait_fields c (set_reaped (drain_eof c (fst s)), snd s) false) as (A & _).
      cbn [fst] in A. rewrite A. reflexivity.
    + destruct (any_dead (drain_eof c (fst s))).
      * destruct (leave_wait_fields c (drain_eof c (fst s), snd s) false) as (A & _).
        cbn [fst] in A. rewrite A, Er. exact H.
      * cbn [fst]. rewrite Er. exact H.
  - destruct (run_joins_fields c todo (drain_eof c (fst s), snd s) cur echild) as (A & _).
    cbn [fst] in A. rewrite A, Er. exact H.
  - cbn [fst]. rewrite Er. exact H.
  - cbn [fst]. rewrite Er. exact H.
Qed.

Definition no_exc (script : list ev) : bool := forallb no_exc_ev script.

(** no worker is made to fail: the child has been reaped when run() is over *)
Theorem reaped_partial c script :
  start_raises c = false -> no_exc script = true -> process_ends c script = true ->
  s_reaped (fst (run_sm c script)) = true.
Proof.
  intros S X E. unfold run_sm. apply drain_reaped.
  set (s0 := advance c (init c)).
  assert (I0 : Inv c (fst s0)) by (apply init_inv; exact S).
  assert (R0 : RInv (fst s0)).
  { unfold s0, advance, init. rewrite S. cbn. destruct (c_in c), (c_pty c); cbn; split; auto; intros H; elim H; reflexivity. }
  pose proof (run_events_rinv c script s0 X R0) as (_ & R1).
  apply R1. apply run_events_ends; assumption.
Qed.
