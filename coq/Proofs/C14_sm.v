(** C14 on the RunnerSM state machine. *)
From InvokeVerif Require Import Model.RunnerSM Spec.C08Spec Spec.C14Spec Proofs.RunnerSM_facts Proofs.C08_sm.
From Coq Require Import Lia.

(** events the statement is about: no worker is made to fail, no interrupt *)
Definition in_scope_ev (e : ev) : bool :=
  match e with EExc _ _ | EKbd | EExitKbd _ => false | _ => true end.

Lemma in_scope_forall script :
  has_exc script = false -> has_kbd script = false -> forallb in_scope_ev script = true.
Proof.
  induction script as [|e r IH]; intros X K; [reflexivity|].
  unfold has_exc, has_kbd in *. cbn [existsb forallb] in *.
  apply orb_false_iff in X. apply orb_false_iff in K. destruct X as [X1 X2], K as [K1 K2].
  rewrite (IH X2 K2), andb_true_r. destruct e; try reflexivity; discriminate.
Qed.

Lemma any_dead_k_false k x : any_dead k = false -> any_dead_k x k = false.
Proof.
  unfold any_dead, any_dead_k. intros H.
  destruct (s_out k) as [| | |[|]], (s_in k) as [| | |[|]], (s_err k) as [| | |[|]];
    try discriminate; destruct x; reflexivity.
Qed.

Lemma decide_timedout c k :
  c_timeout c = true -> any_dead k = false -> s_timer k = TFired -> decide c k false = OTimedOut.
Proof.
  intros T D F. unfold decide. rewrite !any_dead_k_false by exact D. rewrite T, F. reflexivity.
Qed.

Definition normal_outcome (c : cfg) (code : Z) : outcome :=
  if Z.eqb code 0 || c_warn c then OResult else OUnexpectedExit.

Lemma decide_normal c k code :
  any_dead k = false -> s_timer k = (if c_timeout c then TArmed else TNone) -> s_proc k = Some code ->
  decide c k false = normal_outcome c code.
Proof.
  intros D T P. unfold decide, normal_outcome. rewrite !any_dead_k_false by exact D. rewrite T, P.
  destruct (c_timeout c); cbn; destruct code; reflexivity.
Qed.

(** * Effects of in-scope events *)

Lemma apply_ev_calm c k n e :
  in_scope_ev e = true -> any_dead k = false -> any_dead (fst (apply_ev c (k, n) e)) = false.
Proof.
  intros Sc D. unfold apply_ev. cbn [fst snd]. destruct (negb (running k)); [exact D|].
  destruct e as [w|w|code|code| |w x|]; try discriminate Sc; cbn [fst];
  repeat match goal with
  | |- context [match ?w with WOut => _ | WIn => _ | WErr => _ end] => is_var w; destruct w
  | |- context [if is_run ?x then _ else _] => destruct (is_run x)
  | |- context [match s_proc k with _ => _ end] => destruct (s_proc k)
  | |- context [match s_timer k with _ => _ end] => destruct (s_timer k)
  end; cbn [fst]; try exact D; try (apply any_dead_wset_done; exact D).
Qed.

Lemma apply_ev_kills_le c s e : n_kills (snd s) <= n_kills (snd (apply_ev c s e)).
Proof.
  unfold apply_ev. destruct (negb (running (fst s))); [lia|].
  destruct e as [w|w|code|code| |w x|];
  repeat match goal with
  | |- context [match ?w with WOut => _ | WIn => _ | WErr => _ end] => is_var w; destruct w
  | |- context [if is_run ?x then _ else _] => destruct (is_run x)
  | |- context [match s_proc (fst s) with _ => _ end] => destruct (s_proc (fst s))
  | |- context [match s_timer (fst s) with _ => _ end] => destruct (s_timer (fst s))
  | |- context [match s_pc (fst s) with _ => _ end] => destruct (s_pc (fst s))
  end; cbn [snd add_kill add_read add_intr n_kills]; try lia;
  unfold leave_wait;
  match goal with |- _ <= n_kills (snd (run_joins c ?a ?b None ?ec)) =>
    destruct (run_joins_kills c b a None ec) as [A _]; rewrite A end; cbn; lia.
Qed.

Lemma apply_ev_kills_eq c s e :
  e <> ETimer -> n_kills (snd (apply_ev c s e)) = n_kills (snd s).
Proof.
  intros NT. unfold apply_ev. destruct (negb (running (fst s))); [reflexivity|].
  destruct e as [w|w|code|code| |w x|]; try (elim NT; reflexivity);
  repeat match goal with
  | |- context [match ?w with WOut => _ | WIn => _ | WErr => _ end] => is_var w; destruct w
  | |- context [if is_run ?x then _ else _] => destruct (is_run x)
  | |- context [match s_proc (fst s) with _ => _ end] => destruct (s_proc (fst s))
  | |- context [match s_pc (fst s) with _ => _ end] => destruct (s_pc (fst s))
  end; cbn [snd add_kill add_read add_intr n_kills]; try reflexivity;
  unfold leave_wait;
  match goal with |- n_kills (snd (run_joins c ?a ?b None ?ec)) = _ =>
    destruct (run_joins_kills c b a None ec) as [A _]; rewrite A end; reflexivity.
Qed.

Lemma advance_kills c s : n_kills (snd (advance c s)) = n_kills (snd s).
Proof.
  unfold advance. destruct (s_pc (fst s)).
  - destruct (s_proc (fst s)).
    + unfold leave_wait.
      match goal with |- n_kills (snd (run_joins c ?a ?b None ?ec)) = _ =>
        destruct (run_joins_kills c b a None ec) as [A _]; rewrite A end; reflexivity.
    + destruct (any_dead (fst s)); [|reflexivity]. unfold leave_wait.
      match goal with |- n_kills (snd (run_joins c ?a ?b None ?ec)) = _ =>
        destruct (run_joins_kills c b a None ec) as [A _]; rewrite A end; reflexivity.
  - apply run_joins_kills.
  - reflexivity.
  - reflexivity.
Qed.

Lemma step_kills_le c s e : n_kills (snd s) <= n_kills (snd (step c s e)).
Proof. unfold step. rewrite advance_kills. cbn [snd]. apply apply_ev_kills_le. Qed.

Lemma step_kills_eq c s e : e <> ETimer -> n_kills (snd (step c s e)) = n_kills (snd s).
Proof. intros H. unfold step. rewrite advance_kills. cbn [snd]. apply apply_ev_kills_eq. exact H. Qed.

Lemma run_events_kills_le c : forall script s, n_kills (snd s) <= n_kills (snd (run_events c s script)).
Proof.
  induction script as [|e r IH]; intros s; [cbn; lia|].
  change (run_events c s (e :: r)) with (run_events c (step c s e) r).
  pose proof (step_kills_le c s e). specialize (IH (step c s e)). lia.
Qed.

Lemma drain_kills c s : n_kills (snd (drain c s)) = n_kills (snd s).
Proof.
  unfold drain. destruct (negb (running (fst s))); [reflexivity|].
  assert (X : forall t, n_kills (snd (expire c t)) = n_kills (snd t)).
  { intros t. unfold expire. destruct (s_pc (fst t)) as [|[|w rest] [[|]|] ec|o|]; try reflexivity.
    destruct (run_joins_kills c rest (fst t, add_steps 1 (add_expired (snd t))) None ec) as [A _].
    rewrite A. reflexivity. }
  rewrite !X, advance_kills. reflexivity.
Qed.

(** reads and EOFs leave the main thread waiting *)
Definition calm (e : ev) : bool := match e with EChunk _ | EEof _ => true | _ => false end.

Lemma calm_step_wait c k n e :
  Inv c k -> s_pc k = PWait -> calm e = true -> s_pc (fst (step c (k, n) e)) = PWait.
Proof.
  intros I P C. destruct e as [w|w| | | | |]; try discriminate C.
  - rewrite wait_step_same; auto. unfold apply_ev. cbn [fst snd]. unfold running. rewrite P. cbn.
    destruct w; try reflexivity; destruct (is_run _); reflexivity.
  - destruct w.
    + rewrite step_eof_wait by (auto; discriminate). destruct (is_run _); [rewrite pc_wset|]; exact P.
    + rewrite wait_step_same; auto. unfold apply_ev. cbn [fst snd]. unfold running. rewrite P. reflexivity.
    + rewrite step_eof_wait by (auto; discriminate). destruct (is_run _); [rewrite pc_wset|]; exact P.
Qed.

(** * Draining a fair run *)

Lemma drain_fair_join c k n todo cur ec :
  Inv c k -> s_pc k = PJoin todo cur ec -> fair c = true ->
  fst (drain c (k, n)) = ctl_done c (drain_eof c k) ec.
Proof.
  intros I P F. unfold drain. cbn [fst snd]. unfold running. rewrite P. cbn [negb].
  assert (Rin : is_run (s_in k) = false) by (apply (in_not_running c k I); rewrite P; discriminate).
  destruct (drain_eof_fields c k) as (Epc & _).
  unfold advance. cbn [fst snd]. rewrite Epc, P. cbv beta iota.
  destruct (run_joins_all_done c todo (drain_eof c k, n) cur ec) as [A _].
  { intros w _. cbn [fst]. apply drain_eof_fair; assumption. }
  cbn [fst] in A.
  set (r := run_joins c (drain_eof c k, n) todo cur ec) in *.
  assert (Pr : s_pc (fst r) = PDone (decide c (drain_eof c k) ec)) by (rewrite A; reflexivity).
  rewrite (expire_done c r _ Pr), (expire_done c r _ Pr). exact A.
Qed.

Lemma drain_done c k n o : s_pc k = PDone o -> drain c (k, n) = (k, n).
Proof. intros P. unfold drain. cbn [fst]. unfold running. rewrite P. reflexivity. Qed.

Lemma drain_eof_any_dead c k : any_dead (drain_eof c k) = any_dead k.
Proof.
  unfold drain_eof, any_dead.
  destruct (is_run (s_out k) && negb (c_hold_out c)) eqn:A; cbn;
    match goal with |- context [if ?b then _ else _] => destruct b eqn:B end; cbn; try reflexivity.
  - apply andb_true_iff in A. destruct A as [A _]. cbn in B. apply andb_true_iff in B. destruct B as [B _].
    destruct (s_out k), (s_err k); try discriminate; reflexivity.
  - apply andb_true_iff in A. destruct A as [A _]. destruct (s_out k); try discriminate; reflexivity.
  - apply andb_true_iff in B. destruct B as [B _]. destruct (s_err k); try discriminate.
    rewrite !orb_false_r. reflexivity.
Qed.

(** * After the main thread has left the wait loop *)

Definition PostPc (good : outcome) (k : ctl) : Prop :=
  match s_pc k with PJoin _ _ ec => ec = false | PDone o => o = good | _ => False end.

Lemma apply_ev_join_fields c k n e todo cur ec :
  s_pc k = PJoin todo cur ec -> in_scope_ev e = true ->
  let k' := fst (apply_ev c (k, n) e) in
  (s_timer k <> TArmed \/ e <> ETimer -> s_timer k' = s_timer k) /\
  (forall code, s_proc k = Some code -> s_proc k' = Some code).
Proof.
  intros P Sc. unfold apply_ev. cbn [fst snd]. unfold running. rewrite P. cbn [negb].
  destruct e as [w|w|code|code| |w x|]; try discriminate Sc; cbn [fst];
  repeat match goal with
  | |- context [match ?w with WOut => _ | WIn => _ | WErr => _ end] => is_var w; destruct w
  | |- context [if is_run ?x then _ else _] => destruct (is_run x)
  | |- context [match s_proc k with _ => _ end] => destruct (s_proc k) eqn:?
  | |- context [match s_timer k with _ => _ end] => destruct (s_timer k) eqn:?
  end; cbn [fst]; split; try (intros; reflexivity); try (intros; assumption);
  try (intros code0 H; discriminate H);
  try (intros [H|H]; [elim H; reflexivity | elim H; reflexivity]);
  try (intros code0 H; cbn; exact H); try (intros code0 H; cbn; congruence).
Qed.

Definition TOInv (c : cfg) (k : ctl) : Prop :=
  Inv c k /\ any_dead k = false /\ s_timer k = TFired /\ PostPc OTimedOut k.

Lemma joins_post c k todo cur r good :
  decide c k false = good -> joins_result c k todo cur false r ->
  PostPc good r /\ any_dead r = any_dead k /\ s_proc r = s_proc k /\
  (s_pc r = PDone good /\ s_timer r = match s_timer k with TArmed => TCancelled | t => t end \/
   (exists t u b, s_pc r = PJoin t u b) /\ s_timer r = s_timer k).
Proof.
  intros G J. subst good. inversion J as [Hall Heq | pre w rest Htodo Hpre Hrun Heq]; subst r.
  - unfold PostPc. cbn [ctl_done s_pc s_proc s_timer any_dead s_out s_in s_err]. repeat split; auto.
  - unfold PostPc. cbn [set_pc s_pc s_proc s_timer any_dead s_out s_in s_err]. repeat split; auto.
    right. split; [eauto | reflexivity].
Qed.

Lemma toinv_step c k n e :
  c_timeout c = true -> in_scope_ev e = true -> TOInv c k -> TOInv c (fst (step c (k, n) e)).
Proof.
  intros CT Sc (I & D & T & Pc). split; [apply (step_inv c (k, n) e I)|].
  unfold PostPc in Pc. unfold step.
  destruct (s_pc k) as [|todo cur ec|o|] eqn:P; try (elim Pc).
  - subst ec. destruct (apply_ev_join c k n e todo cur false P) as (P' & _).
    destruct (apply_ev_join_fields c k n e todo cur false P Sc) as (Tm & _).
    pose proof (apply_ev_calm c k n e Sc D) as D'.
    assert (T' : s_timer (fst (apply_ev c (k, n) e)) = TFired).
    { rewrite Tm; [exact T | left; rewrite T; discriminate]. }
    unfold advance. cbn [fst snd]. rewrite P'. cbv beta iota.
    match goal with |- context [run_joins c ?s0 todo cur false] =>
      pose proof (run_joins_result c todo s0 cur false) as J;
      destruct (joins_post c (fst s0) todo cur _ OTimedOut (decide_timedout c _ CT D' T') J)
        as (Pp & Dd & _ & Tt) end.
    cbn [fst] in *. split; [rewrite Dd; exact D'|]. split; [|exact Pp].
    destruct Tt as [[_ Tt]|[_ Tt]]; rewrite Tt, T'; reflexivity.
  - rewrite apply_ev_over by (unfold running; cbn; rewrite P; reflexivity).
    unfold advance. cbn [fst]. rewrite P. cbn [fst]. repeat split; auto. unfold PostPc. rewrite P.
    first [exact Pc | reflexivity].
Qed.

Lemma run_events_toinv c : forall script k n,
  c_timeout c = true -> forallb in_scope_ev script = true -> TOInv c k ->
  TOInv c (fst (run_events c (k, n) script)).
Proof.
  induction script as [|e r IH]; intros k n CT Sc H; [exact H|].
  change (run_events c (k, n) (e :: r)) with (run_events c (step c (k, n) e) r).
  cbn [forallb] in Sc. apply andb_true_iff in Sc. destruct Sc as [Se Sr].
  rewrite (surjective_pairing (step c (k, n) e)). apply IH; auto. apply toinv_step; auto.
Qed.

(** the expiry itself, while the main thread waits *)
Lemma timer_step c k n :
  Inv c k -> s_pc k = PWait -> c_timeout c = true ->
  TOInv c (fst (step c (k, n) ETimer)) /\ n_kills (snd (step c (k, n) ETimer)) = S (n_kills n).
Proof.
  intros I P CT. pose proof I as [_ HI]. rewrite P in HI. destruct HI as (Pr & D & F & Rp & T).
  rewrite CT in T.
  split.
  - split; [apply (step_inv c (k, n) _ I)|].
    unfold step, apply_ev. cbn [fst snd]. unfold running. rewrite P. cbn [negb]. rewrite T, Pr. cbn [fst snd].
    unfold advance. cbn [fst snd set_timer set_proc s_pc s_proc]. rewrite P.
    unfold leave_wait. cbn [fst snd].
    match goal with |- context [run_joins c (?k1, ?n1) ?todo None false] =>
      pose proof (run_joins_result c todo (k1, n1) None false) as J;
      assert (D1 : any_dead k1 = false) by
        (unfold any_dead in *; cbn; destruct (s_out k), (s_in k), (s_err k); cbn in *; congruence);
      assert (T1 : s_timer k1 = TFired) by reflexivity;
      destruct (joins_post c k1 todo None _ OTimedOut (decide_timedout c k1 CT D1 T1) J)
        as (Pp & Dd & _ & Tt) end.
    cbn [fst] in *. split; [rewrite Dd; exact D1|]. split; [|exact Pp].
    destruct Tt as [[_ Tt]|[_ Tt]]; rewrite Tt; reflexivity.
  - unfold step. rewrite advance_kills. cbn [snd]. unfold apply_ev. cbn [fst snd]. unfold running.
    rewrite P. cbn [negb]. rewrite T, Pr. reflexivity.
Qed.

Lemma expiry_prefix c : forall script k n,
  c_timeout c = true -> Inv c k -> s_pc k = PWait -> forallb in_scope_ev script = true ->
  first_of script = ExpiredWhileRunning ->
  TOInv c (fst (run_events c (k, n) script)) /\ 1 <= n_kills (snd (run_events c (k, n) script)).
Proof.
  induction script as [|e r IH]; intros k n CT I P Sc Fo; [discriminate|].
  change (run_events c (k, n) (e :: r)) with (run_events c (step c (k, n) e) r).
  cbn [forallb] in Sc. apply andb_true_iff in Sc. destruct Sc as [Se Sr].
  destruct e as [w|w|code|code| |w x|]; try discriminate Se; try discriminate Fo.
  - rewrite (surjective_pairing (step c (k, n) (EChunk w))).
    apply IH; auto; [apply (step_inv c (k, n) _ I) | apply calm_step_wait; auto].
  - rewrite (surjective_pairing (step c (k, n) (EEof w))).
    apply IH; auto; [apply (step_inv c (k, n) _ I) | apply calm_step_wait; auto].
  - destruct (timer_step c k n I P CT) as [TI K].
    split.
    + rewrite (surjective_pairing (step c (k, n) ETimer)). apply run_events_toinv; auto.
    + pose proof (run_events_kills_le c r (step c (k, n) ETimer)). lia.
Qed.

Theorem timeout_kills_and_reports c script :
  start_raises c = false -> c_timeout c = true -> fair c = true ->
  has_exc script = false -> has_kbd script = false -> first_of script = ExpiredWhileRunning ->
  s_pc (fst (run_sm c script)) = PDone OTimedOut /\ 1 <= n_kills (snd (run_sm c script)).
Proof.
  intros S CT F X K Fo. unfold run_sm.
  assert (E0 : advance c (init c) = init c).
  { unfold advance, init. rewrite S. cbn. destruct (c_in c), (c_pty c); reflexivity. }
  rewrite E0.
  assert (I0 : Inv c (fst (init c))) by (rewrite <- E0; apply init_inv; exact S).
  assert (P0 : s_pc (fst (init c)) = PWait) by (unfold init; rewrite S; reflexivity).
  rewrite (surjective_pairing (init c)).
  destruct (expiry_prefix c script (fst (init c)) (snd (init c)) CT I0 P0 (in_scope_forall script X K) Fo)
    as [(I & D & T & Pc) Kl].
  set (s1 := run_events c (fst (init c), snd (init c)) script) in *. clearbody s1.
  split; [|rewrite drain_kills; exact Kl].
  destruct s1 as [k n]. cbn [fst snd] in *. unfold PostPc in Pc.
  destruct (s_pc k) as [|todo cur ec|o|] eqn:P; try (elim Pc).
  - subst ec. rewrite (drain_fair_join c k n todo cur false I P F).
    destruct (drain_eof_fields c k) as (_ & _ & _ & Etm & _).
    unfold ctl_done. cbn [s_pc]. f_equal. apply decide_timedout; auto;
      [rewrite drain_eof_any_dead; exact D | rewrite Etm; exact T].
  - rewrite (drain_done c k n o P). cbn. rewrite P, Pc. reflexivity.
Qed.

(** * C14_timely_untouched *)

Definition timer_init (c : cfg) : tstate := if c_timeout c then TArmed else TNone.

Definition TUInv (c : cfg) (code : Z) (k : ctl) : Prop :=
  Inv c k /\ any_dead k = false /\ s_proc k = Some code /\
  (match s_pc k with PDone _ => s_timer k <> TArmed | _ => s_timer k = timer_init c end) /\
  PostPc (normal_outcome c code) k.

Lemma tuinv_of_joins c code k todo cur r :
  any_dead k = false -> s_proc k = Some code -> s_timer k = timer_init c ->
  joins_result c k todo cur false r ->
  any_dead r = false /\ s_proc r = Some code /\
  (match s_pc r with PDone _ => s_timer r <> TArmed | _ => s_timer r = timer_init c end) /\
  PostPc (normal_outcome c code) r.
Proof.
  intros D Pr T J.
  destruct (joins_post c k todo cur r (normal_outcome c code) (decide_normal c k code D T Pr) J)
    as (Pp & Dd & Pp2 & Tt).
  split; [rewrite Dd; exact D|]. split; [rewrite Pp2; exact Pr|]. split; [|exact Pp].
  destruct Tt as [[Ed Tt]|[(t & u & b & Ej) Tt]].
  - rewrite Ed, Tt, T. unfold timer_init. destruct (c_timeout c); discriminate.
  - rewrite Ej, Tt. exact T.
Qed.

Lemma tuinv_step c code k n e :
  in_scope_ev e = true -> e <> ETimer -> TUInv c code k -> TUInv c code (fst (step c (k, n) e)).
Proof.
  intros Sc NT (I & D & Pr & T & Pc). split; [apply (step_inv c (k, n) e I)|].
  unfold PostPc in Pc. unfold step.
  destruct (s_pc k) as [|todo cur ec|o|] eqn:P; try (elim Pc).
  - subst ec. destruct (apply_ev_join c k n e todo cur false P) as (P' & _).
    destruct (apply_ev_join_fields c k n e todo cur false P Sc) as (Tm & Prc).
    pose proof (apply_ev_calm c k n e Sc D) as D'.
    unfold advance. cbn [fst snd]. rewrite P'. cbv beta iota.
    match goal with |- context [run_joins c ?s0 todo cur false] =>
      pose proof (run_joins_result c todo s0 cur false) as J end.
    cbn [fst] in J.
    apply (tuinv_of_joins c code _ todo cur _ D' (Prc code Pr)); [|exact J].
    rewrite Tm; [exact T | right; exact NT].
  - rewrite apply_ev_over by (unfold running; cbn; rewrite P; reflexivity).
    unfold advance. cbn [fst]. rewrite P. cbn [fst]. repeat split; auto.
    + rewrite P. exact T.
    + unfold PostPc. rewrite P. first [exact Pc | reflexivity].
Qed.

Definition no_timer (script : list ev) : bool :=
  forallb (fun e => match e with ETimer => false | _ => true end) script.

Lemma run_events_tuinv c code : forall script k n,
  forallb in_scope_ev script = true -> no_timer script = true -> TUInv c code k ->
  TUInv c code (fst (run_events c (k, n) script)).
Proof.
  induction script as [|e r IH]; intros k n Sc NT H; [exact H|].
  change (run_events c (k, n) (e :: r)) with (run_events c (step c (k, n) e) r).
  cbn [forallb] in Sc. apply andb_true_iff in Sc. destruct Sc as [Se Sr].
  unfold no_timer in NT. cbn [forallb] in NT. apply andb_true_iff in NT. destruct NT as [Ne Nr].
  rewrite (surjective_pairing (step c (k, n) e)). apply IH; auto. apply tuinv_step; auto.
  intros ->. discriminate.
Qed.

Lemma exit_step c k n code :
  Inv c k -> s_pc k = PWait -> TUInv c code (fst (step c (k, n) (EExit code))).
Proof.
  intros I P. pose proof I as [_ HI]. rewrite P in HI. destruct HI as (Pr & D & F & Rp & T).
  split; [apply (step_inv c (k, n) _ I)|].
  unfold step, apply_ev. cbn [fst snd]. unfold running. rewrite P. cbn [negb]. rewrite Pr. cbn [fst snd].
  unfold advance. cbn [fst snd set_proc s_pc s_proc]. rewrite P.
  unfold leave_wait. cbn [fst snd].
  match goal with |- context [run_joins c (?k1, ?n1) ?todo None false] =>
    pose proof (run_joins_result c todo (k1, n1) None false) as J;
    assert (D1 : any_dead k1 = false) by
      (unfold any_dead in *; cbn; destruct (s_out k), (s_in k), (s_err k); cbn in *; congruence);
    apply (tuinv_of_joins c code k1 todo None _ D1); [reflexivity | exact T | exact J] end.
Qed.

Lemma timely_prefix c code : forall script k n,
  Inv c k -> s_pc k = PWait -> forallb in_scope_ev script = true -> no_timer script = true ->
  exit_code script = Some code ->
  TUInv c code (fst (run_events c (k, n) script)).
Proof.
  induction script as [|e r IH]; intros k n I P Sc NT Ex; [discriminate|].
  change (run_events c (k, n) (e :: r)) with (run_events c (step c (k, n) e) r).
  pose proof Sc as Sc0. pose proof NT as NT0.
  cbn [forallb] in Sc. apply andb_true_iff in Sc. destruct Sc as [Se Sr].
  unfold no_timer in NT. cbn [forallb] in NT. apply andb_true_iff in NT. destruct NT as [Ne Nr].
  destruct e as [w|w|code0|code0| |w x|]; try discriminate Se; try discriminate Ne.
  - rewrite (surjective_pairing (step c (k, n) (EChunk w))).
    apply IH; auto; [apply (step_inv c (k, n) _ I) | apply calm_step_wait; auto].
  - rewrite (surjective_pairing (step c (k, n) (EEof w))).
    apply IH; auto; [apply (step_inv c (k, n) _ I) | apply calm_step_wait; auto].
  - unfold exit_code in Ex. cbn in Ex. inversion Ex; subst code0.
    rewrite (surjective_pairing (step c (k, n) (EExit code))).
    apply run_events_tuinv; auto. apply exit_step; auto.
Qed.

Lemma run_events_kills_zero c : forall script s,
  no_timer script = true -> n_kills (snd (run_events c s script)) = n_kills (snd s).
Proof.
  induction script as [|e r IH]; intros s NT; [reflexivity|].
  change (run_events c s (e :: r)) with (run_events c (step c s e) r).
  unfold no_timer in NT. cbn [forallb] in NT. apply andb_true_iff in NT. destruct NT as [Ne Nr].
  rewrite IH by exact Nr. apply step_kills_eq. intros ->. discriminate.
Qed.

(** the timer does not expire before the outcome is settled, no worker fails, no
    interrupt: the normal outcome, nothing killed, the timer disarmed *)
Theorem timely_untouched_partial c script code :
  start_raises c = false -> fair c = true ->
  has_exc script = false -> has_kbd script = false -> no_timer script = true ->
  exit_code script = Some code ->
  s_pc (fst (run_sm c script)) = PDone (normal_outcome c code) /\
  n_kills (snd (run_sm c script)) = 0 /\ s_timer (fst (run_sm c script)) <> TArmed.
Proof.
  intros S F X K NT Ex. unfold run_sm.
  assert (E0 : advance c (init c) = init c).
  { unfold advance, init. rewrite S. cbn. destruct (c_in c), (c_pty c); reflexivity. }
  rewrite E0.
  assert (I0 : Inv c (fst (init c))) by (rewrite <- E0; apply init_inv; exact S).
  assert (P0 : s_pc (fst (init c)) = PWait) by (unfold init; rewrite S; reflexivity).
  assert (K0 : n_kills (snd (init c)) = 0) by (unfold init; rewrite S; reflexivity).
  pose proof (run_events_kills_zero c script (init c) NT) as Kz. rewrite K0 in Kz.
  rewrite (surjective_pairing (init c)) in *.
  destruct (timely_prefix c code script (fst (init c)) (snd (init c)) I0 P0 (in_scope_forall script X K) NT Ex)
    as (I & D & Pr & T & Pc).
  set (s1 := run_events c (fst (init c), snd (init c)) script) in *. clearbody s1.
  rewrite drain_kills. split; [|split; [exact Kz|]].
  - destruct s1 as [k n]. cbn [fst snd] in *. unfold PostPc in Pc.
    destruct (s_pc k) as [|todo cur ec|o|] eqn:P; try (elim Pc).
    + subst ec. rewrite (drain_fair_join c k n todo cur false I P F).
      destruct (drain_eof_fields c k) as (_ & _ & _ & Etm & Epr & _).
      unfold ctl_done. cbn [s_pc]. f_equal. apply decide_normal;
        [rewrite drain_eof_any_dead; exact D | rewrite Etm; exact T | rewrite Epr; exact Pr].
    + rewrite (drain_done c k n o P). cbn. rewrite P, Pc. reflexivity.
  - destruct s1 as [k n]. cbn [fst snd] in *. unfold PostPc in Pc.
    destruct (s_pc k) as [|todo cur ec|o|] eqn:P; try (elim Pc).
    + subst ec. rewrite (drain_fair_join c k n todo cur false I P F).
      cbn. destruct (s_timer (drain_eof c k)); discriminate.
    + rewrite (drain_done c k n o P). cbn. exact T.
Qed.

(** F-C14a: the timer fires after the command has exited 0 but before the check *)
Lemma timely_untouched_refuted :
  exists c script code,
    start_raises c = false /\ fair c = true /\ has_exc script = false /\ has_kbd script = false /\
    first_of script = FinishedFirst /\ exit_code script = Some code /\
    s_pc (fst (run_sm c script)) = PDone OTimedOut /\ n_kills_after_exit (snd (run_sm c script)) = 1.
Proof.
  exists (mkCfg false false true false false false false false),
         [EExit 0%Z; ETimer; EEof WOut; EEof WErr], 0%Z.
  vm_compute. repeat split; reflexivity.
Qed.

(** F-C14b: the kill reaches the shell only; a descendant keeps the pipe open *)
Lemma timeout_prompt_refuted :
  exists c script, start_raises c = false /\ c_timeout c = true /\ first_of script = ExpiredWhileRunning /\
    n_kills (snd (run_sm c script)) = 1 /\ s_pc (fst (run_sm c script)) = PHang.
Proof.
  exists (mkCfg false false true false false false true false), [ETimer].
  vm_compute. repeat split; reflexivity.
Qed.

(** timeout source (finite) *)
Lemma timeout_source kw conf : timeout_ok kw conf (effective_timeout kw conf) = true.
Proof.
  destruct kw as [[v|]|], conf as [w|]; cbn; rewrite ?Nat.eqb_refl; reflexivity.
Qed.
