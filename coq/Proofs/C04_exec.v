(** C04: proofs about the executor model. *)
From Coq Require Import Lia.
From InvokeVerif Require Import Model.ExecModel Spec.C04Spec Corr.C04Corr.

(** * unfolding the nested fixpoints *)
Lemma expand_unfold t a k pre post :
  expand (Call t a k pre post) = flat_map expand pre ++ (t, a, k) :: flat_map expand post.
Proof. reflexivity. Qed.

Lemma size_unfold t a k pre post :
  size (Call t a k pre post) = S (total_size pre + total_size post).
Proof. reflexivity. Qed.

Lemma size_pos c : 1 <= size c.
Proof. destruct c. rewrite size_unfold. lia. Qed.

(** * the work-list traversal computes the recursive expansion *)
Definition wsize (w : work) : nat := match w with Visit c => 2 * size c | Emit _ => 1 end.
Fixpoint wsum (l : list work) : nat := match l with [] => 0 | w :: l' => wsize w + wsum l' end.
Definition flatten (w : work) : list flat := match w with Visit c => expand c | Emit f => [f] end.

Lemma total_size_cons c l : total_size (c :: l) = size c + total_size l.
Proof. reflexivity. Qed.

Lemma wsum_app l1 l2 : wsum (l1 ++ l2) = wsum l1 + wsum l2.
Proof. induction l1 as [|w l IH]; cbn [app wsum]; [reflexivity|]. rewrite IH. lia. Qed.

Lemma wsum_visit l : wsum (map Visit l) = 2 * total_size l.
Proof.
  induction l as [|c l IH]; [reflexivity|].
  cbn [map wsum wsize]. rewrite total_size_cons, IH. lia.
Qed.

Lemma flatten_visit l : flat_map flatten (map Visit l) = flat_map expand l.
Proof. induction l as [|c l IH]; [reflexivity|]. cbn [map flat_map flatten]. rewrite IH; reflexivity. Qed.

Lemma dfs_iter_correct : forall fuel todo done,
  wsum todo <= fuel -> dfs_iter fuel todo done = rev done ++ flat_map flatten todo.
Proof.
  induction fuel as [|n IH]; intros todo done Hf.
  - destruct todo as [|w rest].
    + simpl. rewrite app_nil_r; reflexivity.
    + exfalso. cbn [wsum] in Hf.
      destruct w as [c|f]; cbn [wsize] in Hf; [pose proof (size_pos c)|]; lia.
  - destruct todo as [|w rest]; [simpl; rewrite app_nil_r; reflexivity|].
    destruct w as [c|f].
    + destruct c as [t a k pre post]. cbn [dfs_iter].
      rewrite IH.
      * rewrite !flat_map_app. cbn [flat_map flatten]. rewrite !flat_map_app, !flatten_visit, expand_unfold.
        rewrite <- !app_assoc. reflexivity.
      * cbn [wsum wsize] in Hf. rewrite size_unfold in Hf.
        rewrite wsum_app. cbn [wsum wsize].
        rewrite wsum_app, !wsum_visit. lia.
    + cbn [dfs_iter]. rewrite IH.
      * cbn [rev flat_map flatten]. rewrite <- app_assoc. reflexivity.
      * cbn [wsum wsize] in Hf. lia.
Qed.

Lemma expand_is_dfs calls : expand_calls calls = dfs calls.
Proof.
  unfold dfs, expand_calls. rewrite dfs_iter_correct.
  - simpl. apply eq_sym, flatten_visit.
  - rewrite wsum_visit. lia.
Qed.

Lemma normalize_requested reqs dflt : normalize reqs dflt = requested reqs dflt.
Proof.
  unfold normalize, requested. destruct reqs as [|r reqs].
  - destruct dflt as [[t a k pre post]|]; reflexivity.
  - apply map_ext. intros [[t a k pre post] kw]. reflexivity.
Qed.

(** * running = binding every call in order *)
Lemma run_calls_all_some sig l :
  run_calls sig l = match all_some (map (eff sig) l) with Some o => Ok o | None => Err EType end.
Proof.
  induction l as [|f l IH]; [reflexivity|].
  cbn [run_calls map all_some]. unfold eff at 1.
  destruct (bind (sig (f_task f)) (f_args f) (f_kw f)) as [b|]; [|reflexivity].
  rewrite IH. destruct (all_some (map (eff sig) l)); reflexivity.
Qed.

(** * first-occurrence filters *)
Lemma existsb_rev {A} (f : A -> bool) l : existsb f (rev l) = existsb f l.
Proof.
  induction l as [|x l IH]; [reflexivity|].
  cbn [rev existsb]. rewrite existsb_app, IH. cbn [existsb]. rewrite orb_false_r. apply orb_comm.
Qed.

Lemma kw_eqb_sym a b : kw_eqb a b = kw_eqb b a.
Proof.
  unfold kw_eqb. rewrite (Nat.eqb_sym (List.length a)).
  destruct (Nat.eqb (List.length b) (List.length a)); [|reflexivity].
  cbn [andb]. apply andb_comm.
Qed.

Lemma entry_eqb_sym a b : entry_eqb a b = entry_eqb b a.
Proof. unfold entry_eqb. rewrite Nat.eqb_sym, kw_eqb_sym. reflexivity. Qed.

(** the model's dedupe (literal equality, calls appended to the kept list) is
    the specification's run-once filter (effective equality) whenever the two
    equalities coincide on the calls of the session *)
Lemma dedupe_run_once (eqk : nat -> nat) (E : flat -> entry) : forall l kept,
  (forall a b, In a (kept ++ l) -> In b (kept ++ l) -> call_eqb eqk a b = entry_eqb (E a) (E b)) ->
  map E (dedupe_from eqk kept l) = map E kept ++ run_once (rev (map E kept)) (map E l).
Proof.
  induction l as [|c l IH]; intros kept H.
  - simpl. rewrite app_nil_r. reflexivity.
  - cbn [dedupe_from map run_once].
    assert (existsb (fun d => call_eqb eqk d c) kept = existsb (entry_eqb (E c)) (rev (map E kept))) as Hex.
    { rewrite existsb_rev. clear IH.
      assert (forall d, In d kept -> call_eqb eqk d c = entry_eqb (E c) (E d)) as Hd.
      { intros d Hin. rewrite entry_eqb_sym. apply H; apply in_or_app; [left; exact Hin | right; left; reflexivity]. }
      induction kept as [|d kept IHk]; [reflexivity|].
      cbn [existsb map]. rewrite (Hd d (or_introl eq_refl)). f_equal.
      apply IHk.
      - intros a b Ha Hb. apply H; simpl; [destruct (in_app_or _ _ _ Ha) | destruct (in_app_or _ _ _ Hb)];
          try (right; apply in_or_app; left; assumption); right; apply in_or_app; right; assumption.
      - intros d' Hin. apply Hd. right; exact Hin. }
    rewrite <- Hex.
    destruct (existsb (fun d => call_eqb eqk d c) kept).
    + apply IH. intros a b Ha Hb.
      apply H; [destruct (in_app_or _ _ _ Ha) | destruct (in_app_or _ _ _ Hb)]; apply in_or_app;
        try (left; assumption); right; right; assumption.
    + rewrite IH.
      * rewrite map_app, rev_app_distr, <- app_assoc. reflexivity.
      * intros a b Ha Hb. rewrite <- app_assoc in Ha, Hb. apply H; assumption.
Qed.

(** * the returned mapping *)
Lemma nset_keys k v d : map fst (nset k v d) = if existsb (Nat.eqb k) (map fst d) then map fst d else map fst d ++ [k].
Proof.
  induction d as [|[k' v'] d IH]; [reflexivity|].
  cbn [nset map fst existsb]. destruct (Nat.eqb k k') eqn:E; [reflexivity|].
  cbn [map fst orb]. rewrite IH. destruct (existsb (Nat.eqb k) (map fst d)); reflexivity.
Qed.

Lemma nset_get_same k v d : In (k, v) (nset k v d).
Proof.
  induction d as [|[k' v'] d IH]; [left; reflexivity|].
  cbn [nset]. destruct (Nat.eqb k k') eqn:E.
  - apply Nat.eqb_eq in E; subst. left; reflexivity.
  - right; exact IH.
Qed.

Lemma nset_in k v d k2 v2 : In (k2, v2) (nset k v d) -> (k2 = k /\ v2 = v) \/ In (k2, v2) d.
Proof.
  induction d as [|[k' v'] d IH]; cbn [nset].
  - intros [H|[]]. inversion H; subst. left; auto.
  - destruct (Nat.eqb k k') eqn:E.
    + apply Nat.eqb_eq in E; subst k'. intros [H|H].
      * inversion H; subst. left; auto.
      * right; right; exact H.
    + intros [H|H].
      * right; left; exact H.
      * destruct (IH H) as [H1|H1]; [left; exact H1 | right; right; exact H1].
Qed.

Lemma existsb_nat_In k l : existsb (Nat.eqb k) l = true <-> In k l.
Proof.
  rewrite existsb_exists. split.
  - intros [x [Hx E]]. apply Nat.eqb_eq in E; subst; exact Hx.
  - intros H. exists k. split; [exact H | apply Nat.eqb_refl].
Qed.

Lemma NoDup_snoc_nat (x : nat) l : NoDup l -> ~ In x l -> NoDup (l ++ [x]).
Proof.
  induction l as [|y l IH]; simpl; intros ND Hn.
  - constructor; [intros [] | constructor].
  - inversion ND as [|? ? Hy ND']; subst. constructor.
    + rewrite in_app_iff. intros [H|[H|[]]]; [contradiction | subst; apply Hn; left; reflexivity].
    + apply IH; [assumption | intros H; apply Hn; right; exact H].
Qed.

Lemma nset_NoDup k v d : NoDup (map fst d) -> NoDup (map fst (nset k v d)).
Proof.
  intros ND. rewrite nset_keys.
  destruct (existsb (Nat.eqb k) (map fst d)) eqn:E; [exact ND|].
  apply NoDup_snoc_nat; [exact ND|]. intros H. apply existsb_nat_In in H. congruence.
Qed.

Lemma nset_keys_incl k v d x : In x (map fst d) -> In x (map fst (nset k v d)).
Proof.
  intros H. rewrite nset_keys. destruct (existsb (Nat.eqb k) (map fst d)); [exact H|].
  apply in_or_app; left; exact H.
Qed.

(** invariant of the results dict while the session runs *)
Definition res_inv (acc : list (nat * nat)) (done : list entry) : Prop :=
  NoDup (map fst acc) /\
  (forall t v, In (t, v) acc -> exists e, nth_error done v = Some e /\ fst e = t) /\
  (forall e, In e done -> In (fst e) (map fst acc)).

Lemma results_from_inv : forall log acc done,
  res_inv acc done -> res_inv (results_from (List.length done) log acc) (done ++ log).
Proof.
  induction log as [|e log IH]; intros acc done Hinv.
  - simpl. rewrite app_nil_r. exact Hinv.
  - cbn [results_from].
    replace (done ++ e :: log) with ((done ++ [e]) ++ log) by (rewrite <- app_assoc; reflexivity).
    replace (S (List.length done)) with (List.length (done ++ [e])) by (rewrite app_length; simpl; lia).
    apply IH. destruct Hinv as [ND [Hv Hc]]. split; [apply nset_NoDup; exact ND|]. split.
    + intros t v HIn. apply nset_in in HIn. destruct HIn as [[-> ->]|HIn].
      * exists e. split; [|reflexivity].
        rewrite nth_error_app2 by lia. rewrite Nat.sub_diag. reflexivity.
      * destruct (Hv t v HIn) as [e0 [Hn Ht]]. exists e0. split; [|exact Ht].
        rewrite nth_error_app1; [exact Hn|]. apply nth_error_Some. congruence.
    + intros e0 HIn. apply in_app_or in HIn. destruct HIn as [HIn|[<-|[]]].
      * apply nset_keys_incl. apply Hc; exact HIn.
      * change (fst e) with (fst (fst e, List.length done)). apply in_map. apply nset_get_same.
Qed.

Lemma filter_key_length (l : list (nat * nat)) r :
  NoDup (map fst l) -> In r l -> List.length (filter (fun r' => Nat.eqb (fst r') (fst r)) l) = 1.
Proof.
  induction l as [|x l IH]; intros ND HIn; [contradiction|].
  cbn [map] in ND. inversion ND as [|? ? Hn ND']; subst.
  cbn [filter]. destruct HIn as [->|HIn].
  - rewrite Nat.eqb_refl. cbn [List.length]. f_equal.
    assert (filter (fun r' => Nat.eqb (fst r') (fst r)) l = []) as Hf.
    { clear -Hn. induction l as [|y l IH]; [reflexivity|]. cbn [filter].
      destruct (Nat.eqb (fst y) (fst r)) eqn:E.
      - apply Nat.eqb_eq in E. exfalso. apply Hn. left. exact E.
      - apply IH. intros H. apply Hn. right; exact H. }
    rewrite Hf; reflexivity.
  - destruct (Nat.eqb (fst x) (fst r)) eqn:E.
    + apply Nat.eqb_eq in E. exfalso. apply Hn. rewrite E.
      change (fst r) with (fst r). apply in_map; exact HIn.
    + apply IH; assumption.
Qed.

Lemma results_map log : results_ok log (results_from 0 log []) = true.
Proof.
  assert (res_inv [] []) as H0.
  { split; [constructor|]. split; [intros t v []| intros e []]. }
  pose proof (results_from_inv log [] [] H0) as [ND [Hv Hc]]. simpl in ND, Hv, Hc.
  unfold results_ok. rewrite !andb_true_iff. repeat split.
  - apply forallb_forall. intros e HIn. apply existsb_exists.
    specialize (Hc e HIn). apply in_map_iff in Hc. destruct Hc as [r [Hr HIr]].
    exists r. split; [exact HIr | apply Nat.eqb_eq; exact Hr].
  - apply forallb_forall. intros [t v] HIn. cbn [fst snd].
    destruct (Hv t v HIn) as [e [Hn Ht]]. rewrite Hn. apply Nat.eqb_eq; exact Ht.
  - apply forallb_forall. intros r HIn. apply Nat.eqb_eq. apply filter_key_length; assumption.
Qed.

Lemma keys_unique (l : list (nat * nat)) k v1 v2 :
  NoDup (map fst l) -> In (k, v1) l -> In (k, v2) l -> v1 = v2.
Proof.
  induction l as [|[k' v'] l IH]; intros ND H1 H2; [contradiction|].
  cbn [map fst] in ND. inversion ND as [|? ? Hn ND']; subst.
  destruct H1 as [H1|H1]; destruct H2 as [H2|H2].
  - congruence.
  - inversion H1; subst. exfalso. apply Hn. change k with (fst (k, v2)). apply in_map; exact H2.
  - inversion H2; subst. exfalso. apply Hn. change k with (fst (k, v1)). apply in_map; exact H1.
  - apply IH; assumption.
Qed.

Lemma results_from_last : forall log acc i t v,
  NoDup (map fst acc) -> In (t, v) (results_from i log acc) ->
  (In (t, v) acc /\ forall e, In e log -> fst e <> t) \/
  (exists k e, nth_error log k = Some e /\ fst e = t /\ v = i + k /\
               forall j e', k < j -> nth_error log j = Some e' -> fst e' <> t).
Proof.
  induction log as [|e log IH]; intros acc i t v ND HIn.
  - left. split; [exact HIn | intros e []].
  - cbn [results_from] in HIn.
    destruct (IH _ _ _ _ (nset_NoDup (fst e) i acc ND) HIn) as [[HIa Hno]|[k [e0 [Hn [Ht [Hv Hl]]]]]].
    + destruct (Nat.eq_dec (fst e) t) as [E|E].
      * right. exists 0, e. split; [reflexivity|]. split; [exact E|]. split.
        -- rewrite Nat.add_0_r. subst t.
           apply (keys_unique _ (fst e) v i (nset_NoDup (fst e) i acc ND) HIa (nset_get_same _ _ _)).
        -- intros j e' Hj Hn. destruct j; [lia|]. cbn [nth_error] in Hn.
           apply Hno. eapply nth_error_In; eauto.
      * left. apply nset_in in HIa. destruct HIa as [[-> _]|HIa]; [congruence|].
        split; [exact HIa|]. intros e' [<-|He']; [exact E | apply Hno; exact He'].
    + right. exists (S k), e0. split; [exact Hn|]. split; [exact Ht|]. split; [lia|].
      intros j e' Hj Hn'. destruct j; [lia|]. cbn [nth_error] in Hn'. apply (Hl j e'); [lia | exact Hn'].
Qed.

Lemma results_last_wins log t v :
  In (t, v) (results_from 0 log []) ->
  exists e, nth_error log v = Some e /\ fst e = t /\
            forall j e', v < j -> nth_error log j = Some e' -> fst e' <> t.
Proof.
  intros HIn. destruct (results_from_last log [] 0 t v (NoDup_nil _) HIn) as [[[] _]|[k [e [Hn [Ht [Hv Hl]]]]]].
  simpl in Hv. subst v. exists e. auto.
Qed.
(** * reflexivity of the comparisons on bound arguments *)
Lemma py_eqb_refl v : py_eqb v v = true.
Proof. destruct v; unfold py_eqb; apply value_eqb_eq; reflexivity. Qed.

Lemma kw_get_in_nodup k v (d : kwargs) : NoDup (map fst d) -> In (k, v) d -> kw_get k d = Some v.
Proof.
  induction d as [|[k' v'] d IH]; intros ND HIn; [contradiction|].
  cbn [map fst] in ND. inversion ND as [|? ? Hn ND']; subst. cbn [kw_get].
  destruct HIn as [HIn|HIn].
  - inversion HIn; subst. rewrite String.eqb_refl; reflexivity.
  - destruct (String.eqb k k') eqn:E.
    + apply String.eqb_eq in E; subst. exfalso. apply Hn. change k' with (fst (k', v)). apply in_map; exact HIn.
    + apply IH; assumption.
Qed.

Lemma kw_eqb_refl d : NoDup (map fst d) -> kw_eqb d d = true.
Proof.
  intros ND. unfold kw_eqb. rewrite Nat.eqb_refl. cbn [andb].
  assert (kw_sub d d = true) as H.
  { unfold kw_sub. apply forallb_forall. intros [k v] HIn. cbn [fst snd].
    rewrite (kw_get_in_nodup k v d ND HIn). apply py_eqb_refl. }
  rewrite H. reflexivity.
Qed.

(** binding yields exactly the task's parameters *)
Lemma bind_pos_keys : forall ps args bound rest,
  bind_pos ps args = Some (bound, rest) -> map fst bound ++ map fst rest = map fst ps.
Proof.
  induction ps as [|[p d] ps IH]; intros args bound rest H.
  - destruct args; [|discriminate]. inversion H; subst. reflexivity.
  - destruct args as [|a args].
    + inversion H; subst. reflexivity.
    + cbn [bind_pos] in H. destruct (bind_pos ps args) as [[b r]|] eqn:E; [|discriminate].
      inversion H; subst. cbn [map fst app]. f_equal. apply (IH _ _ _ E).
Qed.

Lemma bind_keys ps args kw b : bind ps args kw = Some b -> map fst b = map fst ps.
Proof.
  unfold bind. destruct (bind_pos ps args) as [[bound rest]|] eqn:E; [|discriminate].
  destruct (forallb _ kw); [|discriminate]. intros H; inversion H; subst.
  rewrite map_app, map_map. cbn [fst]. apply (bind_pos_keys _ _ _ _ E).
Qed.

Definition wf_sig (sig : nat -> params) : Prop := forall t, NoDup (map fst (sig t)).

Lemma eff_refl sig f e : wf_sig sig -> eff sig f = Some e -> entry_eqb e e = true.
Proof.
  intros W H. unfold eff in H.
  destruct (bind (sig (f_task f)) (f_args f) (f_kw f)) as [b|] eqn:E; [|discriminate].
  inversion H; subst. unfold entry_eqb. cbn [fst snd]. rewrite Nat.eqb_refl. cbn [andb].
  apply kw_eqb_refl. rewrite (bind_keys _ _ _ _ E). apply W.
Qed.

Lemma kw_eqb_s_refl d : NoDup (map fst d) -> kw_eqb_s d d = true.
Proof.
  intros ND. unfold kw_eqb_s. rewrite Nat.eqb_refl. cbn [andb].
  assert (kw_sub_s d d = true) as H.
  { unfold kw_sub_s. apply forallb_forall. intros [k v] HIn. cbn [fst snd].
    rewrite (kw_get_in_nodup k v d ND HIn). apply value_eqb_eq; reflexivity. }
  rewrite H. reflexivity.
Qed.

Lemma eff_refl_s sig f e : wf_sig sig -> eff sig f = Some e -> entry_eqb_s e e = true.
Proof.
  intros W H. unfold eff in H.
  destruct (bind (sig (f_task f)) (f_args f) (f_kw f)) as [b|] eqn:E; [|discriminate].
  inversion H; subst. unfold entry_eqb_s. cbn [fst snd]. rewrite Nat.eqb_refl. cbn [andb].
  apply kw_eqb_s_refl. rewrite (bind_keys _ _ _ _ E). apply W.
Qed.

Lemma list_eqb_refl_on {A} (eqb : A -> A -> bool) l :
  (forall x, In x l -> eqb x x = true) -> list_eqb eqb l l = true.
Proof.
  induction l as [|x l IH]; intros H; [reflexivity|].
  cbn [list_eqb]. rewrite (H x (or_introl eq_refl)). cbn [andb].
  apply IH. intros y Hy. apply H; right; exact Hy.
Qed.

Lemma all_some_map {A B} (f : A -> option B) l o :
  all_some (map f l) = Some o -> Forall2 (fun a b => f a = Some b) l o.
Proof.
  revert o. induction l as [|a l IH]; intros o H.
  - inversion H; constructor.
  - cbn [map all_some] in H. destruct (f a) as [b|] eqn:E; [|discriminate].
    destruct (all_some (map f l)) as [r|] eqn:Er; [|discriminate].
    inversion H; subst. constructor; [exact E | apply IH; reflexivity].
Qed.

Lemma run_once_incl ex l e : In e (run_once ex l) -> In e l.
Proof.
  revert ex. induction l as [|x l IH]; intros ex H; [contradiction|].
  cbn [run_once] in H. destruct (existsb (entry_eqb x) ex).
  - right. eapply IH; eauto.
  - destruct H as [->|H]; [left; reflexivity | right; eapply IH; eauto].
Qed.

Lemma dedupe_from_incl eqk : forall l kept x, In x (dedupe_from eqk kept l) -> In x kept \/ In x l.
Proof.
  induction l as [|c l IH]; intros kept x H; [left; exact H|].
  cbn [dedupe_from] in H. destruct (existsb (fun d => call_eqb eqk d c) kept).
  - destruct (IH _ _ H); [left | right; right]; assumption.
  - destruct (IH _ _ H) as [H1|H1].
    + apply in_app_or in H1. destruct H1 as [H1|[<-|[]]]; [left; exact H1 | right; left; reflexivity].
    + right; right; exact H1.
Qed.

(** calls of the session agree on literal vs effective equality *)
Definition agree (sig : nat -> params) (eqk : nat -> nat) (order : list flat) : bool :=
  forallb (fun a => forallb (fun b =>
     Bool.eqb (call_eqb eqk a b)
              (match eff sig a, eff sig b with
               | Some x, Some y => entry_eqb x y
               | _, _ => false end)) order) order.

Definition E_of (sig : nat -> params) (f : flat) : entry :=
  match eff sig f with Some e => e | None => (0, []) end.

Lemma all_some_E sig l o : all_some (map (eff sig) l) = Some o -> o = map (E_of sig) l.
Proof.
  intros H. apply all_some_map in H. induction H as [|a b l o Hab _ IH]; [reflexivity|].
  cbn [map]. unfold E_of at 1. rewrite Hab, IH. reflexivity.
Qed.

Lemma all_some_sub sig l l' o :
  all_some (map (eff sig) l) = Some o -> (forall x, In x l' -> In x l) ->
  all_some (map (eff sig) l') = Some (map (E_of sig) l').
Proof.
  intros H Hsub. apply all_some_map in H.
  assert (forall x, In x l -> exists e, eff sig x = Some e) as Hall.
  { clear -H. induction H as [|a b l o Hab _ IH]; intros x [].
    - subst. eexists; eauto.
    - apply IH; assumption. }
  clear H. induction l' as [|x l' IH]; [reflexivity|].
  cbn [map all_some]. destruct (Hall x (Hsub x (or_introl eq_refl))) as [e He].
  unfold E_of at 1. rewrite He, IH; [reflexivity|]. intros y Hy. apply Hsub; right; exact Hy.
Qed.

(** Flagship (partial): the model meets the executable specification whenever
    dedupe is off, or literal and effective equality agree on the session. *)
Lemma model_meets_spec sig eqk reqs dflt dd :
  wf_sig sig ->
  (dd = true -> agree sig eqk (dfs (requested reqs dflt)) = true) ->
  spec_ok sig reqs dflt dd (execute sig eqk reqs dflt dd) = true.
Proof.
  intros W G. unfold spec_ok, execute.
  rewrite normalize_requested, expand_is_dfs.
  set (l := dfs (requested reqs dflt)) in *.
  destruct (all_some (map (eff sig) l)) as [order|] eqn:Eo; [|reflexivity].
  assert (forall e, In e order -> entry_eqb_s e e = true) as Hrefl.
  { intros e HIn. pose proof (all_some_map _ _ _ Eo) as F2. clear -F2 HIn W.
    induction F2 as [|a b l o Hab _ IH]; [contradiction|].
    destruct HIn as [<-|HIn]; [eapply eff_refl_s; eauto | apply IH; exact HIn]. }
  destruct dd.
  - specialize (G eq_refl).
    assert (forall x, In x (dedupe eqk l) -> In x l) as Hsub.
    { intros x Hx. unfold dedupe in Hx. destruct (dedupe_from_incl _ _ _ _ Hx) as [[]|H]; exact H. }
    rewrite run_calls_all_some, (all_some_sub sig l (dedupe eqk l) order Eo Hsub).
    assert (map (E_of sig) (dedupe eqk l) = run_once [] order) as Hd.
    { unfold dedupe. rewrite (dedupe_run_once eqk (E_of sig) l []).
      - cbn [map rev app]. rewrite (all_some_E sig l order Eo). reflexivity.
      - cbn [app]. intros a b Ha Hb. unfold agree in G. rewrite forallb_forall in G.
        specialize (G a Ha). rewrite forallb_forall in G. specialize (G b Hb).
        apply Bool.eqb_prop in G. rewrite G.
        pose proof (all_some_map _ _ _ Eo) as F2.
        assert (forall x, In x l -> exists e, eff sig x = Some e) as Hall.
        { clear -F2. induction F2 as [|a0 b0 l0 o0 Hab _ IH]; intros x [].
          - subst. eexists; eauto.
          - apply IH; assumption. }
        destruct (Hall a Ha) as [ea Hea]. destruct (Hall b Hb) as [eb Heb].
        unfold E_of. rewrite Hea, Heb. reflexivity. }
    rewrite Hd, results_map, andb_true_r.
    apply list_eqb_refl_on. intros e He. apply Hrefl. eapply run_once_incl; eauto.
  - rewrite run_calls_all_some, Eo. rewrite results_map, andb_true_r.
    apply list_eqb_refl_on. exact Hrefl.
Qed.

(** * what [dedupe] (literal equality) does, in general *)
Inductive subseq {A} : list A -> list A -> Prop :=
| sub_nil : subseq [] []
| sub_skip x l1 l2 : subseq l1 l2 -> subseq l1 (x :: l2)
| sub_keep x l1 l2 : subseq l1 l2 -> subseq (x :: l1) (x :: l2).

Lemma dedupe_from_shape eqk : forall l kept,
  exists news,
    dedupe_from eqk kept l = kept ++ news /\ subseq news l /\
    (forall n1 x n2, news = n1 ++ x :: n2 -> existsb (fun d => call_eqb eqk d x) (kept ++ n1) = false) /\
    (forall x, In x l -> In x news \/ existsb (fun d => call_eqb eqk d x) (kept ++ news) = true).
Proof.
  induction l as [|c l IH]; intros kept.
  - exists []. simpl. rewrite app_nil_r. repeat split; [constructor | | intros x []].
    intros n1 x n2 H. destruct n1; discriminate.
  - cbn [dedupe_from]. destruct (existsb (fun d => call_eqb eqk d c) kept) eqn:Ex.
    + destruct (IH kept) as [news [H1 [H2 [H3 H4]]]]. exists news.
      split; [exact H1|]. split; [constructor; exact H2|]. split; [exact H3|].
      intros x [<-|Hx]; [right; rewrite existsb_app, Ex; reflexivity | apply H4; exact Hx].
    + destruct (IH (kept ++ [c])) as [news [H1 [H2 [H3 H4]]]]. exists (c :: news).
      split; [rewrite H1, <- app_assoc; reflexivity|]. split; [constructor; exact H2|]. split.
      * intros n1 x n2 Hn. destruct n1 as [|y n1].
        -- inversion Hn; subst. rewrite app_nil_r. exact Ex.
        -- inversion Hn; subst. specialize (H3 n1 x n2 eq_refl).
           rewrite <- app_assoc in H3. exact H3.
      * intros x [<-|Hx]; [left; left; reflexivity|].
        destruct (H4 x Hx) as [H|H]; [left; right; exact H|].
        right. rewrite <- app_assoc in H. exact H.
Qed.

(** the result is a subsequence of the input (relative order kept), contains
    no two equal calls, and every input call is kept or equals a kept one;
    in particular a call with no equal predecessor is kept *)
Lemma dedupe_spec eqk l :
  subseq (dedupe eqk l) l /\
  (forall n1 x n2, dedupe eqk l = n1 ++ x :: n2 -> existsb (fun d => call_eqb eqk d x) n1 = false) /\
  (forall x, In x l -> In x (dedupe eqk l) \/ existsb (fun d => call_eqb eqk d x) (dedupe eqk l) = true).
Proof.
  unfold dedupe. destruct (dedupe_from_shape eqk l []) as [news [H1 [H2 [H3 H4]]]].
  rewrite H1. cbn [app] in *. auto.
Qed.

(** dedupe off: nothing is skipped *)
Lemma run_calls_all sig l log :
  run_calls sig l = Ok log -> Forall2 (fun f e => eff sig f = Some e) l log.
Proof.
  rewrite run_calls_all_some. destruct (all_some (map (eff sig) l)) as [o|] eqn:E; [|discriminate].
  intros H; inversion H; subst. apply all_some_map; exact E.
Qed.

Lemma no_dedupe_identity sig eqk reqs dflt log res :
  execute sig eqk reqs dflt false = Ok (log, res) ->
  Forall2 (fun f e => eff sig f = Some e) (dfs (requested reqs dflt)) log.
Proof.
  unfold execute. rewrite normalize_requested, expand_is_dfs.
  destruct (run_calls sig (dfs (requested reqs dflt))) as [lg|] eqn:E; [|discriminate].
  intros H; inversion H; subst. apply run_calls_all; exact E.
Qed.

(** * Refutation: literal vs effective arguments (F-C04) *)
Definition w_sig (t : nat) : params := match t with 1 => [("clean", VBool false)] | _ => [] end.
Definition w_setup := Call 1 [] [] [] [].
Definition w_build := Call 0 [] [] [w_setup] [].

(** `inv setup build`: both requests are parser contexts, carrying every
    parameter with its default *)
Lemma refuted_effective :
  exists sig reqs,
    wf_sig sig /\
    execute sig (fun t => t) reqs None true =
      Ok ([(1, [("clean", VBool false)]); (1, [("clean", VBool false)]); (0, [])], [(1, 1); (0, 2)]) /\
    spec_ok sig reqs None true (execute sig (fun t => t) reqs None true) = false.
Proof.
  exists w_sig, [(w_setup, [("clean", VBool false)]); (w_build, [])].
  split; [|split; vm_compute; reflexivity].
  intros t. destruct t as [|[|t]]; simpl; repeat constructor; intros [].
Qed.

(** call(setup, False) and call(setup, clean=False) as two pre-tasks *)
Lemma refuted_effective_positional :
  exists sig reqs,
    spec_ok sig reqs None true (execute sig (fun t => t) reqs None true) = false /\
    agree sig (fun t => t) (dfs (requested reqs None)) = false.
Proof.
  exists w_sig,
    [(Call 0 [] [] [Call 1 [VBool false] [] [] []; Call 1 [] [("clean", VBool false)] [] []] [], [])].
  split; vm_compute; reflexivity.
Qed.

(** non-vacuity: a diamond with a post-task, inside the guard, dedupe on *)
Definition ex_leaf := Call 3 [] [] [] [].
Definition ex_left := Call 1 [] [] [ex_leaf] [].
Definition ex_right := Call 2 [VInt 5] [] [ex_leaf] [Call 4 [] [("xx", VInt 1)] [] []].
Definition ex_top := Call 0 [] [] [ex_left; ex_right] [ex_leaf].
Definition ex_sig (t : nat) : params :=
  match t with 2 => [("n", VInt 0)] | 4 => [("xx", VInt 0); ("yy", VNone)] | _ => [] end.

Lemma example_guard :
  wf_sig ex_sig /\ agree ex_sig (fun t => t) (dfs (requested [(ex_top, [])] None)) = true /\
  execute ex_sig (fun t => t) [(ex_top, [])] None true =
    Ok ([(3, []); (1, []); (2, [("n", VInt 5)]); (4, [("xx", VInt 1); ("yy", VNone)]); (0, [])],
        [(3, 0); (1, 1); (2, 2); (4, 3); (0, 4)]) /\
  List.length (dfs (requested [(ex_top, [])] None)) = 7.
Proof.
  split; [|repeat split; vm_compute; reflexivity].
  intros t. do 5 (destruct t as [|t]; [simpl; repeat constructor; simpl; intuition discriminate|]).
  simpl; constructor.
Qed.

(** Tasks made by one factory function (same name, same code object, different
    closure) are equal for Task.__eq__: `execute("staging", "prod")` runs only
    the first although the two invocations are not identical (F-C04c) *)
Lemma refuted_factory :
  exists sig eqk reqs,
    wf_sig sig /\ eqk 1 = eqk 2 /\
    execute sig eqk reqs None true = Ok ([(1, [])], [(1, 0)]) /\
    spec_ok sig reqs None true (execute sig eqk reqs None true) = false /\
    spec_ok sig reqs None true (execute sig (fun t => t) reqs None true) = true.
Proof.
  exists (fun _ => []), (fun _ => 0), [(Call 1 [] [] [] [], []); (Call 2 [] [] [] [], [])].
  split; [intros t; constructor|]. repeat split; vm_compute; reflexivity.
Qed.

(** * autoprint *)

Lemma indices_positions {A B} (E : A -> B) (f : A -> bool) (g : B -> bool) : forall l i,
  (forall x, In x l -> f x = g (E x)) ->
  indices_where f i l = positions_where g i (map E l).
Proof.
  induction l as [|x l IH]; intros i H; [reflexivity|].
  cbn [indices_where positions_where map]. rewrite (H x (or_introl eq_refl)).
  rewrite (IH (S i)); [reflexivity|]. intros y Hy. apply H; right; exact Hy.
Qed.

Lemma existsb_map' {A B} (f : B -> bool) (g : A -> B) l : existsb f (map g l) = existsb (fun x => f (g x)) l.
Proof. induction l as [|x l IH]; [reflexivity|]. cbn. rewrite IH. reflexivity. Qed.

Lemma root_in_expand c : In (root_flat c) (expand c).
Proof. destruct c as [t a k pre post]. rewrite expand_unfold. apply in_or_app; right; left; reflexivity. Qed.

Lemma root_flat_of c : root_flat c = root_of c.
Proof. destruct c; reflexivity. Qed.

Lemma nat_list_eqb_refl l : list_eqb Nat.eqb l l = true.
Proof. induction l as [|x l IH]; [reflexivity|]. cbn. rewrite Nat.eqb_refl, IH. reflexivity. Qed.

(** what the model prints is what the specification says should be printed,
    whenever literal and effective equality agree on the session *)
Lemma printed_meets_spec sig eqk autop reqs dflt dd :
  agree sig eqk (dfs (requested reqs dflt)) = true ->
  print_ok entry_eqb sig autop reqs dflt dd (run_once []) (printed eqk autop reqs dflt dd) = true.
Proof.
  intros G. unfold print_ok, printed. rewrite normalize_requested, expand_is_dfs.
  set (calls := requested reqs dflt) in *. set (l := dfs calls) in *.
  destruct (all_some (map (eff sig) l)) as [order|] eqn:Eo; [|reflexivity].
  assert (forall x, In x l -> exists e, eff sig x = Some e) as Hall.
  { pose proof (all_some_map _ _ _ Eo) as F2. clear -F2.
    induction F2 as [|a0 b0 l0 o0 Hab _ IH]; intros x [].
    - subst. eexists; eauto.
    - apply IH; assumption. }
  assert (forall c, In c calls -> In (root_flat c) l) as Hroot.
  { intros c Hc. unfold l. rewrite <- expand_is_dfs. unfold expand_calls. apply in_flat_map.
    exists c. split; [exact Hc | apply root_in_expand]. }
  assert (all_some (map (eff sig) (map root_of calls)) = Some (map (E_of sig) (map root_flat calls))) as Hd.
  { rewrite <- (map_ext _ _ root_flat_of). apply (all_some_sub sig l _ order Eo).
    intros x Hx. apply in_map_iff in Hx. destruct Hx as [c [<- Hc]]. apply Hroot; exact Hc. }
  rewrite Hd.
  assert (forall a b, In a l -> In b l -> call_eqb eqk a b = entry_eqb (E_of sig a) (E_of sig b)) as Hag.
  { intros a b Ha Hb. unfold agree in G. rewrite forallb_forall in G.
    specialize (G a Ha). rewrite forallb_forall in G. specialize (G b Hb).
    apply Bool.eqb_prop in G. rewrite G.
    destruct (Hall a Ha) as [ea Hea]. destruct (Hall b Hb) as [eb Heb].
    unfold E_of. rewrite Hea, Heb. reflexivity. }
  (* the marking function agrees pointwise on calls of the session *)
  assert (forall x, In x l ->
            (autop (f_task x) && existsb (fun d => call_eqb eqk d x) (map root_flat calls)) =
            (autop (fst (E_of sig x)) &&
             existsb (entry_eqb (E_of sig x)) (map (E_of sig) (map root_flat calls)))) as Hmark.
  { intros x Hx. destruct (Hall x Hx) as [ex Hex].
    assert (fst (E_of sig x) = f_task x) as Hf.
    { unfold E_of. rewrite Hex. unfold eff in Hex.
      destruct (bind (sig (f_task x)) (f_args x) (f_kw x)); [|discriminate]. inversion Hex; reflexivity. }
    rewrite Hf. f_equal.
    assert (forall cs, (forall c, In c cs -> In (root_flat c) l) ->
              existsb (fun d => call_eqb eqk d x) (map root_flat cs) =
              existsb (entry_eqb (E_of sig x)) (map (E_of sig) (map root_flat cs))) as Hcs.
    { induction cs as [|c cs IH]; intros Hr; [reflexivity|]. cbn [map existsb].
      rewrite (Hag (root_flat c) x (Hr c (or_introl eq_refl)) Hx), entry_eqb_sym. f_equal.
      apply IH. intros c' Hc'. apply Hr; right; exact Hc'. }
    apply Hcs. exact Hroot. }
  destruct dd.
  - assert (forall x, In x (dedupe eqk l) -> In x l) as Hsub.
    { intros x Hx. unfold dedupe in Hx. destruct (dedupe_from_incl _ _ _ _ Hx) as [[]|H]; exact H. }
    assert (map (E_of sig) (dedupe eqk l) = run_once [] order) as Hdd.
    { unfold dedupe. rewrite (dedupe_run_once eqk (E_of sig) l []).
      - cbn [map rev app]. rewrite (all_some_E sig l order Eo). reflexivity.
      - cbn [app]. exact Hag. }
    rewrite <- Hdd.
    rewrite (indices_positions (E_of sig) _
               (fun e => autop (fst e) && existsb (entry_eqb e) (map (E_of sig) (map root_flat calls)))).
    + apply nat_list_eqb_refl.
    + intros x Hx. apply Hmark. apply Hsub; exact Hx.
  - rewrite (all_some_E sig l order Eo).
    rewrite (indices_positions (E_of sig) _
               (fun e => autop (fst e) && existsb (entry_eqb e) (map (E_of sig) (map root_flat calls)))).
    + apply nat_list_eqb_refl.
    + exact Hmark.
Qed.
