(** C01: a dash-leading value after a non-optional value flag.  Whatever the
    token looks like ("-5", "-xyz", "--zz", "--a=b", "-"), the split is rolled
    back because a non-optional flag is waiting for its value; the token is
    taken as that value provided it is not itself a flag or inverse flag of the
    task (the property's side condition).  Token-level lemma, same shape as
    [step_value] of C01_tokens.v, for widening the round-trip fragment. *)
From InvokeVerif Require Import Model.ParserModel Proofs.C07_fuel Proofs.C01_steps Proofs.C01_tokens.

Lemma presplit_total m t : exists sp, presplit m t = Ok sp.
Proof.
  unfold presplit.
  destruct (is_flag t && match m_unparsed m with [] => true | _ => false end); [|eauto].
  destruct (contains_char "=" t).
  { destruct (partition_char "=" t) as [[h f] v]. eauto. }
  destruct (negb (is_long_flag t) && Nat.ltb 2 (String.length t)); [|eauto].
  match goal with |- exists sp, (if ?b then _ else _) = Ok sp => destruct b end; eauto.
Qed.

Section Dash.
Variable p : parser.
Variable i0 : rctx.
Variable done : list rctx.
Variable cur : rctx.
Let kk := S (List.length done).
Let args := rc_args cur.

Lemma step_value_any got tok i r r' :
  nth_error args i = Some r ->
  takes_value (r_spec r) = true -> a_optional (r_spec r) = false ->
  (if akind_eqb (a_kind (r_spec r)) KList && negb got then true else negb (r_raw r)) = true ->
  find_flag args tok = None -> find_inverse args tok = None ->
  set_value r (IStr tok) true = Ok r' ->
  step p (MS i0 done cur (Some (kk, i)) got) tok
  = Ok (MS i0 done (upd_cur cur i r') (Some (kk, i)) true, []).
Proof.
  intros N Tv No W F FI SV. unfold step, bind.
  destruct (presplit_total (MS i0 done cur (Some (kk, i)) got) tok) as [sp ->].
  assert (Wt : waiting (MS i0 done cur (Some (kk, i)) got) = true).
  { unfold waiting, flag_arg. cbn [m_flag MS]. fold kk. rewrite MS_get_arg_cur. fold args.
    rewrite N, Tv. cbn [m_got MS]. exact W. }
  assert (Rb : rollback (MS i0 done cur (Some (kk, i)) got) tok sp = Ok (tok, [])).
  { unfold rollback. rewrite Wt. unfold flag_arg. cbn [m_flag MS]. fold kk.
    rewrite MS_get_arg_cur. fold args. rewrite N, No. reflexivity. }
  rewrite Rb. cbn [fst snd].
  unfold handle. cbn [m_st MS pstate_eqb]. rewrite MS_cur. cbn [ctx_has_flag ctx_has_inverse].
  fold args. rewrite F, FI, Wt.
  unfold see_value, bind, check_ambiguity, flag_arg. cbn [m_flag MS]. fold kk.
  rewrite MS_get_arg_cur. fold args. rewrite N, No. cbn [negb].
  cbn [m_flag MS]. fold kk. rewrite MS_get_arg_cur. fold args. rewrite N, Tv.
  unfold set_arg_value. rewrite MS_get_arg_cur. fold args. rewrite N, SV.
  rewrite MS_put_arg. reflexivity.
Qed.

End Dash.
