(** C13: the stdin poll loop against the independent definitions of C13Spec. *)
From InvokeVerif Require Import Corr.C13Corr Proofs.C02_decode.
From Coq Require Import Lia.
Local Open Scope N_scope.

(** * Encoding distributes over concatenation *)

Lemma encode_app e a b :
  encode e (a ++ b) = match encode e a, encode e b with
                      | Some x, Some y => Some (x ++ y)
                      | _, _ => None
                      end.
Proof.
  induction a as [|c a IH]; cbn [app encode].
  - destruct (encode e b); reflexivity.
  - rewrite IH. destruct (encode_cp e c), (encode e a), (encode e b); try reflexivity.
    rewrite app_assoc. reflexivity.
Qed.

Lemma encode_all_concat e l : encode_all e l = encode e (List.concat l).
Proof.
  induction l as [|t r IH]; [reflexivity|].
  cbn [encode_all List.concat]. rewrite encode_app, IH. reflexivity.
Qed.

Definition enc_or_nil (e : enc) (t : text) : bytes :=
  match encode e t with Some b => b | None => [] end.

Definition encodable (e : enc) (t : text) : bool :=
  match encode e t with Some _ => true | None => false end.

Lemma encode_concat_some e l :
  forallb (encodable e) l = true ->
  encode e (List.concat l) = Some (List.concat (map (enc_or_nil e) l)).
Proof.
  induction l as [|t r IH]; intros H; [reflexivity|].
  cbn [forallb] in H. apply andb_true_iff in H. destruct H as [H1 H2].
  cbn [List.concat map]. rewrite encode_app, (IH H2).
  unfold encodable, enc_or_nil in *. destruct (encode e t); [reflexivity | discriminate].
Qed.

Lemma encode_concat_none e l :
  forallb (encodable e) l = false -> encode e (List.concat l) = None.
Proof.
  induction l as [|t r IH]; intros H; [discriminate|].
  cbn [forallb] in H. cbn [List.concat]. rewrite encode_app.
  unfold encodable in H at 1. destruct (encode e t); [|reflexivity].
  cbn [andb] in H. rewrite (IH H). reflexivity.
Qed.

Lemma opt_bytes_eqb_refl a : opt_bytes_eqb a a = true.
Proof. destruct a; [apply bytes_eqb_refl | reflexivity]. Qed.

(** * Shape of the loop's output *)

Definition is_nil {A} (l : list A) : bool := match l with [] => true | _ => false end.

(** Every data unit of the script is a non-empty value (an empty value IS the
    end-of-file signal of a Python stream and is written [SEof]). *)
Definition wf_script (m : in_mode) (e : enc) (s : list sread) : bool :=
  forallb (fun x => match x with SData u => negb (is_nil (unit_text m e u)) | _ => true end) s.

Definition texts_of (m : in_mode) (e : enc) (units : list (list N)) : list text :=
  map (unit_text m e) units.

Lemma finishes_cons x r :
  finishes (x :: r) = (match x with SFinish => true | _ => false end) || finishes r.
Proof. reflexivity. Qed.

Lemma handle_stdin_shape m e pty echo : forall s closed fin,
  wf_script m e s = true ->
  forallb (encodable e) (texts_of m e (deliverable fin s)) = true ->
  handle_stdin m e pty echo closed fin s =
  mkSout (map (enc_or_nil e) (texts_of m e (deliverable fin s)))
         (if pty || closed then 0 else if eof_reached fin s then 1 else 0)%nat
         (if echo then texts_of m e (deliverable fin s) else [])
         (fin || finishes s) false.
Proof.
  induction s as [|x r IH]; intros closed fin W E.
  - cbn. destruct fin, echo, pty, closed; reflexivity.
  - cbn [wf_script forallb] in W. apply andb_true_iff in W. destruct W as [Wx Wr].
    fold (wf_script m e r) in Wr.
    destruct x as [|u| |].
    + (* not ready *)
      cbn [handle_stdin deliverable eof_reached]. rewrite finishes_cons. cbn [orb].
      destruct fin.
      * cbn. destruct echo, pty, closed; reflexivity.
      * cbn [deliverable] in E. rewrite (IH closed false Wr E). reflexivity.
    + (* data *)
      cbn [deliverable texts_of map forallb] in E. apply andb_true_iff in E. destruct E as [Eu Er].
      fold (texts_of m e (deliverable fin r)) in Er.
      cbn [handle_stdin].
      destruct (unit_text m e u) as [|c t] eqn:U; [discriminate Wx|]. cbv beta iota.
      unfold encodable in Eu. destruct (encode e (c :: t)) as [w|] eqn:EN; [|discriminate].
      rewrite (IH closed fin Wr Er).
      cbn [deliverable eof_reached texts_of map]. rewrite finishes_cons. cbn [orb].
      fold (texts_of m e (deliverable fin r)).
      unfold so_cons_write. cbn [so_writes so_closes so_echo so_terminated so_died].
      assert (EW : enc_or_nil e (c :: t) = w) by (unfold enc_or_nil; rewrite EN; reflexivity).
      rewrite U, EW.
      destruct echo; reflexivity.
    + (* eof *)
      cbn [handle_stdin deliverable eof_reached]. rewrite finishes_cons. cbn [orb].
      destruct fin.
      * cbn. destruct echo, pty, closed; reflexivity.
      * cbn [deliverable] in E. rewrite (IH (closed || negb pty) false Wr E).
        unfold so_add_close. cbn [so_writes so_closes so_echo so_terminated so_died].
        destruct pty, closed; cbn; reflexivity.
    + (* finish *)
      cbn [handle_stdin deliverable eof_reached]. rewrite finishes_cons. cbn [orb].
      cbn [deliverable] in E. rewrite (IH closed true Wr E).
      rewrite orb_true_r. reflexivity.
Qed.

(** * Readable corollaries *)

(** Every delivered unit is forwarded exactly once, in order, encoded. *)
Lemma forward_in_order_once m e pty echo s :
  wf_script m e s = true ->
  forallb (encodable e) (texts_of m e (deliverable false s)) = true ->
  so_writes (handle_stdin m e pty echo false false s) =
  map (enc_or_nil e) (texts_of m e (deliverable false s)) /\
  so_died (handle_stdin m e pty echo false false s) = false.
Proof. intros W E. rewrite (handle_stdin_shape m e pty echo s false false W E). split; reflexivity. Qed.

Lemma close_once_on_eof m e pty echo s :
  wf_script m e s = true ->
  forallb (encodable e) (texts_of m e (deliverable false s)) = true ->
  so_closes (handle_stdin m e pty echo false false s) =
  (if pty then 0 else if eof_reached false s then 1 else 0)%nat.
Proof. intros W E. rewrite (handle_stdin_shape m e pty echo s false false W E). destruct pty; reflexivity. Qed.

(** Everything read before the command finished is among the delivered units
    (as a prefix: order kept). *)
Lemma before_finish_prefix s : exists rest, deliverable false s = before_finish s ++ rest.
Proof.
  induction s as [|x r [rest IH]].
  - exists []. reflexivity.
  - destruct x as [|u| |]; cbn [deliverable before_finish].
    + exists rest. exact IH.
    + exists rest. rewrite IH. reflexivity.
    + exists rest. exact IH.
    + exists (deliverable true r). reflexivity.
Qed.

Lemma all_data_before_finish_delivered m e pty echo s :
  wf_script m e s = true ->
  forallb (encodable e) (texts_of m e (deliverable false s)) = true ->
  exists rest,
    so_writes (handle_stdin m e pty echo false false s) =
    map (enc_or_nil e) (texts_of m e (before_finish s)) ++ rest.
Proof.
  intros W E. destruct (before_finish_prefix s) as [rest R].
  rewrite (handle_stdin_shape m e pty echo s false false W E). cbn [so_writes].
  rewrite R. unfold texts_of. rewrite !map_app. eexists. reflexivity.
Qed.

(** Once the command has finished the loop is left -- also when the worker dies. *)
Lemma terminates_after_finish m e pty echo : forall s closed fin,
  fin || finishes s = true -> so_terminated (handle_stdin m e pty echo closed fin s) = true.
Proof.
  induction s as [|x r IH]; intros closed fin F.
  - cbn in *. rewrite orb_false_r in F. subst fin. reflexivity.
  - rewrite finishes_cons in F. destruct x as [|u| |]; cbn [handle_stdin].
    + destruct fin; [reflexivity|]. apply IH. exact F.
    + destruct (unit_text m e u) as [|c t].
      * destruct fin; [reflexivity|]. unfold so_add_close. cbn [so_terminated]. apply IH. exact F.
      * destruct (encode e (c :: t)); [|reflexivity].
        unfold so_cons_write. cbn [so_terminated]. apply IH. exact F.
    + destruct fin; [reflexivity|]. unfold so_add_close. cbn [so_terminated]. apply IH. exact F.
    + apply IH. reflexivity.
Qed.

(** ... within (number of units available at that moment) + 1 further reads:
    the reads consumed after [SFinish] are the data burst plus one. *)
Fixpoint reads_used (fin : bool) (s : list sread) : nat :=
  match s with
  | [] => 0
  | SFinish :: r => reads_used true r
  | SData _ :: r => S (reads_used fin r)
  | _ :: r => if fin then 1 else S (reads_used fin r)
  end.

Lemma reads_after_finish_bounded s : (reads_used true s <= List.length (deliverable true s) + 1)%nat.
Proof.
  induction s as [|x r IH]; cbn [reads_used deliverable List.length]; [lia|].
  destruct x; cbn [List.length]; lia.
Qed.

(** Echo decision (finite table). *)
Lemma echo_table echo pty tty : echo_effective echo pty tty = echo_wanted echo pty tty.
Proof. destruct echo as [[|]|], pty, tty; reflexivity. Qed.

Lemma echo_text m e pty echo s :
  wf_script m e s = true ->
  forallb (encodable e) (texts_of m e (deliverable false s)) = true ->
  so_echo (handle_stdin m e pty echo false false s) =
  if echo then texts_of m e (deliverable false s) else [].
Proof. intros W E. rewrite (handle_stdin_shape m e pty echo s false false W E). reflexivity. Qed.

(** * The stdin side of the run against [spec_ok] *)

(** Guard of the partial theorem: a text-mode stream, or a byte-mode stream whose
    reads all end between characters (F-C13 otherwise). *)
Definition unit_guard (m : in_mode) (e : enc) (s : list sread) : bool :=
  match m with
  | MText => true
  | MBytes => cuts_at_initial e (deliverable false s ++ [[]])
  end.

Definition stdin_guard (i : stdin_in) : bool :=
  match si_stream i with
  | None => true
  | Some (m, _) => wf_script m (si_enc i) (si_script i) && unit_guard m (si_enc i) (si_script i)
  end.

Lemma cuts_all_initial e l :
  cuts_at_initial e (l ++ [[]]) = true ->
  List.concat (map (decode_all e) l) = decode_all e (List.concat l).
Proof.
  intros H. pose proof (chunked_decode_partial e _ H) as P.
  unfold decode_chunks in P. rewrite map_app, !concat_app in P. cbn in P.
  rewrite !app_nil_r in P. exact P.
Qed.

Lemma texts_concat m e s :
  unit_guard m e s = true ->
  List.concat (texts_of m e (deliverable false s)) = stream_text m e (deliverable false s).
Proof.
  destruct m; cbn [unit_guard stream_text]; intros G.
  - unfold texts_of. cbn [unit_text]. rewrite map_id. reflexivity.
  - unfold texts_of. cbn [unit_text]. rewrite <- decoder_is_reference. apply cuts_all_initial. exact G.
Qed.

Lemma stdin_meets_spec_partial i : stdin_guard i = true -> spec_in i (stdin_model i) = true.
Proof.
  unfold stdin_guard, spec_in, stdin_model, spec_ok.
  destruct (si_stream i) as [[m tty]|] eqn:S; intros G.
  2:{ cbn [sb_received sb_closes sb_echo sb_terminated sb_responses].
      rewrite encode_all_concat, opt_bytes_eqb_refl. reflexivity. }
  apply andb_true_iff in G. destruct G as [W U].
  cbn [sb_received sb_closes sb_echo sb_terminated sb_responses].
  rewrite encode_all_concat, opt_bytes_eqb_refl. cbn [andb].
  rewrite <- (texts_concat _ _ _ U).
  destruct (forallb (encodable (si_enc i)) (texts_of m (si_enc i) (deliverable false (si_script i)))) eqn:E.
  - rewrite (encode_concat_some _ _ E).
    rewrite (handle_stdin_shape m (si_enc i) (si_pty i) _ (si_script i) false false W E).
    cbn [so_writes so_closes so_echo so_terminated so_died orb].
    rewrite echo_table, opt_bytes_eqb_refl.
    destruct (si_pty i); cbn [orb andb];
      destruct (echo_wanted (si_echo i) _ tty); rewrite ?Nat.eqb_refl, ?text_eqb_refl, ?eqb_reflx; reflexivity.
  - rewrite (encode_concat_none _ _ E). reflexivity.
Qed.

Lemma stdin_meets_spec_text i :
  (match si_stream i with
   | Some (MBytes, _) => false
   | Some (MText, _) => wf_script MText (si_enc i) (si_script i)
   | None => true
   end) = true -> spec_in i (stdin_model i) = true.
Proof.
  intros H. apply stdin_meets_spec_partial. unfold stdin_guard.
  destruct (si_stream i) as [[[|] tty]|]; [|discriminate|reflexivity].
  rewrite H. reflexivity.
Qed.

Definition witness_c13 : stdin_in :=
  mkSin Utf8 (Some (MBytes, false)) None false [SData [195]; SData [169]; SEof; SFinish] [].

Lemma stdin_meets_spec_refuted :
  exists i, (match si_stream i with Some (m, _) => wf_script m (si_enc i) (si_script i) | None => true end) = true
            /\ spec_in i (stdin_model i) = false.
Proof. exists witness_c13. vm_compute. split; reflexivity. Qed.

(** Input stream disabled: nothing is forwarded, responses still are. *)
Lemma disabled_forwards_nothing e echo pty s resp :
  stdin_model (mkSin e None echo pty s resp) = mkSobs (Some []) 0 [] true (encode e (List.concat resp)).
Proof. unfold stdin_model. cbn. rewrite encode_all_concat. reflexivity. Qed.
