(** C01 <- C09 bridge: the parser context Collection.to_contexts builds from a
    well-formed task signature satisfies the static guard [ctx_guard] of the
    round-trip theorem (Proofs/C01_occ.v), so that theorem's hypothesis is
    discharged for every signature inside [C09Spec.guard] and [frag_guard]. *)
From InvokeVerif Require Import Model.ParserModel Corr.C01Corr Proofs.C01_steps Proofs.C01_occ.
From InvokeVerif Require Import Model.SigCtxModel Spec.C09Spec
     Proofs.C09_facts Proofs.C09_sig Proofs.C09_ctx Proofs.C09_wf Proofs.C09_main Proofs.C09_flagship.
From InvokeVerif Require Import Model.SigToCtx.
From Coq Require Import Lia Permutation.

(** the two developments define the same naming functions *)
Lemma to_flag_same n : CtxModel.to_flag n = SigModel.to_flag n.
Proof. reflexivity. Qed.

Lemma main_name_same a : main_name a = main_of a.
Proof. unfold main_name, main_of. destruct (a_names a); reflexivity. Qed.

Lemma init_value_same a : arg_value (init_arg a) = fresh_value a.
Proof.
  unfold arg_value, init_arg, init_value, fresh_value, initial_value. cbn [r_val r_spec].
  destruct (a_incrementable a); [destruct (a_default a); reflexivity|].
  destruct (a_kind a); reflexivity.
Qed.

(** fields that do not depend on taken_names *)
Lemma arg_opts_fields dc pos p t t' :
  let a := arg_opts dc pos p t in let b := arg_opts dc pos p t' in
  a_kind a = a_kind b /\ a_default a = a_default b /\ a_positional a = a_positional b /\
  a_optional a = a_optional b /\ a_incrementable a = a_incrementable b /\
  a_attr_name a = a_attr_name b.
Proof. repeat split. Qed.

(** * ParserContext(args=...) accepts the arguments *)
Lemma their_add_args rest : forall done,
  Forall (fun a => a_names a <> []) (done ++ rest) ->
  Forall (fun a => a_attr_name a <> Some EmptyString) (done ++ rest) ->
  NoDup (flat_map keys_of (done ++ rest)) ->
  CtxModel.add_args done rest = Ok (done ++ rest).
Proof.
  induction rest as [|a rest IH]; intros done Fn Fa ND; cbn [CtxModel.add_args].
  - now rewrite app_nil_r.
  - assert (Na : a_names a <> []).
    { apply Forall_app in Fn. destruct Fn as [_ Fn]. now inversion Fn. }
    unfold CtxModel.add_arg. destruct (a_names a) as [|n0 ns] eqn:En; [now elim Na|].
    assert (Chk : existsb (fun n => existsb (fun b => mem n (arg_keys b)) done) (n0 :: ns) = false).
    { apply not_true_is_false. intros C. apply existsb_exists in C. destruct C as [n [Hn C]].
      apply existsb_exists in C. destruct C as [b [Hb C]]. apply mem_In in C.
      assert (Kb : In n (keys_of b)).
      { unfold arg_keys in C. unfold keys_of, attrs_of.
        apply Forall_app in Fa. destruct Fa as [Fa _].
        pose proof (proj1 (Forall_forall _ _) Fa b Hb) as Ab. cbv beta in Ab.
        apply in_app_iff in C. apply in_or_app. destruct C as [C|C]; [now left|right].
        destruct (a_attr_name b) as [[|c x]|]; [congruence | exact C | exact C]. }
      rewrite flat_map_app in ND. cbn [flat_map] in ND.
      apply (NoDup_app_disjoint _ _ n ND).
      - apply in_or_app. left. unfold keys_of. apply in_or_app. left. now rewrite En.
      - apply in_flat_map. now exists b. }
    rewrite Chk.
    replace (done ++ a :: rest) with ((done ++ [a]) ++ rest) in * by now rewrite <- app_assoc.
    now apply IH.
Qed.

Section Bridge.
  Variable s : tsig.
  Hypothesis Hg : C09Spec.guard s = true.
  Let l := get_arguments s.

  Let W : wf_sig s = true := proj1 (C09_flagship.guard_parts s Hg).
  Let Hc : all_have_core s = true := proj1 (proj2 (C09_flagship.guard_parts s Hg)).
  Let Hic : no_inverse_clash s = true := proj2 (proj2 (C09_flagship.guard_parts s Hg)).

  Lemma good_l : good l.
  Proof. exact (C09_flagship.G s W). Qed.

  Lemma attr_nonempty a : In a l -> a_attr_name a <> Some EmptyString.
  Proof.
    intros Ha. destruct (get_arguments_in _ _ Ha) as (p & t & Hp & ->).
    rewrite attr_arg_opts. destruct (contains_char us (p_name p)); [|discriminate].
    intros C. injection C as C. pose proof (param_ident s W p Hp) as Hid.
    unfold ident_ok in Hid. rewrite C in Hid. discriminate.
  Qed.

  Theorem build_ctx_ok name aliases :
    build_ctx (Some name) aliases l = Ok (CtxModel.mkCtx (Some name) aliases l).
  Proof.
    unfold build_ctx. rewrite (their_add_args l []); [reflexivity | | |].
    - apply (g_nonempty _ good_l).
    - apply Forall_forall. intros a Ha. now apply attr_nonempty.
    - apply (g_keys _ good_l).
  Qed.

  (** ** distinct spellings, inverse forms included *)
  Lemma inv_keys_same a : a_names a <> [] ->
    match inverse_of a with Some x => [x] | None => [] end = map fst (inv_entry a).
  Proof.
    intros _. unfold inverse_of, inv_entry, is_true_bool. rewrite main_name_same.
    destruct (a_kind a); try reflexivity. destruct (a_default a) as [| | |[|]|]; reflexivity.
  Qed.

  Lemma their_spellings_perm :
    Permutation (CtxModel.all_spellings l)
                (map fst (T_flags l) ++ map fst (T_fal l) ++ map fst (T_inv l)).
  Proof.
    pose proof (g_nonempty _ good_l) as Fn.
    unfold CtxModel.all_spellings.
    eapply perm_trans; [apply flat_map_app_perm|].
    rewrite app_assoc. apply Permutation_app.
    - unfold arg_flags. rewrite <- map_flat_map, keys_T_flags, keys_T_fal, <- map_app.
      apply Permutation_map, names_perm, Fn.
    - unfold T_inv. rewrite map_flat_map.
      clear - Fn. induction l as [|a l0 IH]; [apply Permutation_refl|].
      inversion Fn as [|? ? Na Fn']; subst. cbn [flat_map].
      rewrite (inv_keys_same a Na). apply Permutation_app_head, IH, Fn'.
  Qed.

  Lemma their_wf_args : wf_args l = true.
  Proof.
    unfold wf_args. apply andb_true_iff. split.
    - apply forallb_forall. intros a Ha.
      pose proof (proj1 (Forall_forall _ _) (g_nonempty _ good_l) a Ha) as Na. cbv beta in Na.
      destruct (a_names a); [congruence | reflexivity].
    - apply nodupb_NoDup. eapply Permutation_NoDup; [apply Permutation_sym, their_spellings_perm|].
      pose proof (clause_flags_distinct s W Hic) as D.
      unfold flags_distinct in D. apply negb_true_iff, has_dup_NoDup in D.
      unfold C09Spec.all_spellings in D. cbn [cliT o_flags o_flag_aliases o_inverse] in D.
      rewrite <- app_assoc in D. exact D.
  Qed.

  (** ** every spelling is a clean flag token *)
  Lemma dash_char_props : dash_char us = false /\ dash_char "="%char = false.
  Proof. split; reflexivity. Qed.

  Lemma clean_short c : Ascii.eqb c "=" = false -> Ascii.eqb c "-" = false ->
    clean_flag (String "-" (String c EmptyString)) = true.
  Proof.
    intros H1 H2. unfold clean_flag.
    cbn [starts_with contains_char String.length Nat.eqb String.eqb].
    rewrite H1, H2, !Ascii.eqb_refl. change (Ascii.eqb "-" "=") with false.
    destruct (Ascii.eqb "-" c); reflexivity.
  Qed.

  Lemma clean_long k : contains_char "=" k = false -> k <> EmptyString ->
    clean_flag (String "-" (String "-" k)) = true.
  Proof.
    intros H1 H2. unfold clean_flag.
    cbn [starts_with contains_char String.eqb]. rewrite H1, !Ascii.eqb_refl.
    change (Ascii.eqb "-" "=") with false. destruct k; [now elim H2 | reflexivity].
  Qed.

  Lemma clean_of_chars k :
    all_chars dash_char k = true -> k <> EmptyString -> k <> "-"%string ->
    clean_flag (CtxModel.to_flag k) = true.
  Proof.
    intros Hch Hne Hnd. rewrite to_flag_same.
    assert (Hus : contains_char us k = false)
      by (apply (all_chars_contains _ _ _ Hch); reflexivity).
    assert (Heq : contains_char "="%char k = false)
      by (apply (all_chars_contains _ _ _ Hch); reflexivity).
    rewrite (to_flag_clean k Hus).
    destruct (Nat.eqb (String.length k) 1) eqn:L.
    - destruct k as [|c [|d k]]; try discriminate.
      cbn [contains_char] in Heq. rewrite orb_false_r in Heq.
      apply clean_short; [exact Heq|].
      destruct (Ascii.eqb c "-") eqn:E; [|reflexivity].
      apply Ascii.eqb_eq in E. subst c. now elim Hnd.
    - now apply clean_long.
  Qed.

  Lemma names_chars a k : In a l -> In k (a_names a) ->
    all_chars dash_char k = true /\ k <> EmptyString /\ k <> "-"%string.
  Proof.
    intros Ha Hk. destruct (long_flag_of_arg s a Ha) as [Hm _].
    destruct (arg_in_params s a Ha) as (p & t & Hp & Ea).
    assert (Emain : main_of a = dashed (p_name p)) by (rewrite Ea; apply main_of_arg_opts).
    assert (Hmain : all_chars dash_char (main_of a) = true).
    { rewrite Emain. apply translate_chars. pose proof (param_ident s W p Hp) as Hid.
      unfold ident_ok in Hid. now apply andb_true_iff in Hid. }
    assert (Hcore : main_of a <> EmptyString).
    { rewrite Emain. pose proof (proj1 (forallb_forall _ _) Hc p Hp) as H. cbv beta in H.
      unfold has_core in H. now apply negb_true_iff, String.eqb_neq in H. }
    pose proof (static_get_arguments s W) as St.
    assert (Hin : In k (flat_map a_names l)) by (apply in_flat_map; now exists a).
    destruct (clean_names_in _ _ (st_clean _ St) Hin) as [_ Hnd].
    destruct (at_most_one_short s a Ha) as [E|[c (E & Hd & _ & Hcin)]]; rewrite E in Hk.
    - destruct Hk as [<-|[]]. auto.
    - destruct Hk as [<-|[<-|[]]]; [auto|]. repeat split; [|discriminate | exact Hnd].
      cbn. rewrite andb_true_r. apply (all_chars_in dash_char c (main_of a) Hmain Hcin).
  Qed.

  Lemma their_clean : forallb clean_flag (CtxModel.all_spellings l) = true.
  Proof.
    apply forallb_forall. intros x Hx. unfold CtxModel.all_spellings in Hx.
    apply in_flat_map in Hx. destruct Hx as [a [Ha Hx]]. apply in_app_iff in Hx.
    destruct Hx as [Hx|Hx].
    - unfold arg_flags in Hx. apply in_map_iff in Hx. destruct Hx as [k [<- Hk]].
      destruct (names_chars a k Ha Hk) as (H1 & H2 & H3). now apply clean_of_chars.
    - unfold inverse_of in Hx. destruct (a_kind a); try (now destruct Hx).
      destruct (a_default a) as [| | |[|]|]; try (now destruct Hx). destruct Hx as [<-|[]].
      rewrite main_name_same.
      assert (Hm : In (main_of a) (a_names a)).
      { apply main_in_names. now apply (proj1 (Forall_forall _ _) (g_nonempty _ good_l)). }
      destruct (names_chars a _ Ha Hm) as (H1 & _ & _).
      apply clean_of_chars; [cbn; exact H1 | discriminate | discriminate].
  Qed.

  Lemma their_names_nodup : nodupb (map arg_name l) = true.
  Proof. apply nodupb_NoDup. exact (C09_flagship.names_nd s W). Qed.

  (** ** the two fragment conditions *)
  Hypothesis Hf : frag_guard s = true.

  Lemma their_no_missing name aliases :
    has_missing (init_ctx (CtxModel.mkCtx name aliases l)) = false.
  Proof.
    unfold has_missing, init_ctx. cbn [rc_args cx_args]. apply not_true_is_false. intros C.
    apply existsb_exists in C. destruct C as [r [Hr C]]. apply in_map_iff in Hr.
    destruct Hr as [a [<- Ha]]. cbn [r_spec init_arg] in C.
    destruct (arg_in_params s a Ha) as (p & t & Hp & Ea).
    unfold frag_guard in Hf. apply andb_true_iff in Hf. destruct Hf as [H1 _].
    pose proof (proj1 (forallb_forall _ _) H1 p Hp) as Hp1. cbv beta zeta in Hp1.
    apply negb_true_iff in Hp1. rewrite Ea in C.
    unfold arg_of_param in Hp1. rewrite !init_value_same in *.
    change (a_positional (arg_opts (s_deco s) (fill_implicit_positionals s) p t))
      with (a_positional (arg_opts (s_deco s) (fill_implicit_positionals s) p [])) in C.
    change (fresh_value (arg_opts (s_deco s) (fill_implicit_positionals s) p t))
      with (fresh_value (arg_opts (s_deco s) (fill_implicit_positionals s) p [])) in C.
    congruence.
  Qed.

  Lemma their_list_defaults : forallb list_default_ok l = true.
  Proof.
    apply forallb_forall. intros a Ha. destruct (arg_in_params s a Ha) as (p & t & Hp & Ea).
    unfold frag_guard in Hf. apply andb_true_iff in Hf. destruct Hf as [_ H2].
    pose proof (proj1 (forallb_forall _ _) H2 p Hp) as Hp2. cbv beta zeta in Hp2.
    rewrite Ea. exact Hp2.
  Qed.

  (** the context of a well-formed task satisfies the round-trip theorem's guard *)
  Theorem ctx_guard_of_sig name aliases :
    ctx_guard (CtxModel.mkCtx name aliases l) = true.
  Proof.
    unfold ctx_guard. cbn [cx_args].
    rewrite their_wf_args, their_clean, their_names_nodup, (their_no_missing name aliases),
      their_list_defaults. reflexivity.
  Qed.
End Bridge.

(** * the statement for sets of tasks *)
Definition task_ok (t : taskdef) : bool := C09Spec.guard (t_sig t) && frag_guard (t_sig t).

Theorem wf_ctx_of_wf_sig t :
  task_ok t = true ->
  exists c, ctx_of_task t = Ok c /\ cx_name c = Some (t_name t) /\ cx_aliases c = t_aliases t /\
            cx_args c = get_arguments (t_sig t) /\ ctx_guard c = true.
Proof.
  unfold task_ok. intros H. apply andb_true_iff in H. destruct H as [Hg Hf].
  exists (CtxModel.mkCtx (Some (t_name t)) (t_aliases t) (get_arguments (t_sig t))).
  split; [apply (build_ctx_ok _ Hg)|]. repeat split. now apply ctx_guard_of_sig.
Qed.

Theorem wf_ctxs_of_wf_sigs ts :
  forallb task_ok ts = true ->
  exists cs, ctxs_of_tasks ts = Ok cs /\
             map cx_name cs = map (fun t => Some (t_name t)) ts /\
             map cx_aliases cs = map t_aliases ts /\
             forallb ctx_guard cs = true.
Proof.
  induction ts as [|t ts IH]; intros H.
  - exists []. repeat split.
  - cbn [forallb] in H. apply andb_true_iff in H. destruct H as [Ht Hts].
    destruct (wf_ctx_of_wf_sig t Ht) as (c & Ec & En & Ea & _ & Gc).
    destruct (IH Hts) as (cs & Ecs & Ens & Eas & Gcs).
    exists (c :: cs). cbn [ctxs_of_tasks]. rewrite Ec, Ecs. repeat split; cbn.
    + now rewrite En, Ens.
    + now rewrite Ea, Eas.
    + now rewrite Gc, Gcs.
Qed.

(** non-vacuity: a task with a default-true boolean, a counter, a list and an
    underscored string parameter is inside both guards *)
Example bridge_example :
  let t := mkTask "build" ["b"]
             (mkSig [mkParam "clean" (DBool true); mkParam "verbose" (DInt 0);
                     mkParam "exclude" DNone; mkParam "out_dir" (DStr "x")]
                    (mkDeco None [] ["exclude"] ["verbose"] true)) in
  task_ok t = true /\
  exists c, ctx_of_task t = Ok c /\ ctx_guard c = true /\
            CtxModel.all_spellings (cx_args c) =
              ["--clean"; "-c"; "--no-clean"; "--verbose"; "-v"; "--exclude"; "-e"; "--out-dir"; "-o"].
Proof. cbv zeta. split; [vm_compute; reflexivity|]. eexists. split; [vm_compute; reflexivity|]. split; vm_compute; reflexivity. Qed.
