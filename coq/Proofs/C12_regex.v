(** Facts about the scanner of Model/RegexFam.v (the fixed-length pattern family). *)
From InvokeVerif Require Import Model.RegexFam.
From Coq Require Import Lia.

(** * lists *)
Lemma skipn_exact {A} (l1 l2 : list A) : skipn (List.length l1) (l1 ++ l2) = l2.
Proof. induction l1; simpl; auto. Qed.

Lemma firstn_exact {A} (l1 l2 : list A) : firstn (List.length l1) (l1 ++ l2) = l1.
Proof. induction l1; simpl; [reflexivity | f_equal; assumption]. Qed.

Lemma skipn_app_le {A} n (l1 l2 : list A) :
  n <= List.length l1 -> skipn n (l1 ++ l2) = skipn n l1 ++ l2.
Proof.
  revert l1; induction n as [|n IH]; intros l1 H; [reflexivity|].
  destruct l1 as [|a l1]; simpl in *; [lia | apply IH; lia].
Qed.

Lemma nth_firstn_lt {A} (l : list A) n j d : j < n -> nth j (firstn n l) d = nth j l d.
Proof.
  revert n j; induction l as [|a l IH]; intros n j H.
  - rewrite firstn_nil. reflexivity.
  - destruct n as [|n]; [lia|]. destruct j as [|j]; simpl; [reflexivity | apply IH; lia].
Qed.

Lemma app_eq_len {A} (a b c d : list A) :
  a ++ b = c ++ d -> List.length a = List.length c -> a = c /\ b = d.
Proof.
  revert c; induction a as [|x a IH]; intros [|y c] E L; simpl in *; try discriminate.
  - auto.
  - inversion E; subst. destruct (IH c H1) as [-> ->]; [lia | auto].
Qed.

(** * count_true / last_end *)
Lemma count_true_app l1 l2 : count_true (l1 ++ l2) = count_true l1 + count_true l2.
Proof. induction l1 as [|b l1 IH]; simpl; [reflexivity | rewrite IH; lia]. Qed.

Lemma count_true_repeat_false n : count_true (repeat false n) = 0.
Proof. induction n; simpl; auto. Qed.

Lemma last_end_le l : last_end l <= List.length l.
Proof.
  induction l as [|b l IH]; simpl; [lia|].
  destruct (last_end l); [destruct b; lia | lia].
Qed.

Lemma last_end_zero l : last_end l = 0 <-> count_true l = 0.
Proof.
  induction l as [|b l IH]; simpl; [tauto|].
  destruct (last_end l) eqn:E.
  - assert (C : count_true l = 0) by (apply IH; reflexivity).
    rewrite C. destruct b; simpl; split; intros H; lia.
  - split; intros H; [discriminate|].
    assert (count_true l = 0) by (destruct b; simpl in H; lia).
    apply IH in H0. discriminate.
Qed.

Lemma count_after_last_end l : count_true (skipn (last_end l) l) = 0.
Proof.
  induction l as [|b l IH]; simpl; [reflexivity|].
  destruct (last_end l) eqn:E.
  - assert (C : count_true l = 0) by (apply last_end_zero; assumption).
    destruct b; simpl; [simpl in IH; assumption | rewrite C; reflexivity].
  - simpl. exact IH.
Qed.

Lemma last_end_true l j : last_end l = S j -> nth j l false = true.
Proof.
  revert j; induction l as [|b l IH]; intros j H; simpl in H; [discriminate|].
  destruct (last_end l) eqn:E.
  - destruct b; [|discriminate]. inversion H; subst. reflexivity.
  - inversion H; subst. simpl. apply IH. reflexivity.
Qed.

(** * match_here *)
Lemma match_here_len p s : match_here p s = true -> List.length p <= List.length s.
Proof.
  revert s; induction p as [|c p IH]; intros s H; simpl; [lia|].
  destruct s as [|a s]; simpl in H; [discriminate|].
  apply andb_true_iff in H as [_ H]. apply IH in H. simpl. lia.
Qed.

Lemma match_here_app_long p s u :
  List.length p <= List.length s -> match_here p (s ++ u) = match_here p s.
Proof.
  revert s; induction p as [|c p IH]; intros s H; [reflexivity|].
  destruct s as [|a s]; simpl in *; [lia|]. rewrite IH; [reflexivity | lia].
Qed.

Lemma match_here_app p s u : match_here p s = true -> match_here p (s ++ u) = true.
Proof.
  intros H. rewrite match_here_app_long; [assumption | apply match_here_len; assumption].
Qed.

(** * marks *)
Lemma marks_length p k s : List.length (marks p k s) = List.length s.
Proof.
  revert k; induction s as [|a s IH]; intros k; [reflexivity|].
  cbn [marks]. destruct k as [|k].
  - destruct (match_here p (a :: s)); simpl; rewrite IH; reflexivity.
  - simpl; rewrite IH; reflexivity.
Qed.

Lemma marks_short0 p s : List.length s < List.length p -> marks p 0 s = repeat false (List.length s).
Proof.
  induction s as [|a s IH]; intros H; [reflexivity|].
  cbn [marks]. destruct (match_here p (a :: s)) eqn:E.
  - apply match_here_len in E. lia.
  - simpl. f_equal. apply IH. simpl in H. lia.
Qed.

Lemma marks_shortk p s u : forall k, List.length s < k ->
  firstn (List.length s) (marks p k (s ++ u)) = repeat false (List.length s).
Proof.
  induction s as [|a s IH]; intros k H; [reflexivity|].
  destruct k as [|k]; [lia|]. simpl in H. cbn [app marks List.length firstn repeat].
  f_equal.
  - apply Nat.eqb_neq. lia.
  - apply IH. lia.
Qed.

(** the marks of a text do not depend on what follows it *)
Lemma marks_prefix p s u : forall k,
  firstn (List.length s) (marks p k (s ++ u)) = marks p k s.
Proof.
  induction s as [|a s IH]; intros k; [reflexivity|].
  cbn [app List.length]. cbn [marks].
  destruct k as [|k].
  - destruct (match_here p (a :: s)) eqn:E1.
    + change (a :: s ++ u) with ((a :: s) ++ u). rewrite (match_here_app _ _ _ E1).
      cbn [firstn]. f_equal. apply IH.
    + destruct (match_here p (a :: s ++ u)) eqn:E2.
      * (* the match needs characters of [u]: nothing ends inside [a :: s] *)
        assert (L : List.length (a :: s) < List.length p).
        { destruct (Nat.le_gt_cases (List.length p) (List.length (a :: s))) as [Hle|Hgt]; [|assumption].
          change (a :: s ++ u) with ((a :: s) ++ u) in E2.
          rewrite match_here_app_long in E2 by assumption. congruence. }
        simpl in L. cbn [firstn]. f_equal.
        -- apply Nat.eqb_neq. lia.
        -- rewrite marks_shortk by lia. rewrite marks_short0 by lia. reflexivity.
      * cbn [firstn]. f_equal. apply IH.
  - cbn [firstn]. f_equal. apply IH.
Qed.

Lemma marks_app p k s u :
  marks p k (s ++ u) = marks p k s ++ skipn (List.length s) (marks p k (s ++ u)).
Proof.
  rewrite <- (firstn_skipn (List.length s) (marks p k (s ++ u))) at 1.
  rewrite marks_prefix. reflexivity.
Qed.

Lemma occ_app_le p s u : occ p s <= occ p (s ++ u).
Proof. unfold occ. rewrite (marks_app p 0 s u), count_true_app. lia. Qed.

(** the scanner resumes in state [st] *)
Lemma marks_st p : forall i s k, skipn i (marks p k s) = marks p (st p k s i) (skipn i s).
Proof.
  induction i as [|i IH]; intros s k; [reflexivity|].
  destruct s as [|a s]; [reflexivity|].
  cbn [marks st]. destruct k as [|k].
  - destruct (match_here p (a :: s)); cbn [skipn]; apply IH.
  - cbn [skipn]; apply IH.
Qed.

Lemma st_after_true p : forall s j k, nth j (marks p k s) false = true -> st p k s (S j) = 0.
Proof.
  induction s as [|a s IH]; intros j k H.
  - destruct j; discriminate.
  - cbn [marks] in H. cbn [st]. destruct k as [|k].
    + destruct (match_here p (a :: s)).
      * destruct j as [|j]; cbn [nth] in H.
        -- apply Nat.eqb_eq in H. rewrite H. reflexivity.
        -- apply IH. assumption.
      * destruct j as [|j]; cbn [nth] in H; [discriminate | apply IH; assumption].
    + destruct j as [|j]; cbn [nth] in H.
      * apply Nat.eqb_eq in H. subst. reflexivity.
      * apply IH. assumption.
Qed.

(** restarting the scan at a position where the scanner is free *)
Lemma marks_restart p s i :
  st p 0 s i = 0 -> marks p 0 s = firstn i (marks p 0 s) ++ marks p 0 (skipn i s).
Proof.
  intros H. rewrite <- (firstn_skipn i (marks p 0 s)) at 1. rewrite marks_st, H. reflexivity.
Qed.

(** if the marks of [b1 ++ s ++ u] split at [b1], so do those of [b1 ++ s] *)
Lemma restart_prefix p b1 s u m1 :
  marks p 0 (b1 ++ s ++ u) = m1 ++ marks p 0 (s ++ u) ->
  List.length m1 = List.length b1 ->
  marks p 0 (b1 ++ s) = m1 ++ marks p 0 s.
Proof.
  intros H L.
  rewrite <- (marks_prefix p (b1 ++ s) u 0). rewrite <- app_assoc, H.
  rewrite app_length, <- L, firstn_app_2. rewrite marks_prefix. reflexivity.
Qed.
