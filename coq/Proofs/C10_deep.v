(** C10, any depth: lookup resolves exactly the canonical names of the
    reference walk (names, aliases, default shortcuts), with the same task. *)
From InvokeVerif Require Import Model.CollModel Spec.C17Spec Spec.C10Spec.
From InvokeVerif Require Import Proofs.CollStrings Proofs.C17_merge Proofs.C17_path Proofs.C10_build
     Proofs.C10_flat.

(** every collection of the tree uses the auto-dash setting [ad] *)
Fixpoint uniform (ad : bool) (c : coll) : bool :=
  match c with
  | Coll _ _ _ subs _ ad' _ =>
      Bool.eqb ad ad' &&
      (fix go (l : list (string * coll)) : bool :=
         match l with [] => true | (_, sc) :: l' => uniform ad sc && go l' end) subs
  end.

Lemma uniform_unfold ad n t a subs d ad' g :
  uniform ad (Coll n t a subs d ad' g) = Bool.eqb ad ad' && forallb (fun kc => uniform ad (snd kc)) subs.
Proof.
  cbn [uniform]. f_equal. induction subs as [|[k sc] l IH]; [reflexivity|].
  cbn [forallb snd]. rewrite IH. reflexivity.
Qed.

Definition nonempty_segs (n : string) : bool :=
  forallb (fun seg => negb (String.eqb seg "")) (split_char "." n).

Lemma merged_with_ok cfg r t d :
  merged_with cfg r = Ok (t, d) -> exists d', r = Ok (t, d').
Proof.
  unfold merged_with. destruct r as [[t' inner]|e]; [|discriminate].
  destruct (merge_dicts inner (Node cfg)); [|discriminate]. intros H; inversion H; subst. eauto.
Qed.

(** the remainder of a transform-fixed dotted name is transform-fixed *)
Lemma fixed_rest ad nm k rest :
  transform ad nm = nm -> split_char "." nm = k :: split_char "." rest -> transform ad rest = rest.
Proof.
  intros Hf Hs. pose proof (split_transform ad nm) as H. rewrite Hf, Hs in H. cbn [map] in H.
  injection H as _ H2.
  rewrite <- (join_split (transform ad rest)), split_transform, <- H2. apply join_split.
Qed.

Lemma unwalk ad : forall c,
  uniform ad c = true -> ns_wf c = true -> ns_canon c = true ->
  forall nm t d, transform ad nm = nm -> (nm = "" \/ nonempty_segs nm = true) ->
  task_with_config c nm = Ok (t, d) ->
  exists cfgs, ref_path c (segs_of nm) = Some (t, cfgs).
Proof.
  induction c as [n tasks aliases subs dflt ad' cfg IH] using coll_ind'.
  intros Hu Hwf Hcan nm t d Hf Hne Htw.
  rewrite uniform_unfold in Hu. apply andb_true_iff in Hu as [Had Husubs].
  apply Bool.eqb_prop in Had. subst ad'.
  rewrite ns_wf_unfold in Hwf. rewrite ns_canon_unfold in Hcan.
  apply andb_true_iff in Hwf as [Hwf Hwsubs]. apply andb_true_iff in Hwf as [Hwf Hwcfg].
  apply andb_true_iff in Hwf as [Hwf Hwd]. apply andb_true_iff in Hwf as [Hnd1 Hal].
  apply nodupb_NoDup in Hnd1.
  apply andb_true_iff in Hcan as [Hkeys Hcsubs].
  rewrite forallb_forall in Hkeys, Hwsubs, Hcsubs, Husubs.
  rewrite Forall_forall in IH.
  rewrite ref_unfold. rewrite twc_unfold in Htw. unfold twc_step in Htw.
  rewrite (copy_dict_id (Node cfg) Hwcfg cfg eq_refl) in Htw.
  assert (forall k, In k (akeys tasks) \/ In k (akeys aliases) \/ In k (akeys subs) ->
                    transform ad k = k /\ contains_char "." k = false /\ k <> "") as Hkey.
  { intros k Hk. apply key_ok_spec, Hkeys.
    destruct Hk as [Hk|[Hk|Hk]]; apply in_or_app; [left; exact Hk | right | right];
      apply in_or_app; [left | right]; exact Hk. }
  (* a dot-free, transform-fixed last segment *)
  assert (forall s t0 d0, transform ad s = s -> contains_char "." s = false ->
            twc_nonempty (sub_twc subs) tasks aliases (fun k => has_key k subs) ad cfg s = Ok (t0, d0) ->
            exists cfgs,
              match sub_ref subs s [] with
              | Some r => ref_push cfg r
              | None => match task_here (Coll n tasks aliases subs dflt ad cfg) s with
                        | Some t1 => Some (t1, [cfg])
                        | None => None
                        end
              end = Some (t0, cfgs)) as Hlast.
  { intros s t0 d0 Hs Hd H. unfold twc_nonempty in H. rewrite Hs, Hd in H.
    unfold has_key in H. unfold sub_ref.
    destruct (assoc s subs) as [sc|] eqn:Es.
    - apply merged_with_ok in H. destruct H as [d' H]. unfold sub_twc in H. rewrite Es in H.
      pose proof (assoc_In _ _ _ Es) as HIn.
      destruct (IH _ HIn (Husubs _ HIn) (Hwsubs _ HIn) (Hcsubs _ HIn) "" t0 d' (transform_nil ad)
                   (or_introl eq_refl) H) as [cfgs' Hr].
      cbn [snd] in Hr. unfold segs_of in Hr. cbn [String.eqb] in Hr. rewrite Hr.
      cbn [ref_push]. eauto.
    - rewrite (lex_get_here tasks aliases subs Hnd1 Hal n dflt ad cfg s) in H.
      destruct (task_here (Coll n tasks aliases subs dflt ad cfg) s) as [t1|]; [|discriminate].
      inversion H; subst. eauto. }
  unfold ref_step.
  destruct (String.eqb nm "") eqn:Enm.
  - (* empty: the default *)
    apply String.eqb_eq in Enm. subst nm. unfold segs_of. cbn [String.eqb].
    destruct dflt as [d0|]; [|discriminate].
    destruct (String.eqb d0 "") eqn:Ed; [discriminate|].
    assert (In d0 (akeys tasks) \/ In d0 (akeys aliases) \/ In d0 (akeys subs)) as Hdin.
    { apply orb_true_iff in Hwd. destruct Hwd as [H|H]; apply mem_In in H; auto. }
    destruct (Hkey d0 Hdin) as [H1 [H2 _]].
    apply (Hlast d0 t d H1 H2 Htw).
  - destruct Hne as [->|Hne]; [discriminate|].
    unfold segs_of. rewrite Enm.
    destruct (contains_char "." nm) eqn:Edot.
    + (* k.rest *)
      unfold twc_nonempty in Htw. rewrite Hf, Edot in Htw.
      pose proof (partition_split nm) as P.
      destruct (partition_char "." nm) as [[k fl] rest]. destruct fl.
      * destruct P as [Hsp _].
        apply merged_with_ok in Htw. destruct Htw as [d' Htw].
        unfold sub_twc in Htw. destruct (assoc k subs) as [sc|] eqn:Es; [|discriminate].
        pose proof (assoc_In _ _ _ Es) as HIn.
        unfold nonempty_segs in Hne. rewrite Hsp in Hne. cbn [forallb] in Hne.
        apply andb_true_iff in Hne as [_ Hner].
        assert (rest <> "") as Hrne.
        { intros ->. simpl in Hner. discriminate. }
        destruct (IH _ HIn (Husubs _ HIn) (Hwsubs _ HIn) (Hcsubs _ HIn) rest t d'
                     (fixed_rest ad nm k rest Hf Hsp) (or_intror Hner) Htw) as [cfgs' Hr].
        cbn [snd] in Hr. unfold segs_of in Hr. apply String.eqb_neq in Hrne. rewrite Hrne in Hr.
        rewrite Hsp.
        destruct (split_char "." rest) as [|y l] eqn:Esr; [exfalso; eapply split_nonempty; eauto|].
        unfold sub_ref. rewrite Es, Hr. cbn [ref_push]. eauto.
      * destruct P as [_ [_ P3]]. congruence.
    + rewrite (split_dotfree nm Edot). apply (Hlast nm t d Hf Edot Htw).
Qed.

(** configurations are type-consistent along every path from the root *)
Fixpoint compat_down (outer : list dict) (c : coll) : bool :=
  match c with
  | Coll _ _ _ subs _ _ cfg =>
      forallb (fun g => compatible (Node g) (Node cfg)) outer &&
      (fix go (l : list (string * coll)) : bool :=
         match l with [] => true | (_, sc) :: l' => compat_down (outer ++ [cfg]) sc && go l' end) subs
  end.

Lemma compat_down_unfold outer n t a subs d ad cfg :
  compat_down outer (Coll n t a subs d ad cfg) =
  forallb (fun g => compatible (Node g) (Node cfg)) outer &&
  forallb (fun kc => compat_down (outer ++ [cfg]) (snd kc)) subs.
Proof.
  cbn [compat_down]. f_equal. induction subs as [|[k sc] l IH]; [reflexivity|].
  cbn [forallb snd]. rewrite IH. reflexivity.
Qed.

Definition outer_ok (outer cfgs : list dict) : bool :=
  forallb (fun g => forallb (fun h => compatible (Node g) (Node h)) cfgs) outer.

Lemma ref_path_compatible : forall c outer segs t cfgs,
  compat_down outer c = true -> ref_path c segs = Some (t, cfgs) ->
  all_compatible cfgs = true /\ outer_ok outer cfgs = true.
Proof.
  induction c as [n tasks aliases subs dflt ad cfg IH] using coll_ind'.
  intros outer segs t cfgs Hc Href.
  rewrite compat_down_unfold in Hc. apply andb_true_iff in Hc as [Hhere Hsubs].
  rewrite forallb_forall in Hsubs. rewrite Forall_forall in IH.
  rewrite ref_unfold in Href. unfold ref_step in Href.
  assert (outer_ok outer [cfg] = true) as Hsingle.
  { unfold outer_ok. apply forallb_forall. intros g Hg. cbn [forallb]. rewrite andb_true_r.
    rewrite forallb_forall in Hhere. apply Hhere; exact Hg. }
  (* the result of descending into a sub-collection *)
  assert (forall s rest r, sub_ref subs s rest = Some r -> ref_push cfg r = Some (t, cfgs) ->
                           all_compatible cfgs = true /\ outer_ok outer cfgs = true) as Hdown.
  { intros s rest r Hs Hp. unfold sub_ref in Hs. destruct (assoc s subs) as [sc|] eqn:Es; [|discriminate].
    inversion Hs; subst r. destruct (ref_path sc rest) as [[t' cfgs']|] eqn:Er; [|discriminate].
    cbn [ref_push] in Hp. inversion Hp; subst t' cfgs.
    pose proof (assoc_In _ _ _ Es) as HIn.
    destruct (IH _ HIn (outer ++ [cfg]) rest t cfgs' (Hsubs _ HIn) Er) as [H1 H2].
    unfold outer_ok in H2. rewrite forallb_app in H2. apply andb_true_iff in H2 as [H2a H2b].
    cbn [forallb] in H2b. rewrite andb_true_r in H2b.
    split.
    - cbn [all_compatible]. rewrite H2b, H1. reflexivity.
    - unfold outer_ok. apply forallb_forall. intros g Hg. cbn [forallb].
      rewrite forallb_forall in Hhere. rewrite (Hhere g Hg). cbn [andb].
      rewrite forallb_forall in H2a. apply H2a; exact Hg. }
  assert (forall s,
            match sub_ref subs s [] with
            | Some r => ref_push cfg r
            | None => match task_here (Coll n tasks aliases subs dflt ad cfg) s with
                      | Some t1 => Some (t1, [cfg])
                      | None => None
                      end
            end = Some (t, cfgs) -> all_compatible cfgs = true /\ outer_ok outer cfgs = true) as Hlast.
  { intros s H. destruct (sub_ref subs s []) as [r|] eqn:Es.
    - eapply Hdown; eauto.
    - destruct (task_here _ s); [|discriminate]. inversion H; subst. split; [reflexivity | exact Hsingle]. }
  destruct segs as [|s [|s2 rest]].
  - destruct dflt as [d0|]; [|discriminate]. apply (Hlast d0 Href).
  - apply (Hlast s Href).
  - destruct (sub_ref subs s (s2 :: rest)) as [r|] eqn:Es; [|discriminate].
    eapply Hdown; eauto.
Qed.

(** * Lookup resolves exactly the canonical names of the reference walk *)
Lemma canonical_parts ad n : canonical ad n = true ->
  transform ad n = n /\ nonempty_segs n = true /\ n <> "".
Proof.
  intros H. pose proof (canonical_nonempty ad n H) as Hne.
  unfold canonical in H. apply andb_true_iff in H as [H1 H2].
  split; [apply normalized_iff_fixed; exact H2|]. split; [exact H1 | exact Hne].
Qed.

Theorem lookup_iff_reference c n t :
  uniform (c_auto_dash c) c = true -> ns_wf c = true -> ns_canon c = true ->
  compat_down [] c = true -> canonical (c_auto_dash c) n = true ->
  (getitem c n = Ok t <-> exists cfgs, ref_path c (split_char "." n) = Some (t, cfgs)).
Proof.
  intros Hu Hwf Hcan Hcd Hc.
  destruct (canonical_parts _ _ Hc) as [Hf [Hseg Hne]].
  assert (segs_of n = split_char "." n) as Hso.
  { unfold segs_of. apply String.eqb_neq in Hne. rewrite Hne. reflexivity. }
  split.
  - intros Hg. unfold getitem in Hg.
    destruct (task_with_config c n) as [[t' d]|] eqn:Et; [|discriminate]. inversion Hg; subst t'.
    rewrite <- Hso. apply (unwalk (c_auto_dash c) c Hu Hwf Hcan n t d Hf (or_intror Hseg) Et).
  - intros [cfgs Hr]. rewrite <- Hso in Hr.
    destruct (ref_path_compatible c [] _ t cfgs Hcd Hr) as [Hall _].
    destruct (walk c Hwf Hcan _ t cfgs Hr Hall n (name_rel_segs_of n)) as [d [Hd _]].
    unfold getitem. rewrite Hd. reflexivity.
Qed.

Corollary contains_iff_reference c n :
  uniform (c_auto_dash c) c = true -> ns_wf c = true -> ns_canon c = true ->
  compat_down [] c = true -> canonical (c_auto_dash c) n = true ->
  (contains c n = Ok true <-> exists t cfgs, ref_path c (split_char "." n) = Some (t, cfgs)).
Proof.
  intros Hu Hwf Hcan Hcd Hc. split.
  - intros H. unfold contains in H. destruct (getitem c n) as [t|e] eqn:Eg.
    + exists t. apply (lookup_iff_reference c n t Hu Hwf Hcan Hcd Hc). exact Eg.
    + destruct e; discriminate.
  - intros [t [cfgs Hr]]. unfold contains.
    rewrite (proj2 (lookup_iff_reference c n t Hu Hwf Hcan Hcd Hc) (ex_intro _ cfgs Hr)). reflexivity.
Qed.
