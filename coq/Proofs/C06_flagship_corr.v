(** C06 flagship, stated on the correspondence record: the record whose
    observations are the model's own (session layer, history without held
    proxies) is accepted by [C06Corr.spec]. *)
From InvokeVerif Require Import Common.Tree Common.StrUtil Model.MergeModel Model.ConfigModel
     Spec.C03Spec Spec.C06Spec Corr.C06Corr Proofs.C06_refine Proofs.C06_flagship.

Definition view_step (x : outcome * dict * tree) : outcome * tree * tree :=
  let '(o, d, e) := x in (o, Node d, e).

Definition model_case (fs : fsys) (i : init_args) (c0 : cfg) (ops : list op) : case :=
  mk fs i (map Plain ops) (Ok (Node (c_cache c0)))
     (map view_step (snd (srun fs (sstart c0) (map Plain ops)))).

Lemma zip_nil ops : zip_trace ops [] = [].
Proof. destruct ops; reflexivity. Qed.

Lemma mtrace_srun fs : forall ops s,
  zip_trace (map Plain ops) (map view_step (snd (srun fs s (map Plain ops)))) = mtrace fs (s_cfg s) ops.
Proof.
  induction ops as [|o rest IH]; intros s; [reflexivity|].
  cbn [map srun mtrace]. destruct (sstep_plain fs s o) as [E1 E2].
  destruct (sstep fs s (Plain o)) as [s' out]. cbn [fst snd] in E1, E2. rewrite <- E1, <- E2.
  destruct (abnormal out).
  - cbn [snd map view_step zip_trace]. rewrite zip_nil. reflexivity.
  - specialize (IH s'). destruct (srun fs s' (map Plain rest)) as [s'' tr].
    cbn [snd map view_step zip_trace] in *. rewrite IH. reflexivity.
Qed.

Theorem model_case_meets_spec S fs i c0 ops :
  is_node S = true -> start fs i = Ok c0 -> good0 S c0 = true -> forallb (hist_ok S) ops = true ->
  spec (model_case fs i c0 ops) = true.
Proof.
  intros HS Hs H0 Hok. unfold spec, model_case. cbn [c_fs c_init c_view0 c_ops c_trace].
  rewrite (mtrace_srun fs ops (sstart c0)). apply (model_trace_meets_spec S fs i c0 ops HS Hs H0 Hok).
Qed.
