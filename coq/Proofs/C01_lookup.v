(** C01 proof, part 3: with pairwise distinct spellings, a flag spelling of
    argument [i] is looked up as argument [i]; a task name or alias of context
    [c] is looked up as [c]. *)
From InvokeVerif Require Import Model.ParserModel Proofs.ListFacts Proofs.C01_steps Proofs.C01_tokens.
From Coq Require Import Lia.

Lemma existsb_mem_in (x : string) l : mem x l = true <-> In x l.
Proof. apply mem_In. Qed.

Definition spellings_of (a : argspec) : list string :=
  arg_flags a ++ match inverse_of a with Some s => [s] | None => [] end.

Lemma all_spellings_cons a l : all_spellings (a :: l) = spellings_of a ++ all_spellings l.
Proof. reflexivity. Qed.

Lemma in_all_spellings specs i a x :
  nth_error specs i = Some a -> In x (spellings_of a) -> In x (all_spellings specs).
Proof.
  intros N H. unfold all_spellings. apply in_flat_map. exists a. split; [|exact H].
  eapply nth_error_In; eauto.
Qed.

(** no spelling of the head argument occurs among the spellings of the rest *)
Lemma nodup_head_disjoint a l x :
  nodupb (all_spellings (a :: l)) = true ->
  In x (spellings_of a) -> In x (all_spellings l) -> False.
Proof.
  rewrite all_spellings_cons, nodupb_app, !andb_true_iff, negb_true_iff.
  intros [_ D] Ha Hl.
  assert (existsb (fun y => mem y (spellings_of a)) (all_spellings l) = true).
  { apply existsb_exists. exists x. split; [exact Hl | apply mem_In; exact Ha]. }
  congruence.
Qed.

Lemma nodup_tail a l : nodupb (all_spellings (a :: l)) = true -> nodupb (all_spellings l) = true.
Proof. rewrite all_spellings_cons, nodupb_app, !andb_true_iff. tauto. Qed.

Lemma find_flag_spec_unique : forall specs i a fl,
  nodupb (all_spellings specs) = true ->
  nth_error specs i = Some a -> In fl (arg_flags a) ->
  find_flag_spec specs fl = Some i.
Proof.
  induction specs as [|b specs IH]; intros [|i] a fl ND N H; simpl in N; try discriminate.
  - injection N as ->. unfold find_flag_spec. simpl.
    apply mem_In in H. rewrite H. reflexivity.
  - unfold find_flag_spec. simpl.
    destruct (mem fl (arg_flags b)) eqn:E.
    + exfalso. apply mem_In in E. eapply (nodup_head_disjoint b specs fl ND).
      * unfold spellings_of. apply in_or_app. left. exact E.
      * eapply in_all_spellings; [exact N|]. unfold spellings_of. apply in_or_app. left. exact H.
    + pose proof (IH i a fl (nodup_tail _ _ ND) N H) as R. unfold find_flag_spec in R.
      rewrite R. reflexivity.
Qed.

Lemma find_flag_spec_none_inverse : forall specs i a s,
  nodupb (all_spellings specs) = true ->
  nth_error specs i = Some a -> inverse_of a = Some s ->
  find_flag_spec specs s = None.
Proof.
  intros specs i a s ND N Iv. unfold find_flag_spec. apply find_index_none_iff.
  intros b Hb. apply not_true_is_false. intros M. apply mem_In in M.
  (* s is both a flag of b and the inverse spelling of a: twice in all_spellings *)
  revert i a b N Iv Hb M ND. induction specs as [|c specs IH]; intros i a b N Iv Hb M ND.
  - destruct i; discriminate.
  - destruct i as [|i]; simpl in N.
    + injection N as ->. destruct Hb as [->|Hb].
      * (* same argument: flags ++ [s] has s twice *)
        rewrite all_spellings_cons, nodupb_app, !andb_true_iff in ND. destruct ND as [[ND _] _].
        unfold spellings_of in ND. rewrite Iv in ND. rewrite nodupb_app in ND.
        rewrite !andb_true_iff, negb_true_iff in ND. destruct ND as [_ ND]. simpl in ND.
        rewrite orb_false_r in ND. apply mem_In in M. congruence.
      * eapply (nodup_head_disjoint a specs s ND).
        -- unfold spellings_of. rewrite Iv. apply in_or_app. right. left. reflexivity.
        -- apply in_flat_map. exists b. split; [exact Hb|]. apply in_or_app. left. exact M.
    + destruct Hb as [->|Hb].
      * eapply (nodup_head_disjoint b specs s ND).
        -- unfold spellings_of. apply in_or_app. left. exact M.
        -- eapply in_all_spellings; [exact N|]. unfold spellings_of. rewrite Iv.
           apply in_or_app. right. left. reflexivity.
      * eapply IH; eauto. eapply nodup_tail; eauto.
Qed.

(** the argument whose inverse spelling is [s] is the first (only) one *)
Lemma find_inverse_owner : forall specs i a s,
  nodupb (all_spellings specs) = true ->
  nth_error specs i = Some a -> inverse_of a = Some s ->
  find (is_inverse_of s) specs = Some a.
Proof.
  induction specs as [|b specs IH]; intros [|i] a s ND N Iv; simpl in N; try discriminate.
  - injection N as ->. simpl. unfold is_inverse_of. rewrite Iv, String.eqb_refl. reflexivity.
  - simpl. destruct (is_inverse_of s b) eqn:E.
    + exfalso. unfold is_inverse_of in E. destruct (inverse_of b) as [s'|] eqn:Ib; [|discriminate].
      apply String.eqb_eq in E. subst s'.
      eapply (nodup_head_disjoint b specs s ND).
      * unfold spellings_of. rewrite Ib. apply in_or_app. right. left. reflexivity.
      * eapply in_all_spellings; [exact N|]. unfold spellings_of. rewrite Iv.
        apply in_or_app. right. left. reflexivity.
    + eapply IH; eauto. eapply nodup_tail; eauto.
Qed.

Lemma find_map_spec (args : list rarg) (q : argspec -> bool) :
  option_map r_spec (find (fun r => q (r_spec r)) args) = find q (map r_spec args).
Proof. induction args as [|r l IH]; simpl; [reflexivity|]. destruct (q (r_spec r)); auto. Qed.

Lemma find_flag_args (args : list rarg) tok :
  find_flag args tok = find_flag_spec (map r_spec args) tok.
Proof.
  unfold find_flag, find_flag_spec. induction args as [|r l IH]; simpl; [reflexivity|].
  destruct (mem tok (arg_flags (r_spec r))); [reflexivity|]. rewrite IH. reflexivity.
Qed.

Lemma find_inverse_args (args : list rarg) specs i a s :
  map r_spec args = specs ->
  nodupb (all_spellings specs) = true ->
  nth_error specs i = Some a -> inverse_of a = Some s ->
  find_inverse args s = Some (to_flag (main_name a)).
Proof.
  intros Sh ND N Iv. unfold find_inverse.
  pose proof (find_map_spec args (is_inverse_of s)) as F. rewrite Sh in F.
  rewrite (find_inverse_owner specs i a s ND N Iv) in F.
  destruct (find (fun r => is_inverse_of s (r_spec r)) args) as [r|]; simpl in F; [|discriminate].
  injection F as ->. reflexivity.
Qed.

Lemma main_flag_in a : a_names a <> [] -> In (to_flag (main_name a)) (arg_flags a).
Proof.
  unfold main_name, arg_flags. destruct (a_names a) as [|n l]; [congruence|]. intros _. left. reflexivity.
Qed.

(** contexts *)
Lemma ctx_named_labels tok c : ctx_named tok c = true -> In tok (ctx_labels c).
Proof.
  unfold ctx_named, ctx_labels. destruct (cx_name c) as [n|]; [|discriminate].
  rewrite orb_true_iff. intros [E|E].
  - apply String.eqb_eq in E. subst. left. reflexivity.
  - right. apply mem_In. exact E.
Qed.

Lemma find_ctx_unique : forall cs i c tok,
  nodupb (flat_map ctx_labels cs) = true ->
  nth_error cs i = Some c -> ctx_named tok c = true ->
  find_ctx cs tok = Some c.
Proof.
  induction cs as [|b cs IH]; intros [|i] c tok ND N H; simpl in N; try discriminate.
  - injection N as ->. unfold find_ctx. simpl. rewrite H. reflexivity.
  - unfold find_ctx. simpl. destruct (ctx_named tok b) eqn:E.
    + exfalso. simpl in ND. rewrite nodupb_app, !andb_true_iff, negb_true_iff in ND.
      destruct ND as [_ D].
      assert (existsb (fun y => mem y (ctx_labels b)) (flat_map ctx_labels cs) = true).
      { apply existsb_exists. exists tok. split.
        - apply in_flat_map. exists c. split; [eapply nth_error_In; eauto | apply ctx_named_labels; exact H].
        - apply mem_In. apply ctx_named_labels. exact E. }
      congruence.
    + apply (IH i c tok); auto. simpl in ND. rewrite nodupb_app, !andb_true_iff in ND. tauto.
Qed.
