(** C01, counters: an incrementable flag repeated ("-v -v -v", [FRep]) or
    stacked on its short name ("-vvv", [FStack]).  Every occurrence of the flag
    adds one; the stacked token is split into as many copies of the short flag.
    Same shape as [occ_steps] (Proofs/C01_occ.v). *)
From InvokeVerif Require Import Model.ParserModel Corr.C01Corr Proofs.ListFacts Proofs.C07_fuel
     Proofs.C01_steps Proofs.C01_tokens Proofs.C01_lookup Proofs.C01_occ Proofs.C01_form_glued.
From Coq Require Import Lia.

(** a counter's current value is an int, or the bool it was declared with *)
Definition countable (v : aval) : bool :=
  match v with AInt _ | ABool _ => true | _ => false end.

Definition bump (v : aval) : aval :=
  match v with
  | AInt z => AInt (z + 1)%Z
  | ABool b => AInt (if b then 2 else 1)%Z
  | v => v
  end.

Lemma set_value_counter r :
  a_incrementable (r_spec r) = true -> countable (arg_value r) = true ->
  set_value r (IBool true) true = Ok (mkRArg (r_spec r) true (bump (arg_value r))).
Proof.
  intros Hi Hc. unfold set_value, new_value. rewrite Hi.
  destruct (arg_value r); try discriminate; reflexivity.
Qed.

Lemma takes_value_counter a : a_incrementable a = true -> takes_value a = false.
Proof. intros H. unfold takes_value. rewrite H. destruct (a_kind a); reflexivity. Qed.

Section Counter.
Variable p : parser.
Variable i0 : rctx.
Variable done : list rctx.
Let kk := S (List.length done).

Lemma handle_counter_flag cur fl got tok i r :
  inert (MS i0 done cur fl got) ->
  find_flag (rc_args cur) tok = Some i -> nth_error (rc_args cur) i = Some r ->
  a_incrementable (r_spec r) = true -> countable (arg_value r) = true ->
  handle p tok (MS i0 done cur fl got)
  = Ok (MS i0 done (upd_cur cur i (mkRArg (r_spec r) true (bump (arg_value r)))) (Some (kk, i)) false).
Proof.
  intros I F N Hi Hc.
  unfold handle. cbn [m_st MS pstate_eqb]. rewrite MS_cur. cbn [ctx_has_flag]. rewrite F.
  unfold switch_to_flag, bind. rewrite (inert_check_ambiguity p tok _ I), (inert_complete_flag _ I).
  rewrite MS_cur. cbn [m_cur MS]. rewrite F.
  change (set_flag (MS i0 done cur fl got) (Some (S (List.length done), i)) false)
    with (MS i0 done cur (Some (kk, i)) false).
  rewrite MS_get_arg_cur, N, (takes_value_counter _ Hi). cbn [negb].
  unfold set_arg_value. rewrite MS_get_arg_cur, N, (set_value_counter r Hi Hc).
  rewrite MS_put_arg. reflexivity.
Qed.

Lemma step_counter_flag cur fl got tok i r :
  inert (MS i0 done cur fl got) -> clean_flag tok = true ->
  find_flag (rc_args cur) tok = Some i -> nth_error (rc_args cur) i = Some r ->
  a_incrementable (r_spec r) = true -> countable (arg_value r) = true ->
  step p (MS i0 done cur fl got) tok
  = Ok (MS i0 done (upd_cur cur i (mkRArg (r_spec r) true (bump (arg_value r)))) (Some (kk, i)) false, []).
Proof.
  intros I C F N Hi Hc. unfold step, bind.
  rewrite (clean_flag_presplit (MS i0 done cur fl got) _ C eq_refl), (inert_rollback _ _ _ I). cbn [fst snd].
  rewrite (handle_counter_flag cur fl got tok i r I F N Hi Hc). reflexivity.
Qed.

(** the stacked token "-ccc" (k+2 letters... i.e. the flag "-c" followed by [k]
    more letters c): handled as "-c", pushing [k] more copies of "-c" *)
Lemma dash_each_repeat c k :
  dash_each (repeat_str (String c EmptyString) k) = repeat (String "-" (String c EmptyString)) k.
Proof. induction k as [|k IH]; [reflexivity|]. cbn. f_equal. exact IH. Qed.

Lemma stack_presplit m c k cur i r :
  Ascii.eqb c "-" = false -> Ascii.eqb c "=" = false ->
  m_unparsed m = [] -> m_st m = SContext -> cur_ctx m = Some cur ->
  find_flag (rc_args cur) (String "-" (String c EmptyString)) = Some i ->
  nth_error (rc_args cur) i = Some r -> takes_value (r_spec r) = false ->
  presplit m (String "-" (String c (repeat_str (String c EmptyString) (S k))))
  = Ok (String "-" (String c EmptyString), repeat (String "-" (String c EmptyString)) (S k)).
Proof.
  intros Hd He U St Cc F N Tv. unfold presplit, is_flag, is_long_flag. rewrite U.
  cbn [starts_with]. rewrite Ascii.eqb_refl. cbn [andb].
  assert (Hc : contains_char "=" (String "-" (String c (repeat_str (String c "") (S k)))) = false).
  { cbn [contains_char]. change (Ascii.eqb "-" "=") with false. rewrite He. cbn [orb].
    generalize (S k) as n. induction n as [|n IH]; [reflexivity|]. cbn. rewrite He. exact IH. }
  rewrite Hc.
  assert (Hd' : Ascii.eqb "-" c = false).
  { destruct (Ascii.eqb "-" c) eqn:X; [|reflexivity]. apply Ascii.eqb_eq in X. subst c. discriminate. }
  rewrite Hd'. cbn [andb negb].
  cbn [repeat_str append String.length Nat.ltb Nat.leb take drop].
  rewrite Cc, F, N, Tv, andb_false_r.
  change (String c (repeat_str (String c "") k)) with (repeat_str (String c "") (S k)).
  now rewrite dash_each_repeat.
Qed.

Lemma step_counter_stack cur fl got c k i r :
  inert (MS i0 done cur fl got) ->
  Ascii.eqb c "-" = false -> Ascii.eqb c "=" = false ->
  find_flag (rc_args cur) (String "-" (String c EmptyString)) = Some i ->
  nth_error (rc_args cur) i = Some r ->
  a_incrementable (r_spec r) = true -> countable (arg_value r) = true ->
  step p (MS i0 done cur fl got) (String "-" (String c (repeat_str (String c EmptyString) (S k))))
  = Ok (MS i0 done (upd_cur cur i (mkRArg (r_spec r) true (bump (arg_value r)))) (Some (kk, i)) false,
        repeat (String "-" (String c EmptyString)) (S k)).
Proof.
  intros I Hd He F N Hi Hc. unfold step, bind.
  rewrite (stack_presplit (MS i0 done cur fl got) c k cur i r Hd He eq_refl eq_refl
             (MS_cur i0 done cur fl got) F N (takes_value_counter _ Hi)).
  rewrite (inert_rollback _ _ _ I). cbn [fst snd].
  rewrite (handle_counter_flag cur fl got _ i r I F N Hi Hc). reflexivity.
Qed.
End Counter.

(** ** occurrence level *)

(** [run_occ] applied once per increment *)
Fixpoint iter_occ (n : nat) (args : list rarg) (o : occ) : list rarg :=
  match n with
  | O => args
  | S n' => iter_occ n' (run_occ args o) o
  end.

(** every counter of the task currently holds an int or its declared bool *)
Definition counters_ok (args : list rarg) : Prop :=
  forall i r, nth_error args i = Some r -> a_incrementable (r_spec r) = true ->
              countable (arg_value r) = true.

Definition occ_counter (c : ctxspec) (o : occ) : bool :=
  match nth_error (cx_args c) (o_arg o) with
  | None => false
  | Some a =>
      Nat.ltb (o_name o) (List.length (a_names a)) &&
      a_incrementable a && negb (akind_eqb (a_kind a) KList) &&
      match o_form o, o_val o with
      | FRep, VN n => Nat.leb 1 n
      | FStack, VN n => Nat.leb 1 n && Nat.eqb (String.length (flag_of a (o_name o))) 2
      | _, _ => false
      end
  end.

(** counters start countable when their declared default is an int or a bool *)
Lemma counters_ok_init (c : ctxspec) :
  forallb (fun a => negb (a_incrementable a) || countable (a_default a)) (cx_args c) = true ->
  counters_ok (rc_args (init_ctx c)).
Proof.
  intros H i r N Hi. unfold init_ctx in N. cbn [rc_args] in N.
  destruct (nth_error_map_inv _ _ _ _ N) as [a [Na <-]]. cbn [r_spec init_arg] in *.
  pose proof (proj1 (forallb_forall _ _) H a (nth_error_In _ _ Na)) as Ha. cbv beta in Ha.
  rewrite Hi in Ha. cbn [negb orb] in Ha.
  unfold arg_value, init_arg, init_value. cbn [r_val r_spec]. rewrite Hi.
  destruct (a_default a); try discriminate; reflexivity.
Qed.

(** updating a non-counter argument keeps the counters *)
Lemma counters_ok_upd args i r r' :
  counters_ok args -> nth_error args i = Some r ->
  (a_incrementable (r_spec r') = true -> countable (arg_value r') = true) ->
  counters_ok (upd_nth i r' args).
Proof.
  intros Hc N H j rj Nj Hj. destruct (Nat.eq_dec i j) as [<-|Ne].
  - rewrite (nth_error_upd_nth_same _ _ _ _ N) in Nj. injection Nj as <-. now apply H.
  - rewrite (nth_error_upd_nth_other _ _ _ _ Ne) in Nj. eapply Hc; eauto.
Qed.

Section CounterOcc.
Variable p : parser.
Variable i0 : rctx.
Variable done : list rctx.
Variable c : ctxspec.
Variable given : list nat.
Variable o : occ.
Variable a : argspec.
Variable tok : string.
Hypothesis Na : nth_error (cx_args c) (o_arg o) = Some a.
Hypothesis Hinc : a_incrementable a = true.
Hypothesis Hnl : akind_eqb (a_kind a) KList = false.
Hypothesis Hval : occ_input o = IBool true.
Hypothesis Hflag : forall args, map r_spec args = cx_args c -> find_flag args tok = Some (o_arg o).

(** one increment *)
Lemma counter_one cur :
  st_ok c given (rc_args cur) -> counters_ok (rc_args cur) ->
  exists r, nth_error (rc_args cur) (o_arg o) = Some r /\ r_spec r = a /\
            countable (arg_value r) = true /\
            run_occ (rc_args cur) o
              = upd_nth (o_arg o) (mkRArg (r_spec r) true (bump (arg_value r))) (rc_args cur) /\
            st_ok c given (run_occ (rc_args cur) o) /\ counters_ok (run_occ (rc_args cur) o).
Proof.
  intros St Co. pose proof (so_shape _ _ _ St) as Sh.
  assert (Nr : exists r, nth_error (rc_args cur) (o_arg o) = Some r /\ r_spec r = a).
  { apply nth_error_map_inv. rewrite Sh. exact Na. }
  destruct Nr as [r [Nr Sr]]. exists r.
  assert (Hi : a_incrementable (r_spec r) = true) by (rewrite Sr; exact Hinc).
  assert (Hc : countable (arg_value r) = true) by (eapply Co; eauto).
  assert (E : run_occ (rc_args cur) o
              = upd_nth (o_arg o) (mkRArg (r_spec r) true (bump (arg_value r))) (rc_args cur)).
  { unfold run_occ. rewrite Nr, Hval, (set_value_counter r Hi Hc). reflexivity. }
  assert (Hb : aval_is_none (bump (arg_value r)) = false)
    by (destruct (arg_value r); try discriminate; reflexivity).
  split; [exact Nr|]. split; [exact Sr|]. split; [exact Hc|]. split; [exact E|]. rewrite E. split.
  - eapply st_ok_after_set; eauto.
    + intros K. rewrite Sr in K. rewrite K in Hnl. discriminate.
    + intros T. rewrite (takes_value_counter _ Hi) in T. discriminate.
  - eapply counters_ok_upd; eauto. intros _.
    destruct (arg_value r); try discriminate Hc; reflexivity.
Qed.

(** [n] copies of the flag *)
Lemma counter_run n : forall cur fl got,
  clean_flag tok = true ->
  st_ok c given (rc_args cur) -> counters_ok (rc_args cur) -> inert (MS i0 done cur fl got) ->
  exists fl' got',
    steps p (MS i0 done cur fl got) (repeat tok n)
            (MS i0 done (with_args cur (iter_occ n (rc_args cur) o)) fl' got') /\
    inert (MS i0 done (with_args cur (iter_occ n (rc_args cur) o)) fl' got') /\
    st_ok c given (iter_occ n (rc_args cur) o) /\ counters_ok (iter_occ n (rc_args cur) o).
Proof.
  induction n as [|n IH]; intros cur fl got C St Co I.
  - exists fl, got. cbn [repeat iter_occ].
    assert (E : with_args cur (rc_args cur) = cur) by (destruct cur; reflexivity). rewrite E.
    split; [apply steps_nil|]. split; [exact I|]. split; assumption.
  - destruct (counter_one cur St Co) as (r & Nr & Sr & Hc & E & St' & Co').
    assert (Hi : a_incrementable (r_spec r) = true) by (rewrite Sr; exact Hinc).
    pose proof (step_counter_flag p i0 done cur fl got tok (o_arg o) r I C
                  (Hflag _ (so_shape _ _ _ St)) Nr Hi Hc) as S1.
    set (cur' := with_args cur (run_occ (rc_args cur) o)).
    assert (Ecur : upd_cur cur (o_arg o) (mkRArg (r_spec r) true (bump (arg_value r))) = cur').
    { unfold upd_cur, cur'. now rewrite E. }
    rewrite Ecur in S1.
    assert (I' : inert (MS i0 done cur' (Some (S (List.length done), o_arg o)) false)).
    { rewrite <- Ecur. apply inert_after; [congruence | reflexivity |].
      unfold needs_value, takes_value. cbn [r_spec]. rewrite Hi, Sr, Hnl.
      destruct (a_kind a); reflexivity. }
    destruct (IH cur' _ _ C St' Co' I') as (fl' & got' & S2 & I2 & St2 & Co2).
    exists fl', got'. cbn [repeat iter_occ].
    split; [|split; [exact I2|split; assumption]].
    econstructor; [exact S1|]. cbn [app]. exact S2.
Qed.
End CounterOcc.

(** the tokens of a counter occurrence, repeated or stacked *)
Lemma occ_counter_steps p i0 c given o done cur fl got :
  ctx_guard c = true -> occ_counter c o = true ->
  st_ok c given (rc_args cur) -> counters_ok (rc_args cur) -> inert (MS i0 done cur fl got) ->
  exists fl' got',
    steps p (MS i0 done cur fl got) (spell_occ c o)
            (MS i0 done (with_args cur (iter_occ (count_of (o_val o)) (rc_args cur) o)) fl' got') /\
    inert (MS i0 done (with_args cur (iter_occ (count_of (o_val o)) (rc_args cur) o)) fl' got') /\
    st_ok c given (iter_occ (count_of (o_val o)) (rc_args cur) o) /\
    counters_ok (iter_occ (count_of (o_val o)) (rc_args cur) o).
Proof.
  intros G Os St Co I.
  destruct (guard_parts c G) as [ND [Nn [Cl Ld]]].
  unfold occ_counter in Os. unfold spell_occ.
  destruct (nth_error (cx_args c) (o_arg o)) as [a|] eqn:Na; [|discriminate].
  rewrite !andb_true_iff, negb_true_iff in Os. destruct Os as [[[Lk Hinc] Hnl] Os].
  apply Nat.ltb_lt in Lk.
  set (tok := flag_of a (o_name o)) in *.
  assert (Tin : In tok (arg_flags a)) by (apply flag_of_in; exact Lk).
  assert (Ctok : clean_flag tok = true).
  { apply Cl. eapply in_all_spellings; [exact Na|]. unfold spellings_of. apply in_or_app. left. exact Tin. }
  assert (Hflag : forall args, map r_spec args = cx_args c -> find_flag args tok = Some (o_arg o)).
  { intros args Sh. rewrite find_flag_args, Sh. eapply find_flag_spec_unique; eauto. }
  destruct (o_form o) eqn:Fo; try discriminate; destruct (o_val o) as [b|n|s|] eqn:Vo; try discriminate.
  - (* FRep *)
    assert (Hval : occ_input o = IBool true) by (unfold occ_input; rewrite Vo; reflexivity).
    cbn [count_of].
    apply (counter_run p i0 done c given o a tok Na Hinc Hnl Hval Hflag n cur fl got Ctok St Co I).
  - (* FStack *)
    assert (Hval : occ_input o = IBool true) by (unfold occ_input; rewrite Vo; reflexivity).
    apply andb_true_iff in Os. destruct Os as [Hn Hlen]. apply Nat.leb_le in Hn. apply Nat.eqb_eq in Hlen.
    destruct (short_clean_shape tok Ctok Hlen) as [ch [Etok Hch]].
    assert (Heq : Ascii.eqb ch "=" = false).
    { unfold clean_flag in Ctok. rewrite !andb_true_iff, !negb_true_iff in Ctok.
      destruct Ctok as [[[_ E] _] _]. rewrite Etok in E. cbn [contains_char] in E.
      apply orb_false_iff in E. destruct E as [_ E]. apply orb_false_iff in E. tauto. }
    cbn [count_of]. destruct n as [|k]; [lia|].
    rewrite Etok. cbn [short_letter drop repeat_str append].
    destruct k as [|k].
    + (* "-c" itself *)
      cbn [repeat_str append]. rewrite <- Etok.
      apply (counter_run p i0 done c given o a tok Na Hinc Hnl Hval Hflag 1 cur fl got Ctok St Co I).
    + (* "-c" followed by k+1 more letters *)
      destruct (counter_one c given o a Na Hinc Hnl Hval cur St Co) as (r & Nr & Sr & Hc & E & St' & Co').
      assert (Hi : a_incrementable (r_spec r) = true) by (rewrite Sr; exact Hinc).
      pose proof (Hflag _ (so_shape _ _ _ St)) as F. rewrite Etok in F.
      pose proof (step_counter_stack p i0 done cur fl got ch k (o_arg o) r I Hch Heq F Nr Hi Hc) as S1.
      set (cur' := with_args cur (run_occ (rc_args cur) o)).
      assert (Ecur : upd_cur cur (o_arg o) (mkRArg (r_spec r) true (bump (arg_value r))) = cur').
      { unfold upd_cur, cur'. now rewrite E. }
      rewrite Ecur in S1.
      assert (I' : inert (MS i0 done cur' (Some (S (List.length done), o_arg o)) false)).
      { rewrite <- Ecur. apply inert_after; [congruence | reflexivity |].
        unfold needs_value, takes_value. cbn [r_spec]. rewrite Hi, Sr, Hnl.
      destruct (a_kind a); reflexivity. }
      rewrite <- Etok in S1.
      destruct (counter_run p i0 done c given o a tok Na Hinc Hnl Hval Hflag (S k) cur' _ _ Ctok St' Co' I')
        as (fl' & got' & S2 & I2 & St2 & Co2).
      exists fl', got'. cbn [iter_occ].
      split; [|split; [exact I2|split; assumption]].
      econstructor; [exact S1|]. rewrite app_nil_r. exact S2.
Qed.
