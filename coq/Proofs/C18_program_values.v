(** C18: both passes of Program for a whole prefix of core options
    (boolean and value-taking). *)
From InvokeVerif Require Import Corr.C18Corr Spec.C01Spec Proofs.ListFacts Proofs.C07_fuel
     Proofs.C01_steps Proofs.C01_tokens Proofs.C01_lookup Proofs.C01_occ Proofs.C01_roundtrip
     Proofs.C01_final Proofs.C18_placement Proofs.C18_program Proofs.C18_values.
From Coq Require Import Lia.

Lemma copt_ok_no_names cs args o : copt_ok cs args o = true -> copt_ok [] args o = true.
Proof.
  unfold copt_ok. destruct (find_flag args (co_tok o)); [|auto].
  destruct (nth_error args (co_idx o)); [|auto].
  destruct (co_form o); auto; cbn [is_ctx_name existsb negb]; rewrite !orb_true_r, !andb_true_r;
    rewrite !andb_true_iff; tauto.
Qed.

Lemma copts_ok_no_names cs : forall os args,
  copts_ok cs args os = true -> copts_ok [] args os = true.
Proof.
  induction os as [|o os IH]; intros args H; [reflexivity|].
  cbn [copts_ok] in *. apply andb_true_iff in H. destruct H as [Ho Hr].
  rewrite (copt_ok_no_names _ _ _ Ho). simpl. apply IH. exact Hr.
Qed.

(** core pass: a prefix of core options is consumed, the rest handed on *)
Lemma core_pass_prefix ic cs os t rest :
  has_missing (init_ctx ic) = false ->
  copts_ok cs (rc_args (init_ctx ic)) os = true ->
  starts_with "-" t = false ->
  Forall (fun x => x <> "--") (t :: rest) ->
  parser_parse [] (Some ic) true (flat_map spell_copt os ++ t :: rest)
  = Ok (mkRes [with_args (init_ctx ic) (apply_copts (rc_args (init_ctx ic)) os)] (t :: rest) "").
Proof.
  intros Hm Ok' P Cl. set (i0 := init_ctx ic). set (pc := mkP [] (Some ic) true).
  assert (I0 : inert (MI i0 None false)) by exact I.
  destruct (copts_steps_front pc [] eq_refl os i0 None false I0 Hm (copts_ok_no_names _ _ _ Ok'))
    as [fl [got [S0 [I1 Hm1]]]].
  cbv zeta in *. set (i0' := with_args i0 (apply_copts (rc_args i0) os)) in *.
  pose proof (step_first_unknown ic i0' fl got t I1 Hm1 P) as S1.
  pose proof (steps_store ic i0' fl got rest [t] I1 Hm1 ltac:(discriminate)) as S2.
  destruct (finish_MU i0' fl got ([t] ++ rest) I1 Hm1) as [m' [Fin [Rc Un]]].
  assert (St : steps pc (M0 i0) (flat_map spell_copt os ++ t :: rest) (MU i0' fl got ([t] ++ rest))).
  { eapply steps_app; [exact S0|]. econstructor; [exact S1 | exact S2]. }
  assert (Cl' : Forall (fun x => x <> "--") (flat_map spell_copt os ++ t :: rest)).
  { apply Forall_app. split; [eapply spell_copts_clean; eauto | exact Cl]. }
  pose proof (split_ddash_clean _ Cl') as Sd.
  assert (St' : steps pc (M0 i0) (fst (split_ddash (flat_map spell_copt os ++ t :: rest)))
                      (MU i0' fl got ([t] ++ rest))) by (rewrite Sd; exact St).
  pose proof (steps_parse pc _ (M0 i0) _ m' (new_machine_M0 [] ic true Hm) St' Fin) as Pp.
  rewrite Sd in Pp. cbn [snd join] in Pp.
  unfold parser_parse. cbn [parser_ok forallb flat_map nodupb andb]. unfold pc in Pp.
  rewrite Pp, Rc, Un. reflexivity.
Qed.

(** _update_core_context, pointwise *)
Lemma update_core_pointwise : forall core via target,
  List.length via = List.length core -> List.length target = List.length core ->
  (forall j c v x, nth_error core j = Some c -> nth_error via j = Some v -> nth_error target j = Some x ->
     main_name (r_spec c) = main_name (r_spec x) /\
     arg_value (if got_value v then mkRArg (r_spec c) (r_raw c) (r_val v) else c) = arg_value x) ->
  core_values (update_core core via) = core_values target.
Proof.
  induction core as [|c core IH]; intros [|v via] [|x target] L1 L2 H; simpl in *; try discriminate; auto.
  destruct (H 0 c v x eq_refl eq_refl eq_refl) as [Hn Hv].
  unfold core_values in *. cbn [map]. f_equal.
  - destruct (got_value v); cbn [r_spec] in *; rewrite Hn; f_equal; exact Hv.
  - apply IH; [lia | lia|]. intros j c' v' x' A B C. apply (H (S j)); auto.
Qed.

(** one option applied to a list of arguments changes at most its own entry *)
Lemma apply_copt_length args o : List.length (apply_copt args o) = List.length args.
Proof.
  unfold apply_copt. destruct (nth_error args (co_idx o)); [|reflexivity].
  destruct (set_value _ _ _); [|reflexivity].
  clear. revert args. induction (co_idx o); intros [|y l]; simpl; auto.
Qed.

Lemma apply_copts_length : forall os args, List.length (apply_copts args os) = List.length args.
Proof.
  induction os as [|o os IH]; intros args; [reflexivity|].
  cbn [apply_copts fold_left]. fold (apply_copts (apply_copt args o) os). rewrite IH. apply apply_copt_length.
Qed.

Lemma new_value_not_none r v cast x : new_value r v cast = Ok x -> aval_is_none x = false.
Proof.
  unfold new_value.
  destruct (a_incrementable (r_spec r)).
  - destruct (arg_value r); try discriminate; intros [= <-]; reflexivity.
  - destruct (a_kind (r_spec r)).
    + destruct cast; [destruct v|]; simpl; intros [= <-]; try reflexivity. destruct v; reflexivity.
    + destruct cast; [destruct v as [s|b]; simpl; [destruct (parse_int s); [|discriminate]|]|];
        simpl; intros [= <-]; try reflexivity. destruct v; reflexivity.
    + destruct cast; [destruct v|]; simpl; intros [= <-]; try reflexivity. destruct v; reflexivity.
    + destruct (arg_value r); try discriminate. destruct v; try discriminate.
      intros [= <-]. reflexivity.
    + destruct cast; [destruct v as [s|b]; simpl; [destruct (cast_other ko_default ko_table s); try discriminate|discriminate]|];
        simpl; intros [= <-]; try reflexivity. destruct v; reflexivity.
Qed.

(** an argument after the options: either untouched, or set by [set_value] *)
Lemma apply_copt_entry args o j r :
  nth_error args j = Some r ->
  exists r', nth_error (apply_copt args o) j = Some r' /\ r_spec r' = r_spec r /\
             (r' = r \/ (r_raw r' = true /\ aval_is_none (r_val r') = false)).
Proof.
  intros N. unfold apply_copt.
  destruct (nth_error args (co_idx o)) as [r0|] eqn:N0; [|eauto].
  destruct (set_value r0 (copt_input o) true) as [r1|] eqn:SV; [|eauto].
  destruct (Nat.eq_dec (co_idx o) j) as [<-|Ne].
  - rewrite (nth_error_upd_nth_same _ _ _ _ N0). rewrite N in N0. injection N0 as <-.
    destruct (C07_positional.set_value_not_none _ _ _ _ SV) as [Nn Sp].
    exists r1. split; [reflexivity|]. split; [exact Sp|]. right.
    unfold set_value in SV. destruct (new_value r (copt_input o) true) as [x|] eqn:NV; [|discriminate].
    injection SV as <-. cbn [r_raw r_val]. split; [reflexivity|].
    eapply new_value_not_none; eauto.
  - rewrite (nth_error_upd_nth_other _ _ _ _ Ne). eauto.
Qed.

Lemma apply_copts_entry : forall os args j r,
  nth_error args j = Some r ->
  exists r', nth_error (apply_copts args os) j = Some r' /\ r_spec r' = r_spec r /\
             (r' = r \/ (r_raw r' = true /\ aval_is_none (r_val r') = false)).
Proof.
  induction os as [|o os IH]; intros args j r N; [exists r; auto|].
  cbn [apply_copts fold_left]. fold (apply_copts (apply_copt args o) os).
  destruct (apply_copt_entry args o j r N) as [r1 [N1 [S1 D1]]].
  destruct (IH _ j r1 N1) as [r2 [N2 [S2 D2]]].
  exists r2. split; [exact N2|]. split; [congruence|].
  destruct D2 as [->|D2]; [exact D1 | right; exact D2].
Qed.

Lemma got_value_set r : r_raw r = true -> aval_is_none (r_val r) = false ->
  a_kind (r_spec r) <> KList -> got_value r = true.
Proof.
  intros _ Nn Nl. unfold got_value. destruct (a_kind (r_spec r)); try congruence; rewrite Nn; reflexivity.
Qed.

Lemma apply_copt_entry_ok cs args o j r :
  copt_ok cs args o = true -> nth_error args j = Some r ->
  exists r', nth_error (apply_copt args o) j = Some r' /\ r_spec r' = r_spec r /\
             (r' = r \/ (r_raw r' = true /\ aval_is_none (r_val r') = false /\
                         a_incrementable (r_spec r) = false /\ a_kind (r_spec r) <> KList)).
Proof.
  intros Ok' N. destruct (copt_ok_parts _ _ _ Ok') as [r0 [_ [_ [N0 [_ Hf]]]]].
  destruct (apply_copt_entry args o j r N) as [r' [N' [Sp D]]].
  exists r'. split; [exact N'|]. split; [exact Sp|].
  destruct D as [->|[Rw Nn]]; [left; reflexivity|].
  destruct (Nat.eq_dec (co_idx o) j) as [<-|Ne].
  - rewrite N in N0. injection N0 as <-. right. split; [exact Rw|]. split; [exact Nn|].
    destruct (co_form o).
    + destruct Hf as [Kb Ni]. split; [exact Ni | rewrite Kb; discriminate].
    + destruct Hf as (Tv&_&Nl&_). split; [|exact Nl]. unfold takes_value in Tv.
      destruct (a_kind (r_spec r)); try discriminate; destruct (a_incrementable (r_spec r)); auto; discriminate.
    + destruct Hf as (Tv&_&Nl&_). split; [|exact Nl]. unfold takes_value in Tv.
      destruct (a_kind (r_spec r)); try discriminate; destruct (a_incrementable (r_spec r)); auto; discriminate.
    + destruct Hf as (Tv&_&Nl&_). split; [|exact Nl]. unfold takes_value in Tv.
      destruct (a_kind (r_spec r)); try discriminate; destruct (a_incrementable (r_spec r)); auto; discriminate.
  - left. unfold apply_copt in N'. rewrite N0 in N'.
    destruct (set_value r0 (copt_input o) true); [|congruence].
    rewrite (nth_error_upd_nth_other _ _ _ _ Ne) in N'. congruence.
Qed.

Lemma apply_copts_entry_ok cs : forall os args j r,
  copts_ok cs args os = true -> nth_error args j = Some r ->
  exists r', nth_error (apply_copts args os) j = Some r' /\ r_spec r' = r_spec r /\
             (r' = r \/ (r_raw r' = true /\ aval_is_none (r_val r') = false /\
                         a_incrementable (r_spec r) = false /\ a_kind (r_spec r) <> KList)).
Proof.
  induction os as [|o os IH]; intros args j r Ok' N; [exists r; auto|].
  cbn [copts_ok] in Ok'. apply andb_true_iff in Ok'. destruct Ok' as [Oo Or].
  cbn [apply_copts fold_left]. fold (apply_copts (apply_copt args o) os).
  destruct (apply_copt_entry_ok cs args o j r Oo N) as [r1 [N1 [S1 D1]]].
  destruct (IH _ j r1 Or N1) as [r2 [N2 [S2 D2]]].
  exists r2. split; [exact N2|]. split; [congruence|].
  destruct D2 as [->|(A&B&C&D)]; [exact D1|]. right. rewrite S1 in C, D. auto.
Qed.

Lemma init_got_false a : a_incrementable a = false -> a_kind a <> KList -> got_value (init_arg a) = false.
Proof.
  intros Ni Nl. unfold got_value, init_arg, init_value. cbn [r_spec r_val]. rewrite Ni.
  destruct (a_kind a); try congruence; reflexivity.
Qed.

Section ProgramPrefix.
Variable cs : list ctxspec.
Variable ic : ctxspec.
Let i0 := init_ctx ic.
Let I := rc_args i0.

Lemma update_core_front os :
  copts_ok cs I os = true ->
  core_values (update_core (apply_copts I os) I) = core_values (apply_copts I os).
Proof.
  intros Ok'. apply update_core_pointwise; [rewrite apply_copts_length; reflexivity | reflexivity|].
  intros j c v x Nc Nv Nx. rewrite Nc in Nx. injection Nx as <-. split; [reflexivity|].
  destruct (apply_copts_entry_ok cs os I j v Ok' Nv) as [r' [N' [Sp D]]].
  rewrite N' in Nc. injection Nc as <-.
  destruct D as [->|(Rw&Nn&Ni&Nl)].
  - destruct (got_value v); [destruct v|]; reflexivity.
  - assert (G : got_value v = false).
    { unfold I, i0, init_ctx in Nv. cbn [rc_args] in Nv.
      destruct (nth_error_map_inv init_arg (cx_args ic) j v Nv) as [a [_ <-]].
      apply init_got_false; assumption. }
    rewrite G. reflexivity.
Qed.

Lemma update_core_placed os :
  copts_ok cs I os = true ->
  core_values (update_core I (apply_copts I os)) = core_values (apply_copts I os).
Proof.
  intros Ok'. apply update_core_pointwise; [apply apply_copts_length | apply apply_copts_length|].
  intros j c v x Nc Nv Nx. rewrite Nv in Nx. injection Nx as <-.
  destruct (apply_copts_entry_ok cs os I j c Ok' Nc) as [r' [N' [Sp D]]].
  rewrite N' in Nv. injection Nv as <-. split; [rewrite Sp; reflexivity|].
  destruct D as [->|(Rw&Nn&Ni&Nl)].
  - destruct (got_value c); [destruct c|]; reflexivity.
  - rewrite (got_value_set r' Rw Nn) by (rewrite Sp; exact Nl).
    unfold arg_value. cbn [r_val r_spec]. rewrite Sp. reflexivity.
Qed.

Let core_after (os : list copt) : list (string * aval) := core_values (apply_copts I os).

(** the options before the first task: consumed by the core pass *)
Theorem program_prefix_front os inv :
  simple_guard cs ic inv = true -> copts_ok cs I os = true ->
  exists g, prog_obs ic cs (flat_map spell_copt os ++ spell cs inv) = Ok g /\
            g_core g = core_after os /\ g_tasks g = expected cs inv /\
            g_unparsed g = spell cs inv /\ g_remainder g = "".
Proof.
  intros G Ok'. pose proof G as G'. unfold simple_guard in G'. rewrite !andb_true_iff, negb_true_iff in G'.
  destruct G' as [[[Pok Hi] Ne] Cs].
  destruct inv as [|k rest]; [discriminate|].
  destruct (spell_head cs k rest Cs) as [tail [Es Pl]].
  pose proof (spell_clean cs (k :: rest) Cs) as Cl.
  destruct (spell_roundtrip_simple cs ic (k :: rest) G) as [r2 [P2 [Hd [Tl [Un Rm]]]]].
  unfold prog_obs, program_parse. rewrite Es in *.
  rewrite (core_pass_prefix ic cs os (k_as k) tail Hi Ok' Pl Cl).
  cbn [pr_ctxs pr_unparsed pr_remainder]. rewrite P2.
  destruct (pr_ctxs r2) as [|via ts] eqn:E2; [discriminate Hd|].
  cbn [hd_error] in Hd. injection Hd as ->. cbn [tl] in Tl.
  eexists. split; [reflexivity|]. unfold gobs_of.
  cbn [g_core g_tasks g_unparsed g_remainder pg_core pg_tasks pg_unparsed pg_remainder with_args rc_args].
  split; [|split; [exact Tl | split; reflexivity]].
  exact (update_core_front os Ok').
Qed.

(** the options inside a task's argument list *)
Theorem program_prefix_placed os calls1 t asn items1 items2 calls2 c :
  let inv := calls1 ++ mkCall t asn (items1 ++ items2) :: calls2 in
  let argv := spell cs calls1 ++ (asn :: flat_map (spell_item c) items1)
              ++ flat_map spell_copt os ++ flat_map (spell_item c) items2 ++ spell cs calls2 in
  simple_guard cs ic inv = true ->
  nth_error cs t = Some c ->
  forallb (copt_free cs c) os = true ->
  copts_ok cs I os = true ->
  exists g, prog_obs ic cs argv = Ok g /\
            g_core g = core_after os /\ g_tasks g = expected cs inv /\
            g_unparsed g = argv /\ g_remainder g = "".
Proof.
  intros inv argv G N Free Ok'.
  destruct (core_prefix_placed cs ic os calls1 t asn items1 items2 calls2 c G N Free Ok')
    as [r2 [P2 [Rc [Ob [Un Rm]]]]].
  fold inv argv in P2, Rc, Ob.
  pose proof G as G'. unfold simple_guard in G'. rewrite !andb_true_iff, negb_true_iff in G'.
  destruct G' as [[[Pok Hi] _] Cs].
  assert (Hd : exists h tail, argv = h :: tail /\ starts_with "-" h = false /\
                              Forall (fun x => x <> "--") (h :: tail)).
  { unfold inv in Cs. rewrite forallb_app in Cs. apply andb_true_iff in Cs. destruct Cs as [C1 Ck].
    cbn [forallb] in Ck. apply andb_true_iff in Ck. destruct Ck as [Ck C2].
    pose proof Ck as Ck'. unfold call_simple in Ck'. cbn [k_task] in Ck'. rewrite N in Ck'.
    rewrite !andb_true_iff in Ck'. destruct Ck' as [[[_ Pl] Gc] Is]. cbn [k_as k_items] in *.
    unfold plain in Pl. rewrite negb_true_iff in Pl.
    rewrite items_simple_app in Is. apply andb_true_iff in Is. destruct Is as [Is1 Is2].
    assert (Cl : Forall (fun x => x <> "--") argv).
    { unfold argv. apply Forall_app. split; [apply spell_clean; exact C1|]. cbn [app].
      constructor; [intros E; subst asn; discriminate Pl|].
      apply Forall_app. split; [eapply spell_items_clean; eauto|].
      apply Forall_app. split; [eapply spell_copts_clean; eauto|].
      apply Forall_app. split; [eapply spell_items_clean; eauto | apply spell_clean; exact C2]. }
    destruct calls1 as [|k1 r1].
    - unfold argv in *. cbn [spell flat_map app] in *. eexists _, _. split; [reflexivity|]. auto.
    - destruct (spell_head cs k1 r1 C1) as [tl1 [E1 P1]].
      unfold argv in *. rewrite E1 in *. cbn [app] in *. eexists _, _. split; [reflexivity|]. auto. }
  destruct Hd as [h [tail [Ea [Ph Cl]]]].
  unfold prog_obs, program_parse. rewrite Ea in *.
  rewrite (core_pass_plain ic h tail Hi Ph Cl). cbn [pr_ctxs pr_unparsed pr_remainder].
  rewrite P2, Rc.
  eexists. split; [reflexivity|]. unfold gobs_of.
  cbn [g_core g_tasks g_unparsed g_remainder pg_core pg_tasks pg_unparsed pg_remainder with_args rc_args].
  split; [|split; [|split; reflexivity]].
  - exact (update_core_placed os Ok').
  - rewrite Rc in Ob. cbn [tl] in Ob. exact Ob.
Qed.

(** C18 for whole core prefixes: boolean and value-taking options (spaced,
    "=", glued), moved together -- same spellings -- anywhere admissible: same core values,
    same task calls, through both passes and _update_core_context. *)
Corollary program_prefix_placement_equiv os calls1 t asn items1 items2 calls2 c :
  let inv := calls1 ++ mkCall t asn (items1 ++ items2) :: calls2 in
  simple_guard cs ic inv = true ->
  nth_error cs t = Some c ->
  forallb (copt_free cs c) os = true ->
  copts_ok cs I os = true ->
  exists gf gp,
    prog_obs ic cs (flat_map spell_copt os ++ spell cs inv) = Ok gf /\
    prog_obs ic cs (spell cs calls1 ++ (asn :: flat_map (spell_item c) items1)
                    ++ flat_map spell_copt os
                    ++ flat_map (spell_item c) items2 ++ spell cs calls2) = Ok gp /\
    g_core gf = g_core gp /\ g_tasks gf = g_tasks gp /\ g_tasks gp = expected cs inv /\
    g_remainder gf = g_remainder gp.
Proof.
  intros inv G N Free Ok'.
  destruct (program_prefix_front os inv G Ok') as [gf [Pf [Cf [Tf [_ Rf]]]]].
  destruct (program_prefix_placed os calls1 t asn items1 items2 calls2 c G N Free Ok')
    as [gp [Pp [Cp [Tp [_ Rp]]]]].
  exists gf, gp. fold inv in Tp. unfold core_after in *.
  repeat split; auto; congruence.
Qed.

End ProgramPrefix.
