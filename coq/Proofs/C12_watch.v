(** C12: the watcher model meets the specification -- the code in /repo ([current])
    everywhere; the code before the fixes ([before_fix]) only inside the guard. *)
From InvokeVerif Require Import Model.WatchModel Spec.C12Spec Proofs.C12_regex.
From Coq Require Import Lia.

(** * One scan index

    [Inv q idx B R]: with [B] the text read so far and [R] the text still to come,
    [idx] splits [B] into a part whose marks are settled ([M1]) and a part [B2] in
    which nothing has been found yet, and the whole-text scanner is free at [idx]. *)
Definition Inv (q : pattern) (idx : nat) (B R : text) : Prop :=
  exists B1 B2 M1, B = B1 ++ B2 /\ List.length B1 = idx /\ List.length M1 = idx /\
     marks q 0 (B ++ R) = M1 ++ marks q 0 (B2 ++ R) /\ occ q B2 = 0.

Lemma Inv_init q R : Inv q 0 [] R.
Proof. exists [], [], []. simpl. repeat split; reflexivity. Qed.

Lemma pm_step v q idx B c R' :
  Inv q idx B (c ++ R') ->
  (fix_index v = true \/ news q B c = 0 \/
   st q 0 ((B ++ c) ++ R') (List.length (B ++ c)) = 0) ->
  exists idx', pattern_matches v q idx (B ++ c) = (news q B c, idx') /\ Inv q idx' (B ++ c) R'.
Proof.
  intros (B1 & B2 & M1 & EB & L1 & LM & EM & O2) G. subst B.
  assert (E1 : marks q 0 (B1 ++ B2 ++ c) = M1 ++ marks q 0 (B2 ++ c)).
  { apply (restart_prefix q B1 (B2 ++ c) R' M1); [|lia].
    repeat rewrite <- app_assoc in *. exact EM. }
  assert (E2 : marks q 0 (B1 ++ B2) = M1 ++ marks q 0 B2).
  { apply (restart_prefix q B1 B2 (c ++ R') M1); [|lia].
    repeat rewrite <- app_assoc in *. exact EM. }
  assert (EN : news q (B1 ++ B2) c = occ q (B2 ++ c)).
  { unfold news, occ in *. rewrite <- app_assoc, E1, E2, !count_true_app. lia. }
  assert (ES : skipn idx ((B1 ++ B2) ++ c) = B2 ++ c).
  { rewrite <- app_assoc, <- L1. apply skipn_exact. }
  unfold pattern_matches. rewrite ES. fold (occ q (B2 ++ c)). rewrite <- EN.
  set (N := B2 ++ c) in *.
  (* nothing found: the index stays *)
  assert (Stay : occ q N = 0 -> Inv q idx ((B1 ++ B2) ++ c) R').
  { intros Z. exists B1, N, M1. repeat split; auto.
    - unfold N. rewrite app_assoc. reflexivity.
    - unfold N. repeat rewrite <- app_assoc in *. exact EM. }
  destruct (fix_index v) eqn:FI.
  - (* index := end of the last match *)
    eexists; split; [reflexivity|].
    destruct (last_end (marks q 0 N)) as [|j] eqn:LE.
    + rewrite Nat.add_0_r. apply Stay. apply last_end_zero. assumption.
    + pose proof (last_end_le (marks q 0 N)) as LL. rewrite LE, marks_length in LL.
      pose proof (last_end_true _ _ LE) as T.
      assert (T' : nth j (marks q 0 (N ++ R')) false = true).
      { rewrite <- (marks_prefix q N R' 0) in T. rewrite nth_firstn_lt in T by lia. exact T. }
      apply st_after_true in T. apply st_after_true in T'.
      pose proof (marks_restart q N (S j) T) as RN.
      pose proof (marks_restart q (N ++ R') (S j) T') as RR.
      rewrite skipn_app_le in RR by lia.
      exists (B1 ++ firstn (S j) N), (skipn (S j) N), (M1 ++ firstn (S j) (marks q 0 (N ++ R'))).
      repeat split.
      * rewrite <- !app_assoc. rewrite firstn_skipn. reflexivity.
      * rewrite app_length, firstn_length_le by lia. lia.
      * rewrite app_length, firstn_length_le; [lia|]. rewrite marks_length, app_length. lia.
      * unfold N in *. repeat rewrite <- app_assoc in *. rewrite EM. f_equal. exact RR.
      * unfold occ. pose proof (count_after_last_end (marks q 0 N)) as CA.
        rewrite LE, marks_st, T in CA. exact CA.
  - destruct (Nat.ltb 0 (news q (B1 ++ B2) c)) eqn:LT.
    + (* before the fix: index := end of the read *)
      eexists; split; [reflexivity|].
      apply Nat.ltb_lt in LT.
      destruct G as [G|[G|G]]; [discriminate | lia |].
      pose proof (marks_restart q _ _ G) as RR. rewrite skipn_exact in RR.
      exists ((B1 ++ B2) ++ c), [], (firstn (List.length ((B1 ++ B2) ++ c)) (marks q 0 (((B1 ++ B2) ++ c) ++ R'))).
      repeat split.
      * rewrite app_nil_r. reflexivity.
      * unfold N. rewrite !app_length. rewrite <- L1. lia.
      * rewrite firstn_length_le; [|rewrite marks_length, !app_length; lia].
        unfold N. rewrite !app_length. rewrite <- L1. lia.
      * exact RR.
    + eexists; split; [reflexivity|]. apply Stay. apply Nat.ltb_ge in LT. lia.
Qed.

(** * One watcher *)
Definition WInv (v : variant) (w : watcher) (s : wstate) (r first : bool) (B R : text) : Prop :=
  Inv (pat_of w) (w_index s) B R /\ (first = true -> r = false) /\
  match w with
  | WResp _ _ => True
  | WFail _ _ sen =>
      Inv sen (w_findex s) B R /\ w_tried s = (if fix_tried v then r else negb first)
  end.

Lemma quiet_G (fa : bool) q B c R' :
  fa || quiet q B c R' = true ->
  fa = true \/ news q B c = 0 \/ st q 0 ((B ++ c) ++ R') (List.length (B ++ c)) = 0.
Proof.
  intros H. apply orb_true_iff in H as [H|H]; [auto|].
  unfold quiet in H. apply orb_true_iff in H as [H|H]; apply Nat.eqb_eq in H; auto.
Qed.

Definition raise_of (w : watcher) (r : bool) (B c : text) : bool :=
  match w with WFail _ _ sen => r && Nat.ltb 0 (news sen B c) | WResp _ _ => false end.

Lemma submit_step v w s r first B c R' :
  WInv v w s r first B (c ++ R') ->
  guard_w (fix_index v) (fix_tried v) w r first B c R' = true ->
  if raise_of w r B c then submit v w s (B ++ c) = None
  else exists s', submit v w s (B ++ c) = Some (repeat (resp_of w) (news (pat_of w) B c), s') /\
                  WInv v w s' (r || Nat.ltb 0 (news (pat_of w) B c)) false (B ++ c) R'.
Proof.
  intros (IP & FR & W) G. unfold guard_w in G. apply andb_true_iff in G as [GP G].
  apply quiet_G in GP. destruct (pm_step v _ _ _ _ _ IP GP) as (i' & EP & IP').
  destruct w as [p r0|p r0 sen]; cbn [raise_of pat_of resp_of submit] in *.
  - rewrite EP. eexists; split; [reflexivity|]. repeat split; auto. intros; discriminate.
  - destruct W as (IS & TR). apply andb_true_iff in G as [GS GT].
    apply quiet_G in GS. destruct (pm_step v _ _ _ _ _ IS GS) as (fi' & ES & IS').
    rewrite ES. rewrite TR.
    destruct (r && Nat.ltb 0 (news sen B c)) eqn:RA.
    + apply andb_true_iff in RA as [-> RA]. rewrite RA.
      destruct first; [specialize (FR eq_refl); discriminate|].
      destruct (fix_tried v); reflexivity.
    + assert (C : (if fix_tried v then r else negb first) && Nat.ltb 0 (news sen B c) = false).
      { destruct (Nat.ltb 0 (news sen B c)) eqn:LT; [|apply andb_false_r].
        rewrite andb_true_r in RA. subst r. apply Nat.ltb_lt in LT.
        destruct (fix_tried v); [reflexivity|].
        destruct first; [reflexivity|]. simpl in GT. apply Nat.eqb_eq in GT. lia. }
      rewrite C, EP. eexists; split; [reflexivity|].
      repeat split; auto; [intros; discriminate|].
      cbn [w_tried]. destruct (fix_tried v); reflexivity.
Qed.

(** * The watcher list in one read ([Runner.respond]) *)
Fixpoint WInvs (v : variant) (ws : list watcher) (sts : list wstate) (resp : list bool)
         (first : bool) (B R : text) : Prop :=
  match ws, sts, resp with
  | [], [], [] => True
  | w :: ws', s :: sts', r :: resp' =>
      WInv v w s r first B R /\ WInvs v ws' sts' resp' first B R
  | _, _, _ => False
  end.

Lemma is_prefix_app a b c : is_prefix (a ++ b) (a ++ c) = is_prefix b c.
Proof. induction a as [|x a IH]; simpl; [reflexivity | rewrite String.eqb_refl; exact IH]. Qed.

Lemma strs_eqb_refl a : strs_eqb a a = true.
Proof. apply (list_eqb_eq String.eqb String.eqb_eq). reflexivity. Qed.

Lemma respond_step v : forall ws sts resp first B c R',
  WInvs v ws sts resp first B (c ++ R') ->
  guard_ws (fix_index v) (fix_tried v) ws resp first B c R' = true ->
  if raises ws resp B c
  then exists out sts', respond v ws sts (B ++ c) = (out, sts', true) /\
                        is_prefix out (full_writes ws B c) = true
  else exists sts', respond v ws sts (B ++ c) = (full_writes ws B c, sts', false) /\
                    WInvs v ws sts' (responded ws resp B c) false (B ++ c) R'.
Proof.
  induction ws as [|w ws IH]; intros sts resp first B c R' I G.
  - destruct sts, resp; try contradiction. simpl. exists []. split; [reflexivity | exact I].
  - destruct sts as [|s sts], resp as [|r resp]; try contradiction.
    destruct I as [IW I]. cbn [guard_ws] in G. apply andb_true_iff in G as [GW G].
    pose proof (submit_step v w s r first B c R' IW GW) as SS.
    change (raises (w :: ws) (r :: resp) B c) with (raise_of w r B c || raises ws resp B c).
    cbn [respond]. destruct (raise_of w r B c).
    + rewrite SS. simpl. exists [], (s :: sts). split; reflexivity.
    + destruct SS as (s' & ES & IW'). rewrite ES. simpl orb.
      specialize (IH sts resp first B c R' I G).
      cbn [full_writes flat_map]. fold (full_writes ws B c).
      destruct (raises ws resp B c).
      * destruct IH as (out & sts' & ER & PR). rewrite ER.
        exists (repeat (resp_of w) (news (pat_of w) B c) ++ out), (s' :: sts').
        split; [reflexivity|]. rewrite is_prefix_app. exact PR.
      * destruct IH as (sts' & ER & IR). rewrite ER.
        exists (s' :: sts'). split; [reflexivity|]. cbn [responded WInvs]. split; assumption.
Qed.

(** * One stream *)
Lemma feed_dead v ws : forall cs s, s_dead s = true ->
  feed v ws s cs = (map (fun _ => []) cs, true).
Proof.
  induction cs as [|c cs IH]; intros s D; cbn [feed map].
  - rewrite D. reflexivity.
  - unfold read_step. rewrite D. rewrite (IH s D). reflexivity.
Qed.

Lemma forallb_nil_map {A B} (l : list A) : forallb (@is_nil B) (map (fun _ => []) l) = true.
Proof. induction l; simpl; auto. Qed.

Lemma feed_judge v ws : forall chunks s resp first,
  s_dead s = false ->
  WInvs v ws (s_w s) resp first (s_buf s) (List.concat chunks) ->
  guard_stream (fix_index v) (fix_tried v) ws (s_buf s) resp first chunks = true ->
  judge ws (s_buf s) resp chunks (fst (feed v ws s chunks)) = (true, snd (feed v ws s chunks)).
Proof.
  induction chunks as [|c cs IH]; intros s resp first D I G.
  - cbn [feed fst snd judge]. rewrite D. reflexivity.
  - cbn [List.concat] in I. cbn [guard_stream] in G. apply andb_true_iff in G as [GW G].
    pose proof (respond_step v ws (s_w s) resp first (s_buf s) c (List.concat cs) I GW) as RS.
    cbn [feed]. unfold read_step. rewrite D.
    destruct (raises ws resp (s_buf s) c) eqn:RA.
    + destruct RS as (out & sts' & ER & PR). rewrite ER.
      rewrite feed_dead by reflexivity. cbn [fst snd judge]. rewrite RA, PR.
      rewrite forallb_nil_map, map_length, Nat.eqb_refl. reflexivity.
    + destruct RS as (sts' & ER & IR). rewrite ER.
      specialize (IH (mkS (s_buf s ++ c) sts' false) (responded ws resp (s_buf s) c) false
                     eq_refl IR G).
      cbn [s_buf] in IH.
      destruct (feed v ws (mkS (s_buf s ++ c) sts' false) cs) as [outs d].
      cbn [fst snd judge] in *. rewrite RA, strs_eqb_refl. exact IH.
Qed.

Lemma WInvs_init v R : forall ws,
  WInvs v ws (map (fun _ => w0) ws) (map (fun _ => false) ws) true [] R.
Proof.
  induction ws as [|w ws IH]; cbn [map WInvs]; [exact I|]. split; [|exact IH].
  repeat split; try apply Inv_init.
  destruct w; [exact I|]. split; [apply Inv_init|]. simpl. destruct (fix_tried v); reflexivity.
Qed.

(** acceptance call by call implies acceptance of the text *)
Lemma flat_app a b : flat (a ++ b) = (flat a ++ flat b)%string.
Proof.
  induction a as [|x a IH]; simpl; [reflexivity|]. rewrite IH.
  induction x as [|ch x IHx]; simpl; [reflexivity | f_equal; exact IHx].
Qed.

Lemma str_prefix_app x a b : str_prefix (x ++ a) (x ++ b) = str_prefix a b.
Proof. induction x as [|ch x IH]; simpl; [reflexivity | rewrite Ascii.eqb_refl; exact IH]. Qed.

Lemma is_prefix_flat : forall a b, is_prefix a b = true -> str_prefix (flat a) (flat b) = true.
Proof.
  induction a as [|x a IH]; intros b H; [reflexivity|].
  destruct b as [|y b]; [discriminate|]. simpl in H. apply andb_true_iff in H as [E H].
  apply String.eqb_eq in E. subst y. simpl. rewrite str_prefix_app. apply IH. exact H.
Qed.

Lemma nil_no_text os : forallb (@is_nil string) os = true -> forallb no_text os = true.
Proof.
  induction os as [|o os IH]; simpl; [reflexivity|]. intros H. apply andb_true_iff in H as [N H].
  destruct o; [|discriminate]. rewrite IH by assumption. reflexivity.
Qed.

Lemma judge_implies_text ws : forall chunks obs B resp d,
  judge ws B resp chunks obs = (true, d) -> judge_text ws B resp chunks obs = (true, d).
Proof.
  induction chunks as [|c cs IH]; intros obs B resp d J; destruct obs as [|o os]; try discriminate.
  - exact J.
  - cbn [judge judge_text] in *. destruct (raises ws resp B c).
    + injection J as J <-.
      apply andb_true_iff in J as [J L]. apply andb_true_iff in J as [P N].
      rewrite (is_prefix_flat _ _ P), (nil_no_text _ N), L. reflexivity.
    + destruct (strs_eqb o (full_writes ws B c)) eqn:E; [|discriminate].
      apply (list_eqb_eq String.eqb String.eqb_eq) in E. subst o.
      rewrite String.eqb_refl. apply IH. exact J.
Qed.

Lemma feed_stream_spec v ws chunks :
  guard_stream (fix_index v) (fix_tried v) ws [] (map (fun _ => false) ws) true chunks = true ->
  spec_stream ws chunks (fst (feed_stream v ws chunks)) (snd (feed_stream v ws chunks)) = true.
Proof.
  intros G. unfold spec_stream, feed_stream.
  pose proof (feed_judge v ws chunks (s0 ws) (map (fun _ => false) ws) true eq_refl
                         (WInvs_init v _ ws) G) as J.
  cbn [s_buf s0] in J. rewrite (judge_implies_text _ _ _ _ _ _ J). simpl. apply eqb_reflx.
Qed.

(** * Two streams under any interleaving: each thread behaves as if alone *)
Lemma run_sched_proj v ws : forall sched so se,
  List.length (fst (run_sched v ws so se sched)) = List.length sched /\
  proj false sched (fst (run_sched v ws so se sched)) = fst (feed v ws so (chunks_of false sched)) /\
  fst (snd (run_sched v ws so se sched)) = snd (feed v ws so (chunks_of false sched)) /\
  proj true sched (fst (run_sched v ws so se sched)) = fst (feed v ws se (chunks_of true sched)) /\
  snd (snd (run_sched v ws so se sched)) = snd (feed v ws se (chunks_of true sched)).
Proof.
  induction sched as [|[sid c] sched IH]; intros so se.
  - simpl. auto.
  - cbn [run_sched]. destruct sid.
    + destruct (read_step v ws se (chars c)) as [out se'] eqn:ER.
      specialize (IH so se'). destruct (run_sched v ws so se' sched) as [outs d].
      unfold chunks_of in *. cbn [filter fst snd Bool.eqb map proj List.length feed] in *.
      rewrite ER. destruct (feed v ws se' _) as [o2 d2]. cbn [fst snd] in *.
      destruct IH as (L & P1 & D1 & P2 & D2). repeat split; auto. congruence.
    + destruct (read_step v ws so (chars c)) as [out so'] eqn:ER.
      specialize (IH so' se). destruct (run_sched v ws so' se sched) as [outs d].
      unfold chunks_of in *. cbn [filter fst snd Bool.eqb map proj List.length feed] in *.
      rewrite ER. destruct (feed v ws so' _) as [o2 d2]. cbn [fst snd] in *.
      destruct IH as (L & P1 & D1 & P2 & D2). repeat split; auto. congruence.
Qed.

Lemma exn_eqb_refl e : exn_eqb e e = true.
Proof. destruct e; reflexivity. Qed.

Theorem run_meets_spec v ws sched how :
  guard (fix_index v) (fix_tried v) ws sched = true ->
  spec_ok ws sched how (fst (run v ws sched)) (snd (run v ws sched))
          (outcome_exn how (snd (run v ws sched))) = true.
Proof.
  intros G. unfold guard in G. apply andb_true_iff in G as [G1 G2].
  unfold spec_ok, run.
  destruct (run_sched_proj v ws sched (s0 ws) (s0 ws)) as (L & P1 & D1 & P2 & D2).
  rewrite L, Nat.eqb_refl, P1, D1, P2, D2.
  pose proof (feed_stream_spec v ws _ G1) as S1. pose proof (feed_stream_spec v ws _ G2) as S2.
  unfold feed_stream in S1, S2. rewrite S1, S2.
  unfold outcome_exn. rewrite <- D1, <- D2.
  destruct (fst (snd _) || snd (snd _)); simpl; [apply exn_eqb_refl | reflexivity].
Qed.

Lemma guard_stream_repaired ws : forall chunks B resp first,
  guard_stream true true ws B resp first chunks = true.
Proof.
  assert (W : forall ws resp first B c R, guard_ws true true ws resp first B c R = true).
  { induction ws0 as [|w ws0 IH]; intros [|r resp] first B c R; try reflexivity.
    cbn [guard_ws]. rewrite IH. destruct w; reflexivity. }
  induction chunks as [|c cs IH]; intros B resp first; cbn [guard_stream]; [reflexivity|].
  rewrite W, IH. destruct (raises ws resp B c); reflexivity.
Qed.

Theorem current_meets_spec ws sched how :
  spec_ok ws sched how (fst (run current ws sched)) (snd (run current ws sched))
          (outcome_exn how (snd (run current ws sched))) = true.
Proof.
  apply (run_meets_spec current). unfold guard. cbn [fix_index fix_tried current].
  rewrite !guard_stream_repaired. reflexivity.
Qed.

Theorem before_fix_meets_spec_in_guard ws sched how :
  guard false false ws sched = true ->
  spec_ok ws sched how (fst (run before_fix ws sched)) (snd (run before_fix ws sched))
          (outcome_exn how (snd (run before_fix ws sched))) = true.
Proof. exact (run_meets_spec before_fix ws sched how). Qed.

(** * Readable corollaries: a single Responder *)
Definition total (outs : list (list string)) : nat := List.length (List.concat outs).

(** no occurrence of the whole-text scan straddles the end of a read in which an
    occurrence was completed *)
Fixpoint no_straddle_after_match (p : pattern) (B : text) (chunks : list text) : bool :=
  match chunks with
  | [] => true
  | c :: cs => quiet p B c (List.concat cs) && no_straddle_after_match p (B ++ c) cs
  end.

Lemma guard_resp_only p r : forall chunks B x first,
  guard_stream false false [WResp p r] B [x] first chunks = no_straddle_after_match p B chunks.
Proof.
  induction chunks as [|c cs IH]; intros B x first; [reflexivity|].
  cbn [guard_stream no_straddle_after_match guard_ws raises responded]. unfold guard_w.
  cbn [pat_of orb]. rewrite !andb_true_r. rewrite IH. reflexivity.
Qed.

Lemma judge_total p r : forall chunks outs B resp d,
  judge [WResp p r] B resp chunks outs = (true, d) ->
  total outs + occ p B = occ p (B ++ List.concat chunks).
Proof.
  induction chunks as [|c cs IH]; intros outs B resp d J.
  - destruct outs; [|discriminate]. simpl. rewrite app_nil_r. reflexivity.
  - destruct outs as [|o os]; [discriminate|]. cbn [judge] in J.
    assert (R : raises [WResp p r] resp B c = false) by (destruct resp; reflexivity).
    rewrite R in J.
    destruct (strs_eqb o (full_writes [WResp p r] B c)) eqn:E; [|discriminate].
    apply (list_eqb_eq String.eqb String.eqb_eq) in E. subst o.
    apply IH in J. unfold total in *. cbn [List.concat full_writes flat_map pat_of resp_of].
    rewrite app_nil_r, app_length, repeat_length. rewrite <- app_assoc in J.
    unfold news. pose proof (occ_app_le p B c). lia.
Qed.

Theorem responder_total v p r chunks :
  guard_stream (fix_index v) (fix_tried v) [WResp p r] [] [false] true chunks = true ->
  total (fst (feed_stream v [WResp p r] chunks)) = occ p (List.concat chunks).
Proof.
  intros G.
  pose proof (feed_judge v [WResp p r] chunks (s0 [WResp p r]) [false] true eq_refl
                         (WInvs_init v _ [WResp p r]) G) as J.
  apply judge_total in J. cbn [s_buf s0 app] in J. unfold occ at 1 in J. simpl in J.
  unfold feed_stream. lia.
Qed.

Theorem before_fix_chunk_independent_partial p r chunks :
  no_straddle_after_match p [] chunks = true ->
  total (fst (feed_stream before_fix [WResp p r] chunks)) = occ p (List.concat chunks).
Proof.
  intros G. apply responder_total. cbn [fix_index fix_tried before_fix].
  rewrite guard_resp_only. exact G.
Qed.

Theorem current_chunk_independent p r chunks :
  total (fst (feed_stream current [WResp p r] chunks)) = occ p (List.concat chunks).
Proof. apply responder_total. apply guard_stream_repaired. Qed.

(** the same text delivered in two different ways gets the same number of answers *)
Corollary current_same_text p r chunks1 chunks2 :
  List.concat chunks1 = List.concat chunks2 ->
  total (fst (feed_stream current [WResp p r] chunks1)) =
  total (fst (feed_stream current [WResp p r] chunks2)).
Proof. intros E. rewrite !current_chunk_independent, E. reflexivity. Qed.

(** * Readable corollaries: a single FailingResponder *)
(** reference: the stream has to fail iff some read completes the sentinel after a
    response was sent in an earlier read *)
Fixpoint must_raise (p s : pattern) (B : text) (responded : bool) (chunks : list text) : bool :=
  match chunks with
  | [] => false
  | c :: cs =>
      (responded && Nat.ltb 0 (news s B c))
      || must_raise p s (B ++ c) (responded || Nat.ltb 0 (news p B c)) cs
  end.

Lemma judge_must_raise p r s : forall chunks outs B x d,
  judge [WFail p r s] B [x] chunks outs = (true, d) -> d = must_raise p s B x chunks.
Proof.
  induction chunks as [|c cs IH]; intros outs B x d J.
  - destruct outs; [|discriminate]. inversion J. reflexivity.
  - destruct outs as [|o os]; [discriminate|]. cbn [judge raises] in J. rewrite orb_false_r in J.
    cbn [must_raise]. destruct (x && Nat.ltb 0 (news s B c)).
    + injection J as _ E. subst d. reflexivity.
    + destruct (strs_eqb o (full_writes [WFail p r s] B c)); [|discriminate].
      cbn [responded pat_of] in J. apply IH in J. exact J.
Qed.

Definition failing_region (p : pattern) (r : string) (s : pattern) (chunks : list text) : bool :=
  guard_stream false false [WFail p r s] [] [false] true chunks.

Theorem failing_raises_iff v p r s chunks :
  guard_stream (fix_index v) (fix_tried v) [WFail p r s] [] [false] true chunks = true ->
  snd (feed_stream v [WFail p r s] chunks) = must_raise p s [] false chunks.
Proof.
  intros G.
  pose proof (feed_judge v [WFail p r s] chunks (s0 [WFail p r s]) [false] true eq_refl
                         (WInvs_init v _ [WFail p r s]) G) as J.
  apply judge_must_raise in J. exact J.
Qed.

Theorem before_fix_failing_sentinel_partial p r s chunks :
  failing_region p r s chunks = true ->
  snd (feed_stream before_fix [WFail p r s] chunks) = must_raise p s [] false chunks.
Proof. exact (failing_raises_iff before_fix p r s chunks). Qed.

Theorem current_failing_sentinel p r s chunks :
  snd (feed_stream current [WFail p r s] chunks) = must_raise p s [] false chunks.
Proof. apply failing_raises_iff. apply guard_stream_repaired. Qed.

(** * Threads are independent (any variant, any interleaving) *)
Theorem streams_independent v ws sched :
  proj false sched (fst (run v ws sched)) = fst (feed_stream v ws (chunks_of false sched)) /\
  fst (snd (run v ws sched)) = snd (feed_stream v ws (chunks_of false sched)) /\
  proj true sched (fst (run v ws sched)) = fst (feed_stream v ws (chunks_of true sched)) /\
  snd (snd (run v ws sched)) = snd (feed_stream v ws (chunks_of true sched)).
Proof.
  destruct (run_sched_proj v ws sched (s0 ws) (s0 ws)) as (_ & P1 & D1 & P2 & D2).
  unfold run, feed_stream. auto.
Qed.

(** * Historical: the code before the fixes did not have the property *)
Definition ab : pattern := lit "ab".

Theorem before_fix_refuted_straddle :
  exists p r chunks, nonempty p = true /\
    total (fst (feed_stream before_fix [WResp p r] chunks)) <> occ p (List.concat chunks).
Proof.
  exists ab, "y"%string, [chars "aba"; chars "b"]. split; [reflexivity|].
  vm_compute. discriminate.
Qed.

Theorem before_fix_refuted_tried :
  exists p r s chunks, nonempty p = true /\ nonempty s = true /\
    occ p (List.concat chunks) = 0 /\                              (* no prompt anywhere *)
    total (fst (feed_stream before_fix [WFail p r s] chunks)) = 0 /\  (* nothing was ever sent *)
    snd (feed_stream before_fix [WFail p r s] chunks) = true /\       (* yet it raises *)
    must_raise p s [] false chunks = false /\
    (* while the same text in one read does not *)
    snd (feed_stream before_fix [WFail p r s] [List.concat chunks]) = false.
Proof.
  exists (lit "pw"), "y"%string, (lit "Sorry"), [chars "xx "; chars "Sorry"].
  vm_compute. repeat split; reflexivity.
Qed.

(** * Never raises when the sentinel does not occur (any variant, any watchers) *)
Lemma marks_k_count q : forall X k, 0 < k -> k <= List.length X -> 1 <= count_true (marks q k X).
Proof.
  induction X as [|a X IH]; intros k H1 H2; simpl in H2; [lia|].
  destruct k as [|k]; [lia|]. cbn [marks count_true].
  destruct k as [|k]; simpl; [lia|]. apply IH; lia.
Qed.

Lemma occ_zero_no_match q : forall X, occ q X = 0 ->
  forall j, j < List.length X -> match_here q (skipn j X) = false.
Proof.
  induction X as [|a X IH]; intros Z j L; [simpl in L; lia|].
  unfold occ in Z. cbn [marks] in Z. destruct (match_here q (a :: X)) eqn:E.
  - exfalso. cbn [count_true] in Z. apply match_here_len in E. simpl in E.
    destruct (List.length q - 1) as [|n] eqn:M; simpl in Z; [lia|].
    pose proof (marks_k_count q X (S n)). lia.
  - cbn [count_true] in Z. destruct j as [|j]; [exact E|]. simpl. apply IH; [exact Z | simpl in L; lia].
Qed.

Lemma no_match_marks q : forall X,
  (forall j, j < List.length X -> match_here q (skipn j X) = false) -> occ q X = 0.
Proof.
  induction X as [|a X IH]; intros H; [reflexivity|].
  unfold occ. cbn [marks]. pose proof (H 0) as H0. cbn [skipn] in H0. rewrite H0 by (simpl; lia). simpl.
  apply IH. intros j L. apply (H (S j)). simpl; lia.
Qed.

Lemma skipn_add {A} i j (l : list A) : skipn j (skipn i l) = skipn (i + j) l.
Proof.
  revert l; induction i as [|i IH]; intros l; [reflexivity|].
  destruct l as [|a l]; [destruct j; reflexivity | simpl; apply IH].
Qed.

Lemma no_occ_inside q X U i : occ q (X ++ U) = 0 -> occ q (skipn i X) = 0.
Proof.
  intros Z. apply no_match_marks. intros j L. rewrite skipn_length in L.
  rewrite skipn_add.
  destruct (match_here q (skipn (i + j) X)) eqn:E; [|reflexivity].
  apply (match_here_app _ _ U) in E. rewrite <- skipn_app_le in E by lia.
  rewrite (occ_zero_no_match q _ Z) in E; [discriminate|]. rewrite app_length. lia.
Qed.

Definition no_sentinel (ws : list watcher) (T : text) : Prop :=
  forall p r s, In (WFail p r s) ws -> occ s T = 0.

Lemma respond_no_raise v : forall ws sts X U,
  no_sentinel ws (X ++ U) -> snd (respond v ws sts X) = false.
Proof.
  induction ws as [|w ws IH]; intros sts X U N; [reflexivity|].
  destruct sts as [|s sts]; [reflexivity|]. cbn [respond].
  assert (N' : no_sentinel ws (X ++ U)) by (intros p r x Hi; apply (N p r x); right; exact Hi).
  specialize (IH sts X U N').
  destruct w as [p r|p r sen]; cbn [submit]; unfold pattern_matches.
  - destruct (respond v ws sts X) as [[o t] d]. exact IH.
  - fold (occ sen (skipn (w_findex s) X)).
    rewrite (no_occ_inside sen X U) by (apply (N p r sen); left; reflexivity).
    cbn [Nat.ltb Nat.leb]. rewrite andb_false_r.
    destruct (respond v ws sts X) as [[o t] d]. exact IH.
Qed.

Theorem never_raises_without_sentinel v ws : forall chunks s,
  s_dead s = false -> no_sentinel ws (s_buf s ++ List.concat chunks) ->
  snd (feed v ws s chunks) = false.
Proof.
  induction chunks as [|c cs IH]; intros s D N; cbn [feed]; [exact D|].
  unfold read_step. rewrite D. cbn [List.concat] in N. rewrite app_assoc in N.
  pose proof (respond_no_raise v ws (s_w s) (s_buf s ++ c) (List.concat cs) N) as R.
  destruct (respond v ws (s_w s) (s_buf s ++ c)) as [[o t] d]. cbn [snd] in R. subst d.
  specialize (IH (mkS (s_buf s ++ c) t false) eq_refl N).
  destruct (feed v ws (mkS (s_buf s ++ c) t false) cs). exact IH.
Qed.

(** * The watchers in effect ([run] / [_sudo]) are the documented ones *)
Lemma call_watchers_spec cfg_ws kw_ws sudo :
  call_watchers cfg_ws kw_ws sudo = spec_watchers cfg_ws kw_ws sudo.
Proof.
  unfold call_watchers, spec_watchers. destruct sudo as [su|]; [reflexivity | apply app_nil_r].
Qed.

Theorem call_meets_spec cfg_ws kw_ws sudo sched how :
  let ws := call_watchers cfg_ws kw_ws sudo in
  spec_ok (spec_watchers cfg_ws kw_ws sudo) sched how
          (fst (run current ws sched)) (snd (run current ws sched))
          (outcome_exn how (snd (run current ws sched))) = true.
Proof. cbv zeta. rewrite call_watchers_spec. apply current_meets_spec. Qed.

(** * F-C12d: the caller's input stream at end-of-file *)
Lemma nonempty_writes_false_all_nil : forall l,
  nonempty_writes l = false -> map (fun _ : list string => @nil string) l = l.
Proof.
  induction l as [|o l IH]; simpl; [reflexivity|]. destruct o; [|discriminate].
  intros H. rewrite IH by assumption. reflexivity.
Qed.

Lemma nonempty_pick sid : forall sched w,
  nonempty_writes w = false -> nonempty_writes (pick_stream sid sched w) = false.
Proof.
  induction sched as [|[s c] sched IH]; intros w H; destruct w as [|o w]; try reflexivity.
  simpl in *. apply orb_false_iff in H as [H1 H2].
  destruct (Bool.eqb s sid); simpl; rewrite ?H1; apply IH; assumption.
Qed.

(** nothing to answer: the closed stdin does not matter *)
Theorem eof_harmless_without_responses v ws sched :
  nonempty_writes (fst (run v ws sched)) = false ->
  run_eof v ws sched = (fst (run v ws sched), snd (run v ws sched), false).
Proof.
  intros H. unfold run_eof. destruct (run v ws sched) as [w r]. cbn [fst snd] in *.
  rewrite (nonempty_pick false _ _ H), (nonempty_pick true _ _ H), !andb_true_r.
  rewrite (nonempty_writes_false_all_nil _ H). destruct r; reflexivity.
Qed.

Theorem eof_refuted :
  exists ws sched,
    (* with stdin left alone the prompt is answered ... *)
    run current ws sched = ([["x"]], (false, false)) /\
    (* ... with the input stream at EOF nothing arrives and the run dies of ThreadException *)
    run_eof current ws sched = ([[]], (false, false), true) /\
    spec_ok ws sched ViaRun (fst (fst (run_eof current ws sched))) (snd (fst (run_eof current ws sched)))
            (outcome_exn_eof ViaRun (snd (fst (run_eof current ws sched))) (snd (run_eof current ws sched)))
    = false.
Proof.
  exists [WResp (lit "P:") "x"], [(false, "P:"%string)]. vm_compute. repeat split; reflexivity.
Qed.
