(** C10 -- scoped ([--list <root>]) and depth-limited ([--list-depth N])
    listings: the general row generator agrees with the plain one, a bounded
    sweep of the specification over every small tree, and the one place where
    the unchanged code leaves the leading dot out (F-C10e). *)
From InvokeVerif Require Import Corr.C10Corr Proofs.C10_names Proofs.C10_listing.
From Coq Require Import Permutation.
Import ListNotations.
Open Scope string_scope.

(** * the general generator without root and limit is the plain one *)
Lemma andb_false_r' b : (b && false)%bool = false. Proof. destruct b; reflexivity. Qed.

Lemma flat_map_ext_in' {A B} (f g : A -> list B) l : (forall x, f x = g x) -> flat_map f l = flat_map g l.
Proof. intros H. induction l; cbn; [reflexivity|]. rewrite H, IHl. reflexivity. Qed.

Lemma pair_rows_flat : forall c anc, pair_rows false false 0 c anc = flat_rows c anc.
Proof.
  induction c as [n tasks aliases subs dflt ad cfg IH] using coll_ind'. intros anc.
  cbn [pair_rows flat_rows]. rewrite andb_false_r'. cbn [Nat.eqb negb andb].
  f_equal.
  - apply map_ext. intros [k t]. cbn [fst snd].
    destruct anc as [|a anc'].
    + cbn [join]. cbn [append]. rewrite map_map.
      destruct (is_default dflt k); cbn [app]; repeat f_equal.
    + rewrite map_map. set (p := join "." (a :: anc')).
      destruct (is_default dflt k); cbn [app]; repeat f_equal.
  - apply flat_map_ext_in'. intros k.
    induction subs as [|[k' sc] l IHl]; [reflexivity|].
    inversion IH as [|? ? Hsc Hl]; subst. cbn [snd] in Hsc.
    destruct (String.eqb k k').
    + cbn [app]. apply Hsc.
    + apply IHl. exact Hl.
Qed.

Lemma flat_map_ext_In {A B} (f g : A -> list B) l : (forall x, In x l -> f x = g x) -> flat_map f l = flat_map g l.
Proof.
  induction l; cbn; [reflexivity|]. intros H. rewrite (H a (or_introl eq_refl)), IHl; [reflexivity|].
  intros x Hx. apply H. right. exact Hx.
Qed.

Lemma pair_rows_nested : forall c anc, pair_rows true false 0 c anc = nested_rows c anc.
Proof.
  induction c as [n tasks aliases subs dflt ad cfg IH] using coll_ind'. intros anc.
  cbn [pair_rows nested_rows]. cbn [Nat.eqb negb andb].
  f_equal.
  - apply map_ext. intros [k t]. cbn [fst snd].
    destruct anc as [|a anc']; destruct (is_default dflt k); reflexivity.
  - apply flat_map_ext_In. intros k Hk.
    apply (Permutation_in _ (sort_by_perm (fun x => x) (akeys subs))) in Hk.
    replace (if match anc with [] => false | _ :: _ => true end then "." ++ k else k)
      with (match anc with [] => k | _ => "." ++ k end) by (destruct anc; reflexivity).
    induction subs as [|[k' sc] l IHl]; [destruct Hk|].
    inversion IH as [|? ? Hsc Hl]; subst. cbn [snd] in Hsc.
    destruct (String.eqb k k') eqn:E.
    + cbn [app]. f_equal. rewrite Hsc.
      (* the old function keeps searching only on a mismatch *)
      reflexivity.
    + rewrite IHl; [reflexivity | exact Hl |].
      cbn in Hk. destruct Hk as [Hk|Hk]; [|exact Hk].
      subst k'. rewrite String.eqb_refl in E. discriminate.
Qed.

(** * bounded sweep *)
Definition judged (c : coll) (view : nat) (root : option string) (dl : nat) : bool :=
  let rows := model_rows_at c view root dl in
  match root with
  | None => listing_at true false (bindings c []) (sub_colls c []) true (c_auto_dash c) view false dl rows
  | Some r =>
      match focus_of c (split_char "." r) with
      | None => match rows with Err _ => true | Ok _ => false end
      | Some f => listing_at true false (bindings f []) (sub_colls f []) true (c_auto_dash c) view true dl rows
      end
  end.

Definition scoped_views : list (option string * nat) :=
  flat_map (fun r => map (fun d => (r, d)) [0; 1; 2])
           [None; Some "sub"; Some "sub.in-ner"; Some "sub.in_ner"; Some "top"].

Definition scoped_sweep (scripts : list item) : bool :=
  forallb (fun s =>
             match build s with
             | Ok c =>
                 if keys_normalized (c_auto_dash c) c then
                   forallb (fun rd : option string * nat =>
                              judged c 1 (fst rd) (snd rd) && judged c 2 (fst rd) (snd rd) &&
                              (if bound_by_own_names c then judged c 3 (fst rd) (snd rd) else true))
                           scoped_views
                 else true
             | Err _ => false
             end) scripts.

Lemma scoped_bounded : scoped_sweep (sweep_scripts true) = true.
Proof. vm_compute. reflexivity. Qed.

Lemma scoped_sweep_size :
  List.length (sweep_scripts true) * List.length scoped_views = 2880 /\
  List.length (filter (fun s => match build s with
                                | Ok c => keys_normalized (c_auto_dash c) c && bound_by_own_names c
                                | Err _ => false end) (sweep_scripts true)) = 48.
Proof. vm_compute. auto. Qed.

(** * F-C10e: the truncated collection row of a scoped flat listing *)
Definition tk (i : nat) (n : string) : item := ITask (mkTask i n [] false) None [] None.
Definition fc10e_script : item :=
  ISub None true (Node [])
    [ISub (Some "docs") true (Node [])
       [tk 1 "build";
        ISub (Some "api") true (Node [])
          [tk 2 "gen"; ISub (Some "deep") true (Node []) [tk 3 "x"] None false] None false] None false]
    None false.

Lemma refuted_truncated_row :
  exists c, build fc10e_script = Ok c /\
            script_clean fc10e_script = true /\ keys_normalized (c_auto_dash c) c = true /\
            model_rows_at c 1 (Some "docs") 2 =
              Ok [(0, ".build", [], Some 1); (0, ".api.gen", [], Some 2); (0, "api.deep", ["1 tasks"], None)] /\
            judged c 1 (Some "docs") 2 = false /\
            (* the nested format and the smaller limit are fine *)
            judged c 2 (Some "docs") 2 = true /\ judged c 1 (Some "docs") 1 = true /\
            judged c 1 None 2 = true.
Proof. eexists. split; [vm_compute; reflexivity|]. vm_compute. repeat split; reflexivity. Qed.
