(** C07: concrete witnesses (by computation) that the faithful model violates
    the full statement, the non-vacuity examples, and the bounded sweep of
    the complete executable specification. *)
From InvokeVerif Require Import Corr.C07Corr Proofs.C07_errors.

(** Two tasks: [t(name=None, num=1, flag=False, lst=[] (iterable), opt=None (optional))]
    and [p(pos, yes=True)] with alias q -- exactly what Collection.to_contexts()
    produces for them (harness/props/c07.py SMALL_SIGS). *)
Definition ctx_t : ctxspec :=
  mkCtx (Some "t") []
    [mkArg ["name"; "n"] KStr ANone false false false None;
     mkArg ["num"; "u"] KInt (AInt 1%Z) false false false None;
     mkArg ["flag"; "f"] KBool (ABool false) false false false None;
     mkArg ["lst"; "l"] KList (AList []) false false false None;
     mkArg ["opt"; "o"] KStr ANone false true false None].

Definition ctx_p : ctxspec :=
  mkCtx (Some "p") ["q"]
    [mkArg ["pos"; "p"] KStr ANone true false false None;
     mkArg ["yes"; "y"] KBool (ABool true) false false false None].

Definition small_cs : list ctxspec := [ctx_t; ctx_p].

(** The same without the int-valued parameter, and an initial context without
    int-valued options: inside the strict guard. *)
Definition ctx_t_noint : ctxspec :=
  mkCtx (Some "t") []
    [mkArg ["name"; "n"] KStr ANone false false false None;
     mkArg ["flag"; "f"] KBool (ABool false) false false false None;
     mkArg ["lst"; "l"] KList (AList []) false false false None;
     mkArg ["verbose"; "v"] KInt (AInt 0%Z) false false true None;
     mkArg ["opt"; "o"] KStr ANone false true false None].

Definition init_noint : ctxspec :=
  mkCtx None []
    [mkArg ["echo"; "e"] KBool (ABool false) false false false None;
     mkArg ["help"; "h"] KStr ANone false true false None;
     mkArg ["config"; "f"] KStr ANone false false false None].

Lemma guard_core_small : c07_guard small_cs (Some core_ctx) = true.
Proof. vm_compute. reflexivity. Qed.

Lemma guard_strict_example : c07_guard [ctx_t_noint; ctx_p] (Some init_noint) = true.
Proof. vm_compute. reflexivity. Qed.

Lemma strict_example_parses :
  exists r, parser_parse [ctx_t_noint; ctx_p] (Some init_noint) false
                         ["t"; "-vv"; "--name=x"; "-e"; "q"; "5"; "--no-yes"] = Ok r
            /\ List.length (pr_ctxs r) = 3.
Proof. eexists. split; vm_compute; reflexivity. Qed.

(** Since repair 401bc73 (F-C07a fixed): a non-integer value for an int-valued
    flag or positional is a ParseError. *)
Lemma int_value_is_parse_error :
  c07_guard small_cs (Some core_ctx) = true /\
  parser_parse small_cs (Some core_ctx) false ["t"; "--num=abc"] = Err EParse /\
  parser_parse [] (Some core_ctx) true ["-T"; "abc"] = Err EParse.
Proof. repeat split; vm_compute; reflexivity. Qed.

(** Historical record (behaviour before 401bc73, kept for the register): the
    conversion itself still raises ValueError -- [Argument.set_value] is
    unchanged; what changed is that the parse machine now catches it. *)
Lemma argument_cast_still_raises_value_error :
  set_value (init_arg (mkArg ["num"; "u"] KInt (AInt 1%Z) false false false None)) (IStr "abc") true
  = Err EValue.
Proof. reflexivity. Qed.

(** Since repair e36c9e6 (F-C07b fixed): a parser without initial context
    splits a short-flag cluster without dereferencing a missing context; the
    unknown first piece is an ordinary ParseError.  The guard of the theorem
    holds for such parsers. *)
Lemma no_initial_cluster_is_parse_error :
  c07_guard small_cs None = true /\
  parser_parse small_cs None false ["-abc"] = Err EParse /\
  exists r, parser_parse small_cs None false ["t"; "-fn"; "x"; "q"; "5"] = Ok r
            /\ List.length (pr_ctxs r) = 2.
Proof.
  split; [vm_compute; reflexivity|]. split; [vm_compute; reflexivity|].
  eexists. split; vm_compute; reflexivity.
Qed.

(** F-C07c: a list-kind flag left without a value is accepted. *)
Lemma refuted_list :
  exists cs init argv r,
    c07_guard cs init = true /\
    parser_parse cs init false argv = Ok r /\
    spec_ok cs init false argv (Ok (obs_of_presult r)) = false.
Proof.
  exists small_cs, (Some core_ctx), ["t"; "--lst"]. eexists.
  split; [vm_compute; reflexivity|]. split; vm_compute; reflexivity.
Qed.

(** F-C07d: a value flag whose argument already has a value (given earlier by
    flag, or positionally) and is now left without one is accepted. *)
Lemma refuted_repeat :
  exists cs init argv r,
    c07_guard cs init = true /\
    parser_parse cs init false argv = Ok r /\
    spec_ok cs init false argv (Ok (obs_of_presult r)) = false.
Proof.
  exists small_cs, (Some core_ctx), ["t"; "--name"; "x"; "--name"]. eexists.
  split; [vm_compute; reflexivity|]. split; vm_compute; reflexivity.
Qed.

Lemma refuted_repeat_positional :
  exists r, parser_parse small_cs (Some core_ctx) false ["p"; "v"; "--pos"] = Ok r /\
            spec_ok small_cs (Some core_ctx) false ["p"; "v"; "--pos"] (Ok (obs_of_presult r)) = false.
Proof. eexists. split; vm_compute; reflexivity. Qed.

(** ** Bounded sweep (a test): every command line of at most [n] tokens over a
    14-token alphabet against the two tasks above and the real core context.
    The model's outcome satisfies the complete [spec_ok] except inside the
    catalogued findings (dangling value flag accepted). *)
Definition sweep_alpha : list string :=
  ["t"; "p"; "--name"; "-n"; "-u5"; "--name=x"; "x"; "-f"; "--"; "-fn"; "--lst"; "--opt";
   "--no-yes"; "-e"].

Fixpoint seqs (n : nat) (alpha : list string) : list (list string) :=
  match n with
  | O => [[]]
  | S n' => [] :: flat_map (fun s => map (fun t => t :: s) alpha)
                          (filter (fun s => Nat.eqb (List.length s) n') (seqs n' alpha))
              ++ seqs n' alpha
  end.

Definition excused (cs : list ctxspec) (init : option ctxspec) (argv : list string)
           (obs : result pobs) : bool :=
  match obs with
  | Ok o => b2_dangling_flag cs init (before_ddash argv) o
  | _ => false
  end.

Definition sweep_ok (argv : list string) : bool :=
  let obs := model_parse small_cs ICore false argv in
  spec_ok small_cs (Some core_ctx) false argv obs || excused small_cs (Some core_ctx) argv obs.

Lemma spec_sweep_3 : forallb sweep_ok (seqs 3 sweep_alpha) = true.
Proof. vm_compute. reflexivity. Qed.
