(** C07: concrete witnesses (by computation) that the faithful model violates
    the full statement, the non-vacuity examples, and the bounded sweep of
    the complete executable specification. *)
From InvokeVerif Require Import Corr.C07Corr Proofs.C07_errors.

(** Two tasks: [t(name=None, num=1, flag=False, lst=[] (iterable), opt=None (optional))]
    and [p(pos, yes=True)] with alias q -- exactly what Collection.to_contexts()
    produces for them (harness/props/c07.py SMALL_SIGS). *)
Definition ctx_t : ctxspec :=
  mkCtx (Some "t") []
    [mkArg ["name"; "n"] KStr ANone false false false None;
     mkArg ["num"; "u"] KInt (AInt 1%Z) false false false None;
     mkArg ["flag"; "f"] KBool (ABool false) false false false None;
     mkArg ["lst"; "l"] KList (AList []) false false false None;
     mkArg ["opt"; "o"] KStr ANone false true false None].

Definition ctx_p : ctxspec :=
  mkCtx (Some "p") ["q"]
    [mkArg ["pos"; "p"] KStr ANone true false false None;
     mkArg ["yes"; "y"] KBool (ABool true) false false false None].

Definition small_cs : list ctxspec := [ctx_t; ctx_p].

(** The same without the int-valued parameter, and an initial context without
    int-valued options: inside the strict guard. *)
Definition ctx_t_noint : ctxspec :=
  mkCtx (Some "t") []
    [mkArg ["name"; "n"] KStr ANone false false false None;
     mkArg ["flag"; "f"] KBool (ABool false) false false false None;
     mkArg ["lst"; "l"] KList (AList []) false false false None;
     mkArg ["verbose"; "v"] KInt (AInt 0%Z) false false true None;
     mkArg ["opt"; "o"] KStr ANone false true false None].

Definition init_noint : ctxspec :=
  mkCtx None []
    [mkArg ["echo"; "e"] KBool (ABool false) false false false None;
     mkArg ["help"; "h"] KStr ANone false true false None;
     mkArg ["config"; "f"] KStr ANone false false false None].

Lemma guard_core_small : c07_guard small_cs (Some core_ctx) = true.
Proof. vm_compute. reflexivity. Qed.

Lemma guard_strict_example : c07_guard [ctx_t_noint; ctx_p] (Some init_noint) = true.
Proof. vm_compute. reflexivity. Qed.

Lemma strict_example_parses :
  exists r, parser_parse [ctx_t_noint; ctx_p] (Some init_noint) false
                         ["t"; "-vv"; "--name=x"; "-e"; "q"; "5"; "--no-yes"] = Ok r
            /\ List.length (pr_ctxs r) = 3.
Proof. eexists. split; vm_compute; reflexivity. Qed.

(** Since repair 401bc73 (F-C07a fixed): a non-integer value for an int-valued
    flag or positional is a ParseError. *)
Lemma int_value_is_parse_error :
  c07_guard small_cs (Some core_ctx) = true /\
  parser_parse small_cs (Some core_ctx) false ["t"; "--num=abc"] = Err EParse /\
  parser_parse [] (Some core_ctx) true ["-T"; "abc"] = Err EParse.
Proof. repeat split; vm_compute; reflexivity. Qed.

(** Historical record (behaviour before 401bc73, kept for the register): the
    conversion itself still raises ValueError -- [Argument.set_value] is
    unchanged; what changed is that the parse machine now catches it. *)
Lemma argument_cast_still_raises_value_error :
  set_value (init_arg (mkArg ["num"; "u"] KInt (AInt 1%Z) false false false None)) (IStr "abc") true
  = Err EValue.
Proof. reflexivity. Qed.

(** Since repair e36c9e6 (F-C07b fixed): a parser without initial context
    splits a short-flag cluster without dereferencing a missing context; the
    unknown first piece is an ordinary ParseError.  The guard of the theorem
    holds for such parsers. *)
Lemma no_initial_cluster_is_parse_error :
  c07_guard small_cs None = true /\
  parser_parse small_cs None false ["-abc"] = Err EParse /\
  exists r, parser_parse small_cs None false ["t"; "-fn"; "x"; "q"; "5"] = Ok r
            /\ List.length (pr_ctxs r) = 2.
Proof.
  split; [vm_compute; reflexivity|]. split; [vm_compute; reflexivity|].
  eexists. split; vm_compute; reflexivity.
Qed.

(** Since repair 9120dc5 (F-C07c, F-C07d fixed): a value-requiring flag left
    without a value is a ParseError also when its argument already holds
    something -- a list-kind argument (raw_value starts as []), an argument
    given earlier by flag, an argument filled positionally.  An optional-value
    flag repeated bare still keeps its earlier value (the unchanged second
    branch of [complete_flag]). *)
Lemma missing_value_list_raises :
  c07_guard small_cs (Some core_ctx) = true /\
  parser_parse small_cs (Some core_ctx) false ["t"; "--lst"] = Err EParse /\
  parser_parse small_cs (Some core_ctx) false ["t"; "--lst"; "a"; "--lst"] = Err EParse /\
  spec_ok small_cs (Some core_ctx) false ["t"; "--lst"] (model_parse small_cs ICore false ["t"; "--lst"]) = true.
Proof. repeat split; vm_compute; reflexivity. Qed.

Lemma missing_value_repeat_raises :
  parser_parse small_cs (Some core_ctx) false ["t"; "--name"; "x"; "--name"] = Err EParse /\
  parser_parse small_cs (Some core_ctx) false ["p"; "v"; "--pos"] = Err EParse /\
  spec_ok small_cs (Some core_ctx) false ["t"; "--name"; "x"; "--name"]
          (model_parse small_cs ICore false ["t"; "--name"; "x"; "--name"]) = true /\
  exists r, parser_parse small_cs (Some core_ctx) false ["t"; "--opt"; "o"; "--opt"] = Ok r /\
            map obs_of_ctx (tl (pr_ctxs r))
            = [(Some "t", [("name", ANone); ("num", AInt 1); ("flag", ABool false);
                           ("lst", AList []); ("opt", AStr "o")])].
Proof.
  split; [vm_compute; reflexivity|]. split; [vm_compute; reflexivity|].
  split; [vm_compute; reflexivity|]. eexists. split; vm_compute; reflexivity.
Qed.

(** Historical record (F-C07c / F-C07d, fixed): [complete_flag_old] is the rule
    as it was before 9120dc5 -- "needed a value" judged by [raw_value is None].
    On the machines reached after "t --lst" and after "t --name x --name" (the
    dangling flag is current, [flag_got_value] is False) the old rule saw a
    raw_value ([] resp. "x") and let the parse finish; the repaired rule raises. *)
Definition complete_flag_old (m : machine) : result machine :=
  match m_flag m, flag_arg m with
  | Some f, Some r =>
      if takes_value (r_spec r) && negb (r_raw r) && negb (a_optional (r_spec r))
      then Err EParse
      else if negb (r_raw r) && a_optional (r_spec r)
      then set_arg_value m f (IBool true) false
      else Ok m
  | _, _ => Ok m
  end.

Definition machine_after (argv : list string) : option (result machine) :=
  match new_machine (mkP small_cs (Some core_ctx) false) with
  | Ok m0 => loop (mkP small_cs (Some core_ctx) false) 10 m0 argv
  | Err e => Some (Err e)
  end.

Lemma missing_value_historical_refuted :
  (exists m, machine_after ["t"; "--lst"] = Some (Ok m) /\ m_got m = false /\
             complete_flag_old m = Ok m /\ complete_flag m = Err EParse) /\
  (exists m, machine_after ["t"; "--name"; "x"; "--name"] = Some (Ok m) /\ m_got m = false /\
             complete_flag_old m = Ok m /\ complete_flag m = Err EParse) /\
  (exists m, machine_after ["p"; "v"; "--pos"] = Some (Ok m) /\ m_got m = false /\
             complete_flag_old m = Ok m /\ complete_flag m = Err EParse).
Proof.
  split; [|split]; eexists; (split; [vm_compute; reflexivity|]); repeat split; vm_compute; reflexivity.
Qed.

(** Since repair f5d4a34 (F-C07f fixed): a text the argument's own type rejects
    is a ParseError whichever exception the type raises.  [ctx_o]: a float
    parameter (ValueError on "abc", converts "2.5") and a bytes parameter
    (TypeError on every text), with the oracle of the texts used here. *)
Definition ctx_o : ctxspec :=
  mkCtx (Some "o") []
    [mkArg ["ratio"; "r"] (KOther "float" CFailV [("2.5", COk "2.5")]) (AStr "<float 1.5>")
           false false false None;
     mkArg ["data"; "d"] (KOther "bytes" CFailT []) (AStr "<bytes b'x'>") false false false None].

Lemma other_kind_value_is_parse_error :
  c07_guard [ctx_o] (Some core_ctx) = true /\
  parser_parse [ctx_o] (Some core_ctx) false ["o"; "--ratio"; "abc"] = Err EParse /\
  parser_parse [ctx_o] (Some core_ctx) false ["o"; "-d"; "ab"] = Err EParse /\
  spec_ok [ctx_o] (Some core_ctx) false ["o"; "-d"; "ab"] (model_parse [ctx_o] ICore false ["o"; "-d"; "ab"]) = true /\
  exists r, parser_parse [ctx_o] (Some core_ctx) false ["o"; "-r"; "2.5"] = Ok r /\
            map obs_of_ctx (tl (pr_ctxs r)) = [(Some "o", [("ratio", AStr "<float 2.5>"); ("data", AStr "<bytes b'x'>")])].
Proof.
  split; [vm_compute; reflexivity|]. split; [vm_compute; reflexivity|].
  split; [vm_compute; reflexivity|]. split; [vm_compute; reflexivity|].
  eexists. split; vm_compute; reflexivity.
Qed.

(** Historical record (F-C07f, fixed): [checked_old] is the guarded assignment
    before f5d4a34, which caught ValueError only; the TypeError of [bytes("ab")]
    escaped parse_argv. *)
Definition checked_old (r : result machine) : result machine :=
  match r with Err EValue => Err EParse | _ => r end.

Lemma type_error_historical_refuted :
  exists m f, set_arg_value m f (IStr "ab") true = Err EType /\
              checked_old (set_arg_value m f (IStr "ab") true) = Err EType /\
              checked (set_arg_value m f (IStr "ab") true) = Err EParse.
Proof.
  exists (mkM [init_ctx core_ctx; init_ctx ctx_o] true (Some 1) [0] (Some (1, 1)) false SContext []), (1, 1).
  repeat split; vm_compute; reflexivity.
Qed.

(** F-C07e: a counter ([incrementable]) whose default is not a number --
    [@task(incrementable=['v']) def t(c, v=None)] -- makes "-v" raise TypeError
    ([None + 1]) out of parse_argv: the assignment in [switch_to_flag] is not
    guarded.  The guard of [only_parse_errors] ("counters start from a number")
    is exactly the complement. *)
Definition ctx_badcounter : ctxspec :=
  mkCtx (Some "t") [] [mkArg ["v"] KStr ANone false false true None].

Lemma refuted_counter :
  c07_guard [ctx_badcounter] (Some core_ctx) = false /\
  parser_parse [ctx_badcounter] (Some core_ctx) false ["t"; "-v"] = Err EType /\
  spec_ok [ctx_badcounter] (Some core_ctx) false ["t"; "-v"]
          (model_parse [ctx_badcounter] ICore false ["t"; "-v"]) = false.
Proof. repeat split; vm_compute; reflexivity. Qed.

(** ** Bounded sweep (a test): every command line of at most [n] tokens over a
    14-token alphabet against the two tasks above and the real core context.
    The model's outcome satisfies the complete [spec_ok] -- no exemption since
    repair 9120dc5 (the former one, "dangling value flag accepted", covered
    F-C07c/d). *)
Definition sweep_alpha : list string :=
  ["t"; "p"; "--name"; "-n"; "-u5"; "--name=x"; "x"; "-f"; "--"; "-fn"; "--lst"; "--opt";
   "--no-yes"; "-e"].

Fixpoint seqs (n : nat) (alpha : list string) : list (list string) :=
  match n with
  | O => [[]]
  | S n' => [] :: flat_map (fun s => map (fun t => t :: s) alpha)
                          (filter (fun s => Nat.eqb (List.length s) n') (seqs n' alpha))
              ++ seqs n' alpha
  end.

Definition sweep_ok (argv : list string) : bool :=
  spec_ok small_cs (Some core_ctx) false argv (model_parse small_cs ICore false argv).

Lemma spec_sweep_3 : forallb sweep_ok (seqs 3 sweep_alpha) = true.
Proof. vm_compute. reflexivity. Qed.
