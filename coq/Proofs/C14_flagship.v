(** C14 flagship: the RunnerSM model satisfies the executable spec outside the two
    catalogued defect regions -- for every configuration and every event script. *)
From InvokeVerif Require Import Model.RunnerSM Spec.C08Spec Spec.C14Spec Corr.RunnerCorr.
From InvokeVerif Require Import Proofs.RunnerSM_facts Proofs.C08_sm Proofs.C14_sm Proofs.RunnerSM_sweep Proofs.C08_flagship.
From Coq Require Import Lia.

(** * (i) No timeout in effect: never killed, never reported as timed out *)

Lemma run_joins_timer_none c todo s cur ec :
  s_timer (fst s) = TNone -> s_timer (fst (run_joins c s todo cur ec)) = TNone.
Proof.
  intros T. pose proof (run_joins_result c todo s cur ec) as J.
  remember (fst (run_joins c s todo cur ec)) as r eqn:Er. clear Er.
  inversion J; subst r; cbn; rewrite T; reflexivity.
Qed.

Lemma leave_wait_timer_none c s ec :
  s_timer (fst s) = TNone -> s_timer (fst (leave_wait c s ec)) = TNone.
Proof. intros T. unfold leave_wait. apply run_joins_timer_none. exact T. Qed.

Lemma step_timer_none c k n e :
  s_timer k = TNone ->
  s_timer (fst (step c (k, n) e)) = TNone /\ n_kills (snd (step c (k, n) e)) = n_kills n.
Proof.
  intros T. unfold step. rewrite advance_kills. cbn [snd].
  assert (A : s_timer (fst (apply_ev c (k, n) e)) = TNone /\ n_kills (snd (apply_ev c (k, n) e)) = n_kills n).
  { unfold apply_ev. cbn [fst snd]. destruct (negb (running k)); [auto|].
    destruct e as [w|w|code|code| |w x|]; cbn [fst snd];
    repeat match goal with
    | |- context [match ?w with WOut => _ | WIn => _ | WErr => _ end] => is_var w; destruct w
    | |- context [if is_run ?x then _ else _] => destruct (is_run x)
    | |- context [match s_proc k with _ => _ end] => destruct (s_proc k)
    | |- context [match s_pc k with _ => _ end] => destruct (s_pc k)
    end; cbn [fst snd]; rewrite ?T; try (split; reflexivity); try (split; [exact T || (destruct w; exact T) | reflexivity]);
    try (split; [apply leave_wait_timer_none; exact T |
                 unfold leave_wait;
                 match goal with |- n_kills (snd (run_joins c ?a ?b None ?ec)) = _ =>
                   destruct (run_joins_kills c b a None ec) as [Q _]; rewrite Q end; reflexivity]). }
  destruct A as [A1 A2]. split; [|exact A2].
  unfold advance. cbn [fst snd]. destruct (s_pc (fst (apply_ev c (k, n) e))).
  - destruct (s_proc _); [apply leave_wait_timer_none; exact A1|].
    destruct (any_dead _); [apply leave_wait_timer_none; exact A1 | exact A1].
  - apply run_joins_timer_none. exact A1.
  - exact A1.
  - exact A1.
Qed.

Lemma run_events_timer_none c : forall script k n,
  s_timer k = TNone ->
  s_timer (fst (run_events c (k, n) script)) = TNone /\ n_kills (snd (run_events c (k, n) script)) = n_kills n.
Proof.
  induction script as [|e r IH]; intros k n T; [auto|].
  change (run_events c (k, n) (e :: r)) with (run_events c (step c (k, n) e) r).
  destruct (step_timer_none c k n e T) as [T1 K1].
  rewrite (surjective_pairing (step c (k, n) e)).
  destruct (IH _ (snd (step c (k, n) e)) T1) as [T2 K2]. rewrite K2, K1. auto.
Qed.

Lemma decide_not_timedout c k ec : c_timeout c = false -> decide c k ec <> OTimedOut.
Proof.
  intros CT. unfold decide. rewrite CT. cbn [andb].
  destruct ec; [discriminate|]. destruct (any_dead_k XOther k); [discriminate|].
  destruct (any_dead_k XWatcher k); [discriminate|]. destruct (_ || c_warn c); discriminate.
Qed.

Definition NtInv (k : ctl) : Prop := match s_pc k with PDone o => o <> OTimedOut | _ => True end.

Lemma joins_nt c k todo cur ec r : c_timeout c = false -> joins_result c k todo cur ec r -> NtInv r.
Proof.
  intros CT J. inversion J; subst r; unfold NtInv; cbn; [apply decide_not_timedout; exact CT | exact Logic.I].
Qed.

Lemma run_joins_nt c todo s cur ec : c_timeout c = false -> NtInv (fst (run_joins c s todo cur ec)).
Proof. intros CT. apply (joins_nt c (fst s) todo cur ec); [exact CT | apply run_joins_result]. Qed.

Lemma advance_nt c s : c_timeout c = false -> NtInv (fst s) -> NtInv (fst (advance c s)).
Proof.
  intros CT H. unfold advance. destruct (s_pc (fst s)) eqn:P.
  - destruct (s_proc (fst s)); [apply run_joins_nt; exact CT|].
    destruct (any_dead (fst s)); [apply run_joins_nt; exact CT | exact H].
  - apply run_joins_nt. exact CT.
  - exact H.
  - exact H.
Qed.

Lemma apply_ev_nt c k n e : c_timeout c = false -> NtInv k -> NtInv (fst (apply_ev c (k, n) e)).
Proof.
  intros CT H. unfold apply_ev. cbn [fst snd]. destruct (running k) eqn:R; cbn [negb]; [|exact H].
  assert (G : forall k', s_pc k' = s_pc k -> NtInv k').
  { intros k' E. unfold NtInv in *. rewrite E. exact H. }
  destruct e as [w|w|code|code| |w x|]; cbn [fst];
  repeat match goal with
  | |- context [match ?w with WOut => _ | WIn => _ | WErr => _ end] => is_var w; destruct w
  | |- context [if is_run ?x then _ else _] => destruct (is_run x)
  | |- context [match s_proc k with _ => _ end] => destruct (s_proc k)
  | |- context [match s_timer k with _ => _ end] => destruct (s_timer k)
  | |- context [match s_pc k with _ => _ end] => destruct (s_pc k) eqn:?
  end; cbn [fst]; try exact H; try (apply G; rewrite ?pc_wset; cbn; congruence);
  try (unfold leave_wait; apply run_joins_nt; exact CT).
Qed.

Lemma run_events_nt c : forall script s, c_timeout c = false -> NtInv (fst s) -> NtInv (fst (run_events c s script)).
Proof.
  induction script as [|e r IH]; intros s CT H; [exact H|].
  change (run_events c s (e :: r)) with (run_events c (step c s e) r). apply IH; [exact CT|].
  unfold step. apply advance_nt; [exact CT|]. cbn [fst]. rewrite (surjective_pairing s).
  apply apply_ev_nt; assumption.
Qed.

Lemma drain_nt c s : c_timeout c = false -> NtInv (fst s) -> NtInv (fst (drain c s)).
Proof.
  intros CT H. unfold drain. destruct (negb (running (fst s))); [exact H|].
  assert (X : forall t, NtInv (fst t) -> NtInv (fst (expire c t))).
  { intros t Ht. unfold expire. destruct (s_pc (fst t)) as [|[|w rest] [[|]|] ec|o|] eqn:P; try exact Ht.
    - apply run_joins_nt. exact CT.
    - unfold NtInv. cbn. exact Logic.I. }
  apply X. apply X. apply advance_nt; [exact CT|]. cbn [fst].
  unfold NtInv in *. destruct (drain_eof_fields c (fst s)) as (Epc & _). rewrite Epc. exact H.
Qed.

Theorem no_timeout_untouched c script :
  start_raises c = false -> c_timeout c = false ->
  n_kills (snd (run_sm c script)) = 0 /\
  (forall o, s_pc (fst (run_sm c script)) = PDone o -> o <> OTimedOut).
Proof.
  intros S CT. unfold run_sm.
  assert (E0 : advance c (init c) = init c).
  { unfold advance, init. rewrite S. cbn. destruct (c_in c), (c_pty c); reflexivity. }
  rewrite E0. split.
  - rewrite drain_kills. rewrite (surjective_pairing (init c)).
    destruct (run_events_timer_none c script (fst (init c)) (snd (init c))) as [_ K].
    + unfold init. rewrite S, CT. reflexivity.
    + rewrite K. unfold init. rewrite S. reflexivity.
  - intros o P.
    assert (N : NtInv (fst (drain c (run_events c (init c) script)))).
    { apply drain_nt; [exact CT|]. apply run_events_nt; [exact CT|].
      unfold init. rewrite S. unfold NtInv. cbn. exact Logic.I. }
    unfold NtInv in N. rewrite P in N. exact N.
Qed.

(** * (ii) The reads captured are the reads delivered before EOF *)

Definition cntw (w : who) (n : cnt) : nat := match w with WOut => n_out n | WErr => n_err n | WIn => 0 end.

Lemma run_joins_keeps c todo s cur ec w :
  wget (fst (run_joins c s todo cur ec)) w = wget (fst s) w.
Proof.
  pose proof (run_joins_result c todo s cur ec) as J.
  remember (fst (run_joins c s todo cur ec)) as r eqn:Er. clear Er.
  inversion J; subst r; destruct w; reflexivity.
Qed.

Lemma run_joins_cntw c w : forall todo s cur ec, cntw w (snd (run_joins c s todo cur ec)) = cntw w (snd s).
Proof.
  induction todo as [|u rest IH]; intros s cur ec.
  - destruct w; reflexivity.
  - cbn [run_joins]. destruct (is_run (wget (fst s) u)).
    + destruct w, cur; reflexivity.
    + rewrite IH. destruct w, cur; reflexivity.
Qed.

Lemma leave_wait_keeps c s ec w : w <> WIn -> wget (fst (leave_wait c s ec)) w = wget (fst s) w.
Proof. intros H. unfold leave_wait. rewrite run_joins_keeps. destruct w; try reflexivity. elim H; reflexivity. Qed.

Lemma leave_wait_cntw c s ec w : cntw w (snd (leave_wait c s ec)) = cntw w (snd s).
Proof. unfold leave_wait. rewrite run_joins_cntw. destruct w; reflexivity. Qed.

Lemma advance_keeps c s w : w <> WIn ->
  wget (fst (advance c s)) w = wget (fst s) w /\ cntw w (snd (advance c s)) = cntw w (snd s).
Proof.
  intros H. unfold advance. destruct (s_pc (fst s)).
  - destruct (s_proc (fst s)).
    + rewrite leave_wait_keeps by exact H. rewrite leave_wait_cntw. split; [destruct w; reflexivity | reflexivity].
    + destruct (any_dead (fst s)); [|auto].
      rewrite leave_wait_keeps by exact H. rewrite leave_wait_cntw. auto.
  - rewrite run_joins_keeps, run_joins_cntw. auto.
  - auto.
  - auto.
Qed.

Definition is_chunk (w : who) (e : ev) : bool :=
  match e, w with EChunk WOut, WOut | EChunk WErr, WErr => true | _, _ => false end.
Definition is_eof (w : who) (e : ev) : bool :=
  match e, w with EEof WOut, WOut | EEof WErr, WErr => true | _, _ => false end.

Lemma step_counts c k n e w :
  Inv c k -> in_scope_ev e = true -> w <> WIn ->
  cntw w (snd (step c (k, n) e)) = cntw w n + (if is_run (wget k w) && is_chunk w e then 1 else 0) /\
  is_run (wget (fst (step c (k, n) e)) w) = is_run (wget k w) && negb (is_eof w e).
Proof.
  intros I Sc Hw. unfold step.
  destruct (advance_keeps c (fst (apply_ev c (k, n) e), add_steps 1 (snd (apply_ev c (k, n) e))) w Hw) as [A B].
  cbn [fst snd] in A, B. rewrite A, B.
  replace (cntw w (add_steps 1 (snd (apply_ev c (k, n) e)))) with (cntw w (snd (apply_ev c (k, n) e)))
    by (destruct w; reflexivity).
  (* a running worker means run() is not over *)
  assert (Rn : is_run (wget k w) = true -> running k = true).
  { intros R. unfold running. destruct I as [_ HI]. destruct (s_pc k); try reflexivity.
    - destruct HI as (_ & W & _). rewrite (W w) in R. discriminate.
    - elim HI. }
  unfold apply_ev. cbn [fst snd]. destruct (running k) eqn:Rk; cbn [negb].
  2:{ destruct (is_run (wget k w)) eqn:R; [specialize (Rn eq_refl); discriminate|]. cbn [fst snd andb]. rewrite ?R. cbn. split; [lia | reflexivity]. }
  destruct e as [u|u|code|code| |u x|]; try discriminate Sc; cbn [fst snd];
  repeat match goal with
  | |- context [match ?u with WOut => _ | WIn => _ | WErr => _ end] => is_var u; destruct u
  | |- context [if is_run (wget k ?x) then _ else _] => destruct (is_run (wget k x)) eqn:?
  | |- context [match s_proc k with _ => _ end] => destruct (s_proc k)
  | |- context [match s_timer k with _ => _ end] => destruct (s_timer k)
  end; cbn [fst snd]; destruct w; try (elim Hw; reflexivity); cbn in *;
  repeat match goal with H : is_run ?x = _ |- _ => rewrite H end; cbn;
  try (split; [lia | try reflexivity; try (rewrite andb_true_r; reflexivity); try (rewrite andb_false_r; reflexivity)]);
  try (split; [lia | destruct (is_run _); reflexivity]);
  try (rewrite ?andb_false_r, ?andb_true_r; cbn; split; [lia | reflexivity]).
Qed.

Lemma count_chunks_cons w e r : w <> WIn ->
  count_chunks w (e :: r) =
  (if is_chunk w e then 1 else 0) + (if is_eof w e then 0 else count_chunks w r).
Proof.
  intros H. destruct w; [| elim H; reflexivity |];
    destruct e as [u|u| | | | |]; try reflexivity; destruct u; reflexivity.
Qed.

Lemma run_events_counts c w : w <> WIn -> forall script k n,
  Inv c k -> forallb in_scope_ev script = true ->
  cntw w (snd (run_events c (k, n) script)) =
  cntw w n + (if is_run (wget k w) then count_chunks w script else 0).
Proof.
  intros Hw. induction script as [|e r IH]; intros k n I Sc.
  - cbn. destruct (is_run (wget k w)); lia.
  - change (run_events c (k, n) (e :: r)) with (run_events c (step c (k, n) e) r).
    cbn [forallb] in Sc. apply andb_true_iff in Sc. destruct Sc as [Se Sr].
    destruct (step_counts c k n e w I Se Hw) as [C R].
    rewrite (surjective_pairing (step c (k, n) e)).
    rewrite IH; [|apply (step_inv c (k, n) e I)|exact Sr].
    rewrite C, R, (count_chunks_cons w e r Hw).
    destruct (is_run (wget k w)); cbn [andb]; [|lia].
    destruct (is_chunk w e) eqn:Ck, (is_eof w e) eqn:Ef; cbn; try lia.
Qed.

Lemma drain_cntw c s w : cntw w (snd (drain c s)) = cntw w (snd s).
Proof.
  unfold drain. destruct (negb (running (fst s))); [reflexivity|].
  assert (X : forall t, cntw w (snd (expire c t)) = cntw w (snd t)).
  { intros t. unfold expire. destruct (s_pc (fst t)) as [|[|u rest] [[|]|] ec|o|]; try reflexivity.
    rewrite run_joins_cntw. destruct w; reflexivity. }
  rewrite !X. unfold advance. cbn [fst snd]. destruct (s_pc (drain_eof c (fst s))).
  - destruct (s_proc _); [rewrite leave_wait_cntw; reflexivity|].
    destruct (any_dead _); [rewrite leave_wait_cntw; reflexivity | reflexivity].
  - rewrite run_joins_cntw. reflexivity.
  - reflexivity.
  - reflexivity.
Qed.

Theorem captured_reads c script w :
  start_raises c = false -> has_exc script = false -> has_kbd script = false -> w <> WIn ->
  worker_exists c w = true ->
  cntw w (snd (run_sm c script)) = count_chunks w script.
Proof.
  intros S X K Hw We. unfold run_sm.
  assert (E0 : advance c (init c) = init c).
  { unfold advance, init. rewrite S. cbn. destruct (c_in c), (c_pty c); reflexivity. }
  rewrite E0, drain_cntw. rewrite (surjective_pairing (init c)).
  rewrite (run_events_counts c w Hw script); [| rewrite <- E0; apply init_inv; exact S | apply in_scope_forall; assumption].
  unfold init. rewrite S. cbn [fst snd].
  destruct w; cbn in *; try reflexivity.
  - elim Hw. reflexivity.
  - apply negb_true_iff in We. rewrite We. reflexivity.
Qed.

(** * (iii) The command finishes first and the timer never fires during the run *)

Definition BInv (k : ctl) : Prop := match s_pc k with PJoin _ cur _ => cur = Some false | _ => True end.

Lemma joins_unbounded c k todo cur ec r :
  any_dead k = false -> (cur = Some false \/ cur = None) -> joins_result c k todo cur ec r -> BInv r.
Proof.
  intros D C J. inversion J as [Hall Heq | pre w rest Htodo Hpre Hrun Heq]; subst r; unfold BInv; cbn; [exact Logic.I|].
  f_equal.
  assert (B : join_bounded k w = false).
  { unfold any_dead in D. destruct w; cbn; destruct (s_out k), (s_in k), (s_err k); cbn in *; congruence. }
  destruct pre; [|exact B]. destruct C as [->| ->]; [reflexivity | exact B].
Qed.

Lemma binv_step c k n e :
  in_scope_ev e = true -> any_dead k = false -> BInv k -> BInv (fst (step c (k, n) e)).
Proof.
  intros Sc D H. pose proof (apply_ev_calm c k n e Sc D) as D'. unfold step.
  destruct (s_pc k) as [|todo cur ec|o|] eqn:P.
  - (* waiting: apply_ev keeps waiting (exit+interrupt is out of scope) *)
    assert (P' : s_pc (fst (apply_ev c (k, n) e)) = PWait).
    { unfold apply_ev. cbn [fst snd]. unfold running. rewrite P. cbn [negb].
      destruct e as [w|w|code|code| |w x|]; try discriminate Sc; cbn [fst];
      repeat match goal with
      | |- context [match ?w with WOut => _ | WIn => _ | WErr => _ end] => is_var w; destruct w
      | |- context [if is_run ?x then _ else _] => destruct (is_run x)
      | |- context [match s_proc k with _ => _ end] => destruct (s_proc k)
      | |- context [match s_timer k with _ => _ end] => destruct (s_timer k)
      end; cbn [fst]; rewrite ?pc_wset; exact P. }
    unfold advance. cbn [fst snd]. rewrite P'.
    assert (L : forall s0, any_dead (fst s0) = false -> BInv (fst (leave_wait c s0 false))).
    { intros s0 D0. unfold leave_wait.
      match goal with |- BInv (fst (run_joins c ?a ?b None false)) =>
        apply (joins_unbounded c (fst a) b None false); [|right; reflexivity|apply run_joins_result] end.
      cbn [fst]. unfold any_dead in *. cbn.
      destruct (s_out (fst s0)), (s_in (fst s0)), (s_err (fst s0)); cbn in *; congruence. }
    destruct (s_proc (fst (apply_ev c (k, n) e))).
    + apply L. cbn [fst]. exact D'.
    + rewrite D'. cbn [fst]. unfold BInv. rewrite P'. exact Logic.I.
  - unfold BInv in H. rewrite P in H. subst cur.
    destruct (apply_ev_join c k n e todo (Some false) ec P) as (P' & _).
    unfold advance. cbn [fst snd]. rewrite P'. cbv beta iota.
    match goal with |- BInv (fst (run_joins c ?a todo (Some false) ec)) =>
      apply (joins_unbounded c (fst a) todo (Some false) ec); [exact D' | left; reflexivity | apply run_joins_result] end.
  - rewrite apply_ev_over by (unfold running; cbn; rewrite P; reflexivity).
    unfold advance. cbn [fst]. rewrite P. unfold BInv. cbn. rewrite P. exact Logic.I.
  - rewrite apply_ev_over by (unfold running; cbn; rewrite P; reflexivity).
    unfold advance. cbn [fst]. rewrite P. unfold BInv. cbn. rewrite P. exact Logic.I.
Qed.

Lemma step_calm c k n e :
  in_scope_ev e = true -> any_dead k = false -> any_dead (fst (step c (k, n) e)) = false.
Proof.
  intros Sc D. pose proof (apply_ev_calm c k n e Sc D) as D'. unfold step, advance. cbn [fst snd].
  destruct (s_pc (fst (apply_ev c (k, n) e))).
  - destruct (s_proc _).
    + match goal with |- any_dead (fst (leave_wait c ?s0 false)) = false =>
        destruct (leave_wait_fields c s0 false) as (_ & B) end. apply B. exact D'.
    + rewrite D'. exact D'.
  - match goal with |- any_dead (fst (run_joins c ?s0 todo cur echild)) = false =>
      destruct (run_joins_fields c todo s0 cur echild) as (_ & B & _) end. rewrite B. exact D'.
  - exact D'.
  - exact D'.
Qed.

Lemma run_events_qinv c : forall script k n,
  forallb in_scope_ev script = true -> any_dead k = false -> BInv k ->
  any_dead (fst (run_events c (k, n) script)) = false /\ BInv (fst (run_events c (k, n) script)).
Proof.
  induction script as [|e r IH]; intros k n Sc D B; [auto|].
  change (run_events c (k, n) (e :: r)) with (run_events c (step c (k, n) e) r).
  cbn [forallb] in Sc. apply andb_true_iff in Sc. destruct Sc as [Se Sr].
  rewrite (surjective_pairing (step c (k, n) e)). apply IH; auto.
  - apply step_calm; auto.
  - apply binv_step; auto.
Qed.

Lemma drain_eof_running_held c k w :
  is_run (wget (drain_eof c k) w) = true ->
  w = WIn \/ (w = WOut /\ c_hold_out c = true) \/ (w = WErr /\ c_hold_err c = true).
Proof.
  unfold drain_eof.
  destruct (is_run (s_out k) && negb (c_hold_out c)) eqn:A; cbn;
    match goal with |- context [if ?b then _ else _] => destruct b eqn:B end;
    destruct w; cbn; intros H; try discriminate; auto; right.
  - right. split; [reflexivity|]. cbn in B. rewrite H in B. cbn in B. apply negb_false_iff in B. exact B.
  - left. split; [reflexivity|]. rewrite H in A. cbn in A. apply negb_false_iff in A. exact A.
  - left. split; [reflexivity|]. rewrite H in A. cbn in A. apply negb_false_iff in A. exact A.
  - right. split; [reflexivity|]. rewrite H in B. cbn in B. apply negb_false_iff in B. exact B.
Qed.

Theorem timely_general c script code :
  start_raises c = false -> has_exc script = false -> has_kbd script = false -> no_timer script = true ->
  exit_code script = Some code ->
  n_kills (snd (run_sm c script)) = 0 /\
  match s_pc (fst (run_sm c script)) with
  | PDone o => o = normal_outcome c code /\ s_timer (fst (run_sm c script)) <> TArmed
  | PHang => c_hold_out c || c_hold_err c = true
  | _ => False
  end.
Proof.
  intros S X K NT Ex. unfold run_sm.
  assert (E0 : advance c (init c) = init c).
  { unfold advance, init. rewrite S. cbn. destruct (c_in c), (c_pty c); reflexivity. }
  rewrite E0.
  assert (I0 : Inv c (fst (init c))) by (rewrite <- E0; apply init_inv; exact S).
  assert (P0 : s_pc (fst (init c)) = PWait) by (unfold init; rewrite S; reflexivity).
  assert (K0 : n_kills (snd (init c)) = 0) by (unfold init; rewrite S; reflexivity).
  assert (D0 : any_dead (fst (init c)) = false).
  { unfold init. rewrite S. cbn. destruct (c_in c), (c_pty c); reflexivity. }
  pose proof (run_events_kills_zero c script (init c) NT) as Kz. rewrite K0 in Kz.
  pose proof (in_scope_forall script X K) as Sc.
  rewrite (surjective_pairing (init c)) in *.
  destruct (timely_prefix c code script (fst (init c)) (snd (init c)) I0 P0 Sc NT Ex) as (I & D & Pr & T & Pc).
  destruct (run_events_qinv c script (fst (init c)) (snd (init c)) Sc D0) as (_ & Bv).
  { unfold BInv, init. rewrite S. cbn. exact Logic.I. }
  set (s1 := run_events c (fst (init c), snd (init c)) script) in *. clearbody s1.
  rewrite drain_kills. split; [exact Kz|].
  destruct s1 as [k n]. cbn [fst snd] in *. unfold PostPc in Pc. unfold BInv in Bv.
  destruct (s_pc k) as [|todo cur ec|o|] eqn:P; try (elim Pc).
  - subst ec cur.
    assert (Rin : is_run (s_in k) = false) by (apply (in_not_running c k I); rewrite P; discriminate).
    unfold drain. cbn [fst snd]. unfold running. rewrite P. cbn [negb].
    destruct (drain_eof_fields c k) as (Epc & _ & Ein & Etm & Epr & _).
    set (k' := drain_eof c k) in *.
    assert (D' : any_dead k' = false) by (unfold k'; rewrite drain_eof_any_dead; exact D).
    unfold advance. cbn [fst snd]. rewrite Epc, P. cbv beta iota.
    pose proof (run_joins_result c todo (k', n) (Some false) false) as J.
    set (r := run_joins c (k', n) todo (Some false) false) in *.
    inversion J as [Hall Heq | pre u rest Htodo Hpre Hrun Heq].
    + assert (Pd : s_pc (fst r) = PDone (decide c k' false)) by (rewrite <- Heq; reflexivity).
      rewrite (expire_done c r _ Pd), (expire_done c r _ Pd). rewrite Pd. split.
      * apply decide_normal; [exact D' | rewrite Etm; exact T | rewrite Epr; exact Pr].
      * rewrite <- Heq. cbn. destruct (s_timer k'); discriminate.
    + assert (B : join_bounded k' u = false).
      { unfold any_dead in D'. destruct u; cbn; destruct (s_out k'), (s_in k'), (s_err k'); cbn in *; congruence. }
      assert (Pj : s_pc (fst r) = PJoin (u :: rest) (Some false) false).
      { rewrite <- Heq. cbn. destruct pre; [reflexivity | rewrite B; reflexivity]. }
      assert (E1 : expire c r = (set_pc (fst r) PHang, snd r)) by (unfold expire; rewrite Pj; reflexivity).
      rewrite E1. unfold expire at 1. cbn [fst set_pc s_pc].
      destruct (drain_eof_running_held c k u Hrun) as [->|[[-> H]|[-> H]]].
      * cbn in Hrun. fold k' in Hrun. rewrite Ein, Rin in Hrun. discriminate.
      * rewrite H. reflexivity.
      * rewrite H. apply orb_true_r.
  - unfold drain. cbn [fst]. unfold running. rewrite P. cbn [negb fst]. rewrite P. auto.
Qed.

(** * (iv) glue *)

Lemma first_of_no_timer script : first_of script = NoExpiry -> no_timer script = true.
Proof.
  induction script as [|e r IH]; [reflexivity|]. unfold no_timer in *. cbn [first_of forallb].
  destruct e; try discriminate; intros H; cbn; apply IH; exact H.
Qed.

Lemma first_of_finished_exit script :
  first_of script = FinishedFirst -> exists code, exit_code script = Some code.
Proof.
  induction script as [|e r IH]; [discriminate|]. cbn [first_of].
  destruct e; try discriminate; intros H;
    try (destruct (IH H) as [code Hc]; exists code; unfold exit_code in *; cbn; exact Hc);
    eexists; reflexivity.
Qed.

Lemma existsb_timer_no_timer script :
  existsb (fun e => match e with ETimer => true | _ => false end) script = false -> no_timer script = true.
Proof.
  induction script as [|e r IH]; [reflexivity|]. unfold no_timer in *. cbn [existsb forallb].
  intros H. apply orb_false_iff in H. destruct H as [H1 H2]. rewrite (IH H2), andb_true_r.
  destruct e; try reflexivity; discriminate.
Qed.

Lemma outcome_eqb_refl o : outcome_eqb o o = true.
Proof. destruct o; reflexivity. Qed.

Lemma kills_zero_no_timer c script :
  start_raises c = false -> no_timer script = true -> n_kills (snd (run_sm c script)) = 0.
Proof.
  intros S NT. unfold run_sm.
  assert (E0 : advance c (init c) = init c).
  { unfold advance, init. rewrite S. cbn. destruct (c_in c), (c_pty c); reflexivity. }
  rewrite E0, drain_kills, (run_events_kills_zero c script (init c) NT).
  unfold init. rewrite S. reflexivity.
Qed.

Theorem run_meets_spec14 c script :
  guard14 c script = true -> C14Spec.spec_ok c script (observe (run_sm c script)) = true.
Proof.
  unfold guard14. intros G. apply andb_true_iff in G. destruct G as [Ga Gb].
  unfold C14Spec.spec_ok. destruct (in_scope c script) eqn:Sc; [|reflexivity]. cbn [negb].
  unfold in_scope in Sc. apply andb_true_iff in Sc. destruct Sc as [Sc K].
  apply andb_true_iff in Sc. destruct Sc as [SF X].
  apply negb_true_iff in SF. apply negb_true_iff in X. apply negb_true_iff in K.
  assert (S : start_raises c = false) by (unfold start_raises; rewrite SF; reflexivity).
  destruct (c_timeout c) eqn:CT; cbn [negb].
  2:{ destruct (no_timeout_untouched c script S CT) as [Kz Nt].
      unfold observe. cbn [o_kills o_outcome]. rewrite Kz. cbn.
      destruct (s_pc (fst (run_sm c script))) as [| | o |] eqn:P; try reflexivity.
      specialize (Nt o eq_refl). destruct o; try reflexivity. elim Nt. reflexivity. }
  destruct (first_of script) eqn:Fo.
  - (* no expiry, no exit *)
    unfold observe. cbn [o_kills]. rewrite (kills_zero_no_timer c script S (first_of_no_timer script Fo)). reflexivity.
  - (* expired while running *)
    cbn [andb] in Gb. rewrite andb_true_r in Gb. apply negb_true_iff in Gb.
    apply orb_false_iff in Gb. destruct Gb as [Ho He].
    assert (F : fair c = true) by (unfold fair; rewrite Ho, He; reflexivity).
    destruct (timeout_kills_and_reports c script S CT F X K Fo) as [P Kl].
    pose proof (captured_reads c script WOut S X K ltac:(discriminate) eq_refl) as Co.
    unfold observe. cbn [o_kills o_outcome o_nout o_nerr]. rewrite P. cbn [has_result].
    apply Nat.leb_le in Kl. rewrite Kl. cbn [andb]. cbn [cntw] in Co. rewrite Co, Nat.eqb_refl. cbn [andb].
    destruct (c_pty c) eqn:Pt; [reflexivity|].
    pose proof (captured_reads c script WErr S X K ltac:(discriminate)) as Ce. cbn [worker_exists cntw] in Ce.
    rewrite Pt in Ce. rewrite (Ce eq_refl), Nat.eqb_refl. reflexivity.
  - (* finished first; the guard says the timer never fires in this script *)
    cbn [andb] in Ga. apply negb_true_iff in Ga.
    pose proof (existsb_timer_no_timer script Ga) as NT.
    destruct (first_of_finished_exit script Fo) as [code Ex].
    destruct (timely_general c script code S X K NT Ex) as [Kz Pc].
    unfold observe. cbn [o_kills o_outcome o_timer_armed]. rewrite Kz, Ex. cbn [Nat.eqb andb].
    destruct (s_pc (fst (run_sm c script))) as [| | o |] eqn:P; try (elim Pc).
    + destruct Pc as [-> T]. unfold normal_outcome. rewrite outcome_eqb_refl.
      destruct (s_timer (fst (run_sm c script))); try (elim T; reflexivity); reflexivity.
    + rewrite Pc. rewrite orb_true_r. reflexivity.
Qed.

(** * The F-C14a region narrowed: a timer that fires after the outcome is settled is harmless

    Once the process has exited and every reader has had its EOF, run() is over;
    whatever the script contains afterwards (timer expiries included) changes
    nothing.  So the defect region is only: the timer fires after the exit but
    BEFORE the last reader's EOF. *)

(** shortest prefix that contains the exit and the EOF of every existing reader *)
Fixpoint done_prefix (pty : bool) (x o e : bool) (script : list ev) : option (list ev * list ev) :=
  if x && o && (pty || e) then Some ([], script) else
  match script with
  | [] => None
  | ev0 :: r =>
      let x' := x || match ev0 with EExit _ => true | _ => false end in
      let o' := o || is_eof WOut ev0 in
      let e' := e || is_eof WErr ev0 in
      match done_prefix pty x' o' e' r with
      | Some (pre, post) => Some (ev0 :: pre, post)
      | None => None
      end
  end.

Lemma done_prefix_app pty : forall script x o e pre post,
  done_prefix pty x o e script = Some (pre, post) -> script = pre ++ post.
Proof.
  induction script as [|ev0 r IH]; intros x o e pre post; cbn [done_prefix].
  - destruct (x && o && (pty || e)); intros H; inversion H; reflexivity.
  - destruct (x && o && (pty || e)); [intros H; inversion H; reflexivity|].
    destruct (done_prefix pty _ _ _ r) as [[p q]|] eqn:D; intros H; inversion H; subst.
    cbn. f_equal. apply (IH _ _ _ _ _ D).
Qed.

(** after [pre]: exit seen, both readers not running *)
Lemma run_events_app c s a b : run_events c s (a ++ b) = run_events c (run_events c s a) b.
Proof. unfold run_events. apply fold_left_app. Qed.

Lemma worker_stays_down c w : w <> WIn -> forall script k n,
  Inv c k -> forallb in_scope_ev script = true -> is_run (wget k w) = false ->
  is_run (wget (fst (run_events c (k, n) script)) w) = false.
Proof.
  intros Hw. induction script as [|e r IH]; intros k n I Sc R; [exact R|].
  change (run_events c (k, n) (e :: r)) with (run_events c (step c (k, n) e) r).
  cbn [forallb] in Sc. apply andb_true_iff in Sc. destruct Sc as [Se Sr].
  destruct (step_counts c k n e w I Se Hw) as [_ R'].
  rewrite (surjective_pairing (step c (k, n) e)). apply IH; auto.
  - apply (step_inv c (k, n) e I).
  - rewrite R', R. reflexivity.
Qed.

Lemma eof_downs c w : w <> WIn -> forall script k n,
  Inv c k -> forallb in_scope_ev script = true -> existsb (is_eof w) script = true ->
  is_run (wget (fst (run_events c (k, n) script)) w) = false.
Proof.
  intros Hw. induction script as [|e r IH]; intros k n I Sc Ex; [discriminate|].
  change (run_events c (k, n) (e :: r)) with (run_events c (step c (k, n) e) r).
  pose proof Sc as Sc0. cbn [forallb] in Sc. apply andb_true_iff in Sc. destruct Sc as [Se Sr].
  destruct (step_counts c k n e w I Se Hw) as [_ R'].
  rewrite (surjective_pairing (step c (k, n) e)).
  cbn [existsb] in Ex. destruct (is_eof w e) eqn:Ef.
  - apply worker_stays_down; auto; [apply (step_inv c (k, n) e I)|].
    rewrite R'. cbn. apply andb_false_r.
  - apply IH; auto. apply (step_inv c (k, n) e I).
Qed.

Lemma done_prefix_facts pty : forall script x o e pre post,
  done_prefix pty x o e script = Some (pre, post) ->
  (x = true \/ existsb (fun ev0 => match ev0 with EExit _ => true | _ => false end) pre = true) /\
  (o = true \/ existsb (is_eof WOut) pre = true) /\
  (pty = true \/ e = true \/ existsb (is_eof WErr) pre = true).
Proof.
  induction script as [|ev0 r IH]; intros x o e pre post; cbn [done_prefix].
  - destruct (x && o && (pty || e)) eqn:C; intros H; inversion H; subst.
    apply andb_true_iff in C. destruct C as [C1 C3]. apply andb_true_iff in C1. destruct C1 as [C1 C2].
    apply orb_true_iff in C3. tauto.
  - destruct (x && o && (pty || e)) eqn:C.
    + intros H; inversion H; subst.
      apply andb_true_iff in C. destruct C as [C1 C3]. apply andb_true_iff in C1. destruct C1 as [C1 C2].
      apply orb_true_iff in C3. tauto.
    + destruct (done_prefix pty _ _ _ r) as [[p q]|] eqn:D; intros H; inversion H; subst.
      destruct (IH _ _ _ _ _ D) as (A1 & A2 & A3). cbn [existsb].
      repeat split.
      * destruct A1 as [A1|A1]; [apply orb_true_iff in A1; destruct A1 as [A1|A1]; [left; exact A1|right; rewrite A1; reflexivity] | right; rewrite A1; apply orb_true_r].
      * destruct A2 as [A2|A2]; [apply orb_true_iff in A2; destruct A2 as [A2|A2]; [left; exact A2|right; rewrite A2; reflexivity] | right; rewrite A2; apply orb_true_r].
      * destruct A3 as [A3|[A3|A3]]; [left; exact A3 | | right; right; rewrite A3; apply orb_true_r].
        apply orb_true_iff in A3. destruct A3 as [A3|A3]; [right; left; exact A3 | right; right; rewrite A3; reflexivity].
Qed.

Lemma forallb_app_l {A} (f : A -> bool) a b : forallb f (a ++ b) = true -> forallb f a = true /\ forallb f b = true.
Proof. rewrite forallb_app. intros H. apply andb_true_iff in H. exact H. Qed.

Lemma exit_code_of_exists pre :
  has_kbd pre = false -> existsb (fun ev0 => match ev0 with EExit _ => true | _ => false end) pre = true ->
  exists code, exit_code pre = Some code.
Proof.
  unfold exit_code. induction pre as [|e r IH]; intros K H; [discriminate|].
  unfold has_kbd in K. cbn [existsb] in K, H. apply orb_false_iff in K. destruct K as [K1 K2].
  destruct e; cbn; try (apply IH; [exact K2 | exact H]); try (eexists; reflexivity); try discriminate.
Qed.

Lemma exit_code_app pre post code : exit_code pre = Some code -> exit_code (pre ++ post) = Some code.
Proof.
  unfold exit_code. induction pre as [|e r IH]; [discriminate|]. cbn [app find].
  destruct e; cbn; auto.
Qed.

Theorem timer_after_done_harmless c pre post :
  start_raises c = false -> has_exc (pre ++ post) = false -> has_kbd (pre ++ post) = false ->
  no_timer pre = true -> done_prefix (c_pty c) false false false (pre ++ post) = Some (pre, post) ->
  exists code, exit_code (pre ++ post) = Some code /\
    s_pc (fst (run_sm c (pre ++ post))) = PDone (normal_outcome c code) /\
    n_kills (snd (run_sm c (pre ++ post))) = 0 /\ s_timer (fst (run_sm c (pre ++ post))) <> TArmed.
Proof.
  intros S X K NT DP.
  destruct (done_prefix_facts _ _ _ _ _ _ _ DP) as (Fx & Fo & Fe).
  destruct Fx as [Fx|Fx]; [discriminate|]. destruct Fo as [Fo|Fo]; [discriminate|].
  pose proof (in_scope_forall _ X K) as Sc. destruct (forallb_app_l _ _ _ Sc) as [Scp Scq].
  assert (Kp : has_kbd pre = false).
  { unfold has_kbd in *. rewrite existsb_app in K. apply orb_false_iff in K. tauto. }
  assert (Xp : has_exc pre = false).
  { unfold has_exc in *. rewrite existsb_app in X. apply orb_false_iff in X. tauto. }
  destruct (exit_code_of_exists pre Kp Fx) as [code Ex]. exists code.
  split; [apply exit_code_app; exact Ex|].
  unfold run_sm.
  assert (E0 : advance c (init c) = init c).
  { unfold advance, init. rewrite S. cbn. destruct (c_in c), (c_pty c); reflexivity. }
  rewrite E0, run_events_app.
  assert (I0 : Inv c (fst (init c))) by (rewrite <- E0; apply init_inv; exact S).
  assert (P0 : s_pc (fst (init c)) = PWait) by (unfold init; rewrite S; reflexivity).
  assert (K0 : n_kills (snd (init c)) = 0) by (unfold init; rewrite S; reflexivity).
  pose proof (run_events_kills_zero c pre (init c) NT) as Kz. rewrite K0 in Kz.
  assert (Ro : is_run (wget (fst (run_events c (init c) pre)) WOut) = false).
  { rewrite (surjective_pairing (init c)). apply eof_downs; auto. discriminate. }
  assert (Re : is_run (wget (fst (run_events c (init c) pre)) WErr) = false).
  { rewrite (surjective_pairing (init c)).
    destruct Fe as [Fe|[Fe|Fe]]; [| discriminate | apply eof_downs; auto; discriminate].
    apply worker_stays_down; auto; [discriminate|]. unfold init. rewrite S, Fe. reflexivity. }
  rewrite (surjective_pairing (init c)) in *.
  destruct (timely_prefix c code pre (fst (init c)) (snd (init c)) I0 P0 Scp NT Ex) as (I & D & Pr & T & Pc).
  set (s1 := run_events c (fst (init c), snd (init c)) pre) in *. clearbody s1.
  destruct s1 as [k n]. cbn [fst snd] in *.
  (* nobody is running any more: the outcome is settled *)
  assert (Pd : s_pc k = PDone (normal_outcome c code)).
  { unfold PostPc in Pc. pose proof I as [_ HI].
    destruct (s_pc k) as [|todo cur ec|o|] eqn:P; try (elim Pc).
    - exfalso. destruct HI as (_ & _ & _ & (w & rest & b & _ & _ & Rw)).
      assert (Rin : is_run (s_in k) = false) by (apply (in_not_running c k I); rewrite P; discriminate).
      cbn in Ro, Re. destruct w; cbn in Rw; congruence.
    - rewrite Pc. reflexivity. }
  assert (NR : running k = false) by (unfold running; rewrite Pd; reflexivity).
  destruct (run_events_over c post (k, n) NR) as (A & _ & Kq). cbn [fst snd] in A, Kq.
  assert (Dr : drain c (run_events c (k, n) post) = run_events c (k, n) post).
  { unfold drain. rewrite A, NR. reflexivity. }
  rewrite Dr, A, Kq. repeat split; auto.
  rewrite Pd in T. exact T.
Qed.

Definition timers_only_after_done (c : cfg) (script : list ev) : bool :=
  match done_prefix (c_pty c) false false false script with
  | Some (pre, _) => no_timer pre
  | None => no_timer script
  end.

(** F-C14a narrowed: the timer fires after the exit and before the last reader's EOF *)
Definition guard14_narrow (c : cfg) (script : list ev) : bool :=
  negb (c_timeout c &&
        match first_of script with FinishedFirst => negb (timers_only_after_done c script) | _ => false end) &&
  negb (c_timeout c && (c_hold_out c || c_hold_err c) &&
        match first_of script with ExpiredWhileRunning => true | _ => false end).

Theorem run_meets_spec14_narrow c script :
  guard14_narrow c script = true -> C14Spec.spec_ok c script (observe (run_sm c script)) = true.
Proof.
  unfold guard14_narrow. intros G.
  destruct (c_timeout c) eqn:CT.
  2:{ apply run_meets_spec14. unfold guard14. rewrite CT. reflexivity. }
  destruct (first_of script) eqn:Fo.
  - apply run_meets_spec14. unfold guard14. rewrite CT, Fo. exact G.
  - apply run_meets_spec14. unfold guard14. rewrite CT, Fo. exact G.
  - rewrite andb_false_r in G. cbn [andb negb] in G. rewrite andb_true_r in G. apply negb_true_iff in G. apply negb_false_iff in G.
    unfold timers_only_after_done in G.
    destruct (done_prefix (c_pty c) false false false script) as [[pre post]|] eqn:DP.
    2:{ apply run_meets_spec14. unfold guard14. rewrite CT, Fo. rewrite andb_false_r. cbn [andb negb].
        rewrite andb_true_r. apply negb_true_iff. clear - G. unfold no_timer in G.
        induction script as [|e r IH]; [reflexivity|]. cbn [forallb existsb] in *.
        apply andb_true_iff in G. destruct G as [G1 G2]. rewrite (IH G2), orb_false_r.
        destruct e; try reflexivity; discriminate. }
    pose proof (done_prefix_app _ _ _ _ _ _ _ DP) as Es. subst script.
    unfold C14Spec.spec_ok. destruct (in_scope c (pre ++ post)) eqn:Sc; [|reflexivity]. cbn [negb].
    unfold in_scope in Sc. apply andb_true_iff in Sc. destruct Sc as [Sc K].
    apply andb_true_iff in Sc. destruct Sc as [SF X].
    apply negb_true_iff in SF. apply negb_true_iff in X. apply negb_true_iff in K.
    assert (S : start_raises c = false) by (unfold start_raises; rewrite SF; reflexivity).
    rewrite CT, Fo. cbn [negb].
    destruct (timer_after_done_harmless c pre post S X K G DP) as (code & Ex & P & Kz & T).
    unfold observe. cbn [o_kills o_outcome o_timer_armed]. rewrite Kz, Ex, P. cbn [Nat.eqb andb].
    unfold normal_outcome. rewrite outcome_eqb_refl.
    destruct (s_timer (fst (run_sm c (pre ++ post)))); try (elim T; reflexivity); reflexivity.
Qed.

(** * Timeout source through the command line (Program.update_config + run options) *)
From InvokeVerif Require Model.RunTypes Model.OptsModel Model.ProgramModel.
From InvokeVerif Require Import Corr.C14Corr.

Definition OIntN (n : nat) : RunTypes.oval := RunTypes.OInt (Z.of_nat n).
Definition oval_of (o : option nat) : RunTypes.oval :=
  match o with Some n => OIntN n | None => RunTypes.ONone end.

(** (proved here from the models alone, so that C14 does not depend on C15's proof files) *)
Lemma unify_timeout c k r :
  OptsModel.unify c k = Ok r ->
  RunTypes.r_timeout r = match RunTypes.kw_timeout k with Some v => v | None => RunTypes.cf_timeout c end.
Proof.
  unfold OptsModel.unify. destruct (RunTypes.kw_extra k); [|discriminate].
  match goal with |- context [if ?b then Err _ else _] => destruct b; [discriminate|] end.
  match goal with |- context [match ?x with Some _ => _ | None => Err _ end] => destruct x; [|discriminate] end.
  intros H. inversion H. reflexivity.
Qed.

Lemma cli_timeout_local a lower k r :
  ProgramModel.effective_opts_cli a lower k = Ok r ->
  RunTypes.r_timeout r = match RunTypes.kw_timeout k with
                         | Some v => v
                         | None => match ProgramTypes.a_timeout a with
                                   | Some n => if Z.eqb n 0 then RunTypes.cf_timeout lower else RunTypes.OInt n
                                   | None => RunTypes.cf_timeout lower
                                   end
                         end.
Proof.
  intros U. unfold ProgramModel.effective_opts_cli in U. rewrite (unify_timeout _ _ _ U).
  destruct (RunTypes.kw_timeout k); [reflexivity|].
  unfold ProgramModel.cli_config. cbn [RunTypes.cf_timeout].
  unfold ProgramModel.override_timeout, ProgramModel.overrides_of, ProgramModel.timeouts_section, ProgramModel.item.
  destruct (ProgramTypes.a_timeout a) as [n|]; [destruct (Z.eqb n 0)|]; reflexivity.
Qed.

(** the three-line rule used by the correspondence is the Program/option model's *)
Lemma program_timeout_is_model a lower k r kw cli lw :
  ProgramModel.effective_opts_cli a lower k = Ok r ->
  RunTypes.kw_timeout k = option_map OIntN kw ->
  ProgramTypes.a_timeout a = option_map Z.of_nat cli ->
  RunTypes.cf_timeout lower = oval_of lw ->
  RunTypes.r_timeout r = oval_of (program_timeout kw cli lw).
Proof.
  intros U K A L. rewrite (cli_timeout_local a lower k r U), K, A, L.
  destruct kw as [v|]; [reflexivity|]. destruct cli as [n|]; [|reflexivity]. cbn.
  destruct n; reflexivity.
Qed.

(** a command timeout that comes ONLY from configuration, the task run through the
    CLI without -T and without a timeout= keyword: it is in effect *)
Lemma config_only_via_cli a lower k r :
  ProgramTypes.a_timeout a = None -> RunTypes.kw_timeout k = None ->
  ProgramModel.effective_opts_cli a lower k = Ok r ->
  RunTypes.r_timeout r = RunTypes.cf_timeout lower.
Proof. intros A K U. rewrite (cli_timeout_local a lower k r U), K, A. reflexivity. Qed.
