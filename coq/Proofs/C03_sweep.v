(** C03: the full executable specification evaluated on the model's own runs of
    enumerated load scripts (a test, not the property). *)
From InvokeVerif Require Import Common.Tree Common.StrUtil Model.MergeModel Model.ConfigModel
     Spec.C03Spec Corr.C03Corr.

Definition lv (i : Z) (shape : bool) : tree :=
  if shape then Node [("a", Node [("b", Leaf (VInt i))])]
  else Node [("a", Node [("c", Leaf (VInt i))]); ("d", Leaf (VInt i))].

Definition sweep_fs : fsys :=
  [ (("sys", "yml"), FData (lv 3 true)); (("sys", "json"), FData (lv 30 false));
    (("usr", "py"), FData (lv 4 false)); (("projA", "yaml"), FData (lv 5 true));
    (("projA", "yml"), FData (lv 50 true)); (("rtA", "json"), FData (lv 7 false)) ].

Definition sweep_alphabet : list op :=
  [ LoadDefaults (lv 1 true); LoadDefaultsD (lv 1 false); LoadCollection (lv 2 false);
    LoadCollectionD (lv 2 true); LoadOverrides (lv 8 true); LoadOverridesD (lv 8 false);
    LoadSystem; LoadSystemD; LoadUserD; LoadProject; LoadProjectD; LoadRuntime; LoadRuntimeD; Merge ].

Fixpoint scripts (n : nat) : list (list op) :=
  match n with
  | O => [[]]
  | S n' => [] :: flat_map (fun h => map (fun o => o :: h) sweep_alphabet) (scripts n')
  end.

Definition endings : list (list op) :=
  [ [Merge]; [LoadShellEnv [("INVOKE_A_B", "9"); ("INVOKE_D", "8"); ("INVOKE_NOPE", "1")]];
    [Merge; LoadShellEnv [("INVOKE_A_C", "5")]] ].

Definition inits : list init_args :=
  [ mkInit (Node []) (Node []) (Some "projA") (Some ("rtA", "json")) true;
    mkInit (lv 1 true) (lv 8 false) (Some "projA") (Some ("rtA", "json")) false ].

Definition script_ok (i : init_args) (ops : list op) : bool :=
  let c := mk sweep_fs i ops (Err EOther) [] in
  spec_ok sweep_fs i ops "INVOKE_" (model_out c) &&
  wf_script ops.

Lemma model_meets_spec_bounded :
  forallb (fun i => forallb (fun body => forallb (fun e => script_ok i (body ++ e)) endings)
                            (scripts 2)) inits = true.
Proof. vm_compute. reflexivity. Qed.
