(** C01: the glued-value occurrence lemma over the weaker invariants
    (ctx_guard_nm / st_nm of Proofs/C01_occ_nm.v); same proof as in
    Proofs/C01_form_glued.v. *)
From InvokeVerif Require Import Model.ParserModel Corr.C01Corr Proofs.ListFacts Proofs.C07_fuel
     Proofs.C01_steps Proofs.C01_tokens Proofs.C01_lookup Proofs.C01_occ Proofs.C01_roundtrip
     Proofs.C01_form_glued Proofs.C01_occ_nm.
From Coq Require Import Lia.

Lemma occ_glued_steps_nm p i0 c given o done cur fl got :
  ctx_guard_nm c = true -> occ_glued c given o = true ->
  st_nm c given (rc_args cur) -> inert (MS i0 done cur fl got) ->
  exists fl' got',
    steps p (MS i0 done cur fl got) (spell_occ c o)
            (MS i0 done (with_args cur (run_occ (rc_args cur) o)) fl' got') /\
    inert (MS i0 done (with_args cur (run_occ (rc_args cur) o)) fl' got') /\
    st_nm c (o_arg o :: given) (run_occ (rc_args cur) o).
Proof.
  intros G Os St I.
  destruct (guard_parts_nm c G) as [ND [Nn [Cl Ld]]].
  unfold occ_glued in Os. unfold spell_occ, run_occ.
  destruct (nth_error (cx_args c) (o_arg o)) as [a|] eqn:Na; [|discriminate].
  apply andb_true_iff in Os. destruct Os as [Lk Os]. apply Nat.ltb_lt in Lk.
  pose proof (sn_shape _ _ _ St) as Sh.
  assert (Nr : exists r, nth_error (rc_args cur) (o_arg o) = Some r /\ r_spec r = a).
  { apply nth_error_map_inv. rewrite Sh. exact Na. }
  destruct Nr as [r [Nr Sr]]. rewrite Nr.
  set (tok := flag_of a (o_name o)) in *.
  assert (Tin : In tok (arg_flags a)) by (apply flag_of_in; exact Lk).
  assert (Ctok : clean_flag tok = true).
  { apply Cl. eapply in_all_spellings; [exact Na|]. unfold spellings_of. apply in_or_app. left. exact Tin. }
  assert (Ftok : find_flag (rc_args cur) tok = Some (o_arg o)).
  { rewrite find_flag_args, Sh. eapply find_flag_spec_unique; eauto. }
  destruct (o_form o) eqn:Fo; try discriminate. destruct (o_val o) as [b|n|s|] eqn:Vo; try discriminate.
  rewrite !andb_true_iff, !negb_true_iff in Os.
  destruct Os as [[[[[[[Tv No] Pl] Hne] Heq] Hlen] Hint] Hg].
  unfold plain in Pl. rewrite negb_true_iff in Pl.
  apply String.eqb_neq in Hne. apply Nat.eqb_eq in Hlen.
  assert (Tv' : takes_value (r_spec r) = true) by (rewrite Sr; exact Tv).
  assert (No' : a_optional (r_spec r) = false) by (rewrite Sr; exact No).
  destruct (set_value_str r s Tv') as [r' [SV [Sp [Rw [Nnone Hl]]]]].
  { rewrite Sr. exact Hint. }
  { intros K. eapply (sn_list _ _ _ St); eauto. }
  unfold occ_input. rewrite Vo, SV. unfold text_of.
  exists (Some (S (List.length done), o_arg o)), true.
  assert (W : (if akind_eqb (a_kind (r_spec r)) KList && negb false then true else negb (r_raw r)) = true).
  { rewrite Sr. destruct (akind_eqb (a_kind a) KList) eqn:KL; [reflexivity|].
    simpl in Hg. simpl. rewrite negb_true_iff.
    eapply (sn_raw _ _ _ St); eauto.
    - rewrite Sr. intros K. rewrite K in KL. discriminate.
    - rewrite negb_true_iff in Hg. exact Hg. }
  split; [|split].
  - eapply steps_pushed.
    + apply (step_glued_flag p i0 done cur fl got tok s (o_arg o) r I Ctok Hlen Heq Hne Ftok Nr Tv').
    + apply (step_value p i0 done cur false s (o_arg o) r r' Nr Tv' No' W Pl SV).
  - apply inert_after; [congruence | exact Rw | rewrite andb_false_r; reflexivity].
  - eapply st_nm_after_set; eauto.
    + intros _ _. unfold mem_nat. simpl. rewrite Nat.eqb_refl. reflexivity.
    + intros j. unfold mem_nat. simpl. rewrite orb_false_iff. tauto.
Qed.
