(** C18: value-taking core options and whole core prefixes, moved together.
    Step lemmas for a core option written before the first task (the initial
    context is the current one) and inside a task's argument list (it is
    found through [self.initial]), then runs of lists of core options. *)
From InvokeVerif Require Import Corr.C01Corr Proofs.ListFacts Proofs.C07_fuel
     Proofs.C01_steps Proofs.C01_tokens Proofs.C01_lookup Proofs.C01_occ Proofs.C01_roundtrip
     Proofs.C01_final Proofs.C18_placement.
From InvokeVerif Require Proofs.C07_positional.
From Coq Require Import Lia.

Definition upd_init (i0 : rctx) (i : nat) (r' : rarg) : rctx :=
  with_args i0 (upd_nth i r' (rc_args i0)).

Lemma put_arg_init_MS i0 done cur fl got i r' :
  put_arg (MS i0 done cur fl got) (0, i) r' = MS (upd_init i0 i r') done cur fl got.
Proof. unfold put_arg, get_ctx. cbn [fst snd m_ctxs MS nth_error upd_nth]. reflexivity. Qed.

Lemma put_arg_init_MI i0 fl got i r' :
  put_arg (MI i0 fl got) (0, i) r' = MI (upd_init i0 i r') fl got.
Proof. unfold put_arg, get_ctx. cbn [fst snd m_ctxs MI nth_error upd_nth]. reflexivity. Qed.

(** ** The value token of a pending core option (any machine shape) *)
Lemma step_init_value p m c i0 i r r' tok :
  m_st m = SContext -> m_unparsed m = [] -> cur_ctx m = Some c -> get_ctx m 0 = Some i0 ->
  m_flag m = Some (0, i) -> nth_error (rc_args i0) i = Some r ->
  takes_value (r_spec r) = true ->
  (if akind_eqb (a_kind (r_spec r)) KList && negb (m_got m) then true else negb (r_raw r)) = true ->
  r_raw r = false ->
  starts_with "-" tok = false ->
  (a_optional (r_spec r) = true -> has_missing c = false /\ is_ctx_name (p_ctxs p) tok = false) ->
  set_value r (IStr tok) true = Ok r' ->
  step p m tok = Ok (set_flag (put_arg m (0, i) r') (Some (0, i)) true, []).
Proof.
  intros St Un Cc G0 Fl N Tv W Rw P Opt SV.
  assert (GA : get_arg m (0, i) = Some r) by (unfold get_arg; cbn [fst snd]; rewrite G0; exact N).
  assert (FA : flag_arg m = Some r) by (unfold flag_arg; rewrite Fl; exact GA).
  assert (Wt : waiting m = true) by (unfold waiting; rewrite FA, Tv; exact W).
  unfold step, bind. rewrite (plain_presplit _ _ P).
  assert (Rb : rollback m tok (tok, []) = Ok (tok, [])).
  { unfold rollback. rewrite Wt. cbv zeta.
    match goal with |- (if ?b then _ else _) = _ => destruct b end; reflexivity. }
  rewrite Rb. cbn [fst snd].
  unfold handle. rewrite St, Cc. cbn [pstate_eqb ctx_has_flag ctx_has_inverse].
  rewrite (plain_not_flag (rc_args c) tok P), (plain_not_inverse (rc_args c) tok P), Wt.
  unfold see_value, bind.
  assert (CA : check_ambiguity p tok m = Ok m).
  { unfold check_ambiguity. rewrite FA, Rw, Cc.
    destruct (a_optional (r_spec r)) eqn:O; cbn [negb]; [|reflexivity].
    destruct (Opt eq_refl) as [Hm Nn]. rewrite Hm, Nn. reflexivity. }
  rewrite CA, Fl, FA, Tv. unfold set_arg_value. rewrite GA, SV. cbn [checked].
  assert (Fp : m_flag (put_arg m (0, i) r') = Some (0, i)).
  { unfold put_arg. cbn [fst]. rewrite G0. exact Fl. }
  rewrite Fp. reflexivity.
Qed.

(** ** The flag token of a value-taking core option *)

(** inside a task's argument list *)
Lemma handle_core_value_flag p i0 done cur fl got tok i r :
  inert (MS i0 done cur fl got) -> has_missing cur = false ->
  find_flag (rc_args cur) tok = None -> find_inverse (rc_args cur) tok = None ->
  is_ctx_name (p_ctxs p) tok = false ->
  find_flag (rc_args i0) tok = Some i -> nth_error (rc_args i0) i = Some r ->
  takes_value (r_spec r) = true ->
  String.eqb (arg_name (r_spec r)) "help" = false ->
  handle p tok (MS i0 done cur fl got) = Ok (MS i0 done cur (Some (0, i)) false).
Proof.
  intros I Hm F FI Nn Fi N Tv Nh.
  unfold handle. cbn [m_st MS pstate_eqb]. rewrite MS_cur.
  cbn [ctx_has_flag ctx_has_inverse]. rewrite F, FI, (inert_waiting _ I), Hm, Nn.
  rewrite MS_init, Fi, N, Nh.
  unfold switch_to_flag, bind.
  rewrite (inert_check_ambiguity p tok _ I), (inert_complete_flag _ I), MS_cur.
  cbn [m_cur MS]. rewrite F, MS_init, Fi.
  change (set_flag (MS i0 done cur fl got) (Some (0, i)) false) with (MS i0 done cur (Some (0, i)) false).
  assert (GA : get_arg (MS i0 done cur (Some (0, i)) false) (0, i) = Some r).
  { unfold get_arg, get_ctx. cbn [fst snd m_ctxs MS nth_error]. exact N. }
  rewrite GA, Tv. reflexivity.
Qed.

(** before the first task: the initial context is the current one *)
Lemma handle_front_value_flag p i0 fl got tok i r :
  inert (MI i0 fl got) ->
  find_flag (rc_args i0) tok = Some i -> nth_error (rc_args i0) i = Some r ->
  takes_value (r_spec r) = true ->
  handle p tok (MI i0 fl got) = Ok (MI i0 (Some (0, i)) false).
Proof.
  intros I Fi N Tv.
  unfold handle. cbn [m_st MI pstate_eqb]. unfold cur_ctx, get_ctx.
  cbn [m_cur m_ctxs MI nth_error ctx_has_flag]. rewrite Fi.
  unfold switch_to_flag, bind.
  rewrite (inert_check_ambiguity p tok _ I), (inert_complete_flag _ I).
  unfold cur_ctx, get_ctx. cbn [m_cur m_ctxs MI nth_error]. rewrite Fi.
  change (set_flag (MI i0 fl got) (Some (0, i)) false) with (MI i0 (Some (0, i)) false).
  assert (GA : get_arg (MI i0 (Some (0, i)) false) (0, i) = Some r).
  { unfold get_arg, get_ctx. cbn [fst snd m_ctxs MI nth_error]. exact N. }
  rewrite GA, Tv. reflexivity.
Qed.

(** string facts for the glued form *)
Lemma contains_char_app a s1 s2 :
  contains_char a (s1 ++ s2) = contains_char a s1 || contains_char a s2.
Proof. induction s1 as [|c s1 IH]; simpl; [reflexivity|]. rewrite IH, orb_assoc. reflexivity. Qed.

Lemma len_app s1 s2 : String.length (s1 ++ s2) = String.length s1 + String.length s2.
Proof. induction s1; simpl; auto. Qed.

Lemma take_app s1 s2 : take (String.length s1) (s1 ++ s2) = s1.
Proof. induction s1 as [|c s1 IH]; simpl; [destruct s2; reflexivity|]. rewrite IH. reflexivity. Qed.

Lemma drop_app s1 s2 : drop (String.length s1) (s1 ++ s2) = s2.
Proof. induction s1; simpl; auto. Qed.

Lemma starts_with_app_keep : forall pre s t,
  String.length pre <= String.length s -> starts_with pre (s ++ t) = starts_with pre s.
Proof.
  induction pre as [|a pre IH]; intros s t L; [reflexivity|].
  destruct s as [|b s]; simpl in *; [lia|]. rewrite IH by lia. reflexivity.
Qed.

Lemma starts_with_same_length : forall pre s,
  starts_with pre s = true -> String.length s = String.length pre -> s = pre.
Proof.
  induction pre as [|a pre IH]; intros s H L; destruct s as [|b s]; simpl in *; try discriminate; auto.
  apply andb_true_iff in H. destruct H as [E H]. apply Ascii.eqb_eq in E. subst.
  f_equal. apply IH; auto.
Qed.

(** "-fvalue" before the first task: the head is a value flag of the current
    (initial) context, the rest is pushed as its value *)
Lemma glued_presplit_front i0 fl got tok v i r :
  clean_flag tok = true -> String.length tok = 2 ->
  v <> "" -> contains_char "=" v = false ->
  find_flag (rc_args i0) tok = Some i -> nth_error (rc_args i0) i = Some r ->
  takes_value (r_spec r) = true ->
  presplit (MI i0 fl got) (tok ++ v) = Ok (tok, [v]).
Proof.
  intros C L Nv Ev Fi N Tv.
  unfold clean_flag in C. rewrite !andb_true_iff, negb_true_iff in C.
  destruct C as [[[D E] Lg] Nd].
  assert (Nl : starts_with "--" tok = false).
  { destruct (starts_with "--" tok) eqn:X; [|reflexivity].
    rewrite (starts_with_same_length "--" tok X L) in Nd. discriminate Nd. }
  unfold presplit, is_flag, is_long_flag. cbn [m_unparsed MI].
  rewrite (starts_with_dash_app _ _ D). cbn [andb].
  rewrite contains_char_app, E, Ev. cbn [orb].
  rewrite (starts_with_app_keep "--" tok v) by (rewrite L; simpl; lia). rewrite Nl. cbn [negb andb].
  assert (Ln : Nat.ltb 2 (String.length (tok ++ v)) = true).
  { rewrite len_app, L. destruct v; [congruence|]. reflexivity. }
  rewrite Ln. cbn [andb].
  assert (T2 : take 2 (tok ++ v) = tok) by (rewrite <- L; apply take_app).
  assert (D2 : drop 2 (tok ++ v) = v) by (rewrite <- L; apply drop_app).
  rewrite T2, D2.
  unfold cur_ctx, get_ctx. cbn [m_cur m_ctxs MI nth_error m_st pstate_eqb negb andb].
  rewrite Fi, N, Tv. reflexivity.
Qed.

(** "-fvalue" inside a task's argument list (repair dd95c66): the head is not a
    flag of the task but a value flag of the initial context *)
Lemma glued_presplit_task i0 done cur fl got tok v i r :
  clean_flag tok = true -> String.length tok = 2 ->
  v <> "" -> contains_char "=" v = false ->
  find_flag (rc_args cur) tok = None ->
  find_flag (rc_args i0) tok = Some i -> nth_error (rc_args i0) i = Some r ->
  takes_value (r_spec r) = true ->
  presplit (MS i0 done cur fl got) (tok ++ v) = Ok (tok, [v]).
Proof.
  intros C L Nv Ev Fc Fi N Tv.
  unfold clean_flag in C. rewrite !andb_true_iff, negb_true_iff in C.
  destruct C as [[[D E] Lg] Nd].
  assert (Nl : starts_with "--" tok = false).
  { destruct (starts_with "--" tok) eqn:X; [|reflexivity].
    rewrite (starts_with_same_length "--" tok X L) in Nd. discriminate Nd. }
  unfold presplit, is_flag, is_long_flag. cbn [m_unparsed MS].
  rewrite (starts_with_dash_app _ _ D). cbn [andb].
  rewrite contains_char_app, E, Ev. cbn [orb].
  rewrite (starts_with_app_keep "--" tok v) by (rewrite L; simpl; lia). rewrite Nl. cbn [negb andb].
  assert (Ln : Nat.ltb 2 (String.length (tok ++ v)) = true).
  { rewrite len_app, L. destruct v; [congruence|]. reflexivity. }
  rewrite Ln. cbn [andb].
  assert (T2 : take 2 (tok ++ v) = tok) by (rewrite <- L; apply take_app).
  assert (D2 : drop 2 (tok ++ v) = v) by (rewrite <- L; apply drop_app).
  rewrite T2, D2, MS_cur, Fc, MS_init, Fi, N, Tv.
  cbn [m_st MS pstate_eqb negb andb]. reflexivity.
Qed.

(** ** One core option: its description and its tokens *)
Inductive cform := CBare | CNext | CEq | CGlued.

Record copt := mkCopt { co_tok : string; co_idx : nat; co_form : cform; co_val : string }.

Definition spell_copt (o : copt) : list string :=
  match co_form o with
  | CBare => [co_tok o]
  | CNext => [co_tok o; co_val o]
  | CEq => [(co_tok o ++ String "=" (co_val o))%string]
  | CGlued => [(co_tok o ++ co_val o)%string]
  end.

Definition copt_input (o : copt) : inval :=
  match co_form o with CBare => IBool true | _ => IStr (co_val o) end.

Definition apply_copt (args : list rarg) (o : copt) : list rarg :=
  match nth_error args (co_idx o) with
  | Some r => match set_value r (copt_input o) true with
              | Ok r' => upd_nth (co_idx o) r' args
              | Err _ => args
              end
  | None => args
  end.

(** admissible core option w.r.t. the current state [args] of the initial
    context (the glued form is admissible at every placement since repair dd95c66);
    [names]: the task names *)
Definition copt_ok (cs : list ctxspec) (args : list rarg) (o : copt) : bool :=
  clean_flag (co_tok o) &&
  match find_flag args (co_tok o), nth_error args (co_idx o) with
  | Some i, Some r =>
      Nat.eqb i (co_idx o)
      && negb (String.eqb (arg_name (r_spec r)) "help")
      && match co_form o with
         | CBare => akind_eqb (a_kind (r_spec r)) KBool && negb (a_incrementable (r_spec r))
         | f =>
             takes_value (r_spec r) && negb (r_raw r)
             && negb (akind_eqb (a_kind (r_spec r)) KList)
             && negb (starts_with "-" (co_val o))
             && castable (r_spec r) (co_val o)
             && (negb (a_optional (r_spec r)) || negb (is_ctx_name cs (co_val o)))
             && match f with
                | CGlued => Nat.eqb (String.length (co_tok o)) 2
                            && negb (String.eqb (co_val o) "")
                            && negb (contains_char "=" (co_val o))
                | _ => true
                end
         end
  | _, _ => false
  end.

Fixpoint copts_ok (cs : list ctxspec) (args : list rarg) (os : list copt) : bool :=
  match os with
  | [] => true
  | o :: rest => copt_ok cs args o && copts_ok cs (apply_copt args o) rest
  end.

(** not shadowed by task context [c], not a task name *)
Definition copt_free (cs : list ctxspec) (c : ctxspec) (o : copt) : bool :=
  match find_flag_spec (cx_args c) (co_tok o) with None => true | Some _ => false end
  && match find (is_inverse_of (co_tok o)) (cx_args c) with None => true | Some _ => false end
  && negb (is_ctx_name cs (co_tok o)).

Lemma set_value_core r o r' :
  set_value r (copt_input o) true = Ok r' ->
  r_spec r' = r_spec r /\ r_raw r' = true /\ aval_is_none (arg_value r') = false.
Proof.
  intros SV. unfold set_value in SV. destruct (new_value r (copt_input o) true) as [x|] eqn:E; [|discriminate].
  injection SV as <-. cbn [r_spec r_raw]. repeat split.
  destruct (C07_positional.set_value_not_none r (copt_input o) true (mkRArg (r_spec r) true x)) as [H _].
  - unfold set_value. rewrite E. reflexivity.
  - exact H.
Qed.

Lemma has_missing_upd_init i0 i r' :
  has_missing i0 = false -> aval_is_none (arg_value r') = false -> has_missing (upd_init i0 i r') = false.
Proof.
  unfold has_missing, upd_init, with_args. cbn [rc_args]. intros H Nn.
  apply existsb_upd_nth; [exact H|]. rewrite Nn. apply andb_false_r.
Qed.

Lemma inert_init_MS i0 done cur i r' got :
  nth_error (rc_args i0) i <> None -> r_raw r' = true ->
  (needs_value r' && negb got) = false ->
  inert (MS (upd_init i0 i r') done cur (Some (0, i)) got).
Proof.
  intros N R K. unfold inert. cbn [m_flag MS]. exists r'. split; [|split; [exact R | exact K]].
  unfold get_arg, get_ctx. cbn [fst snd m_ctxs MS nth_error upd_init with_args rc_args].
  destruct (nth_error (rc_args i0) i) as [r|] eqn:E; [|congruence].
  eapply nth_error_upd_nth_same; eauto.
Qed.

Lemma inert_init_MI i0 i r' got :
  nth_error (rc_args i0) i <> None -> r_raw r' = true ->
  (needs_value r' && negb got) = false ->
  inert (MI (upd_init i0 i r') (Some (0, i)) got).
Proof.
  intros N R K. unfold inert. cbn [m_flag MI]. exists r'. split; [|split; [exact R | exact K]].
  unfold get_arg, get_ctx. cbn [fst snd m_ctxs MI nth_error upd_init with_args rc_args].
  destruct (nth_error (rc_args i0) i) as [r|] eqn:E; [|congruence].
  eapply nth_error_upd_nth_same; eauto.
Qed.

(** ** Runs of one core option *)

Lemma copt_ok_parts cs args o :
  copt_ok cs args o = true ->
  exists r,
    clean_flag (co_tok o) = true /\ find_flag args (co_tok o) = Some (co_idx o) /\
    nth_error args (co_idx o) = Some r /\ String.eqb (arg_name (r_spec r)) "help" = false /\
    match co_form o with
    | CBare => a_kind (r_spec r) = KBool /\ a_incrementable (r_spec r) = false
    | f =>
        takes_value (r_spec r) = true /\ r_raw r = false /\ a_kind (r_spec r) <> KList /\
        starts_with "-" (co_val o) = false /\
        castable (r_spec r) (co_val o) = true /\
        (a_optional (r_spec r) = true -> is_ctx_name cs (co_val o) = false) /\
        match f with
        | CGlued => String.length (co_tok o) = 2 /\ co_val o <> "" /\
                    contains_char "=" (co_val o) = false
        | _ => True
        end
    end.
Proof.
  unfold copt_ok. rewrite andb_true_iff. intros [C H].
  destruct (find_flag args (co_tok o)) as [i|] eqn:F; [|discriminate].
  destruct (nth_error args (co_idx o)) as [r|] eqn:N; [|discriminate].
  rewrite !andb_true_iff in H. destruct H as [[Ei Nh] H].
  apply Nat.eqb_eq in Ei. subst i. rewrite negb_true_iff in Nh.
  exists r. split; [exact C|]. split; [reflexivity|]. split; [reflexivity|]. split; [exact Nh|].
  assert (V : co_form o <> CBare ->
              takes_value (r_spec r) && negb (r_raw r) && negb (akind_eqb (a_kind (r_spec r)) KList)
              && negb (starts_with "-" (co_val o))
              && castable (r_spec r) (co_val o)
              && (negb (a_optional (r_spec r)) || negb (is_ctx_name cs (co_val o))) = true ->
              takes_value (r_spec r) = true /\ r_raw r = false /\ a_kind (r_spec r) <> KList /\
              starts_with "-" (co_val o) = false /\
              castable (r_spec r) (co_val o) = true /\
              (a_optional (r_spec r) = true -> is_ctx_name cs (co_val o) = false)).
  { intros _ X. rewrite !andb_true_iff, !negb_true_iff in X.
    destruct X as [[[[[X1 X2] X3] X4] X5] X6]. repeat split; auto.
    - intros K. rewrite K in X3. discriminate.
    - intros O. rewrite O in X6. simpl in X6. rewrite negb_true_iff in X6. exact X6. }
  destruct (co_form o) eqn:Fo.
  - rewrite andb_true_iff, negb_true_iff in H. destruct H as [K I].
    destruct (a_kind (r_spec r)); try discriminate. auto.
  - rewrite andb_true_iff in H. destruct H as [H _].
    destruct (V ltac:(discriminate) H) as (A&B&C0&D&E&F0). repeat split; auto.
  - rewrite andb_true_iff in H. destruct H as [H _].
    destruct (V ltac:(discriminate) H) as (A&B&C0&D&E&F0). repeat split; auto.
  - rewrite andb_true_iff in H. destruct H as [H G].
    destruct (V ltac:(discriminate) H) as (A&B&C0&D&E&F0).
    rewrite !andb_true_iff, !negb_true_iff in G. destruct G as [[G2 G3] G4].
    apply Nat.eqb_eq in G2. repeat split; auto.
    intros X. rewrite X in G3. discriminate.
Qed.

Lemma value_set r v :
  takes_value (r_spec r) = true -> a_kind (r_spec r) <> KList ->
  castable (r_spec r) v = true ->
  exists r', set_value r (IStr v) true = Ok r' /\ r_spec r' = r_spec r /\ r_raw r' = true /\
             aval_is_none (arg_value r') = false.
Proof.
  intros Tv Nl Hi.
  destruct (set_value_str r v Tv Hi) as [r' [SV [Sp [Rw [Nn _]]]]]; [intros K; congruence|].
  exists r'. repeat split; auto. unfold arg_value. rewrite Nn. exact Nn.
Qed.

Section OneOption.
Variable p : parser.
Variable cs : list ctxspec.
Hypothesis Pcs : p_ctxs p = cs.

(** inside a task's argument list *)
Lemma copt_steps_task i0 done cur fl got o :
  inert (MS i0 done cur fl got) -> has_missing cur = false -> has_missing i0 = false ->
  find_flag (rc_args cur) (co_tok o) = None -> find_inverse (rc_args cur) (co_tok o) = None ->
  is_ctx_name cs (co_tok o) = false ->
  copt_ok cs (rc_args i0) o = true ->
  exists fl' got',
    let i0' := with_args i0 (apply_copt (rc_args i0) o) in
    steps p (MS i0 done cur fl got) (spell_copt o) (MS i0' done cur fl' got') /\
    inert (MS i0' done cur fl' got') /\ has_missing i0' = false.
Proof.
  intros I Hm Hi F FI Nn Ok'. rewrite <- Pcs in Nn.
  destruct (copt_ok_parts _ _ _ Ok') as [r [C [Fi [N [Nh Hf]]]]].
  unfold spell_copt, apply_copt, copt_input. rewrite N.
  destruct (co_form o) eqn:Fo.
  - destruct Hf as [Kb Ninc].
    destruct (step_core_bool_flag p i0 done cur fl got (co_tok o) (co_idx o) r I Hm C F FI Nn Fi N Kb Ninc Nh)
      as [S I'].
    unfold set_value, new_value. rewrite Ninc, Kb. cbn [cast_kind].
    exists (Some (0, co_idx o)), false. split; [apply steps_one; exact S|]. split; [exact I'|].
    apply has_missing_set_core. exact Hi.
  - destruct Hf as (Tv&Rw&Nl&Pl&Hint&Hopt&_).
    destruct (value_set r (co_val o) Tv Nl Hint) as [r' [SV [Sp [Rw' Nn']]]]. rewrite SV.
    exists (Some (0, co_idx o)), true.
    assert (S1 : step p (MS i0 done cur fl got) (co_tok o)
                 = Ok (MS i0 done cur (Some (0, co_idx o)) false, [])).
    { unfold step, bind.
      rewrite (clean_flag_presplit (MS i0 done cur fl got) _ C eq_refl), (inert_rollback _ _ _ I).
      cbn [fst snd]. rewrite (handle_core_value_flag p i0 done cur fl got _ _ r I Hm F FI Nn Fi N Tv Nh).
      reflexivity. }
    assert (S2 : step p (MS i0 done cur (Some (0, co_idx o)) false) (co_val o)
                 = Ok (MS (upd_init i0 (co_idx o) r') done cur (Some (0, co_idx o)) true, [])).
    { rewrite (step_init_value p (MS i0 done cur (Some (0, co_idx o)) false) cur i0 (co_idx o) r r' (co_val o) eq_refl eq_refl
                 (MS_cur _ _ _ _ _) eq_refl eq_refl N Tv).
      - rewrite put_arg_init_MS. reflexivity.
      - cbn [m_got MS]. rewrite Rw. destruct (_ && _); reflexivity.
      - exact Rw.
      - exact Pl.
      - intros O. split; [exact Hm | rewrite Pcs; auto].
      - exact SV. }
    split; [eapply steps_two; eauto|]. split.
    + apply inert_init_MS; [congruence | exact Rw' | rewrite andb_false_r; reflexivity].
    + apply has_missing_upd_init; assumption.
  - destruct Hf as (Tv&Rw&Nl&Pl&Hint&Hopt&_).
    destruct (value_set r (co_val o) Tv Nl Hint) as [r' [SV [Sp [Rw' Nn']]]]. rewrite SV.
    exists (Some (0, co_idx o)), true.
    assert (S1 : step p (MS i0 done cur fl got) (co_tok o ++ String "=" (co_val o))
                 = Ok (MS i0 done cur (Some (0, co_idx o)) false, [co_val o])).
    { unfold step, bind.
      rewrite (clean_flag_eq_presplit (MS i0 done cur fl got) _ (co_val o) C eq_refl),
        (inert_rollback _ _ _ I).
      cbn [fst snd]. rewrite (handle_core_value_flag p i0 done cur fl got _ _ r I Hm F FI Nn Fi N Tv Nh).
      reflexivity. }
    assert (S2 : step p (MS i0 done cur (Some (0, co_idx o)) false) (co_val o)
                 = Ok (MS (upd_init i0 (co_idx o) r') done cur (Some (0, co_idx o)) true, [])).
    { rewrite (step_init_value p (MS i0 done cur (Some (0, co_idx o)) false) cur i0 (co_idx o) r r' (co_val o) eq_refl eq_refl
                 (MS_cur _ _ _ _ _) eq_refl eq_refl N Tv).
      - rewrite put_arg_init_MS. reflexivity.
      - cbn [m_got MS]. rewrite Rw. destruct (_ && _); reflexivity.
      - exact Rw.
      - exact Pl.
      - intros O. split; [exact Hm | rewrite Pcs; auto].
      - exact SV. }
    split; [eapply steps_pushed; eauto|]. split.
    + apply inert_init_MS; [congruence | exact Rw' | rewrite andb_false_r; reflexivity].
    + apply has_missing_upd_init; assumption.
  - (* glued, inside a task: repair dd95c66 *)
    destruct Hf as (Tv&Rw&Nl&Pl&Hint&Hopt&L2&Nv&Ne).
    destruct (value_set r (co_val o) Tv Nl Hint) as [r' [SV [Sp [Rw' Nn']]]]. rewrite SV.
    exists (Some (0, co_idx o)), true.
    assert (S1 : step p (MS i0 done cur fl got) (co_tok o ++ co_val o)
                 = Ok (MS i0 done cur (Some (0, co_idx o)) false, [co_val o])).
    { unfold step, bind.
      rewrite (glued_presplit_task i0 done cur fl got _ _ _ r C L2 Nv Ne F Fi N Tv),
        (inert_rollback _ _ _ I).
      cbn [fst snd]. rewrite (handle_core_value_flag p i0 done cur fl got _ _ r I Hm F FI Nn Fi N Tv Nh).
      reflexivity. }
    assert (S2 : step p (MS i0 done cur (Some (0, co_idx o)) false) (co_val o)
                 = Ok (MS (upd_init i0 (co_idx o) r') done cur (Some (0, co_idx o)) true, [])).
    { rewrite (step_init_value p (MS i0 done cur (Some (0, co_idx o)) false) cur i0 (co_idx o) r r' (co_val o) eq_refl eq_refl
                 (MS_cur _ _ _ _ _) eq_refl eq_refl N Tv).
      - rewrite put_arg_init_MS. reflexivity.
      - cbn [m_got MS]. rewrite Rw. destruct (_ && _); reflexivity.
      - exact Rw.
      - exact Pl.
      - intros O. split; [exact Hm | rewrite Pcs; auto].
      - exact SV. }
    split; [eapply steps_pushed; eauto|]. split.
    + apply inert_init_MS; [congruence | exact Rw' | rewrite andb_false_r; reflexivity].
    + apply has_missing_upd_init; assumption.
Qed.

(** before the first task *)
Lemma copt_steps_front i0 fl got o :
  inert (MI i0 fl got) -> has_missing i0 = false ->
  copt_ok cs (rc_args i0) o = true ->
  exists fl' got',
    let i0' := with_args i0 (apply_copt (rc_args i0) o) in
    steps p (MI i0 fl got) (spell_copt o) (MI i0' fl' got') /\
    inert (MI i0' fl' got') /\ has_missing i0' = false.
Proof.
  intros I Hi Ok'.
  destruct (copt_ok_parts _ _ _ Ok') as [r [C [Fi [N [Nh Hf]]]]].
  unfold spell_copt, apply_copt, copt_input. rewrite N.
  assert (Cc : cur_ctx (MI i0 (Some (0, co_idx o)) false) = Some i0) by reflexivity.
  assert (Val : forall r', takes_value (r_spec r) = true -> r_raw r = false ->
            starts_with "-" (co_val o) = false ->
            (a_optional (r_spec r) = true -> is_ctx_name cs (co_val o) = false) ->
            set_value r (IStr (co_val o)) true = Ok r' ->
            step p (MI i0 (Some (0, co_idx o)) false) (co_val o)
            = Ok (MI (upd_init i0 (co_idx o) r') (Some (0, co_idx o)) true, [])).
  { intros r' Tv Rw Pl Hopt SV.
    rewrite (step_init_value p (MI i0 (Some (0, co_idx o)) false) i0 i0 (co_idx o) r r' (co_val o) eq_refl eq_refl Cc eq_refl eq_refl N Tv).
    - rewrite put_arg_init_MI. reflexivity.
    - cbn [m_got MI]. rewrite Rw. destruct (_ && _); reflexivity.
    - exact Rw.
    - exact Pl.
    - intros O. split; [exact Hi | rewrite Pcs; auto].
    - exact SV. }
  destruct (co_form o) eqn:Fo.
  - destruct Hf as [Kb Ninc].
    unfold set_value, new_value. rewrite Ninc, Kb. cbn [cast_kind].
    exists (Some (0, co_idx o)), false.
    assert (S : step p (MI i0 fl got) (co_tok o)
                = Ok (MI (set_core i0 (co_idx o) r) (Some (0, co_idx o)) false, [])).
    { unfold step, bind.
      rewrite (clean_flag_presplit (MI i0 fl got) _ C eq_refl), (inert_rollback _ _ _ I).
      cbn [fst snd]. unfold handle. cbn [m_st MI pstate_eqb]. unfold cur_ctx, get_ctx.
      cbn [m_cur m_ctxs MI nth_error ctx_has_flag]. rewrite Fi.
      unfold switch_to_flag, bind.
      rewrite (inert_check_ambiguity p _ _ I), (inert_complete_flag _ I).
      unfold cur_ctx, get_ctx. cbn [m_cur m_ctxs MI nth_error]. rewrite Fi.
      change (set_flag (MI i0 fl got) (Some (0, co_idx o)) false) with (MI i0 (Some (0, co_idx o)) false).
      assert (GA : get_arg (MI i0 (Some (0, co_idx o)) false) (0, co_idx o) = Some r).
      { unfold get_arg, get_ctx. cbn [fst snd m_ctxs MI nth_error]. exact N. }
      rewrite GA. unfold takes_value. rewrite Kb. unfold set_arg_value. rewrite GA.
      unfold set_value, new_value. rewrite Ninc, Kb. cbn [cast_kind negb].
      rewrite put_arg_init_MI. reflexivity. }
    split; [apply steps_one; exact S|]. split.
    + apply inert_init_MI; [congruence | reflexivity | rewrite needs_value_bool; [reflexivity | exact Kb]].
    + apply has_missing_set_core. exact Hi.
  - destruct Hf as (Tv&Rw&Nl&Pl&Hint&Hopt&_).
    destruct (value_set r (co_val o) Tv Nl Hint) as [r' [SV [Sp [Rw' Nn']]]]. rewrite SV.
    exists (Some (0, co_idx o)), true.
    assert (S1 : step p (MI i0 fl got) (co_tok o) = Ok (MI i0 (Some (0, co_idx o)) false, [])).
    { unfold step, bind.
      rewrite (clean_flag_presplit (MI i0 fl got) _ C eq_refl), (inert_rollback _ _ _ I).
      cbn [fst snd]. rewrite (handle_front_value_flag p i0 fl got _ _ r I Fi N Tv). reflexivity. }
    split; [eapply steps_two; [exact S1 | apply Val; auto]|]. split.
    + apply inert_init_MI; [congruence | exact Rw' | rewrite andb_false_r; reflexivity].
    + apply has_missing_upd_init; assumption.
  - destruct Hf as (Tv&Rw&Nl&Pl&Hint&Hopt&_).
    destruct (value_set r (co_val o) Tv Nl Hint) as [r' [SV [Sp [Rw' Nn']]]]. rewrite SV.
    exists (Some (0, co_idx o)), true.
    assert (S1 : step p (MI i0 fl got) (co_tok o ++ String "=" (co_val o))
                 = Ok (MI i0 (Some (0, co_idx o)) false, [co_val o])).
    { unfold step, bind.
      rewrite (clean_flag_eq_presplit (MI i0 fl got) _ (co_val o) C eq_refl), (inert_rollback _ _ _ I).
      cbn [fst snd]. rewrite (handle_front_value_flag p i0 fl got _ _ r I Fi N Tv). reflexivity. }
    split; [eapply steps_pushed; [exact S1 | apply Val; auto]|]. split.
    + apply inert_init_MI; [congruence | exact Rw' | rewrite andb_false_r; reflexivity].
    + apply has_missing_upd_init; assumption.
  - destruct Hf as (Tv&Rw&Nl&Pl&Hint&Hopt&L2&Nv&Ne).
    destruct (value_set r (co_val o) Tv Nl Hint) as [r' [SV [Sp [Rw' Nn']]]]. rewrite SV.
    exists (Some (0, co_idx o)), true.
    assert (S1 : step p (MI i0 fl got) (co_tok o ++ co_val o)
                 = Ok (MI i0 (Some (0, co_idx o)) false, [co_val o])).
    { unfold step, bind.
      rewrite (glued_presplit_front i0 fl got _ _ _ r C L2 Nv Ne Fi N Tv), (inert_rollback _ _ _ I).
      cbn [fst snd]. rewrite (handle_front_value_flag p i0 fl got _ _ r I Fi N Tv). reflexivity. }
    split; [eapply steps_pushed; [exact S1 | apply Val; auto]|]. split.
    + apply inert_init_MI; [congruence | exact Rw' | rewrite andb_false_r; reflexivity].
    + apply has_missing_upd_init; assumption.
Qed.

End OneOption.

(** ** Runs of a list of core options *)

Definition apply_copts (args : list rarg) (os : list copt) : list rarg := fold_left apply_copt os args.

Section ManyOptions.
Variable p : parser.
Variable cs : list ctxspec.
Hypothesis Pcs : p_ctxs p = cs.

Lemma copts_steps_task done cur : forall os i0 fl got,
  inert (MS i0 done cur fl got) -> has_missing cur = false -> has_missing i0 = false ->
  (forall o, In o os -> find_flag (rc_args cur) (co_tok o) = None /\
                        find_inverse (rc_args cur) (co_tok o) = None /\
                        is_ctx_name cs (co_tok o) = false) ->
  copts_ok cs (rc_args i0) os = true ->
  exists fl' got',
    let i0' := with_args i0 (apply_copts (rc_args i0) os) in
    steps p (MS i0 done cur fl got) (flat_map spell_copt os) (MS i0' done cur fl' got') /\
    inert (MS i0' done cur fl' got') /\ has_missing i0' = false.
Proof.
  induction os as [|o os IH]; intros i0 fl got I Hm Hi Free Ok'.
  - exists fl, got. cbn [apply_copts fold_left flat_map].
    replace (with_args i0 (rc_args i0)) with i0 by (destruct i0; reflexivity).
    split; [apply steps_nil|]. auto.
  - cbn [copts_ok] in Ok'. apply andb_true_iff in Ok'. destruct Ok' as [Oo Or].
    destruct (Free o (or_introl eq_refl)) as [F [FI Nn]].
    destruct (copt_steps_task p cs Pcs i0 done cur fl got o I Hm Hi F FI Nn Oo)
      as [fl1 [got1 [S1 [I1 Hi1]]]].
    cbv zeta in S1, I1, Hi1.
    set (i1 := with_args i0 (apply_copt (rc_args i0) o)) in *.
    destruct (IH i1 fl1 got1 I1 Hm Hi1 (fun o' H => Free o' (or_intror H)) Or)
      as [fl2 [got2 [S2 [I2 Hi2]]]].
    exists fl2, got2. cbn [flat_map apply_copts fold_left].
    change (with_args i1 (apply_copts (rc_args i1) os))
      with (with_args i0 (fold_left apply_copt os (apply_copt (rc_args i0) o))) in *.
    split; [eapply steps_app; eauto|]. auto.
Qed.

Lemma copts_steps_front : forall os i0 fl got,
  inert (MI i0 fl got) -> has_missing i0 = false ->
  copts_ok cs (rc_args i0) os = true ->
  exists fl' got',
    let i0' := with_args i0 (apply_copts (rc_args i0) os) in
    steps p (MI i0 fl got) (flat_map spell_copt os) (MI i0' fl' got') /\
    inert (MI i0' fl' got') /\ has_missing i0' = false.
Proof.
  induction os as [|o os IH]; intros i0 fl got I Hi Ok'.
  - exists fl, got. cbn [apply_copts fold_left flat_map].
    replace (with_args i0 (rc_args i0)) with i0 by (destruct i0; reflexivity).
    split; [apply steps_nil|]. auto.
  - cbn [copts_ok] in Ok'. apply andb_true_iff in Ok'. destruct Ok' as [Oo Or].
    destruct (copt_steps_front p cs Pcs i0 fl got o I Hi Oo) as [fl1 [got1 [S1 [I1 Hi1]]]].
    cbv zeta in S1, I1, Hi1.
    set (i1 := with_args i0 (apply_copt (rc_args i0) o)) in *.
    destruct (IH i1 fl1 got1 I1 Hi1 Or) as [fl2 [got2 [S2 [I2 Hi2]]]].
    exists fl2, got2. cbn [flat_map apply_copts fold_left].
    change (with_args i1 (apply_copts (rc_args i1) os))
      with (with_args i0 (fold_left apply_copt os (apply_copt (rc_args i0) o))) in *.
    split; [eapply steps_app; eauto|]. auto.
Qed.

End ManyOptions.

(** tokens of admissible core options are never the remainder sentinel *)
Lemma spell_copt_clean cs args o :
  copt_ok cs args o = true -> Forall (fun t => t <> "--") (spell_copt o).
Proof.
  intros Ok'. destruct (copt_ok_parts _ _ _ Ok') as [r [C [_ [_ [_ Hf]]]]].
  unfold spell_copt. destruct (co_form o).
  - repeat constructor. apply clean_not_ddash; exact C.
  - destruct Hf as (_&_&_&Pl&_). repeat constructor; [apply clean_not_ddash; exact C|].
    intros E. rewrite E in Pl. discriminate Pl.
  - repeat constructor. apply eq_form_not_ddash.
  - destruct Hf as (_&_&_&_&_&_&L2&Nv&_). repeat constructor. intros E.
    assert (String.length (co_tok o ++ co_val o) = 2) by (rewrite E; reflexivity).
    rewrite len_app, L2 in H. destruct (co_val o); [congruence | simpl in H; lia].
Qed.

Lemma spell_copts_clean cs : forall os args,
  copts_ok cs args os = true -> Forall (fun t => t <> "--") (flat_map spell_copt os).
Proof.
  induction os as [|o os IH]; intros args Ok'; [constructor|].
  cbn [copts_ok] in Ok'. apply andb_true_iff in Ok'. destruct Ok' as [Oo Or].
  cbn [flat_map]. apply Forall_app. split; [eapply spell_copt_clean; eauto | eapply IH; eauto].
Qed.

(** ** The placement theorems for whole core prefixes *)
Section PrefixPlacement.
Variable cs : list ctxspec.
Variable ic : ctxspec.
Let p := mkP cs (Some ic) false.
Let i0 := init_ctx ic.

(** the core options first (any documented form), then the invocation *)
Theorem core_prefix_front os inv :
  simple_guard cs ic inv = true ->
  copts_ok cs (rc_args i0) os = true ->
  exists res,
    parser_parse cs (Some ic) false (flat_map spell_copt os ++ spell cs inv) = Ok res /\
    pr_ctxs res = with_args i0 (apply_copts (rc_args i0) os) :: map (final_ctx cs) inv /\
    map obs_of_ctx (tl (pr_ctxs res)) = expected cs inv /\
    pr_unparsed res = [] /\ pr_remainder res = "".
Proof.
  unfold simple_guard. rewrite !andb_true_iff, negb_true_iff. intros [[[Pok Hi] Ne] Cs] Ok'.
  assert (I0 : inert (MI i0 None false)) by exact I.
  destruct (copts_steps_front p cs eq_refl os i0 None false I0 Hi Ok') as [fl [got [S0 [I1 Hi1]]]].
  cbv zeta in *. set (i0' := with_args i0 (apply_copts (rc_args i0) os)) in *.
  assert (R0 : ready i0' (MI i0' fl got) []) by (constructor; assumption).
  destruct (calls_from_ready cs ic Pok i0' inv _ [] R0 Cs) as [m' [S1 [R1 Ob]]]. cbn [app] in R1.
  assert (St : steps p (M0 i0) (flat_map spell_copt os ++ spell cs inv) m')
    by (eapply steps_app; [exact S0 | exact S1]).
  assert (Cl : Forall (fun t => t <> "--") (flat_map spell_copt os ++ spell cs inv)).
  { apply Forall_app. split; [eapply spell_copts_clean; eauto | apply spell_clean; exact Cs]. }
  destruct (parse_of_run cs ic _ _ m' _ Pok Hi Cl St R1) as [res [P [Rc [Un Rm]]]].
  { destruct inv; discriminate. }
  exists res. split; [exact P|]. split; [exact Rc|]. rewrite Rc. cbn [tl].
  rewrite map_map. unfold expected. auto.
Qed.

(** the same options, same spellings, after any complete item of any call *)
Theorem core_prefix_placed os calls1 t asn items1 items2 calls2 c :
  let inv := calls1 ++ mkCall t asn (items1 ++ items2) :: calls2 in
  simple_guard cs ic inv = true ->
  nth_error cs t = Some c ->
  forallb (copt_free cs c) os = true ->
  copts_ok cs (rc_args i0) os = true ->
  exists res,
    parser_parse cs (Some ic) false
      (spell cs calls1 ++ (asn :: flat_map (spell_item c) items1)
       ++ flat_map spell_copt os ++ flat_map (spell_item c) items2 ++ spell cs calls2) = Ok res /\
    pr_ctxs res = with_args i0 (apply_copts (rc_args i0) os) :: map (final_ctx cs) inv /\
    map obs_of_ctx (tl (pr_ctxs res)) = expected cs inv /\
    pr_unparsed res = [] /\ pr_remainder res = "".
Proof.
  intros inv. unfold simple_guard. rewrite !andb_true_iff, negb_true_iff.
  intros [[[Pok Hi] _] Cs] N Free Ok'.
  unfold inv in Cs. rewrite forallb_app in Cs. apply andb_true_iff in Cs. destruct Cs as [C1 Ck].
  cbn [forallb] in Ck. apply andb_true_iff in Ck. destruct Ck as [Ck C2].
  set (k := mkCall t asn (items1 ++ items2)) in *.
  pose proof Ck as Ck'. unfold call_simple in Ck'. cbn [k_task k] in Ck'. rewrite N in Ck'.
  rewrite !andb_true_iff in Ck'. destruct Ck' as [[[Nm Pl] G] Is]. cbn [k_as k_items k] in *.
  unfold plain in Pl. rewrite negb_true_iff in Pl.
  rewrite items_simple_app in Is. apply andb_true_iff in Is. destruct Is as [Is1 Is2].
  assert (R0 : ready i0 (MI i0 None false) []) by (constructor; [exact I | exact Hi]).
  destruct (calls_from_ready cs ic Pok i0 calls1 _ [] R0 C1) as [m1 [S1 [R1 Ob1]]]. cbn [app] in R1.
  destruct (ready_task_name cs ic i0 m1 _ asn c R1 Pl (Nf_p cs ic Pok k c N Nm)) as [fl [got [S2 I2]]].
  set (d1 := map (final_ctx cs) calls1) in *.
  destruct (items_steps_explicit cs p eq_refl i0 c items1 [] d1 (init_ctx c) fl got [] G Is1
              (init_st_ok c G) (init_vals_ok c G) I2) as [fl1 [got1 [S3 [I3 [St3 V3]]]]].
  cbn zeta in *. cbn [rc_args init_ctx app] in *.
  change (mkRCtx (cx_name c) (cx_aliases c) (map init_arg (cx_args c))) with (init_ctx c) in *.
  set (args1 := fold_left run_occ (flat_map occs_of items1) (map init_arg (cx_args c))) in *.
  set (cur1 := with_args (init_ctx c) args1) in *.
  assert (Hm1 : has_missing cur1 = false) by (apply has_missing_with_args; exact (so_miss _ _ _ St3)).
  assert (FreeP : forall o, In o os ->
            find_flag (rc_args cur1) (co_tok o) = None /\
            find_inverse (rc_args cur1) (co_tok o) = None /\ is_ctx_name cs (co_tok o) = false).
  { intros o Ho. rewrite forallb_forall in Free. specialize (Free o Ho). unfold copt_free in Free.
    rewrite !andb_true_iff, negb_true_iff in Free. destruct Free as [[Fs Finv] Nn].
    cbn [rc_args cur1 with_args]. split; [|split; [|exact Nn]].
    - rewrite find_flag_args, (so_shape _ _ _ St3).
      destruct (find_flag_spec (cx_args c) (co_tok o)); [discriminate | reflexivity].
    - unfold find_inverse.
      pose proof (find_map_spec args1 (is_inverse_of (co_tok o))) as E. rewrite (so_shape _ _ _ St3) in E.
      destruct (find (is_inverse_of (co_tok o)) (cx_args c)); [discriminate|].
      destruct (find (fun r0 => is_inverse_of (co_tok o) (r_spec r0)) args1); [discriminate E | reflexivity]. }
  destruct (copts_steps_task p cs eq_refl d1 cur1 os i0 fl1 got1 I3 Hm1 Hi FreeP Ok')
    as [fl4 [got4 [S4 [I4 Hi4]]]].
  cbv zeta in S4, I4, Hi4. set (i0' := with_args i0 (apply_copts (rc_args i0) os)) in *.
  destruct (items_steps_explicit cs p eq_refl i0' c items2 (given_items [] items1) d1 cur1
              fl4 got4 (flat_map occs_of items1) G Is2 St3 V3 I4)
    as [fl2 [got2 [S5 [I5 [St5 V5]]]]].
  cbn zeta in *. cbn [rc_args cur1 with_args] in *.
  set (args2 := fold_left run_occ (flat_map occs_of items2) args1) in *.
  assert (Ef : with_args cur1 args2 = final_ctx cs k).
  { unfold final_ctx, final_args, call_occs. cbn [k_task k_items k]. rewrite N.
    rewrite flat_map_app, fold_left_app. reflexivity. }
  change (with_args (with_args (init_ctx c) args1) args2) with (with_args cur1 args2) in *.
  rewrite Ef in *.
  assert (Hm2 : has_missing (final_ctx cs k) = false).
  { rewrite <- Ef. apply has_missing_with_args. exact (so_miss _ _ _ St5). }
  assert (R5 : ready i0' (MS i0' d1 (final_ctx cs k) fl2 got2) (d1 ++ [final_ctx cs k])).
  { constructor; assumption. }
  destruct (calls_from_ready cs ic Pok i0' calls2 _ _ R5 C2) as [m6 [S6 [R6 Ob6]]].
  destruct (call_items_steps_any cs p eq_refl i0 k c d1 fl got N Ck I2) as [_ [_ [_ [_ [_ Obk]]]]].
  assert (St : steps p (M0 i0)
                 (spell cs calls1 ++ (asn :: flat_map (spell_item c) items1)
                  ++ flat_map spell_copt os ++ flat_map (spell_item c) items2 ++ spell cs calls2) m6).
  { eapply steps_app; [exact S1|]. cbn [app].
    econstructor; [exact S2|]. cbn [app].
    eapply steps_app; [exact S3|]. eapply steps_app; [exact S4|].
    eapply steps_app; [exact S5 | exact S6]. }
  assert (Cl : Forall (fun x => x <> "--")
                 (spell cs calls1 ++ (asn :: flat_map (spell_item c) items1)
                  ++ flat_map spell_copt os ++ flat_map (spell_item c) items2 ++ spell cs calls2)).
  { apply Forall_app. split; [apply spell_clean; exact C1|]. cbn [app].
    constructor; [intros E; subst asn; discriminate Pl|].
    apply Forall_app. split; [eapply spell_items_clean; eauto|].
    apply Forall_app. split; [eapply spell_copts_clean; eauto|].
    apply Forall_app. split; [eapply spell_items_clean; eauto | apply spell_clean; exact C2]. }
  destruct (parse_of_run cs ic _ _ m6 _ Pok Hi Cl St R6) as [res [P [Rc [Un Rm]]]].
  { destruct d1; discriminate. }
  exists res. split; [exact P|].
  assert (Eall : (d1 ++ [final_ctx cs k]) ++ map (final_ctx cs) calls2 = map (final_ctx cs) inv).
  { unfold inv, d1. rewrite map_app. cbn [map]. rewrite <- app_assoc. reflexivity. }
  split; [rewrite Rc, Eall; reflexivity|]. split; [|auto].
  rewrite Rc. cbn [tl]. rewrite Eall. unfold inv, expected. rewrite !map_app. cbn [map].
  rewrite !map_map in *. rewrite Ob1, Obk, Ob6. reflexivity.
Qed.

(** Placement equivalence for a whole prefix of core options -- boolean flags
    and value-taking options, spaced / "=" / glued: written before the first
    task, or -- in the very same spelling -- after any complete item of any
    call, the parse result is literally the same. *)
Corollary core_prefix_placement_equiv os calls1 t asn items1 items2 calls2 c :
  let inv := calls1 ++ mkCall t asn (items1 ++ items2) :: calls2 in
  simple_guard cs ic inv = true ->
  nth_error cs t = Some c ->
  forallb (copt_free cs c) os = true ->
  copts_ok cs (rc_args i0) os = true ->
  exists res,
    parser_parse cs (Some ic) false (flat_map spell_copt os ++ spell cs inv) = Ok res /\
    parser_parse cs (Some ic) false
      (spell cs calls1 ++ (asn :: flat_map (spell_item c) items1)
       ++ flat_map spell_copt os ++ flat_map (spell_item c) items2 ++ spell cs calls2)
      = Ok res /\
    map obs_of_ctx (tl (pr_ctxs res)) = expected cs inv.
Proof.
  intros inv G N Free Ok'.
  destruct (core_prefix_front os inv G Ok') as [r1 [P1 [C1 [O1 [U1 M1]]]]].
  destruct (core_prefix_placed os calls1 t asn items1 items2 calls2 c G N Free Ok')
    as [r2 [P2 [C2 [O2 [U2 M2]]]]].
  fold inv in C2.
  assert (r1 = r2) by (destruct r1, r2; cbn in *; congruence).
  subst r2. exists r1. auto.
Qed.

End PrefixPlacement.
