(** C09: help= texts, and the call with the produced keyword arguments.

    [help_texts]: for every signature with distinct dashed names and every
    help dictionary whose keys each name exactly one parameter (by its Python
    or its command-line spelling) and no parameter twice, [get_arguments]
    succeeds and every Argument carries the text given for its parameter.
    [help_unknown_refused]: a key naming no parameter is refused (ValueError).
    [spec_task_partial]: the whole judgement of Spec/C09Spec.v [spec_task]
    holds of the model on the guarded region. *)
From InvokeVerif Require Import Model.SigCtxModel Spec.C09Spec
     Proofs.C09_facts Proofs.C09_sig Proofs.C09_ctx Proofs.C09_wf Proofs.C09_main
     Proofs.C09_order Proofs.C09_bounded Proofs.C09_flagship.
From Coq Require Import Lia Permutation.

(** * hpop *)
Lemma hpop_none k h : hpop k h = None <-> ~ In k (map fst h).
Proof.
  induction h as [|[k' v] h IH]; cbn [hpop map fst In]; [tauto|].
  destruct (String.eqb k k') eqn:E.
  - apply String.eqb_eq in E. subst. split; [discriminate | intros H; exfalso; apply H; left; reflexivity].
  - apply String.eqb_neq in E. destruct (hpop k h) as [[t r]|].
    + split; [discriminate|]. intros H.
      assert (~ In k (map fst h)) as N by (intros X; apply H; right; exact X).
      apply IH in N. discriminate.
    + split; [|reflexivity]. intros _ [X|X]; [apply E; symmetry; exact X|].
      destruct IH as [IH1 _]. exact (IH1 eq_refl X).
Qed.

Lemma hpop_some k h t r : hpop k h = Some (t, r) ->
  exists l1 l2, h = l1 ++ (k, t) :: l2 /\ ~ In k (map fst l1) /\ r = l1 ++ l2.
Proof.
  revert t r. induction h as [|[k' v] h IH]; intros t r H; cbn [hpop] in H; [discriminate|].
  destruct (String.eqb k k') eqn:E.
  - apply String.eqb_eq in E. subst k'. injection H as <- <-. exists [], h. repeat split. intros [].
  - apply String.eqb_neq in E. destruct (hpop k h) as [[t' r']|] eqn:Hp; [|discriminate].
    injection H as <- <-. destruct (IH _ _ eq_refl) as [l1 [l2 [-> [N ->]]]].
    exists ((k', v) :: l1), l2. repeat split. intros [X|X]; [apply E; symmetry; exact X | exact (N X)].
Qed.

(** * keys and parameters *)
Definition model_dname (n : string) : string :=
  if contains_char us n then translate_underscores n else n.

Lemma model_dname_shown n : model_dname n = shown_name n.
Proof.
  unfold model_dname, shown_name. change us with "_"%char.
  destruct (contains_char "_" n); [symmetry; apply dashed_is_translate | reflexivity].
Qed.

Lemma key_names_dashed k p : key_names k p = true -> dashed k = dashed (p_name p).
Proof.
  unfold key_names. intros H. apply orb_true_iff in H. destruct H as [H|H]; apply String.eqb_eq in H; subst k.
  - reflexivity.
  - unfold shown_name. destruct (contains_char "_" (p_name p)); [|reflexivity].
    rewrite !dashed_is_translate. apply translate_idem.
Qed.

Lemma NoDup_map_inj {A B} (f : A -> B) l x y :
  NoDup (map f l) -> In x l -> In y l -> f x = f y -> x = y.
Proof.
  induction l as [|a l IH]; intros ND Hx Hy E; [destruct Hx|].
  cbn [map] in ND. inversion ND as [|? ? N1 N2]; subst.
  destruct Hx as [->|Hx], Hy as [->|Hy]; try reflexivity.
  - exfalso. apply N1. rewrite E. apply in_map; exact Hy.
  - exfalso. apply N1. rewrite <- E. apply in_map; exact Hx.
  - apply IH; assumption.
Qed.

Lemma find_filter {A} (f : A -> bool) l : find f l = hd_error (filter f l).
Proof. induction l as [|a l IH]; [reflexivity|]. cbn. destruct (f a); [reflexivity | exact IH]. Qed.

Lemma filter_nil_iff {A} (f : A -> bool) l : filter f l = [] <-> forall x, In x l -> f x = false.
Proof.
  induction l as [|a l IH]; cbn; [tauto|]. destruct (f a) eqn:E.
  - split; [discriminate|]. intros H. specialize (H a (or_introl eq_refl)). congruence.
  - rewrite IH. split; intros H x; [intros [<-|Hx]; auto | intros Hx; apply H; right; exact Hx].
Qed.

(** * the loop over the parameters *)
Section Loop.
  Variable all : list param.
  Hypothesis ND_names : NoDup (map p_name all).
  Hypothesis ND_dashed : NoDup (map (fun p => dashed (p_name p)) all).

  Lemma key_unique k p q : In p all -> In q all -> key_names k p = true -> key_names k q = true -> p = q.
  Proof.
    intros Hp Hq Kp Kq. apply (NoDup_map_inj (fun p => dashed (p_name p)) all p q ND_dashed Hp Hq).
    rewrite <- (key_names_dashed k p Kp), <- (key_names_dashed k q Kq). reflexivity.
  Qed.

  Definition keys_of (p : param) (h : list (string * string)) := filter (fun kv => key_names (fst kv) p) h.

  Lemma help_step_spec p h :
    In p all -> List.length (keys_of p h) <= 1 ->
    exists h', help_step p h = (expected_help h p, h') /\
               (forall kv, In kv h' -> In kv h /\ key_names (fst kv) p = false) /\
               (forall kv, In kv h -> key_names (fst kv) p = false -> In kv h') /\
               (forall q, List.length (keys_of q h') <= List.length (keys_of q h)).
  Proof.
    intros Hp Hlen. unfold help_step. fold (model_dname (p_name p)). rewrite model_dname_shown.
    unfold expected_help. rewrite find_filter. fold (keys_of p h).
    assert (forall k t l1 l2, h = l1 ++ (k, t) :: l2 -> key_names k p = true ->
              keys_of p h = [(k, t)] /\ keys_of p (l1 ++ l2) = []) as Hsplit.
    { intros k t l1 l2 -> Kk. unfold keys_of in *. rewrite filter_app in Hlen |- *. cbn [filter fst] in *.
      rewrite Kk in *. rewrite app_length in Hlen. cbn [List.length] in Hlen.
      destruct (filter (fun kv => key_names (fst kv) p) l1) as [|x xs] eqn:E1; [|cbn in Hlen; lia].
      destruct (filter (fun kv => key_names (fst kv) p) l2) as [|y ys] eqn:E2; [|cbn in Hlen; lia].
      rewrite filter_app, E1, E2. split; reflexivity. }
    assert (forall l1 l2 (x : string * string), forall q,
              List.length (keys_of q (l1 ++ l2)) <= List.length (keys_of q (l1 ++ x :: l2))) as Hmono.
    { intros l1 l2 x q. unfold keys_of. rewrite !filter_app, !app_length. cbn [filter].
      destruct (key_names (fst x) q); cbn [List.length]; lia. }
    destruct (hpop (shown_name (p_name p)) h) as [[t r]|] eqn:H1.
    - destruct (hpop_some _ _ _ _ H1) as [l1 [l2 [E [_ ->]]]].
      assert (key_names (shown_name (p_name p)) p = true) as Kk
        by (unfold key_names; rewrite String.eqb_refl; apply orb_true_r).
      destruct (Hsplit _ _ _ _ E Kk) as [F1 F2]. rewrite F1. cbn [hd_error snd].
      exists (l1 ++ l2). split; [reflexivity|]. subst h. repeat split.
      + apply in_app_or in H. apply in_or_app. destruct H; [left | right; right]; assumption.
      + apply (proj1 (filter_nil_iff _ _) F2). exact H.
      + intros kv Hin Hk. apply in_app_or in Hin. apply in_or_app.
        destruct Hin as [Hin|[<-|Hin]]; [left; exact Hin | cbn [fst] in Hk; congruence | right; exact Hin].
      + apply Hmono.
    - destruct (hpop (p_name p) h) as [[t r]|] eqn:H2.
      + destruct (hpop_some _ _ _ _ H2) as [l1 [l2 [E [_ ->]]]].
        assert (key_names (p_name p) p = true) as Kk by (unfold key_names; rewrite String.eqb_refl; reflexivity).
        destruct (Hsplit _ _ _ _ E Kk) as [F1 F2]. rewrite F1. cbn [hd_error snd].
        exists (l1 ++ l2). split; [reflexivity|]. subst h. repeat split.
        * apply in_app_or in H. apply in_or_app. destruct H; [left | right; right]; assumption.
        * apply (proj1 (filter_nil_iff _ _) F2). exact H.
        * intros kv Hin Hk. apply in_app_or in Hin. apply in_or_app.
          destruct Hin as [Hin|[<-|Hin]]; [left; exact Hin | cbn [fst] in Hk; congruence | right; exact Hin].
        * apply Hmono.
      + (* no key names p *)
        apply hpop_none in H1, H2.
        assert (keys_of p h = []) as F.
        { apply filter_nil_iff. intros kv Hin. destruct (key_names (fst kv) p) eqn:K; [|reflexivity].
          exfalso. unfold key_names in K. apply orb_true_iff in K.
          destruct K as [K|K]; apply String.eqb_eq in K; [apply H2 | apply H1]; rewrite <- K; apply in_map; exact Hin. }
        rewrite F. cbn [hd_error]. exists h. split; [reflexivity|]. repeat split; auto.
        apply (proj1 (filter_nil_iff _ _) F). exact H.
  Qed.

  Lemma expected_help_same h h' q :
    (forall kv, In kv h' -> In kv h) ->
    (forall kv, In kv h -> key_names (fst kv) q = true -> In kv h') ->
    List.length (keys_of q h) <= 1 ->
    expected_help h' q = expected_help h q.
  Proof.
    intros Hsub Hkeep Hlen. unfold expected_help. rewrite !find_filter. fold (keys_of q h) (keys_of q h').
    destruct (keys_of q h) as [|x [|y l]] eqn:E; [| |cbn in Hlen; lia].
    - assert (keys_of q h' = []) as ->; [|reflexivity].
      apply filter_nil_iff. intros kv Hin. apply (proj1 (filter_nil_iff _ _) E). apply Hsub; exact Hin.
    - assert (In x (keys_of q h)) as Hx by (rewrite E; left; reflexivity).
      apply filter_In in Hx. destruct Hx as [Hx Kx].
      assert (In x (keys_of q h')) as Hx' by (apply filter_In; split; [apply Hkeep; assumption | exact Kx]).
      destruct (keys_of q h') as [|x' l'] eqn:E'; [destruct Hx'|].
      assert (In x' (keys_of q h)) as Hx''.
      { assert (In x' (keys_of q h')) as H by (rewrite E'; left; reflexivity).
        apply filter_In in H. destruct H as [H K]. apply filter_In. split; [apply Hsub; exact H | exact K]. }
      rewrite E in Hx''. destruct Hx'' as [<-|[]]. reflexivity.
  Qed.

  Lemma build_help_spec : forall ps h,
    incl ps all -> NoDup (map p_name ps) ->
    (forall kv, In kv h -> exists p, In p ps /\ key_names (fst kv) p = true) ->
    (forall p, In p ps -> List.length (keys_of p h) <= 1) ->
    build_help ps h = (map (expected_help h) ps, []).
  Proof.
    induction ps as [|p ps IH]; intros h Hincl ND W1 W2.
    - cbn. destruct h as [|kv h]; [reflexivity|]. destruct (W1 kv (or_introl eq_refl)) as [p [[] _]].
    - cbn [build_help map].
      assert (In p all) as Hp by (apply Hincl; left; reflexivity).
      destruct (help_step_spec p h Hp (W2 p (or_introl eq_refl))) as [h' [-> [S1 [S2 S3]]]].
      cbn [map] in ND. inversion ND as [|? ? N1 N2]; subst.
      rewrite (IH h').
      + f_equal. f_equal. apply map_ext_in. intros q Hq.
        apply expected_help_same.
        * intros kv Hin. apply (S1 kv Hin).
        * intros kv Hin Kq. apply S2; [exact Hin|].
          destruct (key_names (fst kv) p) eqn:Kp; [|reflexivity]. exfalso.
          assert (p = q) as -> by (apply (key_unique (fst kv)); auto; apply Hincl; right; exact Hq).
          apply N1. apply in_map; exact Hq.
        * apply W2. right; exact Hq.
      + intros x Hx. apply Hincl. right; exact Hx.
      + exact N2.
      + intros kv Hin. destruct (S1 kv Hin) as [Hin0 Kp].
        destruct (W1 kv Hin0) as [q [[<-|Hq] Kq]]; [congruence|]. exists q. split; assumption.
      + intros q Hq. etransitivity; [apply S3|]. apply W2. right; exact Hq.
  Qed.

  (** a key that names no parameter is never consumed *)
  Lemma build_help_unknown : forall ps h kv,
    In kv h -> (forall p, In p ps -> key_names (fst kv) p = false) ->
    In kv (snd (build_help ps h)).
  Proof.
    induction ps as [|p ps IH]; intros h kv Hin Hno; [exact Hin|].
    cbn [build_help]. destruct (help_step p h) as [t h'] eqn:Hs.
    assert (In kv h') as Hin'.
    { unfold help_step in Hs.
      assert (forall k t0 r, hpop k h = Some (t0, r) -> key_names k p = true -> In kv r) as Hkeep.
      { intros k t0 r Hp Kk. destruct (hpop_some _ _ _ _ Hp) as [l1 [l2 [-> [_ ->]]]].
        apply in_app_or in Hin. apply in_or_app. destruct Hin as [Hin|[<-|Hin]]; [left; exact Hin | | right; exact Hin].
        cbn [fst] in Hno. rewrite (Hno p (or_introl eq_refl)) in Kk. discriminate. }
      fold (model_dname (p_name p)) in Hs. rewrite model_dname_shown in Hs.
      destruct (hpop (shown_name (p_name p)) h) as [[t0 r]|] eqn:H1.
      - injection Hs as <- <-. apply (Hkeep _ _ _ H1). unfold key_names. rewrite String.eqb_refl. apply orb_true_r.
      - destruct (hpop (p_name p) h) as [[t0 r]|] eqn:H2.
        + injection Hs as <- <-. apply (Hkeep _ _ _ H2). unfold key_names. rewrite String.eqb_refl. reflexivity.
        + injection Hs as <- <-. exact Hin. }
    destruct (build_help ps h') as [ts rest] eqn:Hb. cbn [snd].
    specialize (IH h' kv Hin' (fun q Hq => Hno q (or_intror Hq))). rewrite Hb in IH. exact IH.
  Qed.
End Loop.

(** * get_help *)
Lemma extract_h_perm nm l x r : extract_h nm l = Some (x, r) -> Permutation (x :: r) l.
Proof.
  revert x r. induction l as [|a l IH]; intros x r H; cbn [extract_h] in H; [discriminate|].
  destruct (String.eqb (arg_name (fst a)) nm).
  - injection H as <- <-. reflexivity.
  - destruct (extract_h nm l) as [[y r']|]; [|discriminate]. injection H as <- <-.
    rewrite perm_swap. apply perm_skip. apply IH. reflexivity.
Qed.

Lemma reorder_h_perm pos l : Permutation (reorder_h pos l) l.
Proof.
  unfold reorder_h. generalize (rev pos). intros ns. revert l.
  induction ns as [|n ns IH]; intros l; cbn [fold_left]; [reflexivity|].
  rewrite IH. destruct (extract_h n l) as [[x r]|] eqn:E; [apply (extract_h_perm _ _ _ _ E) | reflexivity].
Qed.

Lemma combine_build_args dc pos (f : param -> option string) : forall ps taken,
  map (fun ah : argspec * option string => (arg_name (fst ah), snd ah))
      (combine (build_args dc pos ps taken) (map f ps)) =
  map (fun p => (p_name p, f p)) ps.
Proof.
  induction ps as [|p ps IH]; intros taken; [reflexivity|].
  cbn [build_args map combine fst snd]. rewrite arg_name_arg_opts, IH. reflexivity.
Qed.

Lemma help_wf_parts s h : help_wf s h = true ->
  (forall kv, In kv h -> exists p, In p (s_params s) /\ key_names (fst kv) p = true) /\
  (forall p, In p (s_params s) -> List.length (keys_of p h) <= 1).
Proof.
  unfold help_wf. rewrite !andb_true_iff. intros [[_ H1] H2].
  rewrite forallb_forall in H1, H2. split.
  - intros kv Hin. specialize (H1 kv Hin). apply Nat.eqb_eq in H1.
    destruct (filter (key_names (fst kv)) (s_params s)) as [|p l] eqn:E; [discriminate|].
    assert (In p (filter (key_names (fst kv)) (s_params s))) as Hp by (rewrite E; left; reflexivity).
    apply filter_In in Hp. exists p. exact Hp.
  - intros p Hp. specialize (H2 p Hp). apply Nat.leb_le in H2. exact H2.
Qed.

(** every Argument carries the help text given for its parameter *)
Theorem help_texts s h :
  wf_sig s = true -> help_wf s h = true ->
  exists hs, get_help s h = Ok hs /\
    Permutation hs (map (fun p => (p_name p, expected_help h p)) (s_params s)) /\
    forall p, In p (s_params s) -> aget (p_name p) hs = Some (expected_help h p).
Proof.
  intros W HW. destruct (wf_sig_parts s W) as (N1 & _ & N2).
  destruct (help_wf_parts s h HW) as [W1 W2].
  pose proof (build_help_spec (s_params s) N2 (s_params s) h (incl_refl _) N1 W1 W2) as Hb.
  unfold get_help. rewrite Hb.
  eexists. split; [reflexivity|].
  assert (Permutation
            (map (fun ah : argspec * option string => (arg_name (fst ah), snd ah))
                 (reorder_h (fill_implicit_positionals s)
                    (combine (build_args (s_deco s) (fill_implicit_positionals s) (s_params s)
                                (map p_name (s_params s) ++
                                 map (fun p => translate_underscores (p_name p)) (s_params s)))
                             (map (expected_help h) (s_params s)))))
            (map (fun p => (p_name p, expected_help h p)) (s_params s))) as P.
  { rewrite <- (combine_build_args (s_deco s) (fill_implicit_positionals s) (expected_help h) (s_params s)
                 (map p_name (s_params s) ++ map (fun p => translate_underscores (p_name p)) (s_params s))).
    apply Permutation_map, reorder_h_perm. }
  split; [exact P|].
  intros p Hp. apply aget_nodup_in.
  - apply (Permutation_NoDup (Permutation_sym (Permutation_map fst P))).
    rewrite map_map. cbn [fst]. exact N1.
  - apply (Permutation_in _ (Permutation_sym P)).
    apply (in_map (fun p => (p_name p, expected_help h p))). exact Hp.
Qed.

(** a help key that names no parameter: ValueError *)
Theorem help_unknown_refused s h kv :
  In kv h -> (forall p, In p (s_params s) -> key_names (fst kv) p = false) ->
  get_help s h = Err EValue.
Proof.
  intros Hin Hno. unfold get_help.
  pose proof (build_help_unknown (s_params s) h kv Hin Hno) as H.
  destruct (build_help (s_params s) h) as [ts rest]. cbn [snd] in H.
  destruct rest; [destruct H | reflexivity].
Qed.

(** * the whole judgement on the guarded region *)
Definition no_self (s : tsig) : bool := negb (mem "self" (map p_name (s_params s))).

Theorem spec_task_partial s h :
  full_guard s = true -> help_wf s h = true -> no_self s = true ->
  exists o hs, sig_cli s = Ok o /\ get_help s h = Ok hs /\
    spec_task s h (Ok o) hs (o_binds o && call_ok [] (o_kwargs o)) = true.
Proof.
  intros G HW NS. pose proof (spec_partial s G) as SP.
  unfold full_guard in G. apply andb_true_iff in G. destruct G as [G _].
  destruct (guard_parts s G) as (W & _ & _).
  destruct (help_texts s h W HW) as [hs [Hh [_ Hget]]].
  pose proof (sig_cli_guard s W) as Ho. rewrite Ho in SP.
  exists (cliT s), hs. split; [exact Ho|]. split; [exact Hh|].
  assert (dashed_clash s = false) as Hc.
  { unfold wf_sig in W. rewrite !andb_true_iff in W. destruct W as [_ W]. apply negb_true_iff in W. exact W. }
  unfold spec_task, help_ok. rewrite Hc, HW. cbn [negb andb]. rewrite SP. cbn [andb].
  apply andb_true_iff. split.
  - apply forallb_forall. intros p Hp. rewrite (Hget p Hp).
    destruct (expected_help h p); cbn; [apply String.eqb_refl | reflexivity].
  - unfold cliT. cbn [o_binds o_kwargs andb]. unfold call_ok. cbn [forallb]. rewrite andb_true_r.
    rewrite map_map. cbn [fst].
    unfold no_self in NS. apply negb_true_iff in NS. apply negb_true_iff.
    apply mem_false_notin. apply mem_false_notin in NS. intros X. apply NS.
    apply (Permutation_in _ (one_arg_per_param s)). exact X.
Qed.

(** * the call: refutations *)
(** F-C09e: a parameter named [self] *)
Definition sig_self : tsig := mkSig [mkParam "self" (DStr "x")] (mkDeco None [] [] [] true).

Lemma self_param_refutes :
  full_guard sig_self = true /\
  exists o, sig_cli sig_self = Ok o /\ o_binds o = true /\ spec_ok sig_self (Ok o) = true /\
            call_ok [] (o_kwargs o) = false /\
            spec_task sig_self [] (Ok o) [("self", None)] (o_binds o && call_ok [] (o_kwargs o)) = false.
Proof. split; [vm_compute; reflexivity|]. eexists. split; [vm_compute; reflexivity|]. repeat split. Qed.

(** F-C09f: positional-only parameters, [def t(c, a, /, b=1)] *)
Definition sig_posonly : tsig :=
  mkSig [mkParam "a" DEmpty; mkParam "b" (DInt 1)] (mkDeco None [] [] [] true).

Lemma posonly_refutes :
  full_guard sig_posonly = true /\
  exists o, sig_cli sig_posonly = Ok o /\
            map fst (o_kwargs o) = ["a"; "b"] /\
            bind_kinds (s_params sig_posonly) [PPosOnly; PPlain] (o_kwargs o) = false /\
            call_ok [PPosOnly; PPlain] (o_kwargs o) = false.
Proof. split; [vm_compute; reflexivity|]. eexists. split; [vm_compute; reflexivity|]. repeat split. Qed.

(** F-C09g: [def t(c, *args)] and [def t(c, **kwargs)] *)
Definition sig_varargs : tsig := mkSig [mkParam "args" DEmpty] (mkDeco None [] [] [] true).
Definition sig_varkw : tsig := mkSig [mkParam "kwargs" DEmpty] (mkDeco None [] [] [] true).

Lemma varargs_refutes :
  full_guard sig_varargs = true /\ full_guard sig_varkw = true /\
  (exists o, sig_cli sig_varargs = Ok o /\ o_positional o = ["args"] /\
             bind_kinds (s_params sig_varargs) [PVarPos] (o_kwargs o) = false /\
             call_ok [PVarPos] (o_kwargs o) = false) /\
  (exists o, sig_cli sig_varkw = Ok o /\ o_kwargs o = [("kwargs", ANone)] /\
             bind_kinds (s_params sig_varkw) [PVarKw] (o_kwargs o) = true /\
             call_ok [PVarKw] (o_kwargs o) = false).
Proof.
  split; [vm_compute; reflexivity|]. split; [vm_compute; reflexivity|].
  split; eexists; (split; [vm_compute; reflexivity|]); repeat split.
Qed.
