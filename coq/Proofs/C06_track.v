(** C06: the modifications level and the deletions mask represent the journal of
    successful edits: for EVERY base (whatever the lower levels are reloaded
    to), "merge the modifications onto the base, then mask the deletions" shows
    the same thing as "replay the journal over the base". *)
From InvokeVerif Require Import Common.Tree Common.StrUtil Model.MergeModel Model.ConfigModel
     Spec.C03Spec Spec.C06Spec Proofs.ListFacts Proofs.TreeFacts Proofs.C03_merge Proofs.C03_levels
     Proofs.C06_shapes.

(** * Conformance to a schema (type consistency of everything with everything) *)
Definition same_kind (a b : shape) : Prop :=
  match a, b with
  | SLeaf _, SLeaf _ => True
  | SNode, SNode => True
  | _, _ => False
  end.

Definition conforms (S t : tree) : Prop :=
  forall q s, shape_at q t = Some s -> exists s', shape_at q S = Some s' /\ same_kind s s'.

Lemma conforms_agree S a b : conforms S a -> conforms S b -> agree a b.
Proof.
  intros Ha Hb q. destruct (shape_at q a) as [sa|] eqn:Ea; [|exact I].
  destruct (shape_at q b) as [sb|] eqn:Eb; [|destruct sa; exact I].
  destruct (Ha q sa Ea) as [s1 [E1 K1]]. destruct (Hb q sb Eb) as [s2 [E2 K2]].
  rewrite E1 in E2. inversion E2; subst s2.
  destruct sa, sb, s1; simpl in *; try contradiction; exact I.
Qed.

Lemma shape_prefix_node : forall q r t s, shape_at (q ++ r) t = Some s -> r <> [] ->
  shape_at q t = Some SNode.
Proof.
  induction q as [|k q IH]; intros r t s H Hr.
  - simpl in H. destruct t as [v|kids]; [|reflexivity].
    destruct r; [congruence | discriminate].
  - destruct t as [v|kids]; [discriminate|].
    simpl app in H. rewrite shape_at_cons_Node in *.
    destruct (get k kids) as [c|]; [|discriminate]. eapply IH; eassumption.
Qed.

Lemma shape_below_leaf : forall q r t v, shape_at q t = Some (SLeaf v) -> r <> [] ->
  shape_at (q ++ r) t = None.
Proof.
  intros q r t v H Hr. destruct (shape_at (q ++ r) t) as [s|] eqn:E; [|reflexivity].
  rewrite (shape_prefix_node q r t s E Hr) in H. discriminate.
Qed.

(** In a conforming tree the proper prefixes of a schema leaf path hold sections
    or nothing, the path itself a leaf or nothing, and nothing lies below. *)
Lemma conforms_prefix S t q r y : conforms S t -> shape_at (q ++ r) S = Some (SLeaf y) -> r <> [] ->
  shape_at q t = Some SNode \/ shape_at q t = None.
Proof.
  intros Hc HS Hr. destruct (shape_at q t) as [s|] eqn:E; [|right; reflexivity].
  destruct (Hc q s E) as [s' [E' K]]. rewrite (shape_prefix_node q r S _ HS Hr) in E'.
  inversion E'; subst s'. destruct s; [contradiction | left; reflexivity].
Qed.

Lemma conforms_leaf S t p y : conforms S t -> shape_at p S = Some (SLeaf y) ->
  (exists x, shape_at p t = Some (SLeaf x)) \/ shape_at p t = None.
Proof.
  intros Hc HS. destruct (shape_at p t) as [s|] eqn:E; [|right; reflexivity].
  destruct (Hc p s E) as [s' [E' K]]. rewrite HS in E'. inversion E'; subst s'.
  destruct s; [left; eexists; reflexivity | contradiction].
Qed.

Lemma conforms_below S t p r y : conforms S t -> shape_at p S = Some (SLeaf y) -> r <> [] ->
  shape_at (p ++ r) t = None.
Proof.
  intros Hc HS Hr. destruct (conforms_leaf S t p y Hc HS) as [[x E]|E].
  - eapply shape_below_leaf; eassumption.
  - destruct (shape_at (p ++ r) t) as [s|] eqn:E2; [|reflexivity].
    rewrite (shape_prefix_node p r t s E2 Hr) in E. discriminate.
Qed.

(** * The view as a function of base, modifications and deletions *)
Lemma view_shape S X M D :
  wf (Node X) = true -> wf (Node M) = true -> wf (Node D) = true ->
  conforms S (Node X) -> conforms S (Node M) ->
  exists m, merge_dicts X (Node M) = Ok m /\ wf (Node m) = true /\
    wf (Node (obliterate m (Node D))) = true /\
    forall q, shape_at q (Node (obliterate m (Node D))) =
              if masked D q then None else orelse (shape_at q (Node M)) (shape_at q (Node X)).
Proof.
  intros HX HM HD CX CM.
  destruct (merge_lookup X M HX HM (conforms_agree S _ _ CX CM)) as [m [Em [Wm Sm]]].
  exists m. split; [assumption|]. split; [assumption|].
  destruct (obliterate_shape_dict D m HD Wm) as [Wo So]. split; [assumption|].
  intros q. rewrite So, Sm. reflexivity.
Qed.

(** * Journal well-formedness, replay keeps wf *)
Definition event_wf (e : event) : Prop :=
  match e with JSet p v => p <> [] /\ wf v = true | JDel p => p <> [] end.

Lemma wf_apply_event d e : wf (Node d) = true -> event_wf e -> wf (Node (apply_event d e)) = true.
Proof.
  destruct e as [p v|p]; simpl; intros Hd He.
  - apply wf_set_path; tauto.
  - apply wf_del_path; assumption.
Qed.

Lemma wf_replay X J : wf (Node X) = true -> Forall event_wf J -> wf (Node (replay (Node X) J)) = true.
Proof.
  unfold replay. revert X. induction J as [|e J IH]; intros X HX HJ; [exact HX|].
  inversion HJ; subst. simpl. apply IH; [apply wf_apply_event; assumption | assumption].
Qed.

Lemma replay_snoc X J e : replay (Node X) (J ++ [e]) = apply_event (replay (Node X) J) e.
Proof. unfold replay. rewrite fold_left_app. reflexivity. Qed.

(** * The representation invariant *)
Record inv (S : tree) (M D : dict) (J : list event) : Prop := mkInv {
  inv_wfM : wf (Node M) = true;
  inv_confM : conforms S (Node M);
  inv_wfD : wf (Node D) = true;
  inv_wfJ : Forall event_wf J;
  inv_rep : forall X, wf (Node X) = true -> conforms S (Node X) ->
            forall q, shape_at q (Node (replay (Node X) J)) =
                      if masked D q then None else orelse (shape_at q (Node M)) (shape_at q (Node X))
}.

Lemma conforms_empty S : is_node S = true -> conforms S (Node []).
Proof.
  intros HS q s H. destruct q; [|rewrite shape_at_empty in H by congruence; discriminate].
  inversion H; subst. exists SNode. split; [|exact I]. destruct S; [discriminate | reflexivity].
Qed.

Lemma masked_nil q : masked [] q = false.
Proof. destruct q; reflexivity. Qed.

Lemma inv_init S : is_node S = true -> inv S [] [] [].
Proof.
  intros HS. constructor; try reflexivity.
  - apply conforms_empty; assumption.
  - constructor.
  - intros X HX CX q. rewrite masked_nil. unfold replay; simpl.
    destruct q as [|k q]; [reflexivity|]. rewrite (shape_at_empty (k :: q)) by congruence. reflexivity.
Qed.

(** * "No proper prefix of the target path is marked deleted" *)
Definition clear_above (D : dict) (p : path) : Prop :=
  forall q r, p = q ++ r -> r <> [] -> masked D q = false.

Lemma clear_above_tail D k kids p :
  get k D = Some (Node kids) -> clear_above D (k :: p) -> clear_above kids p.
Proof.
  intros G H q r E Hr. specialize (H (k :: q) r). simpl in H. rewrite G in H.
  apply H; [rewrite E; reflexivity | assumption].
Qed.

Lemma clear_above_head D k p : p <> [] -> clear_above D (k :: p) ->
  match get k D with Some (Leaf _) => False | _ => True end.
Proof.
  intros Hp H. specialize (H [k] p eq_refl Hp). simpl in H.
  destruct (get k D) as [[x|dk]|]; [discriminate | exact I | exact I].
Qed.

(** ** masked after un-deleting (excise) and after marking (del_mark) *)
Lemma masked_del_path : forall p D q, p <> [] -> wf (Node D) = true -> clear_above D p ->
  masked (del_path D p) q = if is_prefix p q then false else masked D q.
Proof.
  induction p as [|k p IH]; intros D q Hp HD Hc; [congruence|].
  destruct q as [|k' q]; [reflexivity|].
  simpl is_prefix. destruct p as [|k2 p'].
  - cbn [del_path masked]. rewrite get_remove by (apply wf_NoDup; assumption).
    rewrite String.eqb_sym. destruct (String.eqb k k'); reflexivity.
  - pose proof (clear_above_head D k (k2 :: p') ltac:(congruence) Hc) as Hh.
    cbn [del_path]. destruct (String.eqb k k') eqn:E.
    + apply String.eqb_eq in E; subst k'. simpl andb.
      destruct (get k D) as [[x|kids]|] eqn:G; [contradiction| |].
      * cbn [masked]. rewrite get_set_same, G.
        apply IH; [congruence | eapply wf_get; eassumption | eapply clear_above_tail; eassumption].
      * cbn [masked]. rewrite G.
        match goal with |- _ = if ?b then _ else _ => destruct b end; reflexivity.
    + simpl andb. assert (Hne : k' <> k) by (intros ->; rewrite String.eqb_refl in E; discriminate).
      destruct (get k D) as [[x|kids]|] eqn:G; try reflexivity.
      cbn [masked]. rewrite get_set_other by assumption. reflexivity.
Qed.

Definition mark := Leaf VNone.

Lemma masked_set_mark : forall p D q, p <> [] -> clear_above D p ->
  masked (set_path D p mark) q = is_prefix p q || masked D q.
Proof.
  induction p as [|k p IH]; intros D q Hp Hc; [congruence|].
  destruct q as [|k' q].
  - simpl. reflexivity.
  - simpl is_prefix. destruct p as [|k2 p'].
    + cbn [set_path masked]. rewrite get_set. rewrite String.eqb_sym.
      destruct (String.eqb k k'); reflexivity.
    + pose proof (clear_above_head D k (k2 :: p') ltac:(congruence) Hc) as Hh.
      rewrite set_path_cons by congruence. cbn [masked]. rewrite get_set, String.eqb_sym.
      destruct (String.eqb k k') eqn:E; [|reflexivity].
      apply String.eqb_eq in E; subst k'. simpl andb.
      destruct (get k D) as [[x|kids]|] eqn:G; [contradiction| |].
      * apply IH; [congruence | eapply clear_above_tail; eassumption].
      * rewrite IH; [rewrite masked_nil; reflexivity | congruence |].
        intros q0 r0 _ _. apply masked_nil.
Qed.

(** [_remove]'s walk is [set_path ... mark] when nothing above is marked. *)
Lemma del_mark_set_path : forall kp D k, clear_above D (kp ++ [k]) ->
  del_mark D kp k = Some (set_path D (kp ++ [k]) mark).
Proof.
  induction kp as [|s kp IH]; intros D k Hc; [reflexivity|].
  assert (Hne : kp ++ [k] <> []) by (destruct kp; discriminate).
  pose proof (clear_above_head D s (kp ++ [k]) Hne Hc) as Hh.
  simpl app. rewrite set_path_cons by exact Hne. cbn [del_mark].
  destruct (get s D) as [[x|kids]|] eqn:G; [contradiction| |].
  - rewrite IH; [reflexivity | eapply clear_above_tail; eassumption].
  - rewrite IH; [reflexivity|]. intros q0 r0 _ _. apply masked_nil.
Qed.

(** [_modify]'s walk is [set_path] when no leaf is in the way. *)
Lemma mod_set_set_path : forall kp M k v,
  (forall q r, kp = q ++ r -> q <> [] -> forall x, shape_at q (Node M) <> Some (SLeaf x)) ->
  mod_set M kp k v = set_path M (kp ++ [k]) v.
Proof.
  induction kp as [|s kp IH]; intros M k v H; [reflexivity|].
  assert (Hne : kp ++ [k] <> []) by (destruct kp; discriminate).
  simpl app. rewrite set_path_cons by exact Hne. cbn [mod_set].
  destruct (get s M) as [[x|kids]|] eqn:G.
  - exfalso. apply (H [s] kp eq_refl ltac:(congruence) x).
    rewrite shape_at_cons_Node, G. reflexivity.
  - rewrite IH; [reflexivity|]. intros q r E Hq x Hs.
    apply (H (s :: q) r ltac:(rewrite E; reflexivity) ltac:(congruence) x).
    rewrite shape_at_cons_Node, G. exact Hs.
  - rewrite IH; [reflexivity|]. intros q r E Hq x Hs.
    rewrite shape_at_empty in Hs by assumption. discriminate.
Qed.

(** * Trichotomy of paths *)
Lemma path_cases p q :
  (exists r, q = p ++ r) \/ (exists r, r <> [] /\ p = q ++ r) \/
  (is_prefix p q = false /\ is_prefix q p = false).
Proof.
  destruct (is_prefix p q) eqn:E1.
  - left. apply is_prefix_iff. exact E1.
  - destruct (is_prefix q p) eqn:E2.
    + right; left. apply is_prefix_iff in E2 as [r E]. exists r. split; [|exact E].
      intros ->. rewrite app_nil_r in E. subst. rewrite is_prefix_refl in E1. discriminate.
    + right; right. split; reflexivity.
Qed.

(** * A leaf written at a schema leaf path *)
Lemma inv_write S M D J kp k x y :
  inv S M D J -> shape_at (kp ++ [k]) S = Some (SLeaf y) -> clear_above D (kp ++ [k]) ->
  inv S (mod_set M kp k (Leaf x)) (excise D (kp ++ [k])) (J ++ [JSet (kp ++ [k]) (Leaf x)]).
Proof.
  intros [WM CM WD WJ Rep] HS Hc.
  set (p := kp ++ [k]) in *.
  assert (Hp : p <> []) by (unfold p; destruct kp; discriminate).
  assert (EM : mod_set M kp k (Leaf x) = set_path M p (Leaf x)).
  { apply mod_set_set_path. intros q r E Hq x0 Hs.
    destruct (conforms_prefix S (Node M) q (r ++ [k]) y CM) as [H|H].
    - unfold p in HS. rewrite E, <- app_assoc in HS. exact HS.
    - destruct r; discriminate.
    - congruence.
    - congruence. }
  rewrite EM, excise_is_del_path.
  constructor.
  - apply wf_set_path; [assumption | reflexivity].
  - (* conformance of the new modifications *)
    intros q s Hq. destruct (path_cases p q) as [[r ->]|[[r [Hr E]]|[N1 N2]]].
    + rewrite set_path_at in Hq by assumption. destruct r; [|discriminate].
      inversion Hq; subst. rewrite app_nil_r. exists (SLeaf y). split; [assumption | exact I].
    + rewrite E, set_path_prefix in Hq by assumption. inversion Hq; subst.
      exists SNode. split; [|exact I]. rewrite E in HS. eapply shape_prefix_node; eassumption.
    + rewrite set_path_other in Hq by assumption. apply CM. exact Hq.
  - apply wf_del_path. assumption.
  - apply Forall_app. split; [assumption|]. constructor; [|constructor]. split; [assumption | reflexivity].
  - intros X HX CX q. rewrite replay_snoc. cbn [apply_event].
    rewrite (masked_del_path p D q Hp WD Hc).
    pose proof (Rep X HX CX) as RepX.
    destruct (path_cases p q) as [[r ->]|[[r [Hr E]]|[N1 N2]]].
    + rewrite is_prefix_app, !set_path_at by assumption.
      destruct r as [|a r]; [reflexivity|].
      simpl. rewrite (conforms_below S (Node X) p (a :: r) y CX HS) by discriminate. reflexivity.
    + assert (Hpq : is_prefix p q = false).
      { destruct (is_prefix p q) eqn:Epq; [|reflexivity]. apply is_prefix_iff in Epq as [r2 E2].
        rewrite E2, <- app_assoc in E. apply (f_equal (@List.length string)) in E.
        rewrite !app_length in E. destruct r; [congruence|]. simpl in E. lia. }
      rewrite Hpq, E, !set_path_prefix by assumption.
      rewrite (Hc q r E Hr). reflexivity.
    + rewrite N1, !set_path_other by assumption. apply RepX.
Qed.

(** * A deletion *)
Lemma inv_delete S M D J p :
  inv S M D J -> p <> [] -> clear_above D p ->
  inv S M (set_path D p mark) (J ++ [JDel p]).
Proof.
  intros [WM CM WD WJ Rep] Hp Hc. constructor; try assumption.
  - apply wf_set_path; [assumption | reflexivity].
  - apply Forall_app. split; [assumption|]. constructor; [exact Hp | constructor].
  - intros X HX CX q. rewrite replay_snoc. cbn [apply_event].
    rewrite del_path_shape by (try assumption; apply wf_replay; assumption).
    rewrite masked_set_mark by assumption. rewrite (Rep X HX CX).
    destruct (is_prefix p q); reflexivity.
Qed.
