(** Facts about [merge_dicts] / [copy_dict] used by C17 (and C19):
    one-level characterisation of the merge loop, pointwise characterisation
    of settings after a merge, success under type consistency, preservation
    of type consistency and of well-formedness, [copy_dict] is the identity on
    well-formed dicts. *)
From InvokeVerif Require Import Model.MergeModel Spec.C17Spec.

(** ** small facts *)
Lemma wf_Node_split kids :
  wf (Node kids) = true -> NoDup (keys kids) /\ Forall (fun kt => wf (snd kt) = true) kids.
Proof.
  rewrite wf_Node, andb_true_iff. intros [H1 H2]. split.
  - apply nodupb_NoDup; exact H1.
  - unfold wf_kids in H2. rewrite forallb_forall in H2. apply Forall_forall; exact H2.
Qed.

Lemma wf_Node_join kids :
  NoDup (keys kids) -> Forall (fun kt => wf (snd kt) = true) kids -> wf (Node kids) = true.
Proof.
  intros H1 H2. rewrite wf_Node, andb_true_iff. split.
  - apply nodupb_NoDup; exact H1.
  - unfold wf_kids. rewrite forallb_forall. apply Forall_forall; exact H2.
Qed.

Lemma get_In k d (t : tree) : get k d = Some t -> In (k, t) d.
Proof.
  induction d as [|[k' t'] d IH]; simpl; [discriminate|].
  destruct (String.eqb k k') eqn:E; intros H.
  - apply String.eqb_eq in E; subst. inversion H; subst. left; reflexivity.
  - right; auto.
Qed.

Lemma In_get_nodup k (t : tree) d : NoDup (keys d) -> In (k, t) d -> get k d = Some t.
Proof.
  induction d as [|[k' t'] d IH]; simpl; intros ND HIn; [contradiction|].
  inversion ND as [|? ? Hn ND']; subst.
  destruct HIn as [HIn|HIn].
  - inversion HIn; subst. rewrite String.eqb_refl; reflexivity.
  - destruct (String.eqb k k') eqn:E.
    + apply String.eqb_eq in E; subst. exfalso; apply Hn.
      change (In (fst (k', t)) (map fst d)). apply in_map; exact HIn.
    + apply IH; assumption.
Qed.

Lemma leaf_at_nil t : leaf_at [] t = match t with Leaf v => Some v | Node _ => None end.
Proof. destruct t; reflexivity. Qed.

Lemma leaf_at_cons k p kids :
  leaf_at (k :: p) (Node kids) = match get k kids with Some c => leaf_at p c | None => None end.
Proof. unfold leaf_at; simpl. destruct (get k kids); reflexivity. Qed.

Lemma leaf_at_cons_leaf k p v : leaf_at (k :: p) (Leaf v) = None.
Proof. reflexivity. Qed.

Lemma leaf_at_empty p : leaf_at p (Node []) = None.
Proof. destruct p; reflexivity. Qed.

Definition orelse {A} (a b : option A) : option A := match a with Some x => Some x | None => b end.

(** ** the value a merge step stores under a key *)
Definition step_val (bv : option tree) (v : tree) : result tree :=
  match bv with
  | Some (Node bk) =>
      match v with
      | Node _ => match merge_dicts bk v with Ok m => Ok (Node m) | Err e => Err e end
      | Leaf _ => Err EAmbigMerge
      end
  | Some (Leaf _) =>
      match v with
      | Node _ => Err EAmbigMerge
      | Leaf x => Ok (Leaf x)
      end
  | None =>
      match v with
      | Node _ => match merge_dicts [] v with Ok m => Ok (Node m) | Err e => Err e end
      | Leaf x => Ok (Leaf x)
      end
  end.

Lemma merge_step_val base k v :
  merge_step base k v =
  match step_val (get k base) v with Ok t => Ok (set k t base) | Err e => Err e end.
Proof.
  unfold merge_step, step_val.
  destruct (get k base) as [[y|bk]|]; destruct v as [x|vk]; try reflexivity.
  - destruct (merge_dicts bk (Node vk)); reflexivity.
  - destruct (merge_dicts [] (Node vk)); reflexivity.
Qed.

Lemma merge_list_get us : forall base m,
  NoDup (keys us) -> merge_list us base = Ok m ->
  forall k,
    match get k us with
    | Some v => exists t, step_val (get k base) v = Ok t /\ get k m = Some t
    | None => get k m = get k base
    end.
Proof.
  induction us as [|[k0 v0] rest IH]; intros base m ND Hm k.
  - simpl in *. inversion Hm; subst; reflexivity.
  - cbn [merge_list] in Hm. rewrite merge_step_val in Hm.
    destruct (step_val (get k0 base) v0) as [t0|e] eqn:Es; [|discriminate].
    simpl in ND. inversion ND as [|? ? Hn ND']; subst.
    specialize (IH _ _ ND' Hm k).
    cbn [get]. destruct (String.eqb k k0) eqn:E.
    + apply String.eqb_eq in E; subst k0.
      assert (get k rest = None) as Hr by (apply get_none_not_in; exact Hn).
      rewrite Hr in IH. exists t0. split; [exact Es|].
      rewrite IH. apply get_set_same.
    + apply String.eqb_neq in E.
      destruct (get k rest) as [v|].
      * destruct IH as [t [H1 H2]]. exists t. split; [|exact H2].
        rewrite get_set_other in H1 by exact E. exact H1.
      * rewrite IH. apply get_set_other; exact E.
Qed.

Lemma merge_list_ok us : forall base,
  NoDup (keys us) ->
  (forall k v, In (k, v) us -> exists t, step_val (get k base) v = Ok t) ->
  exists m, merge_list us base = Ok m.
Proof.
  induction us as [|[k0 v0] rest IH]; intros base ND H.
  - exists base; reflexivity.
  - cbn [merge_list]. rewrite merge_step_val.
    destruct (H k0 v0 (or_introl eq_refl)) as [t0 Ht0]. rewrite Ht0.
    simpl in ND. inversion ND as [|? ? Hn ND']; subst.
    apply IH; [exact ND'|].
    intros k v HIn. rewrite get_set_other.
    + apply H; right; exact HIn.
    + intros ->. apply Hn. change (In (fst (k0, v)) (map fst rest)). apply in_map; exact HIn.
Qed.

(** ** settings after a merge: updates win, everything else is kept *)
Lemma merge_leaf_at : forall u, wf u = true ->
  forall us, u = Node us ->
  forall base m, merge_dicts base u = Ok m ->
  forall p, leaf_at p (Node m) = orelse (leaf_at p u) (leaf_at p (Node base)).
Proof.
  induction u as [v | kids IH] using tree_ind'; intros Hwf us Hu base m Hm p; [discriminate|].
  inversion Hu; subst us. clear Hu.
  rewrite merge_dicts_Node in Hm.
  destruct (wf_Node_split _ Hwf) as [ND Hkids].
  destruct p as [|k p]; [reflexivity|].
  rewrite !leaf_at_cons.
  pose proof (merge_list_get _ _ _ ND Hm k) as G.
  destruct (get k kids) as [v|] eqn:Ek.
  - destruct G as [t [Hs Hg]]. rewrite Hg.
    apply get_In in Ek.
    rewrite Forall_forall in IH, Hkids.
    specialize (IH _ Ek). specialize (Hkids _ Ek). simpl in IH, Hkids.
    unfold step_val in Hs.
    destruct (get k base) as [[y|bk]|]; destruct v as [x|vk]; try discriminate.
    + inversion Hs; subst. destruct p; reflexivity.
    + destruct (merge_dicts bk (Node vk)) as [m'|] eqn:Em; [|discriminate].
      inversion Hs; subst. apply (IH Hkids vk eq_refl bk m' Em p).
    + inversion Hs; subst. destruct p; reflexivity.
    + destruct (merge_dicts [] (Node vk)) as [m'|] eqn:Em; [|discriminate].
      inversion Hs; subst. rewrite (IH Hkids vk eq_refl [] m' Em p).
      rewrite leaf_at_empty. destruct (leaf_at p (Node vk)); reflexivity.
  - rewrite G. reflexivity.
Qed.

(** ** type consistency *)
Lemma compatible_Node ka kb :
  compatible (Node ka) (Node kb) =
  forallb (fun kc => match get (fst kc) kb with
                     | Some cb => compatible (snd kc) cb
                     | None => true end) ka.
Proof.
  simpl. induction ka as [|[k c] ka IH]; simpl; [reflexivity|]. rewrite IH; reflexivity.
Qed.

Lemma compatible_Node_nil ka : compatible (Node ka) (Node []) = true.
Proof. rewrite compatible_Node. apply forallb_forall. intros [k c] _; reflexivity. Qed.

Lemma compatible_get ka kb k ca cb :
  compatible (Node ka) (Node kb) = true -> In (k, ca) ka -> get k kb = Some cb ->
  compatible ca cb = true.
Proof.
  rewrite compatible_Node, forallb_forall. intros H HIn Hg.
  specialize (H _ HIn). simpl in H. rewrite Hg in H. exact H.
Qed.

(** merging type-consistent dicts never fails *)
Lemma merge_ok : forall u, wf u = true ->
  forall us, u = Node us ->
  forall base, compatible u (Node base) = true -> exists m, merge_dicts base u = Ok m.
Proof.
  induction u as [v | kids IH] using tree_ind'; intros Hwf us Hu base Hc; [discriminate|].
  inversion Hu; subst us; clear Hu.
  rewrite merge_dicts_Node.
  destruct (wf_Node_split _ Hwf) as [ND Hkids].
  apply merge_list_ok; [exact ND|].
  intros k v HIn.
  rewrite Forall_forall in IH, Hkids.
  specialize (IH _ HIn). specialize (Hkids _ HIn). simpl in IH, Hkids.
  unfold step_val.
  destruct (get k base) as [cb|] eqn:Eb.
  - pose proof (compatible_get _ _ _ _ _ Hc HIn Eb) as Hcv.
    destruct cb as [y|bk]; destruct v as [x|vk]; try discriminate; try (eexists; reflexivity).
    destruct (IH Hkids vk eq_refl bk Hcv) as [m' Hm']. rewrite Hm'. eexists; reflexivity.
  - destruct v as [x|vk]; [eexists; reflexivity|].
    destruct (IH Hkids vk eq_refl [] (compatible_Node_nil vk)) as [m' Hm']. rewrite Hm'.
    eexists; reflexivity.
Qed.

(** what is consistent with both operands is consistent with the merge *)
Lemma merge_compatible : forall x u base m,
  wf u = true -> (exists us, u = Node us) ->
  compatible x u = true -> compatible x (Node base) = true ->
  merge_dicts base u = Ok m -> compatible x (Node m) = true.
Proof.
  induction x as [xv | xs IH] using tree_ind'; intros u base m Hwf [us Hu] Hxu Hxb Hm.
  - subst u. discriminate.
  - subst u. rewrite merge_dicts_Node in Hm.
    destruct (wf_Node_split _ Hwf) as [ND Hkids].
    rewrite compatible_Node. apply forallb_forall. intros [k cx] HIn. simpl.
    pose proof (merge_list_get _ _ _ ND Hm k) as G.
    rewrite Forall_forall in IH. specialize (IH _ HIn). simpl in IH.
    destruct (get k us) as [v|] eqn:Ek.
    + destruct G as [t [Hs Hg]]. rewrite Hg.
      pose proof (compatible_get _ _ _ _ _ Hxu HIn Ek) as Hcv.
      apply get_In in Ek. rewrite Forall_forall in Hkids. specialize (Hkids _ Ek). simpl in Hkids.
      unfold step_val in Hs.
      destruct (get k base) as [[y|bk]|] eqn:Eb; destruct v as [x|vk]; try discriminate.
      * inversion Hs; subst. exact Hcv.
      * destruct (merge_dicts bk (Node vk)) as [m'|] eqn:Em; [|discriminate].
        inversion Hs; subst.
        pose proof (compatible_get _ _ _ _ _ Hxb HIn Eb) as Hcb.
        apply (IH (Node vk) bk m' Hkids (ex_intro _ vk eq_refl) Hcv Hcb Em).
      * inversion Hs; subst. exact Hcv.
      * destruct (merge_dicts [] (Node vk)) as [m'|] eqn:Em; [|discriminate].
        inversion Hs; subst.
        destruct cx as [cv|cxs]; [discriminate|].
        apply (IH (Node vk) [] m' Hkids (ex_intro _ vk eq_refl) Hcv (compatible_Node_nil cxs) Em).
    + rewrite G. destruct (get k base) as [cb|] eqn:Eb; [|reflexivity].
      apply (compatible_get _ _ _ _ _ Hxb HIn Eb).
Qed.

(** ** well-formedness is preserved *)
Lemma wf_kids_set k t d : wf_kids d = true -> wf t = true -> wf_kids (set k t d) = true.
Proof.
  unfold wf_kids. induction d as [|[k' t'] d IH]; simpl; intros H Ht.
  - rewrite Ht; reflexivity.
  - apply andb_true_iff in H as [H1 H2].
    destruct (String.eqb k k'); simpl.
    + rewrite Ht, H2; reflexivity.
    + rewrite H1, IH; auto.
Qed.

Lemma wf_kids_get k t d : wf_kids d = true -> get k d = Some t -> wf t = true.
Proof.
  unfold wf_kids. rewrite forallb_forall. intros H Hg. apply get_In in Hg.
  apply (H _ Hg).
Qed.

Lemma wf_set k t d : wf (Node d) = true -> wf t = true -> wf (Node (set k t d)) = true.
Proof.
  rewrite !wf_Node, !andb_true_iff. intros [H1 H2] Ht. split.
  - apply nodupb_NoDup, NoDup_keys_set, nodupb_NoDup; exact H1.
  - apply wf_kids_set; assumption.
Qed.

Lemma merge_list_wf us : forall base m,
  (forall k v t b, In (k, v) us -> wf (Node b) = true ->
                   step_val (get k b) v = Ok t -> wf t = true) ->
  wf (Node base) = true -> merge_list us base = Ok m -> wf (Node m) = true.
Proof.
  induction us as [|[k0 v0] rest IH]; intros base m H Hb Hm.
  - simpl in Hm; inversion Hm; subst; exact Hb.
  - cbn [merge_list] in Hm. rewrite merge_step_val in Hm.
    destruct (step_val (get k0 base) v0) as [t0|] eqn:Es; [|discriminate].
    apply (IH (set k0 t0 base) m).
    + intros k v t b HIn Hwb Hst. apply (H k v t b (or_intror HIn) Hwb Hst).
    + apply wf_set; [exact Hb|].
      apply (H k0 v0 t0 base (or_introl eq_refl) Hb Es).
    + exact Hm.
Qed.

Lemma merge_wf : forall u, wf u = true ->
  forall us, u = Node us ->
  forall base m, wf (Node base) = true -> merge_dicts base u = Ok m -> wf (Node m) = true.
Proof.
  induction u as [v | kids IH] using tree_ind'; intros Hwf us Hu base m Hb Hm; [discriminate|].
  inversion Hu; subst us; clear Hu.
  rewrite merge_dicts_Node in Hm.
  destruct (wf_Node_split _ Hwf) as [ND Hkids].
  apply (merge_list_wf kids base m); [|exact Hb|exact Hm].
  intros k v t b HIn Hwb Hst.
  rewrite Forall_forall in IH, Hkids.
  specialize (IH _ HIn). specialize (Hkids _ HIn). simpl in IH, Hkids.
  unfold step_val in Hst.
  destruct (get k b) as [[y|bk]|] eqn:Eb; destruct v as [x|vk]; try discriminate;
    try (inversion Hst; subst; reflexivity).
  - destruct (merge_dicts bk (Node vk)) as [m'|] eqn:Em; [|discriminate].
    inversion Hst; subst.
    apply (IH Hkids vk eq_refl bk m'); [|exact Em].
    rewrite wf_Node, andb_true_iff in Hwb. destruct Hwb as [_ Hwk].
    apply (wf_kids_get _ _ _ Hwk Eb).
  - destruct (merge_dicts [] (Node vk)) as [m'|] eqn:Em; [|discriminate].
    inversion Hst; subst.
    apply (IH Hkids vk eq_refl [] m'); [reflexivity|exact Em].
Qed.

(** ** [copy_dict] of a well-formed dict is that dict *)
Lemma set_notin_app k (t : tree) d : ~ In k (keys d) -> set k t d = d ++ [(k, t)].
Proof.
  induction d as [|[k' t'] d IH]; simpl; intros H; [reflexivity|].
  destruct (String.eqb k k') eqn:E.
  - apply String.eqb_eq in E; subst. exfalso; apply H; left; reflexivity.
  - rewrite IH; [reflexivity | intros H1; apply H; right; exact H1].
Qed.

Lemma merge_list_append us : forall base,
  NoDup (keys us) -> (forall k, In k (keys us) -> ~ In k (keys base)) ->
  (forall k v, In (k, v) us -> step_val None v = Ok v) ->
  merge_list us base = Ok (base ++ us).
Proof.
  induction us as [|[k0 v0] rest IH]; intros base ND Hd Hs.
  - simpl. rewrite app_nil_r; reflexivity.
  - cbn [merge_list]. rewrite merge_step_val.
    assert (get k0 base = None) as Hg.
    { apply get_none_not_in. apply Hd. left; reflexivity. }
    rewrite Hg, (Hs k0 v0 (or_introl eq_refl)).
    rewrite set_notin_app by (apply Hd; left; reflexivity).
    simpl in ND. inversion ND as [|? ? Hn ND']; subst.
    rewrite IH.
    + rewrite <- app_assoc. reflexivity.
    + exact ND'.
    + intros k Hk. unfold keys. rewrite map_app, in_app_iff. simpl.
      intros [H1|[H1|[]]].
      * apply (Hd k (or_intror Hk)); exact H1.
      * subst. contradiction.
    + intros k v HIn. apply (Hs k v). right; exact HIn.
Qed.

Lemma copy_dict_id : forall t, wf t = true -> forall kids, t = Node kids -> copy_dict t = Ok kids.
Proof.
  induction t as [v | kids IH] using tree_ind'; intros Hwf ks Hk; [discriminate|].
  inversion Hk; subst ks; clear Hk.
  unfold copy_dict. rewrite merge_dicts_Node.
  destruct (wf_Node_split _ Hwf) as [ND Hkids].
  rewrite merge_list_append; [reflexivity | exact ND | intros k _ [] |].
  intros k v HIn.
  rewrite Forall_forall in IH, Hkids.
  specialize (IH _ HIn). specialize (Hkids _ HIn). simpl in IH, Hkids.
  unfold step_val. destruct v as [x|vk]; [reflexivity|].
  specialize (IH Hkids vk eq_refl). unfold copy_dict in IH. rewrite IH. reflexivity.
Qed.
