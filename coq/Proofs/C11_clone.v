(** C11: clone() copies every level faithfully; the clone reads like its
    original (under the guard: base conf files already loaded). *)
From InvokeVerif Require Import Common.Tree Common.StrUtil Model.MergeModel Model.ConfigModel
     Spec.C03Spec Proofs.ListFacts Proofs.TreeFacts Proofs.C03_merge Proofs.C03_order.

(** * copy_dict is the identity on well-formed dicts (same keys, same order) *)
Lemma set_notin k t d : ~ In k (keys d) -> set k t d = d ++ [(k, t)].
Proof.
  induction d as [|[k' t'] d IH]; simpl; intros H; [reflexivity|].
  destruct (String.eqb k k') eqn:E.
  - apply String.eqb_eq in E; subst. exfalso; apply H; left; reflexivity.
  - rewrite IH; [reflexivity|]. intros Hin; apply H; right; exact Hin.
Qed.

Definition copy_IH (t : tree) : Prop :=
  wf t = true -> forall kids, t = Node kids -> merge_dicts [] t = Ok kids.

Lemma merge_list_fresh us :
  Forall (fun kt => copy_IH (snd kt)) us -> NoDup (keys us) ->
  Forall (fun kt => wf (snd kt) = true) us ->
  forall base, (forall k, In k (keys us) -> ~ In k (keys base)) ->
  merge_list us base = Ok (base ++ us).
Proof.
  induction us as [|[k v] rest IHl]; intros HIH ND Hwf base Hdis.
  - simpl. rewrite app_nil_r. reflexivity.
  - inversion HIH as [|? ? IH0 HIHr]; subst. inversion ND as [|? ? Hnin NDr]; subst.
    inversion Hwf as [|? ? Hw0 Hwr]; subst. simpl in IH0, Hw0.
    assert (Hk : ~ In k (keys base)) by (apply Hdis; left; reflexivity).
    assert (G : get k base = None) by (apply get_none_not_in; exact Hk).
    assert (Estep : merge_step base k v = Ok (base ++ [(k, v)])).
    { unfold merge_step. rewrite G. destruct v as [x|vk].
      - rewrite set_notin by exact Hk. reflexivity.
      - rewrite (IH0 Hw0 vk eq_refl). rewrite set_notin by exact Hk. reflexivity. }
    cbn [merge_list]. rewrite Estep. rewrite IHl; try assumption.
    + rewrite <- app_assoc. reflexivity.
    + intros k' Hin. unfold keys. rewrite map_app, in_app_iff. simpl.
      intros [H|[H|[]]].
      * revert H. apply Hdis. right; exact Hin.
      * subst. contradiction.
Qed.

Theorem copy_dict_identity : forall kids, wf (Node kids) = true -> copy_dict (Node kids) = Ok kids.
Proof.
  assert (H : forall t, copy_IH t).
  { induction t as [v | us IH] using tree_ind'; intros Hwf kids E; [discriminate|].
    inversion E; subst kids. rewrite merge_dicts_Node.
    apply wf_Node_inv in Hwf as [ND Hk].
    rewrite (merge_list_fresh us IH ND Hk []); [reflexivity|]. intros k _ []. }
  intros kids Hwf. exact (H (Node kids) Hwf kids eq_refl).
Qed.

Lemma copy_tree_identity t : is_node t = true -> wf t = true -> copy_tree t = Ok t.
Proof.
  destruct t as [v|kids]; [discriminate|]. intros _ H. unfold copy_tree.
  rewrite copy_dict_identity by exact H. reflexivity.
Qed.

(** * The guard *)
Definition wf_node (t : tree) : bool := is_node t && wf t.

Definition found_set (f : found) : bool := match f with FNone => false | _ => true end.

Definition result_dict_eqb (r : result dict) (d : dict) : bool :=
  match r with Ok d' => tree_eqb (Node d') (Node d) | Err _ => false end.

(** Every level is a well-formed dict, the cache is the merge of the levels. *)
Definition state_ok (c : cfg) : bool :=
  forallb wf_node [c_defaults c; c_collection c; c_system c; c_user c; c_project c; c_env c;
                   c_runtime c; c_overrides c; Node (c_mods c); Node (c_dels c)] &&
  result_dict_eqb (merge c) (c_cache c).

(** The system and user files have been looked for (always the case unless the
    object was created with [lazy=True] and never completed). *)
Definition base_loaded (c : cfg) : bool := found_set (c_sys_found c) && found_set (c_user_found c).

Definition clone_guard (c : cfg) : bool := state_ok c && base_loaded c.

Lemma result_dict_eqb_eq r d : result_dict_eqb r d = true -> r = Ok d.
Proof.
  destruct r as [d'|e]; simpl; [|discriminate]. intros H.
  change (tree_eqb (Node d') (Node d) = true) in H. apply tree_eqb_eq in H. congruence.
Qed.

Lemma wf_node_inv t : wf_node t = true -> is_node t = true /\ wf t = true.
Proof. unfold wf_node. intros H. apply andb_true_iff in H. exact H. Qed.

(** * clone() without a subclass gives back an equal state *)
Theorem clone_faithful : forall fs c, clone_guard c = true -> clone fs c None = (c, ONone).
Proof.
  intros fs c H. unfold clone_guard, state_ok, base_loaded in H.
  apply andb_true_iff in H as [H Hb]. apply andb_true_iff in H as [Hl Hc].
  apply andb_true_iff in Hb as [Hs Hu].
  apply result_dict_eqb_eq in Hc.
  simpl in Hl. repeat (apply andb_true_iff in Hl as [?H Hl]).
  apply wf_node_inv in H, H0, H1, H2, H3, H4, H5, H6, H7, H8.
  destruct H as [? ?], H0 as [? ?], H1 as [? ?], H2 as [? ?], H3 as [? ?], H4 as [? ?],
           H5 as [? ?], H6 as [? ?], H7 as [? ?], H8 as [? ?].
  unfold clone.
  destruct (c_defaults c) as [v|dk] eqn:Ed; [discriminate|].
  rewrite (copy_dict_identity dk) by assumption.
  rewrite !copy_tree_identity by assumption. cbn [bind].
  rewrite (copy_dict_identity (c_mods c)) by assumption.
  rewrite (copy_dict_identity (c_dels c)) by assumption. cbn [bind].
  unfold load_system, load_user, load_located. cbn [c_sys_found c_user_found].
  assert (Hfin : forall n, strip n = strip c -> remerge n ONone = (c, ONone)).
  { intros n Hn. unfold remerge. rewrite (merge_function_of_levels n c Hn), Hc.
    f_equal. rewrite (strip_eq_set_cache n c Hn), set_cache_twice. destruct c; reflexivity. }
  destruct (c_sys_found c) eqn:Esf; [discriminate| |];
    cbn [c_sys_found c_user_found fst snd];
    (destruct (c_user_found c) eqn:Euf; [discriminate| |]);
    cbn [c_sys_found c_user_found fst snd];
    apply Hfin; destruct c; simpl in *; subst; reflexivity.
Qed.

Corollary clone_view_equal : forall fs c, clone_guard c = true ->
  c_cache (fst (clone fs c None)) = c_cache c /\ snd (clone fs c None) = ONone.
Proof. intros fs c H. rewrite clone_faithful by exact H. split; reflexivity. Qed.

Corollary clone_levels_equal : forall fs c, clone_guard c = true ->
  strip (fst (clone fs c None)) = strip c.
Proof. intros fs c H. rewrite clone_faithful by exact H. reflexivity. Qed.

(** * The guard is kept by the edit operations that succeed ... is future work;
    what is shown here is that construction establishes it for well-formed
    supplied data. *)
