(** C01, wide instance, part 4: no "--" token, the item-level packaging and
    the resulting round-trip theorem. *)
From InvokeVerif Require Import Model.ParserModel Corr.C01Corr Proofs.ListFacts Proofs.C07_fuel
     Proofs.C01_steps Proofs.C01_tokens Proofs.C01_lookup Proofs.C01_occ Proofs.C01_roundtrip
     Proofs.C01_final Proofs.C01_generic2
     Proofs.C01_form_glued Proofs.C01_form_counter Proofs.C01_form_pos Proofs.C01_form_optional
     Proofs.C01_item_glued
     Proofs.C01_occ_nm Proofs.C01_form_glued_nm Proofs.C01_form_counter_nm Proofs.C01_inv
     Proofs.C01_wide Proofs.C01_wide_vals.
From Coq Require Import Lia.

Lemma Forall_repeat {A} (P : A -> Prop) x n : P x -> Forall P (repeat x n).
Proof. intros H. induction n; simpl; constructor; auto. Qed.

Section WideFinal.
Variable cs : list ctxspec.
Variable ic : ctxspec.

(** no token of a covered occurrence is the bare "--" *)
Lemma one_clean c given o :
  guard_w c = true -> occ_wide cs c given o = true ->
  Forall (fun t => t <> "--") (spell_occ c o).
Proof.
  intros G Os. destruct (guard_w_parts c G) as [Gn _].
  destruct (guard_parts_nm c Gn) as [_ [_ [Cl _]]].
  assert (Cf : forall a, nth_error (cx_args c) (o_arg o) = Some a ->
               o_name o < List.length (a_names a) -> clean_flag (flag_of a (o_name o)) = true).
  { intros a Na Lk. apply Cl. eapply in_all_spellings; [exact Na|]. unfold spellings_of.
    apply in_or_app. left. apply flag_of_in. exact Lk. }
  unfold occ_wide in Os. rewrite !orb_true_iff in Os.
  destruct Os as [[[[Os|Os]|Os]|Os]|Os].
  - (* simple: as in spell_occ_clean *)
    unfold occ_simple in Os. unfold spell_occ.
    destruct (nth_error (cx_args c) (o_arg o)) as [a|] eqn:Na; [|discriminate].
    apply andb_true_iff in Os. destruct Os as [Lk Os]. apply Nat.ltb_lt in Lk.
    pose proof (Cf a eq_refl Lk) as Ct.
    destruct (o_form o); try discriminate; destruct (o_val o) as [b|n|s|]; try discriminate.
    + repeat constructor. apply clean_not_ddash. exact Ct.
    + destruct b; [discriminate|]. rewrite !andb_true_iff in Os. destruct Os as [_ Iv].
      destruct (inverse_of a) as [sv|] eqn:Iva; [|discriminate].
      assert (sv = to_flag ("no-" ++ main_name a)).
      { unfold inverse_of in Iva. destruct (a_kind a); try discriminate.
        destruct (a_default a); try discriminate. destruct b; try discriminate. congruence. }
      subst sv. repeat constructor. apply clean_not_ddash. apply Cl.
      eapply in_all_spellings; [exact Na|]. unfold spellings_of. rewrite Iva.
      apply in_or_app. right. left. reflexivity.
    + rewrite !andb_true_iff in Os. destruct Os as [[[[_ _] Pl] _] _].
      repeat constructor; [apply clean_not_ddash; exact Ct | apply plain_not_ddash; exact Pl].
    + repeat constructor. change (("=" ++ s)%string) with (String "=" s). apply eq_form_not_ddash.
  - (* glued: "-c" ++ s with s non-empty has at least three characters *)
    unfold occ_glued in Os. unfold spell_occ.
    destruct (nth_error (cx_args c) (o_arg o)) as [a|]; [|discriminate].
    apply andb_true_iff in Os. destruct Os as [_ Os].
    destruct (o_form o); try discriminate. destruct (o_val o) as [b|n|s|]; try discriminate.
    rewrite !andb_true_iff, !negb_true_iff in Os. destruct Os as [[[[[[[_ _] _] Hne] _] Hlen] _] _].
    apply String.eqb_neq in Hne. apply Nat.eqb_eq in Hlen.
    constructor; [|constructor]. cbn [text_of]. intros C.
    assert (L : String.length (flag_of a (o_name o) ++ s) = 2) by (rewrite C; reflexivity).
    assert (La : forall x y, String.length (x ++ y) = String.length x + String.length y).
    { induction x as [|ch x IH]; intros y; simpl; [reflexivity | now rewrite IH]. }
    rewrite La, Hlen in L. destruct s; [now elim Hne | simpl in L; lia].
  - (* counters *)
    unfold occ_counter in Os. unfold spell_occ.
    destruct (nth_error (cx_args c) (o_arg o)) as [a|] eqn:Na; [|discriminate].
    rewrite !andb_true_iff in Os. destruct Os as [[[Lk _] _] Os]. apply Nat.ltb_lt in Lk.
    pose proof (Cf a eq_refl Lk) as Ct.
    destruct (o_form o); try discriminate; destruct (o_val o) as [b|n|s|]; try discriminate.
    + apply Forall_repeat. now apply clean_not_ddash.
    + apply andb_true_iff in Os. destruct Os as [Hn Hlen]. apply Nat.leb_le in Hn. apply Nat.eqb_eq in Hlen.
      destruct (short_clean_shape _ Ct Hlen) as [ch [E Hch]]. rewrite E.
      cbn [count_of short_letter drop]. destruct n as [|k]; [lia|].
      constructor; [|constructor]. cbn [repeat_str append]. intros C. injection C as C _.
      subst ch. discriminate Hch.
  - (* positional *)
    unfold occ_pos_w in Os. rewrite !andb_true_iff in Os. destruct Os as [[Op _] _].
    unfold occ_positional in Op. unfold spell_occ.
    destruct (nth_error (cx_args c) (o_arg o)) as [a|]; [|discriminate].
    destruct (o_form o); try discriminate. destruct (o_val o) as [b|n|s|]; try discriminate.
    rewrite !andb_true_iff in Op. destruct Op as [[_ Pl] _].
    repeat constructor. now apply plain_not_ddash.
  - (* optional flag with value *)
    unfold occ_optval in Os. unfold spell_occ.
    destruct (nth_error (cx_args c) (o_arg o)) as [a|] eqn:Na; [|discriminate].
    apply andb_true_iff in Os. destruct Os as [Lk Os]. apply Nat.ltb_lt in Lk.
    pose proof (Cf a eq_refl Lk) as Ct.
    destruct (o_form o); try discriminate; destruct (o_val o) as [b|n|s|]; try discriminate.
    + rewrite !andb_true_iff in Os. destruct Os as [[[[[[[_ _] Pl] _] _] _] _] _].
      repeat constructor; [apply clean_not_ddash; exact Ct | apply plain_not_ddash; exact Pl].
    + repeat constructor. change (("=" ++ s)%string) with (String "=" s). apply eq_form_not_ddash.
Qed.

(** ** items *)
Definition item_ok_w (c : ctxspec) (given : list nat) (it : item) : bool :=
  match it with One o => occ_wide cs c given o | Cluster _ => false end.

Definition item_given_w (given : list nat) (it : item) : list nat :=
  match it with One o => one_given given o | Cluster _ => given end.

Definition run_item_w (args : list rarg) (it : item) : list rarg :=
  match it with One o => run_one args o | Cluster _ => args end.

Definition end_ok_w (c : ctxspec) (given : list nat) : bool :=
  opt_nat_eqb (first_missing c given) None.

(** the guard of the wide round-trip theorem: parser_ok, the initial context
    has no required positional, a non-empty chain of calls, each naming its task
    plainly, each task inside [guard_w], each item a covered occurrence form in
    admissible position, all required positionals supplied at the end *)
Definition guard_wide (inv : invocation) : bool :=
  guard_g cs ic guard_w end_ok_w item_ok_w item_given_w inv.

Theorem spell_roundtrip_wide inv :
  parser_ok cs = true -> guard_wide inv = true ->
  exists r,
    parser_parse cs (Some ic) false (spell cs inv) = Ok r /\
    hd_error (pr_ctxs r) = Some (init_ctx ic) /\
    map obs_of_ctx (tl (pr_ctxs r)) = expected cs inv /\
    pr_unparsed r = [] /\ pr_remainder r = "".
Proof.
  intros Pok Gw.
  apply (spell_roundtrip_generic2 cs ic guard_w Inv_w end_ok_w item_ok_w item_given_w run_item_w);
    try assumption.
  - exact Inv_w_init.
  - intros c given args [St _]. exact (sn_shape _ _ _ St).
  - intros c G. destruct (guard_w_parts c G) as [Gn _]. unfold ctx_guard_nm in Gn.
    rewrite !andb_true_iff in Gn. tauto.
  - intros c a G Ha. destruct (guard_w_parts c G) as [Gn _].
    destruct (guard_parts_nm c Gn) as [_ [_ [_ Ld]]]. now apply Ld.
  - intros c given args G Iw E. unfold end_ok_w in E. apply opt_nat_eqb_eq in E.
    now apply (no_missing_of_end c given args).
  - intros c given [o|l] done cur fl got G Os Iw I; [|discriminate].
    exact (one_steps cs (mkP cs (Some ic) false) eq_refl (init_ctx ic) c given o done cur fl got G Os Iw I).
  - intros c given [o|l] args os G Os Iw V; [|discriminate].
    exact (one_vals cs c given o args os G Os Iw V).
  - intros c given [o|l] G Os; [|discriminate]. exact (one_clean c given o G Os).
Qed.
End WideFinal.

(** ** non-vacuity: two chained tasks, a required positional given by position,
    a stacked counter, a glued value, an inverse flag, an optional-value flag
    with "=", a "--name value", an alias, a repeated list flag *)
Definition ex_build : ctxspec :=
  mkCtx (Some "build") ["b"]
    [mkArg ["name"; "n"] KStr ANone true false false None;
     mkArg ["verbose"; "v"] KInt (AInt 0) false false true None;
     mkArg ["out-dir"; "o"] KStr (AStr "x") false false false (Some "out_dir");
     mkArg ["clean"; "c"] KBool (ABool true) false false false None;
     mkArg ["log"; "l"] KStr ANone false true false None;
     mkArg ["jobs"; "j"] KInt (AInt 1) false false false None].

Definition ex_test : ctxspec :=
  mkCtx (Some "test") []
    [mkArg ["exclude"; "e"] KList (AList []) false false false None;
     mkArg ["fast"; "f"] KBool (ABool false) false false false None].

Definition ex_inv : invocation :=
  [mkCall 0 "b" [One (mkOcc 1 1 FStack (VN 2)); One (mkOcc 5 1 FGlued (VS "4"));
                 One (mkOcc 3 0 FInv (VB false)); One (mkOcc 0 0 FPos (VS "thing"));
                 One (mkOcc 4 0 FEq (VS "f")); One (mkOcc 2 0 FNext (VS "y"))];
   mkCall 1 "test" [One (mkOcc 0 1 FNext (VS "a")); One (mkOcc 1 0 FBare (VB true));
                    One (mkOcc 0 0 FEq (VS "b"))]].

Example wide_example :
  parser_ok [ex_build; ex_test] = true /\
  guard_wide [ex_build; ex_test] core_ctx ex_inv = true /\
  spell [ex_build; ex_test] ex_inv =
    ["b"; "-vv"; "-j4"; "--no-clean"; "thing"; "--log=f"; "--out-dir"; "y";
     "test"; "-e"; "a"; "--fast"; "--exclude=b"] /\
  expected [ex_build; ex_test] ex_inv =
    [(Some "build", [("name", AStr "thing"); ("verbose", AInt 2); ("out_dir", AStr "y");
                     ("clean", ABool false); ("log", AStr "f"); ("jobs", AInt 4)]);
     (Some "test", [("exclude", AList ["a"; "b"]); ("fast", ABool true)])].
Proof. repeat split; vm_compute; reflexivity. Qed.
