(** C01 <- C09 bridge for the wide round-trip theorem: the context of a task
    whose signature is inside [C09Spec.guard] and [frag_guard_w] satisfies
    [guard_w] (Proofs/C01_inv.v) -- required positionals allowed. *)
From InvokeVerif Require Import Model.ParserModel Corr.C01Corr Proofs.C01_steps Proofs.C01_occ
     Proofs.C01_occ_nm Proofs.C01_form_counter Proofs.C01_inv.
From InvokeVerif Require Import Model.SigCtxModel Spec.C09Spec
     Proofs.C09_facts Proofs.C09_sig Proofs.C09_ctx Proofs.C09_wf Proofs.C09_main Proofs.C09_flagship.
From InvokeVerif Require Import Model.SigToCtx Proofs.C01_sig_bridge.
From Coq Require Import Lia.

Section BridgeW.
  Variable s : tsig.
  Hypothesis Hg : C09Spec.guard s = true.
  Hypothesis Hf : frag_guard_w s = true.
  Let l := get_arguments s.

  Lemma frag_w_parts :
    list_defaults_plain s = true /\ counters_plain s = true /\ positionals_sane s = true.
  Proof.
    unfold frag_guard_w in Hf. apply andb_true_iff in Hf. destruct Hf as [H H3].
    apply andb_true_iff in H. tauto.
  Qed.

  Lemma per_param (f : argspec -> bool) :
    (forall dc pos p t t', f (arg_opts dc pos p t) = f (arg_opts dc pos p t')) ->
    forallb (fun p => f (arg_of_param s p)) (s_params s) = true ->
    forallb f l = true.
  Proof.
    intros Hind H. apply forallb_forall. intros a Ha.
    destruct (arg_in_params s a Ha) as (p & t & Hp & ->).
    rewrite (Hind _ _ p t []). exact (proj1 (forallb_forall _ _) H p Hp).
  Qed.

  Theorem guard_w_of_sig name aliases : guard_w (CtxModel.mkCtx name aliases l) = true.
  Proof.
    destruct frag_w_parts as (H1 & H2 & H3).
    unfold guard_w, ctx_guard_nm. cbn [cx_args]. unfold l.
    rewrite (their_wf_args s Hg), (their_clean s Hg), (their_names_nodup s Hg). cbn [andb].
    assert (L : forallb list_default_ok l = true).
    { apply (per_param list_default_ok); [reflexivity | exact H1]. }
    assert (C : forallb counter_default_ok l = true).
    { apply (per_param counter_default_ok); [reflexivity|].
      unfold counters_plain in H2. unfold counter_default_ok, countable. exact H2. }
    assert (P : forallb pos_sane l = true).
    { apply (per_param pos_sane); [reflexivity | exact H3]. }
    unfold l in L, C, P. now rewrite L, C, P.
  Qed.
End BridgeW.

Definition task_ok_w (t : taskdef) : bool := C09Spec.guard (t_sig t) && frag_guard_w (t_sig t).

Theorem wf_ctxs_of_wf_sigs_w ts :
  forallb task_ok_w ts = true ->
  exists cs, ctxs_of_tasks ts = Ok cs /\
             map cx_name cs = map (fun t => Some (t_name t)) ts /\
             map cx_aliases cs = map t_aliases ts /\
             forallb guard_w cs = true.
Proof.
  induction ts as [|t ts IH]; intros H.
  - exists []. repeat split.
  - cbn [forallb] in H. apply andb_true_iff in H. destruct H as [Ht Hts].
    unfold task_ok_w in Ht. apply andb_true_iff in Ht. destruct Ht as [Hg Hf].
    destruct (IH Hts) as (cs & Ecs & Ens & Eas & Gcs).
    exists (CtxModel.mkCtx (Some (t_name t)) (t_aliases t) (get_arguments (t_sig t)) :: cs).
    cbn [ctxs_of_tasks]. unfold ctx_of_task. rewrite (build_ctx_ok _ Hg), Ecs.
    repeat split; cbn.
    + now rewrite Ens.
    + now rewrite Eas.
    + now rewrite (guard_w_of_sig _ Hg Hf), Gcs.
Qed.

(** non-vacuity: a task with a required positional, a counter, an optional-value
    flag and a default-true boolean *)
Example bridge_w_example :
  let t := mkTask "deploy" ["d"]
             (mkSig [mkParam "target" DEmpty; mkParam "verbose" (DInt 0);
                     mkParam "log" DNone; mkParam "clean" (DBool true)]
                    (mkDeco None ["log"] [] ["verbose"] true)) in
  task_ok_w t = true /\
  exists c, ctx_of_task t = Ok c /\ guard_w c = true /\
            first_missing c [] = Some 0.
Proof. cbv zeta. split; [vm_compute; reflexivity|]. eexists. split; [vm_compute; reflexivity|]. split; vm_compute; reflexivity. Qed.
