(** Control flow of [Runner.run] / [_run_body] / [_finish] / [Promise.join] /
    [stop] as an event-driven state machine (C08, C14).  DESIGN Appendix C.

    The environment is a totally ordered script of events; after each event the
    main thread runs as far as it can ([advance]).  Workers: stdout always,
    stdin iff an input stream is given, stderr iff no pty.

      [EChunk w]   reader [w] (out/err) gets a non-empty read
      [EEof w]     reader [w] gets an empty read and finishes
      [EExit c]    the process ends with status [c]
      [EExitKbd c] the process ends, the wait loop's poll observes (pty: reaps) it
                   and a KeyboardInterrupt is delivered right after that poll,
                   before the loop is left
      [ETimer]     the timeout timer expires (runs [kill] if still armed)
      [EExc w k]   worker [w] dies with an exception of kind [k] at its next
                   blocking call
      [EKbd]       KeyboardInterrupt inside [wait]

    After the script every reader gets EOF, unless a descendant of the command
    keeps that pipe open ([c_hold_out]/[c_hold_err]); a [join] with the 1 s
    timeout then expires, a [join] without timeout never returns ([PHang]).

    Faithful oddities (see the findings): [timed_out] is "timer no longer alive"
    whenever it fired (F-C14a); under a pty a second poll after
    the child was reaped raises ChildProcessError (F-C08b); a pty start failure
    happens in the forked child, the parent carries on (F-C08a); [kill] reaches
    the shell only, not whoever else holds the pipes (F-C14b); the child is
    reaped only by the wait loop's poll, which is skipped once a worker is dead
    (F-C08d).  No proofs here. *)
From InvokeVerif Require Export Common.Tree Common.StrUtil.

Inductive who := WOut | WIn | WErr.
Inductive exk := XOther | XWatcher.

Inductive ev :=
| EChunk (w : who)
| EEof (w : who)
| EExit (c : Z)
| EExitKbd (c : Z)
| ETimer
| EExc (w : who) (k : exk)
| EKbd.

Record cfg := mkCfg {
  c_pty : bool;
  c_in : bool;           (* an input stream is given: stdin worker exists *)
  c_timeout : bool;      (* a timeout is in effect: [start_timer] arms a timer *)
  c_warn : bool;
  c_async : bool;        (* asynchronous=True, result through Promise.join *)
  c_start_fail : bool;   (* the shell cannot be executed *)
  c_hold_out : bool;     (* somebody else keeps the stdout pipe open after the script *)
  c_hold_err : bool
}.

Inductive wstate := WAbsent | WRun | WDone | WDead (k : exk).
Inductive tstate := TNone | TArmed | TFired | TCancelled.

Inductive outcome :=
| OResult | OUnexpectedExit | OFailure | OTimedOut | OThreadException
| OChildProcessError | OStartError
| OOther.        (* never produced by the model: any other exception class observed *)

Inductive pc :=
| PWait                                               (* in the wait loop *)
| PJoin (todo : list who) (cur : option bool) (echild : bool)
      (* joining the head of [todo]; [cur = Some bounded] once blocked in that join;
         [echild]: ChildProcessError pending, raised after the finally block *)
| PDone (o : outcome)
| PHang.                                              (* blocked for ever in a join without timeout *)

(** control state *)
Record ctl := mkCtl {
  s_proc : option Z;        (* exit status once the process has ended *)
  s_reaped : bool;          (* the wait loop has seen it *)
  s_out : wstate; s_in : wstate; s_err : wstate;
  s_flag : bool;            (* program_finished *)
  s_timer : tstate;
  s_pc : pc
}.

(** counters (resources and bookkeeping) *)
Record cnt := mkCnt {
  n_kills : nat; n_kills_after_exit : nat;
  n_intr : nat;             (* interrupts forwarded (writes of \x03) *)
  n_stop : nat;             (* stop() calls *)
  n_out : nat; n_err : nat; (* reads captured *)
  n_expired : nat;          (* joins that ran into their 1 s timeout *)
  n_steps : nat;            (* main-thread transitions + events processed *)
  n_joins : list (who * bool)   (* every thread.join call, in order: worker, "with the 1 s timeout" *)
}.

Definition st := (ctl * cnt)%type.

Definition wget (k : ctl) (w : who) : wstate :=
  match w with WOut => s_out k | WIn => s_in k | WErr => s_err k end.

Definition wset (k : ctl) (w : who) (x : wstate) : ctl :=
  match w with
  | WOut => mkCtl (s_proc k) (s_reaped k) x (s_in k) (s_err k) (s_flag k) (s_timer k) (s_pc k)
  | WIn => mkCtl (s_proc k) (s_reaped k) (s_out k) x (s_err k) (s_flag k) (s_timer k) (s_pc k)
  | WErr => mkCtl (s_proc k) (s_reaped k) (s_out k) (s_in k) x (s_flag k) (s_timer k) (s_pc k)
  end.

Definition set_pc (k : ctl) (p : pc) : ctl :=
  mkCtl (s_proc k) (s_reaped k) (s_out k) (s_in k) (s_err k) (s_flag k) (s_timer k) p.
Definition set_proc (k : ctl) (p : option Z) : ctl :=
  mkCtl p (s_reaped k) (s_out k) (s_in k) (s_err k) (s_flag k) (s_timer k) (s_pc k).
Definition set_reaped (k : ctl) : ctl :=
  mkCtl (s_proc k) true (s_out k) (s_in k) (s_err k) (s_flag k) (s_timer k) (s_pc k).
Definition set_timer (k : ctl) (t : tstate) : ctl :=
  mkCtl (s_proc k) (s_reaped k) (s_out k) (s_in k) (s_err k) (s_flag k) t (s_pc k).

Definition add_steps (n : nat) (c : cnt) : cnt :=
  mkCnt (n_kills c) (n_kills_after_exit c) (n_intr c) (n_stop c) (n_out c) (n_err c) (n_expired c)
        (n + n_steps c) (n_joins c).
Definition add_intr (c : cnt) : cnt :=
  mkCnt (n_kills c) (n_kills_after_exit c) (S (n_intr c)) (n_stop c) (n_out c) (n_err c) (n_expired c)
        (n_steps c) (n_joins c).
Definition add_stop (c : cnt) : cnt :=
  mkCnt (n_kills c) (n_kills_after_exit c) (n_intr c) (S (n_stop c)) (n_out c) (n_err c) (n_expired c)
        (n_steps c) (n_joins c).
Definition add_kill (after_exit : bool) (c : cnt) : cnt :=
  mkCnt (S (n_kills c)) (if after_exit then S (n_kills_after_exit c) else n_kills_after_exit c)
        (n_intr c) (n_stop c) (n_out c) (n_err c) (n_expired c) (n_steps c) (n_joins c).
Definition add_read (w : who) (c : cnt) : cnt :=
  mkCnt (n_kills c) (n_kills_after_exit c) (n_intr c) (n_stop c)
        (match w with WOut => S (n_out c) | _ => n_out c end)
        (match w with WErr => S (n_err c) | _ => n_err c end) (n_expired c) (n_steps c) (n_joins c).
Definition add_expired (c : cnt) : cnt :=
  mkCnt (n_kills c) (n_kills_after_exit c) (n_intr c) (n_stop c) (n_out c) (n_err c) (S (n_expired c))
        (n_steps c) (n_joins c).

Definition add_join (w : who) (bounded : bool) (c : cnt) : cnt :=
  mkCnt (n_kills c) (n_kills_after_exit c) (n_intr c) (n_stop c) (n_out c) (n_err c) (n_expired c)
        (n_steps c) (n_joins c ++ [(w, bounded)]).

Definition is_run (x : wstate) : bool := match x with WRun => true | _ => false end.
Definition is_dead (x : wstate) : bool := match x with WDead _ => true | _ => false end.
Definition is_dead_k (k : exk) (x : wstate) : bool :=
  match x, k with WDead XOther, XOther | WDead XWatcher, XWatcher => true | _, _ => false end.
Definition present (x : wstate) : bool := match x with WAbsent => false | _ => true end.

Definition any_dead (k : ctl) : bool := is_dead (s_out k) || is_dead (s_in k) || is_dead (s_err k).
Definition any_dead_k (x : exk) (k : ctl) : bool :=
  is_dead_k x (s_out k) || is_dead_k x (s_in k) || is_dead_k x (s_err k).

Definition zero_cnt : cnt := mkCnt 0 0 0 0 0 0 0 0 [].

(** does [start] raise in the calling process?  (Popen does; under a pty
    os.execve raises in the forked CHILD and the parent just sees a pid) *)
Definition start_raises (c : cfg) : bool := c_start_fail c && negb (c_pty c).

(** [run]: [_setup], [start], [start_timer], [create_io_threads], thread start. *)
Definition init (c : cfg) : st :=
  if start_raises c then
    (* run()'s finally calls stop() unless asynchronous *)
    (mkCtl None false WAbsent WAbsent WAbsent false TNone (PDone OStartError),
     if c_async c then zero_cnt else add_stop zero_cnt)
  else
    (mkCtl None false WRun (if c_in c then WRun else WAbsent) (if c_pty c then WAbsent else WRun)
           false (if c_timeout c then TArmed else TNone) PWait,
     zero_cnt).

(** creation order of the workers = join order *)
Definition join_order (k : ctl) : list who :=
  filter (fun w => present (wget k w)) [WOut; WIn; WErr].

(** [_thread_join_timeout]: never for the stdin worker; for stdout/stderr 1 s iff
    the out/err sibling is dead or (since the fix of F-C08c) the stdin worker is *)
Definition join_bounded (k : ctl) (w : who) : bool :=
  match w with
  | WIn => false
  | WOut => is_dead (s_err k) || is_dead (s_in k)
  | WErr => is_dead (s_out k) || is_dead (s_in k)
  end.

(** the rule before that fix (historical record only) *)
Definition join_bounded_legacy (k : ctl) (w : who) : bool :=
  match w with
  | WIn => false
  | WOut => is_dead (s_err k)
  | WErr => is_dead (s_out k)
  end.

(** tail of [_finish] *)
Definition decide (c : cfg) (k : ctl) (echild : bool) : outcome :=
  if echild then OChildProcessError
  else if any_dead_k XOther k then OThreadException
  else if any_dead_k XWatcher k then OFailure
  else if c_timeout c && negb (match s_timer k with TArmed => true | _ => false end) then OTimedOut
  else if (match s_proc k with Some 0%Z => true | _ => false end) || c_warn c then OResult
  else OUnexpectedExit.

(** outcome settled; [stop] cancels the timer *)
Definition do_stop (c : cfg) (s : st) (echild : bool) : st :=
  let k := fst s in
  (mkCtl (s_proc k) (s_reaped k) (s_out k) (s_in k) (s_err k) (s_flag k)
         (match s_timer k with TArmed => TCancelled | t => t end) (PDone (decide c k echild)),
   add_steps 1 (add_stop (snd s))).

(** the finally block of [_finish]: join the workers in creation order until one
    of them is still running (then the main thread is blocked in that join) *)
(** [thread.join(self._thread_join_timeout(target))]: noted once per join call
    ([cur = None]: the call is being made now; [Some _]: still inside it) *)
Definition join_note (cur : option bool) (k : ctl) (w : who) (n : cnt) : cnt :=
  match cur with None => add_join w (join_bounded k w) n | Some _ => n end.

Fixpoint run_joins (c : cfg) (s : st) (todo : list who) (cur : option bool) (echild : bool) : st :=
  match todo with
  | [] => do_stop c s echild
  | w :: rest =>
      if is_run (wget (fst s) w) then
        (set_pc (fst s) (PJoin (w :: rest)
                               (Some (match cur with Some b => b | None => join_bounded (fst s) w end))
                               echild),
         add_steps 1 (join_note cur (fst s) w (snd s)))
      else run_joins c (fst s, add_steps 1 (join_note cur (fst s) w (snd s))) rest None echild
  end.

(** leaving the wait loop: [program_finished.set()]; the stdin worker then leaves
    its loop by itself *)
Definition leave_wait (c : cfg) (s : st) (echild : bool) : st :=
  let k := fst s in
  let k1 := mkCtl (s_proc k) (s_reaped k) (s_out k) (if is_run (s_in k) then WDone else s_in k) (s_err k)
                  true (s_timer k) (s_pc k) in
  run_joins c (k1, add_steps 1 (snd s)) (join_order k1) None echild.

(** the main thread runs as far as it can *)
Definition advance (c : cfg) (s : st) : st :=
  match s_pc (fst s) with
  | PWait =>
      match s_proc (fst s) with
      | Some _ => leave_wait c (set_reaped (fst s), snd s) false     (* poll sees the exit *)
      | None => if any_dead (fst s) then leave_wait c s false else s
      end
  | PJoin todo cur echild => run_joins c s todo cur echild
  | PDone _ | PHang => s
  end.

Definition running (k : ctl) : bool :=
  match s_pc k with PDone _ | PHang => false | _ => true end.

(** effect of one environment event (nothing happens once run() is over) *)
Definition apply_ev (c : cfg) (s : st) (e : ev) : st :=
  let k := fst s in
  if negb (running k) then s else
  match e with
  | EChunk w =>
      match w with
      | WIn => s
      | _ => if is_run (wget k w) then (k, add_read w (snd s)) else s
      end
  | EEof w =>
      match w with
      | WIn => s
      | _ => if is_run (wget k w) then (wset k w WDone, snd s) else s
      end
  | EExit code =>
      match s_proc k with
      | None => (set_proc k (Some code), snd s)
      | Some _ => s
      end
  | EExitKbd code =>
      let p := match s_proc k with None => Some code | x => x end in
      match s_pc k with
      | PWait =>
          (* the poll sees (reaps) the exit, KeyboardInterrupt, \x03 forwarded, loop again:
             the second poll raises ChildProcessError under a pty *)
          leave_wait c (set_reaped (set_proc k p), add_intr (snd s)) (c_pty c)
      | _ => (set_proc k p, snd s)
      end
  | ETimer =>
      match s_timer k with
      | TArmed =>
          match s_proc k with
          | None => (set_timer (set_proc k (Some (-9)%Z)) TFired, add_kill false (snd s))
          | Some _ => (set_timer k TFired, add_kill true (snd s))
          end
      | _ => s
      end
  | EExc w x => if is_run (wget k w) then (wset k w (WDead x), snd s) else s
  | EKbd =>
      match s_pc k with
      | PWait => (k, add_intr (snd s))
      | _ => s
      end
  end.

Definition step (c : cfg) (s : st) (e : ev) : st :=
  let s1 := apply_ev c s e in advance c (fst s1, add_steps 1 (snd s1)).

Definition run_events (c : cfg) (s : st) (script : list ev) : st := fold_left (step c) script s.

(** after the script: EOF for every reader nobody else holds open ... *)
Definition drain_eof (c : cfg) (k : ctl) : ctl :=
  let k1 := if is_run (s_out k) && negb (c_hold_out c) then wset k WOut WDone else k in
  if is_run (s_err k1) && negb (c_hold_err c) then wset k1 WErr WDone else k1.

(** ... a join with the 1 s timeout expires, a join without one hangs *)
Definition expire (c : cfg) (s : st) : st :=
  match s_pc (fst s) with
  | PJoin (w :: rest) (Some true) echild =>
      run_joins c (fst s, add_steps 1 (add_expired (snd s))) rest None echild
  | PJoin (_ :: _) (Some false) _ => (set_pc (fst s) PHang, snd s)
  | _ => s
  end.

Definition drain (c : cfg) (s : st) : st :=
  if negb (running (fst s)) then s else
  let s1 := advance c (drain_eof c (fst s), snd s) in
  expire c (expire c s1).

Definition run_sm (c : cfg) (script : list ev) : st :=
  drain c (run_events c (advance c (init c)) script).

(** * What the correspondence observes *)
Record sm_obs := mkSmObs {
  o_outcome : option outcome;     (* None: run()/join() never came back *)
  o_kills : nat;
  o_kills_after_exit : nat;
  o_intr : nat;
  o_stop : nat;
  o_flag : bool;
  o_alive : list who;             (* workers still alive afterwards *)
  o_timer_armed : bool;           (* timer still armed afterwards *)
  o_timer_fired : bool;
  o_reaped : bool;
  o_nout : nat; o_nerr : nat;     (* reads captured in the result (0 when there is none) *)
  o_joins : list (who * bool)     (* the join calls made: worker, with the 1 s timeout or without *)
}.

Definition has_result (o : outcome) : bool :=
  match o with OResult | OUnexpectedExit | OFailure | OTimedOut => true | _ => false end.

Definition observe (s : st) : sm_obs :=
  let k := fst s in let n := snd s in
  let oc := match s_pc k with PDone o => Some o | _ => None end in
  let res := match oc with Some o => has_result o | None => false end in
  mkSmObs oc (n_kills n) (n_kills_after_exit n) (n_intr n) (n_stop n) (s_flag k)
          (filter (fun w => is_run (wget k w)) [WOut; WIn; WErr])
          (match s_timer k with TArmed => true | _ => false end)
          (match s_timer k with TFired => true | _ => false end)
          (s_reaped k)
          (if res then n_out n else 0) (if res then n_err n else 0) (n_joins n).

(** [timeout] resolution in [_unify_kwargs_with_config]
    ([kwargs.pop("timeout", config_timeout)]): the run() keyword if given -- an
    explicit [timeout=None] counts as given and switches a configured timeout off --
    else config.timeouts.command (which -T sets).  A timeout of 0 is a timeout. *)
Definition effective_timeout (kwarg : option (option nat)) (config : option nat) : option nat :=
  match kwarg with Some v => v | None => config end.
