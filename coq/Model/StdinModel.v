(** [Runner.handle_stdin] / [read_our_stdin] over a script of reads.

    One loop iteration = one read of the input stream:
      [SNotReady]  the stream is not ready ([read_our_stdin] returns None)
      [SData u]    the read returned the unit [u]: code points for a text-mode
                   stream, bytes for a byte-mode stream -- which the code decodes
                   PER READ ([self.decode(bytes_)], one byte at a time for
                   non-terminal streams: F-C13)
      [SEof]       the read returned an empty value
      [SFinish]    not a read: [program_finished] becomes set before the next read
    Per iteration: data -> encode, write to the child's stdin, echo if asked
    (default: input is a terminal and no pty); empty read -> close the child's
    stdin once unless a pty is used; leave when the program has finished and the
    read produced no data.  After the script every further read is "not ready".
    No proofs here. *)
From InvokeVerif Require Export Model.Utf8Model Common.StdinScript.
Local Open Scope N_scope.

Record sout := mkSout {
  so_writes : list bytes;    (* _write_proc_stdin calls of the stdin worker, in order *)
  so_closes : nat;           (* close_proc_stdin calls *)
  so_echo : list text;       (* writes to the output stream *)
  so_terminated : bool;      (* the loop was left *)
  so_died : bool             (* the worker died (text not encodable in the effective encoding) *)
}.

Definition unit_text (m : in_mode) (e : enc) (u : list N) : text :=
  match m with MText => u | MBytes => decode_all e u end.

(** [should_echo_stdin] unless overridden by [echo_stdin]. *)
Definition echo_effective (echo : option bool) (pty tty : bool) : bool :=
  match echo with Some b => b | None => negb pty && tty end.

Definition so_cons_write (w : bytes) (ec : list text) (o : sout) : sout :=
  mkSout (w :: so_writes o) (so_closes o) (ec ++ so_echo o) (so_terminated o) (so_died o).
Definition so_add_close (n : nat) (o : sout) : sout :=
  mkSout (so_writes o) (n + so_closes o) (so_echo o) (so_terminated o) (so_died o).

Definition so_done (closes : nat) : sout := mkSout [] closes [] true false.
Definition so_running : sout := mkSout [] 0 [] false false.
Definition so_dead : sout := mkSout [] 0 [] true true.

Fixpoint handle_stdin (m : in_mode) (e : enc) (pty : bool) (echo : bool)
         (closed finished : bool) (script : list sread) : sout :=
  match script with
  | [] => if finished then so_done 0 else so_running
  | SFinish :: r => handle_stdin m e pty echo closed true r
  | SNotReady :: r => if finished then so_done 0 else handle_stdin m e pty echo closed finished r
  | SEof :: r =>
      let c := if negb pty && negb closed then 1%nat else 0%nat in
      if finished then so_done c
      else so_add_close c (handle_stdin m e pty echo (closed || negb pty) finished r)
  | SData u :: r =>
      match unit_text m e u with
      | [] =>                                    (* empty value = EOF *)
          let c := if negb pty && negb closed then 1%nat else 0%nat in
          if finished then so_done c
          else so_add_close c (handle_stdin m e pty echo (closed || negb pty) finished r)
      | t =>
          match encode e t with
          | None => so_dead
          | Some w => so_cons_write w (if echo then [t] else [])
                                    (handle_stdin m e pty echo closed finished r)
          end
      end
  end.

(** The stdin side of a run as C13 observes it.  [si_stream = None]:
    [in_stream=False], no stdin worker at all. *)
Record stdin_in := mkSin {
  si_enc : enc;
  si_stream : option (in_mode * bool);     (* mode, isatty *)
  si_echo : option bool;                   (* echo_stdin *)
  si_pty : bool;
  si_script : list sread;
  si_responses : list text                 (* watcher responses, in order (written by the output workers) *)
}.

Record stdin_obs := mkSobs {
  sb_received : option bytes;  (* bytes the stdin worker wrote to the child's stdin; None: encode failure *)
  sb_closes : nat;
  sb_echo : text;
  sb_terminated : bool;
  sb_responses : option bytes  (* bytes written by watcher responses *)
}.

Fixpoint encode_all (e : enc) (l : list text) : option bytes :=
  match l with
  | [] => Some []
  | t :: r => match encode e t, encode_all e r with
              | Some a, Some b => Some (a ++ b)
              | _, _ => None
              end
  end.

Definition stdin_model (i : stdin_in) : stdin_obs :=
  let resp := encode_all (si_enc i) (si_responses i) in
  match si_stream i with
  | None => mkSobs (Some []) 0 [] true resp
  | Some (m, tty) =>
      let o := handle_stdin m (si_enc i) (si_pty i) (echo_effective (si_echo i) (si_pty i) tty)
                            false false (si_script i) in
      mkSobs (if so_died o then None else Some (List.concat (so_writes o)))
             (so_closes o) (List.concat (so_echo o)) (so_terminated o) resp
  end.
