(** invoke/collection.py (+ vendor/lexicon, program.py listings): what the
    current code does, defects included.  No proofs here. *)
From InvokeVerif Require Export Common.Namespace Model.MergeModel.

(** * [Collection.transform] *)
(** Walks the characters with the *original* previous character; the first and
    the last character are never rewritten, nor is a character next to a dot. *)
Fixpoint transform_aux (from to : ascii) (prev : option ascii) (s : string) : string :=
  match s with
  | EmptyString => EmptyString
  | String c s' =>
      let c' :=
        match prev, s' with
        | Some p, String nx _ =>
            if Ascii.eqb c from && negb (Ascii.eqb p ".") && negb (Ascii.eqb nx ".")
            then to else c
        | _, _ => c
        end in
      String c' (transform_aux from to (Some c) s')
  end.

Definition transform (auto_dash : bool) (s : string) : string :=
  if auto_dash then transform_aux "_" "-" None s else transform_aux "-" "_" None s.

(** * Lexicon (AttributeDict + AliasDict) *)
(** [_handle]: a key found in [aliases] is redirected to its target, again
    through [_handle].  An alias cycle is Python's RecursionError: fuel
    [S (length aliases)] is exact (a longer chain must repeat an alias). *)
Fixpoint resolve (fuel : nat) (als : list (string * string)) (k : string) : option string :=
  match fuel with
  | O => None
  | S f => match assoc k als with
           | Some target => resolve f als target
           | None => Some k
           end
  end.

Definition lex_resolve (als : list (string * string)) (k : string) : option string :=
  resolve (S (List.length als)) als k.

Definition lex_get {A} (d : list (string * A)) (als : list (string * string)) (k : string)
  : result A :=
  match lex_resolve als k with
  | None => Err EOther                      (* RecursionError *)
  | Some k' => match assoc k' d with Some v => Ok v | None => Err EKey end
  end.

Definition lex_contains {A} (d : list (string * A)) (als : list (string * string)) (k : string)
  : result bool :=
  match lex_resolve als k with
  | None => Err EOther
  | Some k' => Ok (match assoc k' d with Some _ => true | None => false end)
  end.

Definition lex_set {A} (d : list (string * A)) (als : list (string * string)) (k : string) (v : A)
  : result (list (string * A)) :=
  match lex_resolve als k with
  | None => Err EOther
  | Some k' => Ok (aset k' v d)
  end.

Definition has_key {A} (k : string) (l : list (string * A)) : bool :=
  match assoc k l with Some _ => true | None => false end.

Definition truthy (o : option string) : bool :=
  match o with Some s => negb (String.eqb s "") | None => false end.

(** * Building *)
Definition new_coll (cname : option string) (ad : bool) : coll :=
  Coll (option_map (transform ad) cname) [] [] [] None ad [].

(** [add_task(task, name=, aliases=, default=)] *)
Definition add_task (c : coll) (t : taskinfo) (name : option string) (als : list string)
           (default : option bool) : result coll :=
  match c with
  | Coll cn tasks aliases subs dflt ad cfg =>
      let name0 := match name with Some n => n | None => t_name t end in
      let name1 := transform ad name0 in
      if has_key name1 subs then Err EValue else
      match lex_set tasks aliases name1 t with
      | Err e => Err e
      | Ok tasks' =>
          let aliases' :=
            fold_left (fun acc a => aset (transform ad a) name1 acc) (t_aliases t ++ als) aliases in
          let want_default :=
            match default with Some b => b | None => t_default t end in
          if want_default then
            if truthy dflt then Err EValue
            else Ok (Coll cn tasks' aliases' subs (Some name1) ad cfg)
          else Ok (Coll cn tasks' aliases' subs dflt ad cfg)
      end
  end.

(** [add_collection(coll, name=, default=)] *)
Definition add_collection (c : coll) (sc : coll) (name : option string) (default : bool)
  : result coll :=
  match c with
  | Coll cn tasks aliases subs dflt ad cfg =>
      let name0 := if truthy name then name else c_name sc in
      match name0 with
      | None => Err EValue
      | Some n0 =>
          if String.eqb n0 "" then Err EValue else
          let name1 := transform ad n0 in
          match lex_contains tasks aliases name1 with
          | Err e => Err e
          | Ok true => Err EValue
          | Ok false =>
              let subs' := aset name1 sc subs in
              if default then
                if truthy dflt then Err EValue
                else Ok (Coll cn tasks aliases subs' (Some name1) ad cfg)
              else Ok (Coll cn tasks aliases subs' dflt ad cfg)
          end
      end
  end.

(** [configure(options)]: recursive merge into the stored dict. *)
Definition configure (c : coll) (options : tree) : result coll :=
  match c with
  | Coll cn tasks aliases subs dflt ad cfg =>
      match merge_dicts cfg options with
      | Ok cfg' => Ok (Coll cn tasks aliases subs dflt ad cfg')
      | Err e => Err e
      end
  end.

(** [Collection.from_module(module, auto_dash_names=ad)] for a module with an
    explicit namespace [c] (attribute [ns]): a new collection named after the
    namespace (or the module), whose task and collection Lexicons are
    re-keyed with the new collection's [transform] (values deep-copied, so
    sub-collections keep their own setting), default re-normalised,
    configuration copied.  An explicit namespace that is falsy (no task names
    at all) is ignored and the module's top-level tasks are collected instead
    -- there are none in the modules built here. *)
Definition rekey {A} (ad : bool) (d : list (string * A)) : list (string * A) :=
  fold_left (fun acc kv => aset (transform ad (fst kv)) (snd kv) acc) d [].

Definition first_truthy (a b : option string) : option string := if truthy a then a else b.

Definition reimport (is_empty : bool) (c : coll) (modname : string) (ad : option bool) : result coll :=
  let ad' := match ad with Some b => b | None => true end in
  if is_empty then Ok (new_coll (Some modname) ad')
  else
    match c with
    | Coll cn tasks aliases subs dflt _ cfg =>
        match copy_dict (Node cfg) with
        | Err e => Err e
        | Ok cfg' =>
            Ok (Coll (option_map (transform ad') (first_truthy cn (Some modname)))
                     (rekey ad' tasks)
                     (fold_left (fun acc kv => aset (transform ad' (fst kv)) (transform ad' (snd kv)) acc)
                                aliases [])
                     (rekey ad' subs)
                     (if truthy dflt then option_map (transform ad') dflt else None)
                     ad' cfg')
        end
    end.

(** Run a build script (children are built before they are attached).
    [names_of] stands for [task_names] (defined below), needed for the
    truthiness of an explicit namespace. *)
Section Build.
  Variable names_empty : coll -> bool.

  Fixpoint build_with (it : item) : result coll :=
    match it with
    | ITask _ _ _ _ => Err EOther
    | IMod mn ad nsitem _ _ =>
        match build_with nsitem with
        | Ok c => reimport (names_empty c) c mn ad
        | Err e => Err e
        end
    | ISub cname ad cfg items _ _ =>
        match
          (fix go (l : list item) (c : coll) {struct l} : result coll :=
             match l with
             | [] => Ok c
             | it' :: l' =>
                 match it' with
                 | ITask t n al d =>
                     match add_task c t n al d with Ok c' => go l' c' | Err e => Err e end
                 | ISub _ _ _ _ bn d | IMod _ _ _ bn d =>
                     match build_with it' with
                     | Ok sc =>
                         match add_collection c sc bn d with Ok c' => go l' c' | Err e => Err e end
                     | Err e => Err e
                     end
                 end
             end) items (new_coll cname ad)
        with
        | Ok c => configure c cfg
        | Err e => Err e
        end
    end.
End Build.

(** * Lookup: [task_with_config], [__getitem__], [__contains__], [configuration] *)
(** [_task_with_merged_config]: recursive merge, ours on top. *)
Definition merged_with (ours : dict) (r : result (taskinfo * dict)) : result (taskinfo * dict) :=
  match r with
  | Err e => Err e
  | Ok (t, inner) =>
      match merge_dicts inner (Node ours) with
      | Ok m => Ok (t, m)
      | Err e => Err e
      end
  end.

(** One level of [task_with_config]; [sub k rest] stands for
    [self.collections[k].task_with_config(rest)]. *)
Definition twc_nonempty (sub : string -> string -> result (taskinfo * dict))
           (tasks : list (string * taskinfo)) (aliases : list (string * string))
           (has_sub : string -> bool) (ad : bool) (ours : dict) (nm : string)
  : result (taskinfo * dict) :=
  let nm' := transform ad nm in
  if contains_char "." nm' then
    let '(k, _, rest) := partition_char "." nm' in
    merged_with ours (sub k rest)
  else if has_sub nm' then merged_with ours (sub nm' "")
  else match lex_get tasks aliases nm' with
       | Ok t => Ok (t, ours)
       | Err e => Err e
       end.

Definition twc_step (sub : string -> string -> result (taskinfo * dict))
           (tasks : list (string * taskinfo)) (aliases : list (string * string))
           (has_sub : string -> bool) (dflt : option string) (ad : bool) (cfg : dict)
           (name : string) : result (taskinfo * dict) :=
  match copy_dict (Node cfg) with
  | Err e => Err e
  | Ok ours =>
      if String.eqb name "" then
        match dflt with
        | Some d =>
            if String.eqb d "" then Err EValue else
            (* [return self.task_with_config(self.default)] (since 432fa0a; it
               used to be [self[self.default], ours], dropping whatever
               configuration the default's own lookup accumulated: F-C17b) *)
            twc_nonempty sub tasks aliases has_sub ad ours d
        | None => Err EValue
        end
      else twc_nonempty sub tasks aliases has_sub ad ours name
  end.

Fixpoint task_with_config (c : coll) (name : string) {struct c}
  : result (taskinfo * dict) :=
  match c with
  | Coll _ tasks aliases subs dflt ad cfg =>
      twc_step
        (fun k rest =>
           (fix go (l : list (string * coll)) {struct l} : result (taskinfo * dict) :=
              match l with
              | [] => Err EKey
              | (k', sc) :: l' => if String.eqb k k' then task_with_config sc rest else go l'
              end) subs)
        tasks aliases (fun k => has_key k subs) dflt ad cfg name
  end.

Definition getitem (c : coll) (name : string) : result taskinfo :=
  match task_with_config c name with Ok (t, _) => Ok t | Err e => Err e end.

(** [name in coll]: only KeyError means "no". *)
Definition contains (c : coll) (name : string) : result bool :=
  match getitem c name with
  | Ok _ => Ok true
  | Err EKey => Ok false
  | Err e => Err e
  end.

(** [configuration(taskpath)] for a string path; [configuration()] is
    [copy_dict(_configuration)]. *)
Definition configuration (c : coll) (name : string) : result dict :=
  match task_with_config c name with Ok (_, d) => Ok d | Err e => Err e end.

Definition configuration_none (c : coll) : result dict := copy_dict (Node (c_config c)).

(** * Flattening: [task_names], [to_contexts], the parser's context registry *)
Definition subtask_name (ad : bool) (cn tn : string) : string :=
  (transform ad cn ++ "." ++ transform ad tn)%string.

(** dict primary -> aliases (Python dict assignment: later wins, position kept). *)
Fixpoint task_names (c : coll) : list (string * list string) :=
  match c with
  | Coll _ tasks _ subs _ ad _ =>
      let own :=
        fold_left (fun acc kt => aset (fst kt) (map (transform ad) (t_aliases (snd kt))) acc)
                  tasks [] in
      (fix go (l : list (string * coll)) (acc : list (string * list string)) {struct l}
         : list (string * list string) :=
         match l with
         | [] => acc
         | (cn, sc) :: l' =>
             go l' (fold_left
                      (fun acc ta =>
                         let als := map (subtask_name ad cn) (snd ta) in
                         let als' := if opt_str_eqb (c_default sc) (Some (fst ta))
                                     then als ++ [cn] else als in
                         aset (subtask_name ad cn (fst ta)) als' acc)
                      (task_names sc) acc)
         end) subs own
  end.

(** A parser context as far as C10 cares: name, aliases, the task it was built from. *)
Definition ctx := (string * list string * nat)%type.

Fixpoint ctxs_of (c : coll) (l : list (string * list string)) : result (list ctx) :=
  match l with
  | [] => Ok []
  | (p, als) :: l' =>
      match getitem c p with
      | Ok t => match ctxs_of c l' with
                | Ok r => Ok ((p, als, t_id t) :: r)
                | Err e => Err e
                end
      | Err e => Err e
      end
  end.

Definition to_contexts (c : coll) : result (list ctx) := ctxs_of c (task_names c).

(** [Parser.__init__]: a Lexicon of contexts; duplicates are a ValueError. *)
Definition preg := (list (string * nat) * list (string * string))%type.

Definition preg_has (r : preg) (k : string) : bool := has_key k (fst r) || has_key k (snd r).

Fixpoint preg_aliases (als : list string) (name : string) (r : preg) : result preg :=
  match als with
  | [] => Ok r
  | a :: rest =>
      if preg_has r a then Err EValue
      else preg_aliases rest name (fst r, aset a name (snd r))
  end.

Fixpoint parser_init (cs : list ctx) (r : preg) : result preg :=
  match cs with
  | [] => Ok r
  | (name, als, tid) :: rest =>
      if String.eqb name "" then Err EValue
      else if preg_has r name then Err EValue
      else match preg_aliases als name (aset name tid (fst r), snd r) with
           | Ok r' => parser_init rest r'
           | Err e => Err e
           end
  end.

Definition parser_of (c : coll) : result preg :=
  match to_contexts c with
  | Ok cs => parser_init cs ([], [])
  | Err e => Err e
  end.

(** the context a CLI token selects: its (primary) name *)
Definition preg_primary (r : preg) (tok : string) : option string :=
  if has_key tok (fst r) then Some tok else assoc tok (snd r).

(** [Program.run([prog, tok])] for an argument-less task: the parser picks the
    context, the executor looks its *primary name* up again and runs that. *)
Definition cli_token (c : coll) (tok : string) : result (option nat) :=
  match parser_of c with
  | Err e => Err e
  | Ok r =>
      match preg_primary r tok with
      | None => Ok None                       (* ParseError: nothing runs *)
      | Some p => match getitem c p with
                  | Ok t => Ok (Some (t_id t))
                  | Err e => Err e
                  end
      end
  end.

(** [Program.run([prog])], no task on the command line: the executor runs
    [collection[collection.default]] when there is a default; otherwise the
    program prints its help and runs nothing. *)
Definition cli_default (c : coll) : result (option nat) :=
  match parser_of c with
  | Err e => Err e
  | Ok _ =>
      match c_default c with
      | Some d =>
          if String.eqb d "" then Ok None else
          match getitem c d with
          | Ok t => Ok (Some (t_id t))
          | Err e => Err e
          end
      | None => Ok None
      end
  end.

Definition cli_run (c : coll) (tok : string) : result (option nat) :=
  if String.eqb tok "" then cli_default c else cli_token c tok.

(** [Program.run([prog, "--help", tok])]: per-task help for a parser context,
    showing the docstring of [collection[tok]]; otherwise a parse error. *)
Definition cli_help (c : coll) (tok : string) : result (option nat) :=
  match parser_of c with
  | Err e => Err e
  | Ok r =>
      match preg_primary r tok with
      | None => Ok None
      | Some _ => match getitem c tok with
                  | Ok t => Ok (Some (t_id t))
                  | Err e => Err e
                  end
      end
  end.

(** * Listings ([Program._make_pairs], [Collection.serialized]) *)
Fixpoint insert_by {A} (key : A -> string) (x : A) (l : list A) : list A :=
  match l with
  | [] => [x]
  | y :: l' => if String.ltb (key x) (key y) then x :: y :: l' else y :: insert_by key x l'
  end.

(** stable sort by string key (Python [sorted]) *)
Definition sort_by {A} (key : A -> string) (l : list A) : list A :=
  fold_left (fun acc x => insert_by key x acc) l [].

Definition is_default (dflt : option string) (k : string) : bool := opt_str_eqb dflt (Some k).

(** flat format, no --list-root, no depth limit *)
Fixpoint flat_rows (c : coll) (anc : list string) {struct c} : list row :=
  match c with
  | Coll _ tasks _ subs dflt ad _ =>
      let prefix := join "." anc in
      let dotted (s : string) : string :=
        match anc with [] => s | _ => (prefix ++ "." ++ s)%string end in
      let task_rows :=
        map (fun kt =>
               let als := map (fun a => dotted (transform ad a))
                              (sort_by (fun x => x) (t_aliases (snd kt))) in
               let als' := match anc with
                           | [] => als
                           | _ => if is_default dflt (fst kt) then prefix :: als else als
                           end in
               (0, dotted (fst kt), als', Some (t_id (snd kt))))
            (sort_by fst tasks) in
      task_rows ++
      flat_map (fun k =>
                  (fix find (l : list (string * coll)) {struct l} : list row :=
                     match l with
                     | [] => []
                     | (k', sc) :: l' =>
                         if String.eqb k k' then flat_rows sc (anc ++ [k]) else find l'
                     end) subs)
               (sort_by (fun x => x) (akeys subs))
  end.

(** nested format *)
Fixpoint nested_rows (c : coll) (anc : list string) {struct c} : list row :=
  match c with
  | Coll _ tasks _ subs dflt ad _ =>
      let depth := List.length anc in
      let rel (s : string) : string :=
        match anc with [] => s | _ => ("." ++ s)%string end in
      let task_rows :=
        map (fun kt =>
               let als := map (fun a => rel (transform ad a))
                              (sort_by (fun x => x) (t_aliases (snd kt))) in
               let nm := rel (fst kt) in
               let nm' := if is_default dflt (fst kt) then (nm ++ "*")%string else nm in
               (depth, nm', als, Some (t_id (snd kt))))
            (sort_by fst tasks) in
      task_rows ++
      flat_map (fun k =>
                  (depth, rel k, [], None) ::
                  (fix find (l : list (string * coll)) {struct l} : list row :=
                     match l with
                     | [] => []
                     | (k', sc) :: l' =>
                         if String.eqb k k' then nested_rows sc (anc ++ [k]) else find l'
                     end) subs)
               (sort_by (fun x => x) (akeys subs))
  end.

Definition ostr (o : option string) : string := match o with Some s => s | None => "" end.

(** [serialized()] flattened pre-order: a header row per collection
    (depth, own name, [default], None) followed by its task rows (own names,
    own aliases) and then its sub-collections, sorted by their *own* names. *)
Fixpoint json_rows (c : coll) (depth : nat) {struct c} : list row :=
  match c with
  | Coll nm tasks _ subs dflt ad _ =>
      let header : row :=
        (depth, ostr nm, match dflt with Some d => [d] | None => [] end, None) in
      let task_rows :=
        map (fun t => (S depth, transform ad (t_name t), map (transform ad) (t_aliases t),
                       Some (t_id t)))
            (sort_by t_name (map snd tasks)) in
      (* sub-collections in the order of sorted(values, key=own name): sort the
         (own name, binding key) pairs stably, then fetch by binding key *)
      let order := sort_by fst (map (fun kc => (ostr (c_name (snd kc)), fst kc)) subs) in
      header :: task_rows ++
      flat_map (fun nk =>
                  (fix find (l : list (string * coll)) {struct l} : list row :=
                     match l with
                     | [] => []
                     | (k', sc) :: l' =>
                         if String.eqb (snd nk) k' then json_rows sc (S depth) else find l'
                     end) subs)
               order
  end.

(** [Collection.__bool__] = [bool(self.task_names)] *)
Definition names_empty (c : coll) : bool := match task_names c with [] => true | _ => false end.

Definition build (it : item) : result coll := build_with names_empty it.

(** * Scoped and depth-limited listings: [--list <root>] and [--list-depth N]
    ([Program._make_pairs] in general; [dl] = 0 is "no limit").  A collection
    row that is shown truncated carries its tallies ("2 tasks", "1
    collections"; zero counts are left out) in the alias column. *)
Definition tallies (sc : coll) : list string :=
  (match List.length (c_tasks sc) with O => [] | n => [(nat_str n ++ " tasks")%string] end) ++
  (match List.length (c_subs sc) with O => [] | n => [(nat_str n ++ " collections")%string] end).

Fixpoint pair_rows (nested rooted : bool) (dl : nat) (c : coll) (anc : list string) {struct c} : list row :=
  match c with
  | Coll _ tasks _ subs dflt ad _ =>
      let depth := List.length anc in
      let dots := match anc with [] => rooted | _ => true end in
      let rel (s : string) : string := if dots then ("." ++ s)%string else s in
      let apath := join "." anc in
      let prefix := if negb (String.eqb apath "") && rooted then ("." ++ apath)%string else apath in
      let task_rows :=
        map (fun kt =>
               let als := map (fun a => rel (transform ad a))
                              (sort_by (fun x => x) (t_aliases (snd kt))) in
               let isd := is_default dflt (fst kt) in
               if nested then
                 (depth, (if isd then (rel (fst kt) ++ "*")%string else rel (fst kt)), als,
                  Some (t_id (snd kt)))
               else
                 (0, (prefix ++ rel (fst kt))%string,
                  (if isd then match anc with [] => [] | _ => [prefix] end else []) ++
                  map (fun a => (prefix ++ a)%string) als,
                  Some (t_id (snd kt))))
            (sort_by fst tasks) in
      let truncate := negb (Nat.eqb dl 0) && Nat.leb dl (S depth) in
      task_rows ++
      flat_map (fun k =>
                  (fix find (l : list (string * coll)) {struct l} : list row :=
                     match l with
                     | [] => []
                     | (k', sc) :: l' =>
                         if String.eqb k k' then
                           (if nested then [(depth, rel k, (if truncate then tallies sc else []), None)]
                            else if truncate then [(0, (apath ++ rel k)%string, tallies sc, None)]
                            else []) ++
                           (if truncate then [] else pair_rows nested rooted dl sc (anc ++ [k]))
                         else find l'
                     end) subs)
               (sort_by (fun x => x) (akeys subs))
  end.

(** [Collection.subcollection_from_path]: raw keys, no normalisation *)
Fixpoint sub_at (c : coll) (parts : list string) : option coll :=
  match parts with
  | [] => Some c
  | p :: rest => match assoc p (c_subs c) with
                 | Some sc => sub_at sc rest
                 | None => None
                 end
  end.
