(** invoke/context.py: [Context.command_prefixes] / [command_cwds], [cwd],
    [_prefix_commands], the [cd] / [prefix] context managers (push -- body -- pop in
    a [finally]), [_run], and the command string built by [_sudo].

    A program is a tree of nested blocks around [run] / [sudo] calls; a body may
    raise, and a [try] block around it may catch. *)
From InvokeVerif Require Export Model.OptsModel.

(** [for i, path in reversed(list(enumerate(cwds))): if abs: break] then [cwds[i:]]:
    from the last path starting with "/" or "~" onward; everything when there is none. *)
Fixpoint from_last_abs (l : list string) : list string :=
  match l with
  | [] => []
  | p :: l' => if existsb is_abs l' then from_last_abs l' else p :: l'
  end.

(** [Context.cwd] *)
Definition cwd_of (dirs : list string) : string :=
  match dirs with
  | [] => ""
  | _ => posix_join (map escape_spaces (from_last_abs dirs))
  end.

(** [Context._prefix_commands] *)
Definition prefix_commands (st : cstate) (command : string) : string :=
  let cd := cwd_of (cwds st) in
  let pre := if String.eqb cd "" then prefixes st else ("cd " ++ cd)%string :: prefixes st in
  join " && " (pre ++ [command]).

(** The command string of [Context._sudo]: [user] is the effective user
    ([kwargs.pop("user", config.sudo.user)]), [env] the effective env option
    ([kwargs.get("env")], or [config.run.env] when that is None -- fix c2a3b37). *)
Definition user_flags (user : oval) : string :=
  match user with
  | ONone => ""
  | OStr u => ("-H -u " ++ u ++ " ")%string
  | _ => "-H -u ? "
  end.

Definition env_flags (e : oval) : string :=
  match e with
  | ODict (kv :: d) => ("--preserve-env='" ++ join "," (map fst (kv :: d)) ++ "' ")%string
  | _ => ""
  end.

Definition sudo_command (prompt : string) (user env : oval) (prefixed : string) : string :=
  ("sudo -S -p '" ++ prompt ++ "' " ++ env_flags env ++ user_flags user ++ prefixed)%string.

Definition push (b : block) (st : cstate) : cstate :=
  match b with
  | BCd p => mkC (prefixes st) (cwds st ++ [p])
  | BPrefix p => mkC (prefixes st ++ [p]) (cwds st)
  | BTry => st
  end.

Definition pop (b : block) (st : cstate) : cstate :=
  match b with
  | BCd _ => mkC (prefixes st) (removelast (cwds st))
  | BPrefix _ => mkC (removelast (prefixes st)) (cwds st)
  | BTry => st
  end.

(** How the context managers guard their clean-up.  [cd] and [prefix] are written
    [push; try: yield; finally: pop]: the clean-up runs however the body is left.
    ([CExceptException] -- clean-up in an [except Exception: ...; raise] / [else:]
    pair -- is what they are NOT; it is here so that the restoration theorem is a
    statement about the clause the code uses, not about the shape of [exec].) *)
Inductive clause := CFinally | CExceptException.

Definition cleanup_runs (cl : clause) (x : option xkind) : bool :=
  match cl, x with
  | CFinally, _ => true
  | CExceptException, None => true
  | CExceptException, Some k => is_exception k
  end.

Definition clause_of (b : block) : clause := CFinally.

(** What a [run] raises: the refusal of its options, or UnexpectedExit when the
    command was really run to its end ([_finish]), exited non-zero and warn is off. *)
Definition run_raises (out : outcome) (fails : bool) : option xkind :=
  match o_exc out with
  | Some EType => Some XType
  | Some EValue => Some XValue
  | Some _ => Some XBoom
  | None =>
      match o_started out, o_kind out, o_res out with
      | Some _, RResult, Some r =>
          if fails && negb (truthy (r_opts r Warn)) then Some XUnexpected else None
      | _, _, _ => None
      end
  end.

(** What [_sudo] hands on as [watchers=]: a copy of the given list (None / absent:
    of [config.run.watchers]) plus its own responder (here by the tag "<sudo>"). *)
Definition sudo_tag : string := "<sudo>".
Definition sudo_run_kwargs (c : config) (k : kwargs) : kwargs :=
  let given := match kw k Watchers with
               | Some (OList l) => l
               | Some ONone | None => match cfg_run c Watchers with OList l => l | _ => [] end
               | Some _ => []
               end in
  mkKw (fun o => match o with Watchers => Some (OList (given ++ [sudo_tag])) | _ => kw k o end)
       (kw_timeout k) (kw_extra k).

(** [Context._run]: prefix, then [runner.run(command, **kwargs)] *)
Definition do_run (cc : ctxcfg) (st : cstate) (cmd : string) (k : kwargs) : outcome :=
  run_model (cc_run cc) (cc_parent cc) (prefix_commands st cmd) k.

(** [Context._sudo]: user and password are popped, [env] is only looked at, [watchers]
    is replaced by a list (the given one -- None meaning not given, fix 2644606 -- or
    the configured one, plus sudo's responder; C12's business); everything else
    travels on to [runner.run]. *)
Definition do_sudo (cc : ctxcfg) (st : cstate) (cmd : string) (user_kw : option oval)
           (k : kwargs) : outcome :=
  let user := match user_kw with Some u => u | None => cc_user cc end in
  let env := match kw k Env with
             | Some ONone | None => cfg_run (cc_run cc) Env
             | Some e => e
             end in
  run_model (cc_run cc) (cc_parent cc)
            (sudo_command (cc_prompt cc) user env (prefix_commands st cmd))
            (sudo_run_kwargs (cc_run cc) k).

(** [exec_with cl]: (state afterwards, what [start] received call by call, the
    exception propagating).  [cl] says how each kind of block guards its clean-up. *)
Fixpoint exec_with (cl : block -> clause) (cc : ctxcfg) (s : stmt) (st : cstate) {struct s}
  : cstate * list call * option xkind :=
  match s with
  | SRun cmd k fails =>
      let out := do_run cc st cmd k in (st, [out], run_raises out fails)
  | SSudo cmd u k fails =>
      let out := do_sudo cc st cmd u k in (st, [out], run_raises out fails)
  | SRaise x => (st, [], Some x)
  | SBlock b body =>
      let '(st2, out, r) :=
        (fix go (l : list stmt) (st : cstate) {struct l} : cstate * list call * option xkind :=
           match l with
           | [] => (st, [], None)
           | x :: l' =>
               let '(st', o, r) := exec_with cl cc x st in
               match r with
               | Some _ => (st', o, r)
               | None => let '(st'', o', r') := go l' st' in (st'', o ++ o', r')
               end
           end) body (push b st) in
      match b with
      | BTry => (st2, out, None)          (* the harness's try: catches everything *)
      | _ => (if cleanup_runs (cl b) r then pop b st2 else st2, out, r)
      end
  end.

Fixpoint exec_list_with (cl : block -> clause) (cc : ctxcfg) (l : list stmt) (st : cstate)
  : cstate * list call * option xkind :=
  match l with
  | [] => (st, [], None)
  | x :: l' =>
      let '(st', o, r) := exec_with cl cc x st in
      match r with
      | Some _ => (st', o, r)
      | None => let '(st'', o', r') := exec_list_with cl cc l' st' in (st'', o ++ o', r')
      end
  end.

(** the code in /repo *)
Definition exec := exec_with clause_of.
Definition exec_list := exec_list_with clause_of.

Definition c0 : cstate := mkC [] [].
Definition run_program (cc : ctxcfg) (prog : list stmt) := exec_list cc prog c0.
