(** invoke/context.py: [Context.command_prefixes] / [command_cwds], [cwd],
    [_prefix_commands], the [cd] / [prefix] context managers (push -- body -- pop in
    a [finally]), [_run], and the command string built by [_sudo].

    A program is a tree of nested blocks around [run] / [sudo] calls; a body may
    raise, and a [try] block around it may catch. *)
From InvokeVerif Require Export Model.OptsModel.

(** [for i, path in reversed(list(enumerate(cwds))): if abs: break] then [cwds[i:]]:
    from the last path starting with "/" or "~" onward; everything when there is none. *)
Fixpoint from_last_abs (l : list string) : list string :=
  match l with
  | [] => []
  | p :: l' => if existsb is_abs l' then from_last_abs l' else p :: l'
  end.

(** [Context.cwd] *)
Definition cwd_of (dirs : list string) : string :=
  match dirs with
  | [] => ""
  | _ => posix_join (map escape_spaces (from_last_abs dirs))
  end.

(** [Context._prefix_commands] *)
Definition prefix_commands (st : cstate) (command : string) : string :=
  let cd := cwd_of (cwds st) in
  let pre := if String.eqb cd "" then prefixes st else ("cd " ++ cd)%string :: prefixes st in
  join " && " (pre ++ [command]).

(** The command string of [Context._sudo]: [user] is the effective user
    ([kwargs.pop("user", config.sudo.user)]), [env] the effective env option
    ([kwargs.get("env")], or [config.run.env] when that is None -- fix c2a3b37). *)
Definition user_flags (user : oval) : string :=
  match user with
  | ONone => ""
  | OStr u => ("-H -u " ++ u ++ " ")%string
  | _ => "-H -u ? "
  end.

Definition env_flags (e : oval) : string :=
  match e with
  | ODict (kv :: d) => ("--preserve-env='" ++ join "," (map fst (kv :: d)) ++ "' ")%string
  | _ => ""
  end.

Definition sudo_command (prompt : string) (user env : oval) (prefixed : string) : string :=
  ("sudo -S -p '" ++ prompt ++ "' " ++ env_flags env ++ user_flags user ++ prefixed)%string.

Definition push (b : block) (st : cstate) : cstate :=
  match b with
  | BCd p => mkC (prefixes st) (cwds st ++ [p])
  | BPrefix p => mkC (prefixes st ++ [p]) (cwds st)
  | BTry => st
  end.

Definition pop (b : block) (st : cstate) : cstate :=
  match b with
  | BCd _ => mkC (prefixes st) (removelast (cwds st))
  | BPrefix _ => mkC (removelast (prefixes st)) (cwds st)
  | BTry => st
  end.

Definition no_kwargs : kwargs := mkKw (fun _ => None) None [].
Definition env_kwargs (e : option oval) : kwargs :=
  mkKw (fun o => match o with Env => e | _ => None end) None [].

Definition do_run (cc : ctxcfg) (st : cstate) (cmd : string) : call :=
  o_started (run_model (cc_run cc) (cc_parent cc) (prefix_commands st cmd) no_kwargs).

Definition do_sudo (cc : ctxcfg) (st : cstate) (cmd : string)
           (user_kw env_kw : option oval) : call :=
  let user := match user_kw with Some u => u | None => cc_user cc end in
  let env := match env_kw with
             | Some ONone | None => cfg_run (cc_run cc) Env
             | Some e => e
             end in
  o_started (run_model (cc_run cc) (cc_parent cc)
                       (sudo_command (cc_prompt cc) user env (prefix_commands st cmd))
                       (env_kwargs env_kw)).

(** (state afterwards, calls made, an exception is propagating) *)
Fixpoint exec (cc : ctxcfg) (s : stmt) (st : cstate) {struct s} : cstate * list call * bool :=
  match s with
  | SRun cmd => (st, [do_run cc st cmd], false)
  | SSudo cmd u e => (st, [do_sudo cc st cmd u e], false)
  | SRaise => (st, [], true)
  | SBlock b body =>
      let '(st2, out, r) :=
        (fix go (l : list stmt) (st : cstate) {struct l} : cstate * list call * bool :=
           match l with
           | [] => (st, [], false)
           | x :: l' =>
               let '(st', o, r) := exec cc x st in
               if r then (st', o, true)
               else let '(st'', o', r') := go l' st' in (st'', o ++ o', r')
           end) body (push b st) in
      (* finally: pop; a try block swallows the exception *)
      (pop b st2, out, match b with BTry => false | _ => r end)
  end.

Fixpoint exec_list (cc : ctxcfg) (l : list stmt) (st : cstate) : cstate * list call * bool :=
  match l with
  | [] => (st, [], false)
  | x :: l' =>
      let '(st', o, r) := exec cc x st in
      if r then (st', o, true)
      else let '(st'', o', r') := exec_list cc l' st' in (st'', o ++ o', r')
  end.

Definition c0 : cstate := mkC [] [].
Definition run_program (cc : ctxcfg) (prog : list stmt) := exec_list cc prog c0.
