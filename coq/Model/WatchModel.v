(** invoke/watchers.py ([Responder.pattern_matches], [Responder.submit],
    [FailingResponder.submit]) and the part of invoke/runners.py that drives them
    ([Runner._handle_output] -> [Runner.respond]): after every read the *whole*
    capture buffer of that stream is re-submitted to every watcher, in list order,
    and every response is written to the child's stdin.  [StreamWatcher] is a
    [threading.local]: the stdout thread and the stderr thread each see their own
    [index]/[failure_index]/[tried], freshly initialised.

    [current] is what the code in /repo does now (after fix commits 28f435d and
    380f659): [pattern_matches] moves the index to the END OF THE LAST MATCH, and
    [FailingResponder.submit] materialises the response list before testing it.
    [before_fix] is kept for the historical record only: index := end of the read
    whenever anything matched (F-C12a, lost straddling occurrences) and [tried]
    latched on the first submit because a generator object is always truthy
    (F-C12b). *)
From InvokeVerif Require Export Model.RegexFam.

Record variant := mkV { fix_index : bool; fix_tried : bool }.
Definition current : variant := mkV true true.
Definition before_fix : variant := mkV false false.

(** [Responder.pattern_matches(stream, pattern, index_attr)]:
    (number of matches returned, new value of the index attribute). *)
Definition pattern_matches (v : variant) (p : pattern) (idx : nat) (stream : text)
  : nat * nat :=
  let new := skipn idx stream in
  let ms := marks p 0 new in
  let n := count_true ms in
  (n, if fix_index v then idx + last_end ms
      else if Nat.ltb 0 n then idx + List.length new else idx).

(** Per-thread attributes of a watcher object. *)
Record wstate := mkW { w_index : nat; w_findex : nat; w_tried : bool }.
Definition w0 : wstate := mkW 0 0 false.

(** One [submit(stream)] fully iterated by the caller.
    [None] = [ResponseNotAccepted] raised (before anything was yielded). *)
Definition submit (v : variant) (w : watcher) (s : wstate) (stream : text)
  : option (list string * wstate) :=
  match w with
  | WResp p r =>
      let '(n, i') := pattern_matches v p (w_index s) stream in
      Some (repeat r n, mkW i' (w_findex s) (w_tried s))
  | WFail p r sen =>
      (* the sentinel scan; the pattern scan is on a separate index, so the order
         of the two scans is immaterial (before the fix the generator ran later) *)
      let '(f, fi') := pattern_matches v sen (w_findex s) stream in
      if w_tried s && Nat.ltb 0 f then None
      else
        let '(n, i') := pattern_matches v p (w_index s) stream in
        Some (repeat r n,
              mkW i' fi' (if fix_tried v then w_tried s || Nat.ltb 0 n else true))
  end.

(** [Runner.respond]: watchers in list order; a raising watcher ends the thread. *)
Fixpoint respond (v : variant) (ws : list watcher) (sts : list wstate) (stream : text)
  : list string * list wstate * bool :=
  match ws, sts with
  | w :: ws', s :: sts' =>
      match submit v w s stream with
      | None => ([], s :: sts', true)
      | Some (rs, s') =>
          let '(out, sts'', raised) := respond v ws' sts' stream in
          (rs ++ out, s' :: sts'', raised)
      end
  | _, _ => ([], sts, false)
  end.

(** One IO thread: capture buffer, its thread-local watcher states, dead flag. *)
Record sstate := mkS { s_buf : text; s_w : list wstate; s_dead : bool }.
Definition s0 (ws : list watcher) : sstate := mkS [] (map (fun _ => w0) ws) false.

(** One read of [_handle_output]: append, respond.  A dead thread reads nothing. *)
Definition read_step (v : variant) (ws : list watcher) (s : sstate) (c : text)
  : list string * sstate :=
  if s_dead s then ([], s)
  else
    let buf := s_buf s ++ c in
    let '(out, sts, raised) := respond v ws (s_w s) buf in
    (out, mkS buf sts raised).

(** A single stream fed chunk by chunk: writes per read, and whether it died. *)
Fixpoint feed (v : variant) (ws : list watcher) (s : sstate) (chunks : list text)
  : list (list string) * bool :=
  match chunks with
  | [] => ([], s_dead s)
  | c :: cs =>
      let '(out, s') := read_step v ws s c in
      let '(outs, d) := feed v ws s' cs in
      (out :: outs, d)
  end.

Definition feed_stream v ws chunks := feed v ws (s0 ws) chunks.

(** Both threads under a given interleaving of reads. *)
Fixpoint run_sched (v : variant) (ws : list watcher) (so se : sstate) (sched : list event)
  : list (list string) * (bool * bool) :=
  match sched with
  | [] => ([], (s_dead so, s_dead se))
  | (sid, c) :: rest =>
      if sid then
        let '(out, se') := read_step v ws se (chars c) in
        let '(outs, d) := run_sched v ws so se' rest in (out :: outs, d)
      else
        let '(out, so') := read_step v ws so (chars c) in
        let '(outs, d) := run_sched v ws so' se rest in (out :: outs, d)
  end.

Definition run (v : variant) (ws : list watcher) (sched : list event) :=
  run_sched v ws (s0 ws) (s0 ws) sched.

(** What comes out of the call: nothing, or the class for the way it was driven
    ([_finish]: WatcherError -> Failure; [_sudo]: ResponseNotAccepted -> AuthFailure). *)
Definition outcome_exn (how : via) (raised : bool * bool) : option exn :=
  if fst raised || snd raised then Some (exn_of how) else None.

(** [Context._sudo]'s own watcher: pattern [re.escape(prompt)], response the
    effective password ([kwargs.pop("password", config.sudo.password)]) and a newline. *)
Definition sudo_watcher (su : sudo_info) : watcher :=
  WFail (lit (su_prompt su))
        (password_line (match su_kw_password su with Some p => p | None => su_cfg_password su end))
        (lit ("Sorry, try again." ++ String (ascii_of_nat 10) "")%string).

(** The watchers in effect for one call.
    [run]: [opts["watchers"]] = the keyword argument unless None, else [config.run.watchers]
    ([_unify_kwargs_with_config]); [self.watchers] takes it when truthy, else stays [].
    [_sudo]: the keyword argument unless absent or None (fix 2644606: None means
    "not given", as for run), else [config.run.watchers]; a COPY of it (fix 941d213:
    the caller's list is not touched, so reusing it for another call does not
    accumulate responders) with the sudo watcher appended, handed on as the keyword
    argument.  [kw_ws = None] stands for both "absent" and "explicitly None".
    Driving the objects directly: the list handed over. *)
Definition call_watchers (cfg_ws : list watcher) (kw_ws : option (list watcher))
           (sudo : option sudo_info) : list watcher :=
  match kw_ws with Some l => l | None => cfg_ws end
  ++ match sudo with Some su => [sudo_watcher su] | None => [] end.

(** * The caller's input stream is at end-of-file ([in_stream=StringIO("")], [< /dev/null])

    The stdin worker ([handle_stdin]) then closes the child's stdin straight away
    (no pty).  Every later [write_proc_stdin] raises ValueError: the IO thread that
    wanted to answer dies of it in the first read that has a response, nothing reaches
    the child, and [_finish] raises ThreadException (before looking at watcher
    errors).  F-C12d.  Defined on top of [run]: every read's writes are lost; a thread
    that would have written something died of the ValueError instead. *)
Definition nonempty_writes (l : list (list string)) : bool :=
  existsb (fun o => match o with [] => false | _ => true end) l.

Fixpoint pick_stream {A} (sid : bool) (sched : list event) (l : list A) : list A :=
  match sched, l with
  | (s, _) :: sched', x :: l' =>
      if Bool.eqb s sid then x :: pick_stream sid sched' l' else pick_stream sid sched' l'
  | _, _ => []
  end.

Definition run_eof (v : variant) (ws : list watcher) (sched : list event)
  : list (list string) * (bool * bool) * bool :=
  let '(w, r) := run v ws sched in
  let broke_out := nonempty_writes (pick_stream false sched w) in
  let broke_err := nonempty_writes (pick_stream true sched w) in
  (map (fun _ => []) w,
   (fst r && negb broke_out, snd r && negb broke_err),
   broke_out || broke_err).

Definition outcome_exn_eof (how : via) (raised : bool * bool) (broke : bool) : option exn :=
  if broke then Some XThreadException else outcome_exn how raised.
