(** Types shared by the config model and the C03/C06/C11 specifications:
    abstract file system, operations of a history, outcomes.  No behaviour of
    [Config] is defined here. *)
From InvokeVerif Require Export Common.Tree Common.StrUtil.

(** * Levels and the file system *)
Inductive found := FNone | FTrue | FFalse.

(** What a candidate file holds: parsed data (a tree -- an empty YAML file loads
    as [None] = [Leaf VNone]) or an I/O error other than "no such file". *)
Inductive fentry := FData (t : tree) | FIOErr.

(** Abstract file system: (location, suffix) -> entry; absent = no such file. *)
Definition fsys := list ((string * string) * fentry).

Fixpoint fs_get (fs : fsys) (loc sfx : string) : option fentry :=
  match fs with
  | [] => None
  | ((l, s), e) :: fs' =>
      if (String.eqb l loc && String.eqb s sfx)%bool then Some e else fs_get fs' loc sfx
  end.

(** [Config._file_suffixes], in preference order. *)
Definition file_suffixes : list string := ["yaml"; "yml"; "json"; "py"].

Inductive flavour := Item | Attr.

(** * Operations *)
Inductive op :=
| Get (fl : flavour) (kp : path) (k : string)
| SetV (fl : flavour) (kp : path) (k : string) (v : tree)
| Del (fl : flavour) (kp : path) (k : string)
| Pop (fl : flavour) (kp : path) (k : string) (dflt : option tree)
| PopItem (fl : flavour) (kp : path)
| Clear (fl : flavour) (kp : path)
| SetDefault (fl : flavour) (kp : path) (k : string) (dflt : option tree)
| Update (fl : flavour) (kp : path) (kvs : list (string * tree))
| Contains (fl : flavour) (kp : path) (k : string)
| Len (fl : flavour) (kp : path)
| Keys (fl : flavour) (kp : path)
| LoadDefaults (t : tree)
| LoadOverrides (t : tree)
| LoadCollection (t : tree)
| LoadShellEnv (env : list (string * string))
| LoadSystem
| LoadUser
| LoadProject
| LoadRuntime
| SetProjectLocation (loc : option string)
| SetRuntimePath (p : option (string * string))
| Clone (into_defaults : option tree)
(* the same load calls with [merge=False], and the public [merge()] *)
| LoadDefaultsD (t : tree)
| LoadOverridesD (t : tree)
| LoadCollectionD (t : tree)
| LoadSystemD
| LoadUserD
| LoadProjectD
| LoadRuntimeD
| Merge
(* further dict-protocol accesses *)
| View (fl : flavour) (kp : path)                       (* items() / values() / dict(proxy): the section *)
| EqD (fl : flavour) (kp : path) (same : bool)          (* proxy == its own deep copy / an altered copy *)
| GetM (fl : flavour) (kp : path) (k : string) (dflt : option tree)     (* .get(k[, d]) *)
| UpdateBoth (fl : flavour) (kp : path) (kvs kw : list (string * tree)) (* update(mapping, **kw) *)
| UpdateProxy (fl : flavour) (kp : path) (src : path)   (* update(<another nested proxy>) *)
| RawSet (fl : flavour) (kp : path) (sec k : string) (v : tree)   (* r = c.<kp>.get(sec); r[k] = v *)
| LeafAppend (fl : flavour) (kp : path) (k : string) (s : string). (* c.<kp>[k].append(s) *)

(** Histories may hold proxies: [Hold h fl kp] is [h = c.<kp>], [Via h o] is the
    path operation [o] applied to the held proxy [h] (its paths relative to it). *)
Inductive sop :=
| Plain (o : op)
| Hold (h : nat) (fl : flavour) (kp : path)
| Via (h : nat) (o : op).

(** * Outcomes *)
Inductive outcome :=
| ONone                          (* returned None *)
| OVal (t : tree)                (* a value; sections as their deep dict view *)
| OPair (k : string) (t : tree)  (* popitem *)
| OBool (b : bool)
| ONat (n : nat)
| OKeys (l : list string)
| OErr (e : err).


(** Constructor arguments: [Config(overrides, defaults, project_location,
    runtime_path, lazy)]; the system and user prefixes are fixed ("sys", "usr"). *)
Record init_args := mkInit {
  i_defaults : tree;
  i_overrides : tree;
  i_proj : option string;
  i_rt : option (string * string);
  i_lazy : bool
}.
