(** Bridge from the signature model (Model/SigModel.v, C09) to the parser
    models' context type (Model/CtxModel.v): what Collection.to_contexts builds
    for a task -- ParserContext(name=primary, aliases=aliases,
    args=task.get_arguments()). *)
From InvokeVerif Require Import Model.SigModel.
From InvokeVerif Require Import Model.CtxModel.

Record taskdef := mkTask {
  t_name : string;            (* primary CLI name *)
  t_aliases : list string;
  t_sig : tsig }.

Definition ctx_of_task (t : taskdef) : result ctxspec :=
  build_ctx (Some (t_name t)) (t_aliases t) (get_arguments (t_sig t)).

Fixpoint ctxs_of_tasks (l : list taskdef) : result (list ctxspec) :=
  match l with
  | [] => Ok []
  | t :: l' =>
      match ctx_of_task t with
      | Err e => Err e
      | Ok c => match ctxs_of_tasks l' with
                | Ok cs => Ok (c :: cs)
                | Err e => Err e
                end
      end
  end.

(** ** The signatures inside the fragment of C01_spell_roundtrip_partial
    (boolean, at the level of parameters).  Kind, default, positional,
    optional, incrementable of an argument do not depend on [taken_names]. *)
Definition arg_of_param (s : tsig) (p : param) : argspec :=
  arg_opts (s_deco s) (fill_implicit_positionals s) p [].

(** no positional argument that still lacks a value when the task starts *)
Definition no_required_positional (s : tsig) : bool :=
  forallb (fun p => let a := arg_of_param s p in
                    negb (a_positional a && aval_is_none (arg_value (init_arg a))))
          (s_params s).

(** list parameters are plain lists starting empty (outside F-C01a) *)
Definition list_defaults_plain (s : tsig) : bool :=
  forallb (fun p => let a := arg_of_param s p in
                    match a_kind a with
                    | KList => negb (a_incrementable a)
                               && match a_default a with AList (_ :: _) => false | _ => true end
                    | _ => true
                    end) (s_params s).

Definition frag_guard (s : tsig) : bool := no_required_positional s && list_defaults_plain s.

(** ** The signatures inside the wide fragment (Proofs/C01_wide_final.v):
    required positionals allowed *)
Definition counters_plain (s : tsig) : bool :=
  forallb (fun p => let a := arg_of_param s p in
                    negb (a_incrementable a)
                    || match a_default a with AInt _ | ABool _ => true | _ => false end)
          (s_params s).

Definition positionals_sane (s : tsig) : bool :=
  forallb (fun p => let a := arg_of_param s p in
                    negb (a_positional a && aval_is_none (a_default a) && negb (takes_value a)))
          (s_params s).

Definition frag_guard_w (s : tsig) : bool :=
  list_defaults_plain s && counters_plain s && positionals_sane s.
